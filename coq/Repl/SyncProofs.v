(* Safety of the sync protocol model (Sync.v): for every configuration and every schedule that stays out of the
   three defect windows (always the case for fixed_cfg) each follower's applied sequence is a prefix of the
   leader's log; refutations for the code as written. *)
From Coq Require Import List NArith Bool Lia PeanoNat.
From Slock Require Import Repl.Sync.
Import ListNotations.

(* ------------------------------------------------------------------ list facts *)
Lemma firstn_app_le {A} (l m : list A) k : k <= length l -> firstn k (l ++ m) = firstn k l.
Proof. intros H. rewrite firstn_app. replace (k - length l) with 0 by lia. simpl. apply app_nil_r. Qed.

Lemma firstn_S_nth {A} (l : list A) k r : nth_error l k = Some r -> firstn (S k) l = firstn k l ++ [r].
Proof.
  revert k. induction l as [|x tl IH]; intros [|k] H; simpl in *; try discriminate.
  - inversion H; subst. destruct tl; reflexivity.
  - rewrite (IH _ H). reflexivity.
Qed.

Lemma nth_error_firstn {A} (l : list A) e k r : nth_error (firstn e l) k = Some r -> nth_error l k = Some r.
Proof.
  revert e k. induction l as [|x tl IH]; intros [|e] [|k] H; simpl in *; try discriminate; auto.
  eapply IH; eauto.
Qed.

Lemma prefix_of_app {A} (X Y l : list A) e : X ++ Y = firstn e l -> X = firstn (length X) l.
Proof.
  intros H.
  assert (Hl : length X <= e).
  { assert (length (X ++ Y) <= e) by (rewrite H; apply firstn_le_length). rewrite app_length in H0. lia. }
  assert (firstn (length X) (X ++ Y) = X) by (rewrite firstn_app_le by lia; apply firstn_all).
  rewrite H in H0. rewrite firstn_firstn in H0. rewrite Nat.min_l in H0 by lia. auto.
Qed.

Lemma app_firstn_len {A} (X Y l : list A) e : X ++ Y = firstn e l -> e <= length l -> length X + length Y = e.
Proof. intros H He. rewrite <- app_length, H. apply firstn_length_le. auto. Qed.

Lemma nth_of_app_firstn {A} (X Y l : list A) e r : X ++ r :: Y = firstn e l -> nth_error l (length X) = Some r.
Proof.
  intros H. apply nth_error_firstn with (e := e). rewrite <- H.
  rewrite nth_error_app2 by lia. rewrite Nat.sub_diag. reflexivity.
Qed.

Lemma nth_error_last_app {A} (l : list A) r : nth_error (l ++ [r]) (length l) = Some r.
Proof. rewrite nth_error_app2 by lia. rewrite Nat.sub_diag. reflexivity. Qed.

Lemma rev_last_nth {A} (l : list A) h tl : rev l = h :: tl -> nth_error l (length l - 1) = Some h.
Proof.
  intros H. assert (l = rev tl ++ [h]).
  { rewrite <- (rev_involutive l), H. reflexivity. }
  subst l. rewrite app_length. simpl. replace (length (rev tl) + 1 - 1) with (length (rev tl)) by lia.
  apply nth_error_last_app.
Qed.

(* ------------------------------------------------------------------ ids *)
Lemma id_eqb_eq a b : id_eqb a b = true <-> a = b.
Proof.
  unfold id_eqb. destruct a, b; simpl. rewrite !andb_true_iff, !N.eqb_eq. split.
  - intros [[-> ->] ->]; reflexivity.
  - intros H; inversion H; auto.
Qed.

Lemma id_lt_neq a b : id_lt a b = true -> a <> b.
Proof.
  unfold id_lt. intros H E; subst. rewrite N.ltb_irrefl in H. simpl in H.
  rewrite N.ltb_irrefl, andb_false_r in H. discriminate.
Qed.

Lemma id_lt_trans a b c : id_lt a b = true -> id_lt b c = true -> id_lt a c = true.
Proof.
  unfold id_lt. rewrite !orb_true_iff, !andb_true_iff, !N.ltb_lt, !N.eqb_eq. intros [H|[H1 H2]] [G|[G1 G2]].
  - left; lia. - left; lia. - left; lia. - right; split; lia.
Qed.

Lemma id_lt_asym a b : id_lt a b = true -> id_lt b a = false.
Proof.
  unfold id_lt. rewrite orb_true_iff, andb_true_iff, !N.ltb_lt, N.eqb_eq. intros H.
  apply orb_false_iff; split; [apply N.ltb_ge; lia|].
  apply andb_false_iff. destruct H as [H|[H1 H2]]; [left; apply N.eqb_neq; lia|right; apply N.ltb_ge; lia].
Qed.

(* ------------------------------------------------------------------ leader invariant *)
Record LInv (L : leader) : Prop := mkLInv {
  li_sorted : forall i j ri rj, i < j -> nth_error (log L) i = Some ri -> nth_error (log L) j = Some rj ->
                                id_lt (rid_of ri) (rid_of rj) = true;
  li_below : forall i r t, nth_error (log L) i = Some r -> id_lt (rid_of r) (mkId (fidx L) (foff L + 1) t) = true;
  li_idx : forall i r, nth_error (log L) i = Some r -> (1 <= xidx (rid_of r))%N;
  li_fidx : (1 <= fidx L)%N;
  li_lo : rstart L <= lo L <= length (log L);
  li_lo2 : rstart L < length (log L) -> lo L < length (log L);
  li_mcur : forall r, nth_error (log L) (length (log L) - 1) = Some r -> mcur L = rid_of r }.

Lemma linv_init : LInv (ld init_state).
Proof.
  constructor; simpl; intros; try (destruct i; discriminate); try lia.
  destruct (0 - 1); discriminate.
Qed.

Lemma linv_unique L i j ri rj : LInv L -> nth_error (log L) i = Some ri -> nth_error (log L) j = Some rj ->
  rid_of ri = rid_of rj -> i = j.
Proof.
  intros I Hi Hj E. destruct (Nat.lt_trichotomy i j) as [H|[H|H]]; auto.
  - exfalso. apply (id_lt_neq _ _ (li_sorted L I _ _ _ _ H Hi Hj)); auto.
  - exfalso. apply (id_lt_neq _ _ (li_sorted L I _ _ _ _ H Hj Hi)); auto.
Qed.

Lemma linv_append L t p ev : LInv L -> LInv (l_append L t p ev).
Proof.
  intros I. destruct I as [Srt B X Fx Lo Lo2 M]. unfold l_append. constructor; simpl.
  - intros i j ri rj Hij Hi Hj.
    assert (j < length (log L ++ [mkRec (mkId (fidx L) (foff L + 1) t) p])) by (apply nth_error_Some; congruence).
    rewrite app_length in H; simpl in H.
    destruct (Nat.eq_dec j (length (log L))) as [->|Hne].
    + rewrite nth_error_last_app in Hj. inversion Hj; subst; simpl.
      rewrite nth_error_app1 in Hi by lia. exact (B _ _ _ Hi).
    + rewrite nth_error_app1 in Hi, Hj by lia. exact (Srt _ _ _ _ Hij Hi Hj).
  - intros i r t' Hi.
    assert (i < length (log L ++ [mkRec (mkId (fidx L) (foff L + 1) t) p])) by (apply nth_error_Some; congruence).
    rewrite app_length in H; simpl in H.
    destruct (Nat.eq_dec i (length (log L))) as [->|Hne].
    + rewrite nth_error_last_app in Hi. inversion Hi; subst; simpl. unfold id_lt; simpl.
      rewrite N.eqb_refl. replace (foff L + 1 <? foff L + 1 + 1)%N with true by (symmetry; apply N.ltb_lt; lia).
      apply orb_true_r.
    + rewrite nth_error_app1 in Hi by lia.
      apply id_lt_trans with (b := mkId (fidx L) (foff L + 1) 0); [exact (B _ _ _ Hi)|].
      unfold id_lt; simpl. rewrite N.eqb_refl. replace (foff L + 1 <? foff L + 1 + 1)%N with true by (symmetry; apply N.ltb_lt; lia).
      apply orb_true_r.
  - intros i r Hi.
    assert (i < length (log L ++ [mkRec (mkId (fidx L) (foff L + 1) t) p])) by (apply nth_error_Some; congruence).
    rewrite app_length in H; simpl in H.
    destruct (Nat.eq_dec i (length (log L))) as [->|Hne].
    + rewrite nth_error_last_app in Hi. inversion Hi; subst; simpl. auto.
    + rewrite nth_error_app1 in Hi by lia. exact (X _ _ Hi).
  - auto.
  - rewrite app_length; simpl. lia.
  - rewrite app_length; simpl. lia.
  - intros r. rewrite app_length; simpl. replace (length (log L) + 1 - 1) with (length (log L)) by lia.
    rewrite nth_error_last_app. intros H; inversion H; reflexivity.
Qed.

Lemma id_lt_rotate a fi fo t t' : id_lt a (mkId fi (fo + 1) t) = true -> id_lt a (mkId (fi + 1) (0 + 1) t') = true.
Proof.
  unfold id_lt; simpl. rewrite !orb_true_iff, !andb_true_iff, !N.ltb_lt, !N.eqb_eq. intros [H|[H _]]; left; lia.
Qed.

Lemma linv_rotate L : LInv L -> LInv (l_rotate L).
Proof.
  intros [Srt B X Fx Lo Lo2 M]. unfold l_rotate. constructor; simpl; auto; try lia.
  intros i r t Hi. eapply id_lt_rotate. exact (B i r 0%N Hi).
Qed.

Lemma linv_restart L : LInv L -> LInv (l_restart L).
Proof.
  intros [Srt B X Fx Lo Lo2 M]. unfold l_restart. constructor; simpl; auto; try lia.
  intros r Hr. unfold last_id. destruct (rev (log L)) as [|h tl] eqn:E.
  - assert (log L = []) by (rewrite <- (rev_involutive (log L)), E; reflexivity).
    rewrite H in Hr. simpl in Hr. discriminate.
  - apply rev_last_nth in E. congruence.
Qed.

(* ------------------------------------------------------------------ per-follower invariant *)
Section Safety.
Variable c : cfg.

Definition pos_conn (L : leader) (x : fstate) : Prop :=
  (length (applied x) > 0 -> exists r, nth_error (log L) (length (applied x) - 1) = Some r /\ fcur x = rid_of r) /\
  (length (applied x) = 0 -> early_id c = false -> fcur x = zero_id).

Definition pos_disc (L : leader) (x : fstate) : Prop :=
  (fcur x = zero_id /\ (keep_aoflock c = true -> faof x = false)) \/
  (exists r, length (applied x) > 0 /\ nth_error (log L) (length (applied x) - 1) = Some r /\ fcur x = rid_of r).

(* the live cursor continues the stream exactly at log index e *)
Definition live_cur (L : leader) (x : fstate) (e : nat) : Prop :=
  (cwr x = false /\ cseq x = Some e /\ cptr x = true /\ cbuf x = nth_error (log L) e /\ e < length (log L) /\ rstart L <= e) \/
  (cwr x = true /\ exists p, cseq x = Some p /\ S p = e /\ cptr x = true /\ e <= length (log L) /\ rstart L <= p) \/
  (cwr x = true /\ cseq x = None /\ cptr x = false /\ e = rstart L /\ (fresh_exempt c = true -> lo L = rstart L)).

(* cursor and bound of a full transfer: the files cover log[0,B), the ring continues at B *)
Definition full_cur (L : leader) (x : fstate) (b : rid) (B : nat) : Prop :=
  (forall i r, nth_error (log L) i = Some r -> (id_lt (rid_of r) b = true <-> i < B)) /\
  (forall t, id_lt (mkId (fidx L) (foff L + 1) t) b = false) /\
  B <= length (log L) /\
  live_cur L x B.

Definition srv_live (L : leader) (x : fstate) (e : nat) : Prop :=
  (sph x = SLive /\ live_cur L x e) \/ sph x = SIdle.

Inductive link (L : leader) (x : fstate) : Prop :=
| LkDisc : fph x = FDisc -> s2c x = [] -> c2s x = [] -> sph x = SIdle -> pos_disc L x -> link L x
| LkReqFull : fph x = FWaitResp -> c2s x = [MSync None] -> s2c x = [] -> sph x = SIdle -> fcur x = zero_id -> faof x = false -> link L x
| LkReqResume r : fph x = FWaitResp -> c2s x = [MSync (Some (fcur x))] -> s2c x = [] -> sph x = SIdle -> faof x = true ->
    length (applied x) > 0 -> nth_error (log L) (length (applied x) - 1) = Some r -> fcur x = rid_of r -> link L x
| LkNotFound : fph x = FWaitResp -> c2s x = [] -> s2c x = [MNotFound] -> sph x = SIdle -> pos_disc L x -> link L x
| LkRespFull i b B : fph x = FWaitResp -> c2s x = [] -> s2c x = [MResp i] -> sph x = SWaitStarted true b -> faof x = false ->
    fcur x = zero_id -> full_cur L x b B -> link L x
| LkRespResume i b r : fph x = FWaitResp -> c2s x = [] -> s2c x = [MResp i] -> sph x = SWaitStarted false b -> faof x = true ->
    length (applied x) > 0 -> nth_error (log L) (length (applied x) - 1) = Some r -> fcur x = rid_of r ->
    cwr x = true -> live_cur L x (length (applied x)) -> link L x
| LkStartedFull b B : fph x = FRecvFiles -> c2s x = [MStarted] -> s2c x = [] -> sph x = SWaitStarted true b -> applied x = [] ->
    pos_conn L x -> full_cur L x b B -> link L x
| LkStartedResume b : fph x = FLive -> c2s x = [MStarted] -> s2c x = [] -> sph x = SWaitStarted false b -> pos_conn L x ->
    length (applied x) > 0 -> cwr x = true -> live_cur L x (length (applied x)) -> link L x
| LkFiles xs next b B : fph x = FRecvFiles -> c2s x = [] -> s2c x = map MRec xs -> sph x = SFiles next b -> pos_conn L x ->
    applied x ++ xs = firstn next (log L) -> next <= B -> full_cur L x b B -> link L x
| LkFilesDone xs ys e : fph x = FRecvFiles -> c2s x = [] -> s2c x = map MRec xs ++ MFilesEnd :: map MRec ys -> pos_conn L x ->
    applied x ++ xs ++ ys = firstn e (log L) -> e <= length (log L) -> srv_live L x e -> link L x
| LkLive ys e : fph x = FLive -> c2s x = [] -> s2c x = map MRec ys -> pos_conn L x ->
    applied x ++ ys = firstn e (log L) -> e <= length (log L) -> srv_live L x e -> link L x.

Definition prefix (L : leader) (x : fstate) : Prop := applied x = firstn (length (applied x)) (log L).
Definition finv (L : leader) (x : fstate) : Prop := prefix L x /\ link L x.

(* ---- the three defect windows ---- *)
Definition in_window (x : fstate) : Prop := applied x = [] /\ (fph x = FRecvFiles \/ fph x = FLive).
Definition risky : Prop := early_id c = true \/ keep_aoflock c = true.
Definition fresh_waiting (x : fstate) : Prop := sph x <> SIdle /\ cseq x = None.
Definition full_resp_pending (x : fstate) : Prop :=
  fph x = FWaitResp /\ faof x = false /\ exists i rest, s2c x = MResp i :: rest.

Definition ok_step (s : state) (a : action) : Prop :=
  match a with
  | LAppend _ _ ev => fresh_exempt c = true -> forall f, fresh_waiting (fol s f) ->
                      Nat.min (lo (ld s) + ev) (length (log (ld s))) = lo (ld s)
  | Cut f => risky -> ~ in_window (fol s f)
  | LRestart => risky -> forall f, ~ in_window (fol s f)
  | FRecv f true => keep_aoflock c = true -> ~ full_resp_pending (fol s f)
  | _ => True
  end.

(* ---- log growth ---- *)
Definition extends (L L' : leader) : Prop :=
  (forall i r, nth_error (log L) i = Some r -> nth_error (log L') i = Some r) /\
  (forall k, k <= length (log L) -> firstn k (log L') = firstn k (log L)) /\
  length (log L) <= length (log L') /\ rstart L' = rstart L.

Lemma extends_append L t p ev : extends L (l_append L t p ev).
Proof.
  unfold l_append, extends; simpl. repeat split.
  - intros i r H. rewrite nth_error_app1; auto. apply nth_error_Some. congruence.
  - intros k Hk. apply firstn_app_le; auto.
  - rewrite app_length; lia.
Qed.

Lemma extends_rotate L : extends L (l_rotate L).
Proof. unfold l_rotate, extends; simpl. repeat split; auto. Qed.

Lemma pos_conn_ext L L' x : extends L L' -> pos_conn L x -> pos_conn L' x.
Proof. intros [E _] [P1 P2]. split; auto. intros H. destruct (P1 H) as [r [Hr Hc]]. eauto. Qed.

Lemma pos_disc_ext L L' x : extends L L' -> pos_disc L x -> pos_disc L' x.
Proof. intros [E _] [P|[r [H1 [H2 H3]]]]; [left; auto|right; eauto]. Qed.

Lemma prefix_ext L L' x : extends L L' -> prefix L x -> prefix L' x.
Proof.
  intros [_ [E [_ _]]] P. unfold prefix in *.
  assert (length (applied x) <= length (log L)).
  { pose proof (f_equal (@length _) P) as Hl. rewrite firstn_length in Hl. lia. }
  rewrite E; auto.
Qed.

Lemma live_cur_ext L L' x e : extends L L' -> (fresh_exempt c = true -> cseq x = None -> lo L' = lo L) ->
  live_cur L x e -> live_cur L' x e.
Proof.
  intros [E1 [E2 [E3 E4]]] Hlo [H|[H|H]].
  - left. destruct H as (A & B & C & D & F & G). repeat split; auto; try lia.
    destruct (nth_error (log L) e) as [r|] eqn:N.
    + rewrite (E1 _ _ N). auto.
    + apply nth_error_None in N. lia.
  - right; left. destruct H as (A & p & B & C & D & F & G). split; auto. exists p. repeat split; auto; lia.
  - right; right. destruct H as (A & B & C & D & F). repeat split; auto; try lia.
    intros Hf. rewrite E4, Hlo; auto.
Qed.

Lemma id_lt_false_mono a a' b : id_lt a b = false ->
  (xidx a < xidx a' \/ (xidx a = xidx a' /\ xoff a <= xoff a'))%N -> id_lt a' b = false.
Proof.
  unfold id_lt. rewrite !orb_false_iff, !andb_false_iff, !N.ltb_ge, !N.eqb_neq. intros [H1 H2] H. split; [lia|].
  destruct (N.eq_dec (xidx a') (xidx b)) as [E|E]; [|left; auto].
  destruct H2 as [H2|H2]; destruct H as [H|[H H']]; try (exfalso; lia); try (left; lia); try (right; lia).
Qed.

Lemma link_ext L L' x : extends L L' ->
  (forall e, live_cur L x e -> live_cur L' x e) ->
  (forall b B, full_cur L x b B -> full_cur L' x b B) ->
  link L x -> link L' x.
Proof.
  intros E HL HF K. pose proof E as [E1 [E2 [E3 E4]]].
  destruct K.
  - apply LkDisc; auto. eapply pos_disc_ext; eauto.
  - apply LkReqFull; auto.
  - eapply LkReqResume; eauto.
  - apply LkNotFound; auto. eapply pos_disc_ext; eauto.
  - eapply LkRespFull; eauto.
  - eapply LkRespResume; eauto.
  - eapply LkStartedFull; eauto. eapply pos_conn_ext; eauto.
  - eapply LkStartedResume; eauto. eapply pos_conn_ext; eauto.
  - pose proof (HF _ _ H6) as F'. destruct H6 as (_ & _ & HB & _).
    apply (LkFiles L' x xs next b B); auto.
    + eapply pos_conn_ext; eauto.
    + rewrite E2 by lia. auto.
  - apply (LkFilesDone L' x xs ys e); auto.
    + eapply pos_conn_ext; eauto.
    + rewrite E2 by lia. auto.
    + lia.
    + destruct H5 as [[A B]|A]; [left; auto|right; auto].
  - apply (LkLive L' x ys e); auto.
    + eapply pos_conn_ext; eauto.
    + rewrite E2 by lia. auto.
    + lia.
    + destruct H5 as [[A B]|A]; [left; auto|right; auto].
Qed.

Lemma full_cur_append L x b B t p ev : 
  (fresh_exempt c = true -> cseq x = None -> lo (l_append L t p ev) = lo L) ->
  full_cur L x b B -> full_cur (l_append L t p ev) x b B.
Proof.
  intros Hlo (Q1 & Q2 & HB & HC). pose proof (extends_append L t p ev) as E.
  split; [|split; [|split]].
  - intros i r Hi. simpl in Hi.
    assert (i < length (log L ++ [mkRec (mkId (fidx L) (foff L + 1) t) p])) by (apply nth_error_Some; congruence).
    rewrite app_length in H; simpl in H.
    destruct (Nat.eq_dec i (length (log L))) as [->|Hne].
    + rewrite nth_error_last_app in Hi. inversion Hi; subst; simpl. rewrite Q2. split; [discriminate|lia].
    + rewrite nth_error_app1 in Hi by lia. apply Q1; auto.
  - intros t'. simpl. eapply id_lt_false_mono; [apply (Q2 t')|]. simpl. right. split; lia.
  - simpl. rewrite app_length. lia.
  - eapply live_cur_ext; eauto.
Qed.

Lemma full_cur_rotate L x b B : full_cur L x b B -> full_cur (l_rotate L) x b B.
Proof.
  intros (Q1 & Q2 & HB & HC). pose proof (extends_rotate L) as E.
  split; [|split; [|split]].
  - exact Q1.
  - intros t'. simpl. eapply id_lt_false_mono; [apply (Q2 t')|]. simpl. left. lia.
  - exact HB.
  - eapply live_cur_ext; eauto.
Qed.

Lemma finv_append L x t p ev : 
  (fresh_exempt c = true -> fresh_waiting x -> Nat.min (lo L + ev) (length (log L)) = lo L) ->
  finv L x -> finv (l_append L t p ev) x.
Proof.
  intros G [P K]. pose proof (extends_append L t p ev) as E. split; [eapply prefix_ext; eauto|].
  destruct (sph x) eqn:Hs.
  - (* idle: no cursor facts are used *)
    destruct K; try congruence.
    + apply LkDisc; auto. eapply pos_disc_ext; eauto.
    + apply LkReqFull; auto.
    + eapply LkReqResume; eauto. destruct E as [E1 _]; auto.
    + apply LkNotFound; auto. eapply pos_disc_ext; eauto.
    + destruct E as [E1 [E2 [E3 E4]]]. apply (LkFilesDone _ x xs ys e); auto.
      * eapply pos_conn_ext; eauto. repeat split; auto.
      * rewrite E2 by lia. auto.
      * lia.
      * right; auto.
    + destruct E as [E1 [E2 [E3 E4]]]. apply (LkLive _ x ys e); auto.
      * eapply pos_conn_ext; eauto. repeat split; auto.
      * rewrite E2 by lia. auto.
      * lia.
      * right; auto.
  - eapply link_ext; eauto.
    + intros e. apply live_cur_ext; auto. intros Hf Hc. simpl. apply G; auto. split; congruence.
    + intros b B. apply full_cur_append. intros Hf Hc. simpl. apply G; auto. split; congruence.
  - eapply link_ext; eauto.
    + intros e. apply live_cur_ext; auto. intros Hf Hc. simpl. apply G; auto. split; congruence.
    + intros b B. apply full_cur_append. intros Hf Hc. simpl. apply G; auto. split; congruence.
  - eapply link_ext; eauto.
    + intros e. apply live_cur_ext; auto. intros Hf Hc. simpl. apply G; auto. split; congruence.
    + intros b B. apply full_cur_append. intros Hf Hc. simpl. apply G; auto. split; congruence.
Qed.

Lemma finv_rotate L x : finv L x -> finv (l_rotate L) x.
Proof.
  intros [P K]. pose proof (extends_rotate L) as E. split; [eapply prefix_ext; eauto|].
  apply (link_ext L (l_rotate L) x E); [| |exact K].
  - intros e. apply live_cur_ext; auto.
  - intros b B. apply full_cur_rotate.
Qed.

(* ---- disconnects ---- *)
Lemma pos_conn_disc L x : pos_conn L x -> (risky -> ~ in_window x) -> fph x = FRecvFiles \/ fph x = FLive ->
  pos_disc L (drop_conn x).
Proof.
  intros [P1 P2] G Hph. unfold pos_disc, drop_conn; simpl.
  destruct (applied x) as [|a tl] eqn:A.
  - left. simpl in *.
    destruct (early_id c) eqn:E1; [exfalso; apply G; [left; auto|split; auto]|].
    destruct (keep_aoflock c) eqn:E2; [exfalso; apply G; [right; auto|split; auto]|].
    split; auto. discriminate.
  - right. simpl in *. destruct P1 as [r [Hr Hc]]; [lia|]. exists r. split; [lia|]. auto.
Qed.

Lemma link_disc L x : link L x -> (risky -> ~ in_window x) -> link L (drop_conn x).
Proof.
  intros K G. apply LkDisc; simpl; auto.
  destruct K.
  - destruct H3 as [[A B]|[r [A [B D]]]]; [left|right; exists r]; simpl; auto.
  - left; simpl; split; auto.
  - right. exists r. simpl. auto.
  - destruct H3 as [[A B]|[r [A [B D]]]]; [left|right; exists r]; simpl; auto.
  - left; simpl; split; auto.
  - right. exists r. simpl. auto.
  - apply pos_conn_disc; auto.
  - apply pos_conn_disc; auto.
  - apply pos_conn_disc; auto.
  - apply pos_conn_disc; auto.
  - apply pos_conn_disc; auto.
Qed.

Lemma finv_disc L x : finv L x -> (risky -> ~ in_window x) -> finv L (drop_conn x).
Proof. intros [P K] G. split; [exact P|apply link_disc; auto]. Qed.

Lemma last_id_app l r d : last_id (l ++ [r]) d = rid_of r.
Proof. unfold last_id. rewrite rev_app_distr. reflexivity. Qed.

Lemma finv_restart_f L x : finv L x -> finv L (f_restart x).
Proof.
  intros [P K]. split; [exact P|]. apply LkDisc; simpl; auto.
  unfold pos_disc; simpl. unfold prefix in P.
  destruct (applied x) as [|a tl] eqn:A.
  - left. split; auto.
  - right. destruct (@exists_last _ (a :: tl)) as [l' [r' E']]; [discriminate|].
    rewrite E' in *. rewrite last_id_app. exists r'. rewrite app_length in *. simpl in *.
    split; [lia|]. split; auto.
    replace (length l' + 1 - 1) with (length l') by lia.
    apply nth_error_firstn with (e := length l' + 1). rewrite <- P. apply nth_error_last_app.
Qed.

(* ---- handshake ---- *)
Lemma rec_id_nonzero L i r : LInv L -> nth_error (log L) i = Some r -> id_eqb (rid_of r) zero_id = false.
Proof.
  intros I H. pose proof (li_idx L I _ _ H). unfold id_eqb, zero_id; simpl.
  replace (xidx (rid_of r) =? 0)%N with false; auto. symmetry. apply N.eqb_neq. lia.
Qed.

Lemma finv_connect L x : LInv L -> finv L x -> finv L (f_connect c x).
Proof.
  intros I [P K]. unfold f_connect. destruct (fph x) eqn:Hp; try (split; assumption).
  destruct K; try congruence.
  split; [destruct (id_eqb (fcur x) zero_id); exact P|].
  destruct H3 as [[A B]|[r [A [B D]]]].
  - rewrite A. replace (id_eqb zero_id zero_id) with true by reflexivity.
    apply LkReqFull; simpl; auto. destruct (keep_aoflock c); auto.
  - rewrite D, (rec_id_nonzero _ _ _ I B). eapply LkReqResume; simpl; eauto.
Qed.

Lemma nth_error_skipn' {A} (l : list A) k j : nth_error (skipn k l) j = nth_error l (k + j).
Proof. revert l. induction k; intros [|a l]; simpl; auto. destruct j; reflexivity. Qed.

Lemma find_idx_some i l k p : find_idx i l k = Some p ->
  exists r, nth_error l (p - k) = Some r /\ rid_of r = i /\ k <= p.
Proof.
  revert k. induction l as [|a l IH]; simpl; intros k H; [discriminate|].
  destruct (id_eqb (rid_of a) i) eqn:E.
  - inversion H; subst. rewrite Nat.sub_diag. exists a. apply id_eqb_eq in E. auto.
  - destruct (IH _ H) as [r [A [B C]]]. exists r. split; [|split; auto; lia].
    replace (p - k) with (S (p - S k)) by lia. exact A.
Qed.

Lemma find_idx_none i l k : find_idx i l k = None -> forall j r, nth_error l j = Some r -> rid_of r <> i.
Proof.
  revert k. induction l as [|a l IH]; simpl; intros k H j r Hj; [destruct j; discriminate|].
  destruct (id_eqb (rid_of a) i) eqn:E; [discriminate|].
  destruct j; simpl in Hj.
  - inversion Hj; subst. intros X. apply id_eqb_eq in X. congruence.
  - eapply IH; eauto.
Qed.

Lemma id_lt_irrefl a : id_lt a a = false.
Proof. unfold id_lt. rewrite N.ltb_irrefl. simpl. rewrite N.ltb_irrefl. apply andb_false_r. Qed.

Lemma finv_handle_sync L x : LInv L -> finv L x -> finv L (handle_sync L x).
Proof.
  intros I [P K]. unfold handle_sync.
  destruct (c2s x) as [|m rest] eqn:Hc; [split; assumption|].
  destruct m as [[i|]|]; [| |destruct (sph x); split; assumption].
  - (* resume request *)
    destruct (sph x) eqn:Hs; try (split; assumption).
    destruct K; try congruence.
    rewrite H0 in Hc. inversion Hc; subst i rest. clear Hc.
    assert (Hnz : (xidx (fcur x) =? 0)%N = false).
    { rewrite H6. pose proof (li_idx L I _ _ H5). apply N.eqb_neq. lia. }
    rewrite Hnz.
    destruct (find_idx (fcur x) (skipn (lo L) (log L)) (lo L)) as [p|] eqn:Hf.
    + destruct (find_idx_some _ _ _ _ Hf) as [r' [A [B C]]].
      rewrite nth_error_skipn' in A. replace (lo L + (p - lo L)) with p in A by lia.
      assert (p = length (applied x) - 1).
      { eapply linv_unique; eauto. congruence. }
      split; [exact P|]. subst p.
      eapply (LkRespResume _ _ (fcur x) zero_id r); simpl; auto. rewrite H1; reflexivity.
      right; left. split; auto. exists (length (applied x) - 1). repeat split; auto; try lia.
      * assert (length (applied x) - 1 < length (log L)) by (apply nth_error_Some; congruence). lia.
      * pose proof (li_lo L I). lia.
    + pose proof (find_idx_none _ _ _ Hf) as Hn.
      destruct (id_eqb (fcur x) (mcur L)) eqn:Em.
      * apply id_eqb_eq in Em.
        assert (Hlen : length (applied x) - 1 < length (log L)) by (apply nth_error_Some; congruence).
        assert (Hempty : lo L = length (log L)).
        { destruct (Nat.lt_ge_cases (lo L) (length (log L))) as [Hlt|Hge]; [|pose proof (li_lo L I); lia].
          exfalso. destruct (nth_error (log L) (length (log L) - 1)) as [h|] eqn:Hh.
          - apply (Hn (length (log L) - 1 - lo L) h).
            + rewrite nth_error_skipn'. replace (lo L + (length (log L) - 1 - lo L)) with (length (log L) - 1) by lia. auto.
            + rewrite <- (li_mcur L I _ Hh). auto.
          - apply nth_error_None in Hh. lia. }
        assert (Hrs : rstart L = length (log L)).
        { pose proof (li_lo L I). pose proof (li_lo2 L I). lia. }
        assert (Hn' : length (applied x) = length (log L)).
        { destruct (nth_error (log L) (length (log L) - 1)) as [h|] eqn:Hh.
          - assert (length (applied x) - 1 = length (log L) - 1).
            { eapply linv_unique; eauto. rewrite <- H6, Em. apply (li_mcur L I _ Hh). }
            lia.
          - apply nth_error_None in Hh. lia. }
        split; [exact P|].
        rewrite Hrs, Nat.eqb_refl.
        eapply (LkRespResume _ _ (fcur x) zero_id r); simpl; auto. rewrite H1; reflexivity.
        right; right. repeat split; auto; try lia.
      * split; [exact P|]. apply LkNotFound; simpl; auto. rewrite H1; reflexivity.
        right. exists r. auto.
  - (* full request *)
    destruct (sph x) eqn:Hs; try (split; assumption).
    destruct K; try congruence.
    rewrite H0 in Hc. inversion Hc; subst rest. clear Hc. rewrite H1. simpl app.
    destruct (Nat.ltb (lo L) (length (log L))) eqn:Hlt.
    + apply Nat.ltb_lt in Hlt. destruct (rev (log L)) as [|h tl] eqn:Hr;
        [apply (f_equal (@length _)) in Hr; rewrite rev_length in Hr; simpl in Hr; lia|].
      apply rev_last_nth in Hr.
      split; [exact P|].
      apply (LkRespFull _ _ (rid_of h) (rid_of h) (length (log L) - 1)); simpl; auto.
      split; [|split; [|split]].
      * intros i r Hi. split.
        -- intros Hl. destruct (Nat.lt_ge_cases i (length (log L) - 1)); auto. exfalso.
           assert (i < length (log L)) by (apply nth_error_Some; congruence).
           assert (i = length (log L) - 1) by lia. subst i. rewrite Hr in Hi. inversion Hi; subst.
           rewrite id_lt_irrefl in Hl. discriminate.
        -- intros Hl. eapply (li_sorted L I); eauto.
      * intros t. apply id_lt_asym. eapply (li_below L I); eauto.
      * lia.
      * left. simpl. pose proof (li_lo L I). repeat split; auto; lia.
    + apply Nat.ltb_ge in Hlt. pose proof (li_lo L I). pose proof (li_lo2 L I).
      split; [exact P|].
      apply (LkRespFull _ _ (mkId (fidx L) (foff L + 1) 0) (mkId (fidx L) (foff L + 1) 0) (length (log L))); simpl; auto.
      split; [|split; [|split]].
      * intros i r Hi. split; intros _.
        -- apply nth_error_Some. congruence.
        -- eapply (li_below L I); eauto.
      * intros t. unfold id_lt; simpl. rewrite N.ltb_irrefl, N.eqb_refl, N.ltb_irrefl. reflexivity.
      * lia.
      * right; right. simpl. repeat split; auto; lia.
Qed.

(* ---- streaming ---- *)
Lemma live_cur_same L x x' e : cwr x' = cwr x -> cseq x' = cseq x -> cptr x' = cptr x -> cbuf x' = cbuf x ->
  live_cur L x e -> live_cur L x' e.
Proof. unfold live_cur. intros -> -> -> ->. auto. Qed.

Lemma full_cur_same L x x' b B : cwr x' = cwr x -> cseq x' = cseq x -> cptr x' = cptr x -> cbuf x' = cbuf x ->
  full_cur L x b B -> full_cur L x' b B.
Proof.
  unfold full_cur. intros A1 A2 A3 A4 (Q1 & Q2 & Q3 & Q4).
  split; [exact Q1|split; [exact Q2|split; [exact Q3|eapply live_cur_same; eauto]]].
Qed.

Lemma srv_live_same L x x' e : sph x' = sph x -> cwr x' = cwr x -> cseq x' = cseq x -> cptr x' = cptr x -> cbuf x' = cbuf x ->
  srv_live L x e -> srv_live L x' e.
Proof. unfold srv_live. intros A0 A1 A2 A3 A4 [[H1 H2]|H]; [left; split; [congruence|eapply live_cur_same; eauto]|right; congruence]. Qed.

Lemma apply_facts L (A : list rec) r Y e : A ++ r :: Y = firstn e (log L) ->
  (A ++ [r]) ++ Y = firstn e (log L) /\ A ++ [r] = firstn (length (A ++ [r])) (log L) /\
  nth_error (log L) (length A) = Some r.
Proof.
  intros H. assert (H' : (A ++ [r]) ++ Y = firstn e (log L)) by (rewrite <- app_assoc; exact H).
  split; [exact H'|split; [eapply prefix_of_app; eauto|eapply nth_of_app_firstn; eauto]].
Qed.

Lemma pos_conn_apply L x r rest ph : nth_error (log L) (length (applied x)) = Some r -> pos_conn L (apply_rec x r rest ph).
Proof.
  intros H. unfold pos_conn, apply_rec; simpl. rewrite app_length; simpl. split.
  - intros _. exists r. replace (length (applied x) + 1 - 1) with (length (applied x)) by lia. auto.
  - intros; lia.
Qed.

Ltac solve_cur := first [ assumption | eapply full_cur_same; eauto; fail | eapply live_cur_same; eauto; fail
                        | eapply srv_live_same; eauto; fail ].

Lemma finv_recv L x w : LInv L -> (w = true -> keep_aoflock c = true -> ~ full_resp_pending x) ->
  finv L x -> finv L (f_recv c x w).
Proof.
  intros I G [P K]. unfold f_recv. destruct K.
  - rewrite H0. split; [exact P|apply LkDisc; auto].
  - rewrite H1. split; [exact P|apply LkReqFull; auto].
  - rewrite H1. split; [exact P|eapply LkReqResume; eauto].
  - rewrite H1, H. split; [exact P|]. apply LkReqFull; simpl; auto. rewrite H0; reflexivity.
  - rewrite H1, H, H3. destruct w.
    + assert (keep_aoflock c = false).
      { destruct (keep_aoflock c) eqn:E; auto. exfalso. apply G; auto. split; [auto|split; [auto|]]. eauto. }
      split; [reflexivity|]. apply LkDisc; simpl; auto. left. simpl. split; auto. congruence.
    + split; [reflexivity|]. eapply (LkStartedFull _ _ b B); simpl; auto; try (rewrite H0; reflexivity); try solve_cur.
      split; simpl; [lia|]. intros _ E. rewrite E. auto.
  - rewrite H1, H, H3. destruct w.
    + split; [exact P|]. apply LkDisc; simpl; auto. right. exists r. simpl. auto.
    + split; [exact P|]. eapply (LkStartedResume _ _ b); simpl; auto; try (rewrite H0; reflexivity); try solve_cur.
      split; simpl; [intros _; exists r; auto|lia].
  - rewrite H1. split; [exact P|eapply LkStartedFull; eauto].
  - rewrite H1. split; [exact P|eapply LkStartedResume; eauto].
  - rewrite H1, H. destruct xs as [|r xs']; simpl.
    + split; [exact P|eapply (LkFiles _ _ []); eauto].
    + destruct (apply_facts _ _ _ _ _ H4) as (F1 & F2 & F3).
      split; [exact F2|]. eapply (LkFiles _ _ xs' next b B); simpl; auto; try solve_cur.
      apply pos_conn_apply; auto.
  - rewrite H1, H. destruct xs as [|r xs']; simpl.
    + split; [exact P|]. eapply (LkLive _ _ ys e); simpl; auto; try solve_cur.
    + destruct (apply_facts _ _ _ _ _ H3) as (F1 & F2 & F3).
      split; [exact F2|]. eapply (LkFilesDone _ _ xs' ys e); simpl; auto; try solve_cur.
      apply pos_conn_apply; auto.
  - rewrite H1, H. destruct ys as [|r ys']; simpl.
    + split; [exact P|eapply (LkLive _ _ []); eauto].
    + destruct (apply_facts _ _ _ _ _ H3) as (F1 & F2 & F3).
      split; [exact F2|]. eapply (LkLive _ _ ys' e); simpl; auto; try solve_cur.
      apply pos_conn_apply; auto.
Qed.

Lemma prefix_len L x : prefix L x -> length (applied x) <= length (log L).
Proof. unfold prefix. intros P. pose proof (f_equal (@length _) P) as Hl. rewrite firstn_length in Hl. lia. Qed.

Lemma finv_recv_started L x : finv L x -> finv L (l_recv_started x).
Proof.
  intros [P K]. unfold l_recv_started.
  destruct (c2s x) as [|[?|] rest] eqn:Hc; try (split; assumption).
  destruct (sph x) as [|full b0|?|] eqn:Hs; try (split; assumption).
  destruct full.
  - destruct K; try congruence. rewrite H0 in Hc. inversion Hc; subst rest. rewrite H2 in Hs. inversion Hs; subst b0.
    split; [exact P|].
    eapply (LkFiles _ _ [] 0 b B); simpl; auto; try solve_cur. rewrite H3; reflexivity. lia.
  - destruct K; try congruence. rewrite H0 in Hc. inversion Hc; subst rest.
    split; [exact P|].
    eapply (LkLive _ _ [] (length (applied x))); simpl; auto; try solve_cur.
    + rewrite app_nil_r. exact P.
    + apply prefix_len; auto.
    + left. simpl. split; auto.
Qed.

Lemma map_app_one xs (r : rec) : map MRec xs ++ [MRec r] = map MRec (xs ++ [r]).
Proof. rewrite map_app. reflexivity. Qed.

Lemma finv_send_file L x : finv L x -> finv L (l_send_file L x).
Proof.
  intros [P K]. unfold l_send_file.
  destruct (sph x) as [|?|next0 b0|] eqn:Hs; try (split; assumption).
  destruct K; try congruence; try (destruct H5 as [[A _]|A]; congruence).
  rewrite H2 in Hs. inversion Hs; subst next0 b0. clear Hs.
  split; [destruct (nth_error (log L) next) as [r|]; [destruct (id_lt (rid_of r) b)|]; exact P|].
  pose proof H6 as (Q1 & Q2 & Q3 & Q4).
  assert (Hdone : forall x', x' = mkF (applied x) (fcur x) (faof x) (fph x) (s2c x ++ [MFilesEnd]) (c2s x) SLive (cseq x) (cptr x) (cwr x) (cbuf x) ->
                             next = B -> link L x').
  { intros x' -> ->. eapply (LkFilesDone _ _ xs [] B); simpl; auto; try solve_cur.
    - rewrite H1; reflexivity.
    - rewrite app_nil_r. auto.
    - left. simpl. split; auto. }
  destruct (nth_error (log L) next) as [r|] eqn:N.
  + destruct (id_lt (rid_of r) b) eqn:El.
    * apply (Q1 _ _ N) in El.
      eapply (LkFiles _ _ (xs ++ [r]) (S next) b B); simpl; auto; try solve_cur.
      -- rewrite H1. apply map_app_one.
      -- rewrite app_assoc, H4. symmetry. apply firstn_S_nth; auto.
    * apply Hdone; auto.
      destruct (Nat.lt_ge_cases next B) as [Hl|Hg]; [|lia].
      apply (Q1 _ _ N) in Hl. congruence.
  + apply Hdone; auto. apply nth_error_None in N. lia.
Qed.

Lemma pos_conn_same L x x' : applied x' = applied x -> fcur x' = fcur x -> pos_conn L x -> pos_conn L x'.
Proof. unfold pos_conn. intros -> ->. auto. Qed.

Definition same_follower (x x' : fstate) : Prop :=
  applied x' = applied x /\ fcur x' = fcur x /\ faof x' = faof x /\ fph x' = fph x /\ s2c x' = s2c x /\ c2s x' = c2s x.

Lemma send_live_cases L x e r : LInv L -> sph x = SLive -> live_cur L x e -> e <= length (log L) ->
  (exists r0, nth_error (log L) e = Some r0 /\
     l_send_live c L x r = mkF (applied x) (fcur x) (faof x) (fph x) (s2c x ++ [MRec r0]) (c2s x) SLive (cseq x) (cptr x) true (cbuf x) /\
     live_cur L (l_send_live c L x r) (S e) /\ S e <= length (log L)) \/
  (same_follower x (l_send_live c L x r) /\ srv_live L (l_send_live c L x r) e).
Proof.
  intros I Hs HC He. unfold l_send_live. rewrite Hs.
  assert (Hdeliver : forall p, p = e -> e < length (log L) -> rstart L <= e ->
     let x' := mkF (applied x) (fcur x) (faof x) (fph x) (s2c x) (c2s x) SLive (Some p) true false (nth_error (log L) p) in
     same_follower x x' /\ srv_live L x' e).
  { intros p -> H1 H2. simpl. split; [repeat split|]. left. simpl. split; auto. left. simpl. repeat split; auto. }
  assert (Hsame : same_follower x x /\ srv_live L x e).
  { split; [repeat split|]. left. auto. }
  assert (Hoob : let x' := mkF (applied x) (fcur x) (faof x) (fph x) (s2c x) (c2s x) SIdle None false true None in
                 same_follower x x' /\ srv_live L x' e).
  { simpl. split; [repeat split|]. right. reflexivity. }
  pose proof (li_lo L I) as Hlo.
  destruct HC as [(W & Cq & Cp & Cb & El & Er)|[(W & p & Cq & Sp & Cp & El & Er)|(W & Cq & Cp & Ee & Ef)]]; rewrite W; simpl.
  - left. destruct (nth_error (log L) e) as [r0|] eqn:N; [|apply nth_error_None in N; lia].
    rewrite Cb. exists r0. split; auto. split; auto. split; [|lia].
    right; left. simpl. split; auto. exists e. repeat split; auto; lia.
  - right. unfold a_pop. rewrite Cq, Cp.
    destruct (Nat.leb (lo L) p) eqn:Lp.
    + destruct (Nat.ltb (S p) (length (log L))) eqn:Lt.
      * apply Nat.ltb_lt in Lt. apply Hdeliver; auto; lia.
      * exact Hsame.
    + apply Nat.leb_gt in Lp. destruct r; [exact Hoob|].
      destruct (Nat.ltb (lo L) (length (log L))) eqn:Lt; [|exact Hsame].
      apply Nat.ltb_lt in Lt.
      destruct (Nat.eqb (lo L) (S p)) eqn:Ec; simpl.
      * apply Nat.eqb_eq in Ec. apply Hdeliver; auto; lia.
      * replace (Nat.eqb (lo L) (rstart L)) with false by (symmetry; apply Nat.eqb_neq; lia). simpl. exact Hoob.
  - right. unfold a_pop. rewrite Cq.
    destruct (Nat.ltb (lo L) (length (log L))) eqn:Lt; [|exact Hsame].
    apply Nat.ltb_lt in Lt. simpl.
    destruct (Nat.eqb (lo L) (rstart L)) eqn:Ec; simpl.
    + apply Nat.eqb_eq in Ec. apply Hdeliver; auto; lia.
    + destruct (fresh_exempt c) eqn:Fe; simpl; [|exact Hoob].
      apply Nat.eqb_neq in Ec. exfalso. apply Ec. auto.
Qed.

Lemma finv_send_live L x r : LInv L -> finv L x -> finv L (l_send_live c L x r).
Proof.
  intros I [P K].
  destruct (sph x) eqn:Hs; try (unfold l_send_live; rewrite Hs; split; assumption).
  destruct K; try congruence.
  - destruct H5 as [[_ HC]|A]; [|congruence].
    destruct (send_live_cases L x e r I Hs HC H4) as [(r0 & N & Ex & HC' & He')|[(S1 & S2 & S3 & S4 & S5 & S6) Hsl]].
    + split; [rewrite Ex; exact P|].
      eapply (LkFilesDone _ _ xs (ys ++ [r0]) (S e)); try (rewrite Ex; simpl; auto; fail); auto.
      * rewrite Ex; simpl. rewrite H1, <- app_assoc. simpl. rewrite <- map_app_one. reflexivity.
      * rewrite Ex; simpl. rewrite !app_assoc. rewrite <- (app_assoc (applied x)), H3. symmetry. apply firstn_S_nth; auto.
      * left. split; [rewrite Ex; reflexivity|auto].
    + split; [unfold prefix; rewrite S1; exact P|].
      eapply (LkFilesDone _ _ xs ys e); try congruence; auto.
      eapply pos_conn_same; eauto.
  - destruct H5 as [[_ HC]|A]; [|congruence].
    destruct (send_live_cases L x e r I Hs HC H4) as [(r0 & N & Ex & HC' & He')|[(S1 & S2 & S3 & S4 & S5 & S6) Hsl]].
    + split; [rewrite Ex; exact P|].
      eapply (LkLive _ _ (ys ++ [r0]) (S e)); try (rewrite Ex; simpl; auto; fail); auto.
      * rewrite Ex; simpl. rewrite H1. apply map_app_one.
      * rewrite Ex; simpl. rewrite app_assoc, H3. symmetry. apply firstn_S_nth; auto.
      * left. split; [rewrite Ex; reflexivity|auto].
    + split; [unfold prefix; rewrite S1; exact P|].
      eapply (LkLive _ _ ys e); try congruence; auto.
      eapply pos_conn_same; eauto.
Qed.

(* ---- whole system ---- *)
Definition sinv (s : state) : Prop := LInv (ld s) /\ forall f, finv (ld s) (fol s f).

Lemma sinv_init : sinv init_state.
Proof.
  split; [apply linv_init|]. intros f. split; [reflexivity|].
  apply LkDisc; simpl; auto. left. simpl. auto.
Qed.

Lemma finv_upd L (m : nat -> fstate) f x' : (forall g, finv L (m g)) -> finv L x' -> forall g, finv L (upd m f x' g).
Proof. intros H Hx g. unfold upd. destruct (Nat.eqb g f); auto. Qed.

Lemma finv_disc_relog L L' x : log L' = log L -> finv L (drop_conn x) -> finv L' (drop_conn x).
Proof.
  intros E [P K]. split; [unfold prefix in *; rewrite E; exact P|].
  destruct K; simpl in *; try discriminate.
  apply LkDisc; simpl; auto. unfold pos_disc in *. rewrite E. exact H3.
Qed.

Lemma sinv_step s a : sinv s -> ok_step s a -> sinv (step c s a).
Proof.
  intros [I F] G. destruct a; simpl in *.
  - split; [apply linv_append; auto|]. intros f. apply finv_append; [intros Hf Hw; exact (G Hf f Hw)|exact (F f)].
  - split; [apply linv_rotate; auto|]. intros f. apply finv_rotate; exact (F f).
  - split; [apply linv_restart; auto|]. intros f. apply finv_disc_relog with (L := ld s); [reflexivity|].
    apply finv_disc; [exact (F f)|]. intros R. apply G; auto.
  - split; auto. apply finv_upd; auto. apply finv_connect; auto.
  - split; auto. apply finv_upd; auto. apply finv_handle_sync; auto.
  - split; auto. apply finv_upd; auto. apply finv_recv; auto. intros ->. exact G.
  - split; auto. apply finv_upd; auto. apply finv_recv_started; auto.
  - split; auto. apply finv_upd; auto. apply finv_send_file; auto.
  - split; auto. apply finv_upd; auto. apply finv_send_live; auto.
  - split; auto. apply finv_upd; auto. apply finv_disc; auto.
  - split; auto. apply finv_upd; auto. apply finv_restart_f; auto.
Qed.

Fixpoint guarded (s : state) (acts : list action) : Prop :=
  match acts with
  | [] => True
  | a :: tl => ok_step s a /\ guarded (step c s a) tl
  end.

Lemma sinv_run acts : forall s, sinv s -> guarded s acts -> sinv (run c s acts).
Proof.
  induction acts as [|a tl IH]; simpl; intros s H G; auto.
  destruct G as [G1 G2]. apply IH; auto. apply sinv_step; auto.
Qed.
End Safety.

(* ------------------------------------------------------------------ the theorems *)

(* no skip, no duplicate, no reorder: for every configuration, on every schedule that stays out of the defect
   windows, every follower's applied sequence is a prefix of the leader's log *)
Theorem sync_prefix_guarded : forall c acts, guarded c init_state acts ->
  forall f, prefix_ok (run c init_state acts) f.
Proof.
  intros c acts G f. destruct (sinv_run c acts init_state (sinv_init c) G) as [_ F].
  destruct (F f) as [P _]. exact P.
Qed.

Lemma guarded_fixed acts : forall s, guarded fixed_cfg s acts.
Proof.
  induction acts as [|a tl IH]; simpl; intros s; auto. split; auto.
  destruct a; simpl; auto; try discriminate.
  - intros [R|R]; discriminate.
  - destruct wfail; auto. discriminate.
  - intros [R|R]; discriminate.
Qed.

(* the repaired protocol: ALL schedules *)
Theorem sync_prefix_fixed : forall acts f, prefix_ok (run fixed_cfg init_state acts) f.
Proof. intros. apply sync_prefix_guarded. apply guarded_fixed. Qed.

(* ------------------------------------------------------------------ further guarantees *)

(* a resume never succeeds unless currentAofId names the record just before the cursor *)
Theorem sync_resume_exact : forall c acts, guarded c init_state acts ->
  forall f b, let s := run c init_state acts in let x := fol s f in
  sph x = SWaitStarted false b ->
  exists r, length (applied x) > 0 /\ nth_error (log (ld s)) (length (applied x) - 1) = Some r /\ fcur x = rid_of r /\
            applied x = firstn (length (applied x)) (log (ld s)) /\
            match cseq x with Some p => S p = length (applied x) | None => length (applied x) = rstart (ld s) end.
Proof.
  intros c acts G f b s x Hs.
  destruct (sinv_run c acts init_state (sinv_init c) G) as [_ F]. destruct (F f) as [P K].
  fold s in P, K. fold x in P, K.
  assert (Hcur : forall e, cwr x = true -> live_cur c (ld s) x e -> match cseq x with Some p => S p = e | None => e = rstart (ld s) end).
  { intros e W [(W' & _)|[(_ & p & Cq & Sp & _)|(_ & Cq & _ & Ee & _)]]; [congruence|rewrite Cq; auto|rewrite Cq; auto]. }
  destruct K; try congruence.
  - exists r. repeat split; auto. apply Hcur; auto.
  - destruct H3 as [H3 _]. destruct (H3 H4) as [r [A B]]. exists r. repeat split; auto. apply Hcur; auto.
  - destruct H5 as [[A _]|A]; congruence.
  - destruct H5 as [[A _]|A]; congruence.
Qed.

(* an id that is neither buffered nor the leader's newest id is answered ERR_NOT_FOUND ... *)
Lemma handle_sync_not_found L x i rest : c2s x = MSync (Some i) :: rest -> sph x = SIdle ->
  find_idx i (skipn (lo L) (log L)) (lo L) = None -> id_eqb i (mcur L) = false ->
  s2c (handle_sync L x) = s2c x ++ [MNotFound] /\ sph (handle_sync L x) = SIdle.
Proof.
  intros Hc Hs Hf Hm. unfold handle_sync. rewrite Hc, Hs. destruct (xidx i =? 0)%N; simpl; auto.
  rewrite Hf, Hm. simpl. auto.
Qed.

(* ... and the follower then forgets its position and asks for a full transfer on the same connection *)
Lemma recv_not_found c x rest w : fph x = FWaitResp -> s2c x = MNotFound :: rest ->
  fcur (f_recv c x w) = zero_id /\ faof (f_recv c x w) = false /\ c2s (f_recv c x w) = c2s x ++ [MSync None].
Proof. intros Hp Hs. unfold f_recv. rewrite Hs, Hp. simpl. auto. Qed.

(* a cursor whose position has been evicted gets the explicit error, never another record *)
Lemma a_pop_evicted c L x p reused : cseq x = Some p -> S p < lo L -> rstart L <= p -> lo L < length (log L) ->
  a_pop c L x reused = POob.
Proof.
  intros Hq H1 H2 H3. unfold a_pop. rewrite Hq.
  replace (Nat.ltb (lo L) (length (log L))) with true by (symmetry; apply Nat.ltb_lt; auto).
  replace (Nat.eqb (lo L) (S p)) with false by (symmetry; apply Nat.eqb_neq; lia).
  replace (Nat.eqb (lo L) (rstart L)) with false by (symmetry; apply Nat.eqb_neq; lia). simpl.
  destruct (cptr x); auto.
  replace (Nat.leb (lo L) p) with false by (symmetry; apply Nat.leb_gt; lia). destruct reused; auto.
Qed.

(* ------------------------------------------------------------------ the code as written: refutations *)
Definition app3 := [LAppend 7 1 0; LAppend 7 2 0; LAppend 7 3 0].

(* F1: cut between the SYNC response and the first file record *)
Definition f1_sched := app3 ++ [FConnect 0; LHandleSync 0; FRecv 0 false; Cut 0; FConnect 0; LHandleSync 0; FRecv 0 false;
                                LRecvStarted 0; LAppend 8 4 0; LSendLive 0 false; LSendLive 0 false; FRecv 0 false].
Lemma sync_F1_refuted : ~ prefix_ok (run (mkCfg true false false) init_state f1_sched) 0 /\
                        ~ prefix_ok (run code_cfg init_state f1_sched) 0 /\
                        map rpay (applied (fol (run code_cfg init_state f1_sched) 0)) = [4%N] /\
                        map rpay (log (ld (run code_cfg init_state f1_sched))) = [1; 2; 3; 4]%N.
Proof. repeat split; try (intros H; vm_compute in H; discriminate); vm_compute; reflexivity. Qed.

(* F2: empty ring at the handshake, overflow before the first Pop *)
Definition f2_sched := [FConnect 0; LHandleSync 0; LAppend 7 1 0; LAppend 7 2 1; LAppend 7 3 1; FRecv 0 false; LRecvStarted 0;
                        LSendFile 0; LSendLive 0 false; LSendLive 0 false; FRecv 0 false; FRecv 0 false].
Lemma sync_F2_refuted : ~ prefix_ok (run (mkCfg false false true) init_state f2_sched) 0 /\
                        ~ prefix_ok (run code_cfg init_state f2_sched) 0 /\
                        map rpay (applied (fol (run code_cfg init_state f2_sched) 0)) = [3%N].
Proof. repeat split; try (intros H; vm_compute in H; discriminate); vm_compute; reflexivity. Qed.

(* F3: the follower's "started" write fails, the next attempt consumes a full transfer as a live stream *)
Definition f3_sched := app3 ++ [FConnect 0; LHandleSync 0; FRecv 0 true; FConnect 0; LHandleSync 0; FRecv 0 false; LRecvStarted 0;
                                LSendFile 0; LSendFile 0; LSendFile 0; FRecv 0 false; FRecv 0 false; FRecv 0 false].
Lemma sync_F3_refuted : ~ prefix_ok (run (mkCfg false true false) init_state f3_sched) 0 /\
                        ~ prefix_ok (run code_cfg init_state f3_sched) 0 /\
                        applied (fol (run code_cfg init_state f3_sched) 0) =
                          [mkRec (mkId 1 1 7) 1; mkRec (mkId 1 2 7) 2; marker_rec].
Proof. repeat split; try (intros H; vm_compute in H; discriminate); vm_compute; reflexivity. Qed.

(* the same three schedules are harmless for the repaired protocol (instances of sync_prefix_fixed) *)
Example f_scheds_fixed : prefix_ok (run fixed_cfg init_state f1_sched) 0 /\ prefix_ok (run fixed_cfg init_state f2_sched) 0 /\
                         prefix_ok (run fixed_cfg init_state f3_sched) 0.
Proof. repeat split; apply sync_prefix_fixed. Qed.

(* ------------------------------------------------------------------ progress at quiescence *)
(* One round of the live stream for follower f: the server's send loop runs twice (Pop + write, in either order), the
   follower consumes one record.  With the leader quiescent, the link up, nothing in flight and the cursor's position
   still buffered, (length log - length applied) rounds make the follower's applied sequence equal to the log. *)
Definition round (f : nat) : list action := [LSendLive f false; LSendLive f false; FRecv f false].
Fixpoint rounds (f : nat) (k : nat) : list action := match k with O => [] | S k' => round f ++ rounds f k' end.

Definition ready (L : leader) (x : fstate) (n : nat) : Prop :=
  fph x = FLive /\ sph x = SLive /\ s2c x = [] /\ c2s x = [] /\ length (applied x) = n /\ applied x = firstn n (log L) /\
  n <= length (log L) /\
  ((cwr x = true /\ cptr x = true /\ exists p, cseq x = Some p /\ S p = n /\ lo L <= p) \/
   (cwr x = false /\ cptr x = true /\ cseq x = Some n /\ cbuf x = nth_error (log L) n /\ n < length (log L) /\ lo L <= n)).

Definition round_x (c : cfg) (L : leader) (x : fstate) : fstate :=
  f_recv c (l_send_live c L (l_send_live c L x false) false) false.

Lemma upd_same m f v : upd m f v f = v.
Proof. unfold upd. rewrite Nat.eqb_refl. reflexivity. Qed.

Lemma run_round c s f : ld (run c s (round f)) = ld s /\ fol (run c s (round f)) f = round_x c (ld s) (fol s f).
Proof. simpl. rewrite !upd_same. split; reflexivity. Qed.

Lemma run_app c s a b : run c s (a ++ b) = run c (run c s a) b.
Proof. revert s. induction a; simpl; auto. Qed.

Lemma round_ready c L x n : ready L x n -> n < length (log L) -> ready L (round_x c L x) (S n).
Proof.
  intros (Hp & Hs & Hw & Hc & Hn & Ha & Hle & Hcur) Hlt.
  destruct (nth_error (log L) n) as [r|] eqn:N; [|apply nth_error_None in N; lia].
  assert (Ha' : applied x ++ [r] = firstn (S n) (log L)) by (rewrite Ha; symmetry; apply firstn_S_nth; auto).
  unfold round_x.
  destruct Hcur as [(W & Cp & p & Cq & Sp & Lp)|(W & Cp & Cq & Cb & _ & Ln)].
  - (* pop delivers record n, then it is written, then consumed *)
    assert (E1 : l_send_live c L x false =
                 mkF (applied x) (fcur x) (faof x) (fph x) (s2c x) (c2s x) SLive (Some n) true false (nth_error (log L) n)).
    { unfold l_send_live. rewrite Hs, W. simpl. unfold a_pop. rewrite Cq, Cp.
      replace (Nat.leb (lo L) p) with true by (symmetry; apply Nat.leb_le; auto).
      replace (Nat.ltb (S p) (length (log L))) with true by (symmetry; apply Nat.ltb_lt; lia).
      rewrite Sp. reflexivity. }
    rewrite E1. unfold l_send_live at 1. simpl. rewrite N. unfold f_recv. simpl. rewrite Hw, Hp. simpl.
    unfold ready, apply_rec; simpl. rewrite app_length, Hn. simpl.
    repeat split; auto; try lia. left. repeat split; auto. exists n. repeat split; auto. lia.
  - (* record n is written, the next Pop delivers n+1 or reports EOF, record n is consumed *)
    assert (E1 : l_send_live c L x false =
                 mkF (applied x) (fcur x) (faof x) (fph x) (s2c x ++ [MRec r]) (c2s x) SLive (cseq x) (cptr x) true (cbuf x)).
    { unfold l_send_live. rewrite Hs, W. simpl. rewrite Cb. reflexivity. }
    rewrite E1. unfold l_send_live at 1. simpl. unfold a_pop. simpl. rewrite Cq, Cp.
    replace (Nat.leb (lo L) n) with true by (symmetry; apply Nat.leb_le; auto).
    destruct (Nat.ltb (S n) (length (log L))) eqn:Lt.
    + apply Nat.ltb_lt in Lt. unfold f_recv. simpl. rewrite Hw, Hp. simpl.
      unfold ready, apply_rec; simpl. rewrite app_length, Hn. simpl.
      repeat split; auto; try lia. right. repeat split; auto; lia.
    + apply Nat.ltb_ge in Lt. unfold f_recv. simpl. rewrite Hw, Hp. simpl.
      unfold ready, apply_rec; simpl. rewrite app_length, Hn. simpl.
      repeat split; auto; try lia. left. repeat split; auto. exists n. repeat split; auto.
Qed.

Theorem sync_progress : forall c k s f n, ready (ld s) (fol s f) n -> n + k = length (log (ld s)) ->
  applied (fol (run c s (rounds f k)) f) = log (ld s) /\ ld (run c s (rounds f k)) = ld s.
Proof.
  intros c k. induction k as [|k IH]; intros s f n R Hk.
  - simpl. destruct R as (_ & _ & _ & _ & _ & Ha & _). split; auto. rewrite Ha. replace n with (length (log (ld s))) by lia.
    apply firstn_all.
  - change (rounds f (S k)) with (round f ++ rounds f k). rewrite run_app. destruct (run_round c s f) as [E1 E2].
    destruct (IH (run c s (round f)) f (S n)) as [A B].
    + rewrite E1, E2. apply round_ready; auto. lia.
    + rewrite E1. lia.
    + rewrite E1 in *. split; congruence.
Qed.
