(* The boundary test of the full transfer (server/replication.go ReplicationServer.sendFiles, the closure handed to
   Aof.LoadAofFiles) on logs WITH ROTATION.

   Records carry (AofIndex, AofOffset); the offset restarts at every rotation (Aof.RewriteAofFile: index+1, offset 0), so
   only the pair is ordered.  LoadAofFiles walks rewrite.aof and the append files in order and stops for good at the
   first record for which the closure answers `false` (LoadAofFile turns it into io.EOF, aof.go:1536-1539), hence the
   transfer is a take-while.  handleInitSync fixed the boundary `waofLock` before: the id of the ring's head record,
   or (aofFileIndex, aofFileOffset+1) on an empty ring; the live stream starts at that record.

   bound_cmp is the decision as it stands in the source text; checks/C09.py reads the variant off the text of
   sendFiles on every run and runs the real sendFiles on rotated logs against send_files (extracted, ocaml/repl). *)
From Coq Require Import List NArith Bool Lia PeanoNat.
From Slock Require Import Repl.Sync Repl.SyncProofs.
Import ListNotations.

Inductive bound_cmp :=
| CmpLex       (* lock.AofIndex > w.AofIndex || (lock.AofIndex == w.AofIndex && lock.AofOffset >= w.AofOffset) *)
| CmpOffOnly.  (* lock.AofIndex > w.AofIndex || lock.AofOffset >= w.AofOffset *)

(* true = the closure returns `false, nil`: stop before this record *)
Definition stop_at (v : bound_cmp) (a w : rid) : bool :=
  match v with
  | CmpLex => (xidx w <? xidx a)%N || ((xidx a =? xidx w)%N && (xoff w <=? xoff a)%N)
  | CmpOffOnly => (xidx w <? xidx a)%N || (xoff w <=? xoff a)%N
  end.

Fixpoint send_files (v : bound_cmp) (l : list rec) (w : rid) : list rec :=
  match l with
  | [] => []
  | r :: tl => if stop_at v (rid_of r) w then [] else r :: send_files v tl w
  end.

(* persisted ids are strictly increasing in (index, offset) -- LInv.li_sorted for the protocol model's leader *)
Definition ids_inc (l : list rec) : Prop :=
  forall i j ri rj, i < j -> nth_error l i = Some ri -> nth_error l j = Some rj -> id_lt (rid_of ri) (rid_of rj) = true.

Lemma stop_lex_id_lt a w : stop_at CmpLex a w = negb (id_lt a w).
Proof.
  unfold stop_at, id_lt.
  destruct (N.ltb_spec (xidx w) (xidx a)), (N.ltb_spec (xidx a) (xidx w)), (N.eqb_spec (xidx a) (xidx w)),
           (N.leb_spec (xoff w) (xoff a)), (N.ltb_spec (xoff a) (xoff w)); simpl; try reflexivity; lia.
Qed.

(* the take-while cuts exactly where the ids cross the boundary *)
Lemma send_files_lex_cut l w : forall B,
  (forall i r, nth_error l i = Some r -> (id_lt (rid_of r) w = true <-> i < B)) -> B <= length l ->
  send_files CmpLex l w = firstn B l.
Proof.
  induction l as [|x tl IH]; intros B H HB; cbn [send_files length] in *.
  - destruct B; [reflexivity|lia].
  - rewrite stop_lex_id_lt. destruct (id_lt (rid_of x) w) eqn:E; simpl.
    + destruct B as [|B]; [apply (H 0 x eq_refl) in E; lia|]. simpl. f_equal. apply IH; [|lia].
      intros i r Hi. rewrite (H (S i) r Hi). lia.
    + destruct B as [|B]; [reflexivity|]. assert (0 < S B) as Hl by lia. apply (H 0 x eq_refl) in Hl. congruence.
Qed.

Lemma ids_inc_cut l k h : ids_inc l -> nth_error l k = Some h ->
  forall i r, nth_error l i = Some r -> (id_lt (rid_of r) (rid_of h) = true <-> i < k).
Proof.
  intros S Hk i r Hi. split.
  - intros Hlt. destruct (Nat.lt_ge_cases i k) as [|Hge]; [assumption|exfalso].
    destruct (Nat.eq_dec i k) as [->|Hne].
    + rewrite Hk in Hi. inversion Hi; subst. rewrite id_lt_irrefl in Hlt. discriminate.
    + assert (k < i) as Hki by lia. pose proof (S _ _ _ _ Hki Hk Hi) as G. apply id_lt_asym in G. congruence.
  - intros Hlt. exact (S _ _ _ _ Hlt Hi Hk).
Qed.

(* boundary = id of the k-th persisted record (ring head at the handshake): the files deliver exactly log[0, k) *)
Theorem send_files_lex_prefix l k h : ids_inc l -> nth_error l k = Some h -> send_files CmpLex l (rid_of h) = firstn k l.
Proof.
  intros S Hk. apply send_files_lex_cut.
  - apply ids_inc_cut; assumption.
  - apply Nat.lt_le_incl. apply nth_error_Some. congruence.
Qed.

(* transferred records followed by the live stream from the boundary record on = the whole log: nothing missing,
   nothing twice, order kept -- for every log with any rotations and every boundary record *)
Theorem transfer_then_live_is_log l k h : ids_inc l -> nth_error l k = Some h ->
  send_files CmpLex l (rid_of h) ++ skipn k l = l.
Proof. intros S Hk. rewrite (send_files_lex_prefix l k h S Hk). apply firstn_skipn. Qed.

(* boundary above every persisted id (empty ring: (aofFileIndex, aofFileOffset+1)): everything is transferred *)
Theorem send_files_lex_all l w : (forall r, In r l -> id_lt (rid_of r) w = true) -> send_files CmpLex l w = l.
Proof.
  intros H. rewrite (send_files_lex_cut l w (length l)); [apply firstn_all| |lia].
  intros i r Hi. split; intros _; [apply nth_error_Some; congruence|apply H; eapply nth_error_In; eauto].
Qed.

(* ---- connection with the protocol model: its leader's log is such a log at every moment of every schedule, and
        Sync.l_send_file decides with the lexicographic test ---- *)
Lemma linv_step c s a : LInv (ld s) -> LInv (ld (step c s a)).
Proof.
  intros I. destruct a; simpl; auto using linv_append, linv_rotate, linv_restart.
Qed.

Lemma linv_run c acts : forall s, LInv (ld s) -> LInv (ld (run c s acts)).
Proof. induction acts as [|a tl IH]; intros s I; simpl; auto using linv_step. Qed.

Lemma sync_log_ids_inc c acts : ids_inc (log (ld (run c init_state acts))).
Proof.
  pose proof (linv_run c acts init_state linv_init) as I.
  intros i j ri rj Hij Hi Hj. exact (li_sorted _ I _ _ _ _ Hij Hi Hj).
Qed.

Theorem sync_transfer_then_live_is_log c acts k h :
  let L := ld (run c init_state acts) in
  nth_error (log L) k = Some h ->
  send_files CmpLex (log L) (rid_of h) ++ skipn k (log L) = log L /\
  send_files CmpLex (log L) (mkId (fidx L) (foff L + 1) 0) = log L.
Proof.
  intros L Hk. split.
  - apply transfer_then_live_is_log; [apply sync_log_ids_inc|exact Hk].
  - apply send_files_lex_all. intros r Hr. apply In_nth_error in Hr. destruct Hr as [i Hi].
    exact (li_below _ (linv_run c acts init_state linv_init) i r 0%N Hi).
Qed.

(* what Sync.l_send_file puts on the wire for the record it examines is decided by stop_at CmpLex *)
Lemma sync_send_file_decides_lex L x next b r : sph x = SFiles next b -> nth_error (log L) next = Some r ->
  s2c (l_send_file L x) = s2c x ++ [if stop_at CmpLex (rid_of r) b then MFilesEnd else MRec r].
Proof.
  intros Hs Hn. unfold l_send_file. rewrite Hs, Hn, stop_lex_id_lt. destruct (id_lt (rid_of r) b); reflexivity.
Qed.

(* ---- the offset-only test ---- *)
(* agrees with the lexicographic one as long as no persisted record and the boundary are in different files *)
Theorem send_files_offonly_single_file l w : (forall r, In r l -> xidx (rid_of r) = xidx w) ->
  send_files CmpOffOnly l w = send_files CmpLex l w.
Proof.
  induction l as [|x tl IH]; intros H; cbn [send_files]; [reflexivity|].
  assert (E : stop_at CmpOffOnly (rid_of x) w = stop_at CmpLex (rid_of x) w).
  { unfold stop_at. rewrite (H x (or_introl eq_refl)), N.eqb_refl. reflexivity. }
  rewrite E, IH; [reflexivity|]. intros r Hr. apply H. right. exact Hr.
Qed.

(* after one rotation it ends the transfer at the first old-file record whose offset reaches the boundary offset *)
Definition rot_log : list rec :=
  [mkRec (mkId 1 1 7) 1; mkRec (mkId 1 2 7) 2; mkRec (mkId 1 3 7) 3; mkRec (mkId 2 1 8) 4; mkRec (mkId 2 2 8) 5].

Lemma rot_log_inc : ids_inc rot_log.
Proof.
  intros i j ri rj Hij Hi Hj.
  assert (j < 5) by (apply (nth_error_Some rot_log j); congruence).
  do 5 (destruct j as [|j]; [do 5 (destruct i as [|i]; [simpl in *; inversion Hi; inversion Hj; subst; try lia; reflexivity|]); lia|]).
  lia.
Qed.

Theorem send_files_offonly_refuted :
  ids_inc rot_log /\ nth_error rot_log 4 = Some (mkRec (mkId 2 2 8) 5) /\
  map rpay (send_files CmpOffOnly rot_log (mkId 2 2 8) ++ skipn 4 rot_log) = [1; 5]%N /\
  send_files CmpOffOnly rot_log (mkId 2 2 8) ++ skipn 4 rot_log <> rot_log /\
  send_files CmpLex rot_log (mkId 2 2 8) ++ skipn 4 rot_log = rot_log.
Proof.
  split; [exact rot_log_inc|]. split; [reflexivity|]. split; [vm_compute; reflexivity|].
  split; [vm_compute; discriminate|vm_compute; reflexivity].
Qed.
