(* The two-mutex hand-over of Aof.PushLock (server/aof.go) as an interleaving semantics.

     self.aofGlock.Lock()                          Idle      -> HasAof       (blocked while another shard owns aofGlock)
     self.aofFileOffset++ ; UpdateAofId ; WriteLock HasAof    -> Appended r   (r gets (aofFileIndex, aofFileOffset+1);
     [size >= rewriteSize: RewriteAofFile]                                     optional rotation: index+1, offset 0)
     self.aofLockCount++
   hand-over (the source as it stands):
     self.replGlock.Lock()                         Appended r -> Both r      (blocked while replGlock is owned)
     self.aofGlock.Unlock()                        Both r     -> HasRepl r
   swapped (statement order reversed):
     self.aofGlock.Unlock()                        Appended r -> Between r
     self.replGlock.Lock()                         Between r  -> HasRepl r   (blocked while replGlock is owned)
   both:
     replicationManager.PushLock -> bufferQueue.Push  HasRepl r -> Pushed    (ring ++ [r])
     self.replGlock.Unlock()                       Pushed     -> Idle

   Threads = db shards (AofChannel goroutines), any number (thread ids are nat), each pushes any number of records.
   A schedule is a list of actions (thread, time, payload, rotate?); the thread named by an action performs its next
   statement, a blocked thread stutters, so EVERY list is a schedule and all interleavings are covered.
   checks/C09.py reads the variant off the text of Aof.PushLock on every run. *)
From Coq Require Import List NArith Bool Lia PeanoNat.
From Slock Require Import Repl.Sync Repl.SyncProofs Repl.Transfer.
Import ListNotations.

Inductive pc :=
| Idle | HasAof | Appended (r : rec) | Both (r : rec) | Between (r : rec) | HasRepl (r : rec) | Pushed.

Record hstate := mkH {
  hfile : list rec;            (* append files, in write order *)
  hring : list rec;            (* ReplicationBufferQueue, in push order *)
  hidx : N; hoff : N;          (* aofFileIndex, aofFileOffset *)
  aof_owner : option nat;      (* aofGlock *)
  repl_owner : option nat;     (* replGlock *)
  hpc : nat -> pc }.

Record hact := mkA { a_thread : nat; a_time : N; a_pay : N; a_rot : bool }.

Definition hinit : hstate := mkH [] [] 1 0 None None (fun _ => Idle).

Definition setpc (m : nat -> pc) (t : nat) (p : pc) : nat -> pc := fun u => if Nat.eqb u t then p else m u.

Definition hstep (handover : bool) (s : hstate) (a : hact) : hstate :=
  let t := a_thread a in
  match hpc s t with
  | Idle =>
      match aof_owner s with
      | None => mkH (hfile s) (hring s) (hidx s) (hoff s) (Some t) (repl_owner s) (setpc (hpc s) t HasAof)
      | Some _ => s
      end
  | HasAof =>
      let r := mkRec (mkId (hidx s) (hoff s + 1) (a_time a)) (a_pay a) in
      if a_rot a
      then mkH (hfile s ++ [r]) (hring s) (hidx s + 1) 0 (aof_owner s) (repl_owner s) (setpc (hpc s) t (Appended r))
      else mkH (hfile s ++ [r]) (hring s) (hidx s) (hoff s + 1) (aof_owner s) (repl_owner s) (setpc (hpc s) t (Appended r))
  | Appended r =>
      if handover then
        match repl_owner s with
        | None => mkH (hfile s) (hring s) (hidx s) (hoff s) (aof_owner s) (Some t) (setpc (hpc s) t (Both r))
        | Some _ => s
        end
      else mkH (hfile s) (hring s) (hidx s) (hoff s) None (repl_owner s) (setpc (hpc s) t (Between r))
  | Both r => mkH (hfile s) (hring s) (hidx s) (hoff s) None (repl_owner s) (setpc (hpc s) t (HasRepl r))
  | Between r =>
      match repl_owner s with
      | None => mkH (hfile s) (hring s) (hidx s) (hoff s) (aof_owner s) (Some t) (setpc (hpc s) t (HasRepl r))
      | Some _ => s
      end
  | HasRepl r => mkH (hfile s) (hring s ++ [r]) (hidx s) (hoff s) (aof_owner s) (repl_owner s) (setpc (hpc s) t Pushed)
  | Pushed => mkH (hfile s) (hring s) (hidx s) (hoff s) (aof_owner s) None (setpc (hpc s) t Idle)
  end.

Fixpoint hrun (handover : bool) (s : hstate) (sched : list hact) : hstate :=
  match sched with
  | [] => s
  | a :: tl => hrun handover (hstep handover s a) tl
  end.

Lemma hrun_app h s a b : hrun h s (a ++ b) = hrun h (hrun h s a) b.
Proof. revert s. induction a as [|x tl IH]; intros s; simpl; auto. Qed.

Definition quiescent (s : hstate) : Prop := aof_owner s = None /\ repl_owner s = None.

(* ------------------------------------------------------------------ facts that hold for BOTH variants *)
(* the ring only grows at its end; the file only grows at its end *)
Lemma hstep_grows h s a : (exists m, hring (hstep h s a) = hring s ++ m) /\ (exists m, hfile (hstep h s a) = hfile s ++ m).
Proof.
  unfold hstep. destruct (hpc s (a_thread a)); try destruct (aof_owner s); try destruct (a_rot a); try destruct h;
    try destruct (repl_owner s); simpl; split; try (exists []; rewrite app_nil_r; reflexivity); eexists; reflexivity.
Qed.

Lemma hrun_grows h sched : forall s,
  (exists m, hring (hrun h s sched) = hring s ++ m) /\ (exists m, hfile (hrun h s sched) = hfile s ++ m).
Proof.
  induction sched as [|a tl IH]; intros s; simpl.
  - split; exists []; rewrite app_nil_r; reflexivity.
  - destruct (IH (hstep h s a)) as [[m1 E1] [m2 E2]]. destruct (hstep_grows h s a) as [[n1 F1] [n2 F2]].
    split; [exists (n1 ++ m1); rewrite E1, F1|exists (n2 ++ m2); rewrite E2, F2]; apply app_assoc_reverse.
Qed.

(* ids are handed out under aofGlock in file order: strictly increasing in (index, offset), rotations included *)
Definition file_inv (s : hstate) : Prop :=
  ids_inc (hfile s) /\ forall i r t, nth_error (hfile s) i = Some r -> id_lt (rid_of r) (mkId (hidx s) (hoff s + 1) t) = true.

Lemma ids_inc_snoc l r : ids_inc l -> (forall i x, nth_error l i = Some x -> id_lt (rid_of x) (rid_of r) = true) -> ids_inc (l ++ [r]).
Proof.
  intros S B i j ri rj Hij Hi Hj.
  assert (Hj' : j < length (l ++ [r])) by (apply nth_error_Some; congruence).
  rewrite app_length in Hj'. simpl in Hj'.
  rewrite nth_error_app1 in Hi by lia.
  destruct (Nat.eq_dec j (length l)) as [->|Hne].
  - rewrite nth_error_last_app in Hj. inversion Hj; subst. exact (B _ _ Hi).
  - rewrite nth_error_app1 in Hj by lia. exact (S _ _ _ _ Hij Hi Hj).
Qed.

Lemma file_inv_step h s a : file_inv s -> file_inv (hstep h s a).
Proof.
  intros [S B]. unfold hstep.
  destruct (hpc s (a_thread a)) eqn:P;
    [destruct (aof_owner s); split; assumption| |destruct h; [destruct (repl_owner s)|]; split; assumption|split; assumption
    |destruct (repl_owner s); split; assumption|split; assumption|split; assumption].
  set (r := mkRec (mkId (hidx s) (hoff s + 1) (a_time a)) (a_pay a)).
  assert (S' : ids_inc (hfile s ++ [r])) by (apply ids_inc_snoc; [exact S|intros i x Hi; exact (B i x (a_time a) Hi)]).
  destruct (a_rot a); (split; [exact S'|]); simpl; intros i x t Hi.
  - assert (Hlen : i < length (hfile s ++ [r])) by (apply nth_error_Some; congruence).
    rewrite app_length in Hlen. simpl in Hlen.
    destruct (Nat.eq_dec i (length (hfile s))) as [->|Hne].
    + rewrite nth_error_last_app in Hi. inversion Hi; subst x. unfold id_lt, r; simpl.
      replace (hidx s <? hidx s + 1)%N with true by (symmetry; apply N.ltb_lt; lia). reflexivity.
    + rewrite nth_error_app1 in Hi by lia. eapply id_lt_rotate. exact (B i x 0%N Hi).
  - assert (Hlen : i < length (hfile s ++ [r])) by (apply nth_error_Some; congruence).
    rewrite app_length in Hlen. simpl in Hlen.
    destruct (Nat.eq_dec i (length (hfile s))) as [->|Hne].
    + rewrite nth_error_last_app in Hi. inversion Hi; subst x. unfold id_lt, r; simpl. rewrite N.eqb_refl.
      replace (hoff s + 1 <? hoff s + 1 + 1)%N with true by (symmetry; apply N.ltb_lt; lia). apply orb_true_r.
    + rewrite nth_error_app1 in Hi by lia.
      apply id_lt_trans with (b := mkId (hidx s) (hoff s + 1) 0); [exact (B i x 0%N Hi)|].
      unfold id_lt; simpl. rewrite N.eqb_refl.
      replace (hoff s + 1 <? hoff s + 1 + 1)%N with true by (symmetry; apply N.ltb_lt; lia). apply orb_true_r.
Qed.

Lemma file_inv_init : file_inv hinit.
Proof. split; [intros i j ri rj _ Hi|intros i r t Hi]; destruct i; discriminate. Qed.

Lemma file_inv_run h sched : forall s, file_inv s -> file_inv (hrun h s sched).
Proof. induction sched as [|a tl IH]; intros s I; simpl; auto using file_inv_step. Qed.

(* ------------------------------------------------------------------ hand-over-hand: ring order = file order *)
Definition in_aof (p : pc) : bool := match p with HasAof | Appended _ | Both _ => true | _ => false end.
Definition in_repl (p : pc) : bool := match p with Both _ | HasRepl _ | Pushed => true | _ => false end.

Definition pend_repl (s : hstate) : list rec :=
  match repl_owner s with Some t => match hpc s t with HasRepl r => [r] | _ => [] end | None => [] end.
Definition pend_aof (s : hstate) : list rec :=
  match aof_owner s with Some t => match hpc s t with Appended r | Both r => [r] | _ => [] end | None => [] end.

Record HInv (s : hstate) : Prop := mkHInv {
  hi_aof : forall t, in_aof (hpc s t) = true <-> aof_owner s = Some t;
  hi_repl : forall t, in_repl (hpc s t) = true <-> repl_owner s = Some t;
  hi_nobetween : forall t r, hpc s t <> Between r;
  hi_order : hfile s = hring s ++ pend_repl s ++ pend_aof s }.

Lemma hinv_init : HInv hinit.
Proof. split; simpl; try (intros; split; discriminate); try discriminate; reflexivity. Qed.

Lemma setpc_same m t p : setpc m t p t = p.
Proof. unfold setpc. rewrite Nat.eqb_refl. reflexivity. Qed.

Lemma setpc_other m t p u : u <> t -> setpc m t p u = m u.
Proof. unfold setpc. intros H. apply Nat.eqb_neq in H. rewrite H. reflexivity. Qed.

(* ownership facts after thread t moved to p: every other thread is unchanged *)
Ltac own_other u t :=
  destruct (Nat.eq_dec u t) as [->|?]; [rewrite ?setpc_same|rewrite ?setpc_other by assumption].

Lemma hinv_step s a : HInv s -> HInv (hstep true s a).
Proof.
  intros I0. pose proof I0 as [IA IR NB IO]. unfold hstep. set (t := a_thread a).
  assert (Aown : forall u, aof_owner s = Some u -> in_aof (hpc s u) = true) by (intros u; apply IA).
  assert (Rown : forall u, repl_owner s = Some u -> in_repl (hpc s u) = true) by (intros u; apply IR).
  destruct (hpc s t) eqn:P.
  - (* Idle: aofGlock.Lock *)
    destruct (aof_owner s) as [o|] eqn:AO; [exact I0|].
    split; simpl.
    + intros u. own_other u t; simpl; [split; auto|]. rewrite IA. split; [discriminate|]. intros E; inversion E; congruence.
    + intros u. own_other u t; simpl; [|apply IR]. rewrite <- IR, P. simpl. tauto.
    + intros u r. own_other u t; [discriminate|apply NB].
    + unfold pend_repl, pend_aof in *. simpl. rewrite AO in IO. rewrite setpc_same.
      destruct (repl_owner s) as [o|] eqn:RO; [|exact IO].
      assert (o <> t) by (intros ->; specialize (Rown t eq_refl); rewrite P in Rown; discriminate).
      rewrite setpc_other by assumption. exact IO.
  - (* HasAof: append, optional rotation *)
    assert (AO : aof_owner s = Some t) by (apply IA; rewrite P; reflexivity).
    assert (RO : forall o, repl_owner s = Some o -> o <> t).
    { intros o Ho ->. specialize (Rown t Ho). rewrite P in Rown. discriminate. }
    set (r := mkRec (mkId (hidx s) (hoff s + 1) (a_time a)) (a_pay a)).
    assert (G : forall i o, HInv (mkH (hfile s ++ [r]) (hring s) i o (aof_owner s) (repl_owner s) (setpc (hpc s) t (Appended r)))).
    { intros i o. split; simpl.
      + intros u. own_other u t; simpl; [rewrite AO; tauto|apply IA].
      + intros u. own_other u t; simpl; [|apply IR]. rewrite <- IR, P. simpl. tauto.
      + intros u r0. own_other u t; [discriminate|apply NB].
      + unfold pend_repl, pend_aof in *. simpl. rewrite AO in *. rewrite setpc_same. rewrite P in IO.
        rewrite IO. destruct (repl_owner s) as [o'|] eqn:RO'.
        * rewrite setpc_other by (apply RO; reflexivity). rewrite app_nil_r, <- !app_assoc. reflexivity.
        * simpl. rewrite app_nil_r. reflexivity. }
    destruct (a_rot a); apply G.
  - (* Appended r: replGlock.Lock while holding aofGlock *)
    assert (AO : aof_owner s = Some t) by (apply IA; rewrite P; reflexivity).
    destruct (repl_owner s) as [o|] eqn:RO; [exact I0|].
    split; simpl.
    + intros u. own_other u t; simpl; [rewrite AO; tauto|apply IA].
    + intros u. own_other u t; simpl; [tauto|]. rewrite IR. split; [discriminate|]. intros E; inversion E; congruence.
    + intros u r0. own_other u t; [discriminate|apply NB].
    + unfold pend_repl, pend_aof in *. simpl. rewrite AO, RO in *. rewrite !setpc_same. rewrite P in IO. exact IO.
  - (* Both r: aofGlock.Unlock *)
    assert (AO : aof_owner s = Some t) by (apply IA; rewrite P; reflexivity).
    assert (RO : repl_owner s = Some t) by (apply IR; rewrite P; reflexivity).
    split; simpl.
    + intros u. own_other u t; simpl; [split; discriminate|]. rewrite IA, AO. split; [intros E; inversion E; congruence|discriminate].
    + intros u. own_other u t; simpl; [rewrite RO; tauto|apply IR].
    + intros u r0. own_other u t; [discriminate|apply NB].
    + unfold pend_repl, pend_aof in *. simpl. rewrite AO, RO in *. rewrite setpc_same. rewrite P in IO.
      rewrite IO. reflexivity.
  - (* Between: unreachable with hand-over *)
    exfalso. exact (NB t r P).
  - (* HasRepl r: Push *)
    assert (RO : repl_owner s = Some t) by (apply IR; rewrite P; reflexivity).
    assert (AO : forall o, aof_owner s = Some o -> o <> t).
    { intros o Ho ->. specialize (Aown t Ho). rewrite P in Aown. discriminate. }
    split; simpl.
    + intros u. own_other u t; simpl; [|apply IA]. rewrite <- IA, P. simpl. tauto.
    + intros u. own_other u t; simpl; [rewrite RO; tauto|apply IR].
    + intros u r0. own_other u t; [discriminate|apply NB].
    + unfold pend_repl, pend_aof in *. simpl. rewrite RO in *. rewrite setpc_same. rewrite P in IO. rewrite IO.
      destruct (aof_owner s) as [o|] eqn:AO'.
      * rewrite setpc_other by (apply AO; reflexivity). simpl. rewrite <- app_assoc. reflexivity.
      * simpl. rewrite <- app_assoc. reflexivity.
  - (* Pushed: replGlock.Unlock *)
    assert (RO : repl_owner s = Some t) by (apply IR; rewrite P; reflexivity).
    assert (AO : forall o, aof_owner s = Some o -> o <> t).
    { intros o Ho ->. specialize (Aown t Ho). rewrite P in Aown. discriminate. }
    split; simpl.
    + intros u. own_other u t; simpl; [|apply IA]. rewrite <- IA, P. simpl. tauto.
    + intros u. own_other u t; simpl; [split; discriminate|]. rewrite IR, RO. split; [intros E; inversion E; congruence|discriminate].
    + intros u r0. own_other u t; [discriminate|apply NB].
    + unfold pend_repl, pend_aof in *. simpl. rewrite RO in *. rewrite P in IO. rewrite IO.
      destruct (aof_owner s) as [o|] eqn:AO'.
      * rewrite setpc_other by (apply AO; reflexivity). reflexivity.
      * reflexivity.
Qed.

Lemma hinv_run sched : forall s, HInv s -> HInv (hrun true s sched).
Proof. induction sched as [|a tl IH]; intros s I; simpl; auto using hinv_step. Qed.

Lemma pend_len s : length (pend_repl s ++ pend_aof s) <= 2.
Proof.
  rewrite app_length. unfold pend_repl, pend_aof.
  destruct (repl_owner s) as [o|]; [destruct (hpc s o)|]; (destruct (aof_owner s) as [o'|]; [destruct (hpc s o')|]); simpl; lia.
Qed.

(* all interleavings, any number of threads and records: the ring is the file minus at most the two records that are
   inside PushLock right now; with no shard inside PushLock the ring IS the file *)
Theorem handover_ring_is_file : forall sched,
  let s := hrun true hinit sched in
  (exists q, hfile s = hring s ++ q /\ length q <= 2) /\
  hring s = firstn (length (hring s)) (hfile s) /\
  (quiescent s -> hring s = hfile s) /\
  ids_inc (hfile s).
Proof.
  intros sched s. pose proof (hinv_run sched hinit hinv_init) as I. fold s in I.
  pose proof (hi_order s I) as O. repeat split.
  - exists (pend_repl s ++ pend_aof s). split; [exact O|apply pend_len].
  - rewrite O. rewrite firstn_app, Nat.sub_diag, firstn_all. simpl. rewrite app_nil_r. reflexivity.
  - intros [QA QR]. rewrite O. unfold pend_repl, pend_aof. rewrite QA, QR. simpl. rewrite app_nil_r. reflexivity.
  - exact (proj1 (file_inv_run true sched hinit file_inv_init)).
Qed.

(* full transfer + live stream.  The handshake happens after `before` and finds h at the ring's head (R0 below it);
   sendFiles reads the files after `mid` more steps; the live stream is followed until `after` more steps.  Whatever
   the three schedules are, the transferred records followed by the ring from h on are the ring, which is a prefix of
   the file in file order (the whole file once no shard is inside PushLock): nothing missing, duplicated, reordered. *)
Theorem handover_full_transfer_gapfree : forall before mid after R0 h,
  let s1 := hrun true hinit before in
  let s2 := hrun true s1 mid in
  let s3 := hrun true s2 after in
  hring s1 = R0 ++ [h] ->
  send_files CmpLex (hfile s2) (rid_of h) = R0 /\
  send_files CmpLex (hfile s2) (rid_of h) ++ skipn (length R0) (hring s3) = hring s3 /\
  hring s3 = firstn (length (hring s3)) (hfile s3) /\
  (quiescent s3 -> send_files CmpLex (hfile s2) (rid_of h) ++ skipn (length R0) (hring s3) = hfile s3).
Proof.
  intros before mid after R0 h s1 s2 s3 HR.
  assert (E2 : s2 = hrun true hinit (before ++ mid)) by (unfold s2, s1; rewrite hrun_app; reflexivity).
  assert (E3 : s3 = hrun true hinit ((before ++ mid) ++ after)) by (unfold s3; rewrite E2, <- hrun_app; reflexivity).
  destruct (handover_ring_is_file before) as (_ & P1 & _ & _). fold s1 in P1.
  destruct (handover_ring_is_file (before ++ mid)) as (_ & P2 & _ & S2). rewrite <- E2 in P2, S2.
  destruct (handover_ring_is_file ((before ++ mid) ++ after)) as (_ & P3 & Q3 & _). rewrite <- E3 in P3, Q3.
  destruct (hrun_grows true mid s1) as [[m12 G12] _]. fold s2 in G12.
  destruct (hrun_grows true after s2) as [[m23 G23] _]. fold s3 in G23.
  (* h is the record number |R0| of the file at every later moment *)
  assert (N2 : nth_error (hfile s2) (length R0) = Some h).
  { apply nth_error_firstn with (e := length (hring s2)). rewrite <- P2, G12, HR, <- !app_assoc.
    rewrite nth_error_app2 by lia. rewrite Nat.sub_diag. reflexivity. }
  assert (T : send_files CmpLex (hfile s2) (rid_of h) = R0).
  { rewrite (send_files_lex_prefix _ _ _ S2 N2).
    assert (F : firstn (length R0) (hring s2) = R0).
    { rewrite G12, HR, <- !app_assoc. rewrite firstn_app, Nat.sub_diag, firstn_all. simpl. apply app_nil_r. }
    assert (Hlen : length R0 <= length (hring s2)) by (rewrite G12, HR, !app_length; simpl; lia).
    transitivity (firstn (length R0) (hring s2)); [|exact F].
    rewrite P2, firstn_firstn, Nat.min_l by exact Hlen. reflexivity. }
  assert (L3 : R0 ++ skipn (length R0) (hring s3) = hring s3).
  { rewrite G23, G12, HR, <- !app_assoc. rewrite skipn_app, Nat.sub_diag, skipn_all. reflexivity. }
  split; [exact T|]. split; [rewrite T; exact L3|]. split; [exact P3|].
  intros Q. rewrite T, L3. apply Q3. exact Q.
Qed.

(* ------------------------------------------------------------------ swapped unlock/lock: refuted with two shards *)
Definition A (t : nat) (pay : N) : hact := mkA t 7 pay false.
Definition AR (t : nat) (pay : N) (rot : bool) : hact := mkA t 7 pay rot.
(* shard 0 appends #1 and releases aofGlock; shard 1 appends #2, overtakes, pushes, leaves; shard 0 pushes *)
Definition swap_sched : list hact :=
  [A 0 1; A 0 1; A 0 1;   A 1 2; A 1 2; A 1 2; A 1 2; A 1 2; A 1 2;   A 0 1; A 0 1; A 0 1].

Theorem swapped_refuted :
  let s := hrun false hinit swap_sched in
  quiescent s /\ (forall t, hpc s t = Idle) /\
  map rpay (hfile s) = [1; 2]%N /\ map rpay (hring s) = [2; 1]%N /\ hring s <> hfile s /\
  (* a follower whose handshake sees record #1 at the ring's head: files below #1 (nothing), ring from #1 on: #2 is lost *)
  (let s1 := hrun false hinit swap_sched in
   exists R0 h, hring s1 = R0 ++ [h] /\ rpay h = 1%N /\
     map rpay (send_files CmpLex (hfile s) (rid_of h) ++ skipn (length R0) (hring s)) = [1%N]) /\
  (* the same schedule under hand-over-hand locking: shard 1 waits, order kept *)
  map rpay (hring (hrun true hinit swap_sched)) = map rpay (firstn 1 (hfile (hrun true hinit swap_sched))).
Proof.
  cbv zeta. split; [split; vm_compute; reflexivity|]. split.
  - intros t. do 2 (destruct t as [|t]; [vm_compute; reflexivity|]). vm_compute. reflexivity.
  - split; [vm_compute; reflexivity|]. split; [vm_compute; reflexivity|]. split; [vm_compute; discriminate|].
    split; [|vm_compute; reflexivity].
    exists [mkRec (mkId 1 2 7) 2], (mkRec (mkId 1 1 7) 1). split; [vm_compute; reflexivity|]. split; vm_compute; reflexivity.
Qed.
