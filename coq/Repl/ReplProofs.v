(* Proofs about the ring model (Ring.v) and the sync protocol model (Sync.v). *)
From Coq Require Import List NArith Bool Lia.
From Slock Require Import Base.Util Repl.Ring.
Import ListNotations.
Open Scope N_scope.

Lemma find_id_sound id l it : find_id id l = Some it -> In it l /\ iid it = id.
Proof.
  induction l as [|x tl IH]; simpl; [discriminate|].
  destruct (iid x =? id) eqn:E.
  - intros H; inversion H; subst. apply N.eqb_eq in E. auto.
  - intros H. destruct (IH H). auto.
Qed.

Lemma find_id_complete id l : find_id id l = None -> forall it, In it l -> iid it <> id.
Proof.
  induction l as [|x tl IH]; simpl; intros H it Hin; [contradiction|].
  destruct (iid x =? id) eqn:E; [discriminate|].
  destruct Hin as [->|Hin]; [apply N.eqb_neq; exact E|auto].
Qed.

(* Search succeeds iff a live (still buffered) item carries the id, and then stands on such an item. *)
Theorem search_iff_buffered q id c :
  (fst (search q id c) = ROk <-> exists it, In it (live q) /\ iid it = id) /\
  (fst (search q id c) = ROk -> exists it, In it (live q) /\ iid it = id /\ snd (search q id c) = deliver it true).
Proof.
  unfold search. destruct (live q) as [|t tl] eqn:L.
  - simpl. split; [split|]; try discriminate. intros [it [[] _]].
  - destruct (find_id id (t :: tl)) as [it|] eqn:F; simpl.
    + destruct (find_id_sound _ _ _ F) as [Hin Hid]. split; [split|]; eauto.
    + split; [split|]; try discriminate.
      intros [it [Hin Hid]]. exfalso. exact (find_id_complete _ _ F it Hin Hid).
Qed.

(* ====================================================================================================
   Ring refinement: the ring with cursors refines "history of pushed records + per-cursor position".
   hist = every record ever pushed (id, tag, data), oldest first; the live list is the suffix hist[lo..),
   sequence number of hist[k] is k.
   ==================================================================================================== *)
From Coq Require Import PeanoNat Permutation.

Definition content (it : item) : N * N * option (N * N) := (iid it, itag it, idata it).
Definition hrec := (N * N * option (N * N))%type.

Definition lo_of (q : ring) (hist : list hrec) : nat := (length hist - length (live q))%nat.

Record RInv (q : ring) (hist : list hrec) (na : N) : Prop := mkRInv {
  ri_len : (length (live q) <= length hist)%nat;
  ri_nonempty : hist <> [] -> live q <> [];
  ri_live : forall j it, nth_error (live q) j = Some it ->
              iseq it = N.of_nat (lo_of q hist + j)%nat /\ nth_error hist (lo_of q hist + j)%nat = Some (content it) /\ ipc it <= na;
  ri_free : forall it, In it (free q) -> ipc it = NOPOLL /\ iseq it = 0;
  ri_nodup : NoDup (map iref (live q ++ free q));
  ri_refs : forall it, In it (live q ++ free q) -> iref it < nextref q;
  ri_seq : rseq q = N.of_nat (length hist);
  ri_bound : N.of_nat (length hist) < NOSEQ;
  ri_poll : rpoll q <= na;
  ri_na : na < NOPOLL }.

(* abstract position of a cursor *)
Inductive CInv (q : ring) (hist : list hrec) (c : cursor) : Prop :=
| CFresh : ccur c = None -> cseq c = NOSEQ -> CInv q hist c
| CPos p r : cseq c = N.of_nat p -> nth_error hist p = Some (cbid c, cbtag c, cdata c) -> cid c = cbid c ->
    ccur c = Some r -> (exists it, In it (live q ++ free q) /\ iref it = r) ->
    ((lo_of q hist <= p)%nat -> exists it, nth_error (live q) (p - lo_of q hist)%nat = Some it /\ iref it = r) ->
    CInv q hist c.

(* ---------- pointer lookup ---------- *)
Lemma find_from_some r l x tl : find_from r l = Some (x, tl) ->
  exists pre, l = pre ++ x :: tl /\ iref x = r /\ forall y, In y pre -> iref y <> r.
Proof.
  revert x tl. induction l as [|a l IH]; simpl; intros x tl H; [discriminate|].
  destruct (iref a =? r) eqn:E.
  - inversion H; subst. exists []. apply N.eqb_eq in E. simpl. repeat split; auto.
  - destruct (IH _ _ H) as [pre [A [B C]]]. exists (a :: pre). subst l. simpl. repeat split; auto.
    intros y [<-|Hy]; [apply N.eqb_neq; auto|auto].
Qed.

Lemma find_from_none r l : find_from r l = None -> forall y, In y l -> iref y <> r.
Proof.
  induction l as [|a l IH]; simpl; intros H y Hy; [contradiction|].
  destruct (iref a =? r) eqn:E; [discriminate|]. destruct Hy as [<-|Hy]; [apply N.eqb_neq; auto|auto].
Qed.

Lemma find_from_nth r l j it : NoDup (map iref l) -> nth_error l j = Some it -> iref it = r ->
  find_from r l = Some (it, skipn (S j) l).
Proof.
  revert j. induction l as [|a l IH]; intros j ND Hj Hr; [destruct j; discriminate|].
  simpl in ND. inversion ND as [|? ? Hn ND']; subst.
  destruct j; simpl in *.
  - inversion Hj; subst. rewrite N.eqb_refl. reflexivity.
  - destruct (iref a =? iref it) eqn:E.
    + apply N.eqb_eq in E. exfalso. apply Hn. rewrite E. apply in_map. eapply nth_error_In; eauto.
    + apply IH; auto.
Qed.

Lemma NoDup_app_l {A} (l m : list A) : NoDup (l ++ m) -> NoDup l.
Proof. induction l; simpl; intros H; [constructor|]. inversion H; subst. constructor; auto. intros X. apply H2. apply in_or_app; auto. Qed.

Lemma NoDup_app_disj {A} (l m : list A) x : NoDup (l ++ m) -> In x l -> In x m -> False.
Proof.
  induction l; simpl; intros H Hl Hm; [contradiction|]. inversion H; subst.
  destruct Hl as [->|Hl]; [apply H2; apply in_or_app; auto|auto].
Qed.

(* ---------- 64-bit arithmetic on small numbers ---------- *)
Lemma sub64_small a b : a < U64 -> b < NOSEQ -> (sub64 a b =? 1) = (a =? b + 1).
Proof.
  intros Ha Hb0. assert (Hb : b < U64) by (unfold U64, NOSEQ in *; lia).
  unfold sub64. rewrite (N.mod_small b U64) by auto.
  destruct (N.le_gt_cases b a) as [H|H].
  - replace (a + U64 - b) with ((a - b) + 1 * U64) by lia. rewrite N.mod_add by (unfold U64; lia).
    rewrite N.mod_small by lia.
    destruct (a - b =? 1) eqn:E1; destruct (a =? b + 1) eqn:E2; auto;
      [apply N.eqb_eq in E1; apply N.eqb_neq in E2; lia|apply N.eqb_neq in E1; apply N.eqb_eq in E2; lia].
  - rewrite N.mod_small by lia.
    destruct (a + U64 - b =? 1) eqn:E1; destruct (a =? b + 1) eqn:E2; auto;
      [apply N.eqb_eq in E1; unfold U64, NOSEQ in *; lia|apply N.eqb_eq in E2; lia].
Qed.

(* ---------- delivering an item positions the cursor on it ---------- *)
Lemma deliver_pos q hist na j it w : RInv q hist na -> nth_error (live q) j = Some it ->
  CInv q hist (deliver it w) /\ cseq (deliver it w) = N.of_nat (lo_of q hist + j)%nat /\
  nth_error hist (lo_of q hist + j)%nat = Some (cbid (deliver it w), cbtag (deliver it w), cdata (deliver it w)).
Proof.
  intros I Hj. destruct (ri_live q hist na I j it Hj) as (A & B & C).
  split; [|split; auto].
  eapply (CPos q hist _ (lo_of q hist + j)%nat (iref it)); simpl; auto.
  - exists it. split; auto. apply in_or_app. left. eapply nth_error_In; eauto.
  - intros _. exists it. split; auto. replace (lo_of q hist + j - lo_of q hist)%nat with j by lia. auto.
Qed.

Lemma nth_error_split_len {A} (pre : list A) x tl : nth_error (pre ++ x :: tl) (length pre) = Some x.
Proof. rewrite nth_error_app2 by lia. rewrite Nat.sub_diag. reflexivity. Qed.

Lemma NoDup_map_nth_inj {A B} (f : A -> B) l i j a b : NoDup (map f l) -> nth_error l i = Some a -> nth_error l j = Some b ->
  f a = f b -> i = j.
Proof.
  intros ND Hi Hj E.
  assert (Hi' : nth_error (map f l) i = Some (f a)) by (rewrite nth_error_map, Hi; reflexivity).
  assert (Hj' : nth_error (map f l) j = Some (f b)) by (rewrite nth_error_map, Hj; reflexivity).
  rewrite NoDup_nth_error in ND. apply ND; [apply nth_error_Some; congruence|congruence].
Qed.

(* what Pop may answer, in terms of the history *)
Inductive pop_ok (rc : rcfg) (q : ring) (hist : list hrec) (c : cursor) : result -> cursor -> Prop :=
| PopNext p c' : cseq c = N.of_nat p -> ccur c <> None -> CInv q hist c' -> cwrited c' = false ->
    cseq c' = N.of_nat (S p) -> nth_error hist (S p) = Some (cbid c', cbtag c', cdata c') ->
    pop_ok rc q hist c ROk c'                                    (* exactly the next record *)
| PopFirst c' : ccur c = None -> cseq c = NOSEQ -> CInv q hist c' -> cwrited c' = false ->
    cseq c' = N.of_nat (lo_of q hist) -> nth_error hist (lo_of q hist) = Some (cbid c', cbtag c', cdata c') ->
    (rc_fresh_exempt rc = false -> lo_of q hist = 0%nat) ->
    pop_ok rc q hist c ROk c'                                    (* a cursor that never delivered starts at the oldest buffered record *)
| PopEofEnd p : cseq c = N.of_nat p -> ccur c <> None -> S p = length hist -> pop_ok rc q hist c REof c
| PopEofEmpty : ccur c = None -> hist = [] -> pop_ok rc q hist c REof c
| PopOobEvicted p : cseq c = N.of_nat p -> ccur c <> None -> (p < lo_of q hist)%nat -> pop_ok rc q hist c ROob c
| PopOobFresh : ccur c = None -> rc_fresh_exempt rc = false -> (0 < lo_of q hist)%nat -> pop_ok rc q hist c ROob c.

Lemma live_cons_nth (q : ring) t tl : live q = t :: tl -> nth_error (live q) 0 = Some t.
Proof. intros ->. reflexivity. Qed.

Theorem pop_refines rc q hist na c : RInv q hist na -> CInv q hist c ->
  pop_ok rc q hist c (fst (pop rc q c)) (snd (pop rc q c)).
Proof.
  intros I C. pose proof (ri_bound q hist na I) as Hb.
  assert (HU : forall n : nat, (n <= length hist)%nat -> N.of_nat n < U64).
  { intros n Hn. unfold NOSEQ, U64 in *. lia. }
  unfold pop. destruct C as [Cn Cs|p r Cs Cc Ci Cr Cm Cv].
  - (* never delivered *)
    rewrite Cn. destruct (live q) as [|t tl] eqn:L; simpl.
    + apply PopEofEmpty; auto. destruct hist; auto. exfalso. apply (ri_nonempty q _ na I); auto. discriminate.
    + pose proof (live_cons_nth _ _ _ L) as H0.
      destruct (deliver_pos q hist na 0 t false I H0) as (D1 & D2 & D3). rewrite Nat.add_0_r in *.
      destruct (ri_live q hist na I 0 t H0) as (A & _ & _). rewrite Nat.add_0_r in A.
      rewrite Cs, A. rewrite N.eqb_refl.
      assert (Hlo : (lo_of q hist <= length hist)%nat) by (unfold lo_of; lia).
      destruct (rc_fresh_exempt rc) eqn:Fe; simpl.
      * rewrite !andb_false_r. simpl. eapply PopFirst; eauto. intros X; congruence.
      * rewrite andb_true_r.
        assert (Hs : (sub64 (N.of_nat (lo_of q hist)) NOSEQ =? 1) = (N.of_nat (lo_of q hist) =? 0)).
        { unfold sub64. rewrite (N.mod_small NOSEQ U64) by (unfold NOSEQ, U64; lia).
          replace (N.of_nat (lo_of q hist) + U64 - NOSEQ) with (N.of_nat (lo_of q hist) + 1) by (unfold NOSEQ, U64; lia).
          rewrite N.mod_small by (pose proof (HU _ Hlo); unfold NOSEQ, U64 in *; lia).
          destruct (N.of_nat (lo_of q hist) + 1 =? 1) eqn:E1; destruct (N.of_nat (lo_of q hist) =? 0) eqn:E2; auto;
            [apply N.eqb_eq in E1; apply N.eqb_neq in E2; lia|apply N.eqb_neq in E1; apply N.eqb_eq in E2; lia]. }
        rewrite Hs. destruct (N.of_nat (lo_of q hist) =? 0) eqn:E0; simpl.
        -- apply N.eqb_eq in E0. eapply PopFirst; eauto. intros _. lia.
        -- apply N.eqb_neq in E0. apply PopOobFresh; auto. lia.
  - (* positioned on hist[p] *)
    assert (Hp : (p < length hist)%nat) by (apply nth_error_Some; congruence).
    rewrite Cr. unfold deref.
    destruct (find_from r (live q)) as [[it nxt]|] eqn:F.
    + destruct (find_from_some _ _ _ _ F) as [pre [El [Er Epre]]].
      assert (Hj : nth_error (live q) (length pre) = Some it) by (rewrite El; apply nth_error_split_len).
      destruct (ri_live q hist na I _ _ Hj) as (A & B & D).
      replace (ipc it =? NOPOLL) with false by (symmetry; apply N.eqb_neq; pose proof (ri_na q hist na I); lia).
      destruct (Nat.le_gt_cases (lo_of q hist) p) as [Hle|Hgt].
      * destruct (Cv Hle) as [it' [Hn' Hr']].
        assert (Hidx : length pre = (p - lo_of q hist)%nat).
        { eapply (NoDup_map_nth_inj iref (live q)); eauto.
          - eapply NoDup_app_l. rewrite <- map_app. apply (ri_nodup q hist na I).
          - congruence. }
        rewrite A, Cs, Hidx. replace (lo_of q hist + (p - lo_of q hist))%nat with p by lia.
        rewrite N.eqb_refl. simpl.
        destruct nxt as [|n nxt'].
        -- apply (PopEofEnd _ _ _ _ p); auto; [congruence|].
           assert (length (live q) = S (length pre)) by (rewrite El, app_length; simpl; lia).
           pose proof (ri_len q hist na I). unfold lo_of in *. lia.
        -- assert (Hn : nth_error (live q) (S (length pre)) = Some n).
           { rewrite El. rewrite nth_error_app2 by lia. replace (S (length pre) - length pre)%nat with 1%nat by lia. reflexivity. }
           destruct (deliver_pos q hist na _ n false I Hn) as (D1 & D2 & D3).
           rewrite Hidx in D2, D3. replace (lo_of q hist + S (p - lo_of q hist))%nat with (S p) in * by lia.
           simpl. eapply (PopNext _ _ _ _ p); eauto. congruence.
      * assert (Hne : (iseq it =? cseq c) = false).
        { rewrite A, Cs. apply N.eqb_neq. lia. }
        rewrite Hne. simpl. apply (PopOobEvicted _ _ _ _ p); auto. congruence.
    + (* the pointer is not in the live list: the item has been moved to the free list *)
      assert (Hlt : (p < lo_of q hist)%nat).
      { destruct (Nat.le_gt_cases (lo_of q hist) p) as [Hle|Hgt]; auto. exfalso.
        destruct (Cv Hle) as [it' [Hn' Hr']]. eapply (find_from_none _ _ F); eauto. eapply nth_error_In; eauto. }
      destruct Cm as [it0 [Hin0 Hr0]].
      apply in_app_or in Hin0. destruct Hin0 as [Hin0|Hin0]; [exfalso; eapply (find_from_none _ _ F); eauto|].
      destruct (find_from r (free q)) as [[it nxt]|] eqn:F2; [|exfalso; eapply (find_from_none _ _ F2); eauto].
      destruct (find_from_some _ _ _ _ F2) as [pre [El [Er Epre]]].
      assert (Hinf : In it (free q)) by (rewrite El; apply in_or_app; right; left; auto).
      destruct (ri_free q hist na I _ Hinf) as [Hpc _]. rewrite Hpc, N.eqb_refl.
      destruct (live q) as [|t tl] eqn:L.
      * exfalso. apply (ri_nonempty q hist na I); auto. intros ->. simpl in Hp. lia.
      * pose proof (live_cons_nth _ _ _ L) as H0.
        destruct (deliver_pos q hist na 0 t false I H0) as (D1 & D2 & D3). rewrite Nat.add_0_r in *.
        destruct (ri_live q hist na I 0 t H0) as (A & _ & _). rewrite Nat.add_0_r in A.
        assert (Hlo : (lo_of q hist <= length hist)%nat) by (unfold lo_of; lia).
        rewrite A, Cs. rewrite sub64_small by (try apply HU; auto; unfold NOSEQ in *; lia).
        replace (N.of_nat p =? NOSEQ) with false by (symmetry; apply N.eqb_neq; unfold NOSEQ in *; lia).
        rewrite andb_false_r. simpl.
        replace (N.of_nat (lo_of q hist) =? 0) with false by (symmetry; apply N.eqb_neq; lia).
        simpl. rewrite andb_true_r.
        destruct (N.of_nat (lo_of q hist) =? N.of_nat p + 1) eqn:E; simpl.
        -- apply N.eqb_eq in E. assert (lo_of q hist = S p) by lia.
           rewrite H in *. eapply (PopNext _ _ _ _ p); eauto. congruence.
        -- apply (PopOobEvicted _ _ _ _ p); auto. congruence.
Qed.

(* ---------- the shape of a Push ---------- *)
Lemma reset_loop_spec rest : forall q usd bs fr it lv usd' fr',
  reset_loop q rest usd bs fr = (it, lv, usd', fr') ->
  exists mid, q :: rest = mid ++ it :: lv /\ fr' = fr ++ map freed mid.
Proof.
  induction rest as [|t rest IH]; simpl; intros q usd bs fr it lv usd' fr' H.
  - inversion H; subst. exists []. simpl. rewrite app_nil_r. auto.
  - destruct ((bs <=? usd) && (ipc t <=? ipi t)).
    + destruct (IH _ _ _ _ _ _ _ _ H) as [mid [A B]]. exists (q :: mid). simpl. rewrite A. split; auto.
      rewrite B, <- app_assoc. reflexivity.
    + inversion H; subst. exists []. simpl. rewrite app_nil_r. auto.
Qed.

Definition new_item (q : ring) (r id tag : N) (d : option (N * N)) : item := mkItem r id tag d (rpoll q) 0 (rseq q).

Inductive push_shape (q : ring) (id tag : N) (d : option (N * N)) (q' : ring) : Prop :=
| PsEvict mid it0 lv : live q = mid ++ it0 :: lv -> live q' = lv ++ [new_item q (iref it0) id tag d] ->
    free q' = free q ++ map freed mid -> nextref q' = nextref q ->
    rseq q' = add64 (rseq q) 1 -> rpoll q' = rpoll q -> push_shape q id tag d q'
| PsFree n f fr0 : free q ++ fresh_items n (nextref q) = f :: fr0 -> live q' = live q ++ [new_item q (iref f) id tag d] ->
    free q' = fr0 -> nextref q' = nextref q + N.of_nat n ->
    rseq q' = add64 (rseq q) 1 -> rpoll q' = rpoll q -> push_shape q id tag d q'
| PsAlloc : free q = [] -> live q' = live q ++ [new_item q (nextref q) id tag d] ->
    free q' = [] -> nextref q' = nextref q + 1 ->
    rseq q' = add64 (rseq q) 1 -> rpoll q' = rpoll q -> push_shape q id tag d q'.

Lemma fresh_items_zero r : fresh_items 0 r = [].
Proof. reflexivity. Qed.

Lemma push_noevict q q1 id tag d n :
  live q1 = live q -> free q1 = free q ++ fresh_items n (nextref q) -> nextref q1 = nextref q + N.of_nat n ->
  rseq q1 = rseq q -> rpoll q1 = rpoll q -> (n = 0%nat \/ True) ->
  (free q = [] -> n = 0%nat -> True) ->
  forall q', q' = (let '(it, q2) :=
        match free q1 with
        | f :: fr => (f, mkRing (live q1) fr (rseq q1) (used q1) (bsize q1) (maxsize q1) (rpoll q1) (dup q1) (nextref q1))
        | [] => (alloc_item (nextref q1),
                 mkRing (live q1) [] (rseq q1) (used q1) (bsize q1) (maxsize q1) (rpoll q1) (dup q1) (nextref q1 + 1))
        end in
      mkRing (live q2 ++ [mkItem (iref it) id tag d (rpoll q2) 0 (rseq q2)]) (free q2) (add64 (rseq q2) 1)
             (add64 (used q2) (dsize d)) (bsize q2) (maxsize q2) (rpoll q2) (dup q2) (nextref q2)) ->
  push_shape q id tag d q'.
Proof.
  intros Hl Hf Hn Hs Hp _ _ q' ->.
  destruct (free q1) as [|f fr] eqn:F; simpl.
  - (* nothing free even after growing: allocate *)
    assert (free q = [] /\ fresh_items n (nextref q) = []) by (apply app_eq_nil; congruence).
    destruct H as [H1 H2]. assert (n = 0%nat) by (destruct n; simpl in H2; [auto|discriminate]). subst n.
    apply PsAlloc; simpl; auto; try congruence.
    + unfold new_item. rewrite Hl, Hn, Hp, Hs. simpl. rewrite N.add_0_r. reflexivity.
    + rewrite Hn. simpl. lia.
  - eapply (PsFree _ _ _ _ _ n f fr); simpl; auto; try congruence.
    unfold new_item. rewrite Hl, Hp, Hs. reflexivity.
Qed.

Lemma push_has_shape q id tag d : push_shape q id tag d (push q id tag d).
Proof.
  unfold push.
  destruct (live q) as [|t tl] eqn:L.
  - eapply (push_noevict q q id tag d 0); auto; simpl; rewrite ?app_nil_r, ?N.add_0_r; auto.
  - destruct ((match free q with [] => true | _ :: _ => false end) || (bsize q <=? used q)) eqn:C1.
    + destruct ((ipi t <? ipc t) && (bsize q <? maxsize q)) eqn:C2.
      * eapply (push_noevict q (grow q) id tag d (N.to_nat (bsize q / 64))); auto; simpl; auto.
        rewrite N2Nat.id. reflexivity.
      * unfold reset_items. rewrite L.
        destruct (reset_loop t tl (sub64 (used q) (isize t)) (bsize q) (free q)) as [[[it lv] usd] fr] eqn:R.
        destruct (reset_loop_spec _ _ _ _ _ _ _ _ _ R) as [mid [A B]].
        eapply (PsEvict _ _ _ _ _ mid it lv); simpl; auto. congruence.
    + eapply (push_noevict q q id tag d 0); auto; simpl; rewrite ?app_nil_r, ?N.add_0_r; auto.
Qed.

(* ---------- Push preserves the ring invariant ---------- *)
Lemma skipn_mid {A} (mid : list A) x lv : skipn (S (length mid)) (mid ++ x :: lv) = lv.
Proof. induction mid; simpl; auto. Qed.

Lemma shape_live q id tag d q' : push_shape q id tag d q' ->
  exists k r0, (k <= length (live q))%nat /\ live q' = skipn k (live q) ++ [new_item q r0 id tag d].
Proof.
  intros [mid it0 lv Hl Hl' _ _ _ _|n f fr0 _ Hl' _ _ _ _|_ Hl' _ _ _ _].
  - exists (S (length mid)), (iref it0). rewrite Hl, skipn_mid, app_length. simpl. split; [lia|exact Hl'].
  - exists 0%nat, (iref f). split; [lia|]. exact Hl'.
  - exists 0%nat, (nextref q). split; [lia|]. exact Hl'.
Qed.

Lemma nth_error_skipn_r {A} (l : list A) k j : nth_error (skipn k l) j = nth_error l (k + j).
Proof. revert l. induction k; intros [|a l]; simpl; auto. destruct j; reflexivity. Qed.

Lemma add64_small a : a + 1 < U64 -> add64 a 1 = a + 1.
Proof. intros H. unfold add64. apply N.mod_small. auto. Qed.

Lemma live_after_push q hist na id tag d k r0 lv' :
  RInv q hist na -> (k <= length (live q))%nat -> lv' = skipn k (live q) ++ [new_item q r0 id tag d] ->
  (length lv' <= length (hist ++ [(id, tag, d)]))%nat /\
  (length (hist ++ [(id, tag, d)]) - length lv' = lo_of q hist + k)%nat /\
  forall j it, nth_error lv' j = Some it ->
    iseq it = N.of_nat (lo_of q hist + k + j)%nat /\
    nth_error (hist ++ [(id, tag, d)]) (lo_of q hist + k + j)%nat = Some (content it) /\ ipc it <= na.
Proof.
  intros I Hk ->. pose proof (ri_len q hist na I) as Hlen.
  rewrite !app_length, skipn_length. simpl. unfold lo_of.
  split; [lia|]. split; [lia|].
  intros j it Hj.
  destruct (Nat.lt_ge_cases j (length (live q) - k)) as [Hlt|Hge].
  - rewrite nth_error_app1 in Hj by (rewrite skipn_length; lia).
    rewrite nth_error_skipn_r in Hj.
    destruct (ri_live q hist na I _ _ Hj) as (A & B & C). unfold lo_of in *.
    replace (length hist - length (live q) + k + j)%nat with (length hist - length (live q) + (k + j))%nat by lia.
    split; [exact A|]. split; [|exact C].
    rewrite nth_error_app1; auto. apply nth_error_Some. congruence.
  - rewrite nth_error_app2 in Hj by (rewrite skipn_length; lia). rewrite skipn_length in Hj.
    destruct (j - (length (live q) - k))%nat as [|m] eqn:E; simpl in Hj; [|destruct m; discriminate].
    inversion Hj; subst it. simpl.
    assert (length hist - length (live q) + k + j = length hist)%nat by lia. rewrite H.
    split; [apply (ri_seq q hist na I)|]. split; [|apply (ri_poll q hist na I)].
    rewrite nth_error_app2 by lia. rewrite Nat.sub_diag. reflexivity.
Qed.

Lemma fresh_items_spec n : forall r it, In it (fresh_items n r) ->
  r <= iref it /\ iref it < r + N.of_nat n /\ ipc it = NOPOLL /\ iseq it = 0.
Proof.
  induction n; simpl; intros r it H; [contradiction|].
  destruct H as [<-|H].
  - simpl. repeat split; auto; lia.
  - destruct (IHn _ _ H) as (A & B & C & D). repeat split; auto; lia.
Qed.

Lemma fresh_items_nodup n : forall r, NoDup (map iref (fresh_items n r)).
Proof.
  induction n; simpl; intros r; constructor; auto.
  intros H. apply in_map_iff in H. destruct H as [it [E Hin]].
  destruct (fresh_items_spec _ _ _ Hin) as (A & _). simpl in *. lia.
Qed.

Lemma NoDup_app_intro {A} (l m : list A) : NoDup l -> NoDup m -> (forall x, In x l -> In x m -> False) -> NoDup (l ++ m).
Proof.
  induction l; simpl; intros Hl Hm Hd; auto. inversion Hl; subst. constructor.
  - intros X. apply in_app_or in X. destruct X as [X|X]; [auto|eapply Hd; eauto].
  - apply IHl; auto. intros x0 G1 G2. eapply Hd; eauto.
Qed.

Lemma freed_ref it : iref (freed it) = iref it.
Proof. reflexivity. Qed.

Lemma map_iref_freed l : map iref (map freed l) = map iref l.
Proof. rewrite map_map. apply map_ext. reflexivity. Qed.

Theorem RInv_push q hist na id tag d :
  RInv q hist na -> N.of_nat (length hist) + 1 < NOSEQ ->
  RInv (push q id tag d) (hist ++ [(id, tag, d)]) na.
Proof.
  intros I Hb. pose proof (push_has_shape q id tag d) as Sh.
  destruct (shape_live _ _ _ _ _ Sh) as [k [r0 [Hk Hl']]].
  destruct (live_after_push q hist na id tag d k r0 _ I Hk Hl') as (L1 & L2 & L3).
  assert (Hseq : rseq (push q id tag d) = N.of_nat (length (hist ++ [(id, tag, d)])) /\ rpoll (push q id tag d) = rpoll q).
  { assert (rseq (push q id tag d) = add64 (rseq q) 1 /\ rpoll (push q id tag d) = rpoll q) by (destruct Sh; auto).
    destruct H as [H1 H2]. split; auto. rewrite H1, (ri_seq q hist na I), add64_small by (unfold NOSEQ, U64 in *; lia).
    rewrite app_length. simpl. lia. }
  destruct Hseq as [Hseq Hpoll].
  assert (Hfree : (forall it, In it (free (push q id tag d)) -> ipc it = NOPOLL /\ iseq it = 0) /\
                  NoDup (map iref (live (push q id tag d) ++ free (push q id tag d))) /\
                  (forall it, In it (live (push q id tag d) ++ free (push q id tag d)) -> iref it < nextref (push q id tag d))).
  { pose proof (ri_free q hist na I) as Fo. pose proof (ri_nodup q hist na I) as ND. pose proof (ri_refs q hist na I) as Rf.
    destruct Sh as [mid it0 lv Hl Hl2 Hf Hn _ _|n f fr0 HF Hl2 Hf Hn _ _|HF Hl2 Hf Hn _ _].
    - (* evict *)
      assert (P : Permutation (map iref (live (push q id tag d) ++ free (push q id tag d))) (map iref (live q ++ free q))).
      { rewrite Hl2, Hf, Hl. rewrite !map_app. simpl. rewrite map_iref_freed.
        set (M := map iref mid). set (Lv := map iref lv). set (Fr := map iref (free q)).
        (* (Lv ++ [r]) ++ Fr ++ M  ~  (M ++ r :: Lv) ++ Fr *)
        apply Permutation_trans with (l' := M ++ ((Lv ++ [iref it0]) ++ Fr)).
        - replace ((Lv ++ [iref it0]) ++ Fr ++ M) with (((Lv ++ [iref it0]) ++ Fr) ++ M) by (rewrite <- app_assoc; reflexivity).
          apply Permutation_app_comm.
        - replace ((M ++ iref it0 :: Lv) ++ Fr) with (M ++ ((iref it0 :: Lv) ++ Fr)) by (rewrite app_assoc; reflexivity).
          apply Permutation_app_head. apply Permutation_app_tail.
          apply Permutation_sym. apply Permutation_cons_append. }
      split; [|split].
      + intros it Hin. rewrite Hf in Hin. apply in_app_or in Hin. destruct Hin as [Hin|Hin]; [auto|].
        apply in_map_iff in Hin. destruct Hin as [x [<- _]]. simpl. auto.
      + eapply Permutation_NoDup; [apply Permutation_sym; exact P|exact ND].
      + intros it Hin. rewrite Hn.
        assert (In (iref it) (map iref (live q ++ free q))).
        { eapply Permutation_in; [exact P|]. apply in_map. auto. }
        apply in_map_iff in H. destruct H as [x [E Hx]]. rewrite <- E. auto.
    - (* from the free list (possibly just grown) *)
      assert (Fo' : forall it, In it (free q ++ fresh_items n (nextref q)) -> ipc it = NOPOLL /\ iseq it = 0 /\ iref it < nextref q + N.of_nat n).
      { intros it Hin. apply in_app_or in Hin. destruct Hin as [Hin|Hin].
        - destruct (Fo _ Hin). repeat split; auto. assert (iref it < nextref q) by (apply Rf; apply in_or_app; auto). lia.
        - destruct (fresh_items_spec _ _ _ Hin) as (A & B & C & D). auto. }
      assert (ND' : NoDup (map iref (live q ++ free q ++ fresh_items n (nextref q)))).
      { rewrite app_assoc, map_app. apply NoDup_app_intro; auto; [apply fresh_items_nodup|].
        intros x H1 H2. apply in_map_iff in H1. destruct H1 as [a [<- Ha]]. apply in_map_iff in H2. destruct H2 as [b [Eb Hb']].
        destruct (fresh_items_spec _ _ _ Hb') as (A & _). pose proof (Rf _ Ha). lia. }
      rewrite HF in *.
      split; [|split].
      + intros it Hin. rewrite Hf in Hin. destruct (Fo' it) as (A & B & _); auto. right; auto.
      + rewrite Hl2, Hf. rewrite <- app_assoc. simpl. rewrite map_app in *. simpl in *. exact ND'.
      + intros it Hin. rewrite Hn. rewrite Hl2, Hf, <- app_assoc in Hin. simpl in Hin.
        apply in_app_or in Hin. destruct Hin as [Hin|[<-|Hin]].
        * assert (iref it < nextref q) by (apply Rf; apply in_or_app; auto). lia.
        * simpl. destruct (Fo' f) as (_ & _ & C); auto. left; auto.
        * destruct (Fo' it) as (_ & _ & C); auto. right; auto.
    - (* allocate *)
      rewrite HF in *. rewrite app_nil_r in *.
      split; [|split].
      + intros it Hin. rewrite Hf in Hin. contradiction.
      + rewrite Hl2, Hf, app_nil_r, map_app. simpl. apply NoDup_app_intro; auto.
        * constructor; [intros []|constructor].
        * intros x H1 [<-|[]]. apply in_map_iff in H1. destruct H1 as [a [E Ha]]. pose proof (Rf _ Ha). lia.
      + intros it Hin. rewrite Hn. rewrite Hl2, Hf, app_nil_r in Hin. apply in_app_or in Hin.
        destruct Hin as [Hin|[<-|[]]]; [pose proof (Rf _ Hin); lia|simpl; lia]. }
  destruct Hfree as (F1 & F2 & F3).
  apply mkRInv.
  - exact L1.
  - intros _. rewrite Hl'. destruct (skipn k (live q)); discriminate.
  - intros j it Hj. unfold lo_of. rewrite L2. apply L3; auto.
  - exact F1.
  - exact F2.
  - exact F3.
  - exact Hseq.
  - rewrite app_length. simpl. unfold NOSEQ in *. lia.
  - rewrite Hpoll. apply (ri_poll q hist na I).
  - apply (ri_na q hist na I).
Qed.

Lemma push_refs_incl q id tag d r : In r (map iref (live q ++ free q)) ->
  In r (map iref (live (push q id tag d) ++ free (push q id tag d))).
Proof.
  intros H. destruct (push_has_shape q id tag d) as [mid it0 lv Hl Hl2 Hf _ _ _|n f fr0 HF Hl2 Hf _ _ _|HF Hl2 Hf _ _ _].
  - rewrite Hl2, Hf. rewrite Hl in H. 
    repeat (rewrite ?map_app, ?in_app_iff, ?map_iref_freed in *; simpl in * ). tauto.
  - rewrite Hl2, Hf.
    assert (G : In r (map iref (live q)) \/ In r (map iref (f :: fr0))).
    { rewrite map_app, in_app_iff in H. destruct H as [H|H]; [auto|right]. rewrite <- HF, map_app, in_app_iff. auto. }
    repeat (rewrite ?map_app, ?in_app_iff in *; simpl in * ). tauto.
  - rewrite Hl2, Hf, HF in *. rewrite !app_nil_r in *. rewrite map_app, in_app_iff. auto.
Qed.

Theorem CInv_push q hist na id tag d c : RInv q hist na -> CInv q hist c ->
  CInv (push q id tag d) (hist ++ [(id, tag, d)]) c.
Proof.
  intros I [Cn Cs|p r Cs Cc Ci Cr Cm Cv]; [apply CFresh; auto|].
  assert (Hp : (p < length hist)%nat) by (apply nth_error_Some; congruence).
  destruct (shape_live _ _ _ _ _ (push_has_shape q id tag d)) as [k [r0 [Hk Hl']]].
  destruct (live_after_push q hist na id tag d k r0 _ I Hk Hl') as (L1 & L2 & L3).
  eapply (CPos _ _ _ p r); auto.
  - rewrite nth_error_app1; auto.
  - destruct Cm as [it [Hin Hr]].
    assert (In r (map iref (live (push q id tag d) ++ free (push q id tag d)))).
    { apply push_refs_incl. rewrite <- Hr. apply in_map; auto. }
    apply in_map_iff in H. destruct H as [x [E Hx]]. eauto.
  - unfold lo_of at 1 2. rewrite L2. intros Hle.
    destruct Cv as [it [Hn Hr]]; [lia|]. exists it. split; auto.
    rewrite Hl'. rewrite nth_error_app1.
    + rewrite nth_error_skipn_r. replace (k + (p - (lo_of q hist + k)))%nat with (p - lo_of q hist)%nat by lia. auto.
    + rewrite skipn_length. pose proof (ri_len q hist na I). unfold lo_of in *. lia.
Qed.

(* ---------- operations that only touch pollCount / pollIndex ---------- *)
Definition item_sim (it it' : item) : Prop :=
  iref it' = iref it /\ iid it' = iid it /\ itag it' = itag it /\ idata it' = idata it /\ iseq it' = iseq it.

Lemma item_sim_refl it : item_sim it it.
Proof. repeat split. Qed.

Lemma Forall2_refl_sim l : Forall2 item_sim l l.
Proof. induction l; constructor; auto using item_sim_refl. Qed.

Lemma Forall2_map_sim f l : (forall it, item_sim it (f it)) -> Forall2 item_sim l (map f l).
Proof. intros H. induction l; simpl; constructor; auto. Qed.

Lemma map_from_sim f r l : (forall it, item_sim it (f it)) -> Forall2 item_sim l (map_from f r l).
Proof.
  intros H. induction l as [|a l IH]; simpl; [constructor|].
  destruct (iref a =? r).
  - constructor; [apply H|apply Forall2_map_sim; auto].
  - constructor; [apply item_sim_refl|auto].
Qed.

Lemma map_at_sim f r l : (forall it, item_sim it (f it)) -> Forall2 item_sim l (map_at f r l).
Proof.
  intros H. induction l as [|a l IH]; simpl; [constructor|].
  destruct (iref a =? r).
  - constructor; [apply H|apply Forall2_refl_sim].
  - constructor; [apply item_sim_refl|auto].
Qed.

Lemma bump_pc_sim it : item_sim it (bump_pc it).
Proof. repeat split. Qed.
Lemma bump_pi_sim it : item_sim it (bump_pi it).
Proof. repeat split. Qed.

Lemma sim_refs l l' : Forall2 item_sim l l' -> map iref l' = map iref l.
Proof. induction 1; simpl; auto. destruct H as [-> _]. congruence. Qed.

Lemma sim_nth l l' j it : Forall2 item_sim l l' -> nth_error l j = Some it ->
  exists it', nth_error l' j = Some it' /\ item_sim it it'.
Proof.
  intros F. revert j. induction F; intros [|j] H1; simpl in *; try discriminate.
  - inversion H1; subst. eauto.
  - auto.
Qed.

Lemma sim_nth_rev l l' j it' : Forall2 item_sim l l' -> nth_error l' j = Some it' ->
  exists it, nth_error l j = Some it /\ item_sim it it'.
Proof.
  intros F. revert j. induction F; intros [|j] H1; simpl in *; try discriminate.
  - inversion H1; subst. eauto.
  - auto.
Qed.

Lemma sim_in_rev l l' it' : Forall2 item_sim l l' -> In it' l' -> exists it, In it l /\ item_sim it it'.
Proof.
  intros F Hin. apply In_nth_error in Hin. destruct Hin as [j Hj].
  destruct (sim_nth_rev _ _ _ _ F Hj) as [it [A B]]. exists it. split; auto. eapply nth_error_In; eauto.
Qed.

Lemma sim_length l l' : Forall2 item_sim l l' -> length l' = length l.
Proof. induction 1; simpl; auto. Qed.

Definition set_lists (q : ring) (lv fr : list item) (rp : N) : ring :=
  mkRing lv fr (rseq q) (used q) (bsize q) (maxsize q) rp (dup q) (nextref q).

Lemma RInv_sim q hist na na' lv fr rp : RInv q hist na ->
  Forall2 item_sim (live q) lv -> Forall2 item_sim (free q) fr ->
  (forall it, In it lv -> ipc it <= na') -> (forall it, In it fr -> ipc it = NOPOLL) ->
  rp <= na' -> na' < NOPOLL ->
  RInv (set_lists q lv fr rp) hist na'.
Proof.
  intros I Fl Ff Hpc Hfp Hrp Hna.
  assert (Elen : length lv = length (live q)) by (apply sim_length; auto).
  assert (Elo : lo_of (set_lists q lv fr rp) hist = lo_of q hist) by (unfold lo_of; simpl; rewrite Elen; auto).
  apply mkRInv; simpl.
  - rewrite Elen. apply (ri_len q hist na I).
  - intros H. pose proof (ri_nonempty q hist na I H). destruct (live q); [congruence|]. destruct lv; [discriminate|discriminate].
  - intros j it' Hj. rewrite Elo. destruct (sim_nth_rev _ _ _ _ Fl Hj) as [it [A (S1 & S2 & S3 & S4 & S5)]].
    destruct (ri_live q hist na I _ _ A) as (B1 & B2 & B3).
    split; [congruence|]. split; [|apply Hpc; eapply nth_error_In; eauto].
    rewrite B2. unfold content. congruence.
  - intros it' Hin. split; [auto|]. destruct (sim_in_rev _ _ _ Ff Hin) as [it [A (S1 & S2 & S3 & S4 & S5)]].
    destruct (ri_free q hist na I _ A). congruence.
  - rewrite map_app, (sim_refs _ _ Fl), (sim_refs _ _ Ff), <- map_app. apply (ri_nodup q hist na I).
  - intros it' Hin. apply in_app_or in Hin. destruct Hin as [Hin|Hin].
    + destruct (sim_in_rev _ _ _ Fl Hin) as [it [A (S1 & _)]]. rewrite S1. apply (ri_refs q hist na I). apply in_or_app; auto.
    + destruct (sim_in_rev _ _ _ Ff Hin) as [it [A (S1 & _)]]. rewrite S1. apply (ri_refs q hist na I). apply in_or_app; auto.
  - apply (ri_seq q hist na I).
  - apply (ri_bound q hist na I).
  - exact Hrp.
  - exact Hna.
Qed.

Lemma CInv_sim q hist lv fr rp c : Forall2 item_sim (live q) lv -> Forall2 item_sim (free q) fr ->
  CInv q hist c -> CInv (set_lists q lv fr rp) hist c.
Proof.
  intros Fl Ff [Cn Cs|p r Cs Cc Ci Cr Cm Cv]; [apply CFresh; auto|].
  assert (Elo : lo_of (set_lists q lv fr rp) hist = lo_of q hist) by (unfold lo_of; simpl; rewrite (sim_length _ _ Fl); auto).
  eapply (CPos _ _ _ p r); auto.
  - destruct Cm as [it [Hin Hr]]. simpl. apply in_app_or in Hin. destruct Hin as [Hin|Hin].
    + apply In_nth_error in Hin. destruct Hin as [j Hj]. destruct (sim_nth _ _ _ _ Fl Hj) as [it' [A (S1 & _)]].
      exists it'. split; [apply in_or_app; left; eapply nth_error_In; eauto|congruence].
    + apply In_nth_error in Hin. destruct Hin as [j Hj]. destruct (sim_nth _ _ _ _ Ff Hj) as [it' [A (S1 & _)]].
      exists it'. split; [apply in_or_app; right; eapply nth_error_In; eauto|congruence].
  - rewrite Elo. intros Hle. destruct (Cv Hle) as [it [A B]]. simpl.
    destruct (sim_nth _ _ _ _ Fl A) as [it' [A' (S1 & _)]]. exists it'. split; auto. congruence.
Qed.

Lemma map_from_in f r l it' : In it' (map_from f r l) -> exists it, In it l /\ (it' = it \/ it' = f it).
Proof.
  induction l as [|a l IH]; simpl; [contradiction|].
  destruct (iref a =? r).
  - simpl. intros [<-|H]; [exists a; auto|]. apply in_map_iff in H. destruct H as [x [<- Hx]]. exists x; auto.
  - simpl. intros [<-|H]; [exists a; auto|]. destruct (IH H) as [it [A B]]. exists it; auto.
Qed.

Lemma map_at_in f r l it' : In it' (map_at f r l) -> exists it, In it l /\ (it' = it \/ it' = f it).
Proof.
  induction l as [|a l IH]; simpl; [contradiction|].
  destruct (iref a =? r).
  - simpl. intros [<-|H]; [exists a; auto|exists it'; auto].
  - simpl. intros [<-|H]; [exists a; auto|]. destruct (IH H) as [it [A B]]. exists it; auto.
Qed.

Lemma map_from_absent f r l : find_from r l = None -> map_from f r l = l.
Proof.
  induction l as [|a l IH]; simpl; auto. destruct (iref a =? r); [discriminate|]. intros H. rewrite IH; auto.
Qed.

Lemma in_list_false r l : in_list r l = false -> find_from r l = None.
Proof. unfold in_list. destruct (find_from r l); [discriminate|auto]. Qed.

(* guard of AddPoll for the code as written: the cursor's item is not on the free list *)
Definition addpoll_safe (rc : rcfg) (q : ring) (c : cursor) : Prop :=
  rc_poll_freed rc = true -> forall r, ccur c = Some r -> find_from r (free q) = None.

Lemma walk_free_absent rc q hist na c r :
  RInv q hist na -> addpoll_safe rc q c -> ccur c = Some r ->
  (if negb (rc_poll_freed rc) && is_freed q r then None else Some r) = Some r ->
  in_list r (live q) = false -> find_from r (free q) = None.
Proof.
  intros I G Hc He Hl. destruct (rc_poll_freed rc) eqn:E; [apply G; auto|].
  simpl in He. unfold is_freed in He. rewrite (in_list_false _ _ Hl) in He.
  destruct (find_from r (free q)) as [[it tl]|] eqn:F; auto.
  destruct (find_from_some _ _ _ _ F) as [pre [El _]].
  assert (In it (free q)) by (rewrite El; apply in_or_app; right; left; auto).
  destruct (ri_free q hist na I _ H) as [Hp _]. rewrite Hp, N.eqb_refl in He. discriminate.
Qed.

Lemma add32_small a : a + 1 < U32 -> add32 a 1 = a + 1.
Proof. intros H. unfold add32. apply N.mod_small; auto. Qed.

Theorem RInv_add_poll rc q hist na c :
  RInv q hist na -> addpoll_safe rc q c -> na + 1 < NOPOLL ->
  RInv (add_poll rc q c) hist (na + 1) /\ forall c', CInv q hist c' -> CInv (add_poll rc q c) hist c'.
Proof.
  intros I G Hna. pose proof (ri_poll q hist na I) as Hrp.
  assert (Hrp' : add32 (rpoll q) 1 <= na + 1) by (rewrite add32_small; unfold NOPOLL, U32 in *; lia).
  assert (Hold : forall it, In it (live q) -> ipc it <= na + 1).
  { intros it Hin. apply In_nth_error in Hin. destruct Hin as [j Hj]. destruct (ri_live q hist na I _ _ Hj) as (_ & _ & X). lia. }
  assert (Hfr : forall it, In it (free q) -> ipc it = NOPOLL) by (intros it Hin; apply (ri_free q hist na I _ Hin)).
  assert (Hbump : forall r it', In it' (map_from bump_pc r (live q)) -> ipc it' <= na + 1).
  { intros r it' Hin. destruct (map_from_in _ _ _ _ Hin) as [it [A [->| ->]]]; [auto|].
    simpl. apply In_nth_error in A. destruct A as [j Hj]. destruct (ri_live q hist na I _ _ Hj) as (_ & _ & X).
    rewrite add32_small; unfold NOPOLL, U32 in *; lia. }
  unfold add_poll, walk.
  destruct (match ccur c with Some r => if negb (rc_poll_freed rc) && is_freed q r then None else Some r | None => None end) as [r|] eqn:Eff.
  - assert (Hc : ccur c = Some r /\ (if negb (rc_poll_freed rc) && is_freed q r then None else Some r) = Some r).
    { destruct (ccur c) as [r'|]; [|discriminate]. destruct (negb (rc_poll_freed rc) && is_freed q r') eqn:X; [discriminate|].
      inversion Eff; subst. rewrite X. auto. }
    destruct Hc as [Hc He].
    destruct (in_list r (live q)) eqn:Hl.
    + change (mkRing (map_from bump_pc r (live q)) (free q) (rseq q) (used q) (bsize q) (maxsize q) (add32 (rpoll q) 1) (dup q) (nextref q))
        with (set_lists q (map_from bump_pc r (live q)) (free q) (add32 (rpoll q) 1)).
      split; [|intros c'; apply CInv_sim; [apply map_from_sim; apply bump_pc_sim|apply Forall2_refl_sim]].
      apply (RInv_sim q hist na);
        [exact I|apply map_from_sim; apply bump_pc_sim|apply Forall2_refl_sim|apply Hbump|exact Hfr|exact Hrp'|exact Hna].
    + rewrite (map_from_absent _ _ _ (walk_free_absent rc q hist na c r I G Hc He Hl)).
      change (mkRing (live q) (free q) (rseq q) (used q) (bsize q) (maxsize q) (add32 (rpoll q) 1) (dup q) (nextref q))
        with (set_lists q (live q) (free q) (add32 (rpoll q) 1)).
      split; [|intros c'; apply CInv_sim; apply Forall2_refl_sim].
      apply (RInv_sim q hist na); [exact I|apply Forall2_refl_sim|apply Forall2_refl_sim|exact Hold|exact Hfr|exact Hrp'|exact Hna].
  - change (mkRing (live q) (free q) (rseq q) (used q) (bsize q) (maxsize q) (add32 (rpoll q) 1) (dup q) (nextref q))
      with (set_lists q (live q) (free q) (add32 (rpoll q) 1)).
    split; [|intros c'; apply CInv_sim; apply Forall2_refl_sim].
    apply (RInv_sim q hist na); [exact I|apply Forall2_refl_sim|apply Forall2_refl_sim|exact Hold|exact Hfr|exact Hrp'|exact Hna].
Qed.

Lemma sub32_small a : 1 <= a -> a < U32 -> sub32 a 1 = a - 1.
Proof.
  intros H1 H2. unfold sub32. rewrite (N.mod_small 1 U32) by (unfold U32; lia).
  replace (a + U32 - 1) with ((a - 1) + 1 * U32) by lia. rewrite N.mod_add by (unfold U32; lia).
  apply N.mod_small. lia.
Qed.

Theorem RInv_remove_poll rc q hist na c :
  RInv q hist na -> 1 <= rpoll q ->
  RInv (remove_poll rc q c) hist na /\ forall c', CInv q hist c' -> CInv (remove_poll rc q c) hist c'.
Proof.
  intros I Hge. pose proof (ri_poll q hist na I) as Hrp. pose proof (ri_na q hist na I) as Hna.
  assert (Hrp' : sub32 (rpoll q) 1 <= na) by (rewrite sub32_small; unfold NOPOLL, U32 in *; lia).
  assert (Hold : forall it, In it (live q) -> ipc it <= na).
  { intros it Hin. apply In_nth_error in Hin. destruct Hin as [j Hj]. apply (ri_live q hist na I _ _ Hj). }
  assert (Hfr : forall it, In it (free q) -> ipc it = NOPOLL) by (intros it Hin; apply (ri_free q hist na I _ Hin)).
  assert (Hpi_l : forall r it', In it' (map_from bump_pi r (live q)) -> ipc it' <= na).
  { intros r it' Hin. destruct (map_from_in _ _ _ _ Hin) as [it [A [->| ->]]]; simpl; auto. }
  assert (Hpi_f : forall r it', In it' (map_from bump_pi r (free q)) -> ipc it' = NOPOLL).
  { intros r it' Hin. destruct (map_from_in _ _ _ _ Hin) as [it [A [->| ->]]]; simpl; auto. }
  unfold remove_poll, walk.
  destruct (match ccur c with Some r => if negb (rc_poll_freed rc) && is_freed q r then None else Some r | None => None end) as [r|] eqn:Eff.
  - destruct (in_list r (live q)) eqn:Hl.
    + change (mkRing (map_from bump_pi r (live q)) (free q) (rseq q) (used q) (bsize q) (maxsize q) (sub32 (rpoll q) 1) (dup q) (nextref q))
        with (set_lists q (map_from bump_pi r (live q)) (free q) (sub32 (rpoll q) 1)).
      split; [|intros c'; apply CInv_sim; [apply map_from_sim; apply bump_pi_sim|apply Forall2_refl_sim]].
      apply (RInv_sim q hist na); [exact I|apply map_from_sim; apply bump_pi_sim|apply Forall2_refl_sim|apply Hpi_l|exact Hfr|exact Hrp'|exact Hna].
    + change (mkRing (live q) (map_from bump_pi r (free q)) (rseq q) (used q) (bsize q) (maxsize q) (sub32 (rpoll q) 1) (dup q) (nextref q))
        with (set_lists q (live q) (map_from bump_pi r (free q)) (sub32 (rpoll q) 1)).
      split; [|intros c'; apply CInv_sim; [apply Forall2_refl_sim|apply map_from_sim; apply bump_pi_sim]].
      apply (RInv_sim q hist na); [exact I|apply Forall2_refl_sim|apply map_from_sim; apply bump_pi_sim|exact Hold|apply Hpi_f|exact Hrp'|exact Hna].
  - change (mkRing (live q) (free q) (rseq q) (used q) (bsize q) (maxsize q) (sub32 (rpoll q) 1) (dup q) (nextref q))
      with (set_lists q (live q) (free q) (sub32 (rpoll q) 1)).
    split; [|intros c'; apply CInv_sim; apply Forall2_refl_sim].
    apply (RInv_sim q hist na); [exact I|apply Forall2_refl_sim|apply Forall2_refl_sim|exact Hold|exact Hfr|exact Hrp'|exact Hna].
Qed.

Theorem RInv_sent q hist na c :
  RInv q hist na ->
  RInv (snd (fst (sent q c))) hist na /\ forall c', CInv q hist c' -> CInv (snd (fst (sent q c))) hist c'.
Proof.
  intros I. pose proof (ri_poll q hist na I) as Hrp. pose proof (ri_na q hist na I) as Hna.
  assert (Hold : forall it, In it (live q) -> ipc it <= na).
  { intros it Hin. apply In_nth_error in Hin. destruct Hin as [j Hj]. apply (ri_live q hist na I _ _ Hj). }
  assert (Hfr : forall it, In it (free q) -> ipc it = NOPOLL) by (intros it Hin; apply (ri_free q hist na I _ Hin)).
  unfold sent. destruct (cwrited c); simpl; [split; auto|].
  destruct (ccur c) as [r|]; simpl; [|split; auto].
  destruct (in_list r (live q)).
  - change (mkRing (map_at bump_pi r (live q)) (free q) (rseq q) (used q) (bsize q) (maxsize q) (rpoll q) (dup q) (nextref q))
      with (set_lists q (map_at bump_pi r (live q)) (free q) (rpoll q)).
    split; [|intros c'; apply CInv_sim; [apply map_at_sim; apply bump_pi_sim|apply Forall2_refl_sim]].
    apply (RInv_sim q hist na); [exact I|apply map_at_sim; apply bump_pi_sim|apply Forall2_refl_sim| |exact Hfr|exact Hrp|exact Hna].
    intros it' Hin. destruct (map_at_in _ _ _ _ Hin) as [it [A [->| ->]]]; simpl; auto.
  - change (mkRing (live q) (map_at bump_pi r (free q)) (rseq q) (used q) (bsize q) (maxsize q) (rpoll q) (dup q) (nextref q))
      with (set_lists q (live q) (map_at bump_pi r (free q)) (rpoll q)).
    split; [|intros c'; apply CInv_sim; [apply Forall2_refl_sim|apply map_at_sim; apply bump_pi_sim]].
    apply (RInv_sim q hist na); [exact I|apply Forall2_refl_sim|apply map_at_sim; apply bump_pi_sim|exact Hold| |exact Hrp|exact Hna].
    intros it' Hin. destruct (map_at_in _ _ _ _ Hin) as [it [A [->| ->]]]; simpl; auto.
Qed.

(* ---------- Head / Search / handleInitSync position the cursor on a buffered record ---------- *)
Lemma head_cinv q hist na c : RInv q hist na -> CInv q hist c -> CInv q hist (snd (head q c)).
Proof.
  intros I C. unfold head. destruct (rev (live q)) as [|h tl] eqn:R; simpl; auto.
  assert (nth_error (live q) (length (live q) - 1) = Some h).
  { assert (live q = rev tl ++ [h]) by (rewrite <- (rev_involutive (live q)), R; reflexivity).
    rewrite H, app_length. simpl. replace (length (rev tl) + 1 - 1)%nat with (length (rev tl)) by lia.
    rewrite nth_error_app2 by lia. rewrite Nat.sub_diag. reflexivity. }
  apply (proj1 (deliver_pos q hist na _ h false I H)).
Qed.

Lemma search_cinv q hist na id c : RInv q hist na -> CInv q hist c -> CInv q hist (snd (search q id c)).
Proof.
  intros I C. unfold search. destruct (live q) as [|t tl] eqn:L; [simpl; auto|].
  destruct (find_id id (t :: tl)) as [it|] eqn:F; [|simpl; auto].
  destruct (find_id_sound _ _ _ F) as [Hin _]. rewrite <- L in Hin.
  apply In_nth_error in Hin. destruct Hin as [j Hj].
  apply (proj1 (deliver_pos q hist na _ it true I Hj)).
Qed.

Definition last_ok (hist : list hrec) (lastid : N) : Prop :=
  forall h, nth_error hist (length hist - 1) = Some h -> lastid = fst (fst h).

Lemma sync_known_cinv q hist na lastid id c : RInv q hist na -> last_ok hist lastid -> CInv q hist c ->
  CInv q hist (snd (sync_known q lastid id c)).
Proof.
  intros I Hlast C. unfold sync_known.
  destruct (id_fileindex id =? 0); simpl; auto.
  pose proof (search_cinv q hist na id c I C) as Hs.
  destruct (search q id c) as [[] c'] eqn:S; simpl in *; auto;
    (destruct (id =? lastid) eqn:E; simpl; auto; apply N.eqb_eq in E; subst id).
  all: (* the search failed although the id is that of the newest record: the ring is empty *)
    assert (Hemp : hist = []) by
    (destruct hist as [|h0 hs] eqn:Hh; auto; exfalso;
     assert (Hne : live q <> []) by (apply (ri_nonempty q _ na I); discriminate);
     destruct (exists_last Hne) as [lv [h El]];
     assert (Hn : nth_error (live q) (length (live q) - 1) = Some h) by
       (rewrite El, app_length; simpl; replace (length lv + 1 - 1)%nat with (length lv) by lia;
        rewrite nth_error_app2 by lia; rewrite Nat.sub_diag; reflexivity);
     destruct (ri_live q _ na I _ _ Hn) as (_ & B & _);
     pose proof (ri_len q _ na I) as Hl;
     assert (Hx : (lo_of q (h0 :: hs) + (length (live q) - 1) = length (h0 :: hs) - 1)%nat) by
       (unfold lo_of; destruct (live q); [congruence|simpl in *; lia]);
     rewrite Hx in B; pose proof (Hlast _ B) as Hid; unfold content in Hid; simpl in Hid;
     unfold search in S; destruct (live q) as [|t tl] eqn:L; [congruence|];
     destruct (find_id lastid (t :: tl)) eqn:F; [discriminate|];
     apply (find_id_complete _ _ F h); [rewrite El; apply in_or_app; right; left; auto|auto]).
  all: subst hist; apply CFresh; simpl; auto; rewrite (ri_seq q [] na I); reflexivity.
Qed.

(* ====================================================================================================
   All schedules: every sequence of ring operations (Ring.step) keeps the invariants, so every Pop through every
   cursor answers according to pop_ok.
   ==================================================================================================== *)
Record ghost := mkGhost { ghist : list hrec; gna : N }.

Definition SInv (s : state) (g : ghost) : Prop :=
  RInv (sring s) (ghist g) (gna g) /\
  (forall k c, aget (scurs s) k = Some c -> CInv (sring s) (ghist g) c) /\
  last_ok (ghist g) (slast s).

Definition gstep (s : state) (g : ghost) (o : op) : ghost :=
  match o with
  | OPush off idx time tag d => mkGhost (ghist g ++ [(mkid off idx time, tag, d)]) (gna g)
  | OAddPoll k => match aget (scurs s) k with Some _ => mkGhost (ghist g) (gna g + 1) | None => g end
  | _ => g
  end.

(* side conditions: fewer than 2^64-2 pushes, fewer than 2^32-2 AddPolls, RemovePoll only after an AddPoll, and -- for the
   code as written -- AddPoll only on a cursor whose item has not been moved to the free list *)
Definition rok (rc : rcfg) (s : state) (g : ghost) (o : op) : Prop :=
  match o with
  | OPush _ _ _ _ _ => N.of_nat (length (ghist g)) + 1 < NOSEQ
  | OAddPoll k => gna g + 1 < NOPOLL /\ forall c, aget (scurs s) k = Some c -> addpoll_safe rc (sring s) c
  | ORemovePoll k => 1 <= rpoll (sring s)
  | _ => True
  end.

Lemma cinv_aset s g k c' (q' : ring) :
  (forall k0 c, aget (scurs s) k0 = Some c -> CInv q' (ghist g) c) -> CInv q' (ghist g) c' ->
  forall k0 c, aget (aset (scurs s) k c') k0 = Some c -> CInv q' (ghist g) c.
Proof.
  intros H Hc k0 c Hg. destruct (N.eq_dec k k0) as [->|Hne].
  - rewrite aget_aset_same in Hg. inversion Hg; subst; auto.
  - rewrite aget_aset_other in Hg by auto. eauto.
Qed.

Lemma pop_ok_cinv rc q hist c res c' : pop_ok rc q hist c res c' -> CInv q hist c -> CInv q hist c'.
Proof. destruct 1; auto. Qed.

Theorem SInv_step rc s g o : SInv s g -> rok rc s g o -> SInv (fst (step rc s o)) (gstep s g o).
Proof.
  intros (I & C & Lk) G. destruct o; simpl in *.
  - (* push *)
    split; [apply RInv_push; auto|]. split.
    + intros k c Hk. eapply CInv_push; eauto.
    + intros h Hh. simpl in Hh |- *. rewrite app_length in Hh. simpl in Hh.
      replace (length (ghist g) + 1 - 1)%nat with (length (ghist g)) in Hh by lia.
      rewrite nth_error_app2 in Hh by lia. rewrite Nat.sub_diag in Hh. simpl in Hh. inversion Hh; subst. reflexivity.
  - (* new cursor *)
    split; auto. split; auto. apply cinv_aset; auto. apply CFresh; reflexivity.
  - (* pop *)
    unfold with_cur. destruct (aget (scurs s) k) as [c|] eqn:E; simpl; [|split; auto].
    split; auto. split; auto. apply cinv_aset; auto.
    eapply pop_ok_cinv; [eapply pop_refines; eauto|eauto].
  - (* head *)
    unfold with_cur. destruct (aget (scurs s) k) as [c|] eqn:E; simpl; [|split; auto].
    split; auto. split; auto. apply cinv_aset; auto. eapply head_cinv; eauto.
  - (* search *)
    unfold with_cur. destruct (aget (scurs s) k) as [c|] eqn:E; simpl; [|split; auto].
    split; auto. split; auto. apply cinv_aset; auto. eapply search_cinv; eauto.
  - (* add poll *)
    unfold with_cur. destruct (aget (scurs s) k) as [c|] eqn:E; simpl; [|split; auto].
    destruct G as [G1 G2]. destruct (RInv_add_poll rc _ _ _ c I (G2 _ eq_refl) G1) as [I' C'].
    split; auto. split; auto. intros k0 c0 H0. apply C'. eauto.
  - (* remove poll *)
    unfold with_cur. destruct (aget (scurs s) k) as [c|] eqn:E; simpl; [|split; auto].
    destruct (RInv_remove_poll rc _ _ _ c I G) as [I' C'].
    split; auto. split; auto. intros k0 c0 H0. apply C'. eauto.
  - (* sent *)
    unfold with_cur. destruct (aget (scurs s) k) as [c|] eqn:E; simpl; [|split; auto].
    destruct (RInv_sent _ _ _ c I) as [I' C'].
    destruct (sent (sring s) c) as [[r q'] c'] eqn:Es. simpl in *.
    split; auto. split; auto. apply cinv_aset; [intros; apply C'; eauto|].
    apply C'. 
    assert (c' = c \/ (c' = mkCur (ccur c) (cid c) (cbid c) (cbtag c) (cdata c) (cseq c) true)).
    { unfold sent in Es. destruct (cwrited c); [inversion Es; auto|]. destruct (ccur c); inversion Es; auto. }
    destruct H as [->| ->]; [eauto|].
    destruct (C _ _ E) as [Cn Cs|p r0 Cs Cc Ci Cr Cm Cv]; [apply CFresh; auto|eapply (CPos _ _ _ p r0); eauto].
  - (* handleInitSync with an id *)
    unfold with_cur. destruct (aget (scurs s) k) as [c|] eqn:E; simpl; [|split; auto].
    pose proof (sync_known_cinv _ _ _ _ (mkid off idx time) c I Lk (C _ _ E)) as Hc.
    destruct (sync_known (sring s) (slast s) (mkid off idx time) c) as [r c'] eqn:Es. simpl in *.
    split; auto. split; auto. apply cinv_aset; auto.
Qed.

Fixpoint grun (rc : rcfg) (s : state) (g : ghost) (ops : list op) : state * ghost :=
  match ops with
  | [] => (s, g)
  | o :: tl => grun rc (fst (step rc s o)) (gstep s g o) tl
  end.

Fixpoint rguarded (rc : rcfg) (s : state) (g : ghost) (ops : list op) : Prop :=
  match ops with
  | [] => True
  | o :: tl => rok rc s g o /\ rguarded rc (fst (step rc s o)) (gstep s g o) tl
  end.

Lemma grun_state rc ops : forall s g, fst (grun rc s g ops) = fst (run rc s ops).
Proof.
  induction ops as [|o tl IH]; simpl; intros s g; auto.
  rewrite IH. destruct (step rc s o) as [s1 ob]. simpl. destruct (run rc s1 tl). reflexivity.
Qed.

Theorem SInv_run rc ops : forall s g, SInv s g -> rguarded rc s g ops ->
  SInv (fst (grun rc s g ops)) (snd (grun rc s g ops)).
Proof.
  induction ops as [|o tl IH]; simpl; intros s g H G; auto.
  destruct G as [G1 G2]. apply IH; auto. apply SInv_step; auto.
Qed.

Lemma RInv_new bufSize maxSize : RInv (new_ring bufSize maxSize) [] 0.
Proof.
  unfold new_ring, init_free. simpl.
  apply mkRInv; simpl; auto; try lia.
  - intros j it H. destruct j; discriminate.
  - intros it H. apply (fresh_items_spec _ _ _ H).
  - apply fresh_items_nodup.
  - intros it H. destruct (fresh_items_spec _ _ _ H) as (A & B & _). rewrite N2Nat.id in B. lia.
  - unfold NOSEQ. lia.
  - unfold NOPOLL. lia.
Qed.

Lemma SInv_init bufSize maxSize lastId : SInv (init_state bufSize maxSize lastId) (mkGhost [] 0).
Proof.
  split; [apply RInv_new|]. split.
  - intros k c H. discriminate.
  - intros h H. discriminate.
Qed.

(* Ring refinement, all schedules: after ANY guarded sequence of ring operations on a new ring, a Pop through any
   cursor returns exactly the next record of the pushed history, the explicit out-of-buf error (only when the
   cursor's position has been evicted), or EOF (only at the end of the history) -- never a wrong record. *)
Theorem ring_pop_refines_all_schedules rc bufSize maxSize lastId ops :
  let s0 := init_state bufSize maxSize lastId in
  rguarded rc s0 (mkGhost [] 0) ops ->
  let s := fst (grun rc s0 (mkGhost [] 0) ops) in
  let g := snd (grun rc s0 (mkGhost [] 0) ops) in
  forall k c, aget (scurs s) k = Some c ->
    pop_ok rc (sring s) (ghist g) c (fst (pop rc (sring s) c)) (snd (pop rc (sring s) c)).
Proof.
  intros s0 G s g k c Hk.
  destruct (SInv_run rc ops s0 (mkGhost [] 0) (SInv_init _ _ _) G) as (I & C & _).
  eapply pop_refines; eauto.
Qed.

(* Search / handleInitSync succeed iff the id is still buffered, and then stand on such a record (all schedules) *)
Theorem ring_search_refines_all_schedules rc bufSize maxSize lastId ops :
  let s0 := init_state bufSize maxSize lastId in
  rguarded rc s0 (mkGhost [] 0) ops ->
  let s := fst (grun rc s0 (mkGhost [] 0) ops) in
  let g := snd (grun rc s0 (mkGhost [] 0) ops) in
  forall id c, (fst (search (sring s) id c) = ROk <-> exists it, In it (live (sring s)) /\ iid it = id) /\
               (forall k, aget (scurs s) k = Some c -> CInv (sring s) (ghist g) (snd (search (sring s) id c))).
Proof.
  intros s0 G s g id c. split; [apply search_iff_buffered|].
  intros k Hk. destruct (SInv_run rc ops s0 (mkGhost [] 0) (SInv_init _ _ _) G) as (I & C & _).
  eapply search_cinv; eauto.
Qed.

(* ====================================================================================================
   The code as written violates the refinement when the guard addpoll_safe fails (finding C09-R1): a cursor standing
   on the ring's first record whose item is evicted before AddPoll.  Witness = corpus/C09 case 2, server-lifecycle use
   only (NewCursor, Head, AddPoll, {Sent, Pop}).
   ==================================================================================================== *)
Definition r1_ops : list op :=
  [OPush 1 1 1000 1000 (Some (500, 7)); ONewCur 0; OHead 0;
   OPush 2 1 1000 1001 None; OPush 3 1 1000 1002 None; OPush 4 1 1000 1003 (Some (300, 7)); OPush 5 1 1000 1004 (Some (100, 7));
   OAddPoll 0; OSent 0; OPop 0].

(* tags of the records delivered to cursor 0 by Head and by the following Pop, and the Pop's result code *)
Definition r1_obs (rc : rcfg) : list (list N) :=
  let obs := snd (run rc (init_state 192 384 0) r1_ops) in [nth 2 obs []; nth 9 obs []].

Lemma ring_R1_refuted :
  (* Head delivered the record tagged 1000 (history index 0); the next Pop answers OK (code 0) with the record tagged
     1002 (history index 2): record 1001 is skipped without any error, and the sequence number reported is 0 *)
  r1_obs code_rcfg = [[0; 1; 1; 1000; 1000; 501; 7; 0; 0; 1]; [0; 3; 1; 1000; 1002; 0; 0; 0; 0; 3]].
Proof. vm_compute. reflexivity. Qed.

Lemma ring_R1_repaired : r1_obs fixed_rcfg = [[0; 1; 1; 1000; 1000; 501; 7; 0; 0; 1]; [2]].
Proof. vm_compute. reflexivity. Qed.
