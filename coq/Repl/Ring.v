(* Executable, field-faithful model of server/replication.go ReplicationBufferQueue (lines 88-411)
   and of the cursor operations the replication server performs on it.

   Representation of the heap.  The Go structure is two singly linked lists of
   ReplicationBufferQueueItem: the *live* list tailItem -> ... -> headItem (oldest first; Push links
   at headItem) and the *free* list freeTailItem -> ... -> freeHeadItem (Push takes from freeTailItem,
   ResetQueueItems/InitFreeQueueItems link at freeHeadItem).  Items are never deallocated and at every
   operation boundary each item is in exactly one of the two lists with nextItem = its successor in
   that list (nil for the last) -- every list surgery happens inside one Push under glock.  We
   therefore keep the two lists explicitly, each item carrying its allocation number [iref] (the
   pointer identity a cursor holds in currentItem); nextItem is the list successor.  All the fields
   of the Go structs are kept: buf (as its two observable parts: the 16 id bytes buf[3..18] as one
   number < 2^128, and a tag standing for the remaining 48 bytes), data (None = nil, Some (len, fill)),
   pollCount, pollIndex (uint32), seq (uint64), usedBufferSize, bufferSize, maxBufferSize (uint64),
   pollCount, dupCount (uint32).

   Push: the Go code, when a manager is attached and not every server channel is active, sleeps up to
   10 ms (glock.Wait) and then re-evaluates exactly the same condition; the model's Push is the
   decision without the wait (the wait only lets other operations run first, which a schedule
   expresses by ordering them before the Push). *)
From Coq Require Import List NArith Bool Lia.
From Slock Require Import Base.Util.
Import ListNotations.
Open Scope N_scope.

Definition U32 : N := 4294967296.
Definition U64 : N := 18446744073709551616.
Definition NOPOLL : N := 4294967295.            (* 0xffffffff : marks an item that is not in the live list *)
Definition NOSEQ : N := 18446744073709551615.   (* 0xffffffffffffffff : cursor that never delivered *)

Definition add32 (a b : N) := (a + b) mod U32.
Definition sub32 (a b : N) := (a + U32 - b mod U32) mod U32.
Definition add64 (a b : N) := (a + b) mod U64.
Definition sub64 (a b : N) := (a + U64 - b mod U64) mod U64.

Record item := mkItem {
  iref : N;                 (* pointer identity *)
  iid : N;                  (* buf[3..18]: offset(4) index(4) commandTime(8), little endian *)
  itag : N;                 (* the other bytes of buf *)
  idata : option (N * N);   (* data: nil | (len, fill byte) *)
  ipc : N;                  (* pollCount *)
  ipi : N;                  (* pollIndex *)
  iseq : N }.

Record cursor := mkCur {
  ccur : option N;          (* currentItem *)
  cid : N;                  (* currentAofId *)
  cbid : N; cbtag : N;      (* buf (copy of the delivered item's buf) *)
  cdata : option (N * N);   (* data *)
  cseq : N;
  cwrited : bool }.

Record ring := mkRing {
  live : list item;         (* tailItem first ... headItem last *)
  free : list item;         (* freeTailItem first ... freeHeadItem last *)
  rseq : N;
  used : N;
  bsize : N;
  maxsize : N;
  rpoll : N;
  dup : N;
  nextref : N }.            (* allocation counter (model only) *)

(* The two places where the repaired ring differs from the code as written (proposed_fixes/c09_ring.diff);
   checks/C09.py derives the flags from the source text on every run.
   rc_fresh_exempt: Pop contains '&& cursor.seq != 0xffffffffffffffff' (replication.go:314);
   rc_poll_freed:   AddPoll/RemovePoll also walk from an item that is on the free list (replication.go:213,224). *)
Record rcfg := mkRcfg { rc_fresh_exempt : bool; rc_poll_freed : bool }.
Definition code_rcfg := mkRcfg true true.
Definition fixed_rcfg := mkRcfg false false.

Definition new_cursor : cursor := mkCur None 0 0 0 None NOSEQ true.

(* ReplicationBufferQueueItem.Init(buf): zero buffer, pollCount = 0xffffffff *)
Definition init_item (r : N) : item := mkItem r 0 0 None NOPOLL 0 0.
(* NewReplicationBufferQueueItem(): all zero *)
Definition alloc_item (r : N) : item := mkItem r 0 0 None 0 0 0.

Fixpoint fresh_items (n : nat) (r : N) : list item :=
  match n with O => [] | S k => init_item r :: fresh_items k (r + 1) end.

(* InitFreeQueueItems(count) *)
Definition init_free (q : ring) (count : N) : ring :=
  mkRing (live q) (free q ++ fresh_items (N.to_nat count) (nextref q)) (rseq q) (used q) (bsize q) (maxsize q)
         (rpoll q) (dup q) (nextref q + count).

Definition new_ring (bufSize maxSize : N) : ring :=
  init_free (mkRing [] [] 0 0 (bufSize mod U64) (maxSize mod U64) 0 0 0) ((bufSize mod U64) / 64).

Definition isize (it : item) : N :=
  match idata it with None => 64 | Some (l, _) => (64 + l) mod U64 end.

(* what ResetQueueItems does to an item it moves to the free list (buf keeps its bytes) *)
Definition freed (it : item) : item := mkItem (iref it) (iid it) (itag it) None NOPOLL 0 0.

(* the loop of ResetQueueItems: q already unlinked and accounted; rest = new live list *)
Fixpoint reset_loop (q : item) (rest : list item) (usd bs : N) (fr : list item)
  : item * list item * N * list item :=
  match rest with
  | [] => (q, [], usd, fr)
  | t :: rest' =>
      if (bs <=? usd) && (ipc t <=? ipi t)
      then reset_loop t rest' (sub64 usd (isize t)) bs (fr ++ [freed q])
      else (q, rest, usd, fr)
  end.

(* ResetQueueItems; None = nil dereference of tailItem (never reached from Push) *)
Definition reset_items (q : ring) : option (item * ring) :=
  match live q with
  | [] => None
  | t :: rest =>
      let '(it, lv, usd, fr) := reset_loop t rest (sub64 (used q) (isize t)) (bsize q) (free q) in
      Some (it, mkRing lv fr (rseq q) usd (bsize q) (maxsize q) (rpoll q) (dup q) (nextref q))
  end.

Definition grow (q : ring) : ring :=
  let q1 := init_free q (bsize q / 64) in
  mkRing (live q1) (free q1) (rseq q1) (used q1) ((bsize q1 * 2) mod U64) (maxsize q1) (rpoll q1)
         (add32 (dup q1) 1) (nextref q1).

Definition dsize (d : option (N * N)) : N := match d with None => 64 | Some (l, _) => (64 + l) mod U64 end.

(* Push(buf, data) *)
Definition push (q : ring) (id tag : N) (d : option (N * N)) : ring :=
  let '(qi, q1) :=
    match live q with
    | t :: _ =>
        if (match free q with [] => true | _ => false end) || (bsize q <=? used q) then
          if (ipi t <? ipc t) && (bsize q <? maxsize q) then (None, grow q)
          else match reset_items q with Some (it, q') => (Some it, q') | None => (None, q) end
        else (None, q)
    | [] => (None, q)
    end in
  let '(it, q2) :=
    match qi with
    | Some it => (it, q1)
    | None =>
        match free q1 with
        | f :: fr => (f, mkRing (live q1) fr (rseq q1) (used q1) (bsize q1) (maxsize q1) (rpoll q1) (dup q1) (nextref q1))
        | [] => (alloc_item (nextref q1),
                 mkRing (live q1) [] (rseq q1) (used q1) (bsize q1) (maxsize q1) (rpoll q1) (dup q1) (nextref q1 + 1))
        end
    end in
  let it' := mkItem (iref it) id tag d (rpoll q2) 0 (rseq q2) in
  mkRing (live q2 ++ [it']) (free q2) (add64 (rseq q2) 1) (add64 (used q2) (dsize d)) (bsize q2) (maxsize q2)
         (rpoll q2) (dup q2) (nextref q2).

(* pointer dereference: the item with this identity and the items reachable from it through nextItem *)
Fixpoint find_from (r : N) (l : list item) : option (item * list item) :=
  match l with
  | [] => None
  | x :: tl => if iref x =? r then Some (x, tl) else find_from r tl
  end.

Definition deref (q : ring) (r : N) : option (item * list item) :=
  match find_from r (live q) with
  | Some x => Some x
  | None => find_from r (free q)
  end.

Inductive result := ROk | REof | ROob | RSearchErr | RPanic.

Definition deliver (it : item) (w : bool) : cursor :=
  mkCur (Some (iref it)) (iid it) (iid it) (itag it) (idata it) (iseq it) w.

(* Pop(cursor) *)
Definition pop (rc : rcfg) (q : ring) (c : cursor) : result * cursor :=
  let from_tail :=
    match live q with
    | [] => (REof, c)
    | t :: _ =>
        if negb (sub64 (iseq t) (cseq c) =? 1) && negb (iseq t =? 0) && negb (rc_fresh_exempt rc && (cseq c =? NOSEQ))
        then (ROob, c) else (ROk, deliver t false)
    end in
  match ccur c with
  | None => from_tail
  | Some r =>
      match deref q r with
      | None => (RPanic, c)           (* dangling pointer: impossible, items are never deallocated *)
      | Some (it, nxt) =>
          if ipc it =? NOPOLL then from_tail
          else if negb (iseq it =? cseq c) then (ROob, c)
          else match nxt with
               | [] => (REof, c)
               | n :: _ => (ROk, deliver n false)
               end
      end
  end.

(* Head(cursor) *)
Definition head (q : ring) (c : cursor) : result * cursor :=
  match rev (live q) with
  | [] => (REof, c)
  | h :: _ => (ROk, deliver h false)
  end.

Fixpoint find_id (id : N) (l : list item) : option item :=
  match l with
  | [] => None
  | x :: tl => if iid x =? id then Some x else find_id id tl
  end.

(* Search(aofId, cursor) *)
Definition search (q : ring) (id : N) (c : cursor) : result * cursor :=
  match live q with
  | [] => (REof, c)
  | _ => match find_id id (live q) with
         | Some it => (ROk, deliver it true)
         | None => (RSearchErr, c)
         end
  end.

Definition bump_pc (it : item) : item := mkItem (iref it) (iid it) (itag it) (idata it) (add32 (ipc it) 1) (ipi it) (iseq it).
Definition bump_pi (it : item) : item := mkItem (iref it) (iid it) (itag it) (idata it) (ipc it) (add32 (ipi it) 1) (iseq it).

(* apply f to the item with identity r and to every item after it in the list *)
Fixpoint map_from (f : item -> item) (r : N) (l : list item) : list item :=
  match l with
  | [] => []
  | x :: tl => if iref x =? r then map f l else x :: map_from f r tl
  end.
(* apply f to the item with identity r only *)
Fixpoint map_at (f : item -> item) (r : N) (l : list item) : list item :=
  match l with
  | [] => []
  | x :: tl => if iref x =? r then f x :: tl else x :: map_at f r tl
  end.

Definition in_list (r : N) (l : list item) : bool := match find_from r l with Some _ => true | None => false end.

Definition is_freed (q : ring) (r : N) : bool :=
  match find_from r (live q) with
  | Some (it, _) => ipc it =? NOPOLL
  | None => match find_from r (free q) with Some (it, _) => ipc it =? NOPOLL | None => false end
  end.

Definition walk (rc : rcfg) (f : item -> item) (q : ring) (c : cursor) (rp : N) : ring :=
  match (match ccur c with Some r => if negb (rc_poll_freed rc) && is_freed q r then None else Some r | None => None end) with
  | None => mkRing (live q) (free q) (rseq q) (used q) (bsize q) (maxsize q) rp (dup q) (nextref q)
  | Some r =>
      if in_list r (live q)
      then mkRing (map_from f r (live q)) (free q) (rseq q) (used q) (bsize q) (maxsize q) rp (dup q) (nextref q)
      else mkRing (live q) (map_from f r (free q)) (rseq q) (used q) (bsize q) (maxsize q) rp (dup q) (nextref q)
  end.

(* AddPoll(cursor) / RemovePoll(cursor) *)
Definition add_poll (rc : rcfg) (q : ring) (c : cursor) : ring := walk rc bump_pc q c (add32 (rpoll q) 1).
Definition remove_poll (rc : rcfg) (q : ring) (c : cursor) : ring := walk rc bump_pi q c (sub32 (rpoll q) 1).

(* SendProcess after writing the cursor's record:  writed = true; atomic.AddUint32(&currentItem.pollIndex, 1) *)
Definition sent (q : ring) (c : cursor) : result * ring * cursor :=
  if cwrited c then (ROk, q, c)
  else match ccur c with
       | None => (RPanic, q, c)
       | Some r =>
           let q' := if in_list r (live q)
                     then mkRing (map_at bump_pi r (live q)) (free q) (rseq q) (used q) (bsize q) (maxsize q) (rpoll q) (dup q) (nextref q)
                     else mkRing (live q) (map_at bump_pi r (free q)) (rseq q) (used q) (bsize q) (maxsize q) (rpoll q) (dup q) (nextref q) in
           (ROk, q', mkCur (ccur c) (cid c) (cbid c) (cbtag c) (cdata c) (cseq c) true)
       end.

(* handleInitSync, id not buffered but equal to manager.currentAofId (replication.go:1234-1237) *)
Definition resume_at_end (q : ring) (c : cursor) (cur_id : N) : cursor :=
  mkCur None cur_id (cbid c) (cbtag c) (cdata c) (sub64 (rseq q) 1) true.

(* handleInitSync with a non-empty request id (replication.go:1221-1246): file index bytes zero -> ERR_NOT_FOUND;
   Search; when it fails: id <> manager.currentAofId -> ERR_NOT_FOUND, else resume at the end of the ring *)
Inductive sync_res := SyFound | SyAtEnd | SyNotFound.
Definition id_fileindex (id : N) : N := (id / 4294967296) mod 4294967296.
Definition sync_known (q : ring) (cur_id id : N) (c : cursor) : sync_res * cursor :=
  if id_fileindex id =? 0 then (SyNotFound, c)
  else match search q id c with
       | (ROk, c') => (SyFound, c')
       | _ => if id =? cur_id then (SyAtEnd, resume_at_end q c cur_id) else (SyNotFound, c)
       end.

(* ------------------------------------------------------------------ op language for the correspondence *)
Inductive op :=
| OPush (off idx time tag : N) (d : option (N * N))
| ONewCur (k : N)
| OPop (k : N) | OHead (k : N) | OSearch (k off idx time : N)
| OAddPoll (k : N) | ORemovePoll (k : N) | OSent (k : N) | OSync (k off idx time : N).

Definition mkid (off idx time : N) : N := off mod 4294967296 + (idx mod 4294967296) * 4294967296 + (time mod U64) * U64.

Record state := mkState { sring : ring; scurs : amap cursor; slast : N (* manager.currentAofId *) }.

Definition init_state (bufSize maxSize lastId : N) : state := mkState (new_ring bufSize maxSize) [] lastId.

Definition rcode (r : result) : N :=
  match r with ROk => 0 | REof => 1 | ROob => 2 | RSearchErr => 3 | RPanic => 4 end.

Definition b2n (b : bool) : N := if b then 1 else 0.
Definition dlen (d : option (N * N)) : N := match d with None => 0 | Some (l, _) => l + 1 end.
Definition dfill (d : option (N * N)) : N := match d with None => 0 | Some (l, f) => if l =? 0 then 0 else f end.

(* observation of a cursor after a successful delivery: id (3 parts), tag, data, seq, writed *)
Definition obs_cursor (c : cursor) : list N :=
  [cbid c mod 4294967296; (cbid c / 4294967296) mod 4294967296; cbid c / U64; cbtag c; dlen (cdata c); dfill (cdata c);
   cseq c; b2n (cwrited c); cid c mod 4294967296].

Definition obs_res (rc : result * cursor) : list N :=
  match fst rc with ROk => 0 :: obs_cursor (snd rc) | r => [rcode r] end.

Definition obs_ring (q : ring) : list N := [rseq q; used q; bsize q; rpoll q; dup q; N.of_nat (length (live q)); N.of_nat (length (free q))].

Definition with_cur (s : state) (k : N) (f : cursor -> state * list N) : state * list N :=
  match aget (scurs s) k with
  | None => (s, [99])
  | Some c => f c
  end.

Definition step (rc : rcfg) (s : state) (o : op) : state * list N :=
  match o with
  | OPush off idx time tag d =>
      let id := mkid off idx time in
      let q := push (sring s) id tag d in
      (mkState q (scurs s) id, obs_ring q)
  | ONewCur k => (mkState (sring s) (aset (scurs s) k new_cursor) (slast s), [0])
  | OPop k => with_cur s k (fun c => let r := pop rc (sring s) c in
                (mkState (sring s) (aset (scurs s) k (snd r)) (slast s), obs_res r))
  | OHead k => with_cur s k (fun c => let r := head (sring s) c in
                (mkState (sring s) (aset (scurs s) k (snd r)) (slast s), obs_res r))
  | OSearch k off idx time => with_cur s k (fun c => let r := search (sring s) (mkid off idx time) c in
                (mkState (sring s) (aset (scurs s) k (snd r)) (slast s), obs_res r))
  | OAddPoll k => with_cur s k (fun c => let q := add_poll rc (sring s) c in (mkState q (scurs s) (slast s), obs_ring q))
  | ORemovePoll k => with_cur s k (fun c => let q := remove_poll rc (sring s) c in (mkState q (scurs s) (slast s), obs_ring q))
  | OSent k => with_cur s k (fun c => let '(r, q, c') := sent (sring s) c in
                (mkState q (aset (scurs s) k c') (slast s), [rcode r]))
  | OSync k off idx time => with_cur s k (fun c =>
      let '(r, c') := sync_known (sring s) (slast s) (mkid off idx time) c in
      (mkState (sring s) (aset (scurs s) k c') (slast s),
       match r with SyFound => obs_res (ROk, c') | SyAtEnd => [7; cseq c'] | SyNotFound => [6] end))
  end.

Fixpoint run (rc : rcfg) (s : state) (ops : list op) : state * list (list N) :=
  match ops with
  | [] => (s, [])
  | o :: tl => let '(s1, ob) := step rc s o in let '(s2, obs) := run rc s1 tl in (s2, ob :: obs)
  end.

(* final dump: every item of both lists with all its fields *)
Definition dump_item (it : item) : list N :=
  [iseq it; iid it mod 4294967296; (iid it / 4294967296) mod 4294967296; itag it; dlen (idata it); ipc it; ipi it].
Definition dump (s : state) : list (list N) :=
  obs_ring (sring s) :: map dump_item (live (sring s)) ++ [[77]] ++ map dump_item (free (sring s)).
