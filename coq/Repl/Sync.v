(* Protocol-level model of slock replication: one leader, any number of followers (server/replication.go
   ReplicationClient.Run/sendSyncCommand/InitSync/recvFiles/Process, ReplicationServer.handleInitSync/
   sendFiles/SendProcess, Aof.PushLock, ReplicationManager.PushLock).

   Leader.  [log] is everything ever persisted (append files, in order = ring order: Aof.PushLock publishes under
   replGlock).  The ring buffer is seen through the abstraction proved for Ring.v (ReplProofs.v): it holds
   log[lo .. len), sequence number k <-> log index rstart + k where rstart = |log| when the leader process started
   (a restarted leader has files but an empty ring).  Eviction is part of an append (Push evicts any number of
   oldest items, then links the new one), the number evicted is a parameter of the action: every ring size,
   growth policy and poller configuration is covered.

   Cursor of a connection: cseq (None = 0xffffffffffffffff, Some p = stands on log[p]), cptr (currentItem <> nil),
   cwr (writed), cbuf (copy of the record in cursor.buf).

   Follower.  applied = its persisted + replayed record sequence (replay, append and re-publish pipelines are ONE
   atomic apply; currentAofId is advanced with it -- in the code it is advanced when the append pipeline flushes,
   which Run() awaits before reconnecting, so the two agree at every reconnect).  fcur = currentAofId
   (zero_id = 00..0), faof = (aofLock != nil).

   Wires are FIFO lists; a cut empties both and resets the leader-side channel; bytes of a partially transferred
   record are dropped by client.Stream.ReadBytes, so cuts are at message granularity.

   cfg: the three places where the code as written differs from the repaired code (proposed_fixes/c09_*.diff);
   checks/C09.py derives the flags from the source text on every run. *)
From Coq Require Import List NArith Bool Lia PeanoNat.
Import ListNotations.

Record rid := mkId { xidx : N; xoff : N; xtime : N }.
Record rec := mkRec { rid_of : rid; rpay : N }.
Definition zero_id := mkId 0 0 0.

Definition id_eqb (a b : rid) : bool := (xidx a =? xidx b)%N && (xoff a =? xoff b)%N && (xtime a =? xtime b)%N.
(* sendFiles bound: (AofIndex, AofOffset) lexicographic, command time ignored *)
Definition id_lt (a b : rid) : bool := (xidx a <? xidx b)%N || ((xidx a =? xidx b)%N && (xoff a <? xoff b)%N).

Record cfg := mkCfg {
  early_id : bool;      (* InitSync assigns currentAofId := response id before recvFiles (replication.go:688-690) *)
  keep_aoflock : bool;  (* sendSyncCommand with an empty id leaves aofLock untouched (replication.go:591-594) *)
  fresh_exempt : bool   (* Pop: '&& cursor.seq != 0xffffffffffffffff' (replication.go:314) *) }.
Definition code_cfg := mkCfg true true true.
Definition fixed_cfg := mkCfg false false false.

Inductive smsg := MResp (i : rid) | MNotFound | MRec (r : rec) | MFilesEnd.
Inductive cmsg := MSync (i : option rid) | MStarted.

Inductive fphase := FDisc | FWaitResp | FRecvFiles | FLive.
Inductive sphase := SIdle | SWaitStarted (full : bool) (bound : rid) | SFiles (next : nat) (bound : rid) | SLive.

(* the end-of-files marker decoded as an ordinary record (COMMAND_INIT, index/offset 0xffffffff, time 0xff..ff) *)
Definition marker_rec := mkRec (mkId 4294967295 4294967295 18446744073709551615) 0.

Record fstate := mkF {
  applied : list rec; fcur : rid; faof : bool; fph : fphase;
  s2c : list smsg; c2s : list cmsg;
  sph : sphase; cseq : option nat; cptr : bool; cwr : bool; cbuf : option rec }.

Record leader := mkL { log : list rec; fidx : N; foff : N; lo : nat; rstart : nat; mcur : rid }.

Record state := mkS { ld : leader; fol : nat -> fstate }.

Definition init_f : fstate := mkF [] zero_id false FDisc [] [] SIdle None false true None.
Definition init_state : state := mkS (mkL [] 1 0 0 0 (mkId 1 0 0)) (fun _ => init_f).

Inductive action :=
| LAppend (time pay : N) (evict : nat)   (* Aof.PushLock + ReplicationBufferQueue.Push *)
| LRotate                                (* RewriteAofFile: next append file *)
| LRestart                               (* leader process restart: ring empty, all connections gone *)
| FConnect (f : nat)                     (* Run: Open + sendSyncCommand *)
| LHandleSync (f : nat)                  (* handleInitSync up to the call result *)
| FRecv (f : nat) (wfail : bool)         (* follower consumes one message; wfail: its 'started' write fails *)
| LRecvStarted (f : nat)                 (* waitStarted returns; addServerChannel; SendProcess starts *)
| LSendFile (f : nat)                    (* sendFiles: one record or the end marker *)
| LSendLive (f : nat) (reused : bool)    (* SendProcess: write the cursor's record, or Pop; reused: the cursor's evicted
                                            item has been recycled for a newer record (Pop then reports out of buf) *)
| Cut (f : nat)                          (* connection lost in both directions *)
| FRestart (f : nat).                    (* follower process restart with its current directory *)

Definition upd (m : nat -> fstate) (f : nat) (x : fstate) : nat -> fstate := fun g => if Nat.eqb g f then x else m g.

Definition last_id (l : list rec) (d : rid) : rid := match rev l with r :: _ => rid_of r | [] => d end.

Fixpoint find_idx (i : rid) (l : list rec) (k : nat) : option nat :=
  match l with
  | [] => None
  | r :: tl => if id_eqb (rid_of r) i then Some k else find_idx i tl (S k)
  end.

(* connection teardown seen from both ends *)
Definition drop_conn (x : fstate) : fstate :=
  mkF (applied x) (fcur x) (faof x) FDisc [] [] SIdle None false true None.

(* ---- leader side ---- *)
Definition l_append (L : leader) (time pay : N) (ev : nat) : leader :=
  let i := mkId (fidx L) (foff L + 1) time in
  mkL (log L ++ [mkRec i pay]) (fidx L) (foff L + 1) (Nat.min (lo L + ev) (length (log L))) (rstart L) i.

Definition l_rotate (L : leader) : leader := mkL (log L) (fidx L + 1) 0 (lo L) (rstart L) (mcur L).

Definition l_restart (L : leader) : leader :=
  mkL (log L) (fidx L) (foff L) (length (log L)) (length (log L)) (last_id (log L) (mkId (fidx L) 0 0)).

(* handleInitSync *)
Definition handle_sync (L : leader) (x : fstate) : fstate :=
  match c2s x, sph x with
  | MSync None :: rest, SIdle =>
      (* Head(cursor): EOF on an empty ring *)
      if Nat.ltb (lo L) (length (log L)) then
        match rev (log L) with
        | h :: _ => mkF (applied x) (fcur x) (faof x) (fph x) (s2c x ++ [MResp (rid_of h)]) rest
                        (SWaitStarted true (rid_of h)) (Some (length (log L) - 1)) true false (Some h)
        | [] => x
        end
      else mkF (applied x) (fcur x) (faof x) (fph x) (s2c x ++ [MResp (mkId (fidx L) (foff L + 1) 0)]) rest
               (SWaitStarted true (mkId (fidx L) (foff L + 1) 0)) None false true None
  | MSync (Some i) :: rest, SIdle =>
      if (xidx i =? 0)%N then mkF (applied x) (fcur x) (faof x) (fph x) (s2c x ++ [MNotFound]) rest SIdle None false true None
      else match find_idx i (skipn (lo L) (log L)) (lo L) with
           | Some p => mkF (applied x) (fcur x) (faof x) (fph x) (s2c x ++ [MResp i]) rest
                           (SWaitStarted false zero_id) (Some p) true true (nth_error (log L) p)
           | None =>
               if id_eqb i (mcur L)
               then mkF (applied x) (fcur x) (faof x) (fph x) (s2c x ++ [MResp i]) rest (SWaitStarted false zero_id)
                        (if Nat.eqb (length (log L)) (rstart L) then None else Some (length (log L) - 1)) false true None
               else mkF (applied x) (fcur x) (faof x) (fph x) (s2c x ++ [MNotFound]) rest SIdle None false true None
           end
  | _, _ => x
  end.

(* waitStarted returns: full transfer -> sendFiles bounded by waofLock, resume -> live stream *)
Definition l_recv_started (x : fstate) : fstate :=
  match c2s x, sph x with
  | MStarted :: rest, SWaitStarted true b =>
      mkF (applied x) (fcur x) (faof x) (fph x) (s2c x) rest (SFiles 0 b) (cseq x) (cptr x) (cwr x) (cbuf x)
  | MStarted :: rest, SWaitStarted false _ =>
      mkF (applied x) (fcur x) (faof x) (fph x) (s2c x) rest SLive (cseq x) (cptr x) (cwr x) (cbuf x)
  | _, _ => x
  end.

(* sendFiles: LoadAofFiles iterates the persisted records in order and stops at the first one >= bound *)
Definition l_send_file (L : leader) (x : fstate) : fstate :=
  match sph x with
  | SFiles next b =>
      match nth_error (log L) next with
      | Some r =>
          if id_lt (rid_of r) b
          then mkF (applied x) (fcur x) (faof x) (fph x) (s2c x ++ [MRec r]) (c2s x) (SFiles (S next) b) (cseq x) (cptr x) (cwr x) (cbuf x)
          else mkF (applied x) (fcur x) (faof x) (fph x) (s2c x ++ [MFilesEnd]) (c2s x) SLive (cseq x) (cptr x) (cwr x) (cbuf x)
      | None => mkF (applied x) (fcur x) (faof x) (fph x) (s2c x ++ [MFilesEnd]) (c2s x) SLive (cseq x) (cptr x) (cwr x) (cbuf x)
      end
  | _ => x
  end.

Inductive pop_res := PDeliver (p : nat) | PEof | POob.

(* ReplicationBufferQueue.Pop on the abstraction (Ring.v pop; correspondence: ReplProofs.v) *)
Definition a_pop (c : cfg) (L : leader) (x : fstate) (reused : bool) : pop_res :=
  let len := length (log L) in
  let from_tail :=
    if Nat.ltb (lo L) len then
      let contiguous := match cseq x with Some p => Nat.eqb (lo L) (S p) | None => false end in
      let exempt := match cseq x with None => fresh_exempt c | Some _ => false end in
      if negb contiguous && negb (Nat.eqb (lo L) (rstart L)) && negb exempt then POob else PDeliver (lo L)
    else PEof in
  match cseq x, cptr x with
  | Some p, true => if Nat.leb (lo L) p then (if Nat.ltb (S p) len then PDeliver (S p) else PEof)
                    else if reused then POob else from_tail
  | _, _ => from_tail
  end.

(* SendProcess: one iteration *)
Definition l_send_live (c : cfg) (L : leader) (x : fstate) (reused : bool) : fstate :=
  match sph x with
  | SLive =>
      if negb (cwr x) then
        match cbuf x with
        | Some r => mkF (applied x) (fcur x) (faof x) (fph x) (s2c x ++ [MRec r]) (c2s x) SLive (cseq x) (cptr x) true (cbuf x)
        | None => x
        end
      else match a_pop c L x reused with
           | PDeliver p => mkF (applied x) (fcur x) (faof x) (fph x) (s2c x) (c2s x) SLive (Some p) true false (nth_error (log L) p)
           | PEof => x
           | POob =>  (* SendProcess returns the error and the server closes its end; what was written before still arrives *)
               mkF (applied x) (fcur x) (faof x) (fph x) (s2c x) (c2s x) SIdle None false true None
           end
  | _ => x
  end.

(* ---- follower side ---- *)
(* Run: Open, sendSyncCommand *)
Definition f_connect (c : cfg) (x : fstate) : fstate :=
  match fph x with
  | FDisc =>
      if id_eqb (fcur x) zero_id
      then mkF (applied x) (fcur x) (if keep_aoflock c then faof x else false) FWaitResp [] [MSync None] SIdle None false true None
      else mkF (applied x) (fcur x) true FWaitResp [] [MSync (Some (fcur x))] SIdle None false true None
  | _ => x
  end.

Definition apply_rec (x : fstate) (r : rec) (rest : list smsg) (ph : fphase) : fstate :=
  mkF (applied x ++ [r]) (rid_of r) (faof x) ph rest (c2s x) (sph x) (cseq x) (cptr x) (cwr x) (cbuf x).

Definition f_recv (c : cfg) (x : fstate) (wfail : bool) : fstate :=
  match s2c x with
  | [] => x
  | m :: rest =>
      match fph x, m with
      | FWaitResp, MNotFound =>
          (* ERR_NOT_FOUND: forget the position, sync again from scratch on the same connection *)
          mkF (applied x) zero_id false FWaitResp rest (c2s x ++ [MSync None]) (sph x) (cseq x) (cptr x) (cwr x) (cbuf x)
      | FWaitResp, MResp i =>
          if faof x then
            (* resume branch of InitSync: aof.Load (files are kept), sendStarted, Process *)
            if wfail then drop_conn x
            else mkF (applied x) (fcur x) true FLive rest (c2s x ++ [MStarted]) (sph x) (cseq x) (cptr x) (cwr x) (cbuf x)
          else
            (* full branch: aof.Reset + FlushDB wipe the follower, aofLock := new, sendStarted, recvFiles *)
            if wfail then drop_conn (mkF [] (fcur x) true (fph x) (s2c x) (c2s x) (sph x) (cseq x) (cptr x) (cwr x) (cbuf x))
            else mkF [] (if early_id c then i else fcur x) true FRecvFiles rest (c2s x ++ [MStarted])
                     (sph x) (cseq x) (cptr x) (cwr x) (cbuf x)
      | FRecvFiles, MRec r => apply_rec x r rest FRecvFiles
      | FRecvFiles, MFilesEnd => mkF (applied x) (fcur x) (faof x) FLive rest (c2s x) (sph x) (cseq x) (cptr x) (cwr x) (cbuf x)
      | FLive, MRec r => apply_rec x r rest FLive
      | FLive, MFilesEnd => apply_rec x marker_rec rest FLive   (* Process() has no notion of the marker *)
      | _, _ => drop_conn x     (* protocol error: the client gives up the connection *)
      end
  end.

(* follower process restart: Aof.Init takes the id of the last record of its files *)
Definition f_restart (x : fstate) : fstate :=
  mkF (applied x) (last_id (applied x) zero_id) false FDisc [] [] SIdle None false true None.

Definition step (c : cfg) (s : state) (a : action) : state :=
  let L := ld s in
  match a with
  | LAppend t p ev => mkS (l_append L t p ev) (fol s)
  | LRotate => mkS (l_rotate L) (fol s)
  | LRestart => mkS (l_restart L) (fun g => drop_conn (fol s g))
  | FConnect f => mkS L (upd (fol s) f (f_connect c (fol s f)))
  | LHandleSync f => mkS L (upd (fol s) f (handle_sync L (fol s f)))
  | FRecv f w => mkS L (upd (fol s) f (f_recv c (fol s f) w))
  | LRecvStarted f => mkS L (upd (fol s) f (l_recv_started (fol s f)))
  | LSendFile f => mkS L (upd (fol s) f (l_send_file L (fol s f)))
  | LSendLive f r => mkS L (upd (fol s) f (l_send_live c L (fol s f) r))
  | Cut f => mkS L (upd (fol s) f (drop_conn (fol s f)))
  | FRestart f => mkS L (upd (fol s) f (f_restart (fol s f)))
  end.

Fixpoint run (c : cfg) (s : state) (acts : list action) : state :=
  match acts with
  | [] => s
  | a :: tl => run c (step c s a) tl
  end.

(* the property: the follower's applied sequence is a prefix of the leader's log *)
Definition prefix_ok (s : state) (f : nat) : Prop :=
  applied (fol s f) = firstn (length (applied (fol s f))) (log (ld s)).
