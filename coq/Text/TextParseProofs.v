(* The chunk-level model of TextParser (TextParse.v) simulates the byte-level specification automaton (TextSpec.v)
   on every read -- for ANY byte stream on which the automaton reports no error -- provided the read is not
   `read_bad` (or the source carries the `self.cargIndex = self.cargLen` repair).  Together with the round trip of
   the automaton (TextSpecProofs.v) this gives chunking independence + round trip of ParseRequest / ParseResponse. *)
From Coq Require Import List NArith ZArith Bool Lia ZifyN ZifyBool ZifyNat.
From Slock Require Import Text.TextParse Text.ListZ Text.TextSpec Text.TextSpecProofs.
Import ListNotations.
Open Scope Z_scope.

Definition Buf (p : parser) (pre rest : bytes) : Prop :=
  exists stale, rbuf p = pre ++ rest ++ stale /\ bufIndex p = lenZ pre /\ bufLen p = lenZ pre + lenZ rest.

Definition PrevOk (pre : bytes) (prev : option N) : Prop := pre = [] \/ prev = Some (last pre 0%N).

Record Rel (strict : bool) (p : parser) (a : astate) : Prop := mkRel {
  r_stage : stage p = a_stage a;
  r_args : args p = a_args a;
  r_count : argsCount p = a_count a;
  r_type : argsType p = a_type a;
  r_carg : lenZ (carg p) = 128;
  r_range : 0 <= a_stage a <= 4;
  r_02 : a_stage a = 0 \/ a_stage a = 2 -> cargIndex p = 0 /\ a_num a = [];
  r_13 : a_stage a = 1 \/ a_stage a = 3 ->
         cargIndex p = lenZ (a_num a) /\ takeZ (cargIndex p) (carg p) = a_num a;
  r_4 : a_stage a = 4 ->
        cargLen p = a_len a /\ a_num a = [] /\ 0 <= a_k a /\
        (a_len a - a_k a > 0 -> cargIndex p = a_k a) /\
        (a_len a - a_k a <= 0 -> strict = true -> cargLen p - cargIndex p <= 0) }.

Lemma Rel_weaken p a : Rel true p a -> Rel false p a.
Proof.
  intros [? ? ? ? ? ? ? ? H4]. constructor; auto. intros H. destruct (H4 H) as (?&?&?&?&?).
  split; [assumption|]. split; [assumption|]. split; [assumption|]. split; [assumption|]. intros _ X. discriminate X.
Qed.

(* ---- buffer access *)
Lemma Buf_nth p pre c rest : Buf p pre (c :: rest) -> nthZ (rbuf p) (bufIndex p) = Some c /\ (bufIndex p <? bufLen p) = true.
Proof.
  intros (stale & Hr & Hi & Hl). rewrite Hr, Hi, Hl. split.
  - cbn [app]. apply nthZ_app_r.
  - apply Z.ltb_lt. rewrite lenZ_cons. pose proof (lenZ_nonneg rest). lia.
Qed.

Lemma Buf_end p pre : Buf p pre [] -> (bufIndex p <? bufLen p) = false.
Proof. intros (stale & Hr & Hi & Hl). rewrite Hi, Hl. simpl. apply Z.ltb_ge. lia. Qed.

Lemma Buf_advance p pre c rest f : rbuf (f p) = rbuf p -> bufLen (f p) = bufLen p -> bufIndex (f p) = bufIndex p + 1 ->
  Buf p pre (c :: rest) -> Buf (f p) (pre ++ [c]) rest.
Proof.
  intros E1 E2 E3 (stale & Hr & Hi & Hl). exists stale. rewrite E1, E2, E3, Hr, Hi, Hl.
  rewrite <- app_assoc, lenZ_app, lenZ_cons. simpl. repeat split; lia.
Qed.

Lemma Buf_cr_check p pre c rest prev : Buf p pre (c :: rest) -> PrevOk pre prev -> prev = Some CH_CR ->
  cr_check_fails p = Some false.
Proof.
  intros (stale & Hr & Hi & Hl) Hp Hprev. unfold cr_check_fails.
  destruct (bufIndex p >? 0) eqn:E; [|reflexivity].
  apply Z.gtb_lt in E. destruct Hp as [-> | Hp]; [simpl in Hi; lia|].
  assert (pre <> []) by (intro; subst pre; simpl in Hi; lia).
  rewrite Hr, Hi, (nthZ_last pre _ 0%N) by assumption.
  rewrite Hprev in Hp. inversion Hp as [Hc]. reflexivity.
Qed.

Lemma fuel_of_Buf p pre rest : Buf p pre rest -> fuel_of p = S (length rest).
Proof.
  intros (stale & Hr & Hi & Hl). unfold fuel_of. rewrite Hi, Hl.
  replace (lenZ pre + lenZ rest - lenZ pre) with (lenZ rest) by lia. rewrite lenZ_length, Nat2Z.id. reflexivity.
Qed.

Lemma arun_app_inv resp x : forall prev a y a' out,
  arun resp prev a (x ++ y) = (a', out, false) ->
  exists a1 o1 o2, arun resp prev a x = (a1, o1, false) /\ arun resp (last_byte prev x) a1 y = (a', o2, false) /\ out = o1 ++ o2.
Proof.
  intros prev a y a' out H. rewrite arun_app in H.
  destruct (arun resp prev a x) as [[a1 o1] [|]]; [inversion H|].
  destruct (arun resp (last_byte prev x) a1 y) as [[a2 o2] e] eqn:E2. inversion H; subst.
  exists a1, o1, o2. auto.
Qed.

Lemma arun_cons_inv resp prev a c t a' out :
  arun resp prev a (c :: t) = (a', out, false) ->
  exists a1 o1 o2, astep resp prev a c = (a1, o1, false) /\ arun resp (Some c) a1 t = (a', o2, false) /\ out = o1 ++ o2.
Proof.
  cbn [arun]. intros H. destruct (astep resp prev a c) as [[a1 o1] [|]]; [inversion H|].
  destruct (arun resp (Some c) a1 t) as [[a2 o2] e] eqn:E2. inversion H; subst. exists a1, o1, o2. auto.
Qed.

(* ---- the shape of the result of one `case` body *)
Definition Cont (resp : bool) (prev : option N) (a : astate) (pre rest : bytes) (res : step_res) : Prop :=
  exists r1 r2 a1 o1, rest = r1 ++ r2 /\ arun resp prev a r1 = (a1, o1, false) /\ Buf (fst res) (pre ++ r1) r2 /\
    match snd res with
    | None => r1 <> [] /\ o1 = [] /\ Rel true (fst res) a1 /\ a_stage a1 <> 0 /\ (a_stage a1 = 4 -> a_k a1 = 0)
    | Some Ok => (stage (fst res) <> 0 /\ r2 = [] /\ o1 = [] /\ Rel true (fst res) a1)
                 \/ (stage (fst res) = 0 /\ r1 <> [] /\ o1 = [(argsType (fst res), args (fst res))] /\ Rel true (reset (fst res)) a1)
    | Some _ => False
    end.

Lemma Cont_app resp prev a pre d t a1 res :
  arun resp prev a d = (a1, [], false) ->
  Cont resp (last_byte prev d) a1 (pre ++ d) t res -> d <> [] -> Cont resp prev a pre (d ++ t) res.
Proof.
  intros Hd (r1 & r2 & a2 & o1 & E & Hr & Hb & Hm) Hne.
  exists (d ++ r1), r2, a2, o1. split; [rewrite E, app_assoc; reflexivity|]. split.
  - rewrite arun_app, Hd, Hr. reflexivity.
  - split; [rewrite app_assoc; exact Hb|].
    assert (d ++ r1 <> []) as Hne2 by (destruct d; [congruence|discriminate]).
    destruct (snd res) as [[| | |]|]; auto.
    + destruct Hm as [Hm|(H1&H2&H3&H4)]; [left; exact Hm|right]. split; [exact H1|]. split; [exact Hne2|]. split; assumption.
    + destruct Hm as (H1&H2&H3&H4&H5). split; [exact Hne2|]. split; [exact H2|]. split; [exact H3|]. split; [exact H4|exact H5].
Qed.

Lemma Cont_cons resp prev a pre c t a1 res :
  astep resp prev a c = (a1, [], false) ->
  Cont resp (Some c) a1 (pre ++ [c]) t res -> Cont resp prev a pre (c :: t) res.
Proof.
  intros Hs Hc. change (c :: t) with ([c] ++ t). eapply Cont_app; [|exact Hc|discriminate].
  cbn [arun]. rewrite Hs. reflexivity.
Qed.

Lemma PrevOk_snoc pre c : PrevOk (pre ++ [c]) (Some c).
Proof. right. rewrite last_last. reflexivity. Qed.

Lemma PrevOk_app pre d prev : d <> [] -> PrevOk (pre ++ d) (last_byte prev d).
Proof.
  intros H. right. destruct d as [|b d]; [congruence|]. unfold last_byte. rewrite last_app_cons. reflexivity.
Qed.

(* ---- astep by stage *)
Lemma astep13 resp prev a c : a_stage a = 1 \/ a_stage a = 3 ->
  astep resp prev a c =
  if (c =? CH_LF)%N then
    if prev_is_cr prev then
      match atoi (a_num a) with
      | None => (a, [], true)
      | Some v => if a_stage a =? 1 then (mkA 2 (a_args a) [] v (a_len a) (a_k a) (a_type a), [], false)
                  else (mkA 4 (a_args a) [] (a_count a) v 0 (a_type a), [], false)
      end
    else (a, [], true)
  else if (c =? CH_CR)%N then (a, [], false)
  else if lenZ (a_num a) >=? MAX_CARG_LEN then (a, [], true)
  else (mkA (a_stage a) (a_args a) (a_num a ++ [c]) (a_count a) (a_len a) (a_k a) (a_type a), [], false).
Proof. intros [E|E]; unfold astep; rewrite E; reflexivity. Qed.

Lemma prev_is_cr_eq prev : prev_is_cr prev = true -> prev = Some CH_CR.
Proof. destruct prev as [q|]; simpl; [|discriminate]. intros H. apply N.eqb_eq in H. subst. reflexivity. Qed.

Ltac inv H := inversion H; subst; clear H.

Lemma scan_num_sim resp (is_count : bool) : forall rest fuel pre p a prev a' out,
  (length rest < fuel)%nat -> Buf p pre rest -> Rel true p a -> a_stage a = (if is_count then 1 else 3) -> PrevOk pre prev ->
  arun resp prev a rest = (a', out, false) ->
  Cont resp prev a pre rest (scan_num fuel is_count p).
Proof.
  induction rest as [|c t IH]; intros fuel pre p a prev a' out Hf Hb Hr Hst Hp Hrun.
  - destruct fuel; [simpl in Hf; lia|]. cbn [scan_num]. rewrite (Buf_end _ _ Hb).
    exists [], [], a, []. rewrite app_nil_r. cbn [fst snd]. split; [reflexivity|]. split; [reflexivity|]. split; [rewrite app_nil_r; exact Hb|].
    left. split; [rewrite (r_stage _ _ _ Hr), Hst; destruct is_count; discriminate|]. auto.
  - destruct fuel as [|f]; [simpl in Hf; lia|]. cbn [scan_num].
    destruct (Buf_nth _ _ _ _ Hb) as [Hn Hlt]. rewrite Hlt, Hn.
    destruct (arun_cons_inv _ _ _ _ _ _ _ Hrun) as (a1 & o1 & o2 & Hs & Hrun' & Hout).
    assert (a_stage a = 1 \/ a_stage a = 3) as Hst13 by (rewrite Hst; destruct is_count; auto).
    rewrite astep13 in Hs by assumption.
    destruct (r_13 _ _ _ Hr Hst13) as [Hci Hcg].
    destruct (c =? CH_LF)%N eqn:Elf.
    + (* end of the decimal *)
      destruct (prev_is_cr prev) eqn:Ecr; [|inv Hs].
      apply prev_is_cr_eq in Ecr.
      rewrite (Buf_cr_check _ _ _ _ _ Hb Hp Ecr).
      pose proof (lenZ_nonneg (a_num a)) as Hnn.
      assert (lenZ (a_num a) <= 128) as Hle.
      { rewrite <- Hcg. rewrite <- (r_carg _ _ _ Hr).
        pose proof (takeZ_skipZ (cargIndex p) (carg p)) as E. rewrite <- E at 2. rewrite lenZ_app.
        pose proof (lenZ_nonneg (skipZ (cargIndex p) (carg p))). lia. }
      rewrite sliceZ_prefix by (rewrite (r_carg _ _ _ Hr); lia). rewrite Hcg.
      destruct (atoi (a_num a)) as [v|] eqn:Eat; [|inv Hs].
      apply N.eqb_eq in Elf. subst c.
      assert (o1 = []) as -> by (destruct (a_stage a =? 1); inversion Hs; reflexivity).
      assert (astep resp prev a CH_LF = (a1, [], false)) as Hstep.
      { rewrite astep13 by assumption. change ((CH_LF =? CH_LF)%N) with true. cbv iota. rewrite Ecr.
        cbn [prev_is_cr]. change ((CH_CR =? CH_CR)%N) with true. cbv iota. rewrite Eat. exact Hs. }
      exists [CH_LF], t, a1, []. cbn [fst snd app].
      split; [reflexivity|]. split; [cbn [arun]; rewrite Hstep; reflexivity|]. split.
      { destruct is_count; (eapply (Buf_advance p pre CH_LF t (fun q => set_stage (set_bufIndex (set_cargIndex _ 0) _) _)); [..|exact Hb]); reflexivity. }
      split; [discriminate|]. split; [reflexivity|].
      destruct Hr as [R1 R2 R3 R4 R5 R6 R7 R8 R9].
      destruct is_count; rewrite Hst in Hs; cbn [Z.eqb Pos.eqb] in Hs; inv Hs; (split; [|split; [discriminate|]]).
      * constructor; cbn; auto; try lia; try (intros [X|X]; discriminate X); try (intros X; discriminate X).
      * intros X; discriminate X.
      * constructor; cbn; auto; try lia; try (intros [X|X]; discriminate X).
        intros _. repeat split; auto; lia.
      * reflexivity.
    + destruct (c =? CH_CR)%N eqn:Ecr.
      * (* CR is skipped *)
        inv Hs. cbn [negb].
        eapply Cont_cons; [rewrite astep13, Elf, Ecr by assumption; reflexivity|].
        eapply (IH f (pre ++ [c]) _ _ (Some c) a' o2); [simpl in Hf; lia| | |exact Hst|apply PrevOk_snoc|exact Hrun'].
        -- eapply (Buf_advance p pre c t (fun q => set_bufIndex q (bufIndex q + 1))); [reflexivity..|exact Hb].
        -- destruct Hr as [R1 R2 R3 R4 R5 R6 R7 R8 R9]. constructor; auto.
      * cbn [negb].
        assert ((cargIndex p >=? MAX_CARG_LEN) = (lenZ (a_num a) >=? MAX_CARG_LEN)) as Eg by (rewrite Hci; reflexivity).
        rewrite Eg. destruct (lenZ (a_num a) >=? MAX_CARG_LEN) eqn:Eov; [inv Hs|]. inv Hs.
        unfold MAX_CARG_LEN in Eov. rewrite Z.geb_leb in Eov. apply Z.leb_gt in Eov.
        destruct (carg_push (carg p) (a_num a) c) as (cg' & Hset & Htk & Hlen).
        { rewrite <- Hci. exact Hcg. } { rewrite (r_carg _ _ _ Hr). lia. }
        rewrite Hci, Hset.
        eapply Cont_cons; [rewrite astep13, Elf, Ecr by assumption; unfold MAX_CARG_LEN; rewrite Z.geb_leb;
                           replace (128 <=? lenZ (a_num a)) with false by (symmetry; apply Z.leb_gt; lia); reflexivity|].
        eapply (IH f (pre ++ [c]) _ _ (Some c) a' o2); [simpl in Hf; lia| | |exact Hst|apply PrevOk_snoc|exact Hrun'].
        -- eapply (Buf_advance p pre c t (fun q => set_bufIndex (set_cargIndex (set_carg q cg') (lenZ (a_num a) + 1)) (bufIndex q + 1))); [reflexivity..|exact Hb].
        -- destruct Hr as [R1 R2 R3 R4 R5 R6 R7 R8 R9].
           constructor; cbn; auto; try lia.
           intros _. rewrite lenZ_app. simpl. split; [lia|]. exact Htk.
Qed.

Lemma astep4_eol resp prev a c : a_stage a = 4 -> a_len a - a_k a <= 0 ->
  astep resp prev a c =
  if (c =? CH_LF)%N then
    if prev_is_cr prev then
      (if lenZ (if a_len a =? 0 then a_args a ++ [[]] else a_args a) <? a_count a
       then (mkA 2 (if a_len a =? 0 then a_args a ++ [[]] else a_args a) [] (a_count a) 0 0 (a_type a), [], false)
       else (mkA 0 [] [] 0 0 0 (a_type a), [(a_type a, if a_len a =? 0 then a_args a ++ [[]] else a_args a)], false))
    else (a, [], true)
  else (a, [], false).
Proof.
  intros E H. unfold astep. rewrite E.
  change (4 =? 0) with false. change ((4 =? 1) || (4 =? 3)) with false. change (4 =? 2) with false. change (4 =? 4) with true.
  cbv iota. replace (a_len a - a_k a >? 0) with false by (symmetry; rewrite Z.gtb_ltb; apply Z.ltb_ge; lia).
  reflexivity.
Qed.

Lemma Rel_strict p a : Rel false p a -> (a_stage a = 4 -> a_len a - a_k a <= 0 -> cargLen p - cargIndex p <= 0) -> Rel true p a.
Proof.
  intros [R1 R2 R3 R4 R5 R6 R7 R8 R9] H. constructor; auto.
  intros E. destruct (R9 E) as (?&?&?&?&?). repeat split; auto.
Qed.

Lemma scan_eol_sim resp : forall rest fuel pre p a prev a' out,
  (length rest < fuel)%nat -> Buf p pre rest -> Rel false p a -> a_stage a = 4 -> a_len a - a_k a <= 0 -> PrevOk pre prev ->
  (cargLen p - cargIndex p <= 0 \/ has_lf rest = true) ->
  arun resp prev a rest = (a', out, false) ->
  Cont resp prev a pre rest (scan_eol fuel p).
Proof.
  induction rest as [|c t IH]; intros fuel pre p a prev a' out Hf Hb Hr Hst Hph Hp Hend Hrun.
  - destruct fuel; [simpl in Hf; lia|]. cbn [scan_eol]. rewrite (Buf_end _ _ Hb).
    exists [], [], a, []. rewrite app_nil_r. cbn [fst snd]. split; [reflexivity|]. split; [reflexivity|].
    split; [rewrite app_nil_r; exact Hb|].
    left. split; [rewrite (r_stage _ _ _ Hr), Hst; discriminate|]. split; [reflexivity|]. split; [reflexivity|].
    apply Rel_strict; [exact Hr|]. intros _ _. destruct Hend as [H|H]; [exact H|discriminate H].
  - destruct fuel as [|f]; [simpl in Hf; lia|]. cbn [scan_eol].
    destruct (Buf_nth _ _ _ _ Hb) as [Hn Hlt]. rewrite Hlt, Hn.
    destruct (arun_cons_inv _ _ _ _ _ _ _ Hrun) as (a1 & o1 & o2 & Hs & Hrun' & Hout).
    rewrite astep4_eol in Hs by assumption.
    destruct (c =? CH_LF)%N eqn:Elf.
    + destruct (prev_is_cr prev) eqn:Ecr; [|inv Hs].
      pose proof (prev_is_cr_eq _ Ecr) as Ecr'.
      rewrite (Buf_cr_check _ _ _ _ _ Hb Hp Ecr').
      apply N.eqb_eq in Elf. subst c.
      destruct Hr as [R1 R2 R3 R4 R5 R6 R7 R8 R9]. destruct (R9 Hst) as (R9a & R9b & R9c & R9d & R9e).
      assert (astep resp prev a CH_LF = (a1, o1, false)) as Hstep.
      { rewrite astep4_eol by assumption. change ((CH_LF =? CH_LF)%N) with true. cbv iota. rewrite Ecr. exact Hs. }
      rewrite R9a.
      set (l := if a_len a =? 0 then a_args a ++ [[]] else a_args a) in *.
      assert (args (if a_len a =? 0 then set_args p (args p ++ [[]]) else p) = l) as Hl.
      { subst l. destruct (a_len a =? 0); cbn; rewrite R2; reflexivity. }
      set (p1 := if a_len a =? 0 then set_args p (args p ++ [[]]) else p) in *.
      assert (rbuf p1 = rbuf p /\ bufIndex p1 = bufIndex p /\ bufLen p1 = bufLen p /\ argsCount p1 = argsCount p /\
              argsType p1 = argsType p /\ carg p1 = carg p) as (P1 & P2 & P3 & P4 & P5 & P6).
      { subst p1. destruct (a_len a =? 0); cbn; auto 10. }
      cbn [args set_bufIndex set_cargLen set_cargIndex argsCount]. rewrite Hl, P4, R3.
      destruct (lenZ l <? a_count a) eqn:Ecnt; inv Hs.
      * exists [CH_LF], t. eexists. exists []. cbn [fst snd app].
        split; [reflexivity|]. split; [cbn [arun]; rewrite Hstep; reflexivity|]. split.
        { destruct Hb as (stale & Hb1 & Hb2 & Hb3). exists stale. cbn. rewrite P1, P2, P3, Hb1, Hb2, Hb3.
          rewrite <- app_assoc, lenZ_app, lenZ_cons. simpl. repeat split; lia. }
        split; [discriminate|]. split; [reflexivity|]. split.
        { constructor; cbn; auto; try lia; try (intros X; discriminate X); try (rewrite P5; exact R4); try (rewrite P6; exact R5). }
        split; [discriminate|]. intros X; discriminate X.
      * exists [CH_LF], t. eexists. eexists. cbn [fst snd app].
        split; [reflexivity|]. split; [cbn [arun]; rewrite Hstep; reflexivity|]. split.
        { destruct Hb as (stale & Hb1 & Hb2 & Hb3). exists stale. cbn. rewrite P1, P2, P3, Hb1, Hb2, Hb3.
          rewrite <- app_assoc, lenZ_app, lenZ_cons. simpl. repeat split; lia. }
        right. split; [reflexivity|]. split; [discriminate|]. split.
        { cbn. rewrite P5, R4, Hl. reflexivity. }
        { constructor; cbn; auto; try lia; try (intros X; discriminate X); try (rewrite P5; exact R4); try (rewrite P6; exact R5). }
    + inv Hs.
      eapply Cont_cons; [rewrite astep4_eol, Elf by assumption; reflexivity|].
      eapply (IH f (pre ++ [c]) _ _ (Some c) a' o2); [simpl in Hf; lia| | |exact Hst|exact Hph|apply PrevOk_snoc| |exact Hrun'].
      * eapply (Buf_advance p pre c t (fun q => set_bufIndex q (bufIndex q + 1))); [reflexivity..|exact Hb].
      * destruct Hr as [R1 R2 R3 R4 R5 R6 R7 R8 R9]. constructor; auto.
      * cbn. destruct Hend as [H|H]; [left; exact H|right]. cbn [has_lf existsb] in H. rewrite Elf in H. exact H.
Qed.

(* ---- stage 4: argument data, then the end-of-line scan *)
Lemma data_piece resp prev args cnt L k ty d t a' out :
  d <> [] -> 0 <= k -> k + lenZ d <= L ->
  arun resp prev (mkA 4 args [] cnt L k ty) (d ++ t) = (a', out, false) ->
  exists args', (if k =? 0 then Some (args ++ [d]) else append_last args d) = Some args' /\
                arun resp prev (mkA 4 args [] cnt L k ty) d = (mkA 4 args' [] cnt L (k + lenZ d) ty, [], false).
Proof.
  intros Hd Hk Hl Hrun. destruct (k =? 0) eqn:Ek.
  - apply Z.eqb_eq in Ek. subst k. exists (args ++ [d]). split; [reflexivity|].
    rewrite arun_data_first by (auto; lia). reflexivity.
  - apply Z.eqb_neq in Ek. destruct d as [|c d']; [congruence|].
    assert (args <> []) as Hne.
    { intro; subst args. cbn [app arun] in Hrun. unfold astep in Hrun. cbn [a_stage a_num a_args a_count a_len a_k a_type] in Hrun.
      change (4 =? 0) with false in Hrun. change ((4 =? 1) || (4 =? 3)) with false in Hrun. change (4 =? 2) with false in Hrun.
      change (4 =? 4) with true in Hrun. cbv iota in Hrun.
      rewrite lenZ_cons in Hl. pose proof (lenZ_nonneg d').
      replace (L - k >? 0) with true in Hrun by (symmetry; apply Z.gtb_lt; lia).
      replace (k =? 0) with false in Hrun by (symmetry; apply Z.eqb_neq; lia).
      cbn [append_last] in Hrun. inversion Hrun. }
    destruct (append_last_some args (c :: d') Hne) as (q & y & Eq & Hap). subst args.
    exists (q ++ [y ++ c :: d']). split; [exact Hap|].
    apply arun_data_more; lia.
Qed.

Definition Gd (vr : variant) (a : astate) (rest : bytes) : Prop := fix_cargidx vr = true \/ read_bad a rest = false.

Lemma Buf_slice p pre d t : Buf p pre (d ++ t) -> sliceZ (rbuf p) (bufIndex p) (bufIndex p + lenZ d) = Some d.
Proof.
  intros (stale & Hr & Hi & Hl). rewrite Hr, Hi, <- app_assoc. apply sliceZ_mid.
Qed.

Lemma Buf_to_end p q pre rest : Buf p pre rest -> rbuf q = rbuf p -> bufLen q = bufLen p -> bufIndex q = bufLen p ->
  Buf q (pre ++ rest) [].
Proof.
  intros (stale & Hb1 & Hb2 & Hb3) E1 E2 E3. exists stale. rewrite E1, E2, E3, Hb1, Hb3, lenZ_app, <- app_assoc. simpl.
  repeat split; lia.
Qed.

Lemma stage4_sim vr resp : forall rest pre p a prev a' out,
  Buf p pre rest -> rest <> [] -> Rel true p a -> a_stage a = 4 -> PrevOk pre prev -> Gd vr a rest ->
  arun resp prev a rest = (a', out, false) ->
  Cont resp prev a pre rest (stage4 vr p).
Proof.
  intros rest pre p a prev a' out Hb Hne Hr Hst Hp Hg Hrun.
  pose proof (fuel_of_Buf _ _ _ Hb) as Hfuel. pose proof (lenZ_nonneg rest) as Hnn.
  destruct (r_4 _ _ _ Hr Hst) as (R9a & R9b & R9c & R9d & R9e).
  unfold stage4. destruct (Z_gt_le_dec (a_len a - a_k a) 0) as [Hdata|Heol].
  - (* argument data *)
    specialize (R9d Hdata). rewrite R9a, R9d.
    replace (a_len a - a_k a >? 0) with true by (symmetry; apply Z.gtb_lt; lia).
    assert (bufLen p - bufIndex p = lenZ rest) as Hav.
    { destruct Hb as (stale & Hb1 & Hb2 & Hb3). lia. }
    rewrite Hav.
    destruct a as [ast aargs anum acnt alen ak aty]. cbn [a_stage a_num a_args a_count a_len a_k a_type] in *. subst ast anum.
    destruct (lenZ rest <? alen - ak) eqn:Elt.
    + (* the read ends inside the data *)
      apply Z.ltb_lt in Elt.
      assert (sliceZ (rbuf p) (bufIndex p) (bufLen p) = Some rest) as ->.
      { replace (bufLen p) with (bufIndex p + lenZ rest) by lia. rewrite <- (app_nil_r rest) in Hb. eapply Buf_slice; exact Hb. }
      rewrite <- (app_nil_r rest) in Hrun.
      assert (ak + lenZ rest <= alen) as Hle by lia.
      destruct (data_piece resp prev aargs acnt alen ak aty rest [] a' out Hne R9c Hle Hrun) as (args' & Hadd & Hrun1).
      unfold add_piece. rewrite R9d, (r_args _ _ _ Hr). cbn [a_args]. 
      destruct (ak =? 0) eqn:Ek.
      * inv Hadd. exists rest, []. eexists. exists []. cbn [fst snd]. rewrite app_nil_r.
        split; [reflexivity|]. split; [exact Hrun1|]. split.
        { eapply Buf_to_end; [exact Hb|reflexivity..]. }
        left. split; [cbn; rewrite (r_stage _ _ _ Hr); discriminate|]. split; [reflexivity|]. split; [reflexivity|].
        destruct Hr as [R1 R2 R3 R4 R5 R6 R7 R8 R9]. cbn in *.
        constructor; cbn; auto; try lia; try (intros [X|X]; discriminate X).
        intros _. repeat split; auto; try lia.
      * rewrite Hadd. exists rest, []. eexists. exists []. cbn [fst snd]. rewrite app_nil_r.
        split; [reflexivity|]. split; [exact Hrun1|]. split.
        { eapply Buf_to_end; [exact Hb|reflexivity..]. }
        left. split; [cbn; rewrite (r_stage _ _ _ Hr); discriminate|]. split; [reflexivity|]. split; [reflexivity|].
        destruct Hr as [R1 R2 R3 R4 R5 R6 R7 R8 R9]. cbn in *.
        constructor; cbn; auto; try lia; try (intros [X|X]; discriminate X).
        intros _. repeat split; auto; try lia.
    + (* the rest of the data is in this read *)
      apply Z.ltb_ge in Elt.
      set (need := alen - ak) in *.
      assert (rest = takeZ need rest ++ skipZ need rest) as Esplit by (symmetry; apply takeZ_skipZ).
      set (d := takeZ need rest) in *. set (t := skipZ need rest) in *.
      assert (lenZ d = need) as Hld by (apply lenZ_takeZ; lia).
      assert (d <> []) as Hdne by (intro X; rewrite X in Hld; simpl in Hld; lia).
      rewrite <- Hld. rewrite Esplit in Hb. rewrite (Buf_slice _ _ _ _ Hb).
      rewrite Esplit in Hrun.
      assert (ak + lenZ d <= alen) as Hle by lia.
      destruct (data_piece resp prev aargs acnt alen ak aty d t a' out Hdne R9c Hle Hrun) as (args' & Hadd & Hrun1).
      destruct (arun_app_inv _ _ _ _ _ _ _ Hrun) as (a1 & o1 & o2 & Hr1 & Hr2 & Hout).
      rewrite Hrun1 in Hr1. injection Hr1 as Ea1 Eo1. subst a1 o1.
      unfold add_piece. rewrite R9d, (r_args _ _ _ Hr). cbn [a_args]. unfold bytes in *.
      match goal with |- context [match ?X with Some _ => _ | None => _ end] =>
        assert (X = Some (set_args p args')) as -> end.
      { destruct (ak =? 0); [injection Hadd as Hadd; rewrite <- Hadd; reflexivity|rewrite Hadd; reflexivity]. }
      set (p1 := set_args p args').
      rewrite Esplit. eapply Cont_app; [exact Hrun1| |exact Hdne].
      match goal with |- Cont _ _ _ _ _ (scan_eol (fuel_of ?X) ?X) => set (p3 := X) end.
      assert (Buf p3 (pre ++ d) t) as Hb3.
      { destruct Hb as (stale & Hb1 & Hb2 & Hb3). exists stale. subst p3 p1. cbn. rewrite Hb1, Hb2, Hb3, !lenZ_app, <- !app_assoc.
        repeat split; lia. }
      rewrite (fuel_of_Buf _ _ _ Hb3).
      eapply scan_eol_sim; [lia|exact Hb3| |reflexivity|cbn; lia|apply PrevOk_app; exact Hdne| |exact Hr2].
      * destruct Hr as [R1 R2 R3 R4 R5 R6 R7 R8 R9]. subst p3 p1. cbn in *.
        constructor; cbn; auto; try lia; try (intros [X|X]; discriminate X).
        try (intros _; repeat split; auto; try lia; intros _ X; discriminate X).
      * subst p3 p1. cbn. destruct (fix_cargidx vr) eqn:Efix; [left; lia|].
        destruct (Z.eq_dec ak 0) as [E0|E0]; [left; lia|].
        right. destruct Hg as [Hg|Hg]; [congruence|].
        unfold read_bad in Hg. cbn [a_stage a_num a_args a_count a_len a_k a_type] in Hg.
        change (4 =? 4) with true in Hg.
        replace (0 <? ak) with true in Hg by (symmetry; apply Z.ltb_lt; lia).
        replace (ak <? alen) with true in Hg by (symmetry; apply Z.ltb_lt; lia).
        replace (alen - ak <=? lenZ rest) with true in Hg by (symmetry; apply Z.leb_le; lia).
        cbn [andb] in Hg. apply negb_false_iff in Hg. exact Hg.
  - (* only the end-of-line scan *)
    specialize (R9e Heol eq_refl).
    replace (cargLen p - cargIndex p >? 0) with false by (symmetry; rewrite Z.gtb_ltb; apply Z.ltb_ge; lia).
    rewrite Hfuel. eapply scan_eol_sim; try eassumption; [lia|apply Rel_weaken; exact Hr|left; exact R9e].
Qed.

(* ---- stages 0 and 2 and the dispatch *)
Lemma Gd_fresh vr a rest : (a_stage a = 4 -> a_k a = 0) -> Gd vr a rest.
Proof.
  intros H. right. unfold read_bad. destruct (a_stage a =? 4) eqn:E; [|reflexivity].
  apply Z.eqb_eq in E. rewrite (H E). reflexivity.
Qed.

Lemma stage_body_sim vr resp : forall rest pre p a prev a' out,
  Buf p pre rest -> rest <> [] -> Rel true p a -> PrevOk pre prev -> Gd vr a rest ->
  arun resp prev a rest = (a', out, false) ->
  Cont resp prev a pre rest (stage_body vr resp p).
Proof.
  intros rest pre p a prev a' out Hb Hne Hr Hp Hg Hrun.
  pose proof (fuel_of_Buf _ _ _ Hb) as Hfuel.
  pose proof (r_range _ _ _ Hr) as Hrange. pose proof (r_stage _ _ _ Hr) as Hst.
  unfold stage_body. rewrite Hst.
  assert (a_stage a = 0 \/ a_stage a = 1 \/ a_stage a = 2 \/ a_stage a = 3 \/ a_stage a = 4) as Hcases by lia.
  destruct Hcases as [E|[E|[E|[E|E]]]]; rewrite E.
  - (* stage 0 *)
    change (0 =? 0) with true. cbv iota.
    destruct rest as [|c t]; [congruence|]. destruct (Buf_nth _ _ _ _ Hb) as [Hn Hlt]. rewrite Hn.
    destruct (arun_cons_inv _ _ _ _ _ _ _ Hrun) as (a1 & o1 & o2 & Hs & Hrun' & Hout).
    destruct (r_02 _ _ _ Hr (or_introl E)) as [Hci Hnum].
    destruct Hr as [R1 R2 R3 R4 R5 R6 R7 R8 R9].
    unfold astep in Hs. rewrite E in Hs. change (0 =? 0) with true in Hs. cbv iota in Hs.
    destruct resp.
    + destruct (c =? CH_PLUS)%N eqn:E1.
      { apply N.eqb_eq in E1. subst c. change ((CH_PLUS =? CH_DOLLAR)%N) with false in Hs. change ((CH_PLUS =? CH_STAR)%N) with false in Hs. inv Hs. }
      destruct (c =? CH_MINUS)%N eqn:E2.
      { apply N.eqb_eq in E2. subst c. change ((CH_MINUS =? CH_DOLLAR)%N) with false in Hs. change ((CH_MINUS =? CH_STAR)%N) with false in Hs. inv Hs. }
      destruct (c =? CH_DOLLAR)%N eqn:E3.
      { inv Hs. exists [c], t. eexists. exists []. cbn [fst snd app].
        split; [reflexivity|]. split; [cbn [arun]; unfold astep; rewrite E; change (0 =? 0) with true; cbv iota; rewrite E3; reflexivity|].
        split; [eapply (Buf_advance p pre c t (fun q => set_stage (set_bufIndex (set_argsType q 3) (bufIndex q + 1)) 3)); [reflexivity..|exact Hb]|].
        split; [discriminate|]. split; [reflexivity|]. split; [|split; [discriminate|intros X; discriminate X]].
        constructor; cbn; auto; try lia; try (intros [X|X]; discriminate X); try (intros X; discriminate X).
        intros _. rewrite Hnum, Hci. simpl. split; [reflexivity|apply takeZ_0]. }
      destruct (c =? CH_STAR)%N eqn:E4; [|inv Hs].
      { inv Hs. exists [c], t. eexists. exists []. cbn [fst snd app].
        split; [reflexivity|]. split; [cbn [arun]; unfold astep; rewrite E; change (0 =? 0) with true; cbv iota; rewrite E3, E4; reflexivity|].
        split; [eapply (Buf_advance p pre c t (fun q => set_stage (set_bufIndex (set_argsType q 4) (bufIndex q + 1)) 1)); [reflexivity..|exact Hb]|].
        split; [discriminate|]. split; [reflexivity|]. split; [|split; [discriminate|intros X; discriminate X]].
        constructor; cbn; auto; try lia; try (intros [X|X]; discriminate X); try (intros X; discriminate X).
        intros _. rewrite Hnum, Hci. simpl. split; [reflexivity|apply takeZ_0]. }
    + destruct (c =? CH_STAR)%N eqn:E4; [|inv Hs].
      inv Hs. exists [c], t. eexists. exists []. cbn [fst snd app].
      split; [reflexivity|]. split; [cbn [arun]; unfold astep; rewrite E; change (0 =? 0) with true; cbv iota; rewrite E4; reflexivity|].
      split; [eapply (Buf_advance p pre c t (fun q => set_stage (set_argsType (set_bufIndex q (bufIndex q + 1)) 0) 1)); [reflexivity..|exact Hb]|].
      split; [discriminate|]. split; [reflexivity|]. split; [|split; [discriminate|intros X; discriminate X]].
      constructor; cbn; auto; try lia; try (intros [X|X]; discriminate X); try (intros X; discriminate X).
      intros _. rewrite Hnum, Hci. simpl. split; [reflexivity|apply takeZ_0].
  - change (1 =? 0) with false. change (1 =? 1) with true. cbv iota. rewrite Hfuel.
    eapply (scan_num_sim resp true); try eassumption. lia.
  - change (2 =? 0) with false. change (2 =? 1) with false. change (2 =? 2) with true. cbv iota.
    destruct rest as [|c t]; [congruence|]. destruct (Buf_nth _ _ _ _ Hb) as [Hn Hlt]. rewrite Hn.
    destruct (arun_cons_inv _ _ _ _ _ _ _ Hrun) as (a1 & o1 & o2 & Hs & Hrun' & Hout).
    destruct (r_02 _ _ _ Hr (or_intror E)) as [Hci Hnum].
    destruct Hr as [R1 R2 R3 R4 R5 R6 R7 R8 R9].
    unfold astep in Hs. rewrite E in Hs. change (2 =? 0) with false in Hs. change ((2 =? 1) || (2 =? 3)) with false in Hs.
    change (2 =? 2) with true in Hs. cbv iota in Hs.
    destruct (c =? CH_DOLLAR)%N eqn:E3; [|inv Hs].
    inv Hs. exists [c], t. eexists. exists []. cbn [fst snd app].
    split; [reflexivity|].
    split; [cbn [arun]; unfold astep; rewrite E; change (2 =? 0) with false; change ((2 =? 1) || (2 =? 3)) with false; change (2 =? 2) with true; cbv iota; rewrite E3; reflexivity|].
    split; [eapply (Buf_advance p pre c t (fun q => set_stage (set_bufIndex q (bufIndex q + 1)) 3)); [reflexivity..|exact Hb]|].
    split; [discriminate|]. split; [reflexivity|]. split; [|split; [discriminate|intros X; discriminate X]].
    constructor; cbn; auto; try lia; try (intros [X|X]; discriminate X); try (intros X; discriminate X).
    intros _. rewrite Hnum, Hci. simpl. split; [reflexivity|apply takeZ_0].
  - change (3 =? 0) with false. change (3 =? 1) with false. change (3 =? 2) with false. change (3 =? 3) with true. cbv iota. rewrite Hfuel.
    eapply (scan_num_sim resp false); try eassumption. lia.
  - change (4 =? 0) with false. change (4 =? 1) with false. change (4 =? 2) with false. change (4 =? 3) with false.
    change (4 =? 4) with true. cbv iota.
    eapply stage4_sim; eassumption.
Qed.

(* ---- ParseRequest / ParseResponse on the rest of the buffer *)
Lemma arun_det resp prev a l r1 r2 : arun resp prev a l = r1 -> arun resp prev a l = r2 -> r1 = r2.
Proof. congruence. Qed.

Lemma parse_loop_sim vr resp : forall fuel rest pre p a prev a' out,
  (length rest < fuel)%nat -> Buf p pre rest -> Rel true p a -> PrevOk pre prev -> Gd vr a rest ->
  (rest <> [] \/ stage p <> 0) ->
  arun resp prev a rest = (a', out, false) ->
  Cont resp prev a pre rest (fst (parse_loop vr fuel resp p), Some (snd (parse_loop vr fuel resp p))) /\
  snd (parse_loop vr fuel resp p) = Ok.
Proof.
  induction fuel as [|f IH]; intros rest pre p a prev a' out Hf Hb Hr Hp Hg Hne Hrun; [lia|].
  cbn [parse_loop]. destruct rest as [|c t].
  - rewrite (Buf_end _ _ Hb). cbn [fst snd]. split; [|reflexivity].
    exists [], [], a, []. cbn [fst snd]. split; [reflexivity|]. split; [reflexivity|]. split; [rewrite app_nil_r; exact Hb|].
    left. destruct Hne as [X|X]; [congruence|]. auto.
  - destruct (Buf_nth _ _ _ _ Hb) as [_ Hlt]. rewrite Hlt.
    pose proof (stage_body_sim vr resp (c :: t) pre p a prev a' out Hb ltac:(discriminate) Hr Hp Hg Hrun) as HC.
    destruct (stage_body vr resp p) as [p1 [o|]].
    + cbn [fst snd]. destruct HC as (r1 & r2 & a1 & o1 & E & Hr1 & Hb1 & Hm). cbn [fst snd] in *.
      destruct o; try contradiction. split; [|reflexivity].
      exists r1, r2, a1, o1. cbn [fst snd]. auto.
    + destruct HC as (r1 & r2 & a1 & o1 & E & Hr1 & Hb1 & Hm). cbn [fst snd] in *.
      destruct Hm as (Hr1ne & Ho1 & Hrel & Hst0 & Hk0). subst o1.
      rewrite E in Hrun. destruct (arun_app_inv _ _ _ _ _ _ _ Hrun) as (a1' & o1' & o2 & Hx & Hr2 & Hout).
      rewrite Hr1 in Hx. inversion Hx; subst a1' o1'. clear Hx.
      assert (length r2 < f)%nat as Hf2.
      { assert (length (c :: t) = length r1 + length r2)%nat as HL by (rewrite E, app_length; reflexivity).
        destruct r1; [congruence|]. simpl in *. lia. }
      assert (stage p1 <> 0) as Hs1 by (rewrite (r_stage _ _ _ Hrel); exact Hst0).
      destruct (IH r2 (pre ++ r1) p1 a1 (last_byte prev r1) a' o2 Hf2 Hb1 Hrel (PrevOk_app _ _ _ Hr1ne)
                   (Gd_fresh _ _ _ Hk0) (or_intror Hs1) Hr2) as [HC2 Hok].
      split; [|exact Hok]. rewrite E. eapply Cont_app; [exact Hr1|exact HC2|exact Hr1ne].
Qed.

(* ---- nothing ever writes rbuf except the caller's Read *)
Ltac frame_tac :=
  repeat match goal with
         | |- context [match ?x with _ => _ end] => destruct x eqn:?
         end; cbn; auto.

Lemma scan_num_rbuf : forall fuel ic p, rbuf (fst (scan_num fuel ic p)) = rbuf p.
Proof. induction fuel as [|f IH]; intros ic p; cbn [scan_num]; [reflexivity|]. frame_tac; rewrite IH; reflexivity. Qed.
Lemma scan_eol_rbuf : forall fuel p, rbuf (fst (scan_eol fuel p)) = rbuf p.
Proof. induction fuel as [|f IH]; intros p; cbn [scan_eol]; [reflexivity|]. frame_tac; rewrite IH; reflexivity. Qed.
Lemma add_msg_rbuf p s p1 : add_msg p s = Some p1 -> rbuf p1 = rbuf p.
Proof. unfold add_msg. destruct (append_at _ _ _); intros H; inversion H; reflexivity. Qed.
Lemma add_piece_rbuf p s p1 : add_piece p s = Some p1 -> rbuf p1 = rbuf p.
Proof. unfold add_piece. destruct (cargIndex p =? 0); [intros H; inversion H; reflexivity|]. destruct (append_last _ _); intros H; inversion H; reflexivity. Qed.

Lemma scan_msg_rbuf : forall fuel s e p, rbuf (fst (scan_msg fuel s e p)) = rbuf p.
Proof.
  induction fuel as [|f IH]; intros s e p; cbn [scan_msg]; [reflexivity|].
  destruct (bufIndex p <? bufLen p).
  - destruct (nthZ (rbuf p) (bufIndex p)) as [c|]; [|reflexivity].
    destruct (c =? CH_LF)%N.
    + destruct (sliceZ (rbuf p) s (e + 1)); [|reflexivity].
      destruct (add_msg p l) as [p1|] eqn:E; [|reflexivity]. apply add_msg_rbuf in E.
      destruct (cr_check_fails p1) as [[|]|]; cbn; auto.
    + destruct (negb (c =? CH_CR)%N); rewrite IH; reflexivity.
  - destruct (sliceZ (rbuf p) s (e + 1)); [|reflexivity].
    destruct (add_msg p l) as [p1|] eqn:E; [|reflexivity]. apply add_msg_rbuf in E. exact E.
Qed.
Lemma scan_etype_rbuf : forall fuel s e p, rbuf (fst (scan_etype fuel s e p)) = rbuf p.
Proof. induction fuel as [|f IH]; intros s e p; cbn [scan_etype]; [reflexivity|]. frame_tac; rewrite IH; reflexivity. Qed.
Lemma stage4_rbuf vr p : rbuf (fst (stage4 vr p)) = rbuf p.
Proof.
  unfold stage4.
  destruct (cargLen p - cargIndex p >? 0); [|apply scan_eol_rbuf].
  destruct (bufLen p - bufIndex p <? cargLen p - cargIndex p).
  - destruct (sliceZ _ _ _); [|reflexivity]. destruct (add_piece p l) as [p1|] eqn:E; [|reflexivity].
    apply add_piece_rbuf in E. exact E.
  - destruct (sliceZ _ _ _); [|reflexivity]. destruct (add_piece p l) as [p1|] eqn:E; [|reflexivity].
    apply add_piece_rbuf in E. rewrite scan_eol_rbuf. exact E.
Qed.
Lemma stage_body_rbuf vr resp p : rbuf (fst (stage_body vr resp p)) = rbuf p.
Proof.
  unfold stage_body.
  destruct (stage p =? 0).
  { destruct (nthZ (rbuf p) (bufIndex p)) as [c|]; [|reflexivity].
    destruct resp; repeat (match goal with |- context [if ?x then _ else _] => destruct x end); reflexivity. }
  destruct (stage p =? 1); [apply scan_num_rbuf|].
  destruct (stage p =? 2).
  { destruct (nthZ (rbuf p) (bufIndex p)) as [c|]; [|reflexivity]. destruct (c =? CH_DOLLAR)%N; reflexivity. }
  destruct (stage p =? 3); [apply scan_num_rbuf|].
  destruct (stage p =? 4); [apply stage4_rbuf|].
  destruct (resp && (stage p =? 5)); [apply scan_msg_rbuf|].
  destruct (resp && (stage p =? 6)); [apply scan_etype_rbuf|].
  reflexivity.
Qed.
Lemma parse_loop_rbuf vr resp : forall fuel p, rbuf (fst (parse_loop vr fuel resp p)) = rbuf p.
Proof.
  induction fuel as [|f IH]; intros p; cbn [parse_loop]; [reflexivity|].
  destruct (bufIndex p <? bufLen p); [|reflexivity].
  pose proof (stage_body_rbuf vr resp p) as H. destruct (stage_body vr resp p) as [p1 [o|]]; cbn [fst] in *; [exact H|].
  rewrite IH. exact H.
Qed.

(* ---- the caller's loop on one read, one read, all reads *)
Lemma Buf_index_end p pre : Buf p pre [] -> (bufIndex p =? bufLen p) = true.
Proof. intros (stale & _ & Hi & Hl). rewrite Hi, Hl. simpl. apply Z.eqb_eq. lia. Qed.

Lemma Buf_index_notend p pre c t : Buf p pre (c :: t) -> (bufIndex p =? bufLen p) = false.
Proof. intros (stale & _ & Hi & Hl). rewrite Hi, Hl, lenZ_cons. pose proof (lenZ_nonneg t). apply Z.eqb_neq. lia. Qed.

Lemma drain_sim vr resp : forall fuel rest pre p a prev a' out acc,
  (length rest < fuel)%nat -> Buf p pre rest -> rest <> [] -> Rel true p a -> PrevOk pre prev -> Gd vr a rest ->
  arun resp prev a rest = (a', out, false) ->
  exists p', drain vr fuel resp p acc = (p', acc ++ out, Ok) /\ Rel true p' a' /\ Buf p' (pre ++ rest) [] /\ rbuf p' = rbuf p.
Proof.
  induction fuel as [|f IH]; intros rest pre p a prev a' out acc Hf Hb Hne Hr Hp Hg Hrun; [lia|].
  cbn [drain]. unfold parse. rewrite (fuel_of_Buf _ _ _ Hb).
  destruct (parse_loop_sim vr resp (S (S (length rest))) rest pre p a prev a' out ltac:(lia) Hb Hr Hp Hg (or_introl Hne) Hrun) as [HC Hok].
  pose proof (parse_loop_rbuf vr resp (S (S (length rest))) p) as Hrb.
  destruct (parse_loop vr (S (S (length rest))) resp p) as [p1 o]. cbn [fst snd] in *. subst o.
  destruct HC as (r1 & r2 & a1 & o1 & E & Hr1 & Hb1 & Hm). cbn [fst snd] in Hb1, Hm.
  destruct Hm as [(Hs & Hr2 & Ho & Hrel)|(Hs & Hr1ne & Ho & Hrel)].
  - subst r2 o1. rewrite app_nil_r in E. subst r1. rewrite Hr1 in Hrun. inversion Hrun; subst a1 out.
    replace (stage p1 =? 0) with false by (symmetry; apply Z.eqb_neq; exact Hs).
    rewrite (Buf_index_end _ _ Hb1). exists p1. rewrite app_nil_r. auto.
  - rewrite Hs. change (0 =? 0) with true. cbv iota.
    rewrite E in Hrun. destruct (arun_app_inv _ _ _ _ _ _ _ Hrun) as (a1' & o1' & o2 & Hx & Hrun2 & Hout).
    rewrite Hr1 in Hx. inversion Hx; subst a1' o1'. clear Hx.
    assert (Buf (reset p1) (pre ++ r1) r2) as Hb2 by (destruct Hb1 as (st & ? & ? & ?); exists st; cbn; auto).
    destruct r2 as [|c t].
    + rewrite (Buf_index_end _ _ Hb2). cbn [arun] in Hrun2. inversion Hrun2; subst a' o2.
      exists (reset p1). subst o1 out. rewrite !app_nil_r in *. split; [reflexivity|]. split; [exact Hrel|]. split; [subst rest; exact Hb2|].
      cbn. exact Hrb.
    + rewrite (Buf_index_notend _ _ _ _ Hb2).
      assert (length (c :: t) < f)%nat as Hf2.
      { assert (length rest = length r1 + length (c :: t))%nat as HL by (rewrite E, app_length; reflexivity).
        destruct r1; [congruence|]. simpl in *. lia. }
      assert (Gd vr a1 (c :: t)) as Hg2.
      { apply Gd_fresh. intros X. pose proof (r_stage _ _ _ Hrel) as Y. cbn in Y. rewrite Hs in Y. lia. }
      destruct (IH (c :: t) (pre ++ r1) (reset p1) a1 (last_byte prev r1) a' o2 (acc ++ [(argsType p1, args p1)])
                   Hf2 Hb2 ltac:(discriminate) Hrel (PrevOk_app _ _ _ Hr1ne) Hg2 Hrun2) as (p' & Hd & Hrel' & Hb' & Hrb').
      exists p'. rewrite Hd. subst o1 out. rewrite <- !app_assoc. split; [reflexivity|]. split; [exact Hrel'|].
      split; [rewrite E, app_assoc; exact Hb'|]. rewrite Hrb'. cbn. exact Hrb.
Qed.

Lemma lenZ_copyZ {A} (dst src : list A) : lenZ (copyZ dst src) = lenZ dst.
Proof. revert src. induction dst as [|d dst IH]; intros [|s src]; simpl; auto. rewrite IH. reflexivity. Qed.

Lemma feed_sim vr resp p a prev chunk a' out :
  chunk <> [] -> lenZ chunk <= lenZ (rbuf p) -> Rel true p a -> Gd vr a chunk ->
  arun resp prev a chunk = (a', out, false) ->
  exists p', feed vr resp p chunk = (p', out, Ok) /\ Rel true p' a' /\ lenZ (rbuf p') = lenZ (rbuf p) /\ bufIndex p' = bufLen p'.
Proof.
  intros Hne Hcap Hr Hg Hrun. unfold feed.
  assert (Buf (load p chunk) [] chunk) as Hb.
  { exists (skipZ (lenZ chunk) (rbuf p)). unfold load. cbn. rewrite copyZ_app by assumption. auto. }
  assert (Rel true (load p chunk) a) as Hr' by (destruct Hr; constructor; cbn; auto).
  destruct (drain_sim vr resp (S (Z.to_nat (lenZ chunk))) chunk [] (load p chunk) a prev a' out []
              ltac:(rewrite lenZ_length, Nat2Z.id; lia) Hb Hne Hr' (or_introl eq_refl) Hg Hrun) as (p' & Hd & Hrel & Hb' & Hrb).
  exists p'. rewrite Hd. cbn [app]. split; [reflexivity|]. split; [exact Hrel|]. split.
  - rewrite Hrb. unfold load. cbn. apply lenZ_copyZ.
  - apply Z.eqb_eq. eapply Buf_index_end; exact Hb'.
Qed.

Lemma feed_all_sim vr resp : forall chunks p a prev a' out acc,
  Forall (fun c => c <> [] /\ lenZ c <= lenZ (rbuf p)) chunks -> Rel true p a ->
  (fix_cargidx vr = true \/ good_reads resp prev a chunks = true) ->
  arun resp prev a (concat chunks) = (a', out, false) ->
  exists p', feed_all vr resp p chunks acc = (p', acc ++ out, Ok) /\ Rel true p' a' /\ (chunks <> [] -> bufIndex p' = bufLen p').
Proof.
  induction chunks as [|c cs IH]; intros p a prev a' out acc Hall Hr Hg Hrun.
  - cbn in *. inversion Hrun; subst. exists p. rewrite app_nil_r. split; [reflexivity|]. split; [exact Hr|congruence].
  - inversion Hall as [|? ? [Hcne Hcap] Hall']; subst. cbn [concat] in Hrun.
    destruct (arun_app_inv _ _ _ _ _ _ _ Hrun) as (a1 & o1 & o2 & Hr1 & Hr2 & Hout).
    assert (Gd vr a c) as Hgc.
    { destruct Hg as [Hg|Hg]; [left; exact Hg|right]. cbn [good_reads] in Hg. apply andb_true_iff in Hg. destruct Hg as [Hg _].
      apply negb_true_iff in Hg. exact Hg. }
    destruct (feed_sim vr resp p a prev c a1 o1 Hcne Hcap Hr Hgc Hr1) as (p1 & Hf & Hrel1 & Hcap1 & Hend1).
    cbn [feed_all]. rewrite Hf.
    assert (fix_cargidx vr = true \/ good_reads resp (last_byte prev c) a1 cs = true) as Hg'.
    { destruct Hg as [Hg|Hg]; [left; exact Hg|right]. cbn [good_reads] in Hg. apply andb_true_iff in Hg. destruct Hg as [_ Hg].
      rewrite Hr1 in Hg. exact Hg. }
    assert (Forall (fun c0 => c0 <> [] /\ lenZ c0 <= lenZ (rbuf p1)) cs) as Hall1.
    { eapply Forall_impl; [|exact Hall']. intros x [? ?]. rewrite Hcap1. auto. }
    destruct (IH p1 a1 (last_byte prev c) a' o2 (acc ++ o1) Hall1 Hrel1 Hg' Hr2) as (p' & Hfa & Hrel' & Hend').
    exists p'. rewrite Hfa. subst out. rewrite app_assoc. split; [reflexivity|]. split; [exact Hrel'|].
    intros _. destruct cs as [|c2 cs2]; [|apply Hend'; discriminate].
    cbn [feed_all] in Hfa. inversion Hfa; subst p'. exact Hend1.
Qed.

(* ------------------------------------------------------------------ the theorems *)
Lemma lenZ_repeat {A} (x : A) n : lenZ (repeat x n) = Z.of_nat n.
Proof. induction n; [reflexivity|]. cbn [repeat]. rewrite lenZ_cons, IHn. lia. Qed.

Lemma Rel_init cap ty : Rel true (set_argsType (new_parser cap) ty) (a_idle ty).
Proof.
  constructor; cbn; auto; try lia; try (intros [X|X]; discriminate X); try (intros X; discriminate X).
Qed.

Definition reads_ok (cap : Z) (chunks : list bytes) : Prop := Forall (fun c => c <> [] /\ lenZ c <= cap) chunks.

Lemma reads_ok_new cap chunks : 0 <= cap -> reads_ok cap chunks ->
  Forall (fun c => c <> [] /\ lenZ c <= lenZ (rbuf (new_parser cap))) chunks.
Proof.
  intros Hc H. eapply Forall_impl; [|exact H]. intros x [? ?]. split; [assumption|].
  unfold new_parser. cbn [rbuf]. rewrite lenZ_repeat, Z2Nat.id by assumption. assumption.
Qed.

(* Chunking independence and round trip in one statement, ParseRequest over BuildRequest.
   `vr` is the source variant; for the shipped source the hypothesis is good_chunking. *)
Theorem request_chunking_roundtrip vr cap args chunks :
  args <> [] -> lenZ args < 2 ^ 63 -> Forall small args ->
  concat chunks = build_request args -> 0 <= cap -> reads_ok cap chunks ->
  (fix_cargidx vr = true \/ good_chunking false chunks = true) ->
  exists p', feed_all vr false (new_parser cap) chunks [] = (p', [(0, args)], Ok)
             /\ stage p' = 0 /\ TextParse.args p' = [] /\ bufIndex p' = bufLen p'.
Proof.
  intros Hne Hl Hs Hcat Hcap Hreads Hg.
  pose proof (spec_request_roundtrip None 0 args Hne Hl Hs) as Hspec. rewrite <- Hcat in Hspec.
  destruct (feed_all_sim vr false chunks (new_parser cap) (a_idle 0) None (a_idle 0) [(0, args)] []
              (reads_ok_new _ _ Hcap Hreads) (Rel_init cap 0) Hg Hspec) as (p' & Hf & Hrel & Hend).
  exists p'. split; [exact Hf|]. split; [exact (r_stage _ _ _ Hrel)|]. split; [exact (r_args _ _ _ Hrel)|].
  apply Hend. intro X. subst chunks. cbn in Hcat. unfold build_request in Hcat. discriminate Hcat.
Qed.

Theorem response_bulk_chunking_roundtrip vr cap x chunks :
  small x -> concat chunks = build_response true [] [x] -> 0 <= cap -> reads_ok cap chunks ->
  (fix_cargidx vr = true \/ good_chunking true chunks = true) ->
  exists p', feed_all vr true (new_parser cap) chunks [] = (p', [(3, [x])], Ok) /\ stage p' = 0 /\ TextParse.args p' = [].
Proof.
  intros Hs Hcat Hcap Hreads Hg.
  pose proof (spec_response_bulk_roundtrip None 0 x Hs) as Hspec. rewrite <- Hcat in Hspec.
  destruct (feed_all_sim vr true chunks (new_parser cap) (a_idle 0) None (a_idle 3) [(3, [x])] []
              (reads_ok_new _ _ Hcap Hreads) (Rel_init cap 0) Hg Hspec) as (p' & Hf & Hrel & Hend).
  exists p'. split; [exact Hf|]. split; [exact (r_stage _ _ _ Hrel)|exact (r_args _ _ _ Hrel)].
Qed.

Theorem response_array_chunking_roundtrip vr cap msg x y rest chunks :
  lenZ (x :: y :: rest) < 2 ^ 63 -> Forall small (x :: y :: rest) ->
  concat chunks = build_response true msg (x :: y :: rest) -> 0 <= cap -> reads_ok cap chunks ->
  (fix_cargidx vr = true \/ good_chunking true chunks = true) ->
  exists p', feed_all vr true (new_parser cap) chunks [] = (p', [(4, x :: y :: rest)], Ok) /\ stage p' = 0 /\ TextParse.args p' = [].
Proof.
  intros Hl Hs Hcat Hcap Hreads Hg.
  pose proof (spec_response_array_roundtrip None 0 msg x y rest Hl Hs) as Hspec. rewrite <- Hcat in Hspec.
  destruct (feed_all_sim vr true chunks (new_parser cap) (a_idle 0) None (a_idle 4) [(4, x :: y :: rest)] []
              (reads_ok_new _ _ Hcap Hreads) (Rel_init cap 0) Hg Hspec) as (p' & Hf & Hrel & Hend).
  exists p'. split; [exact Hf|]. split; [exact (r_stage _ _ _ Hrel)|exact (r_args _ _ _ Hrel)].
Qed.
