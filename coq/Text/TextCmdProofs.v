(* Text LOCK/UNLOCK layer: COUNT/RCOUNT conventions, flags in the high 16 bits, rendering, and the two index defects. *)
From Coq Require Import List NArith ZArith Bool Lia ZifyN ZifyBool ZifyNat.
From Slock Require Import Text.TextParse Text.ListZ Text.KeyNorm Text.TextCmd.
Import ListNotations.
Open Scope Z_scope.
Ltac Zify.zify_post_hook ::= Z.div_mod_to_equations.

(* COUNT n (n >= 1) is stored as n-1 and rendered as stored+1: a text client sees its own number back *)
Theorem count_roundtrip n : 1 <= n <= 65535 ->
  ((u16 (Z.of_N (u16 n) - 1) + 1) mod 65536)%N = Z.to_N n.
Proof. intros H. unfold u16. lia. Qed.

Theorem rcount_roundtrip n : 1 <= n <= 255 ->
  ((u8 (Z.of_N (u8 n) - 1) + 1) mod 256)%N = Z.to_N n.
Proof. intros H. unfold u8. lia. Qed.

(* TIMEOUT / EXPRIED: low 16 bits are the value, bits 16..31 the flag word *)
Theorem timeout_split t : 0 <= t < 2 ^ 32 ->
  Z.land t 65535 = t mod 65536 /\ Z.land (Z.shiftr t 16) 65535 = t / 65536.
Proof.
  intros H. change 65535 with (Z.ones 16). rewrite !Z.land_ones by lia. rewrite Z.shiftr_div_pow2 by lia.
  change (2 ^ 16) with 65536. split; [reflexivity|]. apply Z.mod_small. lia.
Qed.

(* ---- field mapping of a plain LOCK / UNLOCK (no options): defaults of the code *)
Section Conv.
  Variable md5 : bytes -> bytes.
  Theorem convert_lock_plain dbid key :
    convert_lock md5 dbid [s_LOCK; key] = COk (mkCmd 1 0 dbid IdRequest (arg2id md5 key) 0 15 0 120 0 0 DNone) /\
    convert_lock md5 dbid [s_UNLOCK; key] = COk (mkCmd 2 0 dbid IdConn (arg2id md5 key) 0 15 0 120 0 0 DNone).
  Proof. split; reflexivity. Qed.

  Theorem convert_lock_count dbid key n v : atoi v = Some n -> 1 <= n <= 65535 ->
    convert_lock md5 dbid [s_LOCK; key; s_COUNT; v] =
    COk (mkCmd 1 0 dbid IdRequest (arg2id md5 key) 0 15 0 120 (Z.to_N (n - 1)) 0 DNone).
  Proof.
    intros Ha Hn. unfold convert_lock. cbn [lenZ]. cbv beta iota. 
    change (Z.succ (Z.succ (Z.succ (Z.succ 0))) <? 2) with false. cbn [orb negb].
    change (Z.succ (Z.succ (Z.succ (Z.succ 0))) mod 2 =? 0) with true. cbn [negb].
    cbn [conv_loop]. change (kw_eq s_COUNT s_LOCK_ID) with false. change (kw_eq s_COUNT s_FLAG) with false.
    change (kw_eq s_COUNT s_TIMEOUT) with false. change (kw_eq s_COUNT s_EXPRIED) with false.
    change (kw_eq s_COUNT s_COUNT) with true. cbv iota. rewrite Ha.
    replace (n >? 0) with true by (symmetry; apply Z.gtb_lt; lia).
    unfold finish_id, init_cmd, set_Count, set_LockId. change (kw_eq s_LOCK s_UNLOCK) with false. change (kw_eq s_LOCK s_LOCK) with true.
    cbv iota. cbn. replace (u16 (Z.of_N (u16 n) - 1)) with (Z.to_N (n - 1)) by (unfold u16; lia). reflexivity.
  Qed.
End Conv.

(* ---- ConvertArgs2Flag: the shipped bound test `i+i` lets args[i+1] run out of range; `i+1` does not *)
Theorem args2flag_shipped_panics : exists args c, args2flag false (length args) args 0 c = CPanic.
Proof. exists [s_EX], (mkCmd 1 34 0 IdConn [] 0 0 0 0 0 0 DNone). vm_compute. reflexivity. Qed.

Lemma nthZ_some {A} (l : list A) : forall i, 0 <= i < lenZ l -> exists x, nthZ l i = Some x.
Proof.
  induction l as [|a l IH]; intros i H; simpl in *; [lia|].
  destruct (i =? 0) eqn:E; [eauto|]. apply Z.eqb_neq in E.
  destruct (i <? 0) eqn:E2; [apply Z.ltb_lt in E2; lia|]. apply IH. lia.
Qed.

Theorem args2flag_fixed_no_panic : forall fuel args i c, 0 <= i -> args2flag true fuel args i c <> CPanic.
Proof.
  induction fuel as [|f IH]; intros args i c Hi; cbn [args2flag]; [discriminate|].
  destruct (i <? lenZ args) eqn:Elt; [|discriminate]. apply Z.ltb_lt in Elt.
  destruct (nthZ_some args i ltac:(lia)) as [k ->].
  destruct (i + 1 >=? lenZ args) eqn:Eb.
  - repeat (match goal with |- context [if ?x then _ else _] => destruct x end; try discriminate; try (apply IH; lia)).
  - rewrite Z.geb_leb in Eb. apply Z.leb_gt in Eb.
    destruct (nthZ_some args (i + 1) ltac:(lia)) as [v ->].
    repeat (match goal with
            | |- context [match atoi ?x with _ => _ end] => destruct (atoi x)
            | |- context [if ?x then _ else _] => destruct x
            end; try discriminate; try (apply IH; lia)).
Qed.

(* ---- rendering *)
Definition shipped_msgs : list bytes := repeat [79;75]%N 12.     (* any table of twelve entries *)

Theorem render_shipped_code12_panics r : r_Result r = 12%N -> render shipped_msgs r = RPanic.
Proof. intros H. unfold render. rewrite H. reflexivity. Qed.

Theorem render_no_panic msgs r : Z.of_N (r_Result r) < lenZ msgs -> N.land (r_Flag r) 32 = 0%N ->
  exists b, render msgs r = RBytes b.
Proof.
  intros H Hf. unfold render. rewrite Hf. destruct (nthZ_some msgs (Z.of_N (r_Result r)) ltac:(lia)) as [m ->].
  cbn [N.eqb negb]. eexists. reflexivity.
Qed.

(* what a text client receives for a result without data is exactly the array form of BuildResponse over the twelve
   field strings -- so by response_array_chunking_roundtrip it parses back to these strings *)
Theorem render_is_array msgs r msg :
  nthZ msgs (Z.of_N (r_Result r)) = Some msg -> N.land (r_Flag r) 32 = 0%N -> lenZ (hex_encode (r_LockId r)) = 32 ->
  render msgs r = RBytes (build_response true [] (result_fields msg r)).
Proof.
  intros Hm Hf Hl. unfold render. rewrite Hm, Hf. cbn [N.eqb negb]. f_equal.
  unfold build_response, result_fields. cbn [negb map concat lenZ]. unfold bulk, hdr, lenN. rewrite Hl.
  change (dec (Z.to_N (Z.succ (Z.succ (Z.succ (Z.succ (Z.succ (Z.succ (Z.succ (Z.succ (Z.succ (Z.succ (Z.succ (Z.succ 0)))))))))))))) with [49;50]%N.
  change (dec (Z.to_N 32)) with [51;50]%N.
  repeat (rewrite <- ?app_assoc; cbn [app]). reflexivity.
Qed.
