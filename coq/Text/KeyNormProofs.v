(* Key / lock-id normalisation: always 16 bytes; <16 left-padded with zeros; =16 verbatim; 32 hex digits decoded;
   everything else MD5 (Section variable; only `length (md5 x) = 16` is used). *)
From Coq Require Import List NArith ZArith Bool Lia ZifyN ZifyBool ZifyNat.
From Slock Require Import Text.TextParse Text.ListZ Text.KeyNorm.
Import ListNotations.
Open Scope Z_scope.

Lemma hex_decode_len : forall n l v, (length l <= n)%nat -> hex_decode l = Some v -> lenZ l = 2 * lenZ v.
Proof.
  induction n as [|n IH]; intros l v Hn H.
  - destruct l; [|simpl in Hn; lia]. simpl in H. inversion H. reflexivity.
  - destruct l as [|a [|b r]]; simpl in H.
    + inversion H. reflexivity.
    + discriminate.
    + destruct (hexval a), (hexval b); try discriminate.
      destruct (hex_decode r) as [t|] eqn:E; [|discriminate]. inversion H; subst.
      rewrite !lenZ_cons. rewrite (IH r t); [lia| |exact E]. simpl in Hn. lia.
Qed.

Section MD5.
  Variable md5 : bytes -> bytes.
  Hypothesis md5_len : forall x, length (md5 x) = 16%nat.

  Lemma md5_lenZ x : lenZ (md5 x) = 16.
  Proof. rewrite lenZ_length, md5_len. reflexivity. Qed.

  Theorem arg2id_length s : lenZ (arg2id md5 s) = 16.
  Proof.
    unfold arg2id. destruct (lenZ s =? 16) eqn:E16; [apply Z.eqb_eq in E16; exact E16|].
    destruct (lenZ s >? 16) eqn:Eg.
    - destruct (lenZ s =? 32) eqn:E32; [|apply md5_lenZ].
      destruct (hex_decode s) as [v|] eqn:Eh; [|apply md5_lenZ].
      apply Z.eqb_eq in E32. pose proof (hex_decode_len (length s) s v (le_n _) Eh). lia.
    - rewrite lenZ_app, lenZ_repeat_N. apply Z.eqb_neq in E16. rewrite Z.gtb_ltb in Eg. apply Z.ltb_ge in Eg. lia.
  Qed.

  Theorem arg2id_short s : lenZ s < 16 -> arg2id md5 s = repeat 0%N (Z.to_nat (16 - lenZ s)) ++ s.
  Proof.
    intros H. unfold arg2id. replace (lenZ s =? 16) with false by (symmetry; apply Z.eqb_neq; lia).
    replace (lenZ s >? 16) with false by (symmetry; rewrite Z.gtb_ltb; apply Z.ltb_ge; lia). reflexivity.
  Qed.

  Theorem arg2id_verbatim s : lenZ s = 16 -> arg2id md5 s = s.
  Proof. intros H. unfold arg2id. rewrite H. reflexivity. Qed.

  Theorem arg2id_hex s v : lenZ s = 32 -> hex_decode s = Some v -> arg2id md5 s = v.
  Proof. intros H E. unfold arg2id. rewrite H, E. reflexivity. Qed.

  Theorem arg2id_md5 s : lenZ s > 16 -> (lenZ s <> 32 \/ hex_decode s = None) -> arg2id md5 s = md5 s.
  Proof.
    intros H Hc. unfold arg2id. replace (lenZ s =? 16) with false by (symmetry; apply Z.eqb_neq; lia).
    replace (lenZ s >? 16) with true by (symmetry; apply Z.gtb_lt; lia).
    destruct (lenZ s =? 32) eqn:E; [|reflexivity]. destruct Hc as [Hc|Hc]; [apply Z.eqb_eq in E; lia|]. rewrite Hc. reflexivity.
  Qed.
End MD5.
