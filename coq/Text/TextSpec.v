(* Byte-level specification automaton of the RESP framing that TextParser implements (stages 0-4: requests and
   the bulk / array forms of responses).  It consumes ONE byte at a time, so its result depends on the byte stream
   only -- never on how the stream was cut into reads.  Status / error lines (stages 5, 6) are outside this
   automaton (they are refuted separately).

   a_num = carg[:cargIndex] (the decimal being read), a_len/a_k = announced / consumed length of the current
   argument.  A finished command is emitted and the state returns to idle (args = [], count = 0), exactly what the
   caller does with IsParseFinish / GetArgs / Reset. *)
From Coq Require Import List NArith ZArith Bool Lia.
From Slock Require Import Text.TextParse.
Import ListNotations.
Open Scope Z_scope.

Record astate := mkA {
  a_stage : Z; a_args : list bytes; a_num : bytes; a_count : Z; a_len : Z; a_k : Z; a_type : Z }.

Definition a_init : astate := mkA 0 [] [] 0 0 0 0.

Definition prev_is_cr (prev : option N) : bool := match prev with Some q => (q =? CH_CR)%N | None => false end.

(* result of one byte: new state, emitted commands, error flag *)
Definition astep (resp : bool) (prev : option N) (a : astate) (c : N) : astate * list cmd * bool :=
  let st := a_stage a in
  if st =? 0 then
    if resp then
      if (c =? CH_DOLLAR)%N then (mkA 3 (a_args a) (a_num a) (a_count a) (a_len a) (a_k a) 3, [], false)
      else if (c =? CH_STAR)%N then (mkA 1 (a_args a) (a_num a) (a_count a) (a_len a) (a_k a) 4, [], false)
      else (a, [], true)
    else
      if (c =? CH_STAR)%N then (mkA 1 (a_args a) (a_num a) (a_count a) (a_len a) (a_k a) 0, [], false)
      else (a, [], true)
  else if (st =? 1) || (st =? 3) then
    if (c =? CH_LF)%N then
      if prev_is_cr prev then
        match atoi (a_num a) with
        | None => (a, [], true)
        | Some v =>
          if st =? 1 then (mkA 2 (a_args a) [] v (a_len a) (a_k a) (a_type a), [], false)
          else (mkA 4 (a_args a) [] (a_count a) v 0 (a_type a), [], false)
        end
      else (a, [], true)
    else if (c =? CH_CR)%N then (a, [], false)
    else if lenZ (a_num a) >=? MAX_CARG_LEN then (a, [], true)
    else (mkA st (a_args a) (a_num a ++ [c]) (a_count a) (a_len a) (a_k a) (a_type a), [], false)
  else if st =? 2 then
    if (c =? CH_DOLLAR)%N then (mkA 3 (a_args a) (a_num a) (a_count a) (a_len a) (a_k a) (a_type a), [], false)
    else (a, [], true)
  else if st =? 4 then
    if a_len a - a_k a >? 0 then
      (* argument data *)
      if a_k a =? 0 then (mkA 4 (a_args a ++ [[c]]) [] (a_count a) (a_len a) 1 (a_type a), [], false)
      else match append_last (a_args a) [c] with
           | None => (a, [], true)
           | Some l => (mkA 4 l [] (a_count a) (a_len a) (a_k a + 1) (a_type a), [], false)
           end
    else
      (* looking for the LF that ends the argument *)
      if (c =? CH_LF)%N then
        if prev_is_cr prev then
          let l := if a_len a =? 0 then a_args a ++ [[]] else a_args a in
          if lenZ l <? a_count a then (mkA 2 l [] (a_count a) 0 0 (a_type a), [], false)
          else (mkA 0 [] [] 0 0 0 (a_type a), [(a_type a, l)], false)
        else (a, [], true)
      else (a, [], false)
  else (a, [], true).

Fixpoint arun (resp : bool) (prev : option N) (a : astate) (l : bytes) : astate * list cmd * bool :=
  match l with
  | [] => (a, [], false)
  | c :: r =>
    match astep resp prev a c with
    | (a1, out1, true) => (a1, out1, true)
    | (a1, out1, false) =>
      match arun resp (Some c) a1 r with
      | (a2, out2, e) => (a2, out1 ++ out2, e)
      end
    end
  end.

Definition last_byte (prev : option N) (l : bytes) : option N :=
  match l with [] => prev | _ => Some (last l 0%N) end.

(* ---- the reads on which the shipped parser goes wrong: a read that starts strictly inside an argument's data
        (0 < k < len), delivers the rest of that data, but not the LF that terminates the argument *)
Definition has_lf (l : bytes) : bool := existsb (fun c => (c =? CH_LF)%N) l.

Definition read_bad (a : astate) (chunk : bytes) : bool :=
  (a_stage a =? 4) && (0 <? a_k a) && (a_k a <? a_len a) && (a_len a - a_k a <=? lenZ chunk)
  && negb (has_lf (skipZ (a_len a - a_k a) chunk)).

(* all reads of a chunking are harmless, judged on the specification automaton's states at the cut points *)
Fixpoint good_reads (resp : bool) (prev : option N) (a : astate) (chunks : list bytes) : bool :=
  match chunks with
  | [] => true
  | c :: cs =>
    negb (read_bad a c) &&
    match arun resp prev a c with
    | (a1, _, _) => good_reads resp (last_byte prev c) a1 cs
    end
  end.

Definition good_chunking (resp : bool) (chunks : list bytes) : bool := good_reads resp None a_init chunks.
