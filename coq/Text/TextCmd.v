(* Text LOCK / UNLOCK  ->  binary LockCommand fields, and the text rendering of a LockResultCommand.
     protocol/textcommand.go:109-206  ConvertArgs2Flag                 (args2flag; bound test is a run parameter)
     protocol/textcommand.go:224-364  ConvertTextLockAndUnLockCommand  (convert_lock)
     protocol/textcommand.go:366-436  WriteTextLockAndUnLockCommandResult (render)
     protocol/textcommand.go:466-498  ConvertTextSetCommand            (convert_set; the caller of ConvertArgs2Flag)
   Own record `lockcmd`, field names as in protocol.LockCommand.  RequestId / GenLockId / the connection's
   lock id are symbolic (`idsrc`).  Slice indexing is checked: `CPanic`. *)
From Coq Require Import List NArith ZArith Bool Lia.
From Slock Require Import Text.TextParse Text.KeyNorm.
Import ListNotations.
Open Scope Z_scope.

(* ---------------------------------------------------------------- strings.ToUpper(s) == KEYWORD
   For ASCII input ToUpper maps a-z to A-Z.  Two non-ASCII runes upper-case to ASCII letters:
   U+0131 (C4 B1) -> 'I' and U+017F (C5 BF) -> 'S'; every other non-ASCII rune (and invalid UTF-8, mapped to
   U+FFFD) stays non-ASCII, so the comparison with an ASCII keyword fails. *)
Definition up (c : N) : N := if (97 <=? c)%N && (c <=? 122)%N then (c - 32)%N else c.

Fixpoint kw_eq (s kw : bytes) : bool :=
  match s, kw with
  | [], [] => true
  | 196%N :: 177%N :: s', 73%N :: kw' => kw_eq s' kw'
  | 197%N :: 191%N :: s', 83%N :: kw' => kw_eq s' kw'
  | c :: s', k :: kw' => (c <? 128)%N && (up c =? k)%N && kw_eq s' kw'
  | _, _ => false
  end.

(* ASCII literals *)
Definition s_LOCK : bytes := [76;79;67;75]%N.
Definition s_UNLOCK : bytes := [85;78;76;79;67;75]%N.
Definition s_PUSH : bytes := [80;85;83;72]%N.
Definition s_LOCK_ID : bytes := [76;79;67;75;95;73;68]%N.
Definition s_FLAG : bytes := [70;76;65;71]%N.
Definition s_TIMEOUT : bytes := [84;73;77;69;79;85;84]%N.
Definition s_EXPRIED : bytes := [69;88;80;82;73;69;68]%N.
Definition s_COUNT : bytes := [67;79;85;78;84]%N.
Definition s_RCOUNT : bytes := [82;67;79;85;78;84]%N.
Definition s_LCOUNT : bytes := [76;67;79;85;78;84]%N.
Definition s_LRCOUNT : bytes := [76;82;67;79;85;78;84]%N.
Definition s_WILL : bytes := [87;73;76;76]%N.
Definition s_SET : bytes := [83;69;84]%N.
Definition s_UNSET : bytes := [85;78;83;69;84]%N.
Definition s_INCR : bytes := [73;78;67;82]%N.
Definition s_APPEND : bytes := [65;80;80;69;78;68]%N.
Definition s_SHIFT : bytes := [83;72;73;70;84]%N.
Definition s_EXECUTE : bytes := [69;88;69;67;85;84;69]%N.
Definition s_POP : bytes := [80;79;80]%N.
Definition s_DATA : bytes := [68;65;84;65]%N.
Definition s_EX : bytes := [69;88]%N.
Definition s_PX : bytes := [80;88]%N.
Definition s_TX : bytes := [84;88]%N.
Definition s_PTX : bytes := [80;84;88]%N.
Definition s_NX : bytes := [78;88]%N.
Definition s_XX : bytes := [88;88]%N.
Definition s_ACK : bytes := [65;67;75]%N.
Definition s_NAOF : bytes := [78;65;79;70]%N.

(* error texts (compared with the Go error strings by the correspondence check) *)
Inductive cerr := EArgsCount | EFlag | ETimeout | EExpried | ECount | ERcount | EWill | EIncr | EShift
                | EEXValue | EPXValue | ETXValue.

(* ---------------------------------------------------------------- records *)
Inductive idsrc := IdBytes (b : bytes) | IdRequest | IdConn | IdGen.

Inductive cdataF (C : Type) : Type :=
| DNone
| DRaw (stage ctype flag : N) (frame : bytes)
| DExec (stage flag datalen : N) (inner : C).
Arguments DNone {C}. Arguments DRaw {C}. Arguments DExec {C}.

Inductive lockcmd : Type := mkCmd {
  CommandType : N; Flag : N; DbId : N; LockId : idsrc; LockKey : bytes;
  TimeoutFlag : N; Timeout : N; ExpriedFlag : N; Expried : N; Count : N; Rcount : N;
  Data : cdataF lockcmd }.

Definition frame_len (d : cdataF lockcmd) : N :=
  match d with
  | DNone => 0
  | DRaw _ _ _ f => Z.to_N (lenZ f)
  | DExec _ _ n _ => (n + 4)%N
  end.

Definition u8 (z : Z) : N := Z.to_N (z mod 256).
Definition u16 (z : Z) : N := Z.to_N (z mod 65536).
Definition u32 (z : Z) : N := Z.to_N (z mod 4294967296).
Definition byte_of (z : Z) (sh : Z) : N := Z.to_N ((Z.shiftr z sh) mod 256).
Definition le32 (z : Z) : bytes := [byte_of z 0; byte_of z 8; byte_of z 16; byte_of z 24].
Definition le64 (z : Z) : bytes := le32 z ++ [byte_of z 32; byte_of z 40; byte_of z 48; byte_of z 56].

Definition LOCK_FLAG_CONTAINS_DATA : N := 32.
Definition T_SET : N := 0. Definition T_UNSET : N := 1. Definition T_INCR : N := 2. Definition T_APPEND : N := 3.
Definition T_SHIFT : N := 4. Definition T_EXECUTE : N := 5. Definition T_PUSH : N := 7. Definition T_POP : N := 8.
Definition F_NUMBER : N := 1. Definition F_PROPERTY : N := 16.

(* NewLockCommandDataFromString(data, stage, type, 0, nil) *)
Definition data_string (ty : N) (s : bytes) : cdataF lockcmd :=
  DRaw 0 ty 0 (le32 (lenZ s + 2) ++ [N.lor (N.shiftl 0 6) (N.land ty 63); 0%N] ++ s).
(* NewLockCommandDataFromString(data, 0, type, 0, [{code, value}]) : one property *)
Definition data_string_prop (ty : N) (s : bytes) (code : N) (v : bytes) : cdataF lockcmd :=
  let plen := lenZ v + 3 in
  let dlen := lenZ s + 2 + plen + 2 in
  DRaw 0 ty F_PROPERTY
       (le32 dlen ++ [N.land ty 63; F_PROPERTY] ++ [byte_of plen 0; byte_of plen 8]
             ++ [code; byte_of (lenZ v) 0; byte_of (lenZ v) 8] ++ v ++ s).
Definition data_unset : cdataF lockcmd := DRaw 0 T_UNSET 0 [2;0;0;0;T_UNSET;0]%N.
Definition data_incr (v : Z) : cdataF lockcmd := DRaw 0 T_INCR F_NUMBER ([10;0;0;0;T_INCR;F_NUMBER]%N ++ le64 v).
Definition data_num32 (ty : N) (v : Z) : cdataF lockcmd := DRaw 0 ty F_NUMBER ([6;0;0;0;ty;F_NUMBER]%N ++ le32 v).

Inductive cres := CErr (e : cerr) | CPanic | COk (c : lockcmd).

Definition set_Flag c v := mkCmd (CommandType c) v (DbId c) (LockId c) (LockKey c) (TimeoutFlag c) (Timeout c) (ExpriedFlag c) (Expried c) (Count c) (Rcount c) (Data c).
Definition set_Data c v := mkCmd (CommandType c) (Flag c) (DbId c) (LockId c) (LockKey c) (TimeoutFlag c) (Timeout c) (ExpriedFlag c) (Expried c) (Count c) (Rcount c) v.
Definition set_LockId c v := mkCmd (CommandType c) (Flag c) (DbId c) v (LockKey c) (TimeoutFlag c) (Timeout c) (ExpriedFlag c) (Expried c) (Count c) (Rcount c) (Data c).
Definition set_CommandType c v := mkCmd v (Flag c) (DbId c) (LockId c) (LockKey c) (TimeoutFlag c) (Timeout c) (ExpriedFlag c) (Expried c) (Count c) (Rcount c) (Data c).
Definition set_TimeoutF c t f := mkCmd (CommandType c) (Flag c) (DbId c) (LockId c) (LockKey c) f t (ExpriedFlag c) (Expried c) (Count c) (Rcount c) (Data c).
Definition set_ExpriedF c e f := mkCmd (CommandType c) (Flag c) (DbId c) (LockId c) (LockKey c) (TimeoutFlag c) (Timeout c) f e (Count c) (Rcount c) (Data c).
Definition set_Count c v := mkCmd (CommandType c) (Flag c) (DbId c) (LockId c) (LockKey c) (TimeoutFlag c) (Timeout c) (ExpriedFlag c) (Expried c) v (Rcount c) (Data c).
Definition set_Rcount c v := mkCmd (CommandType c) (Flag c) (DbId c) (LockId c) (LockKey c) (TimeoutFlag c) (Timeout c) (ExpriedFlag c) (Expried c) (Count c) v (Data c).
Definition with_data c d := set_Flag (set_Data c d) (N.lor (Flag c) LOCK_FLAG_CONTAINS_DATA).

Section Conv.
  Variable md5 : bytes -> bytes.
  Variable dbid : N.          (* textProtocol.GetDBId() *)

  (* GetAndResetLockCommand + the head of ConvertTextLockAndUnLockCommand *)
  Definition init_cmd (name key : bytes) : lockcmd :=
    mkCmd (if kw_eq name s_UNLOCK then 2 else 1)%N 0 dbid IdRequest (arg2id md5 key) 0 15 0 120 0 0 DNone.

  Definition finish_id (name : bytes) (has_id : bool) (c : lockcmd) : lockcmd :=
    if has_id then c else set_LockId c (if kw_eq name s_LOCK then IdRequest else IdConn).

  (* the `for i := 2; i < len(args); i += 2` loop; `rest` = args[i:].  len(args) is even (checked by the
     caller), so args[i+1] always exists; an odd tail can only arise from an odd nested EXECUTE suffix, which the
     top-level parity test excludes -- it is CPanic here (index out of range), never a default. *)
  Fixpoint conv_loop (name : bytes) (rest : list bytes) (has_id : bool) (c : lockcmd) : cres :=
    match rest with
    | [] => COk (finish_id name has_id c)
    | [_] => CPanic
    | k :: v :: rest' =>
      if kw_eq k s_LOCK_ID then conv_loop name rest' true (set_LockId c (IdBytes (arg2id md5 v)))
      else if kw_eq k s_FLAG then
        match atoi v with None => CErr EFlag | Some f => conv_loop name rest' has_id (set_Flag c (u8 f)) end
      else if kw_eq k s_TIMEOUT then
        match atoi v with
        | None => CErr ETimeout
        | Some t => conv_loop name rest' has_id (set_TimeoutF c (Z.to_N (Z.land t 65535)) (Z.to_N (Z.land (Z.shiftr t 16) 65535)))
        end
      else if kw_eq k s_EXPRIED then
        match atoi v with
        | None => CErr EExpried
        | Some t => conv_loop name rest' has_id (set_ExpriedF c (Z.to_N (Z.land t 65535)) (Z.to_N (Z.land (Z.shiftr t 16) 65535)))
        end
      else if kw_eq k s_COUNT then
        match atoi v with
        | None => CErr ECount
        | Some n => conv_loop name rest' has_id (set_Count c (if n >? 0 then u16 (Z.of_N (u16 n) - 1) else u16 n))
        end
      else if kw_eq k s_RCOUNT then
        match atoi v with
        | None => CErr ERcount
        | Some n => conv_loop name rest' has_id (set_Rcount c (if n >? 0 then u8 (Z.of_N (u8 n) - 1) else u8 n))
        end
      else if kw_eq k s_WILL then
        match atoi v with
        | None => CErr EWill
        | Some w => conv_loop name rest' has_id
                              (if (w >? 0) && negb (kw_eq name s_PUSH) then set_CommandType c (u8 (Z.of_N (CommandType c) + 7)) else c)
        end
      else if kw_eq k s_SET then conv_loop name rest' has_id (with_data c (data_string T_SET v))
      else if kw_eq k s_UNSET then conv_loop name rest' has_id (with_data c data_unset)
      else if kw_eq k s_INCR then
        match atoi v with None => CErr EIncr | Some n => conv_loop name rest' has_id (with_data c (data_incr n)) end
      else if kw_eq k s_APPEND then conv_loop name rest' has_id (with_data c (data_string T_APPEND v))
      else if kw_eq k s_SHIFT then
        match atoi v with None => CErr EShift | Some n => conv_loop name rest' has_id (with_data c (data_num32 T_SHIFT n)) end
      else if kw_eq k s_EXECUTE then
        let stage := if kw_eq v s_UNLOCK then 1%N else if kw_eq v s_TIMEOUT then 2%N else if kw_eq v s_EXPRIED then 3%N else 0%N in
        (* executeCommand := Convert(args[i+2:]) *)
        if negb (lenZ rest' mod 2 =? 0) then CErr EArgsCount else
        match rest' with
        | n2 :: k2 :: rest2 =>
          match conv_loop n2 rest2 false (init_cmd n2 k2) with
          | COk inner0 =>
            (* NewLockCommandDataExecuteData: inner.Flag |= CONTAINS_DATA when inner.Data != nil, then Encode *)
            let inner := match Data inner0 with
                         | DNone => inner0
                         | _ => set_Flag inner0 (N.lor (Flag inner0) LOCK_FLAG_CONTAINS_DATA)
                         end in
            let dl := (66 + frame_len (Data inner))%N in
            conv_loop name rest' has_id (with_data c (DExec stage 0 dl inner))
          | r => r
          end
        | _ => CErr EArgsCount        (* len(args[i+2:]) < 2 *)
        end
      else if kw_eq k s_PUSH then conv_loop name rest' has_id (with_data c (data_string T_PUSH v))
      else if kw_eq k s_POP then
        match atoi v with None => CErr EShift | Some n => conv_loop name rest' has_id (with_data c (data_num32 T_POP n)) end
      else conv_loop name rest' has_id c
    end.

  Definition convert_lock (args : list bytes) : cres :=
    if (lenZ args <? 2) || negb (lenZ args mod 2 =? 0) then CErr EArgsCount
    else match args with
         | name :: key :: rest => conv_loop name rest false (init_cmd name key)
         | _ => CPanic
         end.

  (* ---------------------------------------------------------------- ConvertArgs2Flag
     fixed_bound = false: the bound test as shipped, `i+i >= len(args)`;  true: `i+1 >= len(args)`. *)
  Variable fixed_bound : bool.

  Definition minute_or_plain (v unit_ : Z) (by_thousand : bool) : N * bool :=
    (* returns (uint16 value, minute flag) for v > 65535*unit_ handled by the caller *)
    let m := 60 * unit_ in
    let exact := if by_thousand then (v / 1000) mod 60 =? 0 else v mod m =? 0 in
    (if exact then u16 (v / m) else u16 (Z.of_N (u16 (v / m)) + 1), true).

  Fixpoint args2flag (fuel : nat) (args : list bytes) (i : Z) (c : lockcmd) : cres :=
    match fuel with
    | O => COk c
    | S f =>
      if i <? lenZ args then
        match nthZ args i with
        | None => CPanic
        | Some k =>
          let bound_hit := (if fixed_bound then i + 1 else i + i) >=? lenZ args in
          if kw_eq k s_EX then
            if bound_hit then CErr EArgsCount else
            match nthZ args (i + 1) with
            | None => CPanic
            | Some v =>
              match atoi v with
              | None => CErr EEXValue
              | Some e =>
                let c' := if e >? 65535 then set_ExpriedF c (fst (minute_or_plain e 1 false)) (N.lor (ExpriedFlag c) 64)
                          else set_ExpriedF c (u16 e) (ExpriedFlag c) in
                args2flag f args (i + 2) c'
              end
            end
          else if kw_eq k s_PX then
            if bound_hit then CErr EArgsCount else
            match nthZ args (i + 1) with
            | None => CPanic
            | Some v =>
              match atoi v with
              | None => CErr EPXValue
              | Some e =>
                let c' := if e >? 65535000 then set_ExpriedF c (fst (minute_or_plain e 1000 false)) (N.lor (ExpriedFlag c) 64)
                          else if e <=? 3000 then set_ExpriedF c (u16 e) (N.lor (ExpriedFlag c) 1024)
                          else set_ExpriedF c (u16 e) (ExpriedFlag c) in
                args2flag f args (i + 2) c'
              end
            end
          else if kw_eq k s_TX then
            if bound_hit then CErr EArgsCount else
            match nthZ args (i + 1) with
            | None => CPanic
            | Some v =>
              match atoi v with
              | None => CErr ETXValue
              | Some e =>
                let c' := if e >? 65535 then set_TimeoutF c (fst (minute_or_plain e 1 false)) (N.lor (TimeoutFlag c) 64)
                          else set_TimeoutF c (u16 e) (TimeoutFlag c) in
                args2flag f args (i + 2) c'
              end
            end
          else if kw_eq k s_PTX then
            if bound_hit then CErr EArgsCount else
            match nthZ args (i + 1) with
            | None => CPanic
            | Some v =>
              match atoi v with
              | None => CErr ETXValue
              | Some e =>
                let c' := if e >? 65535000 then set_TimeoutF c (fst (minute_or_plain e 1000 true)) (N.lor (TimeoutFlag c) 64)
                          else if e <=? 3000 then set_TimeoutF c (u16 e) (N.lor (TimeoutFlag c) 1024)
                          else set_TimeoutF c (u16 e) (TimeoutFlag c) in
                args2flag f args (i + 2) c'
              end
            end
          else if kw_eq k s_NX then args2flag f args (i + 1) (set_LockId (set_Flag c LOCK_FLAG_CONTAINS_DATA) IdGen)
          else if kw_eq k s_XX then args2flag f args (i + 1) (set_TimeoutF c (Timeout c) (N.lor (TimeoutFlag c) 512))
          else if kw_eq k s_ACK then args2flag f args (i + 1) (set_TimeoutF c (Timeout c) (N.lor (TimeoutFlag c) 4096))
          else if kw_eq k s_NAOF then args2flag f args (i + 1) (set_ExpriedF c (Expried c) (N.lor (ExpriedFlag c) 512))
          else args2flag f args (i + 1) c
        end
      else COk c
    end.

  Variable conn_timeout : N.   (* textProtocol.GetTimeout() *)

  (* ConvertTextSetCommand (also GETSET) *)
  Definition convert_set (args : list bytes) : cres :=
    if lenZ args <? 3 then CErr EArgsCount else
    match args with
    | _ :: key :: val :: rest =>
      let k := arg2id md5 key in
      let c0 := mkCmd 1 (N.lor 2 32) dbid (IdBytes k) k 0 0 0 0 0 0 (data_string_prop T_SET val 1 key) in
      let r := if lenZ args >? 3 then args2flag (length rest) rest 0 c0 else COk c0 in
      match r with
      | COk c =>
        let c1 := if (N.land (Flag c) 2 =? 0)%N && (Timeout c =? 0)%N && (TimeoutFlag c =? 0)%N
                  then set_TimeoutF c conn_timeout (TimeoutFlag c) else c in
        let c2 := if (Expried c1 =? 0)%N && (ExpriedFlag c1 =? 0)%N
                  then set_ExpriedF c1 32767 (N.lor 16384 (N.lor 256 8192))
                  else if negb (N.land (ExpriedFlag c1) 512 =? 0)%N
                       then set_ExpriedF c1 (Expried c1) (N.lor (ExpriedFlag c1) 8192)
                       else set_ExpriedF c1 (Expried c1) (N.lor (ExpriedFlag c1) (N.lor 256 8192)) in
        COk c2
      | r => r
      end
    | _ => CPanic
    end.
End Conv.

(* ---------------------------------------------------------------- WriteTextLockAndUnLockCommandResult *)
Record lockres := mkRes {
  r_Result : N; r_Flag : N; r_LockId : bytes; r_Lcount : N; r_Count : N; r_Lrcount : N; r_Rcount : N;
  r_DataFlag : N; r_DataType : N; r_Data : option bytes (* the whole result frame, as LockResultCommandData.Data *) }.

Definition hexdigit (n : N) : N := if (n <? 10)%N then (48 + n)%N else (87 + n)%N.
Fixpoint hex_encode (l : bytes) : bytes :=
  match l with [] => [] | b :: r => hexdigit (b / 16)%N :: hexdigit (b mod 16)%N :: hex_encode r end.

Definition lenN (l : bytes) : N := Z.to_N (lenZ l).
Definition hdr (s : bytes) : bytes := CH_DOLLAR :: dec (lenN s) ++ crlf.      (* "$%d\r\n" *)

(* %d of an int64 *)
Definition decZ (z : Z) : bytes := if z <? 0 then CH_MINUS :: dec (Z.to_N (- z)) else dec (Z.to_N z).

(* GetValueOffset of the result data *)
(* bounded since /repo 22baf83: an offset beyond the frame is clamped to the frame length *)
Definition value_offset (dflag : N) (d : bytes) : option Z :=
  if negb (N.land dflag 16 =? 0)%N then
    if lenZ d <? 8 then Some (lenZ d) else
    match nthZ d 6, nthZ d 7 with
    | Some a, Some b => if lenZ d <? Z.of_N a + 256 * Z.of_N b + 8 then Some (lenZ d) else Some (Z.of_N a + 256 * Z.of_N b + 8)
    | _, _ => None
    end
  else if lenZ d <? 6 then Some (lenZ d) else Some 6.

(* ERROR_MSG is a run parameter (read from the tree under test): indexing it out of range is a Panic.
   Returns the bytes written to the stream; array / KV valued data are not modelled (None' = NotModelled). *)
Inductive rres := RBytes (b : bytes) | RPanic | RNotModelled.

Definition render (msgs : list bytes) (r : lockres) : rres :=
  let has_data := negb (N.land (r_Flag r) 32 =? 0)%N in
  match nthZ msgs (Z.of_N (r_Result r)) with
  | None => RPanic
  | Some msg =>
    let t_res := dec (r_Result r) in
    let t_lc := dec (r_Lcount r) in
    let t_c := dec ((r_Count r + 1) mod 65536)%N in
    let t_lrc := dec (r_Lrcount r) in
    let t_rc := dec ((r_Rcount r + 1) mod 256)%N in
    let head :=
        (CH_STAR :: (if has_data then [49;52]%N else [49;50]%N) ++ crlf)
          ++ hdr t_res ++ t_res
          ++ crlf ++ hdr msg ++ msg
          ++ crlf ++ hdr s_LOCK_ID ++ s_LOCK_ID ++ crlf ++ [36;51;50]%N ++ crlf ++ hex_encode (r_LockId r)
          ++ crlf ++ hdr s_LCOUNT ++ s_LCOUNT
          ++ crlf ++ hdr t_lc ++ t_lc
          ++ crlf ++ hdr s_COUNT ++ s_COUNT
          ++ crlf ++ hdr t_c ++ t_c
          ++ crlf ++ hdr s_LRCOUNT ++ s_LRCOUNT
          ++ crlf ++ hdr t_lrc ++ t_lrc
          ++ crlf ++ hdr s_RCOUNT ++ s_RCOUNT
          ++ crlf ++ hdr t_rc ++ t_rc
          ++ crlf in
    if has_data then
      match r_Data r with
      | None => RPanic                                   (* nil pointer dereference: Data.DataFlag *)
      | Some d =>
        if negb (N.land (r_DataFlag r) 1 =? 0)%N then RNotModelled
        else if negb (N.land (r_DataFlag r) 6 =? 0)%N then RNotModelled
        else if (r_DataType r =? 1)%N then RBytes (head ++ hdr s_DATA ++ s_DATA ++ crlf ++ hdr [] ++ crlf)
        else match value_offset (r_DataFlag r) d with
             | None => RPanic
             | Some off =>
               match sliceZ d off (lenZ d) with
               | None => RPanic
               | Some v => RBytes (head ++ hdr s_DATA ++ s_DATA ++ crlf ++ hdr v ++ v ++ crlf)
               end
             end
      end
    else RBytes head
  end.

(* the twelve strings a text client receives for a result without data *)
Definition result_fields (msg : bytes) (r : lockres) : list bytes :=
  [dec (r_Result r); msg; s_LOCK_ID; hex_encode (r_LockId r); s_LCOUNT; dec (r_Lcount r);
   s_COUNT; dec ((r_Count r + 1) mod 65536)%N; s_LRCOUNT; dec (r_Lrcount r); s_RCOUNT; dec ((r_Rcount r + 1) mod 256)%N].
