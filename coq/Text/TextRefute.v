(* Witnesses (checked by vm_compute on the model; each is replayed on the Go parser by checks/C14_text.py and is part of
   corpus/C14_text) showing that the guards of the chunking theorems cannot be dropped for the source as shipped. *)
From Coq Require Import List NArith ZArith Bool Lia.
From Slock Require Import Text.TextParse Text.TextSpec.
Import ListNotations.
Open Scope Z_scope.

Definition w_args : list bytes := [[255; 45]%N].                       (* one argument "\xff-" *)
Definition w_chunks : list bytes := [[42;49;13;10;36;50;13;10;255]; [45]; [13;10]]%N.   (* reads of 9, 1, 2 bytes *)

Lemma w_is_chunking : concat w_chunks = build_request w_args.
Proof. vm_compute. reflexivity. Qed.

(* ParseRequest, as shipped: the same BuildRequest stream, cut into three reads, yields ["\xff-\r"] *)
Lemma request_chunking_refuted_witness :
  exists p, feed_all as_shipped false (new_parser 4096) w_chunks [] = (p, [(0, [[255; 45; 13]%N])], Ok).
Proof. eexists. vm_compute. reflexivity. Qed.

Lemma w_guard_violated : good_chunking false w_chunks = false.
Proof. vm_compute. reflexivity. Qed.

(* with the proposed repair the same reads parse correctly *)
Lemma request_chunking_witness_repaired :
  exists p, feed_all repaired false (new_parser 4096) w_chunks [] = (p, [(0, w_args)], Ok).
Proof. eexists. vm_compute. reflexivity. Qed.

(* status line "+OK\r\n": unsplit fine; split before the CR the message becomes "OK\r"; empty message becomes "\r" *)
Lemma status_unsplit_ok :
  exists p, feed_all as_shipped true (new_parser 64) [build_response true [79;75]%N []] [] = (p, [(1, [[79;75]%N])], Ok).
Proof. eexists. vm_compute. reflexivity. Qed.

Lemma status_split_refuted :
  exists p, feed_all as_shipped true (new_parser 64) [[43;79;75]%N; [13;10]%N] [] = (p, [(1, [[79;75;13]%N])], Ok)
            /\ concat [[43;79;75]%N; [13;10]%N] = build_response true [79;75]%N [].
Proof. eexists. vm_compute. split; reflexivity. Qed.

Lemma status_empty_refuted :
  exists p, feed_all as_shipped true (new_parser 64) [build_response true [] []] [] = (p, [(1, [[13]%N])], Ok).
Proof. eexists. vm_compute. reflexivity. Qed.

Lemma status_split_repaired :
  exists p, feed_all repaired true (new_parser 64) [[43;79;75]%N; [13;10]%N] [] = (p, [(1, [[79;75]%N])], Ok).
Proof. eexists. vm_compute. reflexivity. Qed.

Lemma status_empty_repaired :
  exists p, feed_all repaired true (new_parser 64) [build_response true [] []] [] = (p, [(1, [[]])], Ok).
Proof. eexists. vm_compute. reflexivity. Qed.
