(* The specification automaton parses BuildRequest / bulk / array output back to the original arguments. *)
From Coq Require Import List NArith ZArith Bool Lia ZifyN ZifyBool ZifyNat.
From Slock Require Import Text.TextParse Text.ListZ Text.TextSpec.
Import ListNotations.
Open Scope Z_scope.
Ltac Zify.zify_post_hook ::= Z.div_mod_to_equations.

(* ------------------------------------------------------------------ arun over concatenation *)
Lemma last_app_cons {A} (x : list A) b y d : last (x ++ b :: y) d = last (b :: y) d.
Proof.
  induction x as [|a x IH]; [reflexivity|].
  simpl app. change (last (a :: x ++ b :: y) d) with (match x ++ b :: y with [] => a | _ => last (x ++ b :: y) d end).
  destruct (x ++ b :: y) eqn:E; [destruct x; discriminate|]. exact IH.
Qed.

Lemma last_byte_app prev x y : last_byte (last_byte prev x) y = last_byte prev (x ++ y).
Proof.
  destruct y as [|b y].
  - rewrite app_nil_r. reflexivity.
  - assert (last_byte prev (x ++ b :: y) = Some (last (x ++ b :: y) 0%N)) as E.
    { unfold last_byte. destruct (x ++ b :: y) eqn:E; [destruct x; discriminate|]. reflexivity. }
    rewrite E, last_app_cons. reflexivity.
Qed.

Lemma last_byte_cons prev c x : last_byte (Some c) x = last_byte prev (c :: x).
Proof. destruct x; [reflexivity|]. simpl. reflexivity. Qed.

Lemma arun_app resp x : forall prev a y,
  arun resp prev a (x ++ y) =
  match arun resp prev a x with
  | (a1, o1, true) => (a1, o1, true)
  | (a1, o1, false) => match arun resp (last_byte prev x) a1 y with (a2, o2, e) => (a2, o1 ++ o2, e) end
  end.
Proof.
  induction x as [|c x IH]; intros prev a y.
  - simpl. destruct (arun resp prev a y) as [[a2 o2] e]. reflexivity.
  - simpl app. cbn [arun]. destruct (astep resp prev a c) as [[a1 o1] [|]]; [reflexivity|].
    rewrite IH. destruct (arun resp (Some c) a1 x) as [[a2 o2] [|]].
    + reflexivity.
    + rewrite (last_byte_cons prev). destruct (arun resp (last_byte prev (c :: x)) a2 y) as [[a3 o3] e].
      rewrite app_assoc. reflexivity.
Qed.

(* ------------------------------------------------------------------ decimal printing / parsing *)
Lemma dec_aux_app f : forall n acc, dec_aux f n acc = dec_aux f n [] ++ acc.
Proof.
  induction f as [|f IH]; intros n acc; simpl; [reflexivity|].
  destruct (n / 10 =? 0)%N; [reflexivity|].
  rewrite IH. rewrite (IH _ [_]). rewrite <- app_assoc. reflexivity.
Qed.

Lemma digit_of_mod n : is_digit (48 + n mod 10)%N = true.
Proof.
  unfold is_digit. assert (n mod 10 < 10)%N by (apply N.mod_lt; lia).
  apply andb_true_iff. split; apply N.leb_le; lia.
Qed.

Lemma dec_aux_digits f : forall n, Forall (fun c => is_digit c = true) (dec_aux f n []).
Proof.
  induction f as [|f IH]; intros n; simpl; [constructor|].
  destruct (n / 10 =? 0)%N.
  - constructor; [apply digit_of_mod|constructor].
  - rewrite dec_aux_app. apply Forall_app. split; [apply IH|]. constructor; [apply digit_of_mod|constructor].
Qed.

Lemma digits_val_app l : forall acc c, is_digit c = true ->
  digits_val acc (l ++ [c]) = match digits_val acc l with Some v => Some (v * 10 + (Z.of_N c - 48)) | None => None end.
Proof.
  induction l as [|x l IH]; intros acc c Hc; simpl.
  - rewrite Hc. reflexivity.
  - destruct (is_digit x); [|reflexivity]. apply IH. exact Hc.
Qed.

Lemma dec_aux_val f : forall n, (n < 2 ^ N.of_nat f)%N -> digits_val 0 (dec_aux f n []) = Some (Z.of_N n).
Proof.
  induction f as [|f IH]; intros n H.
  - simpl in *. replace n with 0%N by lia. reflexivity.
  - cbn [dec_aux]. destruct (n / 10 =? 0)%N eqn:E.
    + apply N.eqb_eq in E. cbn [digits_val]. rewrite digit_of_mod. f_equal.
      assert (n < 10)%N by (apply N.div_small_iff in E; lia).
      rewrite N.mod_small by lia. lia.
    + rewrite dec_aux_app. rewrite digits_val_app by apply digit_of_mod.
      rewrite IH.
      * f_equal. pose proof (N.div_mod n 10). assert (n mod 10 < 10)%N by (apply N.mod_lt; lia). lia.
      * rewrite Nat2N.inj_succ, N.pow_succ_r' in H.
        assert (n / 10 <= n / 2)%N.
        { apply N.div_le_lower_bound; [lia|]. pose proof (N.div_mod n 10). assert (n mod 10 < 10)%N by (apply N.mod_lt; lia). lia. }
        assert (n / 2 < 2 ^ N.of_nat f)%N by (apply N.div_lt_upper_bound; lia). lia.
Qed.

Lemma dec_aux_len f : forall n, lenZ (dec_aux f n []) <= Z.of_nat f.
Proof.
  induction f as [|f IH]; intros n; cbn [dec_aux].
  - simpl. lia.
  - destruct (n / 10 =? 0)%N.
    + simpl. lia.
    + rewrite dec_aux_app, lenZ_app. specialize (IH (n / 10)%N). simpl lenZ. lia.
Qed.

Lemma dec_aux_nonempty f n : dec_aux (S f) n [] <> [].
Proof.
  cbn [dec_aux]. destruct (n / 10 =? 0)%N; [discriminate|]. rewrite dec_aux_app. destruct (dec_aux f (n / 10)%N []); discriminate.
Qed.

Lemma pos_size_nat_bound p : (N.pos p < 2 ^ N.of_nat (Pos.size_nat p))%N.
Proof.
  induction p as [p IH|p IH|]; cbn [Pos.size_nat]; rewrite ?Nat2N.inj_succ, ?N.pow_succ_r'; try lia.
Qed.

Lemma size_nat_bound n : (n < 2 ^ N.of_nat (S (N.size_nat n)))%N.
Proof.
  rewrite Nat2N.inj_succ, N.pow_succ_r'.
  destruct n as [|p]; [simpl; lia|].
  pose proof (pos_size_nat_bound p). simpl N.size_nat. lia.
Qed.

Lemma dec_digits n : Forall (fun c => is_digit c = true) (dec n).
Proof. apply dec_aux_digits. Qed.

Lemma dec_val n : digits_val 0 (dec n) = Some (Z.of_N n).
Proof. apply dec_aux_val. apply size_nat_bound. Qed.

Lemma dec_nonempty n : dec n <> [].
Proof. apply dec_aux_nonempty. Qed.

Lemma size_nat_le n k : (n < 2 ^ N.of_nat k)%N -> (N.size_nat n <= k)%nat.
Proof.
  destruct n as [|p]; [simpl; lia|]. simpl. revert k. induction p as [p IH|p IH|]; intros k H; cbn [Pos.size_nat].
  - destruct k; [simpl in H; lia|]. rewrite Nat2N.inj_succ, N.pow_succ_r' in H. apply le_n_S, IH. lia.
  - destruct k; [simpl in H; lia|]. rewrite Nat2N.inj_succ, N.pow_succ_r' in H. apply le_n_S, IH. lia.
  - destruct k; [simpl in H; lia|]. lia.
Qed.

Lemma dec_len n : (n < 2 ^ 63)%N -> lenZ (dec n) <= 64.
Proof.
  intros H. unfold dec. pose proof (dec_aux_len (S (N.size_nat n)) n).
  pose proof (size_nat_le n 63 H). lia.
Qed.

Lemma atoi_dec n : (n < 2 ^ 63)%N -> atoi (dec n) = Some (Z.of_N n).
Proof.
  intros H. unfold atoi.
  pose proof (dec_digits n) as D. pose proof (dec_nonempty n) as NE. pose proof (dec_val n) as V.
  destruct (dec n) as [|c r] eqn:E; [congruence|].
  inversion D as [|? ? Hc _]; subst.
  assert (c = 48 \/ c = 49 \/ c = 50 \/ c = 51 \/ c = 52 \/ c = 53 \/ c = 54 \/ c = 55 \/ c = 56 \/ c = 57)%N as Hd.
  { unfold is_digit in Hc. apply andb_true_iff in Hc. destruct Hc as [Ha Hb]. apply N.leb_le in Ha. apply N.leb_le in Hb. lia. }
  assert (forall v, (0 <= v < 2 ^ 63) -> (if (int_min <=? v) && (v <=? int_max) then Some v else None) = Some v) as R.
  { intros v Hv. unfold int_min, int_max.
    replace ((- 2 ^ 63 <=? v) && (v <=? 2 ^ 63 - 1)) with true; [reflexivity|].
    symmetry. apply andb_true_iff. split; apply Z.leb_le; lia. }
  assert (0 <= Z.of_N n < 2 ^ 63) as Hn.
  { split; [lia|]. assert (Z.of_N n < Z.of_N (2 ^ 63)%N) by lia. exact H0. }
  repeat (destruct Hd as [Hd|Hd]; [subst c; cbv beta iota; rewrite V; apply R; exact Hn|]).
  subst c; cbv beta iota; rewrite V; apply R; exact Hn.
Qed.

(* ------------------------------------------------------------------ the automaton on well-formed pieces *)
Definition plain (c : N) : Prop := c <> CH_LF /\ c <> CH_CR.
Definition a_idle (ty : Z) : astate := mkA 0 [] [] 0 0 0 ty.

Lemma digit_plain c : is_digit c = true -> plain c.
Proof.
  unfold is_digit, plain, CH_LF, CH_CR. intros H. apply andb_true_iff in H. destruct H as [Ha Hb].
  apply N.leb_le in Ha. lia.
Qed.

Lemma plain_eqb c : plain c -> (c =? CH_LF)%N = false /\ (c =? CH_CR)%N = false.
Proof. intros [H1 H2]. split; apply N.eqb_neq; assumption. Qed.

Lemma arun_num resp st ds : st = 1 \/ st = 3 -> Forall plain ds ->
  forall prev num args cnt len k ty, lenZ num + lenZ ds <= 128 ->
  arun resp prev (mkA st args num cnt len k ty) ds = (mkA st args (num ++ ds) cnt len k ty, [], false).
Proof.
  intros Hst. induction ds as [|c ds IH]; intros Hp prev num args cnt len k ty Hl.
  - rewrite app_nil_r. reflexivity.
  - inversion Hp as [|? ? Hc Hp']; subst. destruct (plain_eqb c Hc) as [E1 E2].
    cbn [arun]. rewrite lenZ_cons in Hl. pose proof (lenZ_nonneg ds).
    assert (astep resp prev (mkA st args num cnt len k ty) c = (mkA st args (num ++ [c]) cnt len k ty, [], false)) as ->.
    { unfold astep. cbn [a_stage a_num a_args a_count a_len a_k a_type]. rewrite E1, E2.
      unfold MAX_CARG_LEN. replace (lenZ num >=? 128) with false by (symmetry; rewrite Z.geb_leb; apply Z.leb_gt; lia).
      destruct Hst as [-> | ->]; reflexivity. }
    rewrite IH; [|assumption|rewrite lenZ_app; simpl; lia].
    rewrite <- app_assoc. reflexivity.
Qed.

Lemma arun_numline resp st n prev args cnt len k ty : st = 1 \/ st = 3 -> (n < 2 ^ 63)%N ->
  arun resp prev (mkA st args [] cnt len k ty) (dec n ++ crlf) =
  ((if st =? 1 then mkA 2 args [] (Z.of_N n) len k ty else mkA 4 args [] cnt (Z.of_N n) 0 ty), [], false).
Proof.
  intros Hst Hn. rewrite arun_app.
  rewrite (arun_num resp st (dec n) Hst).
  - cbn [app]. unfold crlf. cbn [arun].
    assert (forall p, astep resp p (mkA st args (dec n) cnt len k ty) CH_CR = (mkA st args (dec n) cnt len k ty, [], false)) as ->.
    { intros p. unfold astep. cbn [a_stage]. destruct Hst as [-> | ->]; reflexivity. }
    assert (astep resp (Some CH_CR) (mkA st args (dec n) cnt len k ty) CH_LF =
            ((if st =? 1 then mkA 2 args [] (Z.of_N n) len k ty else mkA 4 args [] cnt (Z.of_N n) 0 ty), [], false)) as ->.
    { unfold astep. cbn [a_stage a_num a_args a_count a_len a_k a_type]. rewrite (atoi_dec n Hn).
      destruct Hst as [-> | ->]; reflexivity. }
    reflexivity.
  - eapply Forall_impl; [|apply dec_digits]. intros c Hc. apply digit_plain. exact Hc.
  - simpl lenZ. pose proof (dec_len n Hn). lia.
Qed.

Lemma arun_data_more resp : forall x prev q y cnt L k ty, 0 < k -> k + lenZ x <= L ->
  arun resp prev (mkA 4 (q ++ [y]) [] cnt L k ty) x = (mkA 4 (q ++ [y ++ x]) [] cnt L (k + lenZ x) ty, [], false).
Proof.
  induction x as [|c x IH]; intros prev q y cnt L k ty Hk Hl.
  - simpl. rewrite app_nil_r, Z.add_0_r. reflexivity.
  - rewrite lenZ_cons in Hl. pose proof (lenZ_nonneg x). cbn [arun].
    assert (astep resp prev (mkA 4 (q ++ [y]) [] cnt L k ty) c = (mkA 4 (q ++ [y ++ [c]]) [] cnt L (k + 1) ty, [], false)) as ->.
    { unfold astep. cbn [a_stage a_num a_args a_count a_len a_k a_type].
      replace (L - k >? 0) with true by (symmetry; apply Z.gtb_lt; lia).
      replace (k =? 0) with false by (symmetry; apply Z.eqb_neq; lia).
      rewrite append_last_app. reflexivity. }
    rewrite IH by lia. rewrite <- app_assoc, lenZ_cons. cbn [app].
    replace (k + 1 + lenZ x) with (k + (lenZ x + 1)) by lia. reflexivity.
Qed.

Lemma arun_data_first resp : forall x prev args cnt L ty, x <> [] -> lenZ x <= L ->
  arun resp prev (mkA 4 args [] cnt L 0 ty) x = (mkA 4 (args ++ [x]) [] cnt L (lenZ x) ty, [], false).
Proof.
  intros x prev args cnt L ty Hx Hl. destruct x as [|c x]; [congruence|].
  rewrite lenZ_cons in *. pose proof (lenZ_nonneg x). cbn [arun].
  assert (astep resp prev (mkA 4 args [] cnt L 0 ty) c = (mkA 4 (args ++ [[c]]) [] cnt L 1 ty, [], false)) as ->.
  { unfold astep. cbn [a_stage a_num a_args a_count a_len a_k a_type].
    replace (L - 0 >? 0) with true by (symmetry; apply Z.gtb_lt; lia). reflexivity. }
  rewrite arun_data_more by lia. cbn [app]. replace (1 + lenZ x) with (lenZ x + 1) by lia. reflexivity.
Qed.

Definition small (x : bytes) : Prop := lenZ x < 2 ^ 63.

Lemma small_N x : small x -> (Z.to_N (lenZ x) < 2 ^ 63)%N.
Proof. unfold small. intros H. pose proof (lenZ_nonneg x). change (2 ^ 63)%N with (Z.to_N (2 ^ 63)). lia. Qed.

Lemma arun_eol resp cnt L ty : forall p args',
  arun resp p (mkA 4 args' [] cnt L L ty) crlf =
  (let l := if L =? 0 then args' ++ [[]] else args' in
   if lenZ l <? cnt then (mkA 2 l [] cnt 0 0 ty, [], false) else (mkA 0 [] [] 0 0 0 ty, [(ty, l)], false)).
Proof.
  intros p args'. unfold crlf. cbn [arun].
  assert (astep resp p (mkA 4 args' [] cnt L L ty) CH_CR = (mkA 4 args' [] cnt L L ty, [], false)) as ->.
  { unfold astep. cbn [a_stage a_num a_args a_count a_len a_k a_type]. rewrite Z.sub_diag. reflexivity. }
  assert (astep resp (Some CH_CR) (mkA 4 args' [] cnt L L ty) CH_LF =
          (let l := if L =? 0 then args' ++ [[]] else args' in
           if lenZ l <? cnt then (mkA 2 l [] cnt 0 0 ty, [], false) else (mkA 0 [] [] 0 0 0 ty, [(ty, l)], false))) as ->.
  { unfold astep. cbn [a_stage a_num a_args a_count a_len a_k a_type]. rewrite Z.sub_diag. reflexivity. }
  cbv zeta. destruct (lenZ (if L =? 0 then args' ++ [[]] else args') <? cnt); reflexivity.
Qed.

Lemma arun_bulk_from3 resp prev args cnt ty x : small x ->
  arun resp prev (mkA 3 args [] cnt 0 0 ty) (dec (Z.to_N (lenZ x)) ++ crlf ++ x ++ crlf) =
  (if lenZ (args ++ [x]) <? cnt then (mkA 2 (args ++ [x]) [] cnt 0 0 ty, [], false)
   else (mkA 0 [] [] 0 0 0 ty, [(ty, args ++ [x])], false)).
Proof.
  intros Hx. pose proof (lenZ_nonneg x) as Hnn.
  rewrite app_assoc, arun_app.
  rewrite arun_numline by (auto using small_N). change (3 =? 1) with false. cbv iota.
  rewrite Z2N.id by assumption.
  set (prev1 := last_byte prev (dec (Z.to_N (lenZ x)) ++ crlf)).
  pose proof (arun_eol resp cnt (lenZ x) ty) as Heol.
  destruct x as [|c x'].
  - cbn [app]. change (lenZ (@nil N)) with 0 in *. rewrite (Heol prev1 args). cbv zeta. change (0 =? 0) with true. cbv iota.
    unfold bytes in *. destruct (lenZ (args ++ [[]]) <? cnt); reflexivity.
  - rewrite arun_app. rewrite arun_data_first by (try discriminate; lia).
    rewrite Heol. cbv zeta.
    replace (lenZ (c :: x') =? 0) with false by (symmetry; apply Z.eqb_neq; rewrite lenZ_cons; pose proof (lenZ_nonneg x'); lia).
    unfold bytes in *. destruct (lenZ (args ++ [c :: x']) <? cnt); reflexivity.
Qed.

Lemma astep2_dollar resp prev args num cnt len k ty :
  astep resp prev (mkA 2 args num cnt len k ty) CH_DOLLAR = (mkA 3 args num cnt len k ty, [], false).
Proof. reflexivity. Qed.
Lemma astep0_req_star prev args num cnt len k ty :
  astep false prev (mkA 0 args num cnt len k ty) CH_STAR = (mkA 1 args num cnt len k 0, [], false).
Proof. reflexivity. Qed.
Lemma astep0_resp_dollar prev args num cnt len k ty :
  astep true prev (mkA 0 args num cnt len k ty) CH_DOLLAR = (mkA 3 args num cnt len k 3, [], false).
Proof. reflexivity. Qed.
Lemma astep0_resp_star prev args num cnt len k ty :
  astep true prev (mkA 0 args num cnt len k ty) CH_STAR = (mkA 1 args num cnt len k 4, [], false).
Proof. reflexivity. Qed.

Lemma arun_bulk resp prev args cnt ty x : small x ->
  arun resp prev (mkA 2 args [] cnt 0 0 ty) (bulk x) =
  (if lenZ (args ++ [x]) <? cnt then (mkA 2 (args ++ [x]) [] cnt 0 0 ty, [], false)
   else (mkA 0 [] [] 0 0 0 ty, [(ty, args ++ [x])], false)).
Proof.
  intros Hx. unfold bulk. cbn [arun]. rewrite astep2_dollar.
  rewrite arun_bulk_from3 by assumption.
  destruct (lenZ (args ++ [x]) <? cnt); reflexivity.
Qed.

Lemma arun_bulks resp : forall todo prev args cnt ty, todo <> [] -> lenZ args + lenZ todo = cnt -> Forall small todo ->
  arun resp prev (mkA 2 args [] cnt 0 0 ty) (concat (map bulk todo)) = (a_idle ty, [(ty, args ++ todo)], false).
Proof.
  induction todo as [|x todo IH]; intros prev args cnt ty Hne Hc Hs; [congruence|].
  inversion Hs as [|? ? Hx Hs']; subst. cbn [map concat]. rewrite arun_app, arun_bulk by assumption.
  rewrite lenZ_cons. rewrite lenZ_app. simpl (lenZ [x]). pose proof (lenZ_nonneg todo).
  destruct todo as [|y todo].
  - change (lenZ (@nil bytes)) with 0.
    match goal with |- context [if ?a <? ?b then _ else _] => destruct (Z.ltb_spec a b); [lia|] end.
    cbn [map concat arun]. rewrite app_nil_r. reflexivity.
  - match goal with |- context [if ?a <? ?b then _ else _] => destruct (Z.ltb_spec a b) end.
    2:{ rewrite lenZ_cons in *. pose proof (lenZ_nonneg todo). lia. }
    rewrite IH; [|discriminate|rewrite lenZ_app; simpl (lenZ [x]); lia|assumption].
    rewrite <- app_assoc. reflexivity.
Qed.

(* ---- BuildRequest *)
Theorem spec_request_roundtrip prev ty args :
  args <> [] -> lenZ args < 2 ^ 63 -> Forall small args ->
  arun false prev (a_idle ty) (build_request args) = (a_idle 0, [(0, args)], false).
Proof.
  intros Hne Hl Hs. unfold build_request, a_idle. cbn [arun]. rewrite astep0_req_star.
  rewrite app_assoc, arun_app. rewrite arun_numline; [|auto|].
  - change (1 =? 1) with true. cbv iota. pose proof (lenZ_nonneg args). rewrite Z2N.id by assumption.
    rewrite arun_bulks by (auto; simpl; lia). reflexivity.
  - pose proof (lenZ_nonneg args). change (2 ^ 63)%N with (Z.to_N (2 ^ 63)). lia.
Qed.

(* ---- BuildResponse, bulk form (one result) and array form (two or more) *)
Theorem spec_response_bulk_roundtrip prev ty x : small x ->
  arun true prev (a_idle ty) (build_response true [] [x]) = (a_idle 3, [(3, [x])], false).
Proof.
  intros Hx. unfold build_response, a_idle. cbn [negb]. unfold bulk. cbn [arun]. rewrite astep0_resp_dollar.
  rewrite arun_bulk_from3 by assumption. reflexivity.
Qed.

Theorem spec_response_array_roundtrip prev ty msg x y rest :
  lenZ (x :: y :: rest) < 2 ^ 63 -> Forall small (x :: y :: rest) ->
  arun true prev (a_idle ty) (build_response true msg (x :: y :: rest)) = (a_idle 4, [(4, x :: y :: rest)], false).
Proof.
  intros Hl Hs. unfold build_response. cbn [negb]. set (res := x :: y :: rest) in *.
  unfold a_idle. cbn [arun]. rewrite astep0_resp_star.
  rewrite app_assoc, arun_app. rewrite arun_numline; [|auto|].
  - change (1 =? 1) with true. cbv iota. pose proof (lenZ_nonneg res). rewrite Z2N.id by assumption.
    rewrite arun_bulks by (auto; try (subst res; discriminate); simpl; lia). reflexivity.
  - pose proof (lenZ_nonneg res). change (2 ^ 63)%N with (Z.to_N (2 ^ 63)). lia.
Qed.
