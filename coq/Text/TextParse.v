(* Executable, index-faithful model of protocol.TextParser (protocol/textparse.go:88-566).

   The parser owns a read buffer `rbuf` (fixed capacity; bytes beyond bufLen are stale data of earlier
   reads), `bufIndex`/`bufLen`, the `stage`, the scratch array `carg` (MAX_CARG_LEN = 128) with
   `cargIndex`, and `argsCount`/`cargLen`; all of it is carried across calls of ParseRequest/ParseResponse.
   Every Go `int` is a `Z`; every slice index / slice expression is checked and yields the outcome `Panic`
   when out of range (never a default).  Loops carry fuel; exhaustion is the distinct outcome `OutOfFuel`.

   Caller protocol (server/protocol.go:2196-2236 TextServerProtocol.Process, client/protocol.go:374-400):
       if IsBufferEnd() { n := Read(rbuf); BufferUpdate(n) }
       err := ParseRequest();  if err -> close
       if IsParseFinish() { handle(GetArgs()); Reset() }
   modelled by `feed` / `feed_all`.  *)
From Coq Require Import List NArith ZArith Bool Lia.
Import ListNotations.
Open Scope Z_scope.

Definition bytes := list N.

(* ------------------------------------------------------------------ list access with Z indices *)
Fixpoint lenZ {A} (l : list A) : Z :=
  match l with [] => 0 | _ :: r => Z.succ (lenZ r) end.

Fixpoint nthZ {A} (l : list A) (i : Z) : option A :=
  match l with
  | [] => None
  | x :: r => if i =? 0 then Some x else if i <? 0 then None else nthZ r (Z.pred i)
  end.

Fixpoint skipZ {A} (n : Z) (l : list A) : list A :=
  match l with
  | [] => []
  | x :: r => if n <=? 0 then l else skipZ (Z.pred n) r
  end.

Fixpoint takeZ {A} (n : Z) (l : list A) : list A :=
  match l with
  | [] => []
  | x :: r => if n <=? 0 then [] else x :: takeZ (Z.pred n) r
  end.

(* Go slice expression l[a:b] on a slice whose len = cap: panics unless 0 <= a <= b <= len *)
Definition sliceZ {A} (l : list A) (a b : Z) : option (list A) :=
  if (0 <=? a) && (a <=? b) && (b <=? lenZ l) then Some (takeZ (b - a) (skipZ a l)) else None.

(* l[i] = x *)
Fixpoint setZ {A} (l : list A) (i : Z) (x : A) : option (list A) :=
  match l with
  | [] => None
  | y :: r => if i =? 0 then Some (x :: r) else if i <? 0 then None else
                match setZ r (Z.pred i) x with Some r' => Some (y :: r') | None => None end
  end.

(* copy(dst, src): overwrites min(len) leading elements *)
Fixpoint copyZ {A} (dst src : list A) : list A :=
  match dst, src with
  | _ :: d, s :: r => s :: copyZ d r
  | _, _ => dst
  end.

(* ------------------------------------------------------------------ strconv.Atoi / ParseInt(s,10,64) *)
Definition is_digit (c : N) : bool := (48 <=? c)%N && (c <=? 57)%N.

Fixpoint digits_val (acc : Z) (l : bytes) : option Z :=
  match l with
  | [] => Some acc
  | c :: r => if is_digit c then digits_val (acc * 10 + (Z.of_N c - 48)) r else None
  end.

Definition int_min : Z := - 2 ^ 63.
Definition int_max : Z := 2 ^ 63 - 1.

(* optional sign, at least one digit, digits only (base 10 => no underscores), range of int64 *)
Definition atoi (s : bytes) : option Z :=
  let '(neg, ds) := match s with
                    | 45%N :: r => (true, r)
                    | 43%N :: r => (false, r)
                    | _ => (false, s)
                    end in
  match ds with
  | [] => None
  | _ => match digits_val 0 ds with
         | None => None
         | Some v => let v' := if neg then - v else v in
                     if (int_min <=? v') && (v' <=? int_max) then Some v' else None
         end
  end.

(* fmt.Sprintf("%d", n) for n >= 0 *)
Fixpoint dec_aux (fuel : nat) (n : N) (acc : bytes) : bytes :=
  match fuel with
  | O => acc
  | S f => let acc' := (48 + n mod 10)%N :: acc in
           if (n / 10 =? 0)%N then acc' else dec_aux f (n / 10)%N acc'
  end.
Definition dec (n : N) : bytes := dec_aux (S (N.size_nat n)) n [].

(* ------------------------------------------------------------------ parser state *)
Definition MAX_CARG_LEN : Z := 128.

Record parser := mkParser {
  rbuf : bytes;            (* fixed capacity; only [0, bufLen) is fresh *)
  args : list bytes;
  carg : bytes;            (* 128 bytes *)
  argsType : Z;
  bufIndex : Z;
  bufLen : Z;
  stage : Z;
  argsCount : Z;
  cargIndex : Z;
  cargLen : Z }.

Definition new_parser (cap : Z) : parser :=
  mkParser (repeat 0%N (Z.to_nat cap)) [] (repeat 0%N 128) 0 0 0 0 0 0 0.

Definition set_rbuf p v := mkParser v (args p) (carg p) (argsType p) (bufIndex p) (bufLen p) (stage p) (argsCount p) (cargIndex p) (cargLen p).
Definition set_args p v := mkParser (rbuf p) v (carg p) (argsType p) (bufIndex p) (bufLen p) (stage p) (argsCount p) (cargIndex p) (cargLen p).
Definition set_carg p v := mkParser (rbuf p) (args p) v (argsType p) (bufIndex p) (bufLen p) (stage p) (argsCount p) (cargIndex p) (cargLen p).
Definition set_argsType p v := mkParser (rbuf p) (args p) (carg p) v (bufIndex p) (bufLen p) (stage p) (argsCount p) (cargIndex p) (cargLen p).
Definition set_bufIndex p v := mkParser (rbuf p) (args p) (carg p) (argsType p) v (bufLen p) (stage p) (argsCount p) (cargIndex p) (cargLen p).
Definition set_bufLen p v := mkParser (rbuf p) (args p) (carg p) (argsType p) (bufIndex p) v (stage p) (argsCount p) (cargIndex p) (cargLen p).
Definition set_stage p v := mkParser (rbuf p) (args p) (carg p) (argsType p) (bufIndex p) (bufLen p) v (argsCount p) (cargIndex p) (cargLen p).
Definition set_argsCount p v := mkParser (rbuf p) (args p) (carg p) (argsType p) (bufIndex p) (bufLen p) (stage p) v (cargIndex p) (cargLen p).
Definition set_cargIndex p v := mkParser (rbuf p) (args p) (carg p) (argsType p) (bufIndex p) (bufLen p) (stage p) (argsCount p) v (cargLen p).
Definition set_cargLen p v := mkParser (rbuf p) (args p) (carg p) (argsType p) (bufIndex p) (bufLen p) (stage p) (argsCount p) (cargIndex p) v.

(* error classes = the distinct message texts of the code (prefix "Command "/"Response " dropped) *)
Inductive perr := E_STAR | E_COUNT | E_ATOI | E_DOLLAR | E_LEN | E_ARG | E_FIRST | E_MSG.

Inductive outcome := Ok | Err (e : perr) | Panic | OutOfFuel.

(* result of one `case` body of the outer switch: None = go round the outer `for` again *)
Definition step_res := (parser * option outcome)%type.

Definition CH_LF : N := 10.  Definition CH_CR : N := 13.  Definition CH_SP : N := 32.
Definition CH_STAR : N := 42. Definition CH_DOLLAR : N := 36.
Definition CH_PLUS : N := 43. Definition CH_MINUS : N := 45.

(* `if self.bufIndex > 0 && self.rbuf[self.bufIndex-1] != '\r'`  -> Some true = error branch taken *)
Definition cr_check_fails (p : parser) : option bool :=
  if bufIndex p >? 0 then
    match nthZ (rbuf p) (bufIndex p - 1) with
    | None => None
    | Some c => Some (negb (c =? CH_CR)%N)
    end
  else Some false.

(* append to the last element of args: self.args[len(self.args)-1] += s *)
Fixpoint append_last (l : list bytes) (s : bytes) : option (list bytes) :=
  match l with
  | [] => None
  | [x] => Some [x ++ s]
  | x :: r => match append_last r s with Some r' => Some (x :: r') | None => None end
  end.

(* self.args[i] += s *)
Definition append_at (l : list bytes) (i : Z) (s : bytes) : option (list bytes) :=
  match nthZ l i with
  | None => None
  | Some x => setZ l i (x ++ s)
  end.

(* ---- source variants.  The model follows the source text in two places where a repair is proposed
        (proposed_fixes/c14text_*.diff); checks/C14_text.py reads the expressions from the tree under test and
        passes the corresponding switch to the model run:
          fix_cargidx = false : `self.cargIndex = cargLen`       (today)   | true : `self.cargIndex = self.cargLen`
          fix_msgend  = false : `endBufIndex := self.bufIndex`   (today)   | true : `endBufIndex := self.bufIndex - 1` *)
Record variant := mkVariant { fix_cargidx : bool; fix_msgend : bool }.
Definition as_shipped : variant := mkVariant false false.
Definition repaired : variant := mkVariant true true.

(* ---- stages 1 and 3: the decimal scan loop.  is_count = stage 1.  resp only changes nothing here but the
        message text, which coincides after dropping the prefix. *)
Fixpoint scan_num (fuel : nat) (is_count : bool) (p : parser) : step_res :=
  match fuel with
  | O => (p, Some OutOfFuel)
  | S f =>
    if bufIndex p <? bufLen p then
      match nthZ (rbuf p) (bufIndex p) with
      | None => (p, Some Panic)
      | Some c =>
        if (c =? CH_LF)%N then
          match cr_check_fails p with
          | None => (p, Some Panic)
          | Some true => (p, Some (Err (if is_count then E_COUNT else E_LEN)))
          | Some false =>
            match sliceZ (carg p) 0 (cargIndex p) with
            | None => (p, Some Panic)
            | Some s =>
              match atoi s with
              | None => (p, Some (Err (if is_count then E_ATOI else E_COUNT)))
              | Some v =>
                let p1 := if is_count then set_argsCount p v else set_cargLen p v in
                let p2 := set_cargIndex p1 0 in
                let p3 := set_bufIndex p2 (bufIndex p2 + 1) in
                (set_stage p3 (if is_count then 2 else 4), None)
              end
            end
          end
        else if negb (c =? CH_CR)%N then
          if cargIndex p >=? MAX_CARG_LEN then (p, Some (Err E_COUNT))
          else match setZ (carg p) (cargIndex p) c with
               | None => (p, Some Panic)
               | Some cg =>
                 let p1 := set_cargIndex (set_carg p cg) (cargIndex p + 1) in
                 scan_num f is_count (set_bufIndex p1 (bufIndex p1 + 1))
               end
        else scan_num f is_count (set_bufIndex p (bufIndex p + 1))
      end
    else (p, Some Ok)     (* loop ran off the buffer: `if self.stage == 1 { return nil }` *)
  end.

(* ---- stage 4, second half: scan for '\n' after the argument bytes *)
Fixpoint scan_eol (fuel : nat) (p : parser) : step_res :=
  match fuel with
  | O => (p, Some OutOfFuel)
  | S f =>
    if bufIndex p <? bufLen p then
      match nthZ (rbuf p) (bufIndex p) with
      | None => (p, Some Panic)
      | Some c =>
        if (c =? CH_LF)%N then
          match cr_check_fails p with
          | None => (p, Some Panic)
          | Some true => (p, Some (Err E_ARG))
          | Some false =>
            let p1 := if cargLen p =? 0 then set_args p (args p ++ [[]]) else p in
            let p2 := set_cargLen (set_cargIndex p1 0) 0 in
            let p3 := set_bufIndex p2 (bufIndex p2 + 1) in
            if lenZ (args p3) <? argsCount p3 then (set_stage p3 2, None)
            else (set_stage p3 0, Some Ok)
          end
        else scan_eol f (set_bufIndex p (bufIndex p + 1))
      end
    else (p, Some Ok)     (* `if self.stage == 4 { return nil }` *)
  end.

Definition fuel_of (p : parser) : nat := S (Z.to_nat (bufLen p - bufIndex p)).

(* add a piece of argument data: new element when cargIndex == 0, else extend the last one *)
Definition add_piece (p : parser) (s : bytes) : option parser :=
  if cargIndex p =? 0 then Some (set_args p (args p ++ [s]))
  else match append_last (args p) s with
       | None => None
       | Some a => Some (set_args p a)
       end.

Section Variant.
Variable vr : variant.

Definition stage4 (p : parser) : step_res :=
  let need := cargLen p - cargIndex p in
  if need >? 0 then
    if bufLen p - bufIndex p <? need then
      match sliceZ (rbuf p) (bufIndex p) (bufLen p) with
      | None => (p, Some Panic)
      | Some s =>
        match add_piece p s with
        | None => (p, Some Panic)
        | Some p1 =>
          let p2 := set_cargIndex p1 (cargIndex p1 + (bufLen p1 - bufIndex p1)) in
          (set_bufIndex p2 (bufLen p2), Some Ok)
        end
      end
    else
      match sliceZ (rbuf p) (bufIndex p) (bufIndex p + need) with
      | None => (p, Some Panic)
      | Some s =>
        match add_piece p s with
        | None => (p, Some Panic)
        | Some p1 =>
          (* as shipped: the remaining amount `cargLen`, not self.cargLen *)
          let p2 := set_cargIndex p1 (if fix_cargidx vr then cargLen p1 else need) in
          let p3 := set_bufIndex p2 (bufIndex p2 + need) in
          scan_eol (fuel_of p3) p3
        end
      end
  else scan_eol (fuel_of p) p.

(* ---- stage 5 (status / error message text) and 6 (error type word) of ParseResponse *)
Definition add_msg (p : parser) (s : bytes) : option parser :=
  match append_at (args p) (if argsType p =? 2 then 1 else 0) s with
  | None => None
  | Some a => Some (set_args p a)
  end.

Fixpoint scan_msg (fuel : nat) (start endi : Z) (p : parser) : step_res :=
  match fuel with
  | O => (p, Some OutOfFuel)
  | S f =>
    if bufIndex p <? bufLen p then
      match nthZ (rbuf p) (bufIndex p) with
      | None => (p, Some Panic)
      | Some c =>
        if (c =? CH_LF)%N then
          match sliceZ (rbuf p) start (endi + 1) with
          | None => (p, Some Panic)
          | Some s =>
            match add_msg p s with
            | None => (p, Some Panic)
            | Some p1 =>
              match cr_check_fails p1 with
              | None => (p1, Some Panic)
              | Some true => (p1, Some (Err E_MSG))
              | Some false => (set_stage (set_bufIndex p1 (bufIndex p1 + 1)) 0, Some Ok)
              end
            end
          end
        else if negb (c =? CH_CR)%N then scan_msg f start (bufIndex p) (set_bufIndex p (bufIndex p + 1))
        else scan_msg f start endi (set_bufIndex p (bufIndex p + 1))
      end
    else
      match sliceZ (rbuf p) start (endi + 1) with
      | None => (p, Some Panic)
      | Some s => match add_msg p s with
                  | None => (p, Some Panic)
                  | Some p1 => (p1, Some Ok)
                  end
      end
  end.

Fixpoint scan_etype (fuel : nat) (start endi : Z) (p : parser) : step_res :=
  match fuel with
  | O => (p, Some OutOfFuel)
  | S f =>
    if bufIndex p <? bufLen p then
      match nthZ (rbuf p) (bufIndex p) with
      | None => (p, Some Panic)
      | Some c =>
        if (c =? CH_SP)%N then
          match sliceZ (rbuf p) start (endi + 1) with
          | None => (p, Some Panic)
          | Some s => match append_at (args p) 0 s with
                      | None => (p, Some Panic)
                      | Some a => (set_stage (set_bufIndex (set_args p a) (bufIndex p + 1)) 5, None)
                      end
          end
        else if (c =? CH_LF)%N then
          match sliceZ (rbuf p) start (endi + 1) with
          | None => (p, Some Panic)
          | Some s =>
            match append_at (args p) 0 s with
            | None => (p, Some Panic)
            | Some a =>
              let p1 := set_args p a in
              match cr_check_fails p1 with
              | None => (p1, Some Panic)
              | Some true => (p1, Some (Err E_MSG))
              | Some false => (set_stage (set_bufIndex p1 (bufIndex p1 + 1)) 0, Some Ok)
              end
            end
          end
        else if negb (c =? CH_CR)%N then scan_etype f start (bufIndex p) (set_bufIndex p (bufIndex p + 1))
        else scan_etype f start endi (set_bufIndex p (bufIndex p + 1))
      end
    else
      match sliceZ (rbuf p) start (endi + 1) with
      | None => (p, Some Panic)
      | Some s => match append_at (args p) 0 s with
                  | None => (p, Some Panic)
                  | Some a => (set_args p a, Some Ok)
                  end
      end
  end.

(* ---- one iteration of the outer `for self.bufIndex < self.bufLen { switch self.stage {...} }` *)
Definition stage_body (resp : bool) (p : parser) : step_res :=
  let st := stage p in
  if st =? 0 then
    match nthZ (rbuf p) (bufIndex p) with
    | None => (p, Some Panic)
    | Some c =>
      if resp then
        if (c =? CH_PLUS)%N then
          (set_stage (set_bufIndex (set_argsType (set_argsCount (set_args p (args p ++ [[]])) 0) 1) (bufIndex p + 1)) 5, None)
        else if (c =? CH_MINUS)%N then
          (set_stage (set_bufIndex (set_argsType (set_argsCount (set_args p (args p ++ [[]; []])) 0) 2) (bufIndex p + 1)) 6, None)
        else if (c =? CH_DOLLAR)%N then
          (set_stage (set_bufIndex (set_argsType p 3) (bufIndex p + 1)) 3, None)
        else if (c =? CH_STAR)%N then
          (set_stage (set_bufIndex (set_argsType p 4) (bufIndex p + 1)) 1, None)
        else (p, Some (Err E_FIRST))
      else
        if (c =? CH_STAR)%N then
          (set_stage (set_argsType (set_bufIndex p (bufIndex p + 1)) 0) 1, None)
        else (p, Some (Err E_STAR))
    end
  else if st =? 1 then scan_num (fuel_of p) true p
  else if st =? 2 then
    match nthZ (rbuf p) (bufIndex p) with
    | None => (p, Some Panic)
    | Some c => if (c =? CH_DOLLAR)%N then (set_stage (set_bufIndex p (bufIndex p + 1)) 3, None)
                else (p, Some (Err E_DOLLAR))
    end
  else if st =? 3 then scan_num (fuel_of p) false p
  else if st =? 4 then stage4 p
  else if resp && (st =? 5) then scan_msg (fuel_of p) (bufIndex p) (if fix_msgend vr then bufIndex p - 1 else bufIndex p) p
  else if resp && (st =? 6) then scan_etype (fuel_of p) (bufIndex p) (if fix_msgend vr then bufIndex p - 1 else bufIndex p) p
  else (p, None).   (* no case matches: the Go loop would spin forever; unreachable (stage in 0..6) and
                       reported as OutOfFuel by parse_loop *)

Fixpoint parse_loop (fuel : nat) (resp : bool) (p : parser) : parser * outcome :=
  match fuel with
  | O => (p, OutOfFuel)
  | S f =>
    if bufIndex p <? bufLen p then
      match stage_body resp p with
      | (p', None) => parse_loop f resp p'
      | (p', Some o) => (p', o)
      end
    else (p, Ok)
  end.

(* ParseRequest = parse false, ParseResponse = parse true.  Every iteration that does not return consumes a byte. *)
Definition parse (resp : bool) (p : parser) : parser * outcome :=
  parse_loop (S (fuel_of p)) resp p.

(* ------------------------------------------------------------------ the caller's side *)
(* n := Read(rbuf) delivering `chunk` (at most len(rbuf) bytes are stored), then BufferUpdate(len chunk) *)
Definition load (p : parser) (chunk : bytes) : parser :=
  set_bufIndex (set_bufLen (set_rbuf p (copyZ (rbuf p) chunk)) (lenZ chunk)) 0.

Definition reset (p : parser) : parser := set_argsCount (set_args p []) 0.

(* a finished command as the caller sees it: (argsType, args) *)
Definition cmd := (Z * list bytes)%type.

(* the caller's loop on one loaded buffer: parse; on finish hand over the command, Reset, continue while bytes remain *)
Fixpoint drain (fuel : nat) (resp : bool) (p : parser) (acc : list cmd) : parser * list cmd * outcome :=
  match fuel with
  | O => (p, acc, OutOfFuel)
  | S f =>
    match parse resp p with
    | (p1, Ok) =>
      if stage p1 =? 0 then
        let acc1 := acc ++ [(argsType p1, args p1)] in
        let p2 := reset p1 in
        if bufIndex p2 =? bufLen p2 then (p2, acc1, Ok) else drain f resp p2 acc1
      else if bufIndex p1 =? bufLen p1 then (p1, acc, Ok)   (* unfinished at the end of the buffer: read more *)
      else drain f resp p1 acc                              (* ParseRequest returns nil unfinished only at the end of the buffer *)
    | (p1, o) => (p1, acc, o)
    end
  end.

Definition feed (resp : bool) (p : parser) (chunk : bytes) : parser * list cmd * outcome :=
  let p0 := load p chunk in drain (S (Z.to_nat (lenZ chunk))) resp p0 [].

Fixpoint feed_all (resp : bool) (p : parser) (chunks : list bytes) (acc : list cmd) : parser * list cmd * outcome :=
  match chunks with
  | [] => (p, acc, Ok)
  | c :: cs =>
    match feed resp p c with
    | (p1, out, Ok) => feed_all resp p1 cs (acc ++ out)
    | (p1, out, o) => (p1, acc ++ out, o)
    end
  end.

End Variant.

(* ------------------------------------------------------------------ BuildRequest / BuildResponse *)
Definition crlf : bytes := [CH_CR; CH_LF].
Definition bulk (a : bytes) : bytes := CH_DOLLAR :: dec (Z.to_N (lenZ a)) ++ crlf ++ a ++ crlf.

Definition build_request (l : list bytes) : bytes :=
  CH_STAR :: dec (Z.to_N (lenZ l)) ++ crlf ++ concat (map bulk l).

Definition build_response (success : bool) (message : bytes) (results : list bytes) : bytes :=
  if negb success then CH_MINUS :: message ++ crlf
  else match results with
       | [] => CH_PLUS :: message ++ crlf
       | [r] => bulk r
       | _ => CH_STAR :: dec (Z.to_N (lenZ results)) ++ crlf ++ concat (map bulk results)
       end.
