(* Lemmas about the Z-indexed list accessors of TextParse.v *)
From Coq Require Import List NArith ZArith Bool Lia ZifyN ZifyBool ZifyNat.
From Slock Require Import Text.TextParse.
Import ListNotations.
Open Scope Z_scope.

Lemma lenZ_nonneg {A} (l : list A) : 0 <= lenZ l.
Proof. induction l; simpl; lia. Qed.

Lemma lenZ_app {A} (l1 l2 : list A) : lenZ (l1 ++ l2) = lenZ l1 + lenZ l2.
Proof. induction l1; simpl; lia. Qed.

Lemma lenZ_cons {A} (x : A) l : lenZ (x :: l) = lenZ l + 1.
Proof. simpl; lia. Qed.

Lemma lenZ_length {A} (l : list A) : lenZ l = Z.of_nat (length l).
Proof. induction l; simpl length; [reflexivity|]. rewrite lenZ_cons, IHl. lia. Qed.

Lemma lenZ_nil_inv {A} (l : list A) : lenZ l = 0 -> l = [].
Proof. destruct l; auto. rewrite lenZ_cons. pose proof (lenZ_nonneg l). lia. Qed.

Lemma nthZ_app_r {A} (pre : list A) x r : nthZ (pre ++ x :: r) (lenZ pre) = Some x.
Proof.
  induction pre as [|a pre IH]; simpl.
  - reflexivity.
  - pose proof (lenZ_nonneg pre).
    destruct (Z.succ (lenZ pre) =? 0) eqn:E; [apply Z.eqb_eq in E; lia|].
    destruct (Z.succ (lenZ pre) <? 0) eqn:E2; [apply Z.ltb_lt in E2; lia|].
    rewrite Z.pred_succ. exact IH.
Qed.

Lemma nthZ_last {A} (pre r : list A) d : pre <> [] -> nthZ (pre ++ r) (lenZ pre - 1) = Some (last pre d).
Proof.
  intros H. destruct (exists_last H) as [q [x E]]. subst pre.
  rewrite last_last, lenZ_app. rewrite <- app_assoc.
  replace (lenZ q + lenZ [x] - 1) with (lenZ q) by (simpl; lia). apply nthZ_app_r.
Qed.

Lemma skipZ_0 {A} (l : list A) : skipZ 0 l = l.
Proof. destruct l; reflexivity. Qed.

Lemma skipZ_app {A} (pre r : list A) : skipZ (lenZ pre) (pre ++ r) = r.
Proof.
  induction pre as [|a pre IH]; simpl.
  - apply skipZ_0.
  - pose proof (lenZ_nonneg pre).
    destruct (Z.succ (lenZ pre) <=? 0) eqn:E; [apply Z.leb_le in E; lia|].
    rewrite Z.pred_succ. exact IH.
Qed.

Lemma takeZ_app {A} (d r : list A) : takeZ (lenZ d) (d ++ r) = d.
Proof.
  induction d as [|a d IH]; simpl.
  - destruct r; reflexivity.
  - pose proof (lenZ_nonneg d).
    destruct (Z.succ (lenZ d) <=? 0) eqn:E; [apply Z.leb_le in E; lia|].
    rewrite Z.pred_succ, IH. reflexivity.
Qed.

Lemma takeZ_all {A} (d : list A) : takeZ (lenZ d) d = d.
Proof. rewrite <- (app_nil_r d) at 2. apply takeZ_app. Qed.

Lemma takeZ_0 {A} (l : list A) : takeZ 0 l = [].
Proof. destruct l; reflexivity. Qed.

Lemma takeZ_skipZ {A} n (l : list A) : takeZ n l ++ skipZ n l = l.
Proof.
  revert n. induction l as [|a l IH]; intros n; simpl; [reflexivity|].
  destruct (n <=? 0); simpl; [reflexivity|]. rewrite IH. reflexivity.
Qed.

Lemma lenZ_takeZ {A} n (l : list A) : 0 <= n <= lenZ l -> lenZ (takeZ n l) = n.
Proof.
  revert n. induction l as [|a l IH]; intros n H; simpl in *.
  - lia.
  - destruct (n <=? 0) eqn:E.
    + apply Z.leb_le in E. simpl. lia.
    + apply Z.leb_gt in E. simpl. rewrite IH; lia.
Qed.

Lemma sliceZ_mid {A} (pre d r : list A) :
  sliceZ (pre ++ d ++ r) (lenZ pre) (lenZ pre + lenZ d) = Some d.
Proof.
  unfold sliceZ. pose proof (lenZ_nonneg pre). pose proof (lenZ_nonneg d). pose proof (lenZ_nonneg r).
  rewrite !lenZ_app.
  replace (0 <=? lenZ pre) with true by (symmetry; apply Z.leb_le; lia).
  replace (lenZ pre <=? lenZ pre + lenZ d) with true by (symmetry; apply Z.leb_le; lia).
  replace (lenZ pre + lenZ d <=? lenZ pre + (lenZ d + lenZ r)) with true by (symmetry; apply Z.leb_le; lia).
  simpl. rewrite skipZ_app. replace (lenZ pre + lenZ d - lenZ pre) with (lenZ d) by lia.
  rewrite takeZ_app. reflexivity.
Qed.

Lemma sliceZ_prefix {A} (l : list A) n : 0 <= n <= lenZ l -> sliceZ l 0 n = Some (takeZ n l).
Proof.
  intros H. unfold sliceZ.
  replace (0 <=? 0) with true by reflexivity.
  replace (0 <=? n) with true by (symmetry; apply Z.leb_le; lia).
  replace (n <=? lenZ l) with true by (symmetry; apply Z.leb_le; lia).
  simpl. rewrite skipZ_0, Z.sub_0_r. reflexivity.
Qed.

Lemma setZ_app {A} (pre : list A) y r x : setZ (pre ++ y :: r) (lenZ pre) x = Some (pre ++ x :: r).
Proof.
  induction pre as [|a pre IH]; simpl.
  - reflexivity.
  - pose proof (lenZ_nonneg pre).
    destruct (Z.succ (lenZ pre) =? 0) eqn:E; [apply Z.eqb_eq in E; lia|].
    destruct (Z.succ (lenZ pre) <? 0) eqn:E2; [apply Z.ltb_lt in E2; lia|].
    rewrite Z.pred_succ, IH. reflexivity.
Qed.

(* storing one more character of the decimal into carg *)
Lemma carg_push (cg : bytes) (num : bytes) c :
  takeZ (lenZ num) cg = num -> lenZ num < lenZ cg ->
  exists cg', setZ cg (lenZ num) c = Some cg' /\ takeZ (lenZ num + 1) cg' = num ++ [c] /\ lenZ cg' = lenZ cg.
Proof.
  intros Ht Hl.
  pose proof (takeZ_skipZ (lenZ num) cg) as E. rewrite Ht in E.
  destruct (skipZ (lenZ num) cg) as [|y r] eqn:Es.
  - rewrite app_nil_r in E. subst cg. lia.
  - exists (num ++ c :: r). rewrite <- E. rewrite setZ_app. split; [reflexivity|]. split.
    + replace (num ++ c :: r) with ((num ++ [c]) ++ r) by (rewrite <- app_assoc; reflexivity).
      replace (lenZ num + 1) with (lenZ (num ++ [c])) by (rewrite lenZ_app; simpl; lia).
      apply takeZ_app.
    + rewrite !lenZ_app. simpl. lia.
Qed.

Lemma copyZ_app {A} (dst src : list A) : lenZ src <= lenZ dst -> copyZ dst src = src ++ skipZ (lenZ src) dst.
Proof.
  revert dst. induction src as [|s src IH]; intros dst H.
  - simpl. rewrite skipZ_0. destruct dst; reflexivity.
  - destruct dst as [|d dst]; simpl in H.
    + pose proof (lenZ_nonneg src). lia.
    + simpl. pose proof (lenZ_nonneg src).
      destruct (Z.succ (lenZ src) <=? 0) eqn:E; [apply Z.leb_le in E; lia|].
      rewrite Z.pred_succ, IH by lia. reflexivity.
Qed.

Lemma append_last_app (l : list bytes) x s : append_last (l ++ [x]) s = Some (l ++ [x ++ s]).
Proof.
  induction l as [|a l IH]; simpl; [reflexivity|].
  rewrite IH. destruct (l ++ [x]) eqn:E; [destruct l; discriminate|]. reflexivity.
Qed.

Lemma append_last_some (l : list bytes) s : l <> [] -> exists q x, l = q ++ [x] /\ append_last l s = Some (q ++ [x ++ s]).
Proof.
  intros H. destruct (exists_last H) as [q [x E]]. exists q, x. split; [exact E|]. subst. apply append_last_app.
Qed.

Lemma lenZ_repeat_N {A} (x : A) n : lenZ (repeat x n) = Z.of_nat n.
Proof. induction n; [reflexivity|]. cbn [repeat]. rewrite lenZ_cons, IHn. lia. Qed.
