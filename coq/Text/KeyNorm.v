(* Key / lock-id normalisation of the text protocol:
     protocol/textcommand.go:68-107  TextCommandConverter.ConvertArgId2LockId
     protocol/protocol.go:60-88      ConvertString2LockKey
   Both functions have the same shape (checked on every run by the correspondence: harness case `K`):
     len = 16            -> the 16 bytes verbatim
     len > 16, len = 32  -> hex.DecodeString; on error MD5
     len > 16 otherwise  -> MD5
     len < 16            -> LEFT-padded with (16 - len) zero bytes  (lockId[i] = 0 for i < 16-len, then the string)
   MD5 is a Section variable (no Axiom); the only fact used is that a digest has 16 bytes. *)
From Coq Require Import List NArith ZArith Bool Lia.
From Slock Require Import Text.TextParse.
Import ListNotations.
Open Scope Z_scope.

(* encoding/hex: fromHexChar *)
Definition hexval (c : N) : option N :=
  if (48 <=? c)%N && (c <=? 57)%N then Some (c - 48)%N
  else if (97 <=? c)%N && (c <=? 102)%N then Some (c - 87)%N
  else if (65 <=? c)%N && (c <=? 70)%N then Some (c - 55)%N
  else None.

(* hex.DecodeString: odd length or a non-hex character is an error *)
Fixpoint hex_decode (l : bytes) : option bytes :=
  match l with
  | [] => Some []
  | [_] => None
  | a :: b :: r =>
    match hexval a, hexval b, hex_decode r with
    | Some x, Some y, Some t => Some ((16 * x + y)%N :: t)
    | _, _, _ => None
    end
  end.

Section MD5.
  Variable md5 : bytes -> bytes.

  Definition arg2id (s : bytes) : bytes :=
    let n := lenZ s in
    if n =? 16 then s
    else if n >? 16 then
      if n =? 32 then
        match hex_decode s with
        | Some v => v
        | None => md5 s
        end
      else md5 s
    else repeat 0%N (Z.to_nat (16 - n)) ++ s.
End MD5.
