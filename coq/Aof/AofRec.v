(* Hand model of the 64-byte AofLock record (server/aof.go:50-145, Encode/Decode) and of the field accessors the
   loader uses on the raw buffer.  NOTE (STATUS.md): to be replaced by / proved equal to the generated codec of
   coq/Gen + coq/Codec once that exists; nothing here depends on it.

   On-file layout (WriteLock/AppendLock set bytes 0,1 = 62,0 = little-endian length of the rest):
     0-1 len(62)  2 CommandType  3-6 AofOffset  7-10 AofIndex  11-18 CommandTime  19 Flag  20 DbId
     21-36 LockId  37-52 LockKey  53-54 StartTime  55-56 AofFlag  57-58 ExpriedTime  59-60 ExpriedFlag
     61-62 Count  63 Rcount *)
From Coq Require Import List NArith ZArith Bool Lia.
Import ListNotations.
Open Scope N_scope.

Definition bytes := list N.

Definition has (x m : N) : bool := negb (N.land x m =? 0).

(* little endian *)
Fixpoint le (n : nat) (x : N) : bytes :=
  match n with
  | O => []
  | S k => (x mod 256) :: le k (x / 256)
  end.

Fixpoint unle (l : bytes) : N :=
  match l with
  | [] => 0
  | b :: r => b + 256 * unle r
  end.

Definition byte_ok (b : N) : Prop := b < 256.

Lemma le_length n x : length (le n x) = n.
Proof. revert x; induction n; simpl; auto. Qed.

Lemma unle_le n x : unle (le n x) = x mod 2 ^ (8 * N.of_nat n).
Proof.
  revert x; induction n as [|n IH]; intros x.
  - simpl. rewrite N.mod_1_r. reflexivity.
  - cbn [le unle]. rewrite IH.
    replace (8 * N.of_nat (S n)) with (8 + 8 * N.of_nat n) by lia.
    rewrite N.pow_add_r. change (2 ^ 8) with 256.
    rewrite N.mod_mul_r by (try apply N.pow_nonzero; lia). lia.
Qed.

Lemma le_bytes_ok n x : Forall byte_ok (le n x).
Proof.
  revert x; induction n; intros x; simpl; constructor; auto.
  unfold byte_ok. apply N.mod_lt. lia.
Qed.

Definition nthb (l : bytes) (i : nat) : N := nth i l 0.

Definition sub (l : bytes) (off len : nat) : bytes := firstn len (skipn off l).

(* ---- decoded view ---- *)
Record aofrec := mkrec {
  r_type : N; r_offset : N; r_index : N; r_ctime : N; r_flag : N; r_db : N;
  r_lockid : bytes; r_key : bytes;
  r_start : N; r_aofflag : N; r_etime : N; r_eflag : N; r_count : N; r_rcount : N }.

Definition encode (r : aofrec) : bytes :=
  [62; 0; r_type r] ++ le 4 (r_offset r) ++ le 4 (r_index r) ++ le 8 (r_ctime r) ++ [r_flag r; r_db r]
  ++ r_lockid r ++ r_key r
  ++ le 2 (r_start r) ++ le 2 (r_aofflag r) ++ le 2 (r_etime r) ++ le 2 (r_eflag r) ++ le 2 (r_count r) ++ [r_rcount r].

Definition decode (b : bytes) : aofrec :=
  mkrec (nthb b 2) (unle (sub b 3 4)) (unle (sub b 7 4)) (unle (sub b 11 8)) (nthb b 19) (nthb b 20)
        (sub b 21 16) (sub b 37 16)
        (unle (sub b 53 2)) (unle (sub b 55 2)) (unle (sub b 57 2)) (unle (sub b 59 2)) (unle (sub b 61 2)) (nthb b 63).

Definition wf_rec (r : aofrec) : Prop :=
  r_type r < 256 /\ r_offset r < 2 ^ 32 /\ r_index r < 2 ^ 32 /\ r_ctime r < 2 ^ 64 /\ r_flag r < 256 /\ r_db r < 256
  /\ length (r_lockid r) = 16%nat /\ length (r_key r) = 16%nat
  /\ r_start r < 2 ^ 16 /\ r_aofflag r < 2 ^ 16 /\ r_etime r < 2 ^ 16 /\ r_eflag r < 2 ^ 16 /\ r_count r < 2 ^ 16
  /\ r_rcount r < 256.

Lemma encode_length r : length (r_lockid r) = 16%nat -> length (r_key r) = 16%nat -> length (encode r) = 64%nat.
Proof.
  intros H1 H2. unfold encode. repeat rewrite app_length. repeat rewrite le_length. rewrite H1, H2. reflexivity.
Qed.

Lemma sub_app_skip (a b : bytes) off len : length a = off -> sub (a ++ b) off len = firstn len b.
Proof.
  intros H. unfold sub. rewrite skipn_app. rewrite <- H. rewrite skipn_all, Nat.sub_diag. reflexivity.
Qed.

Lemma firstn_app_exact {A} (a b : list A) n : length a = n -> firstn n (a ++ b) = a.
Proof. intros <-. rewrite firstn_app, Nat.sub_diag, firstn_all. simpl. apply app_nil_r. Qed.

Lemma list16 (l : bytes) : length l = 16%nat ->
  exists a0 a1 a2 a3 a4 a5 a6 a7 a8 a9 a10 a11 a12 a13 a14 a15, l = [a0;a1;a2;a3;a4;a5;a6;a7;a8;a9;a10;a11;a12;a13;a14;a15].
Proof.
  intros H. do 16 (destruct l as [|? l]; [discriminate|]). destruct l; [|discriminate].
  repeat eexists.
Qed.

(* Decode inverts Encode on in-range records (the loader works on raw bytes; this is for readable corollaries) *)
Theorem decode_encode r : wf_rec r -> decode (encode r) = r.
Proof.
  intros (Ht & Ho & Hi & Hc & Hf & Hd & Hl & Hk & Hs & Ha & He & Hef & Hcn & Hr).
  destruct r as [ty off idx ct fl db lid key st af et ef cn rc]; cbn [r_type r_offset r_index r_ctime r_flag r_db r_lockid r_key
    r_start r_aofflag r_etime r_eflag r_count r_rcount] in *.
  destruct (list16 lid Hl) as (l0&l1&l2&l3&l4&l5&l6&l7&l8&l9&l10&l11&l12&l13&l14&l15&->).
  destruct (list16 key Hk) as (k0&k1&k2&k3&k4&k5&k6&k7&k8&k9&k10&k11&k12&k13&k14&k15&->).
  unfold decode, encode.
  cbn [le app sub skipn firstn nthb nth r_type r_offset r_index r_ctime r_flag r_db r_lockid r_key
    r_start r_aofflag r_etime r_eflag r_count r_rcount].
  pose proof (unle_le 4 off) as E1. pose proof (unle_le 4 idx) as E2. pose proof (unle_le 8 ct) as E3.
  pose proof (unle_le 2 st) as E4. pose proof (unle_le 2 af) as E5. pose proof (unle_le 2 et) as E6.
  pose proof (unle_le 2 ef) as E7. pose proof (unle_le 2 cn) as E8.
  cbn [le] in E1, E2, E3, E4, E5, E6, E7, E8.
  rewrite E1, E2, E3, E4, E5, E6, E7, E8.
  change (8 * N.of_nat 4) with 32. change (8 * N.of_nat 8) with 64. change (8 * N.of_nat 2) with 16.
  rewrite !N.mod_small by assumption. reflexivity.
Qed.

(* ---- accessors on the raw 64-byte buffer used by LoadAofFile (after lock.Decode()) ---- *)
Definition b_len (b : bytes) : N := nthb b 0 + 256 * nthb b 1.
Definition b_type (b : bytes) : N := nthb b 2.
Definition b_ctime (b : bytes) : N := unle (sub b 11 8).
Definition b_aofflag (b : bytes) : N := nthb b 55 + 256 * nthb b 56.
Definition b_etime (b : bytes) : N := nthb b 57 + 256 * nthb b 58.
Definition b_eflag (b : bytes) : N := nthb b 59 + 256 * nthb b 60.

Definition AOF_FLAG_CONTAINS_DATA : N := 0x2000.
Definition EXPRIED_FLAG_MINUTE_TIME : N := 0x0040.
Definition EXPRIED_FLAG_MILLISECOND_TIME : N := 0x0400.
Definition EXPRIED_FLAG_UNLIMITED_EXPRIED_TIME : N := 0x4000.

Definition has_data (b : bytes) : bool := has (b_aofflag b) AOF_FLAG_CONTAINS_DATA.

(* int64(x) of a uint64 value *)
Definition to_i64 (x : N) : Z :=
  let y := x mod 2 ^ 64 in if y <? 2 ^ 63 then Z.of_N y else (Z.of_N y - 2 ^ 64)%Z.

(* the expiry filter of LoadAofFile (aof.go:1511-1523); [now] is the wall clock handed in by the caller *)
Definition expired_at (now : Z) (b : bytes) : bool :=
  let ct := b_ctime b in let et := b_etime b in let ef := b_eflag b in
  if has ef EXPRIED_FLAG_MILLISECOND_TIME then (to_i64 (ct + et / 1000) <=? now)%Z
  else if has ef EXPRIED_FLAG_MINUTE_TIME then (to_i64 (ct + et * 60) <=? now)%Z
  else if negb (has ef EXPRIED_FLAG_UNLIMITED_EXPRIED_TIME) then ((0 <? et) && (to_i64 (ct + et) <=? now)%Z)
  else false.
