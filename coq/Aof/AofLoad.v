(* LoadAofFile / LoadAofFiles / FindAofFiles (server/aof.go:1398-1536) over the byte-exact file model, the recovered
   state [recover dir now] = the list of (record, value) pairs handed to LoadLock -> AofChannel.HandleLoad, in order,
   and a small reference replayer [holds_of] for readable corollaries. *)
From Coq Require Import List NArith ZArith Bool Lia PeanoNat.
From Slock Require Import Aof.AofRec Aof.AofFile.
Import ListNotations.
Open Scope N_scope.

(* what the iterator receives: the 64 raw bytes of lock.buf and lock.data *)
Definition item := (bytes * option bytes)%type.

(* outcome of LoadAofFile: nil (go on with the next file) | io.EOF (stop everything, success) | another error *)
Inductive status := SCont | SStop | SFail (e : err) | SFuel.

Definition keep (now : Z) (it : item) (rest : list item) : list item :=
  if expired_at now (fst it) then rest else it :: rest.

(* the for-loop of LoadAofFile (aof.go:1486-1535) with the LoadAndInit iterator (always (true, nil)); [dr] = the buffered
   reader of the value file ([None] = the .dat file could not be opened), values are read by the byte-exact
   AofFile.read_data_b *)
Fixpoint load_loop (fx : fixes) (now : Z) (fuel : nat) (r : rd) (dr : option rd) (lbuf : bytes)
  : list item * status * bytes :=
  match fuel with
  | O => ([], SFuel, lbuf)
  | S f =>
    match read_lock fx r lbuf with
    | (Some EOF, lbuf', _) => ([], SCont, lbuf')
    | (Some e, lbuf', _) => ([], SFail e, lbuf')
    | (None, lbuf', r') =>
      if has_data lbuf' then
        match read_data_b dr with
        | inr EOF => ([], SStop, lbuf')
        | inr EFuel => ([], SFuel, lbuf')
        | inr e => ([], SFail e, lbuf')
        | inl (v, dr') =>
          let '(its, st, lb) := load_loop fx now f r' (Some dr') lbuf' in (keep now (lbuf', Some v) its, st, lb)
        end
      else
        let '(its, st, lb) := load_loop fx now f r' dr lbuf' in (keep now (lbuf', None) its, st, lb)
    end
  end.

(* LoadAofFile: Open in read mode (missing .dat tolerated), ReadHeader, loop; the value file is read through a bufio
   reader of bs*64 bytes (AofFile.dat_rd) *)
Definition load_file (fx : fixes) (bs : nat) (now : Z) (aof dat : option bytes) (lbuf : bytes)
  : list item * status * bytes :=
  match aof with
  | None => ([], SFail ENoFile, lbuf)
  | Some a =>
    match read_header fx (new_rd bs a) with
    | (Some EOF, _) => ([], SStop, lbuf)
    | (Some e, _) => ([], SFail e, lbuf)
    | (None, r) => load_loop fx now (S (length a)) r (option_map (dat_rd bs) dat) lbuf
    end
  end.

Inductive loaded := LOk (its : list item) | LFail (e : err) (its : list item) | LFuel.

(* LoadAofFiles (aof.go:1461-1476): one AofLock (buffer) for all files; io.EOF from a file ends the whole load *)
Fixpoint load_files (fx : fixes) (bs : nat) (now : Z) (files : list (option bytes * option bytes)) (lbuf : bytes) : loaded :=
  match files with
  | [] => LOk []
  | (a, d) :: tl =>
    match load_file fx bs now a d lbuf with
    | (its, SCont, lb) =>
      match load_files fx bs now tl lb with
      | LOk its' => LOk (its ++ its')
      | LFail e its' => LFail e (its ++ its')
      | LFuel => LFuel
      end
    | (its, SStop, _) => LOk its
    | (its, SFail e, _) => LFail e its
    | (_, SFuel, _) => LFuel
    end
  end.

Definition zero_buf : bytes := repeat 0 64.   (* NewAofLock(): make([]byte, 64) *)

(* ------------------------------------------------------------------ directory *)
Inductive fname := FRewrite | FRewriteDat | FTmp | FTmpDat | FAppend (i : N) | FAppendDat (i : N).

Definition fname_eqb (a b : fname) : bool :=
  match a, b with
  | FRewrite, FRewrite | FRewriteDat, FRewriteDat | FTmp, FTmp | FTmpDat, FTmpDat => true
  | FAppend i, FAppend j | FAppendDat i, FAppendDat j => i =? j
  | _, _ => false
  end.

Definition dir := list (fname * bytes).

Fixpoint dget (d : dir) (f : fname) : option bytes :=
  match d with
  | [] => None
  | (g, b) :: tl => if fname_eqb g f then Some b else dget tl f
  end.

Fixpoint ddel (d : dir) (f : fname) : dir :=
  match d with
  | [] => []
  | (g, b) :: tl => if fname_eqb g f then ddel tl f else (g, b) :: ddel tl f
  end.

Definition dset (d : dir) (f : fname) (b : bytes) : dir := (f, b) :: ddel d f.

Definition dat_of (f : fname) : fname :=
  match f with FRewrite => FRewriteDat | FTmp => FTmpDat | FAppend i => FAppendDat i | g => g end.

Definition append_indices (d : dir) : list N :=
  flat_map (fun p => match fst p with FAppend i => [i] | _ => [] end) d.

Definition nmin (l : list N) : N := fold_right N.min 0xffffffff l.
Definition nmax (l : list N) : N := fold_right N.max 0 l.

Inductive found := Found (appends : list N) (rewrite : bool) | FindIndexError | FindWrapUnsupported.

(* FindAofFiles (aof.go:1398-1459): every index between the smallest and the largest must exist.
   The uint32 wrap-around branch (max-min >= 0x7fffffff) is not modelled: distinct outcome, excluded by the theorems. *)
Definition find_aof_files (d : dir) : found :=
  let idx := append_indices d in
  let rw := match dget d FRewrite with Some _ => true | None => false end in
  match idx with
  | [] => Found [] rw
  | _ =>
    let lo := nmin idx in let hi := nmax idx in
    if 0x7fffffff <=? hi - lo then FindWrapUnsupported
    else
      let want := map (fun k => lo + N.of_nat k) (seq 0 (S (N.to_nat (hi - lo)))) in
      if forallb (fun i => existsb (N.eqb i) idx) want then Found want rw else FindIndexError
  end.

Inductive recovered := ROk (its : list item) | RStartFails (e : err) (its : list item) | RFindError | RUnsupported.

(* what LoadAndInit hands to the lock engine on the next start *)
Definition recover (fx : fixes) (bs : nat) (d : dir) (now : Z) : recovered :=
  match find_aof_files d with
  | FindIndexError => RFindError
  | FindWrapUnsupported => RUnsupported
  | Found apps rw =>
    let names := (if rw then [FRewrite] else []) ++ map FAppend apps in
    match load_files fx bs now (map (fun f => (dget d f, dget d (dat_of f))) names) zero_buf with
    | LOk its => ROk its
    | LFail e its => RStartFails e its
    | LFuel => RUnsupported
    end
  end.

(* ------------------------------------------------------------------ reference replayer *)
(* (db, key, lockid, depth): LOCK adds a hold or deepens it; any other command type (UNLOCK, and LOCK records are the
   only two the engine writes; EXPRIED/TIMEOUTED are AofFlag bits on UNLOCK records) releases: Rcount = 0 removes the
   hold entirely, otherwise the depth is decreased by Rcount (hold removed when it reaches 0). *)
Definition hold := (N * bytes * bytes * N)%type.

Definition same_hold (db : N) (key lid : bytes) (h : hold) : bool :=
  let '(db', key', lid', _) := h in (db =? db') && bytes_eqb key key' && bytes_eqb lid lid'.

Fixpoint deepen (hs : list hold) (db : N) (key lid : bytes) : list hold :=
  match hs with
  | [] => [(db, key, lid, 1)]
  | h :: tl => if same_hold db key lid h then (let '(a, b, c, n) := h in (a, b, c, n + 1)) :: tl else h :: deepen tl db key lid
  end.

Fixpoint release (hs : list hold) (db : N) (key lid : bytes) (rc : N) : list hold :=
  match hs with
  | [] => []
  | h :: tl =>
    if same_hold db key lid h then
      let '(a, b, c, n) := h in if (rc =? 0) || (n <=? rc) then tl else (a, b, c, n - rc) :: tl
    else h :: release tl db key lid rc
  end.

Definition replay1 (hs : list hold) (b : bytes) : list hold :=
  let r := decode b in
  if r_type r =? 1 then deepen hs (r_db r) (r_key r) (r_lockid r)
  else release hs (r_db r) (r_key r) (r_lockid r) (r_rcount r).

Definition holds_of (recs : list bytes) : list hold := fold_left replay1 recs [].
