(* C16: what the compaction writes, read back, is exactly the HasLock-filtered records in order (values aligned,
   nothing torn); refutations for the crash points of clearRewriteAofFiles. *)
From Coq Require Import List NArith ZArith Bool Lia PeanoNat.
From Slock Require Import Aof.AofRec Aof.AofFile Aof.AofLoad Aof.AofProofs Aof.Rewrite.
Import ListNotations.
Open Scope N_scope.

(* items as delivered by a load: consistent = a value is attached iff the record carries AOF_FLAG_CONTAINS_DATA *)
Definition wf_ditem (it : item) : Prop :=
  length (fst it) = 64%nat /\
  match snd it with
  | Some v => has_data (norm (fst it)) = true /\ wf_val v
  | None => has_data (norm (fst it)) = false
  end.

Lemma item_ops_wf l : Forall wf_ditem l -> Forall wf_op (item_ops l).
Proof.
  induction 1 as [|it l [Hl Hv] _ IH]; [constructor|]. cbn [item_ops map]. constructor; auto.
  split; auto. destruct (snd it) as [v|]; [destruct Hv; auto|]. rewrite Hv. discriminate.
Qed.

Lemma deliver_item_ops l : Forall wf_ditem l ->
  deliver (items_of (item_ops l)) = map (fun it => (norm (fst it), snd it)) l.
Proof.
  induction 1 as [|it l [Hl Hv] _ IH]; [reflexivity|].
  cbn [item_ops map items_of flat_map item_of_op app deliver].
  fold (item_ops l). fold (items_of (item_ops l)). fold (deliver (items_of (item_ops l))). rewrite IH. f_equal.
  unfold deliver1. cbn [fst snd]. destruct (snd it) as [v|].
  - destruct Hv as [-> _]. reflexivity.
  - rewrite Hv. reflexivity.
Qed.

(* (a) the rewrite file written from the kept items and closed, then loaded: exactly the kept items, in order *)
Theorem rewrite_file_roundtrip fx bs rbs now (l : list item) lbuf :
  (64 <= rbs)%nat -> Forall wf_ditem l -> lbuf_ok lbuf ->
  let '(a, d) := apply_trace (run_ops bs (mkwst [] []) (item_ops l)) header [] in
  exists lb, load_file fx rbs now (Some a) (Some d) lbuf
             = (live now (map (fun it => (norm (fst it), snd it)) l), SCont, lb) /\ lbuf_ok lb.
Proof.
  intros Hbs Hwf Hlb.
  pose proof (item_ops_wf l Hwf) as Hops.
  assert (HI : Inv (mkwst [] []) header [] []) by (exists [], []; repeat split; reflexivity).
  rewrite (run_ops_final bs (item_ops l) (mkwst [] []) header [] [] (Forall_nil _) Hops HI). cbn [app].
  set (its := items_of (item_ops l)).
  assert (Hwfi : Forall wf_item its) by (apply items_of_wf; auto).
  assert (Hv : vals (firstn (length its) its) = vals its ++ []) by (rewrite firstn_all, app_nil_r; reflexivity).
  destruct (load_body fx rbs now its (length its) [] (vals its) [] lbuf (or_introl eq_refl) Hbs Hwfi (le_n _) tail_ok_nil Hv Hlb)
    as (k & st & lb & Heq & _ & _ & Hok & Hfull).
  destruct (Hfull eq_refl) as [-> ->]. rewrite !firstn_all, app_nil_r in Heq.
  exists lb. split; auto. unfold R. unfold bytes in *. rewrite Heq. unfold its. rewrite deliver_item_ops by auto. reflexivity.
Qed.

(* corollary in the form of the property: any replay function that is insensitive to dropping the records HasLock
   rejects (the stated hypothesis on has_lock: it keeps exactly the records of holds that are still live) sees the
   same state in the compacted file as in the list it was built from *)
Theorem compaction_preserves_replay {S : Type} (replay : list item -> S) has_lock fx bs rbs now (l : list item) :
  (64 <= rbs)%nat -> Forall wf_ditem (kept has_lock l) ->
  (replay (live now (map (fun it => (norm (fst it), snd it)) (kept has_lock l))) = replay l) ->
  let '(a, d) := apply_trace (run_ops bs (mkwst [] []) (item_ops (kept has_lock l))) header [] in
  exists its, recover fx rbs [(FRewrite, a); (FRewriteDat, d)] now = ROk its /\ replay its = replay l.
Proof.
  intros Hbs Hwf Hrep.
  pose proof (rewrite_file_roundtrip fx bs rbs now (kept has_lock l) zero_buf Hbs Hwf zero_buf_ok) as H.
  destruct (apply_trace (run_ops bs (mkwst [] []) (item_ops (kept has_lock l))) header []) as [a d].
  destruct H as (lb & Heq & _).
  exists (live now (map (fun it => (norm (fst it), snd it)) (kept has_lock l))). split; auto.
  unfold recover. cbn -[load_file zero_buf]. rewrite Heq. cbn. rewrite app_nil_r. reflexivity.
Qed.

(* ------------------------------------------------------------------ refutations (crash points) *)
Definition c_dir : dir := [(FAppend 1, header ++ w_rec 1 0 ++ w_rec 2 0); (FAppendDat 1, [])].
Definition all_live (b : bytes) (v : option bytes) : bool := true.

(* (b) inputs are removed BEFORE rewrite.aof.tmp is renamed: after the 5th mutation (append.aof.1 removed) a restart
   recovers nothing, although both holds are live and the finished compaction would have kept them *)
Theorem refuted_crash_before_rename :
  recover today 4096 c_dir w_now = ROk [(w_rec 1 0, None); (w_rec 2 0, None)] /\
  length (compact_steps all_live today 4096 true c_dir 1 w_now) = 8%nat /\
  recover today 4096 (crash_after all_live today 4096 true c_dir 1 w_now 5) w_now = ROk [] /\
  recover today 4096 (crash_after all_live today 4096 true c_dir 1 w_now 6) w_now = ROk [] /\
  recover today 4096 (compact all_live today 4096 true c_dir 1 w_now) w_now
    = ROk [(mark_rewrited (w_rec 1 0), None); (mark_rewrited (w_rec 2 0), None)].
Proof. repeat split; vm_compute; reflexivity. Qed.

(* rewrite.aof and rewrite.aof.dat are renamed separately: in between, records point into a value file that is
   not there: the next start fails *)
Definition c_dir_v : dir := [(FAppend 1, header ++ w_rec 1 0x2000); (FAppendDat 1, w_val 7)].

Theorem refuted_value_file_renamed_separately :
  recover today 4096 c_dir_v w_now = ROk [(w_rec 1 0x2000, Some (w_val 7))] /\
  recover today 4096 (crash_after all_live today 4096 true c_dir_v 1 w_now 7) w_now = RStartFails ENoDataFile [] /\
  recover today 4096 (compact all_live today 4096 true c_dir_v 1 w_now) w_now
    = ROk [(mark_rewrited (w_rec 1 0x2000), Some (w_val 7))].
Proof. repeat split; vm_compute; reflexivity. Qed.
