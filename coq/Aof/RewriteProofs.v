(* C16: what the compaction writes, read back, is exactly the HasLock-filtered records in order (values aligned,
   nothing torn); refutations for the crash points of clearRewriteAofFiles; the entry guard of rewriteAofFiles (at most
   one compaction at a time); compaction at a busy moment (its mutations commute with the appends of the rest of the
   server, every busy crash image is a quiescent crash image with appends on top). *)
From Coq Require Import List NArith ZArith Bool Lia PeanoNat.
From Slock Require Import Aof.AofRec Aof.AofFile Aof.AofLoad Aof.AofProofs Aof.Rewrite.
Import ListNotations.
Open Scope N_scope.

(* items as delivered by a load: consistent = a value is attached iff the record carries AOF_FLAG_CONTAINS_DATA *)
Definition wf_ditem (it : item) : Prop :=
  length (fst it) = 64%nat /\
  match snd it with
  | Some v => has_data (norm (fst it)) = true /\ wf_val v
  | None => has_data (norm (fst it)) = false
  end.

Lemma item_ops_wf l : Forall wf_ditem l -> Forall wf_op (item_ops l).
Proof.
  induction 1 as [|it l [Hl Hv] _ IH]; [constructor|]. cbn [item_ops map]. constructor; auto.
  split; auto. destruct (snd it) as [v|]; [destruct Hv; auto|]. rewrite Hv. discriminate.
Qed.

Lemma deliver_item_ops l : Forall wf_ditem l ->
  deliver (items_of (item_ops l)) = map (fun it => (norm (fst it), snd it)) l.
Proof.
  induction 1 as [|it l [Hl Hv] _ IH]; [reflexivity|].
  cbn [item_ops map items_of flat_map item_of_op app deliver].
  fold (item_ops l). fold (items_of (item_ops l)). fold (deliver (items_of (item_ops l))). rewrite IH. f_equal.
  unfold deliver1. cbn [fst snd]. destruct (snd it) as [v|].
  - destruct Hv as [-> _]. reflexivity.
  - rewrite Hv. reflexivity.
Qed.

(* (a) the rewrite file written from the kept items and closed, then loaded: exactly the kept items, in order *)
Theorem rewrite_file_roundtrip fx bs rbs now (l : list item) lbuf :
  (64 <= rbs)%nat -> Forall wf_ditem l -> lbuf_ok lbuf ->
  let '(a, d) := apply_trace (run_ops bs (mkwst [] []) (item_ops l)) header [] in
  exists lb, load_file fx rbs now (Some a) (Some d) lbuf
             = (live now (map (fun it => (norm (fst it), snd it)) l), SCont, lb) /\ lbuf_ok lb.
Proof.
  intros Hbs Hwf Hlb.
  pose proof (item_ops_wf l Hwf) as Hops.
  assert (HI : Inv (mkwst [] []) header [] []) by (exists [], []; repeat split; reflexivity).
  rewrite (run_ops_final bs (item_ops l) (mkwst [] []) header [] [] (Forall_nil _) Hops HI). cbn [app].
  set (its := items_of (item_ops l)).
  assert (Hwfi : Forall wf_item its) by (apply items_of_wf; auto).
  assert (Hv : vals (firstn (length its) its) = vals its ++ []) by (rewrite firstn_all, app_nil_r; reflexivity).
  destruct (load_body fx rbs now its (length its) [] (vals its) [] lbuf (or_introl eq_refl) Hbs Hwfi (le_n _) tail_ok_nil Hv Hlb)
    as (k & st & lb & Heq & _ & _ & Hok & Hfull).
  destruct (Hfull eq_refl) as [-> ->]. rewrite !firstn_all, app_nil_r in Heq.
  exists lb. split; auto. unfold R. unfold bytes in *. rewrite Heq. unfold its. rewrite deliver_item_ops by auto. reflexivity.
Qed.

(* corollary in the form of the property: any replay function that is insensitive to dropping the records HasLock
   rejects (the stated hypothesis on has_lock: it keeps exactly the records of holds that are still live) sees the
   same state in the compacted file as in the list it was built from *)
Theorem compaction_preserves_replay {S : Type} (replay : list item -> S) has_lock fx bs rbs now (l : list item) :
  (64 <= rbs)%nat -> Forall wf_ditem (kept has_lock l) ->
  (replay (live now (map (fun it => (norm (fst it), snd it)) (kept has_lock l))) = replay l) ->
  let '(a, d) := apply_trace (run_ops bs (mkwst [] []) (item_ops (kept has_lock l))) header [] in
  exists its, recover fx rbs [(FRewrite, a); (FRewriteDat, d)] now = ROk its /\ replay its = replay l.
Proof.
  intros Hbs Hwf Hrep.
  pose proof (rewrite_file_roundtrip fx bs rbs now (kept has_lock l) zero_buf Hbs Hwf zero_buf_ok) as H.
  destruct (apply_trace (run_ops bs (mkwst [] []) (item_ops (kept has_lock l))) header []) as [a d].
  destruct H as (lb & Heq & _).
  exists (live now (map (fun it => (norm (fst it), snd it)) (kept has_lock l))). split; auto.
  unfold recover. cbn -[load_file zero_buf]. rewrite Heq. cbn. rewrite app_nil_r. reflexivity.
Qed.

(* ------------------------------------------------------------------ refutations (crash points) *)
Definition c_dir : dir := [(FAppend 1, header ++ w_rec 1 0 ++ w_rec 2 0); (FAppendDat 1, [])].
Definition all_live (b : bytes) (v : option bytes) : bool := true.

(* (b) inputs are removed BEFORE rewrite.aof.tmp is renamed: after the 5th mutation (append.aof.1 removed) a restart
   recovers nothing, although both holds are live and the finished compaction would have kept them *)
Theorem refuted_crash_before_rename :
  recover today 4096 c_dir w_now = ROk [(w_rec 1 0, None); (w_rec 2 0, None)] /\
  length (compact_steps all_live today 4096 true c_dir 1 w_now) = 8%nat /\
  recover today 4096 (crash_after all_live today 4096 true c_dir 1 w_now 5) w_now = ROk [] /\
  recover today 4096 (crash_after all_live today 4096 true c_dir 1 w_now 6) w_now = ROk [] /\
  recover today 4096 (compact all_live today 4096 true c_dir 1 w_now) w_now
    = ROk [(mark_rewrited (w_rec 1 0), None); (mark_rewrited (w_rec 2 0), None)].
Proof. repeat split; vm_compute; reflexivity. Qed.

(* rewrite.aof and rewrite.aof.dat are renamed separately: in between, records point into a value file that is
   not there: the next start fails *)
Definition c_dir_v : dir := [(FAppend 1, header ++ w_rec 1 0x2000); (FAppendDat 1, w_val 7)].

Theorem refuted_value_file_renamed_separately :
  recover today 4096 c_dir_v w_now = ROk [(w_rec 1 0x2000, Some (w_val 7))] /\
  recover today 4096 (crash_after all_live today 4096 true c_dir_v 1 w_now 7) w_now = RStartFails ENoDataFile [] /\
  recover today 4096 (compact all_live today 4096 true c_dir_v 1 w_now) w_now
    = ROk [(mark_rewrited (w_rec 1 0x2000), Some (w_val 7))].
Proof. repeat split; vm_compute; reflexivity. Qed.

(* ================================================================== compactions do not overlap (entry guard) *)

(* ------------------------------------------------------------------ the entry guard *)
Definition ginv (g : guard) : Prop :=
  (g_rewriting g = true /\ g_active g = 1%nat) \/ (g_rewriting g = false /\ g_active g = 0%nat).

Lemma gstep_inv g e : ginv g -> ginv (gstep true g e).
Proof.
  destruct g as [r w a]. unfold ginv. cbn [g_rewriting g_active].
  intros [[-> ->]|[-> ->]]; destruct e; cbn; auto.
Qed.

Lemma grun_inv evs : forall g, ginv g -> ginv (grun true evs g).
Proof. induction evs as [|e tl IH]; intros g H; [exact H|]. apply IH, gstep_inv, H. Qed.

Theorem guard_at_most_one evs :
  let g := grun true evs g_idle in
  (g_active g <= 1)%nat /\ (g_rewriting g = true <-> g_active g = 1%nat).
Proof.
  cbv zeta. destruct (grun_inv evs g_idle) as [[H1 H2]|[H1 H2]]; [right; split; reflexivity| |].
  - rewrite H1, H2. split; [lia|tauto].
  - rewrite H1, H2. split; [lia|]. split; discriminate.
Qed.

(* a request while a compaction runs changes nothing at all: no flag, no second compaction *)
Theorem guard_request_while_rewriting g : g_rewriting g = true -> gstep true g GRequest = g /\ gmark_of true g GRequest = [].
Proof. intros H. unfold gstep, gmark_of, g_blocked. rewrite H. split; reflexivity. Qed.

(* a request in any other state starts one, and clears the wait flag *)
Theorem guard_request_when_not_rewriting g : g_rewriting g = false ->
  gstep true g GRequest = mkguard true false (S (g_active g)) /\ gmark_of true g GRequest = [GStarted].
Proof. intros H. unfold gstep, gmark_of, g_blocked. rewrite H. split; reflexivity. Qed.

Theorem guard_request_spec g :
  (g_rewriting g = true -> gstep true g GRequest = g /\ gmark_of true g GRequest = []) /\
  (g_rewriting g = false -> gstep true g GRequest = mkguard true false (S (g_active g)) /\ gmark_of true g GRequest = [GStarted]).
Proof. split; [apply guard_request_while_rewriting|apply guard_request_when_not_rewriting]. Qed.

Lemma glog_alt evs : forall g, ginv g -> alternates (negb (g_rewriting g)) (glog true evs g) = true.
Proof.
  induction evs as [|e tl IH]; intros g H; [reflexivity|].
  cbn [glog]. pose proof (gstep_inv g e H) as H'. specialize (IH _ H').
  destruct g as [r w a]. destruct H as [[Hr Ha]|[Hr Ha]]; cbn [g_rewriting g_active] in Hr, Ha; subst r a;
    destruct e; cbn in *; exact IH.
Qed.

(* every compaction starts after the previous one has finished: Started / Finished alternate in every history *)
Theorem guard_starts_alternate evs : alternates true (glog true evs g_idle) = true.
Proof. apply (glog_alt evs g_idle). right; split; reflexivity. Qed.

(* the switch matters: a guard on the other flag lets two compactions run at once *)
Theorem guard_on_other_flag_overlaps :
  g_active (grun false [GRequest; GRequest] g_idle) = 2%nat /\ alternates true (glog false [GRequest; GRequest] g_idle) = false.
Proof. split; reflexivity. Qed.

(* ================================================================== compaction at a busy moment *)

Lemma fname_eqb_eq a b : fname_eqb a b = true <-> a = b.
Proof.
  destruct a, b; cbn; try (split; intros H; (discriminate H || reflexivity));
    rewrite N.eqb_eq; (split; intros H; [subst; reflexivity|injection H; auto]).
Qed.

Lemma fname_eqb_refl a : fname_eqb a a = true.
Proof. apply fname_eqb_eq; reflexivity. Qed.

Lemma fname_eqb_neq a b : fname_eqb a b = false <-> a <> b.
Proof.
  split; intros H.
  - intros ->. rewrite fname_eqb_refl in H. discriminate.
  - destruct (fname_eqb a b) eqn:E; [|reflexivity]. apply fname_eqb_eq in E. contradiction.
Qed.

Lemma dget_ddel d f g : dget (ddel d f) g = if fname_eqb f g then None else dget d g.
Proof.
  induction d as [|[h b] tl IH]; cbn [ddel dget]; [destruct (fname_eqb f g); reflexivity|].
  destruct (fname_eqb h f) eqn:E1.
  - rewrite IH. apply fname_eqb_eq in E1. subst h. destruct (fname_eqb f g); reflexivity.
  - cbn [dget]. rewrite IH. destruct (fname_eqb h g) eqn:E2; [|reflexivity].
    apply fname_eqb_eq in E2. subst h. rewrite fname_eqb_neq in E1.
    destruct (fname_eqb f g) eqn:E3; [|reflexivity]. apply fname_eqb_eq in E3. subst; contradiction.
Qed.

Lemma dget_dset d f b g : dget (dset d f b) g = if fname_eqb f g then Some b else dget d g.
Proof. unfold dset. cbn [dget]. rewrite dget_ddel. destruct (fname_eqb f g); reflexivity. Qed.

Lemma dget_apply_mut d m h :
  dget (apply_mut d m) h =
  match m with
  | MPut f b => if fname_eqb f h then Some b else dget d h
  | MRemove f => if fname_eqb f h then None else dget d h
  | MRename f g => match dget d f with
                   | Some b => if fname_eqb g h then Some b else if fname_eqb f h then None else dget d h
                   | None => dget d h
                   end
  end.
Proof.
  destruct m as [f b|f|f g]; cbn [apply_mut]; [apply dget_dset|apply dget_ddel|].
  destruct (dget d f); [|reflexivity]. rewrite dget_dset, dget_ddel. reflexivity.
Qed.

Lemma apply_mut_equiv d1 d2 m : dir_equiv d1 d2 -> dir_equiv (apply_mut d1 m) (apply_mut d2 m).
Proof. intros H h. rewrite !dget_apply_mut. destruct m; rewrite ?H; reflexivity. Qed.

Lemma run_steps_equiv ms : forall d1 d2, dir_equiv d1 d2 -> dir_equiv (run_steps d1 ms) (run_steps d2 ms).
Proof. induction ms as [|m tl IH]; intros d1 d2 H; [exact H|]. apply IH, apply_mut_equiv, H. Qed.

Lemma dir_equiv_refl d : dir_equiv d d. Proof. intros f; reflexivity. Qed.
Lemma dir_equiv_trans a b c : dir_equiv a b -> dir_equiv b c -> dir_equiv a c.
Proof. intros H1 H2 f. rewrite H1. apply H2. Qed.
Lemma dir_equiv_sym a b : dir_equiv a b -> dir_equiv b a.
Proof. intros H f. symmetry. apply H. Qed.

Definition disjoint_mut (m1 m2 : mutation) : Prop := forall f, In f (touches m1) -> In f (touches m2) -> False.

(* a file a mutation does not touch keeps its content *)
Lemma apply_mut_frame d m h : ~ In h (touches m) -> dget (apply_mut d m) h = dget d h.
Proof.
  intros H. rewrite dget_apply_mut. destruct m as [f b|f|f g]; cbn [touches In] in H.
  - assert (E : fname_eqb f h = false) by (apply fname_eqb_neq; tauto). rewrite E. reflexivity.
  - assert (E : fname_eqb f h = false) by (apply fname_eqb_neq; tauto). rewrite E. reflexivity.
  - assert (E : fname_eqb f h = false) by (apply fname_eqb_neq; tauto).
    assert (E' : fname_eqb g h = false) by (apply fname_eqb_neq; tauto). rewrite E, E'. destruct (dget d f); reflexivity.
Qed.

Lemma run_steps_frame ms : forall d h, (forall m, In m ms -> ~ In h (touches m)) -> dget (run_steps d ms) h = dget d h.
Proof.
  induction ms as [|m tl IH]; intros d h H; [reflexivity|].
  cbn [run_steps fold_left]. change (fold_left apply_mut tl (apply_mut d m)) with (run_steps (apply_mut d m) tl).
  rewrite IH by (intros m' Hm; apply H; right; exact Hm). apply apply_mut_frame, H. left; reflexivity.
Qed.

(* the new content of a touched file depends only on the touched files *)
Lemma apply_mut_local d d' m h : (forall f, In f (touches m) -> dget d f = dget d' f) -> In h (touches m) ->
  dget (apply_mut d m) h = dget (apply_mut d' m) h.
Proof.
  intros A Hh. rewrite !dget_apply_mut. destruct m as [f b|f|f g]; cbn [touches] in A.
  - rewrite (A h Hh). reflexivity.
  - rewrite (A h Hh). reflexivity.
  - rewrite (A f (or_introl eq_refl)), (A h Hh). reflexivity.
Qed.

Lemma fname_eq_dec (a b : fname) : {a = b} + {a <> b}.
Proof. destruct (fname_eqb a b) eqn:E; [left; apply fname_eqb_eq, E|right; apply fname_eqb_neq, E]. Qed.

(* mutations on disjoint sets of files commute *)
Lemma apply_mut_comm d m1 m2 : disjoint_mut m1 m2 ->
  dir_equiv (apply_mut (apply_mut d m1) m2) (apply_mut (apply_mut d m2) m1).
Proof.
  intros D h.
  destruct (in_dec fname_eq_dec h (touches m1)) as [H1|H1], (in_dec fname_eq_dec h (touches m2)) as [H2|H2].
  - destruct (D h H1 H2).
  - rewrite (apply_mut_frame _ m2 h H2). apply apply_mut_local; [|exact H1].
    intros f Hf. symmetry. apply apply_mut_frame. intros Hf2. exact (D f Hf Hf2).
  - rewrite (apply_mut_frame _ m1 h H1). symmetry. apply apply_mut_local; [|exact H2].
    intros f Hf. symmetry. apply apply_mut_frame. intros Hf1. exact (D f Hf1 Hf).
  - rewrite !apply_mut_frame by assumption. reflexivity.
Qed.

Lemma commute_past x l : (forall c, In c l -> disjoint_mut c x) ->
  forall d, dir_equiv (run_steps (apply_mut d x) l) (apply_mut (run_steps d l) x).
Proof.
  induction l as [|c tl IH]; intros D d; [apply dir_equiv_refl|].
  cbn [run_steps fold_left]. change (fold_left apply_mut tl ?dd) with (run_steps dd tl).
  eapply dir_equiv_trans; [|apply IH; intros c' Hc; apply D; right; exact Hc].
  apply run_steps_equiv. apply dir_equiv_sym, apply_mut_comm. apply D. left; reflexivity.
Qed.

(* any interleaving of the compaction's mutations [cs] with mutations [fs] on other files = first cs, then fs *)
Theorem merge_commutes cs fs ms : merge cs fs ms -> (forall c f, In c cs -> In f fs -> disjoint_mut c f) ->
  forall d, dir_equiv (run_steps d ms) (run_steps (run_steps d cs) fs).
Proof.
  induction 1 as [|x l r m M IH|x l r m M IH]; intros D d.
  - apply dir_equiv_refl.
  - cbn [run_steps fold_left]. change (fold_left apply_mut ?ll ?dd) with (run_steps dd ll).
    apply IH. intros c f Hc Hf. apply D; [right; exact Hc|exact Hf].
  - cbn [run_steps fold_left]. change (fold_left apply_mut ?ll ?dd) with (run_steps dd ll).
    eapply dir_equiv_trans; [apply IH; intros c f Hc Hf; apply D; [exact Hc|right; exact Hf]|].
    apply run_steps_equiv. apply commute_past. intros c Hc. apply D; [exact Hc|left; reflexivity].
Qed.

Lemma run_steps_app d a b : run_steps d (a ++ b) = run_steps (run_steps d a) b.
Proof. unfold run_steps. apply fold_left_app. Qed.

(* ... and = first fs, then cs *)
Theorem merge_commutes' cs fs ms : merge cs fs ms -> (forall c f, In c cs -> In f fs -> disjoint_mut c f) ->
  forall d, dir_equiv (run_steps d ms) (run_steps (run_steps d fs) cs).
Proof.
  intros M D d. 
  assert (M' : merge fs cs ms) by (clear D; induction M; constructor; assumption).
  apply (merge_commutes fs cs ms M'). intros c f Hc Hf g H1 H2. exact (D f c Hf Hc g H2 H1).
Qed.

(* a prefix of an interleaving interleaves prefixes: crash images of a busy compaction *)
Lemma merge_prefix {A} (l r m : list A) : merge l r m -> forall n, exists k j, merge (firstn k l) (firstn j r) (firstn n m).
Proof.
  induction 1 as [|x l r m M IH|x l r m M IH]; intros n.
  - exists 0%nat, 0%nat. destruct n; constructor.
  - destruct n as [|n]; [exists 0%nat, 0%nat; constructor|]. destruct (IH n) as (k & j & Hm).
    exists (S k), j. cbn [firstn]. constructor. exact Hm.
  - destruct n as [|n]; [exists 0%nat, 0%nat; constructor|]. destruct (IH n) as (k & j & Hm).
    exists k, (S j). cbn [firstn]. constructor. exact Hm.
Qed.

(* ------------------------------------------------------------------ recover only looks at the content of the files *)
Lemma in_append_indices d i : In i (append_indices d) <-> exists b, dget d (FAppend i) = Some b.
Proof.
  induction d as [|[g b] tl IH]; cbn [append_indices flat_map dget].
  - split; [intros []|intros [b H]; discriminate].
  - change (flat_map (fun p : fname * bytes => match fst p with FAppend i0 => [i0] | _ => [] end) tl) with (append_indices tl).
    rewrite in_app_iff, IH. cbn [fst]. destruct (fname_eqb g (FAppend i)) eqn:E.
    + apply fname_eqb_eq in E. subst g. split; [intros _; exists b; reflexivity|intros _; left; left; reflexivity].
    + split.
      * intros [H|H]; [|exact H]. destruct g; cbn in H; try tauto. destruct H as [->|[]]. rewrite fname_eqb_refl in E. discriminate.
      * intros H. right. exact H.
Qed.

Lemma nmin_le l : nmin l <= 0xffffffff.
Proof. induction l as [|x tl IH]; cbn; [reflexivity|]. unfold nmin in IH. lia. Qed.
Lemma nmin_lb l x : In x l -> nmin l <= x.
Proof. induction l as [|y tl IH]; [intros []|]. intros [->|H]; cbn; [lia|]. specialize (IH H). unfold nmin in IH. lia. Qed.
Lemma nmin_in l : In (nmin l) l \/ nmin l = 0xffffffff.
Proof.
  induction l as [|y tl IH]; [right; reflexivity|]. cbn. fold (nmin tl).
  destruct (N.min_spec y (nmin tl)) as [[_ ->]|[_ ->]]; [left; left; reflexivity|]. destruct IH; [left; right; assumption|right; assumption].
Qed.
Lemma nmax_ub l x : In x l -> x <= nmax l.
Proof. induction l as [|y tl IH]; [intros []|]. intros [->|H]; cbn; [lia|]. specialize (IH H). unfold nmax in IH. lia. Qed.
Lemma nmax_in l : In (nmax l) l \/ nmax l = 0.
Proof.
  induction l as [|y tl IH]; [right; reflexivity|]. cbn. fold (nmax tl).
  destruct (N.max_spec y (nmax tl)) as [[_ ->]|[_ ->]]; [destruct IH; [left; right; assumption|right; assumption]|left; left; reflexivity].
Qed.

Lemma nmin_same l1 l2 : (forall x, In x l1 <-> In x l2) -> nmin l1 = nmin l2.
Proof.
  intros H. apply N.le_antisymm.
  - destruct (nmin_in l2) as [I|E]; [apply nmin_lb, H, I|rewrite E; apply nmin_le].
  - destruct (nmin_in l1) as [I|E]; [apply nmin_lb, H, I|rewrite E; apply nmin_le].
Qed.
Lemma nmax_same l1 l2 : (forall x, In x l1 <-> In x l2) -> nmax l1 = nmax l2.
Proof.
  intros H. apply N.le_antisymm.
  - destruct (nmax_in l1) as [I|E]; [apply nmax_ub, H, I|rewrite E; apply N.le_0_l].
  - destruct (nmax_in l2) as [I|E]; [apply nmax_ub, H, I|rewrite E; apply N.le_0_l].
Qed.

Lemma existsb_same i l1 l2 : (forall x, In x l1 <-> In x l2) -> existsb (N.eqb i) l1 = existsb (N.eqb i) l2.
Proof.
  intros H. apply eq_true_iff_eq. rewrite !existsb_exists. split; intros (x & Hx & E); exists x; (split; [apply H, Hx|exact E]).
Qed.

Lemma forallb_ext' {A} (f g : A -> bool) l : (forall x, f x = g x) -> forallb f l = forallb g l.
Proof. intros H. induction l as [|x tl IH]; [reflexivity|]. cbn. rewrite H, IH. reflexivity. Qed.

Lemma find_aof_files_equiv d1 d2 : dir_equiv d1 d2 -> find_aof_files d1 = find_aof_files d2.
Proof.
  intros H. unfold find_aof_files. rewrite (H FRewrite).
  assert (S : forall x, In x (append_indices d1) <-> In x (append_indices d2)).
  { intros x. rewrite !in_append_indices, H. reflexivity. }
  rewrite (nmin_same _ _ S), (nmax_same _ _ S).
  destruct (append_indices d1) as [|a1 t1] eqn:E1, (append_indices d2) as [|a2 t2] eqn:E2.
  - reflexivity.
  - destruct (proj2 (S a2) (or_introl eq_refl)).
  - destruct (proj1 (S a1) (or_introl eq_refl)).
  - destruct (0x7fffffff <=? _); [reflexivity|].
    match goal with |- (if forallb ?f ?w then _ else _) = (if forallb ?g ?w then _ else _) =>
      replace (forallb f w) with (forallb g w); [reflexivity|] end.
    apply forallb_ext'. intros i. symmetry. apply existsb_same, S.
Qed.

Theorem recover_equiv fx bs d1 d2 now : dir_equiv d1 d2 -> recover fx bs d1 now = recover fx bs d2 now.
Proof.
  intros H. unfold recover. rewrite (find_aof_files_equiv d1 d2 H).
  destruct (find_aof_files d2) as [apps rw| |]; try reflexivity.
  match goal with |- match load_files _ _ _ (map ?f ?l) _ with _ => _ end = match load_files _ _ _ (map ?g ?l) _ with _ => _ end =>
    replace (map f l) with (map g l); [reflexivity|] end.
  apply map_ext. intros f. rewrite !H. reflexivity.
Qed.

(* ------------------------------------------------------------------ the footprint of a compaction *)
Lemma rewrite_inputs_local d cur l f : rewrite_inputs d cur = Some l -> In f l ->
  local_file cur f = true /\ local_file cur (dat_of f) = true /\ f <> FTmp /\ f <> FTmpDat /\ dat_of f <> FTmp /\ dat_of f <> FTmpDat.
Proof.
  unfold rewrite_inputs. destruct (find_aof_files d) as [apps rw| |]; try discriminate.
  intros E. injection E as <-. rewrite in_app_iff, in_map_iff. intros [H|(i & <- & H)].
  - destruct rw; [|destruct H]. destruct H as [<-|[]]. cbn. repeat split; discriminate.
  - apply filter_In in H. destruct H as [_ H]. cbn. rewrite H. repeat split; discriminate.
Qed.

(* appends go to a file that is not among the inputs: no input has the index of the current (or a later) append file *)
Theorem rewrite_inputs_exclude_current d cur l i : rewrite_inputs d cur = Some l -> cur <= i ->
  ~ In (FAppend i) l /\ ~ In (FAppendDat i) (map dat_of l).
Proof.
  intros E Hi. split.
  - intros H. destruct (rewrite_inputs_local d cur l _ E H) as [L _]. cbn in L. apply N.ltb_lt in L. lia.
  - rewrite in_map_iff. intros (f & Ef & H). destruct (rewrite_inputs_local d cur l _ E H) as (_ & L & _).
    rewrite Ef in L. cbn in L. apply N.ltb_lt in L. lia.
Qed.

Definition local_mut (cur : N) (m : mutation) : Prop := forall f, In f (touches m) -> local_file cur f = true.

Section Local.
  Variable has_lock : bytes -> option bytes -> bool.
  Variable fx : fixes.
  Variable bs : nat.

  Variable fresh : bool.

  Theorem compact_steps_local d cur now : Forall (local_mut cur) (compact_steps_v has_lock fx bs fresh false d cur now).
  Proof.
    unfold compact_steps_v. cbn [run_steps fold_left app].
    destruct (rewrite_inputs d cur) as [[|f0 tl]|] eqn:E; try constructor.
    destruct (build_tmp_v has_lock fx bs fresh d (f0 :: tl) now) as [[a dd] ok].
    assert (T : Forall (local_mut cur) [MPut FTmp a; MPut FTmpDat dd]).
    { repeat constructor; intros f [<-|[]]; reflexivity. }
    destruct ok; [|exact T].
    change (MPut FTmp a :: MPut FTmpDat dd :: ?x) with ([MPut FTmp a; MPut FTmpDat dd] ++ x).
    apply Forall_app. split; [exact T|]. apply Forall_app. split.
    - apply Forall_forall. intros m Hm. apply in_flat_map in Hm. destruct Hm as (f & Hf & Hm).
      destruct (rewrite_inputs_local d cur _ f E Hf) as (L1 & L2 & _).
      destruct Hm as [<-|[<-|[]]]; intros g [<-|[]]; assumption.
    - repeat constructor; intros f [<-|[<-|[]]]; reflexivity.
  Qed.

  (* RewriteAofFile(true) = the rotation (under aofGlock, in the caller) followed by the compaction goroutine, which
     sees the directory after the rotation and the new index *)
  Lemma compact_steps_rotate d cur now :
    compact_steps_v has_lock fx bs fresh true d cur now =
    [MPut (FAppend (cur + 1)) header; MPut (FAppendDat (cur + 1)) []] ++
    compact_steps_v has_lock fx bs fresh false (run_steps d [MPut (FAppend (cur + 1)) header; MPut (FAppendDat (cur + 1)) []]) (cur + 1) now.
  Proof.
    unfold compact_steps_v. cbn [app]. set (d1 := run_steps d _).
    change (run_steps d1 []) with d1.
    destruct (rewrite_inputs d1 (cur + 1)) as [[|f0 tl]|]; try reflexivity.
    destruct (build_tmp_v has_lock fx bs fresh d1 (f0 :: tl) now) as [[a dd] ok]. destruct ok; reflexivity.
  Qed.

  (* a directory without a left-over tmp pair: both variants do the same *)
  Lemma compact_steps_no_stale_tmp rotate d cur now : dget d FTmp = None -> dget d FTmpDat = None ->
    compact_steps_v has_lock fx bs true rotate d cur now = compact_steps_v has_lock fx bs false rotate d cur now.
  Proof.
    intros H1 H2. unfold compact_steps_v.
    set (rot := if rotate then _ else _). set (d1 := run_steps d rot).
    assert (E1 : dget d1 FTmp = None /\ dget d1 FTmpDat = None).
    { unfold d1. split; (rewrite run_steps_frame; [assumption|]); intros m Hm; unfold rot in Hm; destruct rotate; cbn in Hm;
        try tauto; destruct Hm as [<-|[<-|[]]]; cbn; intros [H|[]]; discriminate H. }
    destruct (rewrite_inputs d1 _) as [[|f0 tl]|]; try reflexivity.
    unfold build_tmp_v. destruct E1 as [-> ->]. reflexivity.
  Qed.
End Local.

Lemma in_firstn {A} (x : A) n l : In x (firstn n l) -> In x l.
Proof. revert l. induction n as [|n IH]; intros [|y tl]; cbn; try tauto. intros [->|H]; [left; reflexivity|right; apply IH, H]. Qed.

Lemma local_foreign_disjoint cur c f : local_mut cur c -> foreign_mut cur f = true -> disjoint_mut c f.
Proof.
  intros L F g Hc Hf. specialize (L g Hc).
  destruct f as [h b|h|h h']; cbn in F; try discriminate.
  destruct h; try discriminate; cbn [touches In] in Hf; destruct Hf as [<-|[]]; cbn in L;
    apply N.ltb_lt in L; apply N.leb_le in F; lia.
Qed.

(* busy compaction: whatever the interleaving of the compaction goroutine's mutations with the appends / rotations of
   the rest of the server, (1) the directory is the one of the quiescent compaction with the appends on top, and
   (2) every crash image is a crash image of the quiescent compaction with a prefix of the appends on top, and a restart
   recovers the same from both *)
Theorem busy_compaction has_lock fx bs fresh rbs d cur now fs ms :
  let cs := compact_steps_v has_lock fx bs fresh false d cur now in
  Forall (fun f => foreign_mut cur f = true) fs -> merge cs fs ms ->
  dir_equiv (run_steps d ms) (run_steps (compact_v has_lock fx bs fresh false d cur now) fs) /\
  dir_equiv (run_steps d ms) (run_steps (run_steps d fs) cs) /\
  forall n, exists k j,
    dir_equiv (run_steps d (firstn n ms)) (run_steps (crash_after_v has_lock fx bs fresh false d cur now k) (firstn j fs)) /\
    forall rnow, recover fx rbs (run_steps d (firstn n ms)) rnow
                 = recover fx rbs (run_steps (crash_after_v has_lock fx bs fresh false d cur now k) (firstn j fs)) rnow.
Proof.
  intros cs F M.
  assert (D : forall l r, (forall c, In c l -> In c cs) -> (forall f, In f r -> In f fs) ->
                          forall c f, In c l -> In f r -> disjoint_mut c f).
  { intros l r Hl Hr c f Hc Hf. apply (local_foreign_disjoint cur).
    - pose proof (compact_steps_local has_lock fx bs fresh d cur now) as L. rewrite Forall_forall in L. apply L, Hl, Hc.
    - rewrite Forall_forall in F. apply F, Hr, Hf. }
  split; [|split].
  - apply (merge_commutes cs fs ms M). apply (D cs fs); auto.
  - apply (merge_commutes' cs fs ms M). apply (D cs fs); auto.
  - intros n. destruct (merge_prefix cs fs ms M n) as (k & j & Mp). exists k, j.
    assert (E : dir_equiv (run_steps d (firstn n ms)) (run_steps (crash_after_v has_lock fx bs fresh false d cur now k) (firstn j fs))).
    { apply (merge_commutes _ _ _ Mp). apply D; intros x Hx; eapply in_firstn; exact Hx. }
    split; [exact E|]. intros rnow. apply recover_equiv, E.
Qed.

(* the files outside the footprint are never changed by the compaction: the current append file keeps what was appended *)
Theorem compaction_frame has_lock fx bs fresh d cur now k f : local_file cur f = false ->
  dget (crash_after_v has_lock fx bs fresh false d cur now k) f = dget d f.
Proof.
  intros H. unfold crash_after_v. apply run_steps_frame. intros m Hm Hf.
  pose proof (compact_steps_local has_lock fx bs fresh d cur now) as L. rewrite Forall_forall in L.
  specialize (L m (in_firstn _ _ _ Hm) f Hf). rewrite L in H. discriminate.
Qed.

(* appends during the rewrite go to a file that is not among the inputs; the compaction goroutine stays inside its footprint *)
Theorem appends_avoid_inputs has_lock fx bs fresh d cur now :
  (forall l i, rewrite_inputs d cur = Some l -> cur <= i -> ~ In (FAppend i) l /\ ~ In (FAppendDat i) (map dat_of l)) /\
  Forall (local_mut cur) (compact_steps_v has_lock fx bs fresh false d cur now) /\
  (forall k f, local_file cur f = false -> dget (crash_after_v has_lock fx bs fresh false d cur now k) f = dget d f) /\
  compact_steps_v has_lock fx bs fresh true d cur now =
    [MPut (FAppend (cur + 1)) header; MPut (FAppendDat (cur + 1)) []] ++
    compact_steps_v has_lock fx bs fresh false (run_steps d [MPut (FAppend (cur + 1)) header; MPut (FAppendDat (cur + 1)) []]) (cur + 1) now.
Proof.
  split; [intros l i; apply rewrite_inputs_exclude_current|].
  split; [apply compact_steps_local|].
  split; [intros k f; apply compaction_frame|apply compact_steps_rotate].
Qed.
