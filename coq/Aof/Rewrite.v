(* Log compaction (server/aof.go:1918-2122): RewriteAofFile (rotation), findRewriteAofFiles, loadRewriteAofFiles,
   clearRewriteAofFiles as the exact ORDERED list of file-system mutations, over the directory model of AofLoad.v.
   [has_lock] (LockDB.HasLock, db.go:2913-2979, evaluated against the live engine state) is a parameter. *)
From Coq Require Import List NArith ZArith Bool Lia PeanoNat.
From Slock Require Import Aof.AofRec Aof.AofFile Aof.AofLoad.
Import ListNotations.
Open Scope N_scope.

Inductive mutation :=
| MPut (f : fname) (b : bytes)        (* create/replace with content: file creation + its completed writes *)
| MRemove (f : fname)                 (* os.Remove; a missing file is an (ignored / logged) error *)
| MRename (f g : fname).              (* os.Rename: replaces g; a missing f is a logged error, nothing happens *)

Definition apply_mut (d : dir) (m : mutation) : dir :=
  match m with
  | MPut f b => dset d f b
  | MRemove f => ddel d f
  | MRename f g => match dget d f with Some b => dset (ddel d f) g b | None => d end
  end.

Definition run_steps (d : dir) (ms : list mutation) : dir := fold_left apply_mut ms d.

(* aofLock.AofFlag |= AOF_FLAG_REWRITED; aofLock.buf[55] |= AOF_FLAG_REWRITED *)
Definition mark_rewrited (b : bytes) : bytes := firstn 55 b ++ [N.lor (nthb b 55) 1] ++ skipn 56 b.

Section Compaction.
  Variable has_lock : bytes -> option bytes -> bool.
  Variable fx : fixes.
  Variable bs : nat.       (* Config.AofFileBufferSize *)

  (* findRewriteAofFiles with aofFileIndex = cur (no uint32 wrap-around): rewrite.aof first, then every append file
     with a smaller index *)
  Definition rewrite_inputs (d : dir) (cur : N) : option (list fname) :=
    match find_aof_files d with
    | Found apps rw => Some ((if rw then [FRewrite] else []) ++ map FAppend (filter (fun i => i <? cur) apps))
    | _ => None
    end.

  Definition kept (its : list item) : list item :=
    map (fun it => (mark_rewrited (fst it), snd it)) (filter (fun it => has_lock (fst it) (snd it)) its).

  Definition item_ops (its : list item) : list op :=
    map (fun it => OItem (fst it) (match snd it with Some v => v | None => [] end)) its.

  (* loadRewriteAofFiles: rewrite.aof.tmp is opened in APPEND mode (an old one left by an interrupted compaction is
     kept and appended to), every delivered record for which HasLock answers true is appended, Flush, Close.
     Result: the tmp pair and whether the load failed (then rewriteAofFiles returns without clearing).
     [fresh] is a SOURCE SWITCH (checks/C16.py reads it from the text of loadRewriteAofFiles): false = the code as it is
     today, true = proposed_fixes/c16_stale_tmp.diff (a left-over tmp pair is removed before the file is opened). *)
  Definition build_tmp_v (fresh : bool) (d : dir) (inputs : list fname) (now : Z) : bytes * bytes * bool :=
    let '(a0, d0) := if fresh then open_append fx None None else open_append fx (dget d FTmp) (dget d FTmpDat) in
    let res := load_files fx bs now (map (fun f => (dget d f, dget d (dat_of f))) inputs) zero_buf in
    let '(its, ok) := match res with LOk its => (its, true) | LFail _ its => (its, false) | LFuel => ([], false) end in
    let '(a, dd) := apply_trace (run_ops bs (mkwst [] []) (item_ops (kept its))) a0 d0 in
    (a, dd, ok).

  (* the mutations of one compaction.  [rotate = true]: RewriteAofFile(true) (size threshold / admin command) while
     the current append file is [cur] and its buffers are flushed: first rotate to cur+1.
     [rotate = false]: the start-up compaction launched by LoadAndInit/Load, current file [cur] stays; also the
     goroutine part of RewriteAofFile(true) after the rotation (compact_steps_rotate in RewriteProofs.v). *)
  Definition compact_steps_v (fresh : bool) (rotate : bool) (d : dir) (cur : N) (now : Z) : list mutation :=
    let rot := if rotate then [MPut (FAppend (cur + 1)) header; MPut (FAppendDat (cur + 1)) []] else [] in
    let cur' := if rotate then cur + 1 else cur in
    let d1 := run_steps d rot in
    match rewrite_inputs d1 cur' with
    | None => rot
    | Some [] => rot
    | Some inputs =>
      let '(a, dd, ok) := build_tmp_v fresh d1 inputs now in
      let tmp := [MPut FTmp a; MPut FTmpDat dd] in
      if ok then
        rot ++ tmp ++ flat_map (fun f => [MRemove f; MRemove (dat_of f)]) inputs
            ++ [MRename FTmp FRewrite; MRename FTmpDat FRewriteDat]
      else rot ++ tmp
    end.

  Definition compact_v (fresh rotate : bool) (d : dir) (cur : N) (now : Z) : dir := run_steps d (compact_steps_v fresh rotate d cur now).

  (* crash after the first k mutations *)
  Definition crash_after_v (fresh rotate : bool) (d : dir) (cur : N) (now : Z) (k : nat) : dir :=
    run_steps d (firstn k (compact_steps_v fresh rotate d cur now)).

  (* the code as it is today *)
  Definition build_tmp := build_tmp_v false.
  Definition compact_steps := compact_steps_v false.
  Definition compact := compact_v false.
  Definition crash_after := crash_after_v false.
End Compaction.

(* HasLock decisions given extensionally: the records (as they appear in rewrite.aof.tmp, i.e. with the REWRITED mark)
   whose hold still exists *)
Definition has_lock_of (live : list bytes) (b : bytes) (v : option bytes) : bool :=
  existsb (bytes_eqb (mark_rewrited b)) live.

(* ------------------------------------------------------------------ the entry guard of rewriteAofFiles (aof.go:1970-1988)
   Aof.isRewriting / Aof.isWaitRewite as a state machine: idle = (false,false), rewriting = (true,_),
   wait-rewrite = (false,true).  [g_active] is a ghost counter: compaction goroutines past the guard and not yet returned.
   [on_rewriting] is a SOURCE SWITCH read from the text of rewriteAofFiles by checks/C16.py: the entry guard tests
   self.isRewriting (true, the code as it is) or something else (false: modelled as the other flag, isWaitRewite). *)
Record guard := mkguard { g_rewriting : bool; g_wait : bool; g_active : nat }.
Definition g_idle : guard := mkguard false false 0.

Inductive gevent :=
| GRequest    (* a `go self.rewriteAofFiles()` reaches its entry: RewriteAofFile(true) (size threshold in PushLock, admin
                 command, PushLock without open file), LoadAndInit / Load, the consistency barrier of a follower *)
| GDefer      (* RewriteAofFile(false) (follower rotation): isWaitRewite = true, no compaction requested yet *)
| GBarrier    (* replication.go: isWaitRewite = false when the barrier command has been issued *)
| GFinish.    (* the deferred function of a running compaction (after clearRewriteAofFiles returned): isRewriting = false *)

Definition g_blocked (on_rewriting : bool) (g : guard) : bool := if on_rewriting then g_rewriting g else g_wait g.

Definition gstep (on_rewriting : bool) (g : guard) (e : gevent) : guard :=
  match e with
  | GRequest => if g_blocked on_rewriting g then g else mkguard true false (S (g_active g))
  | GDefer => mkguard (g_rewriting g) true (g_active g)
  | GBarrier => mkguard (g_rewriting g) false (g_active g)
  | GFinish => match g_active g with O => g | S n => mkguard false (g_wait g) n end
  end.

Definition grun (on_rewriting : bool) (evs : list gevent) (g : guard) : guard := fold_left (gstep on_rewriting) evs g.

(* the observable history: which requests started a compaction, which compactions finished *)
Inductive gmark := GStarted | GFinished.
Definition gmark_of (on_rewriting : bool) (g : guard) (e : gevent) : list gmark :=
  match e with
  | GRequest => if g_blocked on_rewriting g then [] else [GStarted]
  | GFinish => match g_active g with O => [] | S _ => [GFinished] end
  | _ => []
  end.
Fixpoint glog (on_rewriting : bool) (evs : list gevent) (g : guard) : list gmark :=
  match evs with
  | [] => []
  | e :: tl => gmark_of on_rewriting g e ++ glog on_rewriting tl (gstep on_rewriting g e)
  end.
(* Started and Finished alternate, beginning with [expect_start] *)
Fixpoint alternates (expect_start : bool) (l : list gmark) : bool :=
  match l with
  | [] => true
  | GStarted :: tl => expect_start && alternates false tl
  | GFinished :: tl => negb expect_start && alternates true tl
  end.

(* ------------------------------------------------------------------ busy compaction: appends while it runs
   The files a mutation writes (or moves). *)
Definition touches (m : mutation) : list fname :=
  match m with MPut f _ => [f] | MRemove f => [f] | MRename f g => [f; g] end.

(* footprint of a compaction that started while the current append file was [cur] (after the rotation): the tmp pair,
   the rewrite pair and the append files with a SMALLER index *)
Definition local_file (cur : N) (f : fname) : bool :=
  match f with
  | FRewrite | FRewriteDat | FTmp | FTmpDat => true
  | FAppend i | FAppendDat i => i <? cur
  end.

(* what the rest of the server does to the directory while a compaction runs: the flushed appends go to the current file
   (index >= cur: PushLock/AppendLock write self.aofFile, RewriteAofFile only ever increases aofFileIndex), a rotation
   creates the next one *)
Definition foreign_mut (cur : N) (m : mutation) : bool :=
  match m with
  | MPut (FAppend i) _ | MPut (FAppendDat i) _ => cur <=? i
  | _ => false
  end.

Definition dir_equiv (d1 d2 : dir) : Prop := forall f, dget d1 f = dget d2 f.

(* interleavings of two mutation lists *)
Inductive merge {A : Type} : list A -> list A -> list A -> Prop :=
| merge_nil : merge [] [] []
| merge_l x l r m : merge l r m -> merge (x :: l) r (x :: m)
| merge_r x l r m : merge l r m -> merge l (x :: r) (x :: m).
