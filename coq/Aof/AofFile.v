(* Byte-exact executable model of AofFile (server/aof.go:170-606): bufio-style buffered reader, ReadHeader, ReadLock
   (with the stale lock buffer made explicit), ReadLockData, the write side as a trace of write(2) calls
   (records first, then values), and Open in append mode.

   OS model: a file is a byte list; a read on a regular file returns min(len, remaining) bytes and (0, EOF) at the end;
   a write may be cut at any byte; completed syscalls are not reordered; fsync is not modelled.

   Source switches (derived from the text of /repo/server/aof.go by checks/C08.py, cross-checked by the differential
   run): the model follows the code as it is TODAY when all four are false; proposed_fixes/c08_*.diff turn them on. *)
From Coq Require Import List NArith ZArith Bool Lia PeanoNat.
From Slock Require Import Aof.AofRec.
Import ListNotations.
Open Scope N_scope.

Record fixes := mkfixes {
  fx_rl_nerr : bool;   (* ReadLock: failed second read returns nerr (io.EOF) instead of err (= nil) *)
  fx_rl_short : bool;  (* ReadLock: a record still shorter than 64 bytes after the second read is end of log, not "Lock Len error" *)
  fx_hdr : bool;       (* ReadHeader: a header shorter than 12 bytes is end of log, not "File is not AOF FIle" *)
  fx_trunc : bool      (* Open (append mode): a torn tail (size-12 not a multiple of 64) is truncated away *)
}.
Definition today : fixes := mkfixes false false false false.
Definition repaired : fixes := mkfixes true true true true.

(* [EFuel]: a loop of the model ran out of fuel (never produced by the code; a distinct outcome excluded by the theorems) *)
Inductive err := EOF | ELockLen | ENotAof | EMagic | EVersion | ENoFile | ENoDataFile | EFuel.

(* ------------------------------------------------------------------ bufio.Reader over a regular file *)
Record rd := mkrd { r_buf : bytes; r_rest : bytes; r_size : nat }.

Definition stream (r : rd) : bytes := r_buf r ++ r_rest r.

(* bufio.NewReaderSize: sizes below 16 are raised to 16 *)
Definition new_rd (size : nat) (file : bytes) : rd := mkrd [] file (Nat.max size 16).

(* bufio.Reader.Read(p) with len(p) = len: the data copied into p, the error, the new reader.
   Empty internal buffer: a request of at least the buffer size goes straight to the file, otherwise ONE refill;
   non-empty buffer: only what is buffered is returned (no second read). *)
Definition rd_read (r : rd) (len : nat) : bytes * option err * rd :=
  match len with
  | O => ([], None, r)
  | _ =>
    match r_buf r with
    | [] =>
      match r_rest r with
      | [] => ([], Some EOF, r)
      | _ =>
        if (r_size r <=? len)%nat then (firstn len (r_rest r), None, mkrd [] (skipn len (r_rest r)) (r_size r))
        else let b := firstn (r_size r) (r_rest r) in
             (firstn len b, None, mkrd (skipn len b) (skipn (r_size r) (r_rest r)) (r_size r))
      end
    | b => (firstn len b, None, mkrd (skipn len b) (r_rest r) (r_size r))
    end
  end.

(* copy(buf[pos:], data) for data not longer than the room *)
Definition overwrite (buf : bytes) (pos : nat) (data : bytes) : bytes :=
  firstn pos buf ++ data ++ skipn (pos + length data) buf.

Definition magic : bytes := [83; 76; 79; 67; 75; 65; 79; 70].   (* "SLOCKAOF" *)
Definition header : bytes := magic ++ [1; 0; 0; 0].

Definition bytes_eqb (a b : bytes) : bool :=
  (length a =? length b)%nat && forallb (fun p => fst p =? snd p) (combine a b).

(* ReadHeader (aof.go:267-296) *)
Definition read_header (fx : fixes) (r : rd) : option err * rd :=
  let '(d, e, r1) := rd_read r 12 in
  match e with
  | Some e => (Some e, r1)
  | None =>
    if negb (length d =? 12)%nat then (Some (if fx_hdr fx then EOF else ENotAof), r1)
    else if negb (bytes_eqb (firstn 8 d) magic) then (Some EMagic, r1)
    else if negb (nthb d 8 + 256 * nthb d 9 =? 1) then (Some EVersion, r1)
    else
      let hl := N.to_nat (nthb d 10 + 256 * nthb d 11) in
      match hl with
      | O => (None, r1)
      | _ => let '(d2, e2, r2) := rd_read r1 hl in
             match e2 with
             | Some e2 => (Some e2, r2)
             | None => if (length d2 =? hl)%nat then (None, r2) else (Some ENotAof, r2)
             end
      end
  end.

(* ReadLock (aof.go:310-339).  [lbuf] is lock.buf, the 64-byte buffer of the AofLock object that LoadAofFiles reuses
   for every record of every file: whatever a short read does not overwrite is STALE content of the previous record. *)
Definition read_lock (fx : fixes) (r : rd) (lbuf : bytes) : option err * bytes * rd :=
  let '(d, e, r1) := rd_read r 64 in
  match e with
  | Some e => (Some e, lbuf, r1)
  | None =>
    let n := length d in
    let lbuf1 := overwrite lbuf 0 d in
    let want := (N.to_nat (b_len lbuf1) + 2)%nat in
    if (n =? want)%nat then (None, lbuf1, r1)
    else
      let '(d2, e2, r2) := rd_read r1 (64 - n) in
      match e2 with
      | Some e2 => ((if fx_rl_nerr fx then Some e2 else None), lbuf1, r2)     (* today: `return err`, and err is nil *)
      | None =>
        let lbuf2 := overwrite lbuf1 n d2 in
        let n2 := (n + length d2)%nat in
        if (n2 =? want)%nat then (None, lbuf2, r2)
        else if fx_rl_short fx && (n2 <? 64)%nat then (Some EOF, lbuf2, r2)
        else (Some ELockLen, lbuf2, r2)
      end
  end.

(* ReadLockData (aof.go:371-414), SPECIFICATION at stream level: "the next 4+len bytes of the value file, or io.EOF".
   The loader uses the byte-exact [read_data_b] below (through bufio, with the two continuation loops);
   AofProofs.read_data_b_stream proves that both agree for every reader state.  [None] = the .dat file could not be
   opened. *)
Definition read_data (dat : option bytes) : (bytes * option bytes) + err :=
  match dat with
  | None => inr ENoDataFile
  | Some s =>
    if (length s <? 4)%nat then inr EOF
    else
      let dl := unle (firstn 4 s) in
      if N.of_nat (length s - 4) <? dl then inr EOF          (* compared in N: a garbage length can be 2^32-1 *)
      else inl (firstn (4 + N.to_nat dl) s, Some (skipn (4 + N.to_nat dl) s))
  end.

(* ------------------------------------------------------------------ ReadLockData, byte-exact through bufio *)
(* copy(buf[pos:], d) on a buffer made by make([]byte, ..): the buffer is represented by its written prefix [buf], the
   rest being zero, so the write offset [pos] is explicit and a 4 GiB buffer (garbage length) is never materialised *)
Definition put (buf : bytes) (pos : nat) (d : bytes) : bytes :=
  overwrite (buf ++ repeat 0 (pos + length d - length buf)) pos d.

(* the continuation loops of ReadLockData over a target buffer of want+off bytes of which n+off are filled:
       for n < want { nn, nerr := self.drbuf.Read(buf[n+off:]); if nerr != nil { return nerr }; n += nn }
   off = 0 for the 4-byte dlbuf, off = 4 for aofLockData (payload after the copied length prefix);
   len(buf[n+off:]) = want + off - (n + off). *)
Fixpoint fill (fuel : nat) (r : rd) (buf : bytes) (off n want : nat) : (bytes * rd) + err :=
  if (want <=? n)%nat then inl (buf, r)
  else
    match fuel with
    | O => inr EFuel
    | S f =>
      let '(d, e, r1) := rd_read r (want + off - (n + off)) in
      match e with
      | Some e => inr e
      | None => fill f r1 (put buf (n + off) d) off (n + length d) want
      end
    end.

(* [wantf dl r] = the payload length handed to the reads as a nat.  The code uses dataLen itself ([want_all]); the
   EXECUTABLE model uses [want_cap]: dataLen capped at (bytes left in the file) + 1, computed in N, because the
   extracted nat is unary and a garbage length can be 2^32-1.  The cap cannot be observed: a read that asks for more
   than the file still holds returns the same data, error and reader for every such length (AofProofs.rd_read_cap), and
   the continuation loop then ends in io.EOF (AofProofs.read_data_cap_preserving: read_data_b = read_data_u). *)
Definition want_all (dl : N) (r : rd) : nat := N.to_nat dl.
Definition want_cap (dl : N) (r : rd) : nat := N.to_nat (N.min dl (N.of_nat (length (stream r)) + 1)).

(* the 4-byte length prefix: first read into dlbuf, then the first continuation loop *)
Definition read_prefix (r : rd) : (bytes * rd) + err :=
  let '(d, e, r1) := rd_read r 4 in                           (* n, err := self.drbuf.Read(buf)   (buf = dlbuf, 4 bytes) *)
  match e with
  | Some e => inr e
  | None => fill 4 r1 (put [] 0 d) 0 (length d) 4             (* for n < 4 { Read(buf[n:]) } *)
  end.

(* the payload: aofLockData = make([]byte, dataLen+4) with the prefix [lb] copied in; [want] = dataLen *)
Definition read_payload (want : nat) (lb : bytes) (r2 : rd) : (bytes * rd) + err :=
  let '(d2, e2, r3) := rd_read r2 want in                     (* n, err = self.drbuf.Read(aofLockData[4:]) *)
  match e2 with
  | Some e => inr e
  | None =>
    match fill want r3 (put lb 4 d2) 4 (length d2) want with  (* for n < dataLen { Read(aofLockData[n+4:]) } *)
    | inr e => inr e
    | inl (v, r4) => inl (v ++ repeat 0 (want + 4 - length v), r4)     (* the whole make'd buffer *)
    end
  end.

Definition read_data_gen (wantf : N -> rd -> nat) (dr : option rd) : (bytes * rd) + err :=
  match dr with
  | None => inr ENoDataFile                                   (* self.dataFile == nil *)
  | Some r =>
    match read_prefix r with
    | inr e => inr e
    | inl (lb, r2) =>
      let dl := unle lb in                                    (* dataLen; aofLockData[0..3] = buf[0..3] *)
      if dl =? 0 then inl (lb, r2)                            (* if dataLen <= 0 { lock.data = aofLockData } *)
      else read_payload (wantf dl r2) lb r2
    end
  end.

Definition read_data_b : option rd -> (bytes * rd) + err := read_data_gen want_cap.   (* executable *)
Definition read_data_u : option rd -> (bytes * rd) + err := read_data_gen want_all.   (* lengths as in the code *)

(* the reader of the value file: bufio.NewReaderSize(self.dataFile, self.bufSize*64), created at the first ReadLockData
   (creating it when the file is opened is the same: nothing else reads the value file).  EXECUTABLE form: the buffer
   size is capped at (file length) + 1, computed in N (4096*64 in unary is too slow); a buffer larger than the file
   behaves like any other buffer larger than the file, and AofProofs.load_loop_dat_indep shows that the loader depends
   on the value reader only through its stream: [load_file] = the same with [dat_rd_code] (AofProofs.load_file_dat_rd). *)
Definition dat_rd_code (bs : nat) (d : bytes) : rd := new_rd (bs * 64) d.
Definition dat_rd (bs : nat) (d : bytes) : rd :=
  new_rd (N.to_nat (N.min (N.of_nat bs * 64) (N.of_nat (length d) + 1))) d.

(* ------------------------------------------------------------------ write side *)
Inductive wr := WAof (b : bytes) | WDat (b : bytes).

Record wst := mkwst { w_buf : bytes; w_dbuf : bytes }.

Definition nonempty (b : bytes) : bool := match b with [] => false | _ => true end.

(* Flush (aof.go:510-550): one write of the pending records, THEN one write of the pending values *)
Definition flush (s : wst) : list wr * wst :=
  ((if nonempty (w_buf s) then [WAof (w_buf s)] else []) ++ (if nonempty (w_dbuf s) then [WDat (w_dbuf s)] else []),
   mkwst [] []).

(* WriteLock sets bytes 0,1 of the record buffer to 62,0 *)
Definition norm (rec : bytes) : bytes := 62 :: 0 :: skipn 2 rec.

(* Aof.PushLock: WriteLock (aof.go:416-441), then WriteLockData (aof.go:466-508) iff AOF_FLAG_CONTAINS_DATA.
   [bs] = bufSize (a multiple of 64); the value buffer has bs*64 bytes. *)
Definition write_item (bs : nat) (s : wst) (rec data : bytes) : list wr * wst :=
  let rec' := norm rec in
  let s1 := mkwst (w_buf s ++ rec') (w_dbuf s) in
  let '(t1, s2) := if (bs <=? length (w_buf s1))%nat then flush s1 else ([], s1) in
  if has_data rec' then
    if nonempty (w_buf s2) then
      if (length data <=? bs * 64 - length (w_dbuf s2))%nat then (t1, mkwst (w_buf s2) (w_dbuf s2 ++ data))
      else let '(t2, s3) := flush s2 in (t1 ++ t2 ++ [WDat data], s3)
    else if nonempty (w_dbuf s2) then let '(t2, s3) := flush s2 in (t1 ++ t2 ++ [WDat data], s3)
    else (t1 ++ [WDat data], s2)
  else (t1, s2).

Inductive op := OItem (rec data : bytes) | OFlush.

Fixpoint run_ops (bs : nat) (s : wst) (ops : list op) : list wr :=
  match ops with
  | [] => fst (flush s)                       (* Close flushes *)
  | OItem rec data :: tl => let '(t, s') := write_item bs s rec data in t ++ run_ops bs s' tl
  | OFlush :: tl => let '(t, s') := flush s in t ++ run_ops bs s' tl
  end.

(* the files after a list of completed writes, starting from given contents (O_APPEND) *)
Fixpoint apply_trace (t : list wr) (a d : bytes) : bytes * bytes :=
  match t with
  | [] => (a, d)
  | WAof b :: tl => apply_trace tl (a ++ b) d
  | WDat b :: tl => apply_trace tl a (d ++ b)
  end.

(* crash: the first k writes are complete, the next one is cut after j bytes *)
Definition crash_image (t : list wr) (k j : nat) (a d : bytes) : bytes * bytes :=
  let '(a1, d1) := apply_trace (firstn k t) a d in
  match nth_error t k with
  | Some (WAof b) => (a1 ++ firstn j b, d1)
  | Some (WDat b) => (a1, d1 ++ firstn j b)
  | None => (a1, d1)
  end.

(* a fresh append file: Open creates both files and writes the 12-byte header, then the workload *)
Definition fresh_trace (bs : nat) (ops : list op) : list wr := WAof header :: run_ops bs (mkwst [] []) ops.

(* Open in append mode on existing contents (aof.go:200-249): the files as they are when the first record is appended.
   [None] = absent. *)
Definition open_append (fx : fixes) (a d : option bytes) : bytes * bytes :=
  let a0 := match a with Some x => x | None => [] end in
  let d0 := match d with Some x => x | None => [] end in
  let size := length a0 in
  if (size =? 0)%nat then (header, d0)
  else if (size <? 12)%nat then (header, d0)                                   (* Truncate(0) + WriteHeader *)
  else if fx_trunc fx && negb ((size - 12) mod 64 =? 0)%nat then (firstn (size - (size - 12) mod 64) a0, d0)
  else (a0, d0).
