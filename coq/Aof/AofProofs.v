(* Proofs about the AOF file model: the buffered reader delivers exactly the 64-byte records of the stream
   (bufio elimination), the byte-exact ReadLockData (through the bufio reader of the value file, with its continuation
   loops) delivers exactly "the next 4+len bytes or EOF" for every reader state (bufio elimination for values; the caps
   of the executable model are unobservable), the loader on a crash image delivers an expiry-filtered prefix of the written records
   (repaired variant: every crash image; today's variant: cuts at record boundaries), every crash image of the
   write model has the crash shape, second restart, and the refutations for today's variant. *)
From Coq Require Import List NArith ZArith Bool Lia PeanoNat.
From Slock Require Import Aof.AofRec Aof.AofFile Aof.AofLoad.
Import ListNotations.
Open Scope N_scope.

(* ------------------------------------------------------------------ list helpers *)
Lemma skipn_firstn_app {A} (l : list A) a b : (a <= b)%nat -> skipn a (firstn b l) ++ skipn b l = skipn a l.
Proof.
  intros H. destruct (Nat.le_gt_cases b (length l)) as [Hl|Hl].
  - rewrite <- (firstn_skipn b l) at 3.
    rewrite skipn_app. rewrite firstn_length. rewrite Nat.min_l by lia.
    replace (a - b)%nat with 0%nat by lia. reflexivity.
  - rewrite (skipn_all2 (n:=b)) by lia. rewrite (firstn_all2 (n:=b)) by lia. apply app_nil_r.
Qed.

Lemma firstn_firstn_min {A} (l : list A) a b : firstn a (firstn b l) = firstn (Nat.min a b) l.
Proof. apply firstn_firstn. Qed.

Lemma firstn_app_le {A} (l1 l2 : list A) n : (n <= length l1)%nat -> firstn n (l1 ++ l2) = firstn n l1.
Proof. intros H. rewrite firstn_app. replace (n - length l1)%nat with 0%nat by lia. simpl. apply app_nil_r. Qed.

Lemma skipn_app_le {A} (l1 l2 : list A) n : (n <= length l1)%nat -> skipn n (l1 ++ l2) = skipn n l1 ++ l2.
Proof. intros H. rewrite skipn_app. replace (n - length l1)%nat with 0%nat by lia. reflexivity. Qed.

Lemma nth_skipn0 {A} (l : list A) k d : nth 0 (skipn k l) d = nth k l d.
Proof. revert l; induction k; intros l; destruct l; simpl; auto. Qed.

Lemma nth_firstn_lt {A} (l : list A) i n d : (i < n)%nat -> nth i (firstn n l) d = nth i l d.
Proof.
  revert i n; induction l as [|x l IH]; intros i n H.
  - rewrite firstn_nil. reflexivity.
  - destruct n; [lia|]. destruct i; simpl; auto. apply IH. lia.
Qed.

(* ------------------------------------------------------------------ A. the buffered reader at stream level *)
Lemma rd_read_eof r len : (0 < len)%nat -> stream r = [] -> rd_read r len = ([], Some EOF, r).
Proof.
  intros Hl Hs. unfold stream in Hs. apply app_eq_nil in Hs as [Hb Hr].
  unfold rd_read. destruct len; [lia|]. rewrite Hb, Hr. reflexivity.
Qed.

Lemma firstn_min_len {A} (l : list A) n : firstn (Nat.min n (length l)) l = firstn n l.
Proof.
  destruct (Nat.le_gt_cases n (length l)).
  - rewrite Nat.min_l by lia. reflexivity.
  - rewrite Nat.min_r by lia. rewrite firstn_all. symmetry. apply firstn_all2. lia.
Qed.

Lemma rd_read_some r len :
  (0 < len)%nat -> (len <= r_size r)%nat -> stream r <> [] ->
  exists k r', rd_read r len = (firstn k (stream r), None, r') /\ (1 <= k)%nat /\ (k <= len)%nat /\ (k <= length (stream r))%nat
    /\ stream r' = skipn k (stream r) /\ r_size r' = r_size r /\ ((k < len)%nat -> r_buf r' = [])
    /\ (r_buf r = [] -> k = Nat.min len (length (stream r))).
Proof.
  intros Hl Hsz Hs. destruct r as [b rest size]. unfold stream in *. cbn [r_buf r_rest r_size] in *.
  unfold rd_read. destruct len as [|len']; [lia|]. set (len := S len') in *. cbn [r_buf r_rest r_size].
  destruct b as [|b0 b].
  - destruct rest as [|x rest]; [exfalso; apply Hs; reflexivity|]. set (rs := x :: rest) in *.
    assert (Hrl : (1 <= length rs)%nat) by (subst rs; simpl; lia).
    cbn [app].
    destruct (size <=? len)%nat eqn:E.
    + apply Nat.leb_le in E. exists (Nat.min len (length rs)), (mkrd [] (skipn len rs) size).
      cbn [r_buf r_rest r_size app]. repeat split; try lia.
      * rewrite firstn_min_len. reflexivity.
      * destruct (Nat.le_gt_cases len (length rs)).
        -- rewrite Nat.min_l by lia. reflexivity.
        -- rewrite Nat.min_r by lia. rewrite !skipn_all2; auto; lia.
    + apply Nat.leb_gt in E.
      exists (Nat.min len (length rs)), (mkrd (skipn len (firstn size rs)) (skipn size rs) size).
      cbn [r_buf r_rest r_size app]. repeat split; try lia.
      * rewrite firstn_min_len. rewrite firstn_firstn. rewrite Nat.min_l by lia. reflexivity.
      * destruct (Nat.le_gt_cases len (length rs)).
        -- rewrite Nat.min_l by lia. apply skipn_firstn_app. lia.
        -- rewrite Nat.min_r by lia. rewrite (skipn_all2 (n:=len)) by (rewrite firstn_length; lia).
           rewrite !skipn_all2; auto; lia.
      * intros Hk. apply skipn_all2. rewrite firstn_length. lia.
  - set (bb := b0 :: b) in *.
    assert (Hbl : (1 <= length bb)%nat) by (subst bb; simpl; lia).
    exists (Nat.min len (length bb)), (mkrd (skipn len bb) rest size).
    cbn [r_buf r_rest r_size]. repeat split; try lia.
    + rewrite firstn_app_le by lia. rewrite firstn_min_len. reflexivity.
    + rewrite app_length. lia.
    + destruct (Nat.le_gt_cases len (length bb)).
      * rewrite Nat.min_l by lia. rewrite skipn_app_le by lia. reflexivity.
      * rewrite Nat.min_r by lia. rewrite (skipn_all2 (n:=len)) by lia.
        rewrite skipn_app. rewrite skipn_all, Nat.sub_diag. reflexivity.
    + intros Hk. apply skipn_all2. lia.
    + intros Hb. discriminate.
Qed.

(* the same without any hypothesis on the buffer size: a non-empty prefix of the stream, never more than asked for *)
Lemma rd_read_gen r len :
  (0 < len)%nat -> stream r <> [] ->
  exists k r', rd_read r len = (firstn k (stream r), None, r') /\ (1 <= k)%nat /\ (k <= len)%nat /\ (k <= length (stream r))%nat
    /\ stream r' = skipn k (stream r) /\ r_size r' = r_size r.
Proof.
  intros Hl Hs. destruct r as [b rest size]. unfold stream in *. cbn [r_buf r_rest r_size] in *.
  unfold rd_read. destruct len as [|len']; [lia|]. set (len := S len') in *. cbn [r_buf r_rest r_size].
  destruct b as [|b0 b].
  - destruct rest as [|x rest]; [exfalso; apply Hs; reflexivity|]. set (rs := x :: rest) in *.
    assert (Hrl : (1 <= length rs)%nat) by (subst rs; simpl; lia).
    cbn [app].
    destruct (size <=? len)%nat eqn:E.
    + apply Nat.leb_le in E. exists (Nat.min len (length rs)), (mkrd [] (skipn len rs) size).
      cbn [r_buf r_rest r_size app]. repeat split; try lia.
      * rewrite firstn_min_len. reflexivity.
      * destruct (Nat.le_gt_cases len (length rs)).
        -- rewrite Nat.min_l by lia. reflexivity.
        -- rewrite Nat.min_r by lia. rewrite !skipn_all2; auto; lia.
    + apply Nat.leb_gt in E.
      exists (Nat.min len (length rs)), (mkrd (skipn len (firstn size rs)) (skipn size rs) size).
      cbn [r_buf r_rest r_size app]. repeat split; try lia.
      * rewrite firstn_min_len. rewrite firstn_firstn. rewrite Nat.min_l by lia. reflexivity.
      * destruct (Nat.le_gt_cases len (length rs)).
        -- rewrite Nat.min_l by lia. apply skipn_firstn_app. lia.
        -- rewrite Nat.min_r by lia. rewrite (skipn_all2 (n:=len)) by (rewrite firstn_length; lia).
           rewrite !skipn_all2; auto; lia.
  - set (bb := b0 :: b) in *.
    assert (Hbl : (1 <= length bb)%nat) by (subst bb; simpl; lia).
    exists (Nat.min len (length bb)), (mkrd (skipn len bb) rest size).
    cbn [r_buf r_rest r_size]. repeat split; try lia.
    + rewrite firstn_app_le by lia. rewrite firstn_min_len. reflexivity.
    + rewrite app_length. lia.
    + destruct (Nat.le_gt_cases len (length bb)).
      * rewrite Nat.min_l by lia. rewrite skipn_app_le by lia. reflexivity.
      * rewrite Nat.min_r by lia. rewrite (skipn_all2 (n:=len)) by lia.
        rewrite skipn_app. rewrite skipn_all, Nat.sub_diag. reflexivity.
Qed.

(* a read that asks for more than the file still holds: everything that is buffered (or, buffer empty, everything that
   is left), whatever the requested length and the buffer size *)
Lemma rd_read_beyond r len : (length (stream r) < len)%nat ->
  rd_read r len =
  match r_buf r with
  | [] => match r_rest r with [] => ([], Some EOF, r) | rs => (rs, None, mkrd [] [] (r_size r)) end
  | b => (b, None, mkrd [] (r_rest r) (r_size r))
  end.
Proof.
  destruct r as [b rest size]. unfold stream. cbn [r_buf r_rest r_size]. intros H. rewrite app_length in H.
  unfold rd_read. destruct len as [|len']; [lia|]. set (len := S len') in *. cbn [r_buf r_rest r_size].
  destruct b as [|b0 b].
  - destruct rest as [|x rest]; [reflexivity|]. set (rs := x :: rest) in *. cbn [length] in H.
    destruct (size <=? len)%nat eqn:E.
    + rewrite firstn_all2 by lia. rewrite skipn_all2 by lia. reflexivity.
    + apply Nat.leb_gt in E. rewrite (firstn_all2 (n:=size)) by lia. rewrite firstn_all2 by lia.
      rewrite !skipn_all2 by lia. reflexivity.
  - set (bb := b0 :: b) in *. rewrite firstn_all2 by lia. rewrite skipn_all2 by lia. reflexivity.
Qed.

(* the cap of the executable model on the requested length: any two lengths beyond the end of the file give the same
   data, the same error and the same reader *)
Lemma rd_read_cap r l1 l2 : (length (stream r) < l1)%nat -> (length (stream r) < l2)%nat -> rd_read r l1 = rd_read r l2.
Proof. intros H1 H2. rewrite (rd_read_beyond r l1 H1), (rd_read_beyond r l2 H2). reflexivity. Qed.

(* ------------------------------------------------------------------ A3. ReadLockData through bufio = stream level *)
Lemma firstn_add_skipn {A} (l : list A) a b : firstn a l ++ firstn b (skipn a l) = firstn (a + b) l.
Proof.
  revert l; induction a as [|a IH]; intros l; [reflexivity|]. destruct l as [|x l].
  - cbn [firstn skipn app Nat.add]. rewrite !firstn_nil. reflexivity.
  - cbn [firstn skipn app Nat.add]. rewrite IH. reflexivity.
Qed.

Lemma skipn_add_skipn {A} (l : list A) a b : skipn b (skipn a l) = skipn (a + b) l.
Proof.
  revert l; induction a as [|a IH]; intros l; [reflexivity|]. destruct l as [|x l].
  - cbn [skipn Nat.add]. rewrite !skipn_nil. reflexivity.
  - cbn [skipn Nat.add]. apply IH.
Qed.

(* a write at the end of the written prefix appends *)
Lemma put_end buf d : put buf (length buf) d = buf ++ d.
Proof.
  unfold put, overwrite. replace (length buf + length d - length buf)%nat with (length d) by lia.
  rewrite firstn_app_le by lia. rewrite firstn_all.
  rewrite skipn_all2 by (rewrite app_length, repeat_length; lia). rewrite app_nil_r. reflexivity.
Qed.

Lemma put_at_end buf pos d : length buf = pos -> put buf pos d = buf ++ d.
Proof. intros <-. apply put_end. Qed.

Lemma fill_0 r buf off n want : fill 0 r buf off n want = if (want <=? n)%nat then inl (buf, r) else inr EFuel.
Proof. reflexivity. Qed.

Lemma fill_S f r buf off n want :
  fill (S f) r buf off n want =
  if (want <=? n)%nat then inl (buf, r)
  else let '(d, e, r1) := rd_read r (want + off - (n + off)) in
       match e with Some e => inr e | None => fill f r1 (put buf (n + off) d) off (n + length d) want end.
Proof. reflexivity. Qed.

(* the continuation loop: enough bytes left => exactly the missing bytes are appended, however the reads are cut *)
Lemma fill_ok : forall fuel r buf off n want,
  (want - n <= fuel)%nat -> length buf = (n + off)%nat -> (want - n <= length (stream r))%nat ->
  exists r', fill fuel r buf off n want = inl (buf ++ firstn (want - n) (stream r), r')
    /\ stream r' = skipn (want - n) (stream r) /\ r_size r' = r_size r.
Proof.
  induction fuel as [|fuel IH]; intros r buf off n want Hf Hb Hs.
  - rewrite fill_0. assert (E : (want <=? n)%nat = true) by (apply Nat.leb_le; lia). rewrite E.
    replace (want - n)%nat with 0%nat by lia. cbn [firstn skipn]. rewrite app_nil_r. eauto.
  - rewrite fill_S. destruct (want <=? n)%nat eqn:E.
    + apply Nat.leb_le in E. replace (want - n)%nat with 0%nat by lia. cbn [firstn skipn]. rewrite app_nil_r. eauto.
    + apply Nat.leb_gt in E. replace (want + off - (n + off))%nat with (want - n)%nat by lia.
      assert (Hne : stream r <> []) by (intro X; rewrite X in Hs; simpl in Hs; lia).
      destruct (rd_read_gen r (want - n) ltac:(lia) Hne) as (k & r1 & Hrd & Hk1 & Hk2 & Hk3 & Hst & Hsz).
      rewrite Hrd. cbv beta iota zeta.
      assert (Hdl : length (firstn k (stream r)) = k) by (rewrite firstn_length; lia).
      rewrite Hdl. rewrite (put_at_end buf (n + off) _ Hb).
      destruct (IH r1 (buf ++ firstn k (stream r)) off (n + k)%nat want) as (r' & Hfl & Hst' & Hsz').
      * lia.
      * rewrite app_length, Hdl. lia.
      * rewrite Hst, skipn_length. lia.
      * exists r'. rewrite Hfl. split; [|split].
        -- rewrite Hst. rewrite <- app_assoc. rewrite firstn_add_skipn.
           replace (k + (want - (n + k)))%nat with (want - n)%nat by lia. reflexivity.
        -- rewrite Hst', Hst, skipn_add_skipn. f_equal. lia.
        -- lia.
Qed.

(* ... fewer bytes left than missing => io.EOF (the loop reads on until the file is exhausted) *)
Lemma fill_short : forall fuel r buf off n want,
  (want - n <= fuel)%nat -> (length (stream r) < want - n)%nat -> fill fuel r buf off n want = inr EOF.
Proof.
  induction fuel as [|fuel IH]; intros r buf off n want Hf Hs; [lia|].
  rewrite fill_S. assert (E : (want <=? n)%nat = false) by (apply Nat.leb_gt; lia). rewrite E.
  replace (want + off - (n + off))%nat with (want - n)%nat by lia.
  assert (Hcase : stream r = [] \/ stream r <> []) by (destruct (stream r); [left; reflexivity|right; discriminate]).
  destruct Hcase as [He|Hne].
  - rewrite rd_read_eof by (auto; lia). reflexivity.
  - destruct (rd_read_gen r (want - n) ltac:(lia) Hne) as (k & r1 & Hrd & Hk1 & Hk2 & Hk3 & Hst & Hsz).
    rewrite Hrd. cbv beta iota zeta. rewrite firstn_length. rewrite Nat.min_l by lia.
    apply IH; [lia|]. rewrite Hst, skipn_length. lia.
Qed.

Lemma put_nil d : put [] 0 d = d.
Proof. apply (put_end [] d). Qed.

Lemma read_prefix_ok r : (4 <= length (stream r))%nat ->
  exists r2, read_prefix r = inl (firstn 4 (stream r), r2) /\ stream r2 = skipn 4 (stream r) /\ r_size r2 = r_size r.
Proof.
  intros H4. unfold read_prefix.
  assert (Hne : stream r <> []) by (intro X; rewrite X in H4; simpl in H4; lia).
  destruct (rd_read_gen r 4 ltac:(lia) Hne) as (k & r1 & Hrd & Hk1 & Hk2 & Hk3 & Hst & Hsz).
  rewrite Hrd. rewrite put_nil.
  assert (Hdl : length (firstn k (stream r)) = k) by (rewrite firstn_length; lia).
  rewrite Hdl.
  destruct (fill_ok 4 r1 (firstn k (stream r)) 0 k 4) as (r2 & Hfl & Hst2 & Hsz2).
  - lia.
  - rewrite Hdl. lia.
  - rewrite Hst, skipn_length. lia.
  - exists r2. rewrite Hfl. split; [|split].
    + rewrite Hst, firstn_add_skipn. replace (k + (4 - k))%nat with 4%nat by lia. reflexivity.
    + rewrite Hst2, Hst, skipn_add_skipn. f_equal. lia.
    + lia.
Qed.

Lemma read_prefix_short r : (length (stream r) < 4)%nat -> read_prefix r = inr EOF.
Proof.
  intros H4. unfold read_prefix.
  assert (Hcase : stream r = [] \/ stream r <> []) by (destruct (stream r); [left; reflexivity|right; discriminate]).
  destruct Hcase as [He|Hne].
  - rewrite rd_read_eof by (auto; lia). reflexivity.
  - destruct (rd_read_gen r 4 ltac:(lia) Hne) as (k & r1 & Hrd & Hk1 & Hk2 & Hk3 & Hst & Hsz).
    rewrite Hrd. rewrite firstn_length. rewrite Nat.min_l by lia.
    apply fill_short; [lia|]. rewrite Hst, skipn_length. lia.
Qed.

Lemma read_payload_ok want lb r2 : (0 < want)%nat -> length lb = 4%nat -> (want <= length (stream r2))%nat ->
  exists r4, read_payload want lb r2 = inl (lb ++ firstn want (stream r2), r4)
    /\ stream r4 = skipn want (stream r2) /\ r_size r4 = r_size r2.
Proof.
  intros Hw Hlb Hs. unfold read_payload.
  assert (Hne : stream r2 <> []) by (intro X; rewrite X in Hs; simpl in Hs; lia).
  destruct (rd_read_gen r2 want Hw Hne) as (k & r3 & Hrd & Hk1 & Hk2 & Hk3 & Hst & Hsz).
  rewrite Hrd.
  assert (Hdl : length (firstn k (stream r2)) = k) by (rewrite firstn_length; lia).
  rewrite Hdl. rewrite (put_at_end lb 4 _ Hlb).
  destruct (fill_ok want r3 (lb ++ firstn k (stream r2)) 4 k want) as (r4 & Hfl & Hst4 & Hsz4).
  - lia.
  - rewrite app_length, Hdl. lia.
  - rewrite Hst, skipn_length. lia.
  - exists r4. rewrite Hfl.
    assert (Hv : (lb ++ firstn k (stream r2)) ++ firstn (want - k) (stream r3) = lb ++ firstn want (stream r2)).
    { rewrite Hst, <- app_assoc, firstn_add_skipn. replace (k + (want - k))%nat with want by lia. reflexivity. }
    rewrite Hv. split; [|split].
    + replace (want + 4 - length (lb ++ firstn want (stream r2)))%nat with 0%nat
        by (rewrite app_length, firstn_length; lia).
      cbn [repeat]. rewrite app_nil_r. reflexivity.
    + rewrite Hst4, Hst, skipn_add_skipn. f_equal. lia.
    + lia.
Qed.

Lemma read_payload_short want lb r2 : (length (stream r2) < want)%nat -> read_payload want lb r2 = inr EOF.
Proof.
  intros Hs. unfold read_payload.
  assert (Hcase : stream r2 = [] \/ stream r2 <> []) by (destruct (stream r2); [left; reflexivity|right; discriminate]).
  destruct Hcase as [He|Hne].
  - rewrite rd_read_eof by (auto; lia). reflexivity.
  - destruct (rd_read_gen r2 want ltac:(lia) Hne) as (k & r3 & Hrd & Hk1 & Hk2 & Hk3 & Hst & Hsz).
    rewrite Hrd. rewrite firstn_length. rewrite Nat.min_l by lia.
    rewrite fill_short; [reflexivity|lia|]. rewrite Hst, skipn_length. lia.
Qed.

(* what the theorems need of the payload length handed to the reads: the exact length when the file holds that many
   bytes, otherwise anything beyond the end of the file *)
Definition want_ok (wantf : N -> rd -> nat) : Prop :=
  forall dl r, (dl <= N.of_nat (length (stream r)) -> wantf dl r = N.to_nat dl)
            /\ (N.of_nat (length (stream r)) < dl -> (length (stream r) < wantf dl r)%nat).

Lemma want_all_ok : want_ok want_all.
Proof. intros dl r. unfold want_all. split; [reflexivity|lia]. Qed.

Lemma want_cap_ok : want_ok want_cap.
Proof.
  intros dl r. unfold want_cap. split; intros H.
  - rewrite N.min_l by lia. reflexivity.
  - rewrite N.min_r by lia. lia.
Qed.

(* bufio elimination for values: for EVERY reader state (any buffer size, any split of the stream between the buffered
   part and the rest of the file) the byte-exact ReadLockData agrees with the stream-level specification *)
Lemma read_data_gen_stream wantf r : want_ok wantf ->
  match read_data (Some (stream r)) with
  | inl (v, os) => exists r', read_data_gen wantf (Some r) = inl (v, r') /\ os = Some (stream r') /\ r_size r' = r_size r
  | inr e => read_data_gen wantf (Some r) = inr e
  end.
Proof.
  intros Hw. unfold read_data, read_data_gen. set (s := stream r).
  destruct (length s <? 4)%nat eqn:E4.
  - apply Nat.ltb_lt in E4. rewrite read_prefix_short by exact E4. reflexivity.
  - apply Nat.ltb_ge in E4. destruct (read_prefix_ok r E4) as (r2 & -> & Hst2 & Hsz2). fold s in Hst2 |- *.
    set (dl := unle (firstn 4 s)).
    assert (Hl2 : length (stream r2) = (length s - 4)%nat) by (rewrite Hst2, skipn_length; reflexivity).
    destruct (Hw dl r2) as [Hwle Hwgt]. rewrite Hl2 in Hwle, Hwgt.
    destruct (N.of_nat (length s - 4) <? dl) eqn:Ed.
    + apply N.ltb_lt in Ed.
      assert (E0 : (dl =? 0) = false) by (apply N.eqb_neq; lia). rewrite E0.
      apply read_payload_short. rewrite Hl2. auto.
    + apply N.ltb_ge in Ed. destruct (dl =? 0) eqn:E0.
      * apply N.eqb_eq in E0. rewrite E0. cbn [N.to_nat]. rewrite Nat.add_0_r.
        exists r2. split; [reflexivity|]. split; [rewrite Hst2; reflexivity|exact Hsz2].
      * apply N.eqb_neq in E0. rewrite (Hwle Ed).
        destruct (read_payload_ok (N.to_nat dl) (firstn 4 s) r2) as (r4 & Hrp & Hst4 & Hsz4).
        -- lia.
        -- rewrite firstn_length. lia.
        -- rewrite Hl2. lia.
        -- exists r4. rewrite Hrp. split; [|split].
           ++ rewrite Hst2, firstn_add_skipn. reflexivity.
           ++ rewrite Hst4, Hst2, skipn_add_skipn. reflexivity.
           ++ lia.
Qed.

Lemma read_data_b_stream r :
  match read_data (Some (stream r)) with
  | inl (v, os) => exists r', read_data_b (Some r) = inl (v, r') /\ os = Some (stream r') /\ r_size r' = r_size r
  | inr e => read_data_b (Some r) = inr e
  end.
Proof. apply read_data_gen_stream, want_cap_ok. Qed.

(* the form used by Properties/C08.v *)
Theorem value_reader_is_stream_reader r :
  (forall v s', read_data (Some (stream r)) = inl (v, Some s') ->
     exists r', read_data_b (Some r) = inl (v, r') /\ stream r' = s' /\ r_size r' = r_size r) /\
  (forall e, read_data (Some (stream r)) = inr e -> read_data_b (Some r) = inr e).
Proof.
  pose proof (read_data_b_stream r) as H. split.
  - intros v s' E. rewrite E in H. destruct H as (r' & H1 & H2 & H3). exists r'. injection H2 as H2. auto.
  - intros e E. rewrite E in H. exact H.
Qed.

Lemma read_data_no_fuel dat : read_data dat <> inr EFuel.
Proof.
  unfold read_data. destruct dat as [s|]; [|discriminate].
  destruct (length s <? 4)%nat; [discriminate|]. destruct (N.of_nat (length s - 4) <? unle (firstn 4 s)); discriminate.
Qed.

(* the cap on the requested length is behaviour preserving: the executable reader and the reader that hands dataLen
   itself to bufio (as the code does) return the same value / error and the same reader, for every reader state *)
Theorem read_data_cap_preserving dr : read_data_b dr = read_data_u dr.
Proof.
  destruct dr as [r|]; [|reflexivity]. unfold read_data_b, read_data_u, read_data_gen.
  destruct (read_prefix r) as [[lb r2]|e]; [|reflexivity].
  destruct (unle lb =? 0); [reflexivity|].
  destruct (N.le_gt_cases (unle lb) (N.of_nat (length (stream r2)))) as [Hle|Hgt].
  - rewrite (proj1 (want_cap_ok (unle lb) r2) Hle), (proj1 (want_all_ok (unle lb) r2) Hle). reflexivity.
  - rewrite !read_payload_short; [reflexivity| |].
    + apply (proj2 (want_all_ok (unle lb) r2)). lia.
    + apply (proj2 (want_cap_ok (unle lb) r2)). lia.
Qed.

(* ------------------------------------------------------------------ A2. ReadLock at stream level *)
Definition wf64 (rec : bytes) : Prop := length rec = 64%nat /\ nthb rec 0 = 62 /\ nthb rec 1 = 0.
Definition lbuf_ok (lb : bytes) : Prop := length lb = 64%nat /\ nthb lb 1 = 0.
Definition tail_ok (t : bytes) : Prop :=
  (length t < 64)%nat /\ (t <> [] -> nthb t 0 = 62) /\ ((2 <= length t)%nat -> nthb t 1 = 0).

Lemma zero_buf_ok : lbuf_ok zero_buf.
Proof. split; reflexivity. Qed.

Lemma wf64_lbuf_ok rec : wf64 rec -> lbuf_ok rec.
Proof. intros (H1 & _ & H3). split; auto. Qed.

Lemma overwrite0 lbuf d : overwrite lbuf 0 d = d ++ skipn (length d) lbuf.
Proof. reflexivity. Qed.

Lemma overwrite0_length lbuf d : length lbuf = 64%nat -> (length d <= 64)%nat -> length (overwrite lbuf 0 d) = 64%nat.
Proof. intros H1 H2. rewrite overwrite0, app_length, skipn_length. lia. Qed.

(* the length field seen after a first read of a non-empty piece [d] of a well-formed record *)
Lemma b_len_overwrite lbuf d :
  lbuf_ok lbuf -> d <> [] -> nthb d 0 = 62 -> ((2 <= length d)%nat -> nthb d 1 = 0) ->
  b_len (overwrite lbuf 0 d) = 62 /\ nthb (overwrite lbuf 0 d) 1 = 0.
Proof.
  intros [Hl H1] Hd H0 H2. rewrite overwrite0. unfold b_len, nthb in *.
  destruct d as [|x [|y d]]; [congruence| |].
  - cbn [length app nth] in *. subst x.
    assert (E : nth 0 (skipn 1 lbuf) 0 = nth 1 lbuf 0).
    { destruct lbuf as [|a [|b l]]; reflexivity. }
    rewrite E, H1. split; reflexivity.
  - cbn [length app nth] in *. subst x. rewrite H2 by lia. split; reflexivity.
Qed.

Lemma readlock_eof fx r lbuf : stream r = [] -> read_lock fx r lbuf = (Some EOF, lbuf, r).
Proof. intros H. unfold read_lock. rewrite rd_read_eof by (auto; lia). reflexivity. Qed.

Lemma readlock_full fx r lbuf rec s' :
  (64 <= r_size r)%nat -> stream r = rec ++ s' -> wf64 rec -> lbuf_ok lbuf ->
  exists r', read_lock fx r lbuf = (None, rec, r') /\ stream r' = s' /\ r_size r' = r_size r.
Proof.
  intros Hsz Hs (Hlen & Hb0 & Hb1) Hlb.
  assert (Hne : stream r <> []).
  { rewrite Hs. destruct rec; [discriminate|]. discriminate. }
  destruct (rd_read_some r 64 ltac:(lia) Hsz Hne) as (k & r1 & Hrd & Hk1 & Hk2 & Hk3 & Hst & Hsz1 & Hexh & _).
  unfold read_lock. rewrite Hrd. cbv beta iota zeta.
  assert (Hd : firstn k (stream r) = firstn k rec) by (rewrite Hs; apply firstn_app_le; lia).
  rewrite Hd. set (d := firstn k rec).
  assert (Hdl : length d = k) by (subst d; rewrite firstn_length; lia).
  assert (Hdne : d <> []) by (intro E; rewrite E in Hdl; simpl in Hdl; lia).
  assert (Hd0 : nthb d 0 = 62) by (unfold nthb, d; rewrite nth_firstn_lt by lia; exact Hb0).
  assert (Hd1 : (2 <= length d)%nat -> nthb d 1 = 0) by (intros; unfold nthb, d; rewrite nth_firstn_lt by lia; exact Hb1).
  destruct (b_len_overwrite lbuf d Hlb Hdne Hd0 Hd1) as [Hbl Hn1].
  rewrite Hbl. change (N.to_nat 62 + 2)%nat with 64%nat. rewrite Hdl.
  destruct (Nat.eq_dec k 64) as [->|Hk].
  - rewrite Nat.eqb_refl. exists r1. split; [|split]; auto.
    + f_equal. f_equal. rewrite overwrite0. subst d. rewrite firstn_all2 by lia.
      rewrite skipn_all2 by (destruct Hlb; lia). apply app_nil_r.
    + rewrite Hst, Hs. rewrite skipn_app. rewrite skipn_all2 by lia. rewrite Hlen, Nat.sub_diag. reflexivity.
  - assert (E : (k =? 64)%nat = false) by (apply Nat.eqb_neq; auto). rewrite E.
    assert (Hs1 : stream r1 = skipn k rec ++ s') by (rewrite Hst, Hs; apply skipn_app_le; lia).
    assert (Hne1 : stream r1 <> []).
    { rewrite Hs1. intro X. apply app_eq_nil in X as [X _]. apply (f_equal (@length N)) in X.
      rewrite skipn_length in X. simpl in X. lia. }
    destruct (rd_read_some r1 (64 - k) ltac:(lia) ltac:(lia) Hne1) as (k2 & r2 & Hrd2 & _ & _ & _ & Hst2 & Hsz2 & _ & Hmin).
    specialize (Hmin (Hexh ltac:(lia))).
    assert (Hk2e : k2 = (64 - k)%nat).
    { rewrite Hmin, Hs1, app_length, skipn_length. lia. }
    clear Hmin. subst k2. rewrite Hrd2. cbv beta iota zeta.
    assert (Hd2 : firstn (64 - k) (stream r1) = skipn k rec).
    { rewrite Hs1. rewrite firstn_app_le by (rewrite skipn_length; lia). apply firstn_all2. rewrite skipn_length. lia. }
    rewrite Hd2. rewrite skipn_length, Hlen.
    replace (k + (64 - k))%nat with 64%nat by lia. rewrite Nat.eqb_refl.
    exists r2. split; [|split]; [| |lia].
    + f_equal. f_equal. unfold overwrite at 1. rewrite skipn_length, Hlen.
      replace (k + (64 - k))%nat with 64%nat by lia.
      rewrite (skipn_all2 (n:=64)) by (rewrite overwrite0_length; destruct Hlb; lia).
      rewrite app_nil_r. rewrite overwrite0. rewrite firstn_app_le by lia. rewrite firstn_all2 by lia.
      subst d. apply firstn_skipn.
    + rewrite Hst2, Hs1. rewrite skipn_app. rewrite skipn_all2 by (rewrite skipn_length; lia).
      rewrite skipn_length, Hlen. replace (64 - k - (64 - k))%nat with 0%nat by lia. reflexivity.
Qed.

(* a torn tail (fewer than 64 bytes left) is end of log in the repaired variant *)
Lemma readlock_torn fx r lbuf :
  fx_rl_nerr fx = true -> fx_rl_short fx = true ->
  (64 <= r_size r)%nat -> stream r <> [] -> tail_ok (stream r) -> lbuf_ok lbuf ->
  exists lb r', read_lock fx r lbuf = (Some EOF, lb, r') /\ lbuf_ok lb.
Proof.
  intros F1 F2 Hsz Hne (Htl & Ht0 & Ht1) Hlb.
  destruct (rd_read_some r 64 ltac:(lia) Hsz Hne) as (k & r1 & Hrd & Hk1 & Hk2 & Hk3 & Hst & Hsz1 & Hexh & _).
  unfold read_lock. rewrite Hrd. cbv beta iota zeta.
  set (d := firstn k (stream r)).
  assert (Hdl : length d = k) by (subst d; rewrite firstn_length; lia).
  assert (Hdne : d <> []) by (intro E; rewrite E in Hdl; simpl in Hdl; lia).
  assert (Hd0 : nthb d 0 = 62) by (unfold nthb, d; rewrite nth_firstn_lt by lia; apply Ht0; auto).
  assert (Hd1 : (2 <= length d)%nat -> nthb d 1 = 0) by (intros; unfold nthb, d; rewrite nth_firstn_lt by lia; apply Ht1; lia).
  destruct (b_len_overwrite lbuf d Hlb Hdne Hd0 Hd1) as [Hbl Hn1].
  rewrite Hbl. change (N.to_nat 62 + 2)%nat with 64%nat. rewrite Hdl.
  assert (E : (k =? 64)%nat = false) by (apply Nat.eqb_neq; lia). rewrite E.
  assert (Hok1 : lbuf_ok (overwrite lbuf 0 d)).
  { split; auto. apply overwrite0_length; [apply Hlb|lia]. }
  assert (Hcase : stream r1 = [] \/ stream r1 <> []) by (destruct (stream r1); [left; reflexivity | right; discriminate]).
  destruct Hcase as [Hs1|Hne1].
  - rewrite rd_read_eof by (auto; lia). rewrite F1. eauto.
  - destruct (rd_read_some r1 (64 - k) ltac:(lia) ltac:(lia) Hne1) as (k2 & r2 & Hrd2 & Hk21 & Hk22 & Hk23 & _).
    rewrite Hrd2. cbv beta iota zeta. rewrite firstn_length. rewrite Nat.min_l by lia.
    assert (Hlen1 : (k + length (stream r1) = length (stream r))%nat).
    { rewrite Hst, skipn_length. lia. }
    assert (E2 : (k + k2 =? 64)%nat = false) by (apply Nat.eqb_neq; lia). rewrite E2.
    rewrite F2. assert (E3 : (k + k2 <? 64)%nat = true) by (apply Nat.ltb_lt; lia). rewrite E3. cbn [andb].
    do 2 eexists. split; [reflexivity|].
    set (d2 := firstn k2 (stream r1)).
    assert (Hd2l : length d2 = k2) by (subst d2; rewrite firstn_length; lia).
    destruct Hok1 as [Hl1 Hn]. set (lb1 := overwrite lbuf 0 d) in *. split.
    + unfold overwrite. rewrite !app_length, firstn_length, skipn_length, Hl1, Hd2l. lia.
    + unfold overwrite, nthb. destruct (Nat.le_gt_cases 2 k).
      * rewrite app_nth1 by (rewrite firstn_length; lia). rewrite nth_firstn_lt by lia. exact Hn.
      * assert (Hk1e : k = 1%nat) by lia.
        (* byte 1 comes from the second piece: it is byte 1 of the torn tail *)
        rewrite app_nth2 by (rewrite firstn_length; lia). rewrite firstn_length, Hl1.
        replace (1 - Nat.min k 64)%nat with 0%nat by lia.
        rewrite app_nth1 by lia. subst d2. rewrite nth_firstn_lt by lia. rewrite Hst.
        rewrite nth_skipn0. replace k with 1%nat by lia. apply Ht1. lia.
Qed.

(* ------------------------------------------------------------------ B. bufio elimination for the loader *)
Fixpoint list_loop (now : Z) (recs : list bytes) (dat : option bytes) : list item * status :=
  match recs with
  | [] => ([], SCont)
  | rec :: tl =>
    if has_data rec then
      match read_data dat with
      | inr EOF => ([], SStop)
      | inr e => ([], SFail e)
      | inl (v, dat') => let '(its, st) := list_loop now tl dat' in (keep now (rec, Some v) its, st)
      end
    else let '(its, st) := list_loop now tl dat in (keep now (rec, None) its, st)
  end.

Definition fixed_reader (fx : fixes) : Prop := fx_rl_nerr fx = true /\ fx_rl_short fx = true.

Lemma load_loop_stream fx now recs : forall fuel r dr lbuf tail,
  (length recs < fuel)%nat -> (64 <= r_size r)%nat ->
  stream r = concat recs ++ tail -> Forall wf64 recs -> tail_ok tail -> (tail = [] \/ fixed_reader fx) -> lbuf_ok lbuf ->
  exists lb, load_loop fx now fuel r dr lbuf
               = (fst (list_loop now recs (option_map stream dr)), snd (list_loop now recs (option_map stream dr)), lb)
             /\ lbuf_ok lb.
Proof.
  induction recs as [|rec recs IH]; intros fuel r dr lbuf tail Hf Hsz Hs Hwf Ht Hfx Hlb.
  - destruct fuel; [simpl in Hf; lia|]. cbn [load_loop list_loop fst snd]. simpl in Hs.
    destruct tail as [|t0 tail'].
    + rewrite readlock_eof by auto. eauto.
    + destruct Hfx as [X|[F1 F2]]; [discriminate|].
      assert (Hne : stream r <> []) by (rewrite Hs; discriminate).
      rewrite <- Hs in Ht.
      destruct (readlock_torn fx r lbuf F1 F2 Hsz Hne Ht Hlb) as (lb & r' & -> & Hok). eauto.
  - destruct fuel; [simpl in Hf; lia|]. inversion Hwf as [|? ? Hw Hwf']; subst.
    cbn [load_loop]. simpl in Hs. rewrite <- app_assoc in Hs.
    destruct (readlock_full fx r lbuf rec _ Hsz Hs Hw Hlb) as (r' & -> & Hs' & Hsz').
    cbn [list_loop].
    assert (Hlb' : lbuf_ok rec) by (apply wf64_lbuf_ok; auto).
    destruct (has_data rec).
    + destruct dr as [rr|].
      * cbn [option_map]. pose proof (read_data_b_stream rr) as Hrd.
        pose proof (read_data_no_fuel (Some (stream rr))) as Hnf.
        destruct (read_data (Some (stream rr))) as [[v os]|e].
        -- destruct Hrd as (rr' & -> & -> & _).
           destruct (IH fuel r' (Some rr') rec tail ltac:(simpl in Hf; lia) ltac:(lia) Hs' Hwf' Ht Hfx Hlb') as (lb & -> & Hok).
           cbn [option_map]. destruct (list_loop now recs (Some (stream rr'))) as [its st]. cbn [fst snd]. eauto.
        -- rewrite Hrd. destruct e; cbn [fst snd]; eauto. exfalso; apply Hnf; reflexivity.
      * cbn [option_map read_data read_data_b read_data_gen]. cbn [fst snd]. eauto.
    + destruct (IH fuel r' dr rec tail ltac:(simpl in Hf; lia) ltac:(lia) Hs' Hwf' Ht Hfx Hlb') as (lb & -> & Hok).
      destruct (list_loop now recs (option_map stream dr)) as [its st]. cbn [fst snd]. eauto.
Qed.

(* the loader depends on the reader of the value file only through its stream: buffer size and buffered part are
   invisible (for EVERY record file, well formed or not) *)
Lemma load_loop_dat_indep fx now : forall fuel r dr1 dr2 lbuf,
  option_map stream dr1 = option_map stream dr2 -> load_loop fx now fuel r dr1 lbuf = load_loop fx now fuel r dr2 lbuf.
Proof.
  induction fuel as [|fuel IH]; intros r dr1 dr2 lbuf Hs; [reflexivity|].
  cbn [load_loop]. destruct (read_lock fx r lbuf) as [[oe lb'] r']. destruct oe as [e|]; [reflexivity|].
  destruct (has_data lb').
  - destruct dr1 as [r1|], dr2 as [r2|]; try discriminate; [|reflexivity].
    cbn [option_map] in Hs. injection Hs as Hs.
    pose proof (read_data_b_stream r1) as H1. pose proof (read_data_b_stream r2) as H2. rewrite Hs in H1.
    destruct (read_data (Some (stream r2))) as [[v os]|e].
    + destruct H1 as (r1' & -> & E1 & _). destruct H2 as (r2' & -> & E2 & _).
      rewrite (IH r' (Some r1') (Some r2') lb'); [reflexivity|]. cbn [option_map]. rewrite <- E1, <- E2. reflexivity.
    + rewrite H1, H2. reflexivity.
  - rewrite (IH r' dr1 dr2 lb' Hs). reflexivity.
Qed.

Lemma dat_rd_stream bs d : stream (dat_rd bs d) = d.
Proof. reflexivity. Qed.

(* LoadAofFile with the value reader exactly as the code creates it (bufio.NewReaderSize(dataFile, bufSize*64)) *)
Definition load_file_code (fx : fixes) (bs : nat) (now : Z) (aof dat : option bytes) (lbuf : bytes)
  : list item * status * bytes :=
  match aof with
  | None => ([], SFail ENoFile, lbuf)
  | Some a =>
    match read_header fx (new_rd bs a) with
    | (Some EOF, _) => ([], SStop, lbuf)
    | (Some e, _) => ([], SFail e, lbuf)
    | (None, r) => load_loop fx now (S (length a)) r (option_map (dat_rd_code bs) dat) lbuf
    end
  end.

(* the cap on the buffer size of the value reader in the executable model cannot be observed *)
Theorem load_file_dat_rd fx bs now aof dat lbuf : load_file fx bs now aof dat lbuf = load_file_code fx bs now aof dat lbuf.
Proof.
  unfold load_file, load_file_code. destruct aof as [a|]; [|reflexivity].
  destruct (read_header fx (new_rd bs a)) as [[e|] r]; [reflexivity|].
  apply load_loop_dat_indep. destruct dat; reflexivity.
Qed.

(* ------------------------------------------------------------------ C. the abstract loader delivers a prefix *)
Definition witem := (bytes * bytes)%type.   (* (record as written, value bytes including the 4-byte length prefix) *)
Definition val_of (it : witem) : bytes := if has_data (fst it) then snd it else [].
Definition vals (its : list witem) : bytes := concat (map val_of its).
Definition recs_of (its : list witem) : list bytes := map fst its.
Definition deliver1 (it : witem) : item := (fst it, if has_data (fst it) then Some (snd it) else None).
Definition deliver (its : list witem) : list item := map deliver1 its.
Definition live (now : Z) (l : list item) : list item := filter (fun it => negb (expired_at now (fst it))) l.
Definition wf_val (d : bytes) : Prop := (4 <= length d)%nat /\ unle (firstn 4 d) = N.of_nat (length d - 4).
Definition wf_item (it : witem) : Prop := wf64 (fst it) /\ (has_data (fst it) = true -> wf_val (snd it)).

Lemma keep_live now it l : keep now it (live now l) = live now (it :: l).
Proof. unfold keep, live. cbn [filter]. destruct (expired_at now (fst it)); reflexivity. Qed.

Lemma app_split_ge {A} (a b c d : list A) : a ++ b = c ++ d -> (length a <= length c)%nat ->
  exists c', c = a ++ c' /\ b = c' ++ d.
Proof.
  revert c; induction a as [|x a IH]; intros c H Hl.
  - exists c. split; auto.
  - destruct c as [|y c]; [simpl in Hl; lia|]. simpl in H. injection H as -> H.
    destruct (IH c H ltac:(simpl in Hl; lia)) as (c' & -> & ->). exists c'. split; reflexivity.
Qed.

Lemma app_split_lt {A} (a b c d : list A) : a ++ b = c ++ d -> (length c < length a)%nat ->
  exists a', a = c ++ a' /\ a' <> [].
Proof.
  revert c; induction a as [|x a IH]; intros c H Hl.
  - simpl in Hl; lia.
  - destruct c as [|y c].
    + exists (x :: a). split; [reflexivity|discriminate].
    + simpl in H. injection H as -> H. destruct (IH c H ltac:(simpl in Hl; lia)) as (a' & -> & Hne).
      exists a'. split; auto.
Qed.

Lemma read_data_full v D' : wf_val v -> read_data (Some (v ++ D')) = inl (v, Some D').
Proof.
  intros [H4 Hl]. unfold read_data.
  assert (E1 : (length (v ++ D') <? 4)%nat = false) by (apply Nat.ltb_ge; rewrite app_length; lia). rewrite E1.
  rewrite firstn_app_le by lia. rewrite Hl.
  assert (E2 : N.of_nat (length (v ++ D') - 4) <? N.of_nat (length v - 4) = false).
  { apply N.ltb_ge. rewrite app_length. lia. }
  rewrite E2. rewrite Nnat.Nat2N.id. replace (4 + (length v - 4))%nat with (length v) by lia.
  rewrite firstn_app_le by lia. rewrite firstn_all. rewrite skipn_app, skipn_all, Nat.sub_diag. reflexivity.
Qed.

Lemma read_data_short v D r1 : wf_val v -> v = D ++ r1 -> r1 <> [] -> read_data (Some D) = inr EOF.
Proof.
  intros [H4 Hl] Hv Hne. unfold read_data.
  destruct (length D <? 4)%nat eqn:E1; auto. apply Nat.ltb_ge in E1.
  assert (Hf : firstn 4 D = firstn 4 v) by (rewrite Hv; symmetry; apply firstn_app_le; lia).
  rewrite Hf, Hl.
  assert (Hr : (1 <= length r1)%nat) by (destruct r1; [congruence|simpl; lia]).
  assert (E2 : N.of_nat (length D - 4) <? N.of_nat (length v - 4) = true).
  { apply N.ltb_lt. rewrite Hv, app_length. lia. }
  rewrite E2. reflexivity.
Qed.

(* a well-formed value at the head of the stream is delivered byte-exactly and the next value starts at the right
   place, wherever the buffer boundary falls (inside the length prefix, inside the payload, several refills) *)
Theorem value_straddles_buffer r v D' : wf_val v -> stream r = v ++ D' ->
  exists r', read_data_b (Some r) = inl (v, r') /\ stream r' = D' /\ r_size r' = r_size r.
Proof.
  intros Hv Hs. apply (proj1 (value_reader_is_stream_reader r)). rewrite Hs. apply read_data_full; auto.
Qed.

(* a value cut short (crash inside the value write) is end of log, whatever the reader state *)
Theorem value_truncated_is_eof r v rest : wf_val v -> v = stream r ++ rest -> rest <> [] -> read_data_b (Some r) = inr EOF.
Proof.
  intros Hv Hs Hne. apply (proj2 (value_reader_is_stream_reader r)). apply (read_data_short v (stream r) rest); auto.
Qed.

(* a concrete reader state for the non-vacuity examples: buffer size 16; two bytes of the length prefix of a 44-byte
   value are buffered, the other two and the payload are still in the file, followed by a second (5-byte) value:
   Read(dlbuf) returns 2 bytes, the first continuation loop refills (16 bytes) and takes 2, Read(aofLockData[4:])
   returns the 14 buffered bytes, the second continuation loop reads the missing 26 bytes directly from the file *)
Definition x_val : bytes := [40; 0; 0; 0] ++ map N.of_nat (seq 1 40).
Definition x_next : bytes := [1; 0; 0; 0; 9].
Definition x_rd : rd := mkrd [40; 0] (skipn 2 x_val ++ x_next) 16.
Definition x_rd_cut : rd := mkrd [40; 0] (firstn 30 (skipn 2 x_val)) 16.

Lemma x_val_wf : wf_val x_val.
Proof. split; [simpl; lia|reflexivity]. Qed.

Lemma list_loop_prefix now : forall its D rest,
  Forall wf_item its -> vals its = D ++ rest ->
  exists k st, list_loop now (recs_of its) (Some D) = (live now (deliver (firstn k its)), st)
    /\ (st = SCont \/ st = SStop) /\ (k <= length its)%nat /\ (rest = [] -> k = length its /\ st = SCont).
Proof.
  induction its as [|it tl IH]; intros D rest Hwf Hv.
  - exists 0%nat, SCont. simpl. auto.
  - inversion Hwf as [|? ? [Hw Hd] Hwf']; subst. cbn [recs_of map list_loop].
    unfold vals in Hv. cbn [map concat] in Hv. fold (vals tl) in Hv. unfold val_of in Hv at 1.
    destruct (has_data (fst it)) eqn:Ehd.
    + specialize (Hd eq_refl).
      destruct (Nat.le_gt_cases (length (snd it)) (length D)) as [Hle|Hgt].
      * destruct (app_split_ge _ _ _ _ Hv Hle) as (D' & -> & Hv').
        rewrite read_data_full by auto.
        destruct (IH D' rest Hwf' Hv') as (k & st & Hll & Hst & Hk & Hfull).
        fold (recs_of tl). rewrite Hll. exists (S k), st. cbn [firstn deliver map].
        fold (deliver (firstn k tl)). rewrite <- keep_live. unfold deliver1 at 1. rewrite Ehd.
        repeat split; auto; try (simpl; lia).
        -- destruct (Hfull H) as [-> _]. reflexivity.
        -- apply Hfull; auto.
      * destruct (app_split_lt _ _ _ _ Hv Hgt) as (r1 & Hv1 & Hne).
        rewrite (read_data_short _ _ _ Hd Hv1 Hne).
        exists 0%nat, SStop. cbn [firstn deliver map live filter]. repeat split; auto; try lia.
        all: exfalso; subst rest; rewrite app_nil_r in Hv; apply (f_equal (@length N)) in Hv; rewrite app_length in Hv; lia.
    + cbn [app] in Hv.
      destruct (IH D rest Hwf' Hv) as (k & st & Hll & Hst & Hk & Hfull).
      fold (recs_of tl). rewrite Hll. exists (S k), st. cbn [firstn deliver map].
      fold (deliver (firstn k tl)). rewrite <- keep_live. unfold deliver1 at 1. rewrite Ehd.
      repeat split; auto; try (simpl; lia).
      -- destruct (Hfull H) as [-> _]. reflexivity.
      -- apply Hfull; auto.
Qed.

(* ------------------------------------------------------------------ D. header *)
Lemma header_length : length header = 12%nat.
Proof. reflexivity. Qed.

Lemma new_rd_stream bs a : stream (new_rd bs a) = a.
Proof. reflexivity. Qed.

Lemma read_header_ok fx bs body :
  exists r, read_header fx (new_rd bs (header ++ body)) = (None, r) /\ stream r = body /\ r_size r = Nat.max bs 16.
Proof.
  assert (Hne : stream (new_rd bs (header ++ body)) <> []) by (rewrite new_rd_stream; discriminate).
  destruct (rd_read_some (new_rd bs (header ++ body)) 12 ltac:(lia) ltac:(cbn [new_rd r_size]; lia) Hne)
    as (k & r1 & Hrd & _ & _ & _ & Hst & Hsz & _ & Hmin).
  specialize (Hmin eq_refl). rewrite new_rd_stream in *.
  assert (Hk : k = 12%nat) by (rewrite Hmin, app_length, header_length; lia). clear Hmin. subst k.
  rewrite firstn_app_le in Hrd by (rewrite header_length; lia). rewrite firstn_all2 in Hrd by (rewrite header_length; lia).
  unfold read_header. rewrite Hrd. exists r1. split; [reflexivity|]. split; auto.
Qed.

Lemma read_header_empty fx bs : read_header fx (new_rd bs []) = (Some EOF, new_rd bs []).
Proof. unfold read_header. rewrite rd_read_eof by (auto; lia). reflexivity. Qed.

Lemma read_header_short fx bs j : (0 < j < 12)%nat ->
  exists r, read_header fx (new_rd bs (firstn j header)) = (Some (if fx_hdr fx then EOF else ENotAof), r).
Proof.
  intros Hj.
  assert (Hlen : length (firstn j header) = j) by (rewrite firstn_length, header_length; lia).
  assert (Hne : stream (new_rd bs (firstn j header)) <> []).
  { rewrite new_rd_stream. intro E. rewrite E in Hlen. simpl in Hlen. lia. }
  destruct (rd_read_some (new_rd bs (firstn j header)) 12 ltac:(lia) ltac:(cbn [new_rd r_size]; lia) Hne)
    as (k & r1 & Hrd & _ & _ & _ & _ & _ & _ & Hmin).
  specialize (Hmin eq_refl). rewrite new_rd_stream in *. rewrite Hlen in Hmin.
  assert (Hk : k = j) by lia. clear Hmin. subst k.
  unfold read_header. rewrite Hrd. rewrite firstn_length, Hlen. rewrite Nat.min_id.
  assert (E : (j =? 12)%nat = false) by (apply Nat.eqb_neq; lia). rewrite E. cbn [negb]. eauto.
Qed.

Lemma concat_recs_length (recs : list (list N)) : Forall wf64 recs -> length (concat recs) = (64 * length recs)%nat.
Proof.
  induction 1 as [|rec recs (Hl & _) _ IH]; auto. cbn [concat length]. rewrite app_length, IH, Hl. lia.
Qed.

Lemma Forall_firstn {A} (P : A -> Prop) l n : Forall P l -> Forall P (firstn n l).
Proof. revert n; induction l; intros n H; destruct n; simpl; auto. inversion H; subst. constructor; auto. Qed.

Lemma wf_items_recs its : Forall wf_item its -> Forall wf64 (recs_of its).
Proof. induction 1 as [|it its [H _] _ IH]; simpl; constructor; auto. Qed.

(* ------------------------------------------------------------------ E. the loader on a crash image *)
(* shape of every crash image of one append file written from scratch: either the header write itself was cut, or the
   header is whole, followed by n whole records and a torn piece of the next one, and the value file holds a prefix of
   the values of those n records (records are always written before their values) *)
Inductive crash_shape (its : list witem) : bytes -> bytes -> Prop :=
| CS_header j : (j < 12)%nat -> crash_shape its (firstn j header) []
| CS_body n tail D rest : (n <= length its)%nat -> tail_ok tail -> vals (firstn n its) = D ++ rest ->
    crash_shape its (header ++ concat (recs_of (firstn n its)) ++ tail) D.

Definition good_status (st : status) : Prop := st = SCont \/ st = SStop.

Lemma load_body fx bs now its n tail D rest lbuf :
  (tail = [] \/ fixed_reader fx) -> (64 <= bs)%nat -> Forall wf_item its ->
  (n <= length its)%nat -> tail_ok tail -> vals (firstn n its) = D ++ rest -> lbuf_ok lbuf ->
  exists k st lb,
    load_file fx bs now (Some (header ++ concat (recs_of (firstn n its)) ++ tail)) (Some D) lbuf
      = (live now (deliver (firstn k its)), st, lb)
    /\ good_status st /\ (k <= n)%nat /\ lbuf_ok lb /\ (rest = [] -> k = n /\ st = SCont).
Proof.
  intros Hfx Hbs Hwf Hn Ht Hv Hlb.
  unfold load_file.
  destruct (read_header_ok fx bs (concat (recs_of (firstn n its)) ++ tail)) as (r & -> & Hs & Hsz).
  assert (Hwfn : Forall wf_item (firstn n its)) by (apply Forall_firstn; auto).
  assert (Hw64 : Forall wf64 (recs_of (firstn n its))) by (apply wf_items_recs; auto).
  cbn [option_map].
  destruct (load_loop_stream fx now (recs_of (firstn n its))
              (S (length (header ++ concat (recs_of (firstn n its)) ++ tail))) r (Some (dat_rd bs D)) lbuf tail) as (lb & -> & Hok); auto.
  - rewrite !app_length, concat_recs_length by auto. unfold bytes. lia.
  - lia.
  - cbn [option_map]. rewrite dat_rd_stream. unfold bytes in *.
    destruct (list_loop_prefix now (firstn n its) D rest Hwfn Hv) as (k & st & -> & Hst & Hk & Hfull).
    cbn [fst snd]. rewrite firstn_firstn. rewrite firstn_length in Hk.
    exists (Nat.min k n), st, lb. split; [reflexivity|]. split; [exact Hst|]. split; [lia|]. split; [exact Hok|].
    intros Hr. destruct (Hfull Hr) as [-> ->]. rewrite firstn_length. split; [lia|reflexivity].
Qed.

Theorem load_crash_shape fx bs now its A D lbuf :
  fixed_reader fx -> fx_hdr fx = true -> (64 <= bs)%nat -> Forall wf_item its -> crash_shape its A D -> lbuf_ok lbuf ->
  exists k st lb, load_file fx bs now (Some A) (Some D) lbuf = (live now (deliver (firstn k its)), st, lb)
    /\ good_status st /\ (k <= length its)%nat.
Proof.
  intros Hfx Hh Hbs Hwf Hcs Hlb. destruct Hcs as [j Hj | n tail D rest Hn Ht Hv].
  - exists 0%nat. cbn [firstn deliver map live filter]. unfold load_file.
    destruct j.
    + cbn [firstn]. rewrite read_header_empty. exists SStop, lbuf. split; [reflexivity|]. split; [right; auto|lia].
    + destruct (read_header_short fx bs (S j) ltac:(lia)) as (r & ->). rewrite Hh.
      exists SStop, lbuf. split; [reflexivity|]. split; [right; auto|lia].
  - destruct (load_body fx bs now its n tail D rest lbuf (or_intror Hfx) Hbs Hwf Hn Ht Hv Hlb)
      as (k & st & lb & Heq & Hst & Hk & _). exists k, st, lb. split; [exact Heq|]. split; [exact Hst|lia].
Qed.

(* ------------------------------------------------------------------ G. directory level: one append file and its value file *)
Definition single_dir (A D : bytes) : dir := [(FAppend 1, A); (FAppendDat 1, D)].

Lemma recover_single fx bs A D now :
  recover fx bs (single_dir A D) now =
  match load_file fx bs now (Some A) (Some D) zero_buf with
  | (its, SCont, _) => ROk its
  | (its, SStop, _) => ROk its
  | (its, SFail e, _) => RStartFails e its
  | (_, SFuel, _) => RUnsupported
  end.
Proof.
  unfold recover, single_dir. cbn -[load_file zero_buf].
  destruct (load_file fx bs now (Some A) (Some D) zero_buf) as [[its st] lb].
  destruct st; cbn; try rewrite app_nil_r; reflexivity.
Qed.

(* C08, first restart, repaired variant: every crash image recovers an (expiry-filtered) prefix of the records written *)
Theorem first_restart_repaired fx bs now its A D :
  fixed_reader fx -> fx_hdr fx = true -> (64 <= bs)%nat -> Forall wf_item its -> crash_shape its A D ->
  exists k, (k <= length its)%nat /\ recover fx bs (single_dir A D) now = ROk (live now (deliver (firstn k its))).
Proof.
  intros Hfx Hh Hbs Hwf Hcs.
  destruct (load_crash_shape fx bs now its A D zero_buf Hfx Hh Hbs Hwf Hcs zero_buf_ok) as (k & st & lb & Heq & Hst & Hk).
  exists k. split; auto. rewrite recover_single, Heq. destruct Hst as [-> | ->]; reflexivity.
Qed.

(* today's variant (and any other): cuts at record boundaries, header whole *)
Theorem first_restart_record_boundary fx bs now its n D rest :
  (64 <= bs)%nat -> Forall wf_item its -> (n <= length its)%nat -> vals (firstn n its) = D ++ rest ->
  exists k, (k <= n)%nat /\
    recover fx bs (single_dir (header ++ concat (recs_of (firstn n its))) D) now = ROk (live now (deliver (firstn k its)))
    /\ (rest = [] -> k = n).
Proof.
  intros Hbs Hwf Hn Hv.
  assert (Ht : tail_ok []) by (split; [simpl; lia|split; [congruence|simpl; lia]]).
  destruct (load_body fx bs now its n [] D rest zero_buf (or_introl eq_refl) Hbs Hwf Hn Ht Hv zero_buf_ok)
    as (k & st & lb & Heq & Hst & Hk & _ & Hfull).
  rewrite app_nil_r in Heq.
  exists k. split; auto. split.
  - rewrite recover_single. unfold bytes in *. rewrite Heq. destruct Hst as [-> | ->]; reflexivity.
  - intros Hr. apply Hfull; auto.
Qed.

(* ------------------------------------------------------------------ I. refutations for the source as it is today *)
Definition w_rec (i : N) (aofflag : N) : bytes :=
  encode (mkrec 1 i 1 1000 0 0 (repeat (0xD0 + i) 16) (repeat (0xC0 + i) 16) 0 aofflag 0xffff 0x4100 i 0).
Definition w_val (p : N) : bytes := [3; 0; 0; 0; 0; 0; p].
Definition w_its : list witem := [(w_rec 1 0, []); (w_rec 2 0, []); (w_rec 3 0, [])].
Definition w_now : Z := 2000.

Lemma w_its_wf : Forall wf_item w_its.
Proof.
  unfold w_its. repeat (apply Forall_cons; [split; [split; [|split]; reflexivity | intros H; vm_compute in H; discriminate]|]).
  apply Forall_nil.
Qed.

Lemma tail_ok_firstn rec j : wf64 rec -> (j < 64)%nat -> tail_ok (firstn j rec).
Proof.
  intros (Hl & H0 & H1) Hj. assert (Hlen : length (firstn j rec) = j) by (rewrite firstn_length; lia).
  split; [lia|]. split.
  - intros Hne. unfold nthb. destruct j; [simpl in Hne; congruence|]. rewrite nth_firstn_lt by lia. exact H0.
  - intros H2. unfold nthb. rewrite nth_firstn_lt by lia. exact H1.
Qed.

Lemma w_rec_wf64 i f : wf64 (w_rec i f).
Proof. split; [|split]; reflexivity. Qed.

(* (1) a record cut after 55 bytes is delivered, padded with the last 9 bytes of the previous record *)
Definition w_torn_aof : bytes := header ++ concat (recs_of (firstn 2 w_its)) ++ firstn 55 (w_rec 3 0).

Theorem refuted_torn_tail :
  Forall wf_item w_its /\ crash_shape w_its w_torn_aof [] /\
  (exists ghost, recover today 4096 (single_dir w_torn_aof []) w_now = ROk (deliver (firstn 2 w_its) ++ [ghost])) /\
  forall k, recover today 4096 (single_dir w_torn_aof []) w_now <> ROk (live w_now (deliver (firstn k w_its))).
Proof.
  split; [exact w_its_wf|]. split.
  - apply (CS_body w_its 2 (firstn 55 (w_rec 3 0)) [] []); [simpl; lia| |reflexivity].
    apply tail_ok_firstn; [apply w_rec_wf64|lia].
  - split.
    + eexists. vm_compute. reflexivity.
    + intros k. destruct k as [|[|[|[|k]]]]; vm_compute; discriminate.
Qed.

(* (2) the same torn record, read through a 64-byte buffer: its bytes straddle a refill, the second read is short but
       not empty, ReadLock answers "Lock Len error" and the start fails *)
Definition w_straddle_aof : bytes := header ++ concat (recs_of (firstn 1 w_its)) ++ firstn 60 (w_rec 2 0).

Theorem refuted_straddle_start_fails :
  crash_shape w_its w_straddle_aof [] /\
  recover today 64 (single_dir w_straddle_aof []) w_now = RStartFails ELockLen (deliver (firstn 1 w_its)).
Proof.
  split.
  - apply (CS_body w_its 1 (firstn 60 (w_rec 2 0)) [] []); [simpl; lia| |reflexivity].
    apply tail_ok_firstn; [apply w_rec_wf64|lia].
  - vm_compute. reflexivity.
Qed.

(* (3) a crash inside the 12-byte header write: the next start fails *)
Theorem refuted_torn_header_start_fails :
  crash_shape w_its (firstn 5 header) [] /\
  recover today 4096 (single_dir (firstn 5 header) []) w_now = RStartFails ENotAof [].
Proof. split; [apply CS_header; lia|vm_compute; reflexivity]. Qed.

(* (4) appends after a torn tail are mis-aligned: the second restart fails *)
Definition after_append (fx : fixes) (bs : nat) (A D : bytes) (ops : list op) : dir :=
  let '(a0, d0) := open_append fx (Some A) (Some D) in
  let '(a, d) := apply_trace (run_ops bs (mkwst [] []) ops) a0 d0 in single_dir a d.

Definition w_torn20_aof : bytes := header ++ concat (recs_of (firstn 1 w_its)) ++ firstn 20 (w_rec 2 0).

Theorem refuted_misaligned_append :
  crash_shape w_its w_torn20_aof [] /\
  recover today 4096 (after_append today 4096 w_torn20_aof [] [OItem (w_rec 4 0) []; OItem (w_rec 5 0) []]) w_now
    = RStartFails ELockLen (deliver (firstn 1 w_its)).
Proof.
  split.
  - apply (CS_body w_its 1 (firstn 20 (w_rec 2 0)) [] []); [simpl; lia| |reflexivity].
    apply tail_ok_firstn; [apply w_rec_wf64|lia].
  - vm_compute. reflexivity.
Qed.

(* (5) records first, values second: a crash between the two writes of Flush leaves a record without its value; the
       first restart stops there (clean prefix), but after further appends the second restart gives that record the
       value of a LATER record.  No switch repairs this: stated for the fully repaired variant. *)
Definition v_its : list witem := [(w_rec 1 0x2000, w_val 7)].

Theorem refuted_value_stolen :
  Forall wf_item v_its /\ crash_shape v_its (header ++ w_rec 1 0x2000) [] /\
  recover repaired 4096 (single_dir (header ++ w_rec 1 0x2000) []) w_now = ROk [] /\
  recover repaired 4096 (after_append repaired 4096 (header ++ w_rec 1 0x2000) [] [OItem (w_rec 2 0x2000) (w_val 9)]) w_now
    = ROk [(w_rec 1 0x2000, Some (w_val 9))].
Proof.
  split; [|split; [|split]].
  - unfold v_its. apply Forall_cons; [|apply Forall_nil]. split; [split; [|split]; reflexivity|]. intros _. split; [simpl; lia|reflexivity].
  - apply (CS_body v_its 1 [] [] (w_val 7)); [simpl; lia| |reflexivity].
    split; [simpl; lia|split; [congruence|simpl; lia]].
  - vm_compute. reflexivity.
  - vm_compute. reflexivity.
Qed.

(* ------------------------------------------------------------------ H. second restart (repaired variant) *)
Lemma recs_of_app a b : recs_of (a ++ b) = recs_of a ++ recs_of b.
Proof. apply map_app. Qed.

Lemma vals_app a b : vals (a ++ b) = vals a ++ vals b.
Proof. unfold vals. rewrite map_app, concat_app. reflexivity. Qed.

Lemma Forall_app_intro {A} (P : A -> Prop) a b : Forall P a -> Forall P b -> Forall P (a ++ b).
Proof. intros Ha Hb. apply Forall_app. split; auto. Qed.

(* a complete, aligned image loads completely *)
Lemma recover_complete fx bs now its :
  (64 <= bs)%nat -> Forall wf_item its ->
  recover fx bs (single_dir (header ++ concat (recs_of its)) (vals its)) now = ROk (live now (deliver its)).
Proof.
  intros Hbs Hwf.
  destruct (first_restart_record_boundary fx bs now its (length its) (vals its) [] Hbs Hwf (le_n _)) as (k & _ & Heq & Hk).
  - rewrite firstn_all, app_nil_r. reflexivity.
  - specialize (Hk eq_refl). subst k. rewrite !firstn_all in Heq. exact Heq.
Qed.

Lemma open_append_torn fx (recs : list (list N)) tail D :
  fx_trunc fx = true -> Forall wf64 recs -> (length tail < 64)%nat ->
  open_append fx (Some (header ++ concat recs ++ tail)) (Some D) = (header ++ concat recs, D).
Proof.
  intros Hfx Hwf Ht. unfold open_append.
  set (a0 := header ++ concat recs ++ tail).
  assert (Hsz : length a0 = (12 + 64 * length recs + length tail)%nat).
  { subst a0. rewrite !app_length, concat_recs_length, header_length by auto. lia. }
  rewrite Hsz.
  assert (E0 : (12 + 64 * length recs + length tail =? 0)%nat = false) by (apply Nat.eqb_neq; lia).
  assert (E1 : (12 + 64 * length recs + length tail <? 12)%nat = false) by (apply Nat.ltb_ge; lia).
  rewrite E0, E1. rewrite Hfx. cbn [andb].
  assert (Hmod : ((12 + 64 * length recs + length tail - 12) mod 64 = length tail)%nat).
  { replace (12 + 64 * length recs + length tail - 12)%nat with (length tail + length recs * 64)%nat by lia.
    rewrite Nat.mod_add by lia. apply Nat.mod_small. lia. }
  rewrite Hmod.
  destruct tail as [|t0 tail'].
  - cbn [length Nat.eqb negb]. subst a0. rewrite app_nil_r. reflexivity.
  - cbn [length Nat.eqb negb]. f_equal. subst a0.
    replace (12 + 64 * length recs + S (length tail') - S (length tail'))%nat with (length (header ++ concat recs))
      by (rewrite app_length, concat_recs_length, header_length by auto; lia).
    rewrite app_assoc. rewrite firstn_app_le by lia. apply firstn_all.
Qed.

Lemma open_append_short_header fx j : (j < 12)%nat -> open_append fx (Some (firstn j header)) (Some []) = (header, []).
Proof.
  intros Hj. unfold open_append. rewrite firstn_length, header_length. rewrite Nat.min_l by lia.
  destruct j; [reflexivity|].
  assert (E1 : (S j <? 12)%nat = true) by (apply Nat.ltb_lt; lia). cbn [Nat.eqb]. rewrite E1. reflexivity.
Qed.

(* value-clean crash images: the value file holds exactly the values of the whole records (no value write was lost) *)
Inductive clean_crash (its : list witem) : nat -> bytes -> bytes -> Prop :=
| CC_header j : (j < 12)%nat -> clean_crash its 0 (firstn j header) []
| CC_body n tail : (n <= length its)%nat -> tail_ok tail ->
    clean_crash its n (header ++ concat (recs_of (firstn n its)) ++ tail) (vals (firstn n its)).

Lemma clean_is_shape its n A D : clean_crash its n A D -> crash_shape its A D.
Proof.
  destruct 1 as [j Hj | n tail Hn Ht]; [apply CS_header; auto|].
  apply (CS_body its n tail _ []); auto. rewrite app_nil_r. reflexivity.
Qed.

(* C08, two restarts, repaired variant: what the first restart recovered plus everything appended afterwards *)
Theorem second_restart_repaired fx bs now its1 its2 n A D :
  fixed_reader fx -> fx_hdr fx = true -> fx_trunc fx = true -> (64 <= bs)%nat ->
  Forall wf_item its1 -> Forall wf_item its2 -> clean_crash its1 n A D ->
  recover fx bs (single_dir A D) now = ROk (live now (deliver (firstn n its1))) /\
  let '(a0, d0) := open_append fx (Some A) (Some D) in
  recover fx bs (single_dir (a0 ++ concat (recs_of its2)) (d0 ++ vals its2)) now
    = ROk (live now (deliver (firstn n its1 ++ its2))).
Proof.
  intros Hfx Hh Htr Hbs Hwf1 Hwf2 Hc. destruct Hc as [j Hj | n tail Hn Ht].
  - split.
    + destruct (load_crash_shape fx bs now its1 (firstn j header) [] zero_buf Hfx Hh Hbs Hwf1 (CS_header its1 j Hj) zero_buf_ok)
        as (k & st & lb & Heq & Hst & Hk).
      (* the header case of load_crash_shape delivers nothing *)
      rewrite recover_single. unfold load_file.
      destruct j.
      * cbn [firstn]. rewrite read_header_empty. reflexivity.
      * destruct (read_header_short fx bs (S j) ltac:(lia)) as (r & ->). rewrite Hh. reflexivity.
    + rewrite open_append_short_header by auto. cbn [firstn app].
      apply (recover_complete fx bs now its2 Hbs Hwf2).
  - assert (Hwfn : Forall wf_item (firstn n its1)) by (apply Forall_firstn; auto).
    split.
    + assert (Hv : vals (firstn n its1) = vals (firstn n its1) ++ []) by (rewrite app_nil_r; reflexivity).
      destruct (load_body fx bs now its1 n tail (vals (firstn n its1)) [] zero_buf (or_intror Hfx) Hbs Hwf1 Hn Ht Hv zero_buf_ok)
        as (k & st & lb & Heq & Hst & Hk & _ & Hfull).
      destruct (Hfull eq_refl) as [-> ->]. rewrite recover_single. unfold bytes in *. rewrite Heq. reflexivity.
    + rewrite open_append_torn; auto; [|apply wf_items_recs; auto|apply Ht].
      rewrite <- app_assoc, <- concat_app, <- recs_of_app, <- vals_app.
      apply recover_complete; auto. apply Forall_app_intro; auto.
Qed.

(* ------------------------------------------------------------------ F. every crash image of the write model has the crash shape *)
Definition item_of_op (o : op) : list witem := match o with OItem rec data => [(norm rec, data)] | OFlush => [] end.
Definition items_of (ops : list op) : list witem := flat_map item_of_op ops.
Definition wf_op (o : op) : Prop :=
  match o with
  | OItem rec data => length rec = 64%nat /\ (has_data (norm rec) = true -> wf_val data)
  | OFlush => True
  end.

Lemma norm_wf64 rec : length rec = 64%nat -> wf64 (norm rec).
Proof. intros H. unfold norm. split; [|split; reflexivity]. cbn [length]. rewrite skipn_length. lia. Qed.

Lemma wf_op_item rec data : wf_op (OItem rec data) -> wf_item (norm rec, data).
Proof. intros [H1 H2]. split; [apply norm_wf64; auto|exact H2]. Qed.

Lemma tail_ok_nil : tail_ok [].
Proof. split; [simpl; lia|split; [congruence|simpl; lia]]. Qed.

Lemma firstn_concat_recs (recs : list (list N)) : forall j, Forall wf64 recs ->
  exists m tail, firstn j (concat recs) = concat (firstn m recs) ++ tail /\ (m <= length recs)%nat /\ tail_ok tail.
Proof.
  induction recs as [|rec tl IH]; intros j Hwf.
  - exists 0%nat, []. rewrite firstn_nil. split; [reflexivity|]. split; [simpl; lia|apply tail_ok_nil].
  - inversion Hwf as [|? ? Hw Hwf']; subst. cbn [concat].
    destruct (Nat.lt_ge_cases j 64) as [Hj|Hj].
    + exists 0%nat, (firstn j rec). cbn [firstn concat app]. split; [|split; [simpl; lia|apply tail_ok_firstn; auto]].
      apply firstn_app_le. destruct Hw as [Hl _]. lia.
    + destruct (IH (j - 64)%nat Hwf') as (m & tail & Heq & Hm & Ht).
      exists (S m), tail. cbn [firstn concat length]. split; [|split; [lia|auto]].
      destruct Hw as [Hl _]. rewrite firstn_app, Hl, Heq. rewrite firstn_all2 by lia. rewrite app_assoc. reflexivity.
Qed.

Definition R (its : list witem) : bytes := concat (recs_of its).

Lemma R_app a b : R (a ++ b) = R a ++ R b.
Proof. unfold R. rewrite recs_of_app, concat_app. reflexivity. Qed.

Lemma shape_aof done1 fl pend j :
  done1 = fl ++ pend -> Forall wf_item done1 ->
  crash_shape done1 ((header ++ R fl) ++ firstn j (R pend)) (vals fl).
Proof.
  intros -> Hwf. apply Forall_app in Hwf as [Hwf1 Hwf2].
  destruct (firstn_concat_recs (recs_of pend) j (wf_items_recs _ Hwf2)) as (m & tail & Heq & Hm & Ht).
  unfold recs_of in Hm. rewrite map_length in Hm.
  assert (Hf : firstn (length fl + m) (fl ++ pend) = fl ++ firstn m pend) by apply firstn_app_2.
  assert (HA : (header ++ R fl) ++ firstn j (R pend)
               = header ++ concat (recs_of (firstn (length fl + m) (fl ++ pend))) ++ tail).
  { rewrite Hf. unfold R. rewrite Heq. rewrite recs_of_app, concat_app. unfold recs_of. rewrite firstn_map.
    rewrite <- !app_assoc. reflexivity. }
  rewrite HA. apply (CS_body _ (length fl + m) tail (vals fl) (vals (firstn m pend))); auto.
  - rewrite app_length. unfold witem, bytes in *. lia.
  - rewrite Hf. apply vals_app.
Qed.

Lemma shape_dat done1 D1 rest :
  vals done1 = D1 ++ rest -> crash_shape done1 (header ++ R done1) D1.
Proof.
  intros Hv. replace (header ++ R done1) with (header ++ concat (recs_of (firstn (length done1) done1)) ++ []).
  - apply (CS_body _ (length done1) [] D1 rest); auto using tail_ok_nil. rewrite firstn_all. exact Hv.
  - rewrite firstn_all, app_nil_r. reflexivity.
Qed.

Definition Inv (s : wst) (A D : bytes) (done : list witem) : Prop :=
  exists fl pend, done = fl ++ pend /\ A = header ++ R fl /\ D = vals fl /\ w_buf s = R pend /\ w_dbuf s = vals pend.

Lemma nonempty_false b : nonempty b = false -> b = [].
Proof. destruct b; [reflexivity|discriminate]. Qed.

Lemma crash_image_nil k j A D : crash_image [] k j A D = (A, D).
Proof. unfold crash_image. rewrite firstn_nil. destruct k; reflexivity. Qed.

(* the images while the pending records [a = R pend] and then value pieces [ds] are written *)
Lemma shape_dat_trace done1 j : forall (ds0 : list bytes) k D0 rest0,
  vals done1 = D0 ++ concat ds0 ++ rest0 ->
  let '(A', D') := crash_image (map WDat ds0) k j (header ++ R done1) D0 in crash_shape done1 A' D'.
Proof.
  induction ds0 as [|d0 ds0 IH]; intros k D0 rest0 Hv.
  - cbn [map]. rewrite crash_image_nil. apply (shape_dat _ _ (concat [] ++ rest0)); exact Hv.
  - destruct k as [|k].
    + unfold crash_image. cbn [map firstn apply_trace nth_error].
      apply (shape_dat _ _ (skipn j d0 ++ concat ds0 ++ rest0)).
      rewrite Hv. cbn [concat]. rewrite <- (firstn_skipn j d0) at 1. rewrite <- !app_assoc. reflexivity.
    + change (crash_image (map WDat (d0 :: ds0)) (S k) j (header ++ R done1) D0)
        with (crash_image (map WDat ds0) k j (header ++ R done1) (D0 ++ d0)).
      apply (IH k (D0 ++ d0) rest0). rewrite Hv. cbn [concat]. rewrite <- !app_assoc. reflexivity.
Qed.

(* the images while the pending records [R pend] and then the value pieces [ds] are written *)
Lemma shape_flush_trace done1 fl pend (ds : list bytes) k j :
  done1 = fl ++ pend -> Forall wf_item done1 ->
  (exists rest, vals done1 = vals fl ++ concat ds ++ rest) ->
  let '(A', D') := crash_image (WAof (R pend) :: map WDat ds) k j (header ++ R fl) (vals fl) in crash_shape done1 A' D'.
Proof.
  intros Hd Hwf [rest Hv].
  destruct k as [|k].
  - unfold crash_image. cbn [firstn apply_trace nth_error]. apply shape_aof; auto.
  - change (crash_image (WAof (R pend) :: map WDat ds) (S k) j (header ++ R fl) (vals fl))
      with (crash_image (map WDat ds) k j ((header ++ R fl) ++ R pend) (vals fl)).
    assert (HR : (header ++ R fl) ++ R pend = header ++ R done1) by (rewrite Hd, R_app, app_assoc; reflexivity).
    rewrite HR. apply (shape_dat_trace done1 j ds k (vals fl) rest Hv).
Qed.

Lemma apply_trace_dats ds : forall A D, apply_trace (map WDat ds) A D = (A, D ++ concat ds).
Proof.
  induction ds as [|d ds IH]; intros A D; cbn [map apply_trace concat].
  - rewrite app_nil_r. reflexivity.
  - rewrite IH, <- app_assoc. reflexivity.
Qed.

Lemma crash_image_cons_S w t k j A D :
  crash_image (w :: t) (S k) j A D =
  match w with WAof b => crash_image t k j (A ++ b) D | WDat b => crash_image t k j A (D ++ b) end.
Proof. destruct w; reflexivity. Qed.

Lemma crash_image_app t : forall t' k j A D,
  crash_image (t ++ t') k j A D =
  if (k <? length t)%nat then crash_image t k j A D
  else let '(A1, D1) := apply_trace t A D in crash_image t' (k - length t) j A1 D1.
Proof.
  induction t as [|w t IH]; intros t' k j A D.
  - cbn [app length apply_trace]. rewrite Nat.sub_0_r. reflexivity.
  - destruct k as [|k].
    + destruct w; reflexivity.
    + cbn [app]. rewrite !crash_image_cons_S. cbn [length apply_trace].
      change (S k <? S (length t))%nat with (k <? length t)%nat. cbn [Nat.sub].
      destruct w; apply IH.
Qed.

Lemma shape_mono done more A D : crash_shape done A D -> crash_shape (done ++ more) A D.
Proof.
  destruct 1 as [j Hj | n tail D rest Hn Ht Hv]; [apply CS_header; auto|].
  assert (Hf : firstn n (done ++ more) = firstn n done) by (apply firstn_app_le; auto).
  rewrite <- Hf. apply (CS_body _ n tail D rest); auto.
  - rewrite app_length. lia.
  - rewrite Hf. exact Hv.
Qed.

Lemma shape_inv done1 fl pend : done1 = fl ++ pend -> Forall wf_item done1 -> crash_shape done1 (header ++ R fl) (vals fl).
Proof.
  intros Hd Hwf. pose proof (shape_aof done1 fl pend 0 Hd Hwf) as H. cbn [firstn] in H. rewrite app_nil_r in H. exact H.
Qed.

Definition dsv (b : bytes) : list bytes := if nonempty b then [b] else [].

Lemma concat_dsv b : concat (dsv b) = b.
Proof. unfold dsv. destruct b; cbn; [reflexivity|]. rewrite app_nil_r. reflexivity. Qed.

Lemma flush_trace_form a b : nonempty a = true ->
  (if nonempty a then [WAof a] else []) ++ (if nonempty b then [WDat b] else []) = WAof a :: map WDat (dsv b).
Proof. intros ->. unfold dsv. destruct (nonempty b); reflexivity. Qed.

Lemma flush_trace_form_data a b data : nonempty a = true ->
  ((if nonempty a then [WAof a] else []) ++ (if nonempty b then [WDat b] else [])) ++ [WDat data]
    = WAof a :: map WDat (dsv b ++ [data]).
Proof. intros ->. unfold dsv. destruct (nonempty b); reflexivity. Qed.

Lemma dat_trace_form b : (if nonempty b then [WDat b] else []) = map WDat (dsv b).
Proof. unfold dsv. destruct (nonempty b); reflexivity. Qed.

Lemma nonempty_app_norm x rec : nonempty (x ++ norm rec) = true.
Proof. destruct x; reflexivity. Qed.

Lemma R_snoc pend rec data : R (pend ++ [(norm rec, data)]) = R pend ++ norm rec.
Proof. rewrite R_app. unfold R at 2. cbn. rewrite app_nil_r. reflexivity. Qed.

Lemma vals_snoc pend it : vals (pend ++ [it]) = vals pend ++ val_of it.
Proof. rewrite vals_app. unfold vals at 2. cbn. rewrite app_nil_r. reflexivity. Qed.

(* result of writing out everything pending: the images in between are shapes, and afterwards nothing is pending *)
Lemma full_flush_ok done1 fl pend (ds : list bytes) :
  done1 = fl ++ pend -> Forall wf_item done1 -> vals done1 = vals fl ++ concat ds ->
  (forall k j, let '(A', D') := crash_image (WAof (R pend) :: map WDat ds) k j (header ++ R fl) (vals fl) in crash_shape done1 A' D')
  /\ exists A2 D2, apply_trace (WAof (R pend) :: map WDat ds) (header ++ R fl) (vals fl) = (A2, D2)
                   /\ Inv (mkwst [] []) A2 D2 done1.
Proof.
  intros Hd Hwf Hv. split.
  - intros k j. apply shape_flush_trace; auto. exists []. rewrite app_nil_r. exact Hv.
  - cbn [apply_trace]. rewrite apply_trace_dats. do 2 eexists. split; [reflexivity|].
    exists done1, []. rewrite app_nil_r. repeat split.
    + rewrite Hd, R_app, app_assoc. reflexivity.
    + symmetry. exact Hv.
Qed.

Lemma flush_ok s A D done :
  Inv s A D done -> Forall wf_item done ->
  (forall k j, let '(A', D') := crash_image (fst (flush s)) k j A D in crash_shape done A' D')
  /\ exists A2 D2, apply_trace (fst (flush s)) A D = (A2, D2) /\ Inv (snd (flush s)) A2 D2 done.
Proof.
  intros (fl & pend & Hd & -> & -> & Hb & Hdb) Hwf. unfold flush. rewrite Hb, Hdb. cbn [fst snd].
  assert (Hc : nonempty (R pend) = true \/ nonempty (R pend) = false) by (destruct (nonempty (R pend)); auto).
  destruct Hc as [Ea|Ea].
  - rewrite flush_trace_form by exact Ea.
    apply full_flush_ok; auto. rewrite Hd, vals_app, concat_dsv. reflexivity.
  - rewrite Ea. apply nonempty_false in Ea. cbn [app].
    assert (HR : header ++ R fl = header ++ R done) by (rewrite Hd, R_app, Ea, app_nil_r; reflexivity).
    assert (Hvd : vals done = vals fl ++ vals pend) by (rewrite Hd; apply vals_app).
    rewrite dat_trace_form.
    split.
    + intros k j. rewrite HR. apply (shape_dat_trace done j (dsv (vals pend)) k (vals fl) []).
      rewrite concat_dsv, app_nil_r. exact Hvd.
    + rewrite apply_trace_dats, concat_dsv. do 2 eexists. split; [reflexivity|].
      exists done, []. rewrite app_nil_r. repeat split; auto.
Qed.

Lemma write_item_ok bs s A D done rec data :
  Inv s A D done -> Forall wf_item (done ++ [(norm rec, data)]) ->
  let done1 := done ++ [(norm rec, data)] in
  (forall k j, let '(A', D') := crash_image (fst (write_item bs s rec data)) k j A D in crash_shape done1 A' D')
  /\ exists A2 D2, apply_trace (fst (write_item bs s rec data)) A D = (A2, D2)
                   /\ Inv (snd (write_item bs s rec data)) A2 D2 done1.
Proof.
  intros (fl & pend & Hd & -> & -> & Hb & Hdb) Hwf done1.
  set (it := (norm rec, data)) in *. set (pend' := pend ++ [it]).
  assert (Hd1 : done1 = fl ++ pend') by (unfold done1, pend'; rewrite Hd, app_assoc; reflexivity).
  assert (HRp : R pend ++ norm rec = R pend') by (unfold pend', it; rewrite R_snoc; reflexivity).
  assert (Hvp : vals pend' = vals pend ++ val_of it) by apply vals_snoc.
  assert (Hvd : vals done1 = vals fl ++ vals pend ++ val_of it) by (rewrite Hd1, vals_app, Hvp; reflexivity).
  assert (Hne : nonempty (R pend') = true) by (rewrite <- HRp; apply nonempty_app_norm).
  unfold write_item. rewrite Hb, Hdb. cbn [w_buf w_dbuf]. rewrite HRp.
  (* common facts for "everything is written out" *)
  assert (Hfull_nodata : val_of it = [] ->
    (forall k j, let '(A', D') := crash_image (WAof (R pend') :: map WDat (dsv (vals pend))) k j (header ++ R fl) (vals fl) in crash_shape done1 A' D')
    /\ exists A2 D2, apply_trace (WAof (R pend') :: map WDat (dsv (vals pend))) (header ++ R fl) (vals fl) = (A2, D2)
                     /\ Inv (mkwst [] []) A2 D2 done1).
  { intros Hv0. apply full_flush_ok; auto. rewrite Hvd, Hv0, app_nil_r, concat_dsv. reflexivity. }
  assert (Hfull_data : val_of it = data ->
    (forall k j, let '(A', D') := crash_image (WAof (R pend') :: map WDat (dsv (vals pend) ++ [data])) k j (header ++ R fl) (vals fl) in crash_shape done1 A' D')
    /\ exists A2 D2, apply_trace (WAof (R pend') :: map WDat (dsv (vals pend) ++ [data])) (header ++ R fl) (vals fl) = (A2, D2)
                     /\ Inv (mkwst [] []) A2 D2 done1).
  { intros Hv0. apply full_flush_ok; auto. rewrite Hvd, Hv0, concat_app, concat_dsv. cbn [concat]. rewrite app_nil_r. reflexivity. }
  assert (Hnone : forall s', w_buf s' = R pend' -> w_dbuf s' = vals pend' ->
    (forall k j, let '(A', D') := crash_image [] k j (header ++ R fl) (vals fl) in crash_shape done1 A' D')
    /\ exists A2 D2, apply_trace [] (header ++ R fl) (vals fl) = (A2, D2) /\ Inv s' A2 D2 done1).
  { intros s' H1 H2. split.
    - intros k j. rewrite crash_image_nil. apply (shape_inv done1 fl pend'); auto.
    - cbn [apply_trace]. do 2 eexists. split; [reflexivity|]. exists fl, pend'. repeat split; auto. }
  assert (Hvo : val_of it = if has_data (norm rec) then data else []) by reflexivity.
  destruct (bs <=? length (R pend'))%nat.
  - (* WriteLock filled the buffer: Flush *)
    unfold flush. cbn [w_buf w_dbuf fst snd].
    destruct (has_data (norm rec)).
    + cbn [nonempty]. rewrite flush_trace_form_data by exact Hne. cbn [fst snd]. apply Hfull_data; auto.
    + rewrite flush_trace_form by exact Hne. cbn [fst snd]. apply Hfull_nodata; auto.
  - destruct (has_data (norm rec)).
    + cbn [w_buf w_dbuf]. rewrite Hne.
      destruct (length data <=? bs * 64 - length (vals pend))%nat.
      * cbn [fst snd]. apply Hnone; cbn [w_buf w_dbuf]; auto. rewrite Hvp, Hvo. reflexivity.
      * unfold flush. cbn [w_buf w_dbuf fst snd app].
        rewrite flush_trace_form_data by exact Hne. apply Hfull_data; auto.
    + cbn [fst snd]. apply Hnone; cbn [w_buf w_dbuf]; auto. rewrite Hvp, Hvo, app_nil_r. reflexivity.
Qed.

Lemma run_ops_shape bs : forall ops s A D done,
  Forall wf_item done -> Forall wf_op ops -> Inv s A D done ->
  forall k j, let '(A', D') := crash_image (run_ops bs s ops) k j A D in crash_shape (done ++ items_of ops) A' D'.
Proof.
  induction ops as [|o ops IH]; intros s A D done Hwf Hops HI k j.
  - cbn [run_ops items_of flat_map]. rewrite app_nil_r. apply (proj1 (flush_ok s A D done HI Hwf)).
  - inversion Hops as [|? ? Ho Hops']; subst.
    destruct o as [rec data|].
    + cbn [run_ops items_of flat_map item_of_op]. fold (items_of ops). rewrite (app_assoc done).
      assert (Hwf1 : Forall wf_item (done ++ [(norm rec, data)])).
      { apply Forall_app_intro; auto. constructor; [apply wf_op_item; auto|constructor]. }
      destruct (write_item_ok bs s A D done rec data HI Hwf1) as [Hsh (A2 & D2 & Hap & HI2)].
      destruct (write_item bs s rec data) as [t s'] eqn:Ew. cbn [fst snd] in *.
      rewrite crash_image_app.
      destruct (k <? length t)%nat.
      * specialize (Hsh k j). destruct (crash_image t k j A D) as [A' D'].
        apply (shape_mono (done ++ [(norm rec, data)]) (items_of ops)). exact Hsh.
      * rewrite Hap. apply (IH s' A2 D2 (done ++ [(norm rec, data)])); auto.
    + cbn [run_ops items_of flat_map item_of_op app].
      destruct (flush_ok s A D done HI Hwf) as [Hsh (A2 & D2 & Hap & HI2)].
      destruct (flush s) as [t s'] eqn:Ef. cbn [fst snd] in *.
      rewrite crash_image_app.
      destruct (k <? length t)%nat.
      * specialize (Hsh k j). destruct (crash_image t k j A D) as [A' D']. apply shape_mono. exact Hsh.
      * rewrite Hap. apply IH; auto.
Qed.

(* C08, write side: every crash image of a fresh append file written by any workload has the crash shape *)
Theorem writer_crash_shape : forall (bs : nat) (ops : list op) (k j : nat),
  Forall wf_op ops ->
  let '(A, D) := crash_image (fresh_trace bs ops) k j [] [] in crash_shape (items_of ops) A D.
Proof.
  intros bs ops k j Hops. unfold fresh_trace.
  destruct k as [|k].
  - unfold crash_image. cbn [firstn apply_trace nth_error app].
    destruct (Nat.lt_ge_cases j 12) as [Hj|Hj].
    + apply CS_header; auto.
    + rewrite firstn_all2 by (rewrite header_length; lia).
      replace header with (header ++ concat (recs_of (firstn 0 (items_of ops))) ++ []) by reflexivity.
      apply (CS_body _ 0 [] [] []); auto using tail_ok_nil. lia.
  - rewrite crash_image_cons_S. cbn [app].
    apply (run_ops_shape bs ops (mkwst [] []) header [] [] (Forall_nil _) Hops).
    exists [], []. repeat split; reflexivity.
Qed.

Lemma items_of_wf ops : Forall wf_op ops -> Forall wf_item (items_of ops).
Proof.
  induction 1 as [|o ops Ho _ IH]; [constructor|]. destruct o as [rec data|]; cbn [items_of flat_map item_of_op app]; auto.
  constructor; auto. apply wf_op_item; auto.
Qed.

(* C08 end to end, repaired variant: write any workload with any buffer size, crash at any write(2) boundary or inside
   any write at any byte, restart with any reader buffer size: the start succeeds and the engine receives exactly the
   live records of a prefix of the records written. *)
Theorem crash_any_byte_repaired fx wbs rbs now ops k j :
  fixed_reader fx -> fx_hdr fx = true -> (64 <= rbs)%nat -> Forall wf_op ops ->
  let '(A, D) := crash_image (fresh_trace wbs ops) k j [] [] in
  exists n, (n <= length (items_of ops))%nat /\
            recover fx rbs (single_dir A D) now = ROk (live now (deliver (firstn n (items_of ops)))).
Proof.
  intros Hfx Hh Hbs Hops. pose proof (writer_crash_shape wbs ops k j Hops) as Hs.
  destruct (crash_image (fresh_trace wbs ops) k j [] []) as [A D].
  apply first_restart_repaired; auto. apply items_of_wf; auto.
Qed.

(* a small concrete workload used by the non-vacuity examples *)
Definition w_ops : list op := [OItem (w_rec 1 0x2000) (w_val 7); OFlush; OItem (w_rec 2 0) []].
Lemma w_ops_wf : Forall wf_op w_ops.
Proof.
  unfold w_ops. apply Forall_cons; [split; [reflexivity|intros _; split; [simpl; lia|reflexivity]]|].
  apply Forall_cons; [exact I|].
  apply Forall_cons; [split; [reflexivity|intros H; vm_compute in H; discriminate]|]. apply Forall_nil.
Qed.

Lemma apply_trace_app t : forall t' A D,
  apply_trace (t ++ t') A D = let '(A1, D1) := apply_trace t A D in apply_trace t' A1 D1.
Proof. induction t as [|w t IH]; intros t' A D; [reflexivity|]. destruct w; cbn [app apply_trace]; apply IH. Qed.

Lemma inv_flushed A D done : Inv (mkwst [] []) A D done -> A = header ++ R done /\ D = vals done.
Proof.
  intros (fl & pend & Hd & -> & -> & Hb & Hdb). cbn [w_buf w_dbuf] in *.
  rewrite Hd, R_app, vals_app, <- Hb, <- Hdb, !app_nil_r. auto.
Qed.

(* a workload written completely (Close flushes): the files are exactly header ++ records, values *)
Lemma run_ops_final bs : forall ops s A D done,
  Forall wf_item done -> Forall wf_op ops -> Inv s A D done ->
  apply_trace (run_ops bs s ops) A D = (header ++ R (done ++ items_of ops), vals (done ++ items_of ops)).
Proof.
  induction ops as [|o ops IH]; intros s A D done Hwf Hops HI.
  - cbn [run_ops items_of flat_map]. rewrite app_nil_r.
    destruct (flush_ok s A D done HI Hwf) as [_ (A2 & D2 & Hap & HI2)].
    rewrite Hap. unfold flush in HI2. cbn [snd] in HI2. destruct (inv_flushed _ _ _ HI2) as [-> ->]. reflexivity.
  - inversion Hops as [|? ? Ho Hops']; subst. destruct o as [rec data|].
    + cbn [run_ops items_of flat_map item_of_op]. fold (items_of ops). rewrite (app_assoc done).
      assert (Hwf1 : Forall wf_item (done ++ [(norm rec, data)])).
      { apply Forall_app_intro; auto. constructor; [apply wf_op_item; auto|constructor]. }
      destruct (write_item_ok bs s A D done rec data HI Hwf1) as [_ (A2 & D2 & Hap & HI2)].
      destruct (write_item bs s rec data) as [t s'] eqn:Ew. cbn [fst snd] in *.
      rewrite apply_trace_app, Hap. apply IH; auto.
    + cbn [run_ops items_of flat_map item_of_op app].
      destruct (flush_ok s A D done HI Hwf) as [_ (A2 & D2 & Hap & HI2)].
      destruct (flush s) as [t s'] eqn:Ef. cbn [fst snd] in *.
      rewrite apply_trace_app, Hap. apply IH; auto.
Qed.

(* C08, two restarts, end to end on the write model (repaired variant, value-clean crash) *)
Theorem second_restart_writer fx bs wbs now its1 ops2 n A D :
  fixed_reader fx -> fx_hdr fx = true -> fx_trunc fx = true -> (64 <= bs)%nat ->
  Forall wf_item its1 -> Forall wf_op ops2 -> clean_crash its1 n A D ->
  recover fx bs (single_dir A D) now = ROk (live now (deliver (firstn n its1))) /\
  recover fx bs (after_append fx wbs A D ops2) now = ROk (live now (deliver (firstn n its1 ++ items_of ops2))).
Proof.
  intros Hfx Hh Htr Hbs Hwf1 Hops Hc.
  pose proof (items_of_wf ops2 Hops) as Hwf2.
  destruct (second_restart_repaired fx bs now its1 (items_of ops2) n A D Hfx Hh Htr Hbs Hwf1 Hwf2 Hc) as [H1 H2].
  split; [exact H1|]. unfold after_append.
  assert (Hwfn : Forall wf_item (firstn n its1)) by (apply Forall_firstn; auto).
  assert (Hopen : exists a0 d0, open_append fx (Some A) (Some D) = (a0, d0) /\ Inv (mkwst [] []) a0 d0 (firstn n its1)).
  { destruct Hc as [j Hj | n tail Hn Ht].
    - rewrite open_append_short_header by auto. do 2 eexists. split; [reflexivity|]. exists [], []. repeat split; reflexivity.
    - rewrite open_append_torn; auto; [|apply wf_items_recs; auto|apply Ht].
      do 2 eexists. split; [reflexivity|]. exists (firstn n its1), []. rewrite app_nil_r. repeat split; reflexivity. }
  destruct Hopen as (a0 & d0 & Ho & HI). rewrite Ho in *.
  rewrite (run_ops_final wbs ops2 (mkwst [] []) a0 d0 (firstn n its1) Hwfn Hops HI).
  destruct (inv_flushed _ _ _ HI) as [-> ->].
  rewrite R_app, vals_app, app_assoc in *. unfold R in *. exact H2.
Qed.
