(* C13 — statements about the tree under test: the universal no-panic theorems for the repaired variant and the
   refutations for the unrepaired one are combined into `*_claim` predicates selected by the source-derived switches
   (Proto/SrcFlags.v, Gen/GenConsts.v).  Properties/C13.v re-exports these lemmas. *)
From Coq Require Import List NArith ZArith Bool String.
From Slock Require Import Gen.GenConsts Proto.Binary Proto.TextCmds Proto.ProtoProofs Proto.SrcFlags.
Import ListNotations.
Local Open Scope N_scope.
(* ---- 1. binary connection: every byte string, every split into reads (first_read), every cap ---------------- *)
Lemma C13_binary_no_crash_l :
  forall (fx : fixes) (cap : N) (db_exists : N -> bool)
         (engine_lock engine_unlock : lockcmd -> outcome unit) (call_handler : callcmd -> list N -> outcome unit)
         (command_handler : N -> list N -> outcome unit) (text_session : list N -> outcome (list N))
         (text_conn : list N -> outcome unit),
    (forall c, engine_lock c <> Panic) -> (forall c, engine_unlock c <> Panic) ->
    (forall k content, call_handler k content <> Panic) -> (forall ty buf, command_handler ty buf <> Panic) ->
    (forall inp, text_session inp <> Panic) -> (forall inp, text_conn inp <> Panic) ->
    fx_short_frame fx = true ->
    forall (first_read : N) (inp : list N),
      let r := handle_conn fx cap db_exists engine_lock engine_unlock call_handler command_handler text_session text_conn first_read inp in
      snd r <> EndCrash /\ snd r <> EndOutOfFuel.
Proof. intros. eapply handle_conn_safe; eauto. Qed.

(* the unrepaired code: 68 bytes (LOCK frame with the data flag + a data frame declaring length 0) kill the process *)
Lemma C13_refuted_short_data_frame_l :
  forall (fx : fixes) (cap : N) (db_exists : N -> bool), fx_short_frame fx = false ->
    exists buf rest, process_parse fx cap db_exists ok_engine ok_engine ok_call ok_command ok_text buf rest = Crash.
Proof. intros. exists witness_lock_frame, witness_short_data. apply short_frame_crashes; auto. Qed.

(* the statement about the tree under test, selected by the source-derived switch *)
Definition binary_claim (fx : fixes) : Prop :=
  if fx_short_frame fx then
    forall cap dbe el eu ch cm ts tc,
      (forall c, el c <> Panic) -> (forall c, eu c <> Panic) -> (forall k d, ch k d <> Panic) -> (forall t b, cm t b <> Panic) ->
      (forall i, ts i <> Panic) -> (forall i, tc i <> Panic) ->
      forall first_read inp, snd (handle_conn fx cap dbe el eu ch cm ts tc first_read inp) <> EndCrash
  else
    forall cap dbe, exists buf rest, process_parse fx cap dbe ok_engine ok_engine ok_call ok_command ok_text buf rest = Crash.
Lemma C13_binary_current_l : binary_claim current_fixes.
Proof.
  unfold binary_claim. destruct (fx_short_frame current_fixes) eqn:E.
  - intros. eapply handle_conn_safe; eauto.
  - intros. eapply C13_refuted_short_data_frame_l; eauto.
Qed.

(* ---- 2. Stream.ReadBytesFrame: total; returns 4 + declared bytes with declared <= cap (length 0 -> 4 bytes) --- *)
Lemma C13_read_bytes_frame_l :
  forall cap inp, read_bytes_frame cap inp <> Panic /\
    (forall buf rest, read_bytes_frame cap inp = Ok (buf, rest) -> 4 <= len buf /\ len buf <= cap + 4 /\ len rest <= len inp).
Proof. intros; split; [apply read_bytes_frame_total | apply read_bytes_frame_shape]. Qed.

(* the hand-off to NewLockCommandDataFromOriginBytes: its precondition, and that exactly the short buffers panic today *)
Lemma C13_new_lock_data_precondition_l :
  forall fx data, (6 <= len data -> new_lock_data fx data <> Panic) /\
                  (fx_short_frame fx = true -> new_lock_data fx data <> Panic) /\
                  (fx_short_frame fx = false -> len data < 6 -> new_lock_data fx data = Panic).
Proof.
  intros; repeat split; [apply new_lock_data_pre | apply new_lock_data_fixed | apply new_lock_data_unfixed].
Qed.

(* ---- 3. embedded command of an EXECUTE value frame (DecodeLockCommand) ---------------------------------------- *)
Definition embedded_claim (fx : fixes) : Prop :=
  if fx_short_frame fx && fx_cmd_offset fx then forall d, decode_lock_command fx d <> Panic
  else exists d, decode_lock_command fx d = Panic.
Lemma C13_embedded_current_l : embedded_claim current_fixes /\ (forall d, decode_lock_command all_fixes d <> Panic).
Proof.
  split; [|intros; apply decode_lock_command_fixed; reflexivity].
  unfold embedded_claim. destruct (fx_short_frame current_fixes) eqn:E1; destruct (fx_cmd_offset current_fixes) eqn:E2; cbn [andb].
  - intros; apply decode_lock_command_fixed; auto.
  - eexists; apply cmd_offset_panics; auto.
  - eexists; apply embedded_short_panics; auto.
  - eexists; apply embedded_short_panics; auto.
Qed.

(* ---- 4. CALL LIST_*: dbs[request.DbId] ------------------------------------------------------------------------ *)
Definition call_claim (fx : fixes) : Prop :=
  if fx_call_dbid fx then forall ndbs dbid, call_dbs_index fx ndbs dbid <> Panic
  else forall ndbs dbid, ndbs <= dbid -> call_dbs_index fx ndbs dbid = Panic.
Lemma C13_call_dbid_current_l : call_claim current_fixes.
Proof.
  unfold call_claim. destruct (fx_call_dbid current_fixes) eqn:E; intros.
  - apply call_dbs_index_fixed; auto.
  - apply call_dbs_index_unfixed; auto.
Qed.

(* ---- 5. Redis-style text converters: every argument list --------------------------------------------------------- *)
Definition convert_claim (fx : tfixes) : Prop :=
  if fx_args2flag fx && fx_setex_args fx then
    forall pt ns nms a, a <> [] -> convert fx pt ns nms a <> Panic
  else exists a, a <> [] /\ forall pt ns nms, convert fx pt ns nms a = Panic.
Lemma C13_text_convert_current_l :
  convert_claim current_tfixes /\ (forall pt ns nms a, a <> [] -> convert tall_fixes pt ns nms a <> Panic).
Proof.
  split; [|intros; apply convert_total; auto].
  unfold convert_claim. destruct (fx_args2flag current_tfixes) eqn:E1; destruct (fx_setex_args current_tfixes) eqn:E2; cbn [andb].
  - intros; apply convert_total; auto.
  - eexists; split; [|intros; apply setex_unfixed; auto]. discriminate.
  - eexists; split; [|intros; apply args2flag_unfixed; auto]. discriminate.
  - eexists; split; [|intros; apply args2flag_unfixed; auto]. discriminate.
Qed.

(* ---- 6. text rendering of a lock result: ERROR_MSG[Result] for every result code the engine can produce --------- *)
Definition errmsg_total : bool := forallb (fun r => r <? len_ERROR_MSG) result_codes.
Definition errmsg_claim : Prop :=
  if errmsg_total then forall r, In r result_codes -> write_lock_result len_ERROR_MSG r <> Panic
  else exists r, In r result_codes /\ write_lock_result len_ERROR_MSG r = Panic.
Lemma C13_error_msg_current_l : errmsg_claim.
Proof.
  unfold errmsg_claim. destruct errmsg_total eqn:E.
  - intros r H. unfold errmsg_total in E. rewrite forallb_forall in E. apply write_lock_result_ok. apply N.ltb_lt. auto.
  - unfold errmsg_total in E.
    assert (X : exists r, In r result_codes /\ (r <? len_ERROR_MSG) = false).
    { clear -E. induction result_codes as [|x l IH]; cbn in E; [discriminate|].
      destruct (x <? len_ERROR_MSG) eqn:Hx; cbn in E.
      - destruct (IH E) as [r [Hi Hr]]. exists r; split; [right|]; auto.
      - exists x; split; [left|]; auto. }
    destruct X as [r [Hi Hr]]. exists r; split; auto. apply write_lock_result_panics. apply N.ltb_ge; auto.
Qed.

(* ---- 7. APPEND result writer and SCAN argument loop ---------------------------------------------------------------- *)
Definition writers_claim (fx : tfixes) : Prop :=
  (if fx_append_nil fx then forall r vs al, write_append_result fx r vs al <> Panic
   else forall al, write_append_result fx 0 None al = Panic) /\
  (if fx_scan_args fx then forall re a, scan_args fx re a <> Panic
   else forall re, exists a, scan_args fx re a = Panic).
Lemma C13_text_writers_current_l :
  writers_claim current_tfixes /\
  (forall r vs al, write_append_result tall_fixes r vs al <> Panic) /\ (forall re a, scan_args tall_fixes re a <> Panic).
Proof.
  split; [|split; intros; [apply write_append_fixed | apply scan_args_fixed]; reflexivity].
  unfold writers_claim. split.
  - destruct (fx_append_nil current_tfixes) eqn:E; intros; [apply write_append_fixed | apply write_append_unfixed]; auto.
  - destruct (fx_scan_args current_tfixes) eqn:E; intros; [apply scan_args_fixed; auto | eexists; apply scan_args_unfixed; auto].
Qed.

(* ---- 8. frame rule: a step of connection c (reply, error reply, close) leaves every other connection untouched ---- *)
Lemma C13_isolation_l :
  forall fx cap dbe el eu ch cm ts (s : conns) (c c' : N), c <> c' ->
    cget (fst (conn_step fx cap dbe el eu ch cm ts s c)) c' = cget s c'.
Proof. intros. apply conn_step_frame; auto. Qed.
