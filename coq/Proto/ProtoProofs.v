(* C13 — theorems about the binary protocol layer (Binary.v) and the text converters / writers (TextCmds.v).
   All statements quantify over ALL inputs (byte lists, argument lists, every split into reads).
   No axioms; `vm_compute` is used only to check concrete refutation witnesses. *)
From Coq Require Import List NArith ZArith Bool Lia String.
From Slock Require Import Proto.Binary Proto.TextCmds.
Import ListNotations.
Local Open Scope N_scope.

(* ------------------------------------------------------------------------------------------------ basics *)
Lemma len_app {A} (a b : list A) : len (a ++ b) = len a + len b.
Proof. unfold len. rewrite app_length. lia. Qed.
Lemma len_firstn {A} (l : list A) n : n <= len l -> len (firstn (N.to_nat n) l) = n.
Proof. unfold len. intros. rewrite firstn_length. lia. Qed.
Lemma len_skipn {A} (l : list A) n : len (skipn (N.to_nat n) l) = len l - n.
Proof. unfold len. rewrite skipn_length. lia. Qed.

Lemma idx_lt b i : i < len b -> exists v, idx b i = Ok v.
Proof.
  unfold idx, len. intros H. destruct (nth_error b (N.to_nat i)) eqn:E; eauto.
  apply nth_error_None in E. lia.
Qed.
Lemma idx_ge b i : len b <= i -> idx b i = Panic.
Proof.
  unfold idx, len. intros H. destruct (nth_error b (N.to_nat i)) eqn:E; auto.
  assert (nth_error b (N.to_nat i) <> None) by congruence. apply nth_error_Some in H0. lia.
Qed.
Lemma slice_ok b i j : i <= j -> j <= len b -> exists v, slice b i j = Ok v /\ len v = j - i.
Proof.
  intros H1 H2. unfold slice. replace (i <=? j) with true by (symmetry; apply N.leb_le; auto).
  replace (j <=? len b) with true by (symmetry; apply N.leb_le; auto). simpl.
  eexists; split; eauto. rewrite len_firstn; auto. rewrite len_skipn. lia.
Qed.

Ltac ok_idx b i :=
  let v := fresh "v" in let E := fresh "E" in
  destruct (idx_lt b i) as [v E]; [lia | rewrite E; cbn [bind]].
Ltac ok_slice b i j :=
  let v := fresh "s" in let E := fresh "E" in let L := fresh "L" in
  destruct (slice_ok b i j) as [v [E L]]; [lia | lia | rewrite E; cbn [bind]].

(* ------------------------------------------------------------------------------------------------ frames *)
Lemma decode_lock_total buf : decode_lock buf <> Panic.
Proof.
  unfold decode_lock. destruct (len buf <? 64) eqn:H; [discriminate|]. apply N.ltb_ge in H.
  ok_idx buf 2. ok_slice buf 3 19. ok_idx buf 19. ok_idx buf 20. ok_slice buf 21 37. ok_slice buf 37 53.
  ok_idx buf 53. ok_idx buf 54. ok_idx buf 55. ok_idx buf 56. ok_idx buf 57. ok_idx buf 58. ok_idx buf 59.
  ok_idx buf 60. ok_idx buf 61. ok_idx buf 62. ok_idx buf 63. discriminate.
Qed.

Lemma decode_call_total buf : 64 <= len buf -> decode_call buf <> Panic.
Proof.
  intros H. unfold decode_call.
  ok_slice buf 3 19. ok_idx buf 19. ok_idx buf 20. ok_idx buf 21. ok_idx buf 22. ok_idx buf 23. ok_idx buf 24.
  ok_idx buf 25. ok_slice buf 26 64. discriminate.
Qed.

(* NewLockCommandDataFromOriginBytes: its precondition, explicit *)
Lemma new_lock_data_pre fx data : 6 <= len data -> new_lock_data fx data <> Panic.
Proof.
  intros H. unfold new_lock_data.
  replace (len data <? 6) with false by (symmetry; apply N.ltb_ge; auto). rewrite andb_false_r.
  ok_idx data 4. ok_idx data 5. discriminate.
Qed.
Lemma new_lock_data_fixed fx data : fx_short_frame fx = true -> new_lock_data fx data <> Panic.
Proof.
  intros F. destruct (len data <? 6) eqn:H.
  - unfold new_lock_data. rewrite F, H. discriminate.
  - apply new_lock_data_pre. apply N.ltb_ge; auto.
Qed.
(* and it is exactly the frames shorter than 6 bytes (declared length 0 or 1) that panic today *)
Lemma new_lock_data_unfixed fx data : fx_short_frame fx = false -> len data < 6 -> new_lock_data fx data = Panic.
Proof.
  intros F H. unfold new_lock_data. rewrite F. cbn [andb].
  destruct (N.lt_ge_cases 4 (len data)) as [H4|H4].
  - ok_idx data 4. rewrite idx_ge by lia. reflexivity.
  - rewrite idx_ge by lia. reflexivity.
Qed.

Lemma value_offset_fixed fx d : fx_cmd_offset fx = true -> value_offset fx d <> Panic.
Proof.
  intros F. unfold value_offset. rewrite F. destruct (has (d_flag d) 16); [|discriminate].
  destruct (8 <=? len (d_data d)) eqn:H; [|discriminate]. apply N.leb_le in H.
  ok_idx (d_data d) 6. ok_idx (d_data d) 7. discriminate.
Qed.
Lemma value_offset_fixed_bound fx d off :
  fx_cmd_offset fx = true -> 6 <= len (d_data d) -> value_offset fx d = Ok off -> off <= len (d_data d).
Proof.
  intros F L. unfold value_offset. rewrite F. destruct (has (d_flag d) 16).
  - destruct (8 <=? len (d_data d)) eqn:H.
    + apply N.leb_le in H. ok_idx (d_data d) 6. ok_idx (d_data d) 7. intros E1. inversion E1.
      destruct (len (d_data d) <? le16 v v0 + 8) eqn:C; [lia|]. apply N.ltb_ge in C. lia.
    + intros E; inversion E. lia.
  - intros E; inversion E. lia.
Qed.

(* ------------------------------------------------------------------------------------------------ ReadBytesFrame *)
Lemma take_total n inp : take n inp <> Panic.
Proof. unfold take. destruct (len inp <? n); discriminate. Qed.
Lemma take_ok n inp a r : take n inp = Ok (a, r) -> len a = n /\ len r = len inp - n /\ inp = a ++ r.
Proof.
  unfold take. destruct (len inp <? n) eqn:H; [discriminate|]. apply N.ltb_ge in H.
  intros E; inversion E; subst. rewrite len_firstn by auto. rewrite len_skipn.
  repeat split; auto. symmetry. apply firstn_skipn.
Qed.

Lemma len_le32_bytes v : len (le32_bytes v) = 4.
Proof. reflexivity. Qed.

Lemma read_bytes_frame_total cap inp : read_bytes_frame cap inp <> Panic.
Proof.
  unfold read_bytes_frame. destruct (take 4 inp) as [[h rest]| |] eqn:T; cbn [bind]; try discriminate.
  2:{ exfalso. eapply take_total; eauto. }
  apply take_ok in T. destruct T as [L4 _].
  ok_idx h 0. ok_idx h 1. ok_idx h 2. ok_idx h 3.
  destruct (cap <? le32 v v0 v1 v2); [discriminate|].
  destruct (le32 v v0 v1 v2 =? 0); [discriminate|].
  destruct (take (le32 v v0 v1 v2) rest) as [[body rest']| |] eqn:T2; cbn [bind]; try discriminate.
  exfalso. eapply take_total; eauto.
Qed.

(* what the caller gets: 4 + declared bytes, declared <= cap; a declared length of 0 or 1 yields a buffer of 4 or 5
   bytes, i.e. one that violates the precondition of NewLockCommandDataFromOriginBytes *)
Lemma read_bytes_frame_shape cap inp buf rest :
  read_bytes_frame cap inp = Ok (buf, rest) ->
  4 <= len buf /\ len buf <= cap + 4 /\ len rest <= len inp.
Proof.
  unfold read_bytes_frame. destruct (take 4 inp) as [[h r0]| |] eqn:T; cbn [bind]; try discriminate.
  apply take_ok in T. destruct T as [L4 [Lr _]].
  ok_idx h 0. ok_idx h 1. ok_idx h 2. ok_idx h 3.
  destruct (cap <? le32 v v0 v1 v2) eqn:C; [discriminate|]. apply N.ltb_ge in C.
  destruct (le32 v v0 v1 v2 =? 0) eqn:Z.
  - intros E3; inversion E3; subst. rewrite len_le32_bytes. lia.
  - destruct (take (le32 v v0 v1 v2) r0) as [[body rest']| |] eqn:T2; cbn [bind]; try discriminate.
    apply take_ok in T2. destruct T2 as [Lb [Lr' _]].
    intros E3; inversion E3; subst. unfold len in *. cbn [le32_bytes app Datatypes.length] in *. lia.
Qed.

Lemma parse_lock_data_fixed fx cap inp : fx_short_frame fx = true -> parse_lock_data fx cap inp <> Panic.
Proof.
  intros F. unfold parse_lock_data.
  destruct (read_bytes_frame cap inp) as [[buf rest]| |] eqn:R; cbn [bind]; try discriminate.
  2:{ exfalso. eapply read_bytes_frame_total; eauto. }
  destruct (new_lock_data fx buf) eqn:D; cbn [bind]; try discriminate.
  exfalso. eapply new_lock_data_fixed; eauto.
Qed.
Lemma parse_lock_data_rest fx cap inp d rest : parse_lock_data fx cap inp = Ok (d, rest) -> len rest <= len inp.
Proof.
  unfold parse_lock_data.
  destruct (read_bytes_frame cap inp) as [[buf r]| |] eqn:R; cbn [bind]; try discriminate.
  destruct (new_lock_data fx buf) eqn:D; cbn [bind]; try discriminate.
  intros E; inversion E; subst. eapply read_bytes_frame_shape; eauto.
Qed.

(* ------------------------------------------------------------------------------------------------ embedded command of an EXECUTE frame *)
Lemma decode_lock_command_fixed fx d :
  fx_short_frame fx = true -> fx_cmd_offset fx = true -> decode_lock_command fx d <> Panic.
Proof.
  intros F1 F2. unfold decode_lock_command.
  destruct (value_offset fx d) as [off| |] eqn:V; cbn [bind]; try discriminate.
  2:{ exfalso. eapply value_offset_fixed; eauto. }
  destruct (len (d_data d) <? off + 64) eqn:H; [discriminate|]. apply N.ltb_ge in H.
  ok_slice (d_data d) off (off + 64).
  destruct (decode_lock s) as [c| |] eqn:DL; cbn [bind]; try discriminate.
  2:{ exfalso. eapply decode_lock_total; eauto. }
  destruct (has (c_flag c) 32); [|discriminate].
  destruct (len (d_data d) <? off + 68) eqn:H2; [discriminate|]. apply N.ltb_ge in H2.
  ok_idx (d_data d) (off + 64). ok_idx (d_data d) (off + 65). ok_idx (d_data d) (off + 66). ok_idx (d_data d) (off + 67).
  destruct (le32 v v0 v1 v2 =? 0); [discriminate|].
  destruct (len (d_data d) <? off + le32 v v0 v1 v2 + 68) eqn:H3; [discriminate|]. apply N.ltb_ge in H3.
  ok_slice (d_data d) (off + 68) (off + le32 v v0 v1 v2 + 68).
  destruct (new_lock_data fx _) eqn:ND; cbn [bind]; try discriminate.
  exfalso. eapply new_lock_data_fixed; eauto.
Qed.

(* ------------------------------------------------------------------------------------------------ dispatch *)
Section DispatchProofs.
  Variable fx : fixes.
  Variable cap : N.
  Variable db_exists : N -> bool.
  Variable engine_lock engine_unlock : lockcmd -> outcome unit.
  Variable call_handler : callcmd -> list N -> outcome unit.
  Variable command_handler : N -> list N -> outcome unit.
  Variable text_session : list N -> outcome (list N).
  Variable text_conn : list N -> outcome unit.
  (* what the other layers prove (coq/Data: value layer + engine; coq/Text: text protocol) *)
  Hypothesis engine_lock_safe : forall c, engine_lock c <> Panic.
  Hypothesis engine_unlock_safe : forall c, engine_unlock c <> Panic.
  Hypothesis call_handler_safe : forall k content, call_handler k content <> Panic.
  Hypothesis command_handler_safe : forall ty buf, command_handler ty buf <> Panic.
  Hypothesis text_session_safe : forall inp, text_session inp <> Panic.
  Hypothesis text_session_consumes : forall inp r, text_session inp = Ok r -> len r <= len inp.
  Hypothesis text_conn_safe : forall inp, text_conn inp <> Panic.
  Hypothesis fixed : fx_short_frame fx = true.

  Let pp := process_parse fx cap db_exists engine_lock engine_unlock call_handler command_handler text_session.

  Lemma lift_step_no_crash {A} (o : outcome A) k : o <> Panic -> (forall a, o = Ok a -> k a <> Crash) -> lift_step o k <> Crash.
  Proof. destruct o; cbn; intros; auto; try discriminate. Qed.

  Lemma lock_branch_no_crash buf rest unlock :
    parse_lock_branch fx cap db_exists engine_lock engine_unlock buf rest unlock <> Crash.
  Proof.
    unfold parse_lock_branch. apply lift_step_no_crash; [apply decode_lock_total|]. intros c _.
    assert (K : forall c r,
      (if c_dbid c =? 255 then Continue (EvReply (c_type c) 3) r
       else if unlock && negb (db_exists (c_dbid c)) then Continue (EvReply (c_type c) 3) r
       else lift_step ((if unlock then engine_unlock else engine_lock) c)
              (fun _ => Continue (if unlock then EvUnlock c else EvLock c) r)) <> Crash).
    { intros c0 r. destruct (c_dbid c0 =? 255); [discriminate|].
      destruct (unlock && negb (db_exists (c_dbid c0))); [discriminate|].
      apply lift_step_no_crash; [destruct unlock; auto|]. discriminate. }
    destruct (has (c_flag c) 32); [|apply K].
    apply lift_step_no_crash; [apply parse_lock_data_fixed; auto|]. intros; apply K.
  Qed.

  Lemma will_branch_no_crash buf rest ty : parse_will_branch fx cap buf rest ty <> Crash.
  Proof.
    unfold parse_will_branch. apply lift_step_no_crash; [apply decode_lock_total|]. intros c _.
    destruct (has (c_flag c) 32); [|discriminate].
    apply lift_step_no_crash; [apply parse_lock_data_fixed; auto|]. discriminate.
  Qed.

  (* ProcessParse never panics, whatever the 64 bytes and whatever follows them *)
  Theorem process_parse_no_crash buf rest : pp buf rest <> Crash.
  Proof.
    unfold pp, process_parse. destruct (len buf <? 64) eqn:H; [discriminate|]. apply N.ltb_ge in H.
    ok_idx buf 0. ok_idx buf 1. ok_idx buf 2. cbn [lift_step].
    destruct (negb (v =? 86)); [discriminate|]. destruct (negb (v0 =? 1)); [discriminate|].
    destruct (v1 =? 1); [apply lock_branch_no_crash|].
    destruct (v1 =? 2); [apply lock_branch_no_crash|].
    destruct (v1 =? 7).
    { apply lift_step_no_crash; [apply decode_call_total; auto|]. intros k _.
      destruct (cap <? k_contentlen k); [discriminate|].
      apply lift_step_no_crash; [apply take_total|]. intros cr _.
      apply lift_step_no_crash; [apply call_handler_safe|]. discriminate. }
    destruct ((v1 =? 8) || (v1 =? 9)); [apply will_branch_no_crash|].
    destruct (v1 =? 4). { apply lift_step_no_crash; [apply text_session_safe|]. discriminate. }
    destruct (v1 =? 6); [discriminate|].
    apply lift_step_no_crash; [apply command_handler_safe|]. discriminate.
  Qed.

  (* whole connection: neither a crash nor fuel exhaustion, for every input *)
  Let pc := process_conn fx cap db_exists engine_lock engine_unlock call_handler command_handler text_session.

  Theorem process_conn_safe fuel inp trace :
    (Datatypes.length inp < fuel)%nat -> snd (pc fuel inp trace) <> EndCrash /\ snd (pc fuel inp trace) <> EndOutOfFuel.
  Proof.
    revert inp trace. induction fuel as [|f IH]; intros inp trace Hf; [lia|].
    unfold pc in *. cbn [process_conn].
    destruct (take 64 inp) as [[buf rest]| |] eqn:T; try (cbn; split; discriminate).
    apply take_ok in T. destruct T as [Lb [Lr Li]]. apply (f_equal (@Datatypes.length N)) in Li. rewrite app_length in Li.
    fold pp. pose proof (process_parse_no_crash buf rest) as NC.
    destruct (pp buf rest) as [ev rest'|[ev|] why|] eqn:P; try (cbn; split; discriminate); [|congruence].
    destruct (len rest' <=? len rest) eqn:C; [|cbn; split; discriminate].
    apply N.leb_le in C. apply IH. unfold len in *. lia.
  Qed.

  Theorem handle_conn_safe first_read inp :
    let r := handle_conn fx cap db_exists engine_lock engine_unlock call_handler command_handler text_session text_conn first_read inp in
    snd r <> EndCrash /\ snd r <> EndOutOfFuel.
  Proof.
    cbn zeta. unfold handle_conn.
    destruct (N.min (N.min first_read 64) (len inp) =? 0); [cbn; split; discriminate|].
    assert (TC : snd (match text_conn inp with Panic => ([] : list event, EndCrash) | _ => ([], EndClosed E_EOF) end) <> EndCrash /\
                 snd (match text_conn inp with Panic => ([] : list event, EndCrash) | _ => ([], EndClosed E_EOF) end) <> EndOutOfFuel).
    { pose proof (text_conn_safe inp). destruct (text_conn inp); cbn; split; try discriminate; congruence. }
    destruct (nth_error inp 0) as [a|]; auto.
    destruct (nth_error inp 1) as [b|]; auto.
    destruct ((a =? 86) && (b =? 1) && (N.min (N.min first_read 64) (len inp) =? 64)); auto.
    apply process_conn_safe. lia.
  Qed.
End DispatchProofs.

(* ------------------------------------------------------------------------------------------------ refutations for the unrepaired code *)
Definition ok_engine (_ : lockcmd) : outcome unit := Ok tt.
Definition ok_call (_ : callcmd) (_ : list N) : outcome unit := Ok tt.
Definition ok_command (_ : N) (_ : list N) : outcome unit := Ok tt.
Definition ok_text (inp : list N) : outcome (list N) := Ok [].
Definition ok_text_conn (_ : list N) : outcome unit := Ok tt.

(* LOCK frame with flag 0x20 (contains data); the data frame that follows declares length 0 *)
Definition witness_lock_frame : list N := [86; 1; 1] ++ repeat 0 16 ++ [32; 0] ++ repeat 0 43.
Definition witness_short_data : list N := [0; 0; 0; 0].

Lemma read_zero_frame cap : read_bytes_frame cap witness_short_data = Ok ([0; 0; 0; 0], []).
Proof.
  unfold read_bytes_frame, witness_short_data.
  change (take 4 [0; 0; 0; 0]) with (@Ok (list N * list N) ([0; 0; 0; 0], [])). cbn [bind].
  change (idx [0; 0; 0; 0] 0) with (@Ok N 0). change (idx [0; 0; 0; 0] 1) with (@Ok N 0).
  change (idx [0; 0; 0; 0] 2) with (@Ok N 0). change (idx [0; 0; 0; 0] 3) with (@Ok N 0). cbn [bind].
  change (le32 0 0 0 0) with 0.
  destruct (cap <? 0) eqn:E; [apply N.ltb_lt in E; lia|]. reflexivity.
Qed.
Lemma parse_short_data_panics fx cap : fx_short_frame fx = false -> parse_lock_data fx cap witness_short_data = Panic.
Proof.
  intros F. unfold parse_lock_data. rewrite read_zero_frame. cbn [bind].
  rewrite new_lock_data_unfixed; auto. cbn. lia.
Qed.

(* one LOCK frame + a 4-byte data frame = 68 bytes kill the process in the unrepaired code, for every cap *)
Lemma short_frame_crashes fx cap dbe :
  fx_short_frame fx = false ->
  process_parse fx cap dbe ok_engine ok_engine ok_call ok_command ok_text witness_lock_frame witness_short_data = Crash.
Proof.
  intros F. pose proof (parse_short_data_panics fx cap F) as P.
  unfold process_parse, parse_lock_branch.
  change (len witness_lock_frame <? 64) with false. cbv iota.
  change (idx witness_lock_frame 0) with (@Ok N 86). change (idx witness_lock_frame 1) with (@Ok N 1).
  change (idx witness_lock_frame 2) with (@Ok N 1). cbn [lift_step].
  change (negb (86 =? 86)) with false. change (negb (1 =? 1)) with false. change (1 =? 1) with true. cbv iota.
  set (dl := decode_lock witness_lock_frame). vm_compute in dl. subst dl. cbn [lift_step c_flag].
  change (has 32 32) with true. cbv iota. rewrite P. reflexivity.
Qed.

Lemma process_conn_crash fx cap dbe el eu ch cm ts f inp tr buf rest :
  take 64 inp = Ok (buf, rest) -> process_parse fx cap dbe el eu ch cm ts buf rest = Crash ->
  snd (process_conn fx cap dbe el eu ch cm ts (S f) inp tr) = EndCrash.
Proof. intros T P. cbn [process_conn]. rewrite T, P. reflexivity. Qed.

(* EXECUTE frame with the property flag and no room for the property length *)
Definition witness_cmd_offset : lcd := {| d_data := [2; 0; 0; 0; 5; 16]; d_stage := 0; d_type := 5; d_flag := 16 |}.
Lemma cmd_offset_panics fx : fx_cmd_offset fx = false -> decode_lock_command fx witness_cmd_offset = Panic.
Proof. intros F. unfold decode_lock_command, value_offset. rewrite F. reflexivity. Qed.

(* EXECUTE frame whose embedded command carries a 1-byte data frame *)
Definition witness_embedded_short : lcd :=
  {| d_data := [71; 0; 0; 0; 5; 0] ++ ([86; 1; 1] ++ repeat 0 16 ++ [32; 0] ++ repeat 0 43) ++ [1; 0; 0; 0; 9];
     d_stage := 0; d_type := 5; d_flag := 0 |}.
Lemma embedded_short_panics fx : fx_short_frame fx = false -> decode_lock_command fx witness_embedded_short = Panic.
Proof. intros F. destruct fx as [a b c]; cbn in F; subst a. destruct b, c; vm_compute; reflexivity. Qed.

Lemma call_dbs_index_fixed fx ndbs dbid : fx_call_dbid fx = true -> call_dbs_index fx ndbs dbid <> Panic.
Proof.
  intros F. unfold call_dbs_index. rewrite F. cbn [andb].
  destruct (ndbs <=? dbid) eqn:H; [discriminate|]. apply N.leb_gt in H.
  replace (dbid <? ndbs) with true by (symmetry; apply N.ltb_lt; auto). discriminate.
Qed.
Lemma call_dbs_index_unfixed fx ndbs dbid : fx_call_dbid fx = false -> ndbs <= dbid -> call_dbs_index fx ndbs dbid = Panic.
Proof.
  intros F H. unfold call_dbs_index. rewrite F. cbn [andb].
  replace (dbid <? ndbs) with false by (symmetry; apply N.ltb_ge; auto). reflexivity.
Qed.

(* ------------------------------------------------------------------------------------------------ frame rule for connections *)
Section Isolation.
  Variable fx : fixes.
  Variable cap : N.
  Variable db_exists : N -> bool.
  Variable engine_lock engine_unlock : lockcmd -> outcome unit.
  Variable call_handler : callcmd -> list N -> outcome unit.
  Variable command_handler : N -> list N -> outcome unit.
  Variable text_session : list N -> outcome (list N).

  (* one scheduling step of connection c: it parses its next frame; Closed removes the connection; a crash is
     reported separately (second component) because it ends every connection at once *)
  Definition conn_step (s : conns) (c : N) : conns * bool :=
    match cget s c with
    | None => (s, false)
    | Some (inp, tr) =>
      match take 64 inp with
      | Ok (buf, rest) =>
        match process_parse fx cap db_exists engine_lock engine_unlock call_handler command_handler text_session buf rest with
        | Continue ev rest' => (cset s c (rest', tr ++ [ev]), false)
        | Closed _ _ => (cdel s c, false)
        | Crash => (s, true)
        end
      | _ => (cdel s c, false)
      end
    end.

  Lemma cget_cset_other s c c' v : c <> c' -> cget (cset s c v) c' = cget s c'.
  Proof.
    intros H. induction s as [|[k w] r IH]; cbn.
    - destruct (c =? c') eqn:E; auto. apply N.eqb_eq in E. congruence.
    - destruct (k =? c) eqn:E; cbn.
      + apply N.eqb_eq in E. subst k. destruct (c =? c') eqn:E2; auto. apply N.eqb_eq in E2. congruence.
      + destruct (k =? c'); auto.
  Qed.
  Lemma cget_cdel_other s c c' : c <> c' -> cget (cdel s c) c' = cget s c'.
  Proof.
    intros H. induction s as [|[k w] r IH]; cbn; auto.
    destruct (k =? c) eqn:E; cbn.
    - apply N.eqb_eq in E. subst k. rewrite IH. destruct (c =? c') eqn:E2; auto. apply N.eqb_eq in E2. congruence.
    - destruct (k =? c'); auto.
  Qed.

  (* whatever connection c sends — malformed or not, error reply or close — the parser state (unread input, events)
     of every other connection is untouched *)
  Theorem conn_step_frame s c c' : c <> c' -> cget (fst (conn_step s c)) c' = cget s c'.
  Proof.
    intros H. unfold conn_step. destruct (cget s c) as [[inp tr]|]; auto.
    destruct (take 64 inp) as [[buf rest]| |]; cbn [fst]; try (apply cget_cdel_other; auto).
    destruct (process_parse _ _ _ _ _ _ _ _ buf rest); cbn [fst]; auto.
    - apply cget_cset_other; auto.
    - apply cget_cdel_other; auto.
  Qed.
End Isolation.

(* ================================================================================================ text converters *)
Lemma arg_lt a i : i < alen a -> exists v, arg a i = Ok v.
Proof.
  unfold arg, alen. intros H. destruct (nth_error a (N.to_nat i)) eqn:E; eauto.
  apply nth_error_None in E. lia.
Qed.
Lemma arg_ge a i : alen a <= i -> arg a i = Panic.
Proof.
  unfold arg, alen. intros H. destruct (nth_error a (N.to_nat i)) eqn:E; auto.
  assert (nth_error a (N.to_nat i) <> None) by congruence. apply nth_error_Some in H0. lia.
Qed.
Lemma from_le a i : i <= alen a -> exists r, from a i = Ok r.
Proof. unfold from. intros H. replace (i <=? alen a) with true by (symmetry; apply N.leb_le; auto). eauto. Qed.

Ltac ok_arg a i :=
  let v := fresh "w" in let E := fresh "E" in
  destruct (arg_lt a i) as [v E]; [lia | rewrite E; cbn [bind]].

(* ConvertArgs2Flag with the i+1 test never indexes outside args *)
Lemma args2flag_fixed fx fuel a i c : fx_args2flag fx = true -> args2flag fx fuel a i c <> Panic.
Proof.
  intros F. revert i c. induction fuel as [|f IH]; intros i c; cbn [args2flag]; [discriminate|].
  destruct (alen a <=? i) eqn:H; [discriminate|]. apply N.leb_gt in H.
  ok_arg a i. rewrite F.
  repeat match goal with
  | |- (if is ?w ?k then _ else _) <> Panic => destruct (is w k)
  end; try apply IH;
  (destruct (alen a <=? i + 1) eqn:H1; [discriminate|]; apply N.leb_gt in H1;
   ok_arg a (i + 1); destruct (parse_int _); [|discriminate];
   first [ destruct (sec_time _) as [e m]; destruct m; apply IH
         | destruct (msec_time_px _) as [e m]; apply IH
         | destruct (msec_time _) as [e m]; apply IH ]).
Qed.
Lemma conv_flags_fixed fx a c : fx_args2flag fx = true -> conv_flags fx a c <> Panic.
Proof. intros; apply args2flag_fixed; auto. Qed.

Ltac flags_tail fx a k c :=
  match goal with
  | |- context [if ?n <? alen a then _ else _] =>
      let H := fresh "H" in destruct (n <? alen a) eqn:H;
      [ apply N.ltb_lt in H;
        let r := fresh "r" in let E := fresh "E" in
        destruct (from_le a k) as [r E]; [lia | rewrite E; cbn [bind]];
        let CF := fresh "CF" in
        destruct (conv_flags fx r c) eqn:CF; cbn [bind]; try discriminate;
        exfalso; eapply conv_flags_fixed; eauto
      | cbn [bind]; try discriminate ]
  end.

Section ConverterProofs.
  Variable fx : tfixes.
  Variable proto_timeout : N.
  Variable now_s now_ms : Z.
  Hypothesis F1 : fx_args2flag fx = true.
  Hypothesis F2 : fx_setex_args fx = true.

  Lemma conv_del_total a : conv_del a <> Panic.
  Proof. unfold conv_del. destruct (alen a <? 2) eqn:H; [discriminate|]. apply N.ltb_ge in H. ok_arg a 1. discriminate. Qed.
  Lemma conv_read_total a : conv_read a <> Panic.
  Proof. unfold conv_read. destruct (alen a <? 2) eqn:H; [discriminate|]. apply N.ltb_ge in H. ok_arg a 1. discriminate. Qed.

  Lemma conv_set_total a : conv_set fx proto_timeout a <> Panic.
  Proof.
    unfold conv_set. destruct (alen a <? 3) eqn:H; [discriminate|]. apply N.ltb_ge in H.
    ok_arg a 1. ok_arg a 2.
    match goal with |- context [conv_flags fx _ ?c] => flags_tail fx a 3 c end.
  Qed.
  Lemma conv_setnx_total a : conv_setnx fx proto_timeout a <> Panic.
  Proof.
    unfold conv_setnx. destruct (alen a <? 3) eqn:H; [discriminate|]. apply N.ltb_ge in H.
    ok_arg a 1. ok_arg a 2.
    match goal with |- context [conv_flags fx _ ?c] => flags_tail fx a 3 c end.
  Qed.
  Lemma conv_append_total a : conv_append fx a <> Panic.
  Proof.
    unfold conv_append. destruct (alen a <? 3) eqn:H; [discriminate|]. apply N.ltb_ge in H.
    ok_arg a 1. ok_arg a 2.
    match goal with |- context [conv_flags fx _ ?c] => flags_tail fx a 3 c end.
  Qed.
  Lemma conv_setex_total a : conv_setex fx a <> Panic.
  Proof.
    unfold conv_setex. rewrite F2. destruct (alen a <? 4) eqn:H; [discriminate|]. apply N.ltb_ge in H.
    ok_arg a 1. ok_arg a 3. ok_arg a 2. destruct (parse_int w1); [|discriminate]. ok_arg a 0.
    match goal with |- context [conv_flags fx _ ?c] => flags_tail fx a 4 c end.
  Qed.
  Lemma conv_incr_total neg a : conv_incr fx neg a <> Panic.
  Proof.
    unfold conv_incr. destruct (alen a <? 2) eqn:H; [discriminate|]. apply N.ltb_ge in H.
    ok_arg a 1. destruct (2 <? alen a) eqn:H2.
    - apply N.ltb_lt in H2. ok_arg a 2. destruct (parse_int w0); cbn [bind]; [|discriminate].
      match goal with |- context [conv_flags fx _ ?c] => flags_tail fx a 4 c end.
    - cbn [bind]. match goal with |- context [conv_flags fx _ ?c] => flags_tail fx a 3 c end.
  Qed.
  Lemma conv_expire_total a : conv_expire now_s now_ms a <> Panic.
  Proof.
    unfold conv_expire. cbv zeta.
    destruct ((alen a <? 3) && negb ((alen a =? 2) && match arg a 0 with Ok n0 => is (upper n0) "PERSIST" | _ => false end)) eqn:H; [discriminate|].
    assert (H2 : 2 <= alen a).
    { apply andb_false_iff in H. destruct H as [H|H]; [apply N.ltb_ge in H; lia|].
      apply negb_false_iff in H. apply andb_prop in H. destruct H as [H _]. apply N.eqb_eq in H. lia. }
    clear H. ok_arg a 1.
    destruct (2 <? alen a) eqn:H3.
    - apply N.ltb_lt in H3. ok_arg a 2. destruct (parse_int w0); [|discriminate]. ok_arg a 0. discriminate.
    - cbn [bind]. destruct (parse_int [48]); [|discriminate]. ok_arg a 0. discriminate.
  Qed.

  (* ConvertTextKeyOperateValueCommand for every argument list the handler can be called with: the text protocol
     calls a handler only for a command name found in its table, and the name IS args[0], so args is not empty *)
  Theorem convert_total a : a <> [] -> convert fx proto_timeout now_s now_ms a <> Panic.
  Proof.
    intros NE. unfold convert.
    assert (0 < alen a) by (destruct a; [congruence | unfold alen; cbn; lia]).
    ok_arg a 0.
    repeat match goal with
    | |- (if ?b then _ else _) <> Panic => destruct b
    end;
    first [ apply conv_del_total | apply conv_set_total | apply conv_setex_total | apply conv_setnx_total
          | apply conv_append_total | apply conv_incr_total | apply conv_expire_total | apply conv_read_total | discriminate ].
  Qed.
End ConverterProofs.

(* refutations for the unrepaired converters *)
Definition A (l : list string) : args := map bytes_of l.
Lemma args2flag_unfixed fx pt ns nms : fx_args2flag fx = false ->
  convert fx pt ns nms (A ["SET"; "k"; "v"; "EX"]%string) = Panic.
Proof. intros F. destruct fx as [a b c d]; cbn in F; subst a. destruct b, c, d; vm_compute; reflexivity. Qed.
Lemma setex_unfixed fx pt ns nms : fx_setex_args fx = false ->
  convert fx pt ns nms (A ["SETEX"; "k"; "10"]%string) = Panic.
Proof. intros F. destruct fx as [a b c d]; cbn in F; subst b. destruct a, c, d; vm_compute; reflexivity. Qed.

(* ------------------------------------------------------------------------------------------------ writers *)
Lemma write_lock_result_ok n r : r < n -> write_lock_result n r <> Panic.
Proof. unfold write_lock_result. intros H. replace (r <? n) with true by (symmetry; apply N.ltb_lt; auto). discriminate. Qed.
Lemma write_lock_result_panics n r : n <= r -> write_lock_result n r = Panic.
Proof. unfold write_lock_result. intros H. replace (r <? n) with false by (symmetry; apply N.ltb_ge; auto). reflexivity. Qed.

Lemma write_append_fixed fx r vs al : fx_append_nil fx = true -> write_append_result fx r vs al <> Panic.
Proof. intros F. unfold write_append_result. rewrite F. destruct (_ && _); [discriminate|]. destruct vs; discriminate. Qed.
Lemma write_append_unfixed fx al : fx_append_nil fx = false -> write_append_result fx 0 None al = Panic.
Proof. intros F. unfold write_append_result. rewrite F. reflexivity. Qed.

Lemma scan_loop_fixed fx re fuel a i : fx_scan_args fx = true -> scan_loop fx re fuel a i <> Panic.
Proof.
  intros F. revert i. induction fuel as [|f IH]; intros i; cbn [scan_loop]; [discriminate|].
  destruct (alen a <=? i) eqn:H; [discriminate|]. apply N.leb_gt in H. rewrite F. cbn [andb].
  destruct (alen a <=? i + 1) eqn:H1; [discriminate|]. apply N.leb_gt in H1.
  ok_arg a i. destruct (is (upper w) "MATCH").
  - ok_arg a (i + 1). destruct (re w0); [apply IH | discriminate].
  - destruct (is (upper w) "COUNT"); [|apply IH].
    ok_arg a (i + 1). destruct (parse_int w0); [apply IH | discriminate].
Qed.
Theorem scan_args_fixed fx re a : fx_scan_args fx = true -> scan_args fx re a <> Panic.
Proof.
  intros F. unfold scan_args. destruct (alen a <? 1); [discriminate|].
  destruct (2 <=? alen a) eqn:H; [|discriminate]. apply N.leb_le in H.
  ok_arg a 1. destruct (parse_int w); [|discriminate]. apply scan_loop_fixed; auto.
Qed.
Lemma scan_args_unfixed fx re : fx_scan_args fx = false -> scan_args fx re (A ["SCAN"; "0"; "MATCH"]%string) = Panic.
Proof. intros F. destruct fx as [a b c d]; cbn in F; subst d. destruct a, b, c; vm_compute; reflexivity. Qed.
