(* C13 — binary protocol layer of slock, executable model with PANICS AS VALUES.

   Modelled Go code (file:line of the pinned tree):
     server/stream.go:261-308     Stream.ReadBytesFrame            -> read_bytes_frame
     protocol/command.go:396-402  NewLockCommandDataFromOriginBytes -> new_lock_data        (switch fx_short_frame)
     protocol/command.go:629-643  LockCommandData.GetValueOffset    -> value_offset         (switch fx_cmd_offset)
     protocol/command.go:717-743  LockCommandData.DecodeLockCommand -> decode_lock_command
     protocol/command.go:768-800  LockCommand.Decode                -> decode_lock
     protocol/command.go:1515-1531 CallCommand.Decode               -> decode_call
     server/protocol.go:1129-1356 BinaryServerProtocol.ProcessParse -> process_parse
     server/protocol.go:1358-1364 ProcessParseLockData              -> parse_lock_data
     server/protocol.go:1765-1930 commandHandleList{Lock,Locked,Wait}Command: the dbs[request.DbId] index -> call_dbs_index (fx_call_dbid)
     server/protocol.go:1044-1107 BinaryServerProtocol.Process      -> process_conn (loop over 64-byte frames)
     server/server.go:211-254     Server.checkProtocol              -> handle_conn  (protocol sniffing on the FIRST read)

   Every Go index expression  b[i]  is [idx b i] and every slice expression  b[i:j]  is [slice b i j]; both yield
   Panic when Go would panic.  What is NOT modelled here is named by Section variables (lock engine incl. the value
   layer, text protocol, call handlers behind the dbs lookup): their no-panic statements are hypotheses that the
   integrator discharges with the theorems of coq/Data and coq/Text.

   The model is parameterised by [fixes]: booleans that checks/C13.py derives from the SOURCE TEXT of the tree under
   test on every run (coq/Proto/SrcFlags.v), so the same development describes the unrepaired and the repaired code. *)
From Coq Require Import List NArith Bool Lia.
Import ListNotations.
Local Open Scope N_scope.

(* ------------------------------------------------------------------------------------------------ outcomes *)
Inductive outcome (A : Type) : Type :=
| Ok (a : A)
| Err (why : N)      (* a Go `error` return; the numbers only serve the correspondence check *)
| Panic.             (* the Go runtime would panic: nothing recovers it in Server.handle *)
Arguments Ok {A} a.
Arguments Err {A} why.
Arguments Panic {A}.

Definition bind {A B} (o : outcome A) (f : A -> outcome B) : outcome B :=
  match o with Ok a => f a | Err e => Err e | Panic => Panic end.
Notation "'do' x <- o ; f" := (bind o (fun x => f)) (at level 200, x name, o at level 100, f at level 200).

Definition has (x m : N) : bool := negb (N.land x m =? 0).
Definition len {A} (l : list A) : N := N.of_nat (length l).

(* b[i] *)
Definition idx (b : list N) (i : N) : outcome N :=
  match nth_error b (N.to_nat i) with Some v => Ok v | None => Panic end.
(* b[i:j]  (for a slice whose capacity equals its length, which is the case for every buffer modelled here) *)
Definition slice (b : list N) (i j : N) : outcome (list N) :=
  if (i <=? j) && (j <=? len b) then Ok (firstn (N.to_nat (j - i)) (skipn (N.to_nat i) b)) else Panic.

Definition le16 (a b : N) : N := a + 256 * b.
Definition le32 (a b c d : N) : N := a + 256 * b + 65536 * c + 16777216 * d.
Definition le32_bytes (v : N) : list N := [v mod 256; (v / 256) mod 256; (v / 65536) mod 256; (v / 16777216) mod 256].

(* error numbers *)
Definition E_EOF := 1.          (* connection ended / read error *)
Definition E_OVERMAX := 2.      (* "read buf over max size error" / "ContentLen over max size error" *)
Definition E_SHORT := 3.        (* "command data too short" / "buf too short" *)
Definition E_MAGIC := 4.
Definition E_VERSION := 5.
Definition E_DATASIZE := 6.     (* "data size error" *)
Definition E_HANDLER := 7.      (* an engine / handler error return *)
Definition E_QUIT := 8.

(* ------------------------------------------------------------------------------------------------ source switches *)
Record fixes := {
  fx_short_frame : bool;   (* NewLockCommandDataFromOriginBytes: `if len(data) < 6 {` present *)
  fx_cmd_offset : bool;    (* LockCommandData.GetValueOffset: `len(self.Data) >= 8` and clamp present *)
  fx_call_dbid : bool      (* LIST_LOCK/LIST_LOCKED/LIST_WAIT: `request.DbId >= uint32(len(self.slock.dbs))` present *)
}.
Definition all_fixed (fx : fixes) : bool := fx_short_frame fx && fx_cmd_offset fx && fx_call_dbid fx.
Definition no_fixes : fixes := {| fx_short_frame := false; fx_cmd_offset := false; fx_call_dbid := false |}.
Definition all_fixes : fixes := {| fx_short_frame := true; fx_cmd_offset := true; fx_call_dbid := true |}.

(* ------------------------------------------------------------------------------------------------ value frames *)
Record lcd := { d_data : list N; d_stage : N; d_type : N; d_flag : N }.

(* protocol/command.go NewLockCommandDataFromOriginBytes.  PRECONDITION of the unrepaired code: 6 <= len data. *)
Definition new_lock_data (fx : fixes) (data : list N) : outcome lcd :=
  if fx_short_frame fx && (len data <? 6) then
    Ok {| d_data := data; d_stage := 1; d_type := 0; d_flag := 0 |}
  else
    do a <- idx data 4;
    do b <- idx data 5;
    Ok {| d_data := data; d_stage := a / 64; d_type := N.land a 63; d_flag := b |}.

(* LockCommandData.GetValueOffset *)
Definition value_offset (fx : fixes) (d : lcd) : outcome N :=
  if has (d_flag d) 16 then
    if fx_cmd_offset fx then
      if 8 <=? len (d_data d) then
        do a <- idx (d_data d) 6;
        do b <- idx (d_data d) 7;
        let off := le16 a b + 8 in
        Ok (if len (d_data d) <? off then len (d_data d) else off)
      else Ok 6
    else
      do a <- idx (d_data d) 6;
      do b <- idx (d_data d) 7;
      Ok (le16 a b + 8)
  else Ok 6.

(* ------------------------------------------------------------------------------------------------ 64-byte frames *)
Record lockcmd := {
  c_type : N; c_reqid : list N; c_flag : N; c_dbid : N; c_lockid : list N; c_lockkey : list N;
  c_timeout : N; c_tflag : N; c_expried : N; c_eflag : N; c_count : N; c_rcount : N;
  c_data : option lcd }.

(* LockCommand.Decode and the hand-inlined copy in ProcessParse (identical field layout) *)
Definition decode_lock (buf : list N) : outcome lockcmd :=
  if len buf <? 64 then Err E_SHORT else
  do ty <- idx buf 2;
  do rid <- slice buf 3 19;
  do fl <- idx buf 19;
  do db <- idx buf 20;
  do lid <- slice buf 21 37;
  do key <- slice buf 37 53;
  do t0 <- idx buf 53; do t1 <- idx buf 54; do t2 <- idx buf 55; do t3 <- idx buf 56;
  do e0 <- idx buf 57; do e1 <- idx buf 58; do e2 <- idx buf 59; do e3 <- idx buf 60;
  do c0 <- idx buf 61; do c1 <- idx buf 62; do rc <- idx buf 63;
  Ok {| c_type := ty; c_reqid := rid; c_flag := fl; c_dbid := db; c_lockid := lid; c_lockkey := key;
        c_timeout := le16 t0 t1; c_tflag := le16 t2 t3; c_expried := le16 e0 e1; c_eflag := le16 e2 e3;
        c_count := le16 c0 c1; c_rcount := rc; c_data := None |}.

Definition with_data (c : lockcmd) (d : option lcd) : lockcmd :=
  {| c_type := c_type c; c_reqid := c_reqid c; c_flag := c_flag c; c_dbid := c_dbid c; c_lockid := c_lockid c;
     c_lockkey := c_lockkey c; c_timeout := c_timeout c; c_tflag := c_tflag c; c_expried := c_expried c;
     c_eflag := c_eflag c; c_count := c_count c; c_rcount := c_rcount c; c_data := d |}.
Definition with_type (c : lockcmd) (t : N) : lockcmd :=
  {| c_type := t; c_reqid := c_reqid c; c_flag := c_flag c; c_dbid := c_dbid c; c_lockid := c_lockid c;
     c_lockkey := c_lockkey c; c_timeout := c_timeout c; c_tflag := c_tflag c; c_expried := c_expried c;
     c_eflag := c_eflag c; c_count := c_count c; c_rcount := c_rcount c; c_data := c_data c |}.

(* LockCommandData.DecodeLockCommand: the command embedded in an EXECUTE value frame.
   alloc = the size handed to make() BEFORE the length check (dataLen is client-chosen, up to 2^32-1). *)
Record embedded := { e_cmd : lockcmd; e_alloc : N }.
Definition decode_lock_command (fx : fixes) (d : lcd) : outcome embedded :=
  do off <- value_offset fx d;
  let data := d_data d in
  if len data <? off + 64 then Err E_DATASIZE else
  do fr <- slice data off (off + 64);
  do c <- decode_lock fr;
  if has (c_flag c) 32 then
    if len data <? off + 68 then Err E_DATASIZE else
    do l0 <- idx data (off + 64); do l1 <- idx data (off + 65); do l2 <- idx data (off + 66); do l3 <- idx data (off + 67);
    let dlen := le32 l0 l1 l2 l3 in
    if dlen =? 0 then Ok {| e_cmd := c; e_alloc := 4 |} else
    if len data <? off + dlen + 68 then Err E_DATASIZE else
    do body <- slice data (off + 68) (off + dlen + 68);
    do nd <- new_lock_data fx (le32_bytes dlen ++ body);
    Ok {| e_cmd := with_data c (Some nd); e_alloc := dlen + 4 |}
  else Ok {| e_cmd := c; e_alloc := 0 |}.

(* CallCommand.Decode (no length check of its own: the caller guarantees 64 bytes) *)
Record callcmd := { k_reqid : list N; k_flag : N; k_encoding : N; k_charset : N; k_contentlen : N; k_method : list N }.
Definition decode_call (buf : list N) : outcome callcmd :=
  do rid <- slice buf 3 19;
  do fl <- idx buf 19; do en <- idx buf 20; do ch <- idx buf 21;
  do l0 <- idx buf 22; do l1 <- idx buf 23; do l2 <- idx buf 24; do l3 <- idx buf 25;
  do name <- slice buf 26 64;
  Ok {| k_reqid := rid; k_flag := fl; k_encoding := en; k_charset := ch; k_contentlen := le32 l0 l1 l2 l3; k_method := name |}.

(* ------------------------------------------------------------------------------------------------ reading from the stream *)
(* The connection's remaining input is a byte list; an input that ends is the client closing (or a read error).
   ReadBytesFrame / ReadBytes / ReadBytesSize all are "exactly n bytes or an error", hence independent of the split
   into reads; only the protocol sniffing (handle_conn) looks at the size of one read. *)
Definition take (n : N) (inp : list N) : outcome (list N * list N) :=
  if len inp <? n then Err E_EOF else Ok (firstn (N.to_nat n) inp, skipn (N.to_nat n) inp).

(* Stream.ReadBytesFrame: 4-byte length; > cap is refused BEFORE anything is allocated; 0 returns the 4 bytes alone *)
Definition read_bytes_frame (cap : N) (inp : list N) : outcome (list N * list N) :=
  do hr <- take 4 inp;
  let '(h, rest) := hr in
  do b0 <- idx h 0; do b1 <- idx h 1; do b2 <- idx h 2; do b3 <- idx h 3;
  let flen := le32 b0 b1 b2 b3 in
  if cap <? flen then Err E_OVERMAX else
  if flen =? 0 then Ok (le32_bytes flen, rest) else
  do br <- take flen rest;
  let '(body, rest') := br in
  Ok (le32_bytes flen ++ body, rest').

(* ProcessParseLockData *)
Definition parse_lock_data (fx : fixes) (cap : N) (inp : list N) : outcome (lcd * list N) :=
  do fr <- read_bytes_frame cap inp;
  let '(buf, rest) := fr in
  do d <- new_lock_data fx buf;
  Ok (d, rest).

(* the dbs[request.DbId] lookup of the three LIST_* call handlers; dbid is the decoded protobuf uint32 *)
Definition call_dbs_index (fx : fixes) (ndbs dbid : N) : outcome bool :=
  if fx_call_dbid fx && (ndbs <=? dbid) then Ok false      (* UNKNOWN_DB reply *)
  else if dbid <? ndbs then Ok true else Panic.

(* ------------------------------------------------------------------------------------------------ dispatch *)
Inductive event :=
| EvReply (ctype result : N)          (* a 64-byte result frame with this result code was written by the protocol layer *)
| EvLock (c : lockcmd)                (* handed to LockDB.Lock *)
| EvUnlock (c : lockcmd)              (* handed to LockDB.UnLock *)
| EvWill (c : lockcmd)                (* queued in willCommands with CommandType rewritten to LOCK / UNLOCK *)
| EvCall (k : callcmd) (content : list N)
| EvCommand (ctype : N)               (* INIT STATE PING LEADER SUBSCRIBE, and unknown types (reply UNKNOWN_COMMAND) *)
| EvAdmin                             (* the connection continues in the text protocol *)
| EvQuit.

Inductive step :=
| Continue (ev : event) (rest : list N)       (* frame processed, connection goes on with the remaining input *)
| Closed (ev : option event) (why : N)        (* Process returns an error: this connection is closed, nothing else *)
| Crash.                                      (* panic in the connection goroutine = the server process dies *)

Section Dispatch.
  Variable fx : fixes.
  Variable cap : N.                                  (* CONTENT_DATA_MAX_LENGTH *)
  Variable db_exists : N -> bool.                    (* slock.dbs[id] != nil *)
  (* not modelled here: the lock engine incl. the value layer (coq/Data), the CALL handlers, the other commands,
     the text protocol after COMMAND_ADMIN.  true = returns an error (connection closed). *)
  Variable engine_lock : lockcmd -> outcome unit.
  Variable engine_unlock : lockcmd -> outcome unit.
  Variable call_handler : callcmd -> list N -> outcome unit.
  Variable command_handler : N -> list N -> outcome unit.
  Variable text_session : list N -> outcome (list N).        (* consumes input, returns what is left when it ends *)

  Definition lift_step {A} (o : outcome A) (k : A -> step) : step :=
    match o with Ok a => k a | Err e => Closed None e | Panic => Crash end.

  (* the LOCK / UNLOCK branch of ProcessParse *)
  Definition parse_lock_branch (buf rest : list N) (unlock : bool) : step :=
    lift_step (decode_lock buf) (fun c =>
    let k (c : lockcmd) (rest : list N) : step :=
      if c_dbid c =? 255 then Continue (EvReply (c_type c) 3) rest
      else if unlock && negb (db_exists (c_dbid c)) then Continue (EvReply (c_type c) 3) rest
      else lift_step ((if unlock then engine_unlock else engine_lock) c)
                     (fun _ => Continue (if unlock then EvUnlock c else EvLock c) rest) in
    if has (c_flag c) 32 then
      lift_step (parse_lock_data fx cap rest) (fun dr => k (with_data c (Some (fst dr))) (snd dr))
    else k c rest).

  Definition parse_will_branch (buf rest : list N) (ty : N) : step :=
    lift_step (decode_lock buf) (fun c =>
    if has (c_flag c) 32 then
      lift_step (parse_lock_data fx cap rest) (fun dr =>
        Continue (EvWill (with_type (with_data c (Some (fst dr))) (ty - 7))) (snd dr))
    else Continue (EvWill (with_type c (ty - 7))) rest).

  (* BinaryServerProtocol.ProcessParse on one 64-byte frame [buf]; [rest] = input after the frame *)
  Definition process_parse (buf rest : list N) : step :=
    if len buf <? 64 then Closed None E_SHORT else
    lift_step (idx buf 0) (fun m =>
    lift_step (idx buf 1) (fun v =>
    lift_step (idx buf 2) (fun ty =>
    if negb (m =? 86) then Closed (Some (EvReply ty 1)) E_MAGIC
    else if negb (v =? 1) then Closed (Some (EvReply ty 2)) E_VERSION
    else if ty =? 1 then parse_lock_branch buf rest false
    else if ty =? 2 then parse_lock_branch buf rest true
    else if ty =? 7 then
      lift_step (decode_call buf) (fun k =>
      if cap <? k_contentlen k then Closed None E_OVERMAX else
      lift_step (take (k_contentlen k) rest) (fun cr =>
      lift_step (call_handler k (fst cr)) (fun _ => Continue (EvCall k (fst cr)) (snd cr))))
    else if (ty =? 8) || (ty =? 9) then parse_will_branch buf rest ty
    else if ty =? 4 then
      lift_step (text_session rest) (fun rest' => Continue EvAdmin rest')
    else if ty =? 6 then Closed (Some EvQuit) E_QUIT
    else lift_step (command_handler ty buf) (fun _ => Continue (EvCommand ty) rest)))).

  (* BinaryServerProtocol.Process: frames until the input ends or a frame closes the connection.
     Every Continue consumed at least the 64 bytes of its frame, so [length inp] bounds the number of rounds. *)
  Inductive conn_end := EndClosed (why : N) | EndCrash | EndOutOfFuel.
  Fixpoint process_conn (fuel : nat) (inp : list N) (trace : list event) : list event * conn_end :=
    match fuel with
    | O => (trace, EndOutOfFuel)
    | S f =>
      match take 64 inp with
      | Ok (buf, rest) =>
        match process_parse buf rest with
        | Continue ev rest' =>
            if len rest' <=? len rest then process_conn f rest' (trace ++ [ev])
            else (trace ++ [ev], EndClosed E_HANDLER)      (* unreachable: handlers only consume *)
        | Closed (Some ev) why => (trace ++ [ev], EndClosed why)
        | Closed None why => (trace, EndClosed why)
        | Crash => (trace, EndCrash)
        end
      | _ => (trace, EndClosed E_EOF)
      end
    end.

  (* Server.checkProtocol + handle: the FIRST read decides the protocol.  first_read = number of bytes the first
     conn.Read delivered (a property of the split into reads, not of the bytes). *)
  Variable text_conn : list N -> outcome unit.
  Definition handle_conn (first_read : N) (inp : list N) : list event * conn_end :=
    let n := N.min (N.min first_read 64) (len inp) in
    if n =? 0 then ([], EndClosed E_EOF) else
    let text := match text_conn inp with Panic => ([], EndCrash) | _ => ([], EndClosed E_EOF) end in
    match nth_error inp 0, nth_error inp 1 with
    | Some a, Some b =>
        if (a =? 86) && (b =? 1) && (n =? 64) then process_conn (S (length inp)) inp [] else text
    | _, _ => text
    end.
End Dispatch.

(* ------------------------------------------------------------------------------------------------ connections are disjoint *)
(* Server state as far as this layer is concerned: per connection its unread input and the events it produced.
   A step of connection c rewrites only c's entry (frame rule); everything shared lives behind the engine
   variables above.  This is a property of the MODEL's shape; the implementation side of "other connections are
   unaffected" is what the second-connection probe of checks/C13.py observes on the real server. *)
Definition conns := list (N * (list N * list event)).
Fixpoint cget (s : conns) (c : N) : option (list N * list event) :=
  match s with [] => None | (c', v) :: r => if c' =? c then Some v else cget r c end.
Fixpoint cset (s : conns) (c : N) (v : list N * list event) : conns :=
  match s with
  | [] => [(c, v)]
  | (c', v') :: r => if c' =? c then (c, v) :: r else (c', v') :: cset r c v
  end.
Fixpoint cdel (s : conns) (c : N) : conns :=
  match s with [] => [] | (c', v) :: r => if c' =? c then cdel r c else (c', v) :: cdel r c end.
