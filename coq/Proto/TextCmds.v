(* C13 — Redis-style text command converters and text result writers, executable model with PANICS AS VALUES.

   Modelled Go code:
     protocol/textcommand.go:109-206  ConvertArgs2Flag                       -> args2flag        (switch fx_args2flag: i+1 / i+i)
     protocol/textcommand.go:438-444  ConvertTextKeyOperateValueCommand       -> convert
     protocol/textcommand.go:446-1002 ConvertText{Del,Set,SetNX,SetEX,GetSet,Append,Incr,Decr,Expire,Get,Strlen,Exists,Type,Dump}Command
                                      (argument-count and index handling, numeric conversions with explicit mod 2^16)
                                                                              -> conv_*           (switch fx_setex_args)
     protocol/textcommand.go:366-436  WriteTextLockAndUnLockCommandResult     -> write_lock_result (ERROR_MSG[Result])
     server/protocol.go:2168-2194,2286-2330 TextServerProtocol.WriteCommand / ProcessBuild -> write_lock_result (same lookup)
     protocol/textcommand.go:623-633  result writer of APPEND                 -> write_append_result (switch fx_append_nil)
     server/protocol.go:2949-3060     commandHandlerScanCommand, argument loop -> scan_args        (switch fx_scan_args)
   Every args[i] is [arg args i] (Panic when out of range).  strconv.ParseInt(s,10,64)/Atoi is [parse_int].
   Not modelled: MD5 / hex conversion of keys into 16-byte ids (ConvertArgId2LockId is total: every branch indexes
   below the length it has just tested), GenRequestId/GenLockId, the value frame built for Data (only its kind). *)
From Coq Require Import List NArith ZArith Bool Lia String Ascii.
From Slock Require Import Proto.Binary.
Import ListNotations.
Local Open Scope N_scope.

Definition bytes_of (s : string) : list N := map N_of_ascii (list_ascii_of_string s).
Definition upper1 (c : N) : N := if (97 <=? c) && (c <=? 122) then c - 32 else c.
Definition upper (s : list N) : list N := map upper1 s.                 (* strings.ToUpper on ASCII *)
Fixpoint beq (a b : list N) : bool :=
  match a, b with
  | [], [] => true
  | x :: a', y :: b' => (x =? y) && beq a' b'
  | _, _ => false
  end.
Definition is (s : list N) (k : string) : bool := beq s (bytes_of k).
Arguments is s k%string.

Definition args := list (list N).
Definition arg (a : args) (i : N) : outcome (list N) :=
  match nth_error a (N.to_nat i) with Some v => Ok v | None => Panic end.
Definition alen (a : args) : N := N.of_nat (List.length a).
(* a[i:]  with i <= len(a) (Go panics otherwise) *)
Definition from (a : args) (i : N) : outcome args :=
  if i <=? alen a then Ok (skipn (N.to_nat i) a) else Panic.

(* ------------------------------------------------------------------------------------------------ strconv.ParseInt(s, 10, 64) *)
Fixpoint digits (s : list N) (acc : Z) : option Z :=
  match s with
  | [] => Some acc
  | c :: r => if (48 <=? c) && (c <=? 57) then digits r (acc * 10 + Z.of_N (c - 48))%Z else None
  end.
Definition parse_int (s : list N) : option Z :=
  let '(neg, body) := match s with
                      | 43 :: r => (false, r)
                      | 45 :: r => (true, r)
                      | _ => (false, s)
                      end in
  match body with
  | [] => None
  | _ => match digits body 0%Z with
         | None => None
         | Some v => let v' := if neg then (- v)%Z else v in
                     if ((-9223372036854775808 <=? v') && (v' <=? 9223372036854775807))%Z then Some v' else None
         end
  end.

Definition u16 (z : Z) : N := Z.to_N (z mod 65536).      (* uint16(int64) *)
Definition u16add (a b : N) : N := (a + b) mod 65536.

(* ------------------------------------------------------------------------------------------------ source switches *)
Record tfixes := {
  fx_args2flag : bool;    (* ConvertArgs2Flag tests i+1 (not i+i) *)
  fx_setex_args : bool;   (* ConvertTextSetEXCommand requires 4 arguments *)
  fx_append_nil : bool;   (* APPEND result writer tests Data == nil *)
  fx_scan_args : bool     (* SCAN argument loop tests i+1 < len(args) *)
}.
Definition tall_fixed (fx : tfixes) : bool := fx_args2flag fx && fx_setex_args fx && fx_append_nil fx && fx_scan_args fx.
Definition tno_fixes : tfixes := {| fx_args2flag := false; fx_setex_args := false; fx_append_nil := false; fx_scan_args := false |}.
Definition tall_fixes : tfixes := {| fx_args2flag := true; fx_setex_args := true; fx_append_nil := true; fx_scan_args := true |}.

(* ------------------------------------------------------------------------------------------------ the command record built *)
Record tcmd := { t_type : N; t_flag : N; t_timeout : N; t_tflag : N; t_expried : N; t_eflag : N; t_datakind : N; t_newlockid : bool }.
(* t_datakind: 0 none, 1 SET+property, 2 INCR+property, 3 APPEND+property *)
Definition tcmd0 (dbtimeout : N) : tcmd :=
  {| t_type := 0; t_flag := 0; t_timeout := 0; t_tflag := 0; t_expried := 0; t_eflag := 0; t_datakind := 0; t_newlockid := false |}.
Definition set_type c v := {| t_type := v; t_flag := t_flag c; t_timeout := t_timeout c; t_tflag := t_tflag c; t_expried := t_expried c; t_eflag := t_eflag c; t_datakind := t_datakind c; t_newlockid := t_newlockid c |}.
Definition set_flag c v := {| t_type := t_type c; t_flag := v; t_timeout := t_timeout c; t_tflag := t_tflag c; t_expried := t_expried c; t_eflag := t_eflag c; t_datakind := t_datakind c; t_newlockid := t_newlockid c |}.
Definition set_timeout c v := {| t_type := t_type c; t_flag := t_flag c; t_timeout := v; t_tflag := t_tflag c; t_expried := t_expried c; t_eflag := t_eflag c; t_datakind := t_datakind c; t_newlockid := t_newlockid c |}.
Definition set_tflag c v := {| t_type := t_type c; t_flag := t_flag c; t_timeout := t_timeout c; t_tflag := v; t_expried := t_expried c; t_eflag := t_eflag c; t_datakind := t_datakind c; t_newlockid := t_newlockid c |}.
Definition set_expried c v := {| t_type := t_type c; t_flag := t_flag c; t_timeout := t_timeout c; t_tflag := t_tflag c; t_expried := v; t_eflag := t_eflag c; t_datakind := t_datakind c; t_newlockid := t_newlockid c |}.
Definition set_eflag c v := {| t_type := t_type c; t_flag := t_flag c; t_timeout := t_timeout c; t_tflag := t_tflag c; t_expried := t_expried c; t_eflag := v; t_datakind := t_datakind c; t_newlockid := t_newlockid c |}.
Definition set_datakind c v := {| t_type := t_type c; t_flag := t_flag c; t_timeout := t_timeout c; t_tflag := t_tflag c; t_expried := t_expried c; t_eflag := t_eflag c; t_datakind := v; t_newlockid := t_newlockid c |}.
Definition set_newlockid c := {| t_type := t_type c; t_flag := t_flag c; t_timeout := t_timeout c; t_tflag := t_tflag c; t_expried := t_expried c; t_eflag := t_eflag c; t_datakind := t_datakind c; t_newlockid := true |}.

(* error numbers of this file (the Go error strings) *)
Definition E_ARGCOUNT := 20.    (* "Command Parse Args Count Error" *)
Definition E_VALUE := 21.       (* "Command Parse EX|PX|TX Value Error", "... Increment Value Error" *)
Definition E_UNKNOWN := 22.     (* "unknown command" *)

(* seconds-style expiry: > 65535 switches to minutes *)
Definition sec_time (v : Z) : N * bool :=
  if (65535 <? v)%Z then ((if (Z.rem v 60 =? 0)%Z then u16 (Z.quot v 60) else u16add (u16 (Z.quot v 60)) 1), true)
  else (u16 v, false).
(* millisecond-style (PX of ConvertArgs2Flag): minute test is v % 60000 *)
Definition msec_time_px (v : Z) : N * N :=
  if (65535000 <? v)%Z then ((if (Z.rem v 60000 =? 0)%Z then u16 (Z.quot v 60000) else u16add (u16 (Z.quot v 60000)) 1), 64)
  else if (v <=? 3000)%Z then (u16 v, 1024) else (u16 v, 0).
(* millisecond-style (PTX, PSETEX, PEXPIRE, PEXPIREAT): minute test is (v/1000) % 60 *)
Definition msec_time (v : Z) : N * N :=
  if (65535000 <? v)%Z then ((if (Z.rem (Z.quot v 1000) 60 =? 0)%Z then u16 (Z.quot v 60000) else u16add (u16 (Z.quot v 60000)) 1), 64)
  else if (v <=? 3000)%Z then (u16 v, 1024) else (u16 v, 0).

(* ConvertArgs2Flag: `for i := 0; i < len(args); i++`, keywords with a value do a second i++ *)
Fixpoint args2flag (fx : tfixes) (fuel : nat) (a : args) (i : N) (c : tcmd) : outcome tcmd :=
  match fuel with
  | O => Ok c
  | S f =>
    if alen a <=? i then Ok c else
    do w <- arg a i;
    let w := upper w in
    let guard := if fx_args2flag fx then i + 1 else i + i in
    if is w "EX" then
      if alen a <=? guard then Err E_ARGCOUNT else
      do v <- arg a (i + 1);
      match parse_int v with
      | None => Err E_VALUE
      | Some z => let '(e, minute) := sec_time z in
                  args2flag fx f a (i + 2) (if minute then set_eflag (set_expried c e) (N.lor (t_eflag c) 64) else set_expried c e)
      end
    else if is w "PX" then
      if alen a <=? guard then Err E_ARGCOUNT else
      do v <- arg a (i + 1);
      match parse_int v with
      | None => Err E_VALUE
      | Some z => let '(e, fl) := msec_time_px z in
                  args2flag fx f a (i + 2) (set_eflag (set_expried c e) (N.lor (t_eflag c) fl))
      end
    else if is w "TX" then
      if alen a <=? guard then Err E_ARGCOUNT else
      do v <- arg a (i + 1);
      match parse_int v with
      | None => Err E_VALUE
      | Some z => let '(e, minute) := sec_time z in
                  args2flag fx f a (i + 2) (if minute then set_tflag (set_timeout c e) (N.lor (t_tflag c) 64) else set_timeout c e)
      end
    else if is w "PTX" then
      if alen a <=? guard then Err E_ARGCOUNT else
      do v <- arg a (i + 1);
      match parse_int v with
      | None => Err E_VALUE
      | Some z => let '(e, fl) := msec_time z in
                  args2flag fx f a (i + 2) (set_tflag (set_timeout c e) (N.lor (t_tflag c) fl))
      end
    else if is w "NX" then args2flag fx f a (i + 1) (set_newlockid (set_flag c 32))
    else if is w "XX" then args2flag fx f a (i + 1) (set_tflag c (N.lor (t_tflag c) 512))
    else if is w "ACK" then args2flag fx f a (i + 1) (set_tflag c (N.lor (t_tflag c) 4096))
    else if is w "NAOF" then args2flag fx f a (i + 1) (set_eflag c (N.lor (t_eflag c) 512))
    else args2flag fx f a (i + 1) c
  end.
Definition conv_flags (fx : tfixes) (a : args) (c : tcmd) : outcome tcmd := args2flag fx (S (List.length a)) a 0 c.

(* the expiry epilogue shared by SET (dflt 0x7fff) and SETNX/APPEND/INCR/DECR (dflt 0xffff) *)
Definition expiry_epilogue (dflt : N) (c : tcmd) : tcmd :=
  if (t_expried c =? 0) && (t_eflag c =? 0) then set_eflag (set_expried c dflt) (16384 + 256 + 8192)
  else if has (t_eflag c) 512 then set_eflag c (N.lor (t_eflag c) 8192)
  else set_eflag c (N.lor (t_eflag c) (256 + 8192)).

Section Converters.
  Variable fx : tfixes.
  Variable proto_timeout : N.      (* textProtocol.GetTimeout() *)
  Variable now_s now_ms : Z.       (* time.Now() for EXPIREAT / PEXPIREAT *)

  Definition conv_del (a : args) : outcome tcmd :=
    if alen a <? 2 then Err E_ARGCOUNT else
    do _k <- arg a 1;
    Ok (set_flag (set_type (tcmd0 0) 2) 1).

  Definition conv_set (a : args) : outcome tcmd :=
    if alen a <? 3 then Err E_ARGCOUNT else
    do _k <- arg a 1; do _v <- arg a 2;
    let c := set_datakind (set_flag (set_type (tcmd0 0) 1) 34) 1 in
    do c <- (if 3 <? alen a then (do r <- from a 3; conv_flags fx r c) else Ok c);
    let c := if negb (has (t_flag c) 2) && (t_timeout c =? 0) && (t_tflag c =? 0) then set_timeout c proto_timeout else c in
    Ok (expiry_epilogue 32767 c).

  Definition conv_setnx (a : args) : outcome tcmd :=
    if alen a <? 3 then Err E_ARGCOUNT else
    do _k <- arg a 1; do _v <- arg a 2;
    let c := set_timeout (set_newlockid (set_datakind (set_flag (set_type (tcmd0 0) 1) 32) 1)) proto_timeout in
    do c <- (if 3 <? alen a then (do r <- from a 3; conv_flags fx r c) else Ok c);
    Ok (expiry_epilogue 65535 c).

  Definition conv_setex (a : args) : outcome tcmd :=
    if alen a <? (if fx_setex_args fx then 4 else 3) then Err E_ARGCOUNT else
    do _k <- arg a 1;
    do _v <- arg a 3;                       (* args[3] is read before args[2] is parsed *)
    do s <- arg a 2;
    match parse_int s with
    | None => Err E_VALUE
    | Some z =>
      do n <- arg a 0;
      let c := set_datakind (set_flag (set_type (tcmd0 0) 1) 34) 1 in
      let c := if is (upper n) "PSETEX" then let '(e, fl) := msec_time z in set_eflag (set_expried c e) fl
               else let '(e, minute) := sec_time z in if minute then set_eflag (set_expried c e) 64 else set_expried c e in
      do c <- (if 4 <? alen a then (do r <- from a 4; conv_flags fx r c) else Ok c);
      Ok (if has (t_eflag c) 512 then set_eflag c (N.lor (t_eflag c) 8192) else set_eflag c (N.lor (t_eflag c) (256 + 8192)))
    end.

  Definition conv_append (a : args) : outcome tcmd :=
    if alen a <? 3 then Err E_ARGCOUNT else
    do _k <- arg a 1; do _v <- arg a 2;
    let c := set_datakind (set_flag (set_type (tcmd0 0) 1) 34) 3 in
    do c <- (if 3 <? alen a then (do r <- from a 3; conv_flags fx r c) else Ok c);
    Ok (expiry_epilogue 65535 c).

  Definition conv_incr (negate : bool) (a : args) : outcome tcmd :=
    if alen a <? 2 then Err E_ARGCOUNT else
    do _k <- arg a 1;
    let c := set_datakind (set_flag (set_type (tcmd0 0) 1) 34) 2 in
    do index <- (if 2 <? alen a then
                   (do s <- arg a 2; match parse_int s with None => Err E_VALUE | Some _ => Ok 4 end)
                 else Ok 3);
    do c <- (if index <? alen a then (do r <- from a index; conv_flags fx r c) else Ok c);
    Ok (expiry_epilogue 65535 c).

  (* PERSIST key takes no value (two arguments); every other name needs three *)
  Definition conv_expire (a : args) : outcome tcmd :=
    let persist2 := (alen a =? 2) && match arg a 0 with Ok n0 => is (upper n0) "PERSIST" | _ => false end in
    if (alen a <? 3) && negb persist2 then Err E_ARGCOUNT else
    do _k <- arg a 1;
    do s <- (if 2 <? alen a then arg a 2 else Ok [48]);        (* no third argument: the value is 0 *)
    match parse_int s with
    | None => Err E_VALUE
    | Some z =>
      do n <- arg a 0;
      let n := upper n in
      let c := set_flag (set_type (tcmd0 0) 1) 2 in
      let sec (z : Z) c := let '(e, minute) := sec_time z in if minute then set_eflag (set_expried c e) 64 else set_expried c e in
      let msec (z : Z) c := let '(e, fl) := msec_time z in set_eflag (set_expried c e) fl in
      let c := if is n "EXPIRE" then sec z c
               else if is n "EXPIREAT" then sec (z - now_s)%Z c
               else if is n "PEXPIRE" then msec z c
               else if is n "PEXPIREAT" then msec (z - now_ms)%Z c
               else if is n "PERSIST" then set_eflag (set_expried c 32767) 16384
               else c in
      Ok (set_eflag c (N.lor (t_eflag c) (256 + 8192)))
    end.

  Definition conv_read (a : args) : outcome tcmd :=          (* GET STRLEN EXISTS TYPE DUMP *)
    if alen a <? 2 then Err E_ARGCOUNT else
    do _k <- arg a 1;
    Ok (set_flag (set_type (tcmd0 0) 1) 1).

  (* ConvertTextKeyOperateValueCommand: FindHandler(strings.ToUpper(args[0])) *)
  Definition convert (a : args) : outcome tcmd :=
    do n <- arg a 0;
    let n := upper n in
    if is n "DEL" then conv_del a
    else if is n "SET" || is n "GETSET" then conv_set a
    else if is n "SETEX" || is n "PSETEX" then conv_setex a
    else if is n "SETNX" then conv_setnx a
    else if is n "APPEND" then conv_append a
    else if is n "INCR" || is n "INCRBY" then conv_incr false a
    else if is n "DECR" || is n "DECRBY" then conv_incr true a
    else if is n "EXPIRE" || is n "PEXPIREAT" || is n "PEXPIRE" || is n "PERSIST" then conv_expire a
    else if is n "GET" || is n "STRLEN" || is n "EXISTS" || is n "TYPE" || is n "DUMP" then conv_read a
    else Err E_UNKNOWN.
End Converters.

(* ------------------------------------------------------------------------------------------------ result writers *)
(* every writer that renders a LockResultCommand with its message: ERROR_MSG[lockResultCommand.Result] *)
Definition write_lock_result (len_error_msg : N) (result : N) : outcome unit :=
  if result <? len_error_msg then Ok tt else Panic.

(* APPEND: `lockCommandResult.Data.GetValueSize()+len(args[2])`; Data is nil when the key had no value.
   value_size = Some n when Data != nil *)
Definition write_append_result (fx : tfixes) (result : N) (value_size : option N) (arglen : N) : outcome N :=
  if negb (result =? 0) && negb (result =? 5) then Ok 0          (* "$-1" / "-ERR n" *)
  else match value_size with
       | Some n => Ok (n + arglen)
       | None => if fx_append_nil fx then Ok arglen else Panic
       end.

(* SCAN cursor [MATCH pattern] [COUNT n]: `for i := 2; i < len(args); i += 2 { switch upper(args[i]) {case "MATCH": args[i+1] ...` *)
Fixpoint scan_loop (fx : tfixes) (regexp_ok : list N -> bool) (fuel : nat) (a : args) (i : N) : outcome unit :=
  match fuel with
  | O => Ok tt
  | S f =>
    if alen a <=? i then Ok tt else
    if fx_scan_args fx && (alen a <=? i + 1) then Err E_ARGCOUNT else
    do w <- arg a i;
    let w := upper w in
    if is w "MATCH" then
      do p <- arg a (i + 1);
      if regexp_ok p then scan_loop fx regexp_ok f a (i + 2) else Err E_VALUE
    else if is w "COUNT" then
      do p <- arg a (i + 1);
      match parse_int p with None => Err E_VALUE | Some _ => scan_loop fx regexp_ok f a (i + 2) end
    else scan_loop fx regexp_ok f a (i + 2)
  end.
Definition scan_args (fx : tfixes) (regexp_ok : list N -> bool) (a : args) : outcome unit :=
  if alen a <? 1 then Err E_ARGCOUNT else
  if 2 <=? alen a then
    do s <- arg a 1;
    match parse_int s with
    | None => Err E_VALUE
    | Some _ => scan_loop fx regexp_ok (S (List.length a)) a 2
    end
  else Ok tt.
