(* Model switches for the repairs proposed in /verif/proposed_fixes/data_*.diff.
   Every boolean says "the corresponding guard is present in the Go source".
   checks/C15_data.py derives the values from the source text of $VERIF_REPO on every run
   and (re)writes coq/Data/FixFlags.v; the model (Data.v) follows the booleans. *)
Record fixes := {
  fx_short_frame  : bool;  (* protocol.NewLockCommandDataFromOriginBytes: len(data) < 6 guard            *)
  fx_cmd_offset   : bool;  (* protocol LockCommandData.GetValueOffset: len >= 8 guard + clamp to len   *)
  fx_val_offset   : bool;  (* server LockManagerData.GetValueOffset: clamp to len(self.data)           *)
  fx_shift        : bool;  (* ProcessLockData SHIFT: length clamped to the payload size                   *)
  fx_incr_nil     : bool;  (* ProcessLockData INCR: nil currentLockData guard                             *)
  fx_pipeline_len : bool;  (* ProcessLockData PIPELINE: index+4 > len(buf) guard                          *)
  fx_pop_bounds   : bool;  (* array element loops: i+4+valueLen > len(data) guard (POP and both recovers) *)
  fx_pipeline_fold: bool;  (* ProcessLockData PIPELINE: items are applied to the running value            *)
  fx_recover_nil  : bool   (* ProcessRecoverLockData: nil manager value / nil recoverValue / APPEND offset guards *)
}.

Definition no_fixes : fixes :=
  {| fx_short_frame := false; fx_cmd_offset := false; fx_val_offset := false; fx_shift := false;
     fx_incr_nil := false; fx_pipeline_len := false; fx_pop_bounds := false; fx_pipeline_fold := false;
     fx_recover_nil := false |}.

Definition all_fixes : fixes :=
  {| fx_short_frame := true; fx_cmd_offset := true; fx_val_offset := true; fx_shift := true;
     fx_incr_nil := true; fx_pipeline_len := true; fx_pop_bounds := true; fx_pipeline_fold := true;
     fx_recover_nil := true |}.
