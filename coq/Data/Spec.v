(* Spec.v -- the sequential interpreter for key values (property C15) and the client-side frame constructors.
   An abstract value is (flag byte, raw property header, payload); a key either has no value (None) or one.
   Stdlib only; independent of the byte surgery in Data.v (it only shares the list/number helpers). *)
From Coq Require Import List NArith ZArith Bool.
From Slock Require Import Data.Data.
Import ListNotations.
Open Scope N_scope.

Record absval := { a_flag : N;            (* value kind and flags: bit0 number, bit1 array, bit2 kv, bit4 has properties *)
                   a_hdr : list N;        (* raw property header (2 length bytes + properties), [] without properties *)
                   a_payload : list N }.

(* operations a client can attach to a lock / unlock request (protocol/command.go, the NewLockCommandData constructors) *)
Inductive op :=
| OSet (flag : N) (hdr payload : list N)      (* SetData / SetString / SetArray / SetKV (+WithProperty): value given *)
| OUnset (flag : N)
| OIncr (flag : N) (hdr : list N) (z : Z)     (* IncrData (+WithProperty): 8-byte little-endian two's complement *)
| OAppend (flag : N) (hdr payload : list N)
| OShift (n : N)
| OPush (flag : N) (hdr payload : list N)
| OPop (n : N)
| OPipeline (items : list op).

(* ---------------------------------------------------------------- array payloads: [le32 len ++ bytes]* *)
(* elements as POP sees them: zero-length elements are skipped; parsing stops at the first element that would run
   behind the payload and needs more than 4 remaining bytes to look at a length *)
Fixpoint elems (fuel : nat) (p : list N) : list (list N) :=
  match fuel with
  | O => []
  | S f =>
      if 4 <? len p then
        let vl := le_dec (firstn_n 4 p) in
        let body := skipn_n 4 p in
        if vl =? 0 then elems f body
        else if vl <=? len body then firstn_n vl body :: elems f (skipn_n vl body)
        else []
      else []
  end.
Definition array_elems (p : list N) : list (list N) := elems (S (List.length p)) p.
Definition array_enc (vs : list (list N)) : list N := flat_map (fun v => le32 (zlen v) ++ v) vs.

Definition number_of (payload : list N) : Z := wrap64 (Z.of_N (le_dec (firstn_n 8 payload))).
Definition array_flag (f : N) : N := N.lor (N.land f 248) 2.

(* ---------------------------------------------------------------- the interpreter *)
Fixpoint apply (v : option absval) (o : op) {struct o} : option absval :=
  match o with
  | OSet f h p => Some {| a_flag := f; a_hdr := h; a_payload := p |}
  | OUnset _ => None
  | OIncr f h z =>
      let total := match v with
                   | Some a => wrap64 (wrap64 z + number_of (a_payload a))
                   | None => wrap64 z
                   end in
      Some {| a_flag := N.lor f 1; a_hdr := h; a_payload := le64 total |}
  | OAppend f h p =>
      match v with
      | None => Some {| a_flag := f; a_hdr := h; a_payload := p |}
      | Some a => Some {| a_flag := a_flag a; a_hdr := a_hdr a; a_payload := a_payload a ++ p |}
      end
  | OShift n =>
      match v with
      | None => None
      | Some a => Some {| a_flag := a_flag a; a_hdr := a_hdr a; a_payload := skipn_n n (a_payload a) |}
      end
  | OPush f h p =>
      match v with
      | Some a =>
          if N.testbit (a_flag a) 1
          then Some {| a_flag := array_flag (a_flag a); a_hdr := a_hdr a; a_payload := a_payload a ++ le32 (zlen p) ++ p |}
          else Some {| a_flag := array_flag f; a_hdr := h; a_payload := le32 (zlen p) ++ p |}
      | None => Some {| a_flag := array_flag f; a_hdr := h; a_payload := le32 (zlen p) ++ p |}
      end
  | OPop n =>
      match v with
      | Some a =>
          if (0 <? n) && N.testbit (a_flag a) 1
          then Some {| a_flag := a_flag a; a_hdr := a_hdr a;
                       a_payload := array_enc (skipn_n n (array_elems (a_payload a))) |}
          else v
      | None => None
      end
  | OPipeline items => fold_left apply items v
  end.

(* ---------------------------------------------------------------- frames *)
(* [len prefix] [stage<<6 | type] [flag] [property header] [payload] *)
Definition mk_frame (typ flag : N) (hdr payload : list N) : list N :=
  le32 (2 + zlen hdr + zlen payload) ++ typ :: flag :: hdr ++ payload.

Fixpoint frame_of_op (o : op) : list N :=
  match o with
  | OSet f h p => mk_frame 0 f h p
  | OUnset f => mk_frame 1 f [] []
  | OIncr f h z => mk_frame 2 f h (le64 z)
  | OAppend f h p => mk_frame 3 f h p
  | OShift n => mk_frame 4 1 [] (le32 (Z.of_N n))
  | OPush f h p => mk_frame 7 f h p
  | OPop n => mk_frame 8 1 [] (le32 (Z.of_N n))
  | OPipeline items => mk_frame 6 0 [] (flat_map frame_of_op items)
  end.

(* the stored value frame of an abstract value *)
Definition enc (a : absval) : list N := mk_frame 0 (a_flag a) (a_hdr a) (a_payload a).

(* ---------------------------------------------------------------- well-formedness *)
(* property header consistent with the flag: absent, or [lo; hi] ++ props with |props| = lo + 256*hi *)
Definition hdr_ok (flag : N) (hdr : list N) : Prop :=
  if N.testbit flag 4
  then exists lo hi props, hdr = lo :: hi :: props /\ len props = lo + 256 * hi
  else hdr = [].

(* frames built by the constructors: the first-or-last request bit (bit 5) is handled by the gate
   (process_gate_ignored); here the operation is applied.  A PIPELINE body stays below 2^32 bytes. *)
Definition small (l : list N) : Prop := len l < 4294967296.
Fixpoint wf_op (o : op) : Prop :=
  match o with
  | OSet f h p | OAppend f h p | OPush f h p => N.testbit f 5 = false /\ hdr_ok f h
  | OUnset f => N.testbit f 5 = false
  | OIncr f h z => N.testbit f 5 = false /\ hdr_ok f h
  | OShift n | OPop n => n < 4294967296
  | OPipeline items => (fix all (l : list op) : Prop := match l with [] => True | x :: r => wf_op x /\ all r end) items
                       /\ small (flat_map frame_of_op items)
  end.

Definition wf_abs (a : absval) : Prop := hdr_ok (a_flag a) (a_hdr a).

(* abstraction of a stored value *)
Definition abs (fx : fixes) (cur : option mdata) : option absval :=
  match cur with
  | None => None
  | Some m =>
      if d_type m =? T_UNSET then None
      else let off := val_value_offset fx m in
           Some {| a_flag := nthd (d_bytes m) 5;
                   a_hdr := firstn_n (off - 6) (skipn_n 6 (d_bytes m));
                   a_payload := skipn_n off (d_bytes m) |}
  end.

(* stored values are frames of well-formed abstract values (or the UNSET marker) *)
Definition wf_cur (cur : option mdata) : Prop :=
  match cur with
  | None => True
  | Some m => d_type m = T_UNSET \/ exists a, wf_abs a /\ d_bytes m = enc a
  end.
