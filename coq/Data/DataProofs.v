(* DataProofs.v -- theorems about the value-operation model Data.v:
     - list/number helper facts
     - fuel: process_lcd never returns OutOfFuel when fuel > length of the frame
     - crash-freedom of the repaired semantics (all_fixes), with the invariant "stored value has >= 6 bytes"
     - refutations (concrete witnesses) for the unrepaired semantics (no_fixes)                                  *)
From Coq Require Import List NArith ZArith String Bool Lia.
From Slock Require Import Data.Data.
Import ListNotations.
Open Scope N_scope.

(* ------------------------------------------------------------------ helper facts *)
Lemma len_eq {A} (l : list A) : len l = N.of_nat (List.length l).
Proof. induction l; cbn [len List.length]; [reflexivity|]. rewrite IHl. lia. Qed.

Lemma len_app {A} (a b : list A) : len (a ++ b) = len a + len b.
Proof. rewrite !len_eq, app_length. lia. Qed.

Lemma len_cons {A} (x : A) l : len (x :: l) = 1 + len l.
Proof. cbn [len]. lia. Qed.

Lemma skipn_n_spec {A} (l : list A) : forall i, skipn_n i l = skipn (N.to_nat i) l.
Proof.
  induction l as [|x r IH]; intros i; cbn [skipn_n].
  - now rewrite skipn_nil.
  - destruct (N.eqb_spec i 0) as [->|H]; [reflexivity|].
    rewrite IH. replace (N.to_nat i) with (S (N.to_nat (N.pred i))) by lia. reflexivity.
Qed.

Lemma firstn_n_spec {A} (l : list A) : forall i, firstn_n i l = firstn (N.to_nat i) l.
Proof.
  induction l as [|x r IH]; intros i; cbn [firstn_n].
  - now rewrite firstn_nil.
  - destruct (N.eqb_spec i 0) as [->|H]; [reflexivity|].
    rewrite IH. replace (N.to_nat i) with (S (N.to_nat (N.pred i))) by lia. reflexivity.
Qed.

Lemma len_skipn_n {A} (l : list A) i : len (skipn_n i l) = len l - i.
Proof. rewrite skipn_n_spec, !len_eq, skipn_length. lia. Qed.

Lemma len_firstn_n {A} (l : list A) i : len (firstn_n i l) = N.min i (len l).
Proof. rewrite firstn_n_spec, !len_eq, firstn_length. lia. Qed.

Lemma length_skipn_n {A} (l : list A) i : List.length (skipn_n i l) = (List.length l - N.to_nat i)%nat.
Proof. now rewrite skipn_n_spec, skipn_length. Qed.

Lemma length_firstn_n_le {A} (l : list A) i : (List.length (firstn_n i l) <= List.length l)%nat.
Proof. rewrite firstn_n_spec, firstn_length. lia. Qed.

Lemma nth_n_spec {A} (l : list A) : forall i, nth_n l i = nth_error l (N.to_nat i).
Proof.
  induction l as [|x r IH]; intros i; cbn [nth_n].
  - now destruct (N.to_nat i).
  - destruct (N.eqb_spec i 0) as [->|H]; [reflexivity|].
    rewrite IH. replace (N.to_nat i) with (S (N.to_nat (N.pred i))) by lia. reflexivity.
Qed.

Lemma nth_n_none {A} (l : list A) i : nth_n l i = None <-> len l <= i.
Proof. rewrite nth_n_spec, nth_error_None, len_eq. lia. Qed.

Lemma nth_n_some {A} (l : list A) i : i < len l -> exists x, nth_n l i = Some x.
Proof.
  intros H. destruct (nth_n l i) eqn:E; [eauto|]. apply nth_n_none in E. lia.
Qed.

Lemma len_le_enc k z : len (le_enc k z) = N.of_nat k.
Proof. revert z. induction k; intros z; cbn [le_enc len]; [reflexivity|]. rewrite IHk. lia. Qed.
Lemma len_le32 z : len (le32 z) = 4. Proof. apply len_le_enc. Qed.
Lemma len_le64 z : len (le64 z) = 8. Proof. apply len_le_enc. Qed.

(* ------------------------------------------------------------------ classification of outcomes *)
Definition cur_ok (cur : option mdata) : Prop :=
  match cur with Some m => 6 <= len (d_bytes m) | None => True end.

(* "did not crash, did not run out of fuel, and the stored value keeps its 6-byte header" *)
Definition good (o : outcome res) : Prop :=
  match o with
  | Ok (c, _, _) => cur_ok c
  | Unsupported => True
  | Panic _ | OutOfFuel => False
  end.

(* a parsed frame either has its 6-byte header or is the placeholder the repaired parser returns for short frames *)
Definition lcd_ok (c : lcd) : Prop := 6 <= len (c_data c) \/ (c_stage c = 1 /\ c_type c = T_SET).

Lemma lcd_of_bytes_ok data cap :
  match lcd_of_bytes all_fixes data cap with
  | Ok c => lcd_ok c /\ c_data c = data
  | _ => False
  end.
Proof.
  unfold lcd_of_bytes, lcd_ok. destruct (nth_n data 4) eqn:E4, (nth_n data 5) eqn:E5; cbn; try (split; [right|]; auto; fail).
  split; [left|reflexivity].
  destruct (N.le_gt_cases 6 (len data)) as [H|H]; [exact H|].
  assert (len data <= 5) as H' by lia. apply nth_n_none in H'. congruence.
Qed.


Lemma gate_lcd_ok env c : lcd_ok c -> gate env c = true -> 6 <= len (c_data c).
Proof.
  intros [H|[Hs Ht]] G; [exact H|]. unfold gate in G. rewrite Hs, Ht in G. discriminate.
Qed.

Lemma cmd_value_offset_fixed c :
  6 <= len (c_data c) ->
  exists off, cmd_value_offset all_fixes c = Ok off /\ 6 <= off /\ off <= len (c_data c).
Proof.
  intros H. unfold cmd_value_offset. destruct (N.testbit (c_flag c) bit_property); [|exists 6; repeat split; lia].
  destruct (nth_n (c_data c) 6) as [b6|] eqn:E6; [destruct (nth_n (c_data c) 7) as [b7|] eqn:E7|]; cbn [fx_cmd_offset all_fixes andb].
  - destruct (N.ltb_spec (len (c_data c)) (b6 + 256 * b7 + 8)); eexists; (split; [reflexivity|]); lia.
  - exists 6; repeat split; lia.
  - exists 6; repeat split; lia.
Qed.

Lemma val_value_offset_ge6 fx m : 6 <= val_value_offset fx m.
Proof.
  unfold val_value_offset. destruct (len (d_bytes m) <? 8) eqn:E; [lia|].
  destruct (N.testbit _ _); [|lia]. apply N.ltb_ge in E.
  destruct (fx_val_offset fx && _); lia.
Qed.

Lemma val_value_offset_fixed m : 6 <= len (d_bytes m) -> val_value_offset all_fixes m <= len (d_bytes m).
Proof.
  intros H. unfold val_value_offset. destruct (len (d_bytes m) <? 8) eqn:E; [lia|].
  destruct (N.testbit _ _); [|lia]. cbn [fx_val_offset all_fixes andb].
  destruct (N.ltb_spec (len (d_bytes m)) (nthd (d_bytes m) 6 + 256 * nthd (d_bytes m) 7 + 8)); lia.
Qed.

Ltac lens := rewrite ?len_app, ?len_cons, ?len_le32, ?len_le64, ?len_firstn_n, ?len_skipn_n; cbn [len]; try lia.

(* ------------------------------------------------------------------ the operations, repaired semantics *)
Lemma op_set_good env c cur ld : 6 <= len (c_data c) -> cur_ok cur -> good (op_set env c cur ld).
Proof.
  intros Hc Hk. unfold op_set. destruct (update_shortcut env && _); cbn; auto.
Qed.

Lemma op_unset_good env c cur ld : cur_ok cur -> good (op_unset env c cur ld).
Proof.
  intros Hk. unfold op_unset. destruct cur as [m|]; cbn; auto.
  destruct (update_shortcut env && _); cbn; auto. lia.
Qed.

Lemma op_incr_good env c cur ld : 6 <= len (c_data c) -> cur_ok cur -> good (op_incr all_fixes env c cur ld).
Proof.
  intros Hc Hk. unfold op_incr.
  destruct (cmd_value_offset_fixed c Hc) as (off & -> & Ho1 & Ho2). cbn [bind].
  destruct (zlen (c_data c) - Z.of_N off =? 8)%Z.
  - cbn. lens.
  - destruct cur as [m|]; cbn [fx_incr_nil all_fixes].
    + destruct (val_value_offset all_fixes m <=? 6); cbn; unfold fresh_number; lens.
    + cbn. unfold fresh_number; lens.
Qed.

Lemma op_append_good env c cur ld : 6 <= len (c_data c) -> cur_ok cur -> good (op_append all_fixes env c cur ld).
Proof.
  intros Hc Hk. unfold op_append.
  destruct (cmd_value_offset_fixed c Hc) as (off & Eo & Ho1 & Ho2).
  assert (Hfresh : 6 <= len (firstn_n 4 (c_data c) ++ [0] ++ skipn_n 5 (c_data c))) by lens.
  destruct cur as [m|].
  - destruct (d_type m =? T_UNSET).
    + destruct (pe_recover env); rewrite ?Eo; cbn; exact Hfresh.
    + rewrite Eo. cbn [bind]. cbn in Hk.
      destruct (N.ltb_spec (len (c_data c)) off); [lia|]. destruct (N.ltb_spec (len (d_bytes m)) 6); [lia|].
      cbn. lens.
  - destruct (pe_recover env); rewrite ?Eo; cbn; exact Hfresh.
Qed.

Lemma op_shift_good env c cur ld : 6 <= len (c_data c) -> cur_ok cur -> good (op_shift all_fixes env c cur ld).
Proof.
  intros Hc Hk. unfold op_shift.
  destruct (cmd_value_offset_fixed c Hc) as (off & -> & Ho1 & Ho2). cbn [bind].
  destruct cur as [m|]; [|cbn; auto]. cbn [fx_shift all_fixes].
  set (lv0 := Z.of_N (cmd_u32_value c off)).
  destruct (negb (d_type m =? T_UNSET) && (0 <? Z.min lv0 (val_value_size all_fixes m))%Z) eqn:E; [|cbn; auto].
  apply andb_true_iff in E. destruct E as [_ E]. apply Z.ltb_lt in E.
  pose proof (val_value_offset_ge6 all_fixes m) as H6.
  unfold val_value_size, zlen in *.
  set (L := Z.of_N (len (d_bytes m))) in *. set (voff := val_value_offset all_fixes m) in *.
  destruct (Z.ltb_spec L (Z.of_N voff)); [lia|].
  destruct ((L - Z.min (Z.min lv0 (L - Z.of_N voff)) L <? 6)%Z || (L - Z.min (Z.min lv0 (L - Z.of_N voff)) L <? Z.of_N voff)%Z) eqn:E2.
  - apply orb_true_iff in E2. destruct E2 as [E2|E2]; apply Z.ltb_lt in E2; lia.
  - cbn. lens.
Qed.

Lemma op_push_good env c cur ld : 6 <= len (c_data c) -> cur_ok cur -> good (op_push all_fixes env c cur ld).
Proof.
  intros Hc Hk. unfold op_push.
  destruct (cmd_value_offset_fixed c Hc) as (off & -> & Ho1 & Ho2). cbn [bind].
  destruct (N.ltb_spec (len (c_data c)) off); [lia|].
  destruct cur as [m|]; [destruct (negb (d_type m =? T_UNSET) && val_is_array m)|]; cbn; lens.
Qed.

Lemma parse_elems_fixed fn : forall fuel rest n cap acc,
  n = len rest -> (List.length rest < fuel)%nat ->
  exists vs, parse_elems all_fixes fn fuel rest n cap acc = Ok vs.
Proof.
  induction fuel as [|fuel IH]; intros rest n cap acc Hn Hf; [lia|].
  cbn [parse_elems fx_pop_bounds all_fixes].
  destruct (N.ltb_spec 4 n); [|eauto].
  assert (Hl : (List.length (skipn_n 4 rest) < fuel)%nat).
  { rewrite length_skipn_n. rewrite len_eq in Hn. lia. }
  destruct (le_dec (firstn_n 4 rest) =? 0).
  - apply IH; [rewrite len_skipn_n; lia|exact Hl].
  - destruct (N.leb_spec (le_dec (firstn_n 4 rest)) (n - 4)); [|eauto].
    apply IH; [rewrite !len_skipn_n; lia|]. rewrite length_skipn_n. lia.
Qed.

Lemma val_elems_fixed fn m : exists vs, val_elems all_fixes fn m = Ok vs.
Proof. unfold val_elems. apply parse_elems_fixed; [reflexivity|lia]. Qed.

Lemma rebuild_array_fixed fn m vs :
  6 <= len (d_bytes m) -> exists d, rebuild_array all_fixes fn m vs = Ok d /\ 6 <= len d.
Proof.
  intros H. unfold rebuild_array, slice2.
  pose proof (val_value_offset_ge6 all_fixes m). pose proof (val_value_offset_fixed m H).
  set (voff := val_value_offset all_fixes m) in *.
  destruct (N.leb_spec 4 voff); [|lia]. destruct (N.leb_spec voff (len (d_bytes m) + len (d_cap m))); [|lia].
  cbn [andb]. destruct (N.leb_spec voff (len (d_bytes m))); [|lia].
  eexists; split; [reflexivity|]. lens.
Qed.

Lemma op_pop_good env c cur ld : 6 <= len (c_data c) -> cur_ok cur -> good (op_pop all_fixes env c cur ld).
Proof.
  intros Hc Hk. unfold op_pop.
  destruct (cmd_value_offset_fixed c Hc) as (off & -> & Ho1 & Ho2). cbn [bind].
  destruct cur as [m|]; [|cbn; auto].
  destruct (negb (d_type m =? T_UNSET) && (0 <? cmd_u32_value c off) && val_is_array m); [|cbn; auto].
  destruct (val_elems_fixed fn_pld m) as (vs & ->). cbn [bind].
  destruct (rebuild_array_fixed fn_pld m (skipn_n (N.min (cmd_u32_value c off) (len vs)) vs) Hk) as (d & -> & Hd).
  cbn. exact Hd.
Qed.

(* ------------------------------------------------------------------ PIPELINE loop and the whole of ProcessLockData *)
Lemma pipeline_finish_good env orig cur ld fr : cur_ok cur -> good (Ok (pipeline_finish env orig cur ld fr)).
Proof.
  intros H. unfold pipeline_finish. destruct cur as [m|]; cbn; auto.
  destruct (negb (d_isaof m) && _); cbn; auto.
Qed.

Lemma pipeline_loop_good rec env orig hdr ccap bound :
  cur_ok orig ->
  (forall ic cur ld, (List.length (c_data ic) <= bound)%nat -> lcd_ok ic -> cur_ok cur -> good (rec ic cur ld)) ->
  forall k buf n done cur ld,
    n = len buf -> (List.length buf < k)%nat -> (List.length buf <= bound)%nat -> cur_ok cur ->
    good (pipeline_loop all_fixes rec env orig hdr ccap k buf n done cur ld).
Proof.
  intros Horig Hrec. induction k as [|k IH]; intros buf n done cur ld Hn Hk Hb Hc; [lia|].
  cbn [pipeline_loop fx_pipeline_len fx_pipeline_fold all_fixes andb orb].
  destruct (n =? 0); [apply pipeline_finish_good; exact Hc|].
  destruct (N.ltb_spec n 4); [apply pipeline_finish_good; exact Hc|].
  destruct buf as [|b0 [|b1 [|b2 [|b3 r]]]]; try (cbn [len] in Hn; lia).
  set (dl := b0 + 256 * b1 + 65536 * b2 + 16777216 * b3).
  destruct (N.ltb_spec (n - 4) dl); [apply pipeline_finish_good; exact Hc|].
  pose proof (lcd_of_bytes_ok (firstn_n (4 + dl) (b0 :: b1 :: b2 :: b3 :: r)) (skipn_n dl r ++ ccap)) as Hl.
  destruct (lcd_of_bytes all_fixes _ _) as [ic| | |]; try contradiction. destruct Hl as [Hl1 Hl2].
  cbn [bind].
  assert (Hlen : (List.length (c_data ic) <= bound)%nat).
  { rewrite Hl2. pose proof (length_firstn_n_le (b0 :: b1 :: b2 :: b3 :: r) (4 + dl)). lia. }
  replace (if (c_type ic =? T_EXECUTE) || true then cur else orig) with cur by (now rewrite orb_true_r).
  pose proof (Hrec ic cur ld Hlen Hl1 Hc) as Hg.
  destruct (rec ic cur ld) as [[[cur2 ld2] item']| | |]; cbn [bind good] in *; auto.
  apply IH; auto.
  - rewrite len_skipn_n. rewrite !len_cons in Hn. lia.
  - rewrite length_skipn_n. cbn [List.length] in Hk. lia.
  - rewrite length_skipn_n. cbn [List.length] in Hb. lia.
Qed.

Theorem process_lcd_good env : forall fuel c cur ld,
  (List.length (c_data c) < fuel)%nat -> lcd_ok c -> cur_ok cur ->
  good (process_lcd all_fixes fuel env c cur ld).
Proof.
  induction fuel as [|fuel IH]; intros c cur ld Hf Hl Hc; [lia|].
  cbn [process_lcd].
  destruct (gate env c) eqn:G; cbn [negb]; [|exact Hc].
  pose proof (gate_lcd_ok env c Hl G) as H6.
  destruct (c_type c =? T_SET); [apply op_set_good; auto|].
  destruct (c_type c =? T_UNSET); [apply op_unset_good; auto|].
  destruct (c_type c =? T_INCR); [apply op_incr_good; auto|].
  destruct (c_type c =? T_APPEND); [apply op_append_good; auto|].
  destruct (c_type c =? T_SHIFT); [apply op_shift_good; auto|].
  destruct (c_type c =? T_EXECUTE); [exact I|].
  destruct (c_type c =? T_PIPELINE).
  - destruct (cmd_value_offset_fixed c H6) as (off & -> & Ho1 & Ho2). cbn [bind].
    destruct (N.ltb_spec (len (c_data c)) off); [lia|].
    apply pipeline_loop_good with (bound := List.length (skipn_n off (c_data c))); auto.
    intros ic cur' ld' Hb Hl' Hc'. apply IH; auto.
    rewrite length_skipn_n in Hb. rewrite len_eq in H6. lia.
  - destruct (c_type c =? T_PUSH); [apply op_push_good; auto|].
    destruct (c_type c =? T_POP); [apply op_pop_good; auto|]. exact Hc.
Qed.

(* Crash-freedom of ProcessLockData (incl. the parse of the frame) for ARBITRARY frames, repaired semantics. *)
Theorem process_lock_data_no_panic env frame cur ld :
  cur_ok cur -> good (process_lock_data_ex all_fixes env frame cur ld).
Proof.
  intros Hc. unfold process_lock_data_ex.
  pose proof (lcd_of_bytes_ok frame []) as Hl.
  destruct (lcd_of_bytes all_fixes frame []) as [c| | |]; try contradiction. destruct Hl as [Hl1 Hl2].
  cbn [bind]. apply process_lcd_good; auto. rewrite Hl2. lia.
Qed.

(* any sequence of frames, any per-request parameters: the value layer never crashes (repaired semantics) *)
Fixpoint run_frames (fx : fixes) (steps : list (pd_env * list N)) (cur : option mdata) (ld : option lockdata)
  : outcome (option mdata * option lockdata) :=
  match steps with
  | [] => Ok (cur, ld)
  | (env, frame) :: rest =>
      match process_lock_data_fx fx env frame cur ld with
      | Ok (cur', ld') => run_frames fx rest cur' ld'
      | Unsupported => Unsupported
      | Panic s => Panic s
      | OutOfFuel => OutOfFuel
      end
  end.

Theorem run_frames_no_panic : forall steps cur ld,
  cur_ok cur ->
  match run_frames all_fixes steps cur ld with
  | Ok (cur', _) => cur_ok cur'
  | Unsupported => True
  | Panic _ | OutOfFuel => False
  end.
Proof.
  induction steps as [|[env frame] rest IH]; intros cur ld Hc; cbn [run_frames]; [exact Hc|].
  unfold process_lock_data_fx.
  pose proof (process_lock_data_no_panic env frame cur ld Hc) as Hg.
  destruct (process_lock_data_ex all_fixes env frame cur ld) as [[[c l] f]| | |]; cbn [bind fst snd good] in *; auto.
  apply IH. exact Hg.
Qed.

(* ------------------------------------------------------------------ fuel (any variant of the source) *)
Lemma bind_nofuel {A B} (o : outcome A) (f : A -> outcome B) :
  o <> OutOfFuel -> (forall a, f a <> OutOfFuel) -> bind o f <> OutOfFuel.
Proof. destruct o; cbn; auto; discriminate. Qed.

Lemma cmd_value_offset_nofuel fx c : cmd_value_offset fx c <> OutOfFuel.
Proof.
  unfold cmd_value_offset. destruct (N.testbit _ _); [|discriminate].
  destruct (nth_n _ 6); [destruct (nth_n _ 7)|]; repeat match goal with |- context [if ?b then _ else _] => destruct b end; discriminate.
Qed.

Lemma cmd_value_offset_ge6 fx c off : cmd_value_offset fx c = Ok off -> 6 <= off.
Proof.
  unfold cmd_value_offset. destruct (N.testbit _ _); [|intros H; inversion H; lia].
  destruct (nth_n (c_data c) 6) as [b6|] eqn:E6; [destruct (nth_n (c_data c) 7) as [b7|] eqn:E7|].
  - destruct (fx_cmd_offset fx && _) eqn:E; intros H; inversion H; subst; [|lia].
    assert (7 < len (c_data c)); [|lia].
    destruct (N.lt_ge_cases 7 (len (c_data c))); [assumption|]. apply nth_n_none in H0. congruence.
  - destruct (fx_cmd_offset fx); intros H; inversion H; lia.
  - destruct (fx_cmd_offset fx); intros H; inversion H; lia.
Qed.

Lemma parse_elems_nofuel fx fn : forall fuel rest n cap acc,
  n = len rest -> (List.length rest < fuel)%nat -> parse_elems fx fn fuel rest n cap acc <> OutOfFuel.
Proof.
  induction fuel as [|fuel IH]; intros rest n cap acc Hn Hf; [lia|].
  cbn [parse_elems].
  destruct (N.ltb_spec 4 n); [|discriminate].
  assert (Hl : (List.length (skipn_n 4 rest) < fuel)%nat).
  { rewrite length_skipn_n. rewrite len_eq in Hn. lia. }
  destruct (le_dec (firstn_n 4 rest) =? 0).
  - apply IH; [rewrite len_skipn_n; lia|exact Hl].
  - destruct (N.leb_spec (le_dec (firstn_n 4 rest)) (n - 4)).
    + apply IH; [rewrite !len_skipn_n; lia|]. rewrite length_skipn_n. lia.
    + destruct (fx_pop_bounds fx); [discriminate|]. destruct (_ <=? _); discriminate.
Qed.

Lemma val_elems_nofuel fx fn m : val_elems fx fn m <> OutOfFuel.
Proof. unfold val_elems. apply parse_elems_nofuel; [reflexivity|lia]. Qed.

Lemma rebuild_array_nofuel fx fn m vs : rebuild_array fx fn m vs <> OutOfFuel.
Proof. unfold rebuild_array. destruct (slice2 _ _ _ _); discriminate. Qed.

Ltac nofuel :=
  repeat first
    [ discriminate
    | apply bind_nofuel; [first [apply cmd_value_offset_nofuel | apply val_elems_nofuel | apply rebuild_array_nofuel]|intros ?]
    | match goal with
      | |- context [match ?x with _ => _ end] => destruct x
      end ].

Lemma op_set_nofuel env c cur ld : op_set env c cur ld <> OutOfFuel.
Proof. unfold op_set. nofuel. Qed.
Lemma op_unset_nofuel env c cur ld : op_unset env c cur ld <> OutOfFuel.
Proof. unfold op_unset. nofuel. Qed.
Lemma op_incr_nofuel fx env c cur ld : op_incr fx env c cur ld <> OutOfFuel.
Proof. unfold op_incr. nofuel. Qed.
Lemma op_append_nofuel fx env c cur ld : op_append fx env c cur ld <> OutOfFuel.
Proof. unfold op_append. nofuel. Qed.
Lemma op_shift_nofuel fx env c cur ld : op_shift fx env c cur ld <> OutOfFuel.
Proof. unfold op_shift. nofuel. Qed.
Lemma op_push_nofuel fx env c cur ld : op_push fx env c cur ld <> OutOfFuel.
Proof. unfold op_push. nofuel. Qed.
Lemma op_pop_nofuel fx env c cur ld : op_pop fx env c cur ld <> OutOfFuel.
Proof. unfold op_pop. nofuel. Qed.

Lemma lcd_of_bytes_nofuel fx d cap : lcd_of_bytes fx d cap <> OutOfFuel.
Proof. unfold lcd_of_bytes. nofuel. Qed.

Lemma lcd_of_bytes_data fx d cap c : lcd_of_bytes fx d cap = Ok c -> c_data c = d.
Proof.
  unfold lcd_of_bytes. destruct (nth_n d 4), (nth_n d 5); try destruct (fx_short_frame fx); intros H; inversion H; reflexivity.
Qed.

Lemma pipeline_loop_nofuel fx rec env orig hdr ccap bound :
  (forall ic cur ld, (List.length (c_data ic) <= bound)%nat -> rec ic cur ld <> OutOfFuel) ->
  forall k buf n done cur ld,
    n = len buf -> (List.length buf < k)%nat -> (List.length buf <= bound)%nat ->
    pipeline_loop fx rec env orig hdr ccap k buf n done cur ld <> OutOfFuel.
Proof.
  intros Hrec. induction k as [|k IH]; intros buf n done cur ld Hn Hk Hb; [lia|].
  cbn [pipeline_loop].
  destruct (n =? 0); [discriminate|].
  destruct (fx_pipeline_len fx && (n <? 4)); [discriminate|].
  destruct buf as [|b0 [|b1 [|b2 [|b3 r]]]]; try discriminate.
  set (dl := b0 + 256 * b1 + 65536 * b2 + 16777216 * b3).
  destruct (N.ltb_spec (n - 4) dl); [discriminate|].
  destruct (lcd_of_bytes fx (firstn_n (4 + dl) (b0 :: b1 :: b2 :: b3 :: r)) (skipn_n dl r ++ ccap)) as [ic| | |] eqn:E;
    cbn [bind]; try discriminate.
  - apply lcd_of_bytes_data in E.
    assert (Hlen : (List.length (c_data ic) <= bound)%nat).
    { rewrite E. pose proof (length_firstn_n_le (b0 :: b1 :: b2 :: b3 :: r) (4 + dl)). lia. }
    match goal with |- context [rec ic ?ci ld] => pose proof (Hrec ic ci ld Hlen) as Hr; destruct (rec ic ci ld) as [[[cur2 ld2] item']| | |] end;
      cbn [bind]; try discriminate; try congruence.
    apply IH.
    + rewrite len_skipn_n. rewrite !len_cons in Hn. lia.
    + rewrite length_skipn_n. cbn [List.length] in Hk. lia.
    + rewrite length_skipn_n. cbn [List.length] in Hb. lia.
  - exfalso. eapply lcd_of_bytes_nofuel; eauto.
Qed.

(* fuel = S (length frame) always suffices: OutOfFuel is never a result of the top-level functions *)
Theorem process_lcd_fuel_ok fx env : forall fuel c cur ld,
  (List.length (c_data c) < fuel)%nat -> process_lcd fx fuel env c cur ld <> OutOfFuel.
Proof.
  induction fuel as [|fuel IH]; intros c cur ld Hf; [lia|].
  cbn [process_lcd].
  destruct (negb (gate env c)); [discriminate|].
  destruct (c_type c =? T_SET); [apply op_set_nofuel|].
  destruct (c_type c =? T_UNSET); [apply op_unset_nofuel|].
  destruct (c_type c =? T_INCR); [apply op_incr_nofuel|].
  destruct (c_type c =? T_APPEND); [apply op_append_nofuel|].
  destruct (c_type c =? T_SHIFT); [apply op_shift_nofuel|].
  destruct (c_type c =? T_EXECUTE); [discriminate|].
  destruct (c_type c =? T_PIPELINE).
  - destruct (cmd_value_offset fx c) as [off| | |] eqn:Eo; cbn [bind]; try discriminate.
    2: { exfalso. eapply cmd_value_offset_nofuel; eauto. }
    apply cmd_value_offset_ge6 in Eo.
    destruct (N.ltb_spec (len (c_data c)) off); [discriminate|].
    apply pipeline_loop_nofuel with (bound := List.length (skipn_n off (c_data c))); auto.
    intros ic cur' ld' Hb. apply IH.
    rewrite length_skipn_n in Hb. rewrite len_eq in *. lia.
  - destruct (c_type c =? T_PUSH); [apply op_push_nofuel|].
    destruct (c_type c =? T_POP); [apply op_pop_nofuel|]. discriminate.
Qed.

Theorem process_lock_data_fuel_ok fx env frame cur ld : process_lock_data_fx fx env frame cur ld <> OutOfFuel.
Proof.
  unfold process_lock_data_fx, process_lock_data_ex.
  apply bind_nofuel; [|intros; discriminate].
  destruct (lcd_of_bytes fx frame []) as [c| | |] eqn:E; cbn [bind]; try discriminate.
  - apply process_lcd_fuel_ok. apply lcd_of_bytes_data in E. rewrite E. lia.
  - exfalso. eapply lcd_of_bytes_nofuel; eauto.
Qed.


(* ------------------------------------------------------------------ refutations for the unrepaired semantics *)
(* Each lemma: as long as the named guard is absent from the source (whatever the other switches), the concrete
   witness crashes / computes the wrong value.  The same witnesses are replayed on the Go code (corpus/C15_data). *)
Definition env_plain (recov : bool) : pd_env :=
  {| pe_islock := true; pe_flag := 0; pe_eflag := 0; pe_expried := 10; pe_locked := 1; pe_waited := false; pe_recover := recov |}.

Ltac fx_cases fx H :=
  destruct fx; cbn in H; subst;
  repeat match goal with b : bool |- _ => destruct b end; vm_compute; try reflexivity.

(* value frames as a client builds them *)
Definition w_value (flag : N) (payload : list N) : mdata := mk_mdata (le32 (zlen payload + 2) ++ [0; flag] ++ payload) T_SET false.

Lemma Data_refuted_short_frame fx : fx_short_frame fx = false ->
  process_lock_data_fx fx (env_plain false) [0; 0; 0; 0] None None = Panic site_nlcd.
Proof. intros H. fx_cases fx H. Qed.

Lemma Data_refuted_short_item fx : fx_short_frame fx = false ->
  process_lock_data_fx fx (env_plain false) [7; 0; 0; 0; 6; 0; 1; 0; 0; 0; 0] None None = Panic site_nlcd.
Proof. intros H. fx_cases fx H. Qed.

Lemma Data_refuted_cmd_offset fx : fx_cmd_offset fx = false ->
  process_lock_data_fx fx (env_plain false) [4; 0; 0; 0; 7; 16; 128; 49] None None = Panic (site fn_pld "CMD-OFFSET")
  /\ process_lock_data_fx fx (env_plain false) [3; 0; 0; 0; 3; 16; 3] (Some (w_value 0 [97])) None = Panic site_cgvo.
Proof. intros H. split; fx_cases fx H. Qed.

Lemma Data_refuted_val_offset fx : fx_val_offset fx = false ->
  process_lock_data_fx fx (env_plain false) [6; 0; 0; 0; 8; 1; 1; 0; 0; 0]
    (Some (mk_mdata [8; 0; 0; 0; 0; 18; 255; 255; 1; 0; 0; 0] T_SET false)) None = Panic (site fn_pld "VAL-OFFSET").
Proof. intros H. fx_cases fx H. Qed.

(* SHIFT 4 on the 3-byte value "aaa" *)
Lemma Data_refuted_shift fx : fx_shift fx = false ->
  process_lock_data_fx fx (env_plain false) [6; 0; 0; 0; 4; 1; 4; 0; 0; 0] (Some (w_value 0 [97; 97; 97])) None
  = Panic (site fn_pld "SHIFT").
Proof. intros H. fx_cases fx H. Qed.

(* INCR with a 1-byte value on a key without value *)
Lemma Data_refuted_incr_nil fx : fx_incr_nil fx = false ->
  process_lock_data_fx fx (env_plain false) [3; 0; 0; 0; 2; 1; 5] None None = Panic site_vgvo.
Proof. intros H. fx_cases fx H. Qed.

Lemma Data_refuted_pipeline_len fx : fx_pipeline_len fx = false ->
  process_lock_data_fx fx (env_plain false) [3; 0; 0; 0; 6; 0; 168] None None = Panic (site fn_pld "PIPELINE-LEN").
Proof. intros H. fx_cases fx H. Qed.

(* POP 1 on a client-SET "array" whose only element claims 9 bytes but has 2 *)
Lemma Data_refuted_pop_bounds fx : fx_pop_bounds fx = false ->
  process_lock_data_fx fx (env_plain false) [6; 0; 0; 0; 8; 1; 1; 0; 0; 0] (Some (w_value 2 [9; 0; 0; 0; 97; 98])) None
  = Panic (site fn_pld "POP-BOUNDS").
Proof. intros H. fx_cases fx H. Qed.

(* constructor-built frames only: PUSH "a"; APPEND <bytes that look like a long element>; POP 1 *)
Lemma Data_refuted_pop_bounds_wf fx : fx_pop_bounds fx = false ->
  run_frames fx [ (env_plain false, [3; 0; 0; 0; 7; 0; 97]);
                  (env_plain false, [7; 0; 0; 0; 3; 0; 255; 255; 0; 0; 98]);
                  (env_plain false, [6; 0; 0; 0; 8; 1; 1; 0; 0; 0]) ] None None = Panic (site fn_pld "POP-BOUNDS").
Proof. intros H. fx_cases fx H. Qed.

(* the universal crash-freedom statement is false for the unrepaired semantics *)
Theorem Data_no_panic_refuted :
  exists env frame cur ld, cur_ok cur /\ is_panic (process_lock_data_fx no_fixes env frame cur ld) = true.
Proof. exists (env_plain false), [0; 0; 0; 0], None, None. split; [exact I|reflexivity]. Qed.

(* PIPELINE is not the left fold of its items: [SET "a"; APPEND "b"] on an empty key leaves "b" *)
Definition w_pipeline_ab : list N := [16; 0; 0; 0; 6; 0;  3; 0; 0; 0; 0; 0; 97;  3; 0; 0; 0; 3; 0; 98].
Lemma Data_refuted_pipeline_fold fx : fx_pipeline_fold fx = false ->
  (do r <- process_lock_data_fx fx (env_plain false) w_pipeline_ab None None; Ok (get_lock_data (fst r)))
    = Ok (Some [3; 0; 0; 0; 0; 0; 98])
  /\ (do r <- run_frames fx [(env_plain false, [3; 0; 0; 0; 0; 0; 97]); (env_plain false, [3; 0; 0; 0; 3; 0; 98])] None None;
      Ok (get_lock_data (fst r)))
    = Ok (Some [4; 0; 0; 0; 0; 0; 97; 98]).
Proof. intros H. split; fx_cases fx H. Qed.

(* with the repair the same pipeline computes the fold *)
Lemma Data_pipeline_fold_repaired_witness :
  (do r <- process_lock_data_fx all_fixes (env_plain false) w_pipeline_ab None None; Ok (get_lock_data (fst r)))
    = Ok (Some [4; 0; 0; 0; 0; 0; 97; 98]).
Proof. vm_compute. reflexivity. Qed.

(* recover after PIPELINE[INCR 1] (requireRecover) on the value "aa": recoverValue.(int64) on nil *)
Lemma Data_refuted_recover_nil_value fx : fx_recover_nil fx = false ->
  (do r <- process_lock_data_fx fx (env_plain true) [16; 0; 0; 0; 6; 0; 10; 0; 0; 0; 2; 1; 1; 0; 0; 0; 0; 0; 0; 0]
             (Some (w_value 0 [97; 97])) None;
   process_recover_lock_data_fx fx (fst r) (snd r)) = Panic (site fn_prld "RECOVER-NIL-VALUE").
Proof. intros H. fx_cases fx H. Qed.

(* recover does not restore the value (every variant of the source; relevant for C11) *)
Definition after_recover (fx : fixes) (frame : list N) (cur : option mdata) : outcome (option (list N)) :=
  do r <- process_lock_data_fx fx (env_plain true) frame cur None;
  do r2 <- process_recover_lock_data_fx fx (fst r) (snd r);
  Ok (get_lock_data (fst r2)).

Lemma Data_refuted_recover_incr fx :          (* INCR 1 on "abc" *)
  after_recover fx [10; 0; 0; 0; 2; 1; 1; 0; 0; 0; 0; 0; 0; 0] (Some (w_value 0 [97; 98; 99]))
  = Ok (Some [10; 0; 0; 0; 0; 1; 97; 98; 99; 0; 0; 0; 0; 0])
  /\ get_lock_data (Some (w_value 0 [97; 98; 99])) = Some [5; 0; 0; 0; 0; 0; 97; 98; 99].
Proof. split; [|reflexivity]. destruct fx; repeat match goal with b : bool |- _ => destruct b end; vm_compute; reflexivity. Qed.

Lemma Data_refuted_recover_push fx :          (* PUSH "b" over the non-array value "aa" *)
  after_recover fx [3; 0; 0; 0; 7; 0; 98] (Some (w_value 0 [97; 97]))
  = Ok (Some [7; 0; 0; 0; 0; 2; 1; 0; 0; 0; 98]).
Proof. destruct fx; repeat match goal with b : bool |- _ => destruct b end; vm_compute; reflexivity. Qed.

Lemma Data_refuted_recover_shift fx :         (* SHIFT 1 on a value with a property header (1 property, code 2, "x") and payload "ab" *)
  after_recover fx [6; 0; 0; 0; 4; 1; 1; 0; 0; 0]
    (Some (mk_mdata [10; 0; 0; 0; 0; 16; 4; 0; 2; 1; 0; 120; 97; 98] T_SET false))
  = Ok (Some [10; 0; 0; 0; 0; 16; 0; 0; 0; 0; 0; 0; 97; 98]).
Proof. destruct fx; repeat match goal with b : bool |- _ => destruct b end; vm_compute; reflexivity. Qed.

(* a frame that does not pass the stage / first-or-last gate leaves value and lock data untouched:
   get_lock_data is unchanged by the "ignored" path *)
Lemma process_gate_ignored fx fuel env c cur ld :
  gate env c = false -> process_lcd fx (S fuel) env c cur ld = Ok (cur, ld, c_data c).
Proof. intros H. cbn [process_lcd]. rewrite H. reflexivity. Qed.
