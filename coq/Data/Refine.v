(* Refine.v -- ProcessLockData (repaired semantics) refines the sequential interpreter Spec.apply on frames built
   by the client constructors. *)
From Coq Require Import List NArith ZArith String Bool Lia.
From Slock Require Import Data.Data Data.DataProofs Data.Spec.
Import ListNotations.
Open Scope N_scope.

(* ------------------------------------------------------------------ list facts *)
Lemma skipn_n_0 {A} (l : list A) : skipn_n 0 l = l.
Proof. destruct l; reflexivity. Qed.
Lemma firstn_n_0 {A} (l : list A) : firstn_n 0 l = [].
Proof. destruct l; reflexivity. Qed.
Lemma skipn_n_app_len {A} (a b : list A) : skipn_n (len a) (a ++ b) = b.
Proof. rewrite skipn_n_spec, len_eq, Nnat.Nat2N.id. apply skipn_app_exact || (rewrite skipn_app, skipn_all, Nat.sub_diag; reflexivity). Qed.
Lemma firstn_n_app_len {A} (a b : list A) : firstn_n (len a) (a ++ b) = a.
Proof. rewrite firstn_n_spec, len_eq, Nnat.Nat2N.id. rewrite firstn_app, firstn_all, Nat.sub_diag, firstn_O, app_nil_r. reflexivity. Qed.
Lemma skipn_n_cons {A} (x : A) l k : skipn_n (1 + k) (x :: l) = skipn_n k l.
Proof.
  cbn [skipn_n]. destruct (N.eqb_spec (1 + k) 0); [lia|]. replace (N.pred (1 + k)) with k by lia.
  destruct l; destruct (N.eqb_spec k 0); subst; reflexivity || (cbn [skipn_n]; reflexivity).
Qed.
Lemma skipn_n_6 {A} (a b c d e f : A) l k : skipn_n (6 + k) (a :: b :: c :: d :: e :: f :: l) = skipn_n k l.
Proof.
  replace (6 + k) with (1 + (1 + (1 + (1 + (1 + (1 + k)))))) by lia. now rewrite !skipn_n_cons.
Qed.
Lemma skipn_n_6' {A} (a b c d e f : A) l : skipn_n 6 (a :: b :: c :: d :: e :: f :: l) = l.
Proof. replace 6 with (6 + 0) by lia. rewrite skipn_n_6. apply skipn_n_0. Qed.
Lemma firstn_n_4 {A} (a b c d : A) l : firstn_n 4 (a :: b :: c :: d :: l) = [a; b; c; d].
Proof. cbn [firstn_n N.eqb N.pred Pos.pred_N Pos.pred_double]. now rewrite firstn_n_0. Qed.
Lemma skipn_n_all {A} (l : list A) k : len l <= k -> skipn_n k l = [].
Proof. intros H. rewrite skipn_n_spec. apply skipn_all2. rewrite len_eq in H. lia. Qed.
Lemma firstn_n_all {A} (l : list A) k : len l <= k -> firstn_n k l = l.
Proof. intros H. rewrite firstn_n_spec. apply firstn_all2. rewrite len_eq in H. lia. Qed.

(* ------------------------------------------------------------------ frames *)
Lemma mk_frame_shape typ flag hdr payload :
  exists b0 b1 b2 b3, mk_frame typ flag hdr payload = b0 :: b1 :: b2 :: b3 :: typ :: flag :: hdr ++ payload
                      /\ le32 (2 + zlen hdr + zlen payload) = [b0; b1; b2; b3].
Proof. unfold mk_frame. cbn [le32 le_enc]. do 4 eexists. split; reflexivity. Qed.

Lemma len_mk_frame typ flag hdr payload : len (mk_frame typ flag hdr payload) = 6 + len hdr + len payload.
Proof. unfold mk_frame. rewrite len_app, len_le32, !len_cons, len_app. lia. Qed.

(* the parsed command of a constructor-built frame *)
Definition lcd_of (typ flag : N) (hdr payload cap : list N) : lcd :=
  {| c_data := mk_frame typ flag hdr payload; c_cap := cap; c_stage := typ / 64; c_type := typ mod 64; c_flag := flag |}.

Lemma lcd_of_bytes_frame fx typ flag hdr payload cap :
  lcd_of_bytes fx (mk_frame typ flag hdr payload) cap = Ok (lcd_of typ flag hdr payload cap).
Proof.
  destruct (mk_frame_shape typ flag hdr payload) as (b0 & b1 & b2 & b3 & E & _).
  unfold lcd_of_bytes, lcd_of. rewrite E. reflexivity.
Qed.

Lemma cmd_offset_frame fx typ flag hdr payload cap :
  hdr_ok flag hdr -> cmd_value_offset fx (lcd_of typ flag hdr payload cap) = Ok (6 + len hdr).
Proof.
  intros H. unfold cmd_value_offset, hdr_ok in *. cbn [c_flag c_data lcd_of]. unfold bit_property.
  destruct (N.testbit flag 4).
  - destruct H as (lo & hi & props & -> & Hl).
    destruct (mk_frame_shape typ flag (lo :: hi :: props) payload) as (b0 & b1 & b2 & b3 & E & _).
    pose proof (len_mk_frame typ flag (lo :: hi :: props) payload) as HL.
    rewrite E in *. cbn [nth_n N.eqb N.pred Pos.pred_N Pos.pred_double app].
    rewrite ?len_cons, ?len_app in *. rewrite ?len_cons, ?len_app in *.
    match goal with |- context [?x <? ?y] => destruct (N.ltb_spec x y) end; [exfalso; lia|].
    rewrite andb_false_r. f_equal. lia.
  - subst hdr. cbn [len]. reflexivity.
Qed.

(* stored values *)
Lemma val_offset_enc fx a cap t aof :
  wf_abs a -> val_value_offset fx {| d_bytes := enc a; d_cap := cap; d_type := t; d_isaof := aof |} = 6 + len (a_hdr a).
Proof.
  intros H. unfold wf_abs, hdr_ok, val_value_offset, enc in *. cbn [d_bytes].
  destruct (mk_frame_shape 0 (a_flag a) (a_hdr a) (a_payload a)) as (b0 & b1 & b2 & b3 & E & _).
  pose proof (len_mk_frame 0 (a_flag a) (a_hdr a) (a_payload a)) as HL. rewrite E in *.
  unfold nthd. cbn [nth_n N.eqb N.pred Pos.pred_N Pos.pred_double]. unfold bit_property.
  destruct (N.testbit (a_flag a) 4).
  - destruct H as (lo & hi & props & Eh & Hl). rewrite Eh in *. cbn [app nth_n N.eqb N.pred Pos.pred_N Pos.pred_double].
    rewrite !len_cons in *. rewrite ?len_app, ?len_cons in *.
    repeat match goal with |- context [?x <? ?y] => destruct (N.ltb_spec x y) end;
      rewrite ?andb_false_r, ?andb_true_r; try lia.
  - rewrite H in *. cbn [len]. destruct (_ <? 8); lia.
Qed.

Lemma abs_enc fx a cap t aof :
  wf_abs a -> t <> T_UNSET -> abs fx (Some {| d_bytes := enc a; d_cap := cap; d_type := t; d_isaof := aof |}) = Some a.
Proof.
  intros H Ht. unfold abs. cbn [d_type]. destruct (N.eqb_spec t T_UNSET); [contradiction|].
  rewrite val_offset_enc by assumption. cbn [d_bytes]. unfold enc.
  destruct (mk_frame_shape 0 (a_flag a) (a_hdr a) (a_payload a)) as (b0 & b1 & b2 & b3 & E & _). rewrite E.
  rewrite skipn_n_6. replace (6 + len (a_hdr a) - 6) with (len (a_hdr a)) by lia.
  rewrite skipn_n_6'.
  rewrite firstn_n_app_len, skipn_n_app_len. unfold nthd. cbn [nth_n N.eqb N.pred Pos.pred_N Pos.pred_double].
  destruct a; reflexivity.
Qed.

Lemma wf_cur_abs fx cur : wf_cur cur ->
  match cur with
  | None => abs fx cur = None
  | Some m => (d_type m = T_UNSET /\ abs fx cur = None)
              \/ (d_type m <> T_UNSET /\ exists a, wf_abs a /\ d_bytes m = enc a /\ abs fx cur = Some a)
  end.
Proof.
  destruct cur as [m|]; [|reflexivity]. intros [Hu|(a & Ha & E)].
  - left. split; [assumption|]. unfold abs. rewrite Hu. reflexivity.
  - destruct (N.eq_dec (d_type m) T_UNSET) as [Hu|Hu].
    + left. split; [assumption|]. unfold abs. rewrite Hu. reflexivity.
    + right. split; [assumption|]. exists a. repeat split; try assumption.
      destruct m as [b c t i]. cbn [d_bytes d_type] in *. subst b. apply abs_enc; assumption.
Qed.
Lemma le_dec_le_enc k : forall z, Z.of_N (le_dec (le_enc k z)) = (z mod 256 ^ Z.of_nat k)%Z.
Proof.
  induction k as [|k IH]; intros z.
  - cbn. now rewrite Z.mod_1_r.
  - cbn [le_enc le_dec]. rewrite N2Z.inj_add, N2Z.inj_mul, IH, Z2N.id by (apply Z.mod_pos_bound; lia).
    rewrite Nat2Z.inj_succ, Z.pow_succ_r by lia.
    rewrite Z.rem_mul_r by lia. reflexivity.
Qed.
Lemma le_dec_le32 n : n < 4294967296 -> le_dec (le32 (Z.of_N n)) = n.
Proof.
  intros H. apply N2Z.inj. unfold le32. rewrite le_dec_le_enc. change (256 ^ Z.of_nat 4)%Z with 4294967296%Z.
  apply Z.mod_small. lia.
Qed.
Lemma wrap64_mod z : wrap64 (z mod two64) = wrap64 z.
Proof. unfold wrap64. rewrite Zplus_mod_idemp_l. reflexivity. Qed.
Lemma le_dec_le64 z : wrap64 (Z.of_N (le_dec (le64 z))) = wrap64 z.
Proof. unfold le64. rewrite le_dec_le_enc. change (256 ^ Z.of_nat 8)%Z with two64. apply wrap64_mod. Qed.

Lemma list_eqb_eq a : forall b, list_eqb a b = true -> a = b.
Proof.
  induction a as [|x a IH]; intros [|y b] H; cbn in H; try discriminate; [reflexivity|].
  apply andb_true_iff in H. destruct H as [H1 H2]. apply N.eqb_eq in H1. subst. f_equal. auto.
Qed.

Lemma skipn_n_app_add {A} (a b : list A) k : skipn_n (len a + k) (a ++ b) = skipn_n k b.
Proof.
  rewrite !skipn_n_spec, len_eq. replace (N.to_nat (N.of_nat (List.length a) + k)) with (List.length a + N.to_nat k)%nat by lia.
  rewrite skipn_app. rewrite skipn_all2 by lia. replace (List.length a + N.to_nat k - List.length a)%nat with (N.to_nat k) by lia.
  reflexivity.
Qed.

Lemma skipn_n_min {A} (l : list A) n : skipn_n (N.min n (len l)) l = skipn_n n l.
Proof.
  destruct (N.le_gt_cases n (len l)); [now rewrite N.min_l|]. rewrite N.min_r by lia.
  rewrite !skipn_n_all by lia. reflexivity.
Qed.

Lemma hdr_ok_lor1 f h : hdr_ok f h -> hdr_ok (N.lor f 1) h.
Proof. unfold hdr_ok. rewrite N.lor_spec. change (N.testbit 1 4) with false. now rewrite orb_false_r. Qed.
Lemma hdr_ok_array f h : hdr_ok f h -> hdr_ok (array_flag f) h.
Proof.
  unfold hdr_ok, array_flag. rewrite N.lor_spec, N.land_spec. change (N.testbit 2 4) with false.
  change (N.testbit 248 4) with true. now rewrite orb_false_r, andb_true_r.
Qed.

(* ------------------------------------------------------------------ the operations refine the interpreter *)
Definition refines (o : op) (cur : option mdata) (r : outcome res) : Prop :=
  exists cur' ld' fr', r = Ok (cur', ld', fr')
                       /\ abs all_fixes cur' = apply (abs all_fixes cur) o /\ wf_cur cur'.

Ltac done_with a :=
  do 3 eexists; split; [reflexivity|]; split;
  [ try (rewrite abs_enc with (a := a); [reflexivity| |discriminate]) | right; exists a; split; [|reflexivity] ].

Lemma mk_ok {A} (x : A) : True. Proof. exact I. Qed.

Lemma op_set_refines env f h p cap cur ld :
  hdr_ok f h -> wf_cur cur -> refines (OSet f h p) cur (op_set env (lcd_of 0 f h p cap) cur ld).
Proof.
  intros Hh Hc. unfold op_set, refines. cbn [c_data c_cap lcd_of apply].
  set (a := {| a_flag := f; a_hdr := h; a_payload := p |}).
  assert (Ha : wf_abs a) by exact Hh.
  change (mk_frame 0 f h p) with (enc a).
  destruct (update_shortcut env && _) eqn:E.
  - apply andb_true_iff in E. destruct E as [_ E]. destruct cur as [m|]; [|discriminate].
    apply andb_true_iff in E. destruct E as [Et Eb]. apply N.eqb_eq in Et. apply list_eqb_eq in Eb.
    do 3 eexists. split; [reflexivity|]. split; [|exact Hc].
    destruct m as [b c t i]. cbn [d_bytes d_type] in *. subst. apply abs_enc; [exact Ha|discriminate].
  - do 3 eexists. split; [reflexivity|]. split; [apply abs_enc; [exact Ha|discriminate]|].
    right. exists a. split; [exact Ha|reflexivity].
Qed.

Lemma op_unset_refines env f cap cur ld :
  wf_cur cur -> refines (OUnset f) cur (op_unset env (lcd_of 1 f [] [] cap) cur ld).
Proof.
  intros Hc. unfold op_unset, refines. cbn [apply].
  destruct cur as [m|].
  - destruct (update_shortcut env && (d_type m =? T_UNSET)) eqn:E.
    + apply andb_true_iff in E. destruct E as [_ E]. apply N.eqb_eq in E.
      do 3 eexists. split; [reflexivity|]. split; [|exact Hc]. unfold abs. now rewrite E.
    + do 3 eexists. split; [reflexivity|]. split; [reflexivity|]. left. reflexivity.
  - do 3 eexists. split; [reflexivity|]. split; [reflexivity|exact I].
Qed.

Lemma zlen_app {A} (a b : list A) : zlen (a ++ b) = (zlen a + zlen b)%Z.
Proof. unfold zlen. rewrite len_app. lia. Qed.

Lemma enc_eq f h p f' h' p' b0 b1 b2 b3 :
  le32 (2 + zlen h + zlen p) = [b0; b1; b2; b3] -> f = f' -> h = h' -> p = p' ->
  b0 :: b1 :: b2 :: b3 :: 0 :: f :: h ++ p = enc {| a_flag := f'; a_hdr := h'; a_payload := p' |}.
Proof. intros E -> -> ->. unfold enc, mk_frame. cbn [a_flag a_hdr a_payload]. rewrite E. reflexivity. Qed.

Lemma op_append_refines env f h p cap cur ld :
  hdr_ok f h -> wf_cur cur -> refines (OAppend f h p) cur (op_append all_fixes env (lcd_of 3 f h p cap) cur ld).
Proof.
  intros Hh Hc. unfold refines. cbn [apply].
  pose proof (wf_cur_abs all_fixes cur Hc) as Hab.
  destruct (mk_frame_shape 3 f h p) as (b0 & b1 & b2 & b3 & E & E32).
  assert (Hfresh : firstn_n 4 (mk_frame 3 f h p) ++ [0] ++ skipn_n 5 (mk_frame 3 f h p)
                   = enc {| a_flag := f; a_hdr := h; a_payload := p |}).
  { rewrite E. rewrite firstn_n_4. replace 5 with (1 + (1 + (1 + (1 + (1 + 0))))) by lia.
    rewrite !skipn_n_cons, skipn_n_0. cbn [app]. eapply enc_eq; eauto. }
  unfold op_append. cbn [c_data c_cap lcd_of]. rewrite cmd_offset_frame by assumption. cbn [bind].
  rewrite Hfresh.
  set (a := {| a_flag := f; a_hdr := h; a_payload := p |}) in *.
  destruct cur as [m|].
  - destruct Hab as [[Hu Hab]|(Hu & a0 & Ha0 & Eb & Hab)].
    + rewrite Hu. cbn [N.eqb T_UNSET Pos.eqb]. rewrite Hab.
      destruct (pe_recover env); do 3 eexists; (split; [reflexivity|]); (split; [apply abs_enc; [exact Hh|discriminate]|]);
        right; exists a; (split; [exact Hh|reflexivity]).
    + destruct (N.eqb_spec (d_type m) T_UNSET); [contradiction|]. rewrite Hab.
      rewrite len_mk_frame.
      destruct (N.ltb_spec (6 + len h + len p) (6 + len h)); [lia|].
      rewrite Eb.
      assert (HL0 : len (enc a0) = 6 + len (a_hdr a0) + len (a_payload a0)) by (unfold enc; apply len_mk_frame).
      destruct (N.ltb_spec (len (enc a0)) 6); [lia|].
      set (a1 := {| a_flag := a_flag a0; a_hdr := a_hdr a0; a_payload := a_payload a0 ++ p |}).
      assert (Ed : le32 (Z.of_N (len (enc a0)) - 4 + (zlen (mk_frame 3 f h p) - Z.of_N (6 + len h)))
                     ++ [0; nthd (enc a0) 5] ++ skipn_n 6 (enc a0) ++ skipn_n (6 + len h) (mk_frame 3 f h p) = enc a1).
      { rewrite E. rewrite skipn_n_6, skipn_n_app_len.
        destruct (mk_frame_shape 0 (a_flag a0) (a_hdr a0) (a_payload a0)) as (c0 & c1 & c2 & c3 & E0 & _).
        rewrite HL0. unfold enc at 1 2. rewrite E0. rewrite skipn_n_6'. unfold nthd. cbn [nth_n N.eqb N.pred Pos.pred_N Pos.pred_double].
        unfold enc, mk_frame, a1. cbn [a_flag a_hdr a_payload]. rewrite <- E.
        replace (Z.of_N (6 + len (a_hdr a0) + len (a_payload a0)) - 4 + (zlen (mk_frame 3 f h p) - Z.of_N (6 + len h)))%Z
          with (2 + zlen (a_hdr a0) + zlen (a_payload a0 ++ p))%Z.
        - cbn [app]. rewrite <- !app_assoc. reflexivity.
        - unfold zlen. rewrite len_mk_frame, len_app. lia. }
      rewrite Ed.
      destruct (pe_recover env); do 3 eexists; (split; [reflexivity|]); (split; [apply abs_enc; [exact Ha0|discriminate]|]);
        right; exists a1; (split; [exact Ha0|reflexivity]).
  - rewrite Hab.
    destruct (pe_recover env); do 3 eexists; (split; [reflexivity|]); (split; [apply abs_enc; [exact Hh|discriminate]|]);
      right; exists a; (split; [exact Hh|reflexivity]).
Qed.

Lemma enc_shape a : exists c0 c1 c2 c3,
  enc a = c0 :: c1 :: c2 :: c3 :: 0 :: a_flag a :: a_hdr a ++ a_payload a.
Proof. destruct (mk_frame_shape 0 (a_flag a) (a_hdr a) (a_payload a)) as (c0 & c1 & c2 & c3 & E & _). eauto. Qed.

Lemma len_enc a : len (enc a) = 6 + len (a_hdr a) + len (a_payload a).
Proof. unfold enc. apply len_mk_frame. Qed.

Lemma enc_build z f h p : z = (2 + zlen h + zlen p)%Z ->
  le32 z ++ [0; f] ++ h ++ p = enc {| a_flag := f; a_hdr := h; a_payload := p |}.
Proof. intros ->. unfold enc, mk_frame. cbn [a_flag a_hdr a_payload app]. reflexivity. Qed.

Lemma val_is_array_enc a cap t i :
  val_is_array {| d_bytes := enc a; d_cap := cap; d_type := t; d_isaof := i |} = N.testbit (a_flag a) 1.
Proof.
  unfold val_is_array. cbn [d_bytes]. rewrite len_enc. destruct (N.ltb_spec (6 + len (a_hdr a) + len (a_payload a)) 6); [lia|].
  destruct (enc_shape a) as (c0 & c1 & c2 & c3 & E). rewrite E. reflexivity.
Qed.

Lemma op_push_refines env f h p cap cur ld :
  hdr_ok f h -> wf_cur cur -> refines (OPush f h p) cur (op_push all_fixes env (lcd_of 7 f h p cap) cur ld).
Proof.
  intros Hh Hc. unfold refines. cbn [apply].
  pose proof (wf_cur_abs all_fixes cur Hc) as Hab.
  destruct (mk_frame_shape 7 f h p) as (b0 & b1 & b2 & b3 & E & E32).
  unfold op_push. cbn [c_data c_cap lcd_of]. rewrite cmd_offset_frame by assumption. cbn [bind].
  rewrite len_mk_frame. destruct (N.ltb_spec (6 + len h + len p) (6 + len h)); [lia|].
  set (anew := {| a_flag := array_flag f; a_hdr := h; a_payload := le32 (zlen p) ++ p |}).
  assert (Hnew : le32 (zlen (mk_frame 7 f h p)) ++ [0; N.lor (N.land (nthd (mk_frame 7 f h p) 5) 248) 2]
                   ++ firstn_n (6 + len h - 6) (skipn_n 6 (mk_frame 7 f h p))
                   ++ le32 (zlen (skipn_n (6 + len h) (mk_frame 7 f h p))) ++ skipn_n (6 + len h) (mk_frame 7 f h p)
                 = enc anew).
  { unfold zlen at 1. rewrite len_mk_frame. rewrite E. rewrite skipn_n_6, skipn_n_app_len, skipn_n_6'.
    replace (6 + len h - 6) with (len h) by lia. rewrite firstn_n_app_len.
    unfold nthd. cbn [nth_n N.eqb N.pred Pos.pred_N Pos.pred_double].
    change (N.lor (N.land f 248) 2) with (array_flag f).
    apply enc_build. rewrite zlen_app. unfold zlen. rewrite len_le32. lia. }
  assert (Hwnew : wf_abs anew) by (apply hdr_ok_array; exact Hh).
  destruct cur as [m|].
  - destruct Hab as [[Hu Hab]|(Hu & a0 & Ha0 & Eb & Hab)].
    + rewrite Hu. cbn [N.eqb T_UNSET Pos.eqb negb andb]. rewrite Hab, Hnew.
      do 3 eexists; (split; [reflexivity|]); (split; [apply abs_enc; [exact Hwnew|discriminate]|]);
        right; exists anew; (split; [exact Hwnew|reflexivity]).
    + destruct (N.eqb_spec (d_type m) T_UNSET); [contradiction|]. cbn [negb andb]. rewrite Hab.
      destruct m as [b c t i]. cbn [d_bytes d_type] in *. subst b. rewrite val_is_array_enc.
      destruct (N.testbit (a_flag a0) 1).
      * set (a1 := {| a_flag := array_flag (a_flag a0); a_hdr := a_hdr a0;
                      a_payload := a_payload a0 ++ le32 (zlen p) ++ p |}).
        assert (Ed : le32 (zlen (enc a0) + zlen (skipn_n (6 + len h) (mk_frame 7 f h p)))
                       ++ [0; N.lor (N.land (nthd (enc a0) 5) 248) 2] ++ skipn_n 6 (enc a0)
                       ++ le32 (zlen (skipn_n (6 + len h) (mk_frame 7 f h p))) ++ skipn_n (6 + len h) (mk_frame 7 f h p)
                     = enc a1).
        { unfold zlen at 1. rewrite len_enc. rewrite E. rewrite skipn_n_6, skipn_n_app_len.
          destruct (enc_shape a0) as (c0 & c1 & c2 & c3 & E0). rewrite E0. rewrite skipn_n_6'.
          unfold nthd. cbn [nth_n N.eqb N.pred Pos.pred_N Pos.pred_double].
          change (N.lor (N.land (a_flag a0) 248) 2) with (array_flag (a_flag a0)).
          rewrite <- app_assoc. apply enc_build. rewrite !zlen_app. unfold zlen. rewrite len_le32. lia. }
        rewrite Ed.
        assert (Hw1 : wf_abs a1) by (apply hdr_ok_array; exact Ha0).
        do 3 eexists; (split; [reflexivity|]); (split; [apply abs_enc; [exact Hw1|discriminate]|]);
          right; exists a1; (split; [exact Hw1|reflexivity]).
      * rewrite Hnew.
        do 3 eexists; (split; [reflexivity|]); (split; [apply abs_enc; [exact Hwnew|discriminate]|]);
          right; exists anew; (split; [exact Hwnew|reflexivity]).
  - rewrite Hab, Hnew.
    do 3 eexists; (split; [reflexivity|]); (split; [apply abs_enc; [exact Hwnew|discriminate]|]);
      right; exists anew; (split; [exact Hwnew|reflexivity]).
Qed.

Lemma len_nil_inv {A} (l : list A) : len l = 0 -> l = [].
Proof. destruct l; [reflexivity|]. rewrite len_cons. lia. Qed.

Lemma op_shift_refines env n cap cur ld :
  n < 4294967296 -> wf_cur cur ->
  refines (OShift n) cur (op_shift all_fixes env (lcd_of 4 1 [] (le32 (Z.of_N n)) cap) cur ld).
Proof.
  intros Hn Hc. unfold refines. cbn [apply].
  pose proof (wf_cur_abs all_fixes cur Hc) as Hab.
  assert (Hh : hdr_ok 1 []) by reflexivity.
  destruct (mk_frame_shape 4 1 [] (le32 (Z.of_N n))) as (b0 & b1 & b2 & b3 & E & E32).
  unfold op_shift. cbn [c_data c_cap lcd_of]. rewrite cmd_offset_frame by assumption. cbn [bind len].
  replace (6 + 0) with 6 by lia.
  assert (Elv : cmd_u32_value (lcd_of 4 1 [] (le32 (Z.of_N n)) cap) 6 = n).
  { unfold cmd_u32_value, value_prefix. cbn [c_data lcd_of]. rewrite E, skipn_n_6'. cbn [app].
    rewrite firstn_n_all by (rewrite len_le32; lia). apply le_dec_le32. exact Hn. }
  rewrite Elv.
  destruct cur as [m|]; [|do 3 eexists; split; [reflexivity|]; split; [rewrite Hab; reflexivity|exact I]].
  destruct Hab as [[Hu Hab]|(Hu & a0 & Ha0 & Eb & Hab)].
  - rewrite Hu. cbn [N.eqb T_UNSET Pos.eqb negb andb]. rewrite Hab.
    do 3 eexists; split; [reflexivity|]; split; [exact Hab|exact Hc].
  - destruct (N.eqb_spec (d_type m) T_UNSET); [contradiction|]. cbn [negb andb fx_shift all_fixes]. rewrite Hab.
    destruct m as [b c t i]. cbn [d_bytes d_type] in *. subst b.
    unfold val_value_size. rewrite val_offset_enc by assumption. cbn [d_bytes]. unfold zlen. rewrite len_enc.
    set (lh := len (a_hdr a0)) in *. set (lp := len (a_payload a0)) in *.
    destruct (Z.ltb_spec 0 (Z.min (Z.of_N n) (Z.of_N (6 + lh + lp) - Z.of_N (6 + lh)))) as [Hpos|Hpos].
    + set (lv1 := Z.min (Z.of_N n) (Z.of_N (6 + lh + lp) - Z.of_N (6 + lh))) in *.
      assert (Hlv : Z.min lv1 (Z.of_N (6 + lh + lp)) = lv1) by lia. rewrite Hlv.
      destruct (Z.ltb_spec (Z.of_N (6 + lh + lp)) (Z.of_N (6 + lh))); [lia|].
      destruct (Z.ltb_spec (Z.of_N (6 + lh + lp) - lv1) 6); [lia|].
      destruct (Z.ltb_spec (Z.of_N (6 + lh + lp) - lv1) (Z.of_N (6 + lh))); [lia|]. cbn [orb].
      set (a1 := {| a_flag := a_flag a0; a_hdr := a_hdr a0; a_payload := skipn_n n (a_payload a0) |}).
      assert (Ed : le32 (Z.of_N (6 + lh + lp) - lv1 - 4) ++ [0; nthd (enc a0) 5]
                     ++ firstn_n (6 + lh - 6) (skipn_n 6 (enc a0)) ++ skipn_n (6 + lh + Z.to_N lv1) (enc a0) = enc a1).
      { destruct (enc_shape a0) as (c0 & c1 & c2 & c3 & E0). rewrite E0.
        rewrite skipn_n_6'. replace (6 + lh - 6) with lh by lia. unfold lh at 2. rewrite firstn_n_app_len.
        replace (6 + lh + Z.to_N lv1) with (6 + (lh + Z.to_N lv1)) by lia. rewrite skipn_n_6. unfold lh at 2.
        rewrite skipn_n_app_add.
        unfold nthd. cbn [nth_n N.eqb N.pred Pos.pred_N Pos.pred_double].
        replace (Z.to_N lv1) with (N.min n (len (a_payload a0))) by (fold lp; lia).
        rewrite skipn_n_min. apply enc_build.
        unfold zlen. rewrite len_skipn_n. fold lh lp. lia. }
      rewrite Ed.
      assert (Hw1 : wf_abs a1) by exact Ha0.
      do 3 eexists; (split; [reflexivity|]); (split; [apply abs_enc; [exact Hw1|discriminate]|]);
        right; exists a1; (split; [exact Hw1|reflexivity]).
    + do 3 eexists; split; [reflexivity|]; split; [|exact Hc].
      rewrite Hab. f_equal. destruct a0 as [af ah ap]. cbn [a_flag a_hdr a_payload] in *. f_equal.
      destruct (N.eq_dec n 0) as [->|Hn0]; [now rewrite skipn_n_0|].
      assert (lp = 0) by lia. unfold lp in *. apply len_nil_inv in H. subst ap. reflexivity.
Qed.

Lemma zlen_le64 z : zlen (le64 z) = 8%Z.
Proof. unfold zlen. now rewrite len_le64. Qed.

Lemma op_incr_refines env f h z cap cur ld :
  hdr_ok f h -> wf_cur cur -> refines (OIncr f h z) cur (op_incr all_fixes env (lcd_of 2 f h (le64 z) cap) cur ld).
Proof.
  intros Hh Hc. unfold refines. cbn [apply].
  pose proof (wf_cur_abs all_fixes cur Hc) as Hab.
  destruct (mk_frame_shape 2 f h (le64 z)) as (b0 & b1 & b2 & b3 & E & E32).
  unfold op_incr. cbn [c_data c_cap lcd_of]. rewrite cmd_offset_frame by assumption. cbn [bind].
  assert (Eiv : cmd_incr_value (lcd_of 2 f h (le64 z) cap) (6 + len h) = wrap64 z).
  { unfold cmd_incr_value, value_prefix. cbn [c_data lcd_of]. rewrite E, skipn_n_6, skipn_n_app_len.
    rewrite firstn_n_all by (rewrite len_le64; lia). apply le_dec_le64. }
  rewrite Eiv.
  assert (Evs : (zlen (mk_frame 2 f h (le64 z)) - Z.of_N (6 + len h) =? 8)%Z = true).
  { apply Z.eqb_eq. unfold zlen. rewrite len_mk_frame, len_le64. lia. }
  rewrite Evs.
  assert (Hbuild : forall total,
            firstn_n 4 (mk_frame 2 f h (le64 z)) ++ [0; N.lor (nthd (mk_frame 2 f h (le64 z)) 5) 1]
              ++ firstn_n (6 + len h - 6) (skipn_n 6 (mk_frame 2 f h (le64 z))) ++ le64 total
            = enc {| a_flag := N.lor f 1; a_hdr := h; a_payload := le64 total |}).
  { intros total. rewrite E, firstn_n_4, skipn_n_6'. replace (6 + len h - 6) with (len h) by lia.
    rewrite firstn_n_app_len. unfold nthd. cbn [nth_n N.eqb N.pred Pos.pred_N Pos.pred_double app].
    eapply enc_eq; eauto. }
  assert (Hfin : forall total (ld0 : option lockdata) (fr0 : list N),
            exists cur' ld' fr',
              Ok (Some {| d_bytes := enc {| a_flag := N.lor f 1; a_hdr := h; a_payload := le64 total |};
                          d_cap := cap; d_type := T_INCR; d_isaof := N.testbit (pe_flag env) bit_fromaof |}, ld0, fr0)
              = Ok (cur', ld', fr')
              /\ abs all_fixes cur' = Some {| a_flag := N.lor f 1; a_hdr := h; a_payload := le64 total |} /\ wf_cur cur').
  { intros total ld0 fr0. do 3 eexists. split; [reflexivity|].
    assert (Hw : wf_abs {| a_flag := N.lor f 1; a_hdr := h; a_payload := le64 total |}) by (apply hdr_ok_lor1; exact Hh).
    split; [apply abs_enc; [exact Hw|discriminate]|]. right. eexists. split; [exact Hw|reflexivity]. }
  destruct cur as [m|].
  - destruct Hab as [[Hu Hab]|(Hu & a0 & Ha0 & Eb & Hab)].
    + rewrite Hu. cbn [N.eqb T_UNSET Pos.eqb]. rewrite Hab, Hbuild. apply Hfin.
    + destruct (N.eqb_spec (d_type m) T_UNSET); [contradiction|]. rewrite Hab. cbn [a_payload].
      assert (Eold : val_incr_value all_fixes m = number_of (a_payload a0)).
      { unfold val_incr_value. destruct (N.eqb_spec (d_type m) T_UNSET); [contradiction|].
        destruct m as [b c t i]. cbn [d_bytes d_type] in *. subst b.
        rewrite val_offset_enc by assumption. unfold value_prefix, number_of. cbn [d_bytes].
        destruct (enc_shape a0) as (c0 & c1 & c2 & c3 & E0). rewrite E0, skipn_n_6, skipn_n_app_len. reflexivity. }
      rewrite Eold, Hbuild. apply Hfin.
  - rewrite Hab, Hbuild. apply Hfin.
Qed.

(* ------------------------------------------------------------------ ProcessLockData on constructor-built frames *)
Lemma gate_lcd_of env typ flag h p cap :
  typ < 64 -> N.testbit flag 5 = false -> gate env (lcd_of typ flag h p cap) = true.
Proof.
  intros Ht Hf. unfold gate. cbn [c_stage c_flag lcd_of]. rewrite N.div_small by lia. cbn [N.eqb].
  unfold bit_firstlast. rewrite Hf. reflexivity.
Qed.

Definition simple_op (o : op) : Prop := match o with OPop _ | OPipeline _ => False | _ => True end.

Ltac enter typ :=
  unfold process_lock_data_ex; cbn [frame_of_op]; rewrite lcd_of_bytes_frame; cbn [bind process_lcd];
  rewrite gate_lcd_of by (try lia; try assumption; try reflexivity); cbn [negb];
  match goal with |- context [c_type ?c] => change (c_type c) with typ end;
  cbv [T_SET T_UNSET T_INCR T_APPEND T_SHIFT T_EXECUTE T_PIPELINE T_PUSH T_POP N.eqb Pos.eqb].

(* SET, UNSET, INCR, APPEND, SHIFT and PUSH frames built by the client constructors, applied to any well-formed
   stored value, with any request parameters: ProcessLockData does not crash and leaves exactly the value the
   sequential interpreter computes (repaired semantics; SHIFT beyond the payload empties it). *)
Theorem process_refines_spec_simple o env cur ld :
  simple_op o -> wf_op o -> wf_cur cur ->
  refines o cur (process_lock_data_ex all_fixes env (frame_of_op o) cur ld).
Proof.
  intros Hs Hw Hc. destruct o as [f h p|f|f h z|f h p|n|f h p|n|items]; cbn [simple_op wf_op] in *; try contradiction.
  - destruct Hw as [Hf Hh]. enter 0. apply op_set_refines; assumption.
  - enter 1. apply op_unset_refines; assumption.
  - destruct Hw as [Hf Hh]. enter 2. apply op_incr_refines; assumption.
  - destruct Hw as [Hf Hh]. enter 3. apply op_append_refines; assumption.
  - enter 4. apply op_shift_refines; assumption.
  - destruct Hw as [Hf Hh]. enter 7. apply op_push_refines; assumption.
Qed.

(* sequences: the value after any sequence of such operations is the left fold of the interpreter *)
Fixpoint run_ops (env : pd_env) (ops : list op) (cur : option mdata) (ld : option lockdata) : outcome (option mdata) :=
  match ops with
  | [] => Ok cur
  | o :: rest =>
      match process_lock_data_ex all_fixes env (frame_of_op o) cur ld with
      | Ok (cur', ld', _) => run_ops env rest cur' ld'
      | Panic s => Panic s
      | Unsupported => Unsupported
      | OutOfFuel => OutOfFuel
      end
  end.

Theorem run_ops_refines_spec env : forall ops cur ld,
  Forall (fun o => simple_op o /\ wf_op o) ops -> wf_cur cur ->
  exists cur', run_ops env ops cur ld = Ok cur'
               /\ abs all_fixes cur' = fold_left apply ops (abs all_fixes cur) /\ wf_cur cur'.
Proof.
  induction ops as [|o rest IH]; intros cur ld Hf Hc; cbn [run_ops fold_left].
  - exists cur. auto.
  - inversion Hf as [|? ? [Hs Hw] Hr]; subst.
    destruct (process_refines_spec_simple o env cur ld Hs Hw Hc) as (cur1 & ld1 & fr1 & -> & Ea & Hc1).
    destruct (IH cur1 ld1 Hr Hc1) as (cur' & -> & Ea' & Hc').
    exists cur'. split; [reflexivity|]. split; [|assumption]. rewrite Ea', Ea. reflexivity.
Qed.
