(* Data.v -- byte-exact executable model of the VALUE-OPERATION layer of slock:
     server/lock.go   LockManager.{GetLockData,AofLockData,ProcessLockData,ProcessAckLockData,ProcessRecoverLockData},
                      LockManagerData.{GetValueOffset,GetValueSize,IsArrayValue,GetData,GetIncrValue,Equal},
                      Lock.SaveRecoverData, LockData.{ProcessAckClear,IsEmpty}
     protocol/command.go  NewLockCommandDataFromOriginBytes, LockCommandData.{GetValueOffset,GetValueSize,
                      GetBytesValue,GetIncrValue,GetShiftLengthValue,GetPopCountValue}
   Panics are values (constructor Panic, with the Go function in which the run-time panic is raised).
   EXECUTE (data command type 5) is outside the model: Unsupported.  Fuel exhaustion: OutOfFuel (excluded by
   process_lock_data_fuel_ok in DataProofs.v).  byte = N (theorems assume every byte < 256: bytes_ok).
   Go slices are modelled as (visible bytes, spare-capacity bytes): the only slices of this layer whose capacity
   exceeds their length are PIPELINE items (sub-slices of the pipeline frame); a Go slice expression s[a:b] is
   checked against cap(s), not len(s), so the bytes behind a stored pipeline item are observable (d_cap).
   Stdlib only. *)
From Coq Require Import List NArith ZArith String Bool.
From Slock Require Export Data.Fixes Data.FixFlags.
Import ListNotations.
Open Scope N_scope.

(* ------------------------------------------------------------------ outcomes *)
Inductive outcome (A : Type) : Type :=
| Ok (a : A)
| Panic (site : string)
| Unsupported           (* EXECUTE frames (type 5): excluded by the properties *)
| OutOfFuel.            (* never returned when fuel > length of the frame (proved) *)
Arguments Ok {A} a.
Arguments Panic {A} site.
Arguments Unsupported {A}.
Arguments OutOfFuel {A}.

Definition bind {A B} (o : outcome A) (f : A -> outcome B) : outcome B :=
  match o with
  | Ok a => f a
  | Panic s => Panic s
  | Unsupported => Unsupported
  | OutOfFuel => OutOfFuel
  end.
Notation "'do' x <- e ; k" := (bind e (fun x => k)) (at level 200, x pattern, e at level 100, k at level 200).

Definition is_panic {A} (o : outcome A) : bool := match o with Panic _ => true | _ => false end.
Definition is_ok {A} (o : outcome A) : bool := match o with Ok _ => true | _ => false end.

(* Panic sites: "<Go function in which the run-time panic is raised (innermost non-runtime frame)>#<cause>".
   The part before '#' is what the Go harness observes; the cause is the model's attribution (used for the
   signatures of known findings). *)
Definition fn_nlcd : string := "protocol.NewLockCommandDataFromOriginBytes".
Definition fn_cgvo : string := "protocol.(*LockCommandData).GetValueOffset".
Definition fn_vgvo : string := "server.(*LockManagerData).GetValueOffset".
Definition fn_pld  : string := "server.(*LockManager).ProcessLockData".
Definition fn_prld : string := "server.(*LockManager).ProcessRecoverLockData".
Definition site (fn cause : string) : string := (fn ++ "#" ++ cause)%string.
Definition site_nlcd : string := site fn_nlcd "SHORT".               (* data[4], data[5] on a frame shorter than 6 bytes *)
Definition site_cgvo : string := site fn_cgvo "CMD-OFFSET".          (* Data[6], Data[7] on a frame shorter than 8 bytes *)
Definition site_vgvo : string := site fn_vgvo "INCR-NIL".            (* self.data on a nil receiver *)

(* ------------------------------------------------------------------ byte lists indexed by N *)
Fixpoint len {A} (l : list A) : N := match l with [] => 0 | _ :: r => N.succ (len r) end.

Fixpoint nth_n {A} (l : list A) (i : N) : option A :=
  match l with
  | [] => None
  | x :: r => if i =? 0 then Some x else nth_n r (N.pred i)
  end.
Definition nthd (l : list N) (i : N) : N := match nth_n l i with Some x => x | None => 0 end.

Fixpoint skipn_n {A} (i : N) (l : list A) : list A :=
  match l with
  | [] => []
  | _ :: r => if i =? 0 then l else skipn_n (N.pred i) r
  end.
Fixpoint firstn_n {A} (i : N) (l : list A) : list A :=
  match l with
  | [] => []
  | x :: r => if i =? 0 then [] else x :: firstn_n (N.pred i) r
  end.

Definition zeros (n : N) : list N := N.iter n (cons 0) [].
(* copy of l into a zero-filled destination of exactly n bytes *)
Definition pad_to (n : N) (l : list N) : list N :=
  let f := firstn_n n l in f ++ zeros (n - len f).

(* Go slice expression s[a:b] on a slice with visible bytes [data] and spare capacity [cap] *)
Definition slice2 (data cap : list N) (a b : N) : option (list N) :=
  if (a <=? b) && (b <=? len data + len cap) then
    if b <=? len data then Some (firstn_n (b - a) (skipn_n a data))
    else Some (firstn_n (b - a) (skipn_n a (data ++ cap)))
  else None.

Fixpoint list_eqb (a b : list N) : bool :=
  match a, b with
  | [], [] => true
  | x :: a', y :: b' => (x =? y) && list_eqb a' b'
  | _, _ => false
  end.

(* ------------------------------------------------------------------ integers *)
Definition two64 : Z := 18446744073709551616%Z.
Definition two63 : Z := 9223372036854775808%Z.
Definition two32 : Z := 4294967296%Z.
(* int64 wrap-around: the representative of z modulo 2^64 in [-2^63, 2^63) *)
Definition wrap64 (z : Z) : Z := (((z + two63) mod two64) - two63)%Z.

(* little-endian decode of a (short) byte list *)
Fixpoint le_dec (l : list N) : N := match l with [] => 0 | b :: r => b + 256 * le_dec r end.

(* little-endian encode of z mod 2^(8k) as k bytes *)
Fixpoint le_enc (k : nat) (z : Z) : list N :=
  match k with
  | O => []
  | S k' => Z.to_N (z mod 256)%Z :: le_enc k' (z / 256)%Z
  end.
Definition le32 (z : Z) : list N := le_enc 4 z.   (* byte(z), byte(z>>8), byte(z>>16), byte(z>>24) *)
Definition le64 (z : Z) : list N := le_enc 8 z.
Definition zlen {A} (l : list A) : Z := Z.of_N (len l).

(* ------------------------------------------------------------------ data types *)
Record mdata := {           (* server.LockManagerData *)
  d_bytes : list N;         (* data (never nil in the implementation) *)
  d_cap   : list N;         (* bytes between len(data) and cap(data): non-empty only for stored PIPELINE items *)
  d_type  : N;              (* commandType *)
  d_isaof : bool            (* isAof *)
}.
Inductive recval :=         (* LockData.recoverValue : interface{} *)
| RVNil | RVInt (z : Z) | RVPos (p : N) | RVBytes (b : list N) | RVValues (l : list (list N)).
Record lockdata := {        (* server.LockData without commandDatas (EXECUTE only) *)
  ld_aof : option (list N); ld_cur : option mdata; ld_rec : option mdata; ld_recval : recval }.
Record pd_env := {
  pe_islock : bool;                              (* command.CommandType = COMMAND_LOCK (else COMMAND_UNLOCK) *)
  pe_flag : N; pe_eflag : N; pe_expried : N;     (* command.Flag / ExpriedFlag / Expried *)
  pe_locked : N; pe_waited : bool;               (* lockManager.locked / waited at the call *)
  pe_recover : bool }.                           (* requireRecover *)

Definition mk_mdata (b : list N) (t : N) (aof : bool) : mdata :=
  {| d_bytes := b; d_cap := []; d_type := t; d_isaof := aof |}.
Definition set_isaof (m : mdata) (b : bool) : mdata :=
  {| d_bytes := d_bytes m; d_cap := d_cap m; d_type := d_type m; d_isaof := b |}.

(* protocol.LockCommandData *)
Record lcd := { c_data : list N; c_cap : list N; c_stage : N; c_type : N; c_flag : N }.

(* data command types / flags (protocol/command.go:100-123) *)
Definition T_SET := 0. Definition T_UNSET := 1. Definition T_INCR := 2. Definition T_APPEND := 3.
Definition T_SHIFT := 4. Definition T_EXECUTE := 5. Definition T_PIPELINE := 6. Definition T_PUSH := 7.
Definition T_POP := 8.
Definition bit_number := 0.       (* LOCK_DATA_FLAG_VALUE_TYPE_NUMBER     = 0x01 *)
Definition bit_array := 1.        (* LOCK_DATA_FLAG_VALUE_TYPE_ARRAY      = 0x02 *)
Definition bit_property := 4.     (* LOCK_DATA_FLAG_CONTAINS_PROPERTY     = 0x10 *)
Definition bit_firstlast := 5.    (* LOCK_DATA_FLAG_PROCESS_FIRST_OR_LAST = 0x20 *)
Definition bit_update := 1.       (* LOCK_FLAG_UPDATE_WHEN_LOCKED         = 0x02 *)
Definition bit_fromaof := 2.      (* LOCK_FLAG_FROM_AOF = UNLOCK_FLAG_FROM_AOF = 0x04 *)

Definition unset_bytes : list N := [2; 0; 0; 0; 1; 0].
Definition unset_data (aof : bool) : mdata := mk_mdata unset_bytes T_UNSET aof.  (* NewLockManagerDataUnsetData *)

(* ------------------------------------------------------------------ protocol.LockCommandData *)
(* NewLockCommandDataFromOriginBytes: &LockCommandData{data, data[4]>>6, data[4]&0x3f, data[5]} *)
Definition lcd_of_bytes (fx : fixes) (data cap : list N) : outcome lcd :=
  match nth_n data 4, nth_n data 5 with
  | Some b4, Some b5 =>
      Ok {| c_data := data; c_cap := cap; c_stage := b4 / 64; c_type := b4 mod 64; c_flag := b5 |}
  | _, _ =>
      if fx_short_frame fx
      then Ok {| c_data := data; c_cap := cap; c_stage := 1; c_type := T_SET; c_flag := 0 |}
      else Panic site_nlcd
  end.

(* LockCommandData.GetValueOffset (uses the cached DataFlag) *)
Definition cmd_value_offset (fx : fixes) (c : lcd) : outcome N :=
  if N.testbit (c_flag c) bit_property then
    match nth_n (c_data c) 6, nth_n (c_data c) 7 with
    | Some b6, Some b7 =>
        let off := b6 + 256 * b7 + 8 in
        if fx_cmd_offset fx && (len (c_data c) <? off) then Ok (len (c_data c)) else Ok off
    | _, _ => if fx_cmd_offset fx then Ok 6 else Panic site_cgvo
    end
  else Ok 6.

(* the value bytes a Get*Value loop can see: Data[off], ... while i+off < len(Data), at most k of them *)
Definition value_prefix (k : N) (data : list N) (off : N) : list N := firstn_n k (skipn_n off data).

(* LockCommandData.GetIncrValue for a non-UNSET command (int64) *)
Definition cmd_incr_value (c : lcd) (off : N) : Z := wrap64 (Z.of_N (le_dec (value_prefix 8 (c_data c) off))).
(* GetShiftLengthValue / GetPopCountValue (uint32) *)
Definition cmd_u32_value (c : lcd) (off : N) : N := le_dec (value_prefix 4 (c_data c) off).

(* ------------------------------------------------------------------ server.LockManagerData *)
(* GetValueOffset on a non-nil receiver *)
Definition val_value_offset (fx : fixes) (m : mdata) : N :=
  let d := d_bytes m in
  if len d <? 8 then 6
  else if N.testbit (nthd d 5) bit_property then
    let off := nthd d 6 + 256 * nthd d 7 + 8 in
    if fx_val_offset fx && (len d <? off) then len d else off
  else 6.
Definition val_value_size (fx : fixes) (m : mdata) : Z := (zlen (d_bytes m) - Z.of_N (val_value_offset fx m))%Z.
Definition val_is_array (m : mdata) : bool :=
  if len (d_bytes m) <? 6 then false else N.testbit (nthd (d_bytes m) 5) bit_array.
Definition val_get_data (m : mdata) : option (list N) :=
  if d_type m =? T_UNSET then None else Some (d_bytes m).
Definition val_incr_value (fx : fixes) (m : mdata) : Z :=
  if d_type m =? T_UNSET then 0%Z
  else wrap64 (Z.of_N (le_dec (value_prefix 8 (d_bytes m) (val_value_offset fx m)))).
Definition val_equal (m : mdata) (b : list N) : bool := list_eqb (d_bytes m) b.

(* self.currentData != nil && self.currentData.GetData() != nil *)
Definition cur_has_data (cur : option mdata) : bool :=
  match cur with Some m => negb (d_type m =? T_UNSET) | None => false end.

(* LockManager.GetLockData *)
Definition get_lock_data (cur : option mdata) : option (list N) :=
  match cur with Some m => val_get_data m | None => None end.

(* Lock.SaveRecoverData (lock.manager.currentData = newcur at the call) *)
Definition save_recover (newcur rd : option mdata) (rv : recval) (ld : option lockdata) : option lockdata :=
  Some {| ld_aof := match ld with Some l => ld_aof l | None => None end;
          ld_cur := newcur; ld_rec := rd; ld_recval := rv |}.

(* lock.data.aofData = b (allocating the LockData when nil) *)
Definition set_aof (b : list N) (ld : option lockdata) : option lockdata :=
  match ld with
  | Some l => Some {| ld_aof := Some b; ld_cur := ld_cur l; ld_rec := ld_rec l; ld_recval := ld_recval l |}
  | None => Some {| ld_aof := Some b; ld_cur := None; ld_rec := None; ld_recval := RVNil |}
  end.

(* ------------------------------------------------------------------ array payloads *)
(* the loop  for i := off; i+4 < len(data); { valueLen := le32(data[i:]); if 0 {i += 4; continue};
                                              values = append(values, data[i+4:i+4+valueLen]); i += valueLen+4 }
   [rest] = data[i:], [n] = len rest. *)
Fixpoint parse_elems (fx : fixes) (fn : string) (fuel : nat) (rest : list N) (n : N) (cap : list N)
         (acc : list (list N)) : outcome (list (list N)) :=
  match fuel with
  | O => OutOfFuel
  | S fuel' =>
      if 4 <? n then
        let vl := le_dec (firstn_n 4 rest) in
        let body := skipn_n 4 rest in
        if vl =? 0 then parse_elems fx fn fuel' body (n - 4) cap acc
        else if vl <=? n - 4 then
          parse_elems fx fn fuel' (skipn_n vl body) (n - 4 - vl) cap (firstn_n vl body :: acc)
        else if fx_pop_bounds fx then Ok (rev acc)                         (* repaired: break *)
        else if vl <=? n - 4 + len cap then Ok (rev (firstn_n vl (body ++ cap) :: acc))  (* reads spare capacity *)
        else Panic (site fn "POP-BOUNDS")
      else Ok (rev acc)
  end.

Definition val_elems (fx : fixes) (fn : string) (m : mdata) : outcome (list (list N)) :=
  let off := val_value_offset fx m in
  let rest := skipn_n off (d_bytes m) in
  parse_elems fx fn (S (List.length rest)) rest (len rest) (d_cap m) [].

Definition enc_elems (vs : list (list N)) : list N :=
  flat_map (fun v => le32 (zlen v) ++ v) vs.
Definition elems_size (vs : list (list N)) : Z :=
  fold_right (fun v acc => (zlen v + 4 + acc)%Z) 0%Z vs.

(* rebuild  [le32 dataLen] ++ data[4:off] ++ elements  (used by POP and by both array recovers) *)
Definition rebuild_array (fx : fixes) (fn : string) (m : mdata) (vs : list (list N)) : outcome (list N) :=
  let off := val_value_offset fx m in
  match slice2 (d_bytes m) (d_cap m) 4 off with
  | Some hdr => Ok (le32 (Z.of_N off - 4 + elems_size vs) ++ hdr ++ enc_elems vs)
  | None => Panic (site fn "VAL-OFFSET")
  end.

(* uint64(hi)<<32 | uint64(lo) *)
Definition pos64 (hi lo : Z) : N :=
  N.lor (Z.to_N ((((hi mod two64) * two32) mod two64)%Z)) (Z.to_N (lo mod two64)%Z).

(* ------------------------------------------------------------------ ProcessLockData *)
Definition res : Type := (option mdata * option lockdata * list N)%type.  (* currentData, lock.data, frame after in-place writes *)

Definition fresh_number (total : Z) : list N := [10; 0; 0; 0; 0; 1] ++ le64 total.

Definition gate (env : pd_env) (c : lcd) : bool :=
  if c_stage c =? 0 then
    if N.testbit (c_flag c) bit_firstlast then
      if pe_islock env then pe_locked env =? 1
      else (pe_locked env =? 0) && negb (pe_waited env)
    else true
  else c_type c =? T_EXECUTE.

(* command.CommandType == COMMAND_LOCK && (Flag&UPDATE_WHEN_LOCKED != 0 || (ExpriedFlag&0x4440 == 0 && Expried == 0)) *)
Definition update_shortcut (env : pd_env) : bool :=
  pe_islock env && (N.testbit (pe_flag env) bit_update
                    || ((N.land (pe_eflag env) 17472 =? 0) && (pe_expried env =? 0))).

Definition op_set (env : pd_env) (c : lcd) (cur : option mdata) (ld : option lockdata) : outcome res :=
  let data := c_data c in
  let same := match cur with Some m => (d_type m =? T_SET) && val_equal m data | None => false end in
  if update_shortcut env && same then Ok (cur, ld, data)
  else
    let cur' := Some {| d_bytes := data; d_cap := c_cap c; d_type := T_SET; d_isaof := N.testbit (pe_flag env) bit_fromaof |} in
    Ok (cur', if pe_recover env then save_recover cur' cur RVNil ld else ld, data).

Definition op_unset (env : pd_env) (c : lcd) (cur : option mdata) (ld : option lockdata) : outcome res :=
  match cur with
  | None => Ok (cur, ld, c_data c)
  | Some m =>
      if update_shortcut env && (d_type m =? T_UNSET) then Ok (cur, ld, c_data c)
      else
        let cur' := Some (unset_data (N.testbit (pe_flag env) bit_fromaof)) in
        Ok (cur', if pe_recover env then save_recover cur' cur RVNil ld else ld, c_data c)
  end.

Definition op_incr (fx : fixes) (env : pd_env) (c : lcd) (cur : option mdata) (ld : option lockdata) : outcome res :=
  let data := c_data c in
  let aof := N.testbit (pe_flag env) bit_fromaof in
  do off <- cmd_value_offset fx c;
  let iv := cmd_incr_value c off in
  let total := match cur with
               | Some m => if d_type m =? T_UNSET then iv else wrap64 (iv + val_incr_value fx m)
               | None => iv end in
  let fin (cur' : option mdata) (frame' : list N) : outcome res :=
      Ok (cur', if pe_recover env then save_recover cur' cur (RVInt iv) ld else ld, frame') in
  if (zlen data - Z.of_N off =? 8)%Z then
    (* in place: data[4], data[5] = SET, data[5]|NUMBER; data[off..off+7] = total *)
    let data' := firstn_n 4 data ++ [0; N.lor (nthd data 5) 1] ++ firstn_n (off - 6) (skipn_n 6 data) ++ le64 total in
    fin (Some {| d_bytes := data'; d_cap := c_cap c; d_type := T_INCR; d_isaof := aof |}) data'
  else
    match cur with
    | None =>
        if fx_incr_nil fx then fin (Some (mk_mdata (fresh_number total) T_INCR aof)) data
        else Panic site_vgvo                                   (* currentLockData.GetValueOffset() on nil *)
    | Some m =>
        let voff := val_value_offset fx m in
        if voff <=? 6 then fin (Some (mk_mdata (fresh_number total) T_INCR aof)) data
        else
          (* make(voff+8): length prefix stays 0,0,0,0 *)
          let data2 := [0; 0; 0; 0; 0; N.lor (nthd (d_bytes m) 5) 1]
                         ++ pad_to (voff - 6) (skipn_n 6 (d_bytes m)) ++ le64 total in
          fin (Some (mk_mdata data2 T_INCR aof)) data
    end.

Definition op_append (fx : fixes) (env : pd_env) (c : lcd) (cur : option mdata) (ld : option lockdata) : outcome res :=
  let data := c_data c in
  let aof := N.testbit (pe_flag env) bit_fromaof in
  match cur with
  | Some m =>
      if d_type m =? T_UNSET then
        let data' := firstn_n 4 data ++ [0] ++ skipn_n 5 data in            (* lockCommandData.Data[4] = SET *)
        let cur' := Some {| d_bytes := data'; d_cap := c_cap c; d_type := T_APPEND; d_isaof := aof |} in
        if pe_recover env then
          do off <- cmd_value_offset fx c;
          Ok (cur', save_recover cur' cur (RVPos (pos64 (Z.of_N off) (zlen data - Z.of_N off))) ld, data')
        else Ok (cur', ld, data')
      else
        do off <- cmd_value_offset fx c;
        let L := len (d_bytes m) in
        if len data <? off then Panic (site fn_pld "CMD-OFFSET")
        else if L <? 6 then Panic (site fn_pld "SHORT-VALUE")
        else
          let vs := (zlen data - Z.of_N off)%Z in
          let data2 := le32 (Z.of_N L - 4 + vs) ++ [0; nthd (d_bytes m) 5] ++ skipn_n 6 (d_bytes m) ++ skipn_n off data in
          let cur' := Some (mk_mdata data2 T_APPEND aof) in
          Ok (cur', if pe_recover env then save_recover cur' cur (RVPos (pos64 (Z.of_N L) vs)) ld else ld, data)
  | None =>
      let data' := firstn_n 4 data ++ [0] ++ skipn_n 5 data in
      let cur' := Some {| d_bytes := data'; d_cap := c_cap c; d_type := T_APPEND; d_isaof := aof |} in
      if pe_recover env then
        do off <- cmd_value_offset fx c;
        Ok (cur', save_recover cur' cur (RVPos (pos64 (Z.of_N off) (zlen data - Z.of_N off))) ld, data')
      else Ok (cur', ld, data')
  end.

Definition op_shift (fx : fixes) (env : pd_env) (c : lcd) (cur : option mdata) (ld : option lockdata) : outcome res :=
  let data := c_data c in
  do off <- cmd_value_offset fx c;
  let lv0 := Z.of_N (cmd_u32_value c off) in
  match cur with
  | None => Ok (cur, ld, data)
  | Some m =>
      let lv1 := if fx_shift fx then Z.min lv0 (val_value_size fx m) else lv0 in
      if negb (d_type m =? T_UNSET) && (0 <? lv1)%Z then
        let L := zlen (d_bytes m) in
        let lv := Z.min lv1 L in
        let voff := val_value_offset fx m in
        if (L <? Z.of_N voff)%Z then Panic (site fn_pld "VAL-OFFSET")
        else if (L - lv <? 6)%Z || (L - lv <? Z.of_N voff)%Z then Panic (site fn_pld "SHIFT")
        else
          let data2 := le32 (L - lv - 4) ++ [0; nthd (d_bytes m) 5]
                         ++ firstn_n (voff - 6) (skipn_n 6 (d_bytes m))
                         ++ skipn_n (voff + Z.to_N lv) (d_bytes m) in
          let cur' := Some (mk_mdata data2 T_SHIFT (N.testbit (pe_flag env) bit_fromaof)) in
          Ok (cur',
              if pe_recover env
              then save_recover cur' cur (RVBytes (firstn_n (Z.to_N lv) (skipn_n voff (d_bytes m)))) ld
              else ld,
              data)
      else Ok (cur, ld, data)
  end.

Definition op_push (fx : fixes) (env : pd_env) (c : lcd) (cur : option mdata) (ld : option lockdata) : outcome res :=
  let data := c_data c in
  let aof := N.testbit (pe_flag env) bit_fromaof in
  do off <- cmd_value_offset fx c;
  if len data <? off then Panic (site fn_pld "CMD-OFFSET")
  else
    let value := skipn_n off data in
    let fin (d2 : list N) : outcome res :=
        let cur' := Some (mk_mdata d2 T_PUSH aof) in
        Ok (cur', if pe_recover env then save_recover cur' cur (RVBytes value) ld else ld, data) in
    let as_new :=
        fin (le32 (zlen data) ++ [0; N.lor (N.land (nthd data 5) 248) 2]
               ++ firstn_n (off - 6) (skipn_n 6 data) ++ le32 (zlen value) ++ value) in
    match cur with
    | Some m =>
        if negb (d_type m =? T_UNSET) && val_is_array m then
          fin (le32 (zlen (d_bytes m) + zlen value) ++ [0; N.lor (N.land (nthd (d_bytes m) 5) 248) 2]
                 ++ skipn_n 6 (d_bytes m) ++ le32 (zlen value) ++ value)
        else as_new
    | None => as_new
    end.

Definition op_pop (fx : fixes) (env : pd_env) (c : lcd) (cur : option mdata) (ld : option lockdata) : outcome res :=
  let data := c_data c in
  do off <- cmd_value_offset fx c;
  let pc := cmd_u32_value c off in
  match cur with
  | None => Ok (cur, ld, data)
  | Some m =>
      if negb (d_type m =? T_UNSET) && (0 <? pc) && val_is_array m then
        do values <- val_elems fx fn_pld m;
        let pc' := N.min pc (len values) in
        do d2 <- rebuild_array fx fn_pld m (skipn_n pc' values);
        let cur' := Some (mk_mdata d2 T_POP (N.testbit (pe_flag env) bit_fromaof)) in
        Ok (cur', if pe_recover env then save_recover cur' cur (RVValues (firstn_n pc' values)) ld else ld, data)
      else Ok (cur, ld, data)
  end.

(* after the PIPELINE loop *)
Definition pipeline_finish (env : pd_env) (orig cur : option mdata) (ld : option lockdata) (frame' : list N) : res :=
  let ld1 := set_aof frame' ld in
  match cur with
  | None => (None, ld1, frame')
  | Some m =>
      let m' := if negb (d_isaof m) && match orig with None => true | Some o => d_isaof o end
                then set_isaof m true else m in
      (Some m', if pe_recover env then save_recover (Some m') orig RVNil ld1 else ld1, frame')
  end.

(* the PIPELINE loop.  [rec] = ProcessLockData on one item (the recursive call);
   hdr = Data[:off], buf = buf[index:], n = len buf, done = the (possibly rewritten in place) items processed so far *)
Fixpoint pipeline_loop (fx : fixes) (rec : lcd -> option mdata -> option lockdata -> outcome res)
         (env : pd_env) (orig : option mdata) (hdr ccap : list N)
         (k : nat) (buf : list N) (n : N) (done : list N) (cur : option mdata) (ld : option lockdata)
         {struct k} : outcome res :=
  match k with
  | O => OutOfFuel
  | S k' =>
      if n =? 0 then Ok (pipeline_finish env orig cur ld (hdr ++ done))
      else if fx_pipeline_len fx && (n <? 4)
      then Ok (pipeline_finish env orig cur ld (hdr ++ done ++ buf))            (* repaired: break *)
      else
        match buf with
        | b0 :: b1 :: b2 :: b3 :: r =>
            let dl := b0 + 256 * b1 + 65536 * b2 + 16777216 * b3 in
            if n - 4 <? dl
            then Ok (pipeline_finish env orig cur ld (hdr ++ done ++ buf))      (* index+4+dataLen > len(buf): break *)
            else
              let item := firstn_n (4 + dl) buf in
              let rest := skipn_n dl r in
              do ic <- lcd_of_bytes fx item (rest ++ ccap);
              (* if command.Data.CommandType != EXECUTE && command.CommandType != LOCK_DATA_COMMAND_TYPE_PIPELINE
                 (always true for LOCK/UNLOCK commands) { self.currentData = currentLockData } *)
              let cur_in := if (c_type ic =? T_EXECUTE) || fx_pipeline_fold fx then cur else orig in
              do r3 <- rec ic cur_in ld;
              let '(cur2, ld2, item') := r3 in
              pipeline_loop fx rec env orig hdr ccap k' rest (n - 4 - dl) (done ++ item') cur2 ld2
        | _ => Panic (site fn_pld "PIPELINE-LEN")                               (* buf[index+1..3] out of range *)
        end
  end.

Fixpoint process_lcd (fx : fixes) (fuel : nat) (env : pd_env) (c : lcd) (cur : option mdata) (ld : option lockdata)
         {struct fuel} : outcome res :=
  match fuel with
  | O => OutOfFuel
  | S fuel' =>
      if negb (gate env c) then Ok (cur, ld, c_data c)
      else if c_type c =? T_SET then op_set env c cur ld
      else if c_type c =? T_UNSET then op_unset env c cur ld
      else if c_type c =? T_INCR then op_incr fx env c cur ld
      else if c_type c =? T_APPEND then op_append fx env c cur ld
      else if c_type c =? T_SHIFT then op_shift fx env c cur ld
      else if c_type c =? T_EXECUTE then Unsupported
      else if c_type c =? T_PIPELINE then
        let data := c_data c in
        do off <- cmd_value_offset fx c;
        if len data <? off then Panic (site fn_pld "CMD-OFFSET")   (* lockCommandData.Data[off:] *)
        else
          let buf := skipn_n off data in
          pipeline_loop fx (process_lcd fx fuel' env) env cur (firstn_n off data) (c_cap c)
                        (S (List.length buf)) buf (len buf) [] cur ld
      else if c_type c =? T_PUSH then op_push fx env c cur ld
      else if c_type c =? T_POP then op_pop fx env c cur ld
      else Ok (cur, ld, c_data c)
  end.

(* ProcessLockData on a frame as received (command.Data = NewLockCommandDataFromOriginBytes(frame)) *)
Definition process_lock_data_ex (fx : fixes) (env : pd_env) (frame : list N) (cur : option mdata) (ld : option lockdata)
  : outcome res :=
  do c <- lcd_of_bytes fx frame [];
  process_lcd fx (S (List.length frame)) env c cur ld.

Definition process_lock_data_fx (fx : fixes) (env : pd_env) (frame : list N) (cur : option mdata) (ld : option lockdata)
  : outcome (option mdata * option lockdata) :=
  do r <- process_lock_data_ex fx env frame cur ld;
  Ok (fst (fst r), snd (fst r)).

(* ------------------------------------------------------------------ ProcessAckClear / IsEmpty *)
(* currentData = recoverData = recoverValue = nil; lock.data = nil when aofData is nil too (commandDatas = nil) *)
Definition ack_clear (l : lockdata) : option lockdata :=
  match ld_aof l with
  | None => None
  | Some a => Some {| ld_aof := Some a; ld_cur := None; ld_rec := None; ld_recval := RVNil |}
  end.

(* ------------------------------------------------------------------ ProcessRecoverLockData *)
Definition restore (rd : mdata) : option mdata := Some (set_isaof rd false).

Definition process_recover_lock_data_fx (fx : fixes) (cur : option mdata) (ld : option lockdata)
  : outcome (option mdata * option lockdata) :=
  match ld with
  | None => Ok (cur, ld)
  | Some l =>
      match ld_cur l with
      | None => Ok (cur, ack_clear l)
      | Some cd =>
          match cur with
          | None =>
              if fx_recover_nil fx then Ok (cur, ack_clear l)
              else Panic (site fn_prld "RECOVER-NIL")                 (* self.currentData.commandType on nil *)
          | Some sc =>
              if negb (d_type sc =? T_UNSET) && negb (d_type cd =? d_type sc) then Ok (cur, ack_clear l)
              else
                let fin (cur' : option mdata) : outcome (option mdata * option lockdata) := Ok (cur', ack_clear l) in
                let t := if fx_recover_nil fx
                         then match ld_rec l, ld_recval l with Some _, RVNil => T_SET | _, _ => d_type cd end
                         else d_type cd in
                match ld_rec l with
                | None =>
                    if (t <=? T_SHIFT) || (t =? T_PUSH) || (t =? T_POP) || (t =? T_EXECUTE) || (t =? T_PIPELINE)
                    then fin (Some (unset_data false)) else fin cur
                | Some rd =>
                    if (t =? T_SET) || (t =? T_UNSET) then fin (restore rd)
                    else if t =? T_INCR then
                      match ld_recval l with
                      | RVInt iv =>
                          if d_type cd =? T_UNSET then fin (Some (mk_mdata (fresh_number iv) T_INCR false))
                          else
                            let total := wrap64 (val_incr_value fx cd - iv) in
                            let voff := val_value_offset fx cd in
                            if voff <=? 6 then fin (Some (mk_mdata (fresh_number total) T_INCR false))
                            else fin (Some (mk_mdata ([0; 0; 0; 0; 0; N.lor (nthd (d_bytes cd) 5) 1]
                                                        ++ pad_to (voff - 6) (skipn_n 6 (d_bytes cd)) ++ le64 total)
                                                     T_INCR false))
                      | RVNil => Panic (site fn_prld "RECOVER-NIL-VALUE")
                      | _ => Panic (site fn_prld "RECOVER-ASSERT")                         (* recoverValue.(int64) *)
                      end
                    else if t =? T_APPEND then
                      match ld_recval l with
                      | RVPos p =>
                          let idx := (p / 4294967296) mod 4294967296 in
                          let ln := p mod 4294967296 in
                          let L := len (d_bytes cd) in
                          let voff := val_value_offset fx cd in
                          if (idx + ln <=? L) && (negb (fx_recover_nil fx) || (voff <=? idx)) then
                            (* make(L-ln); data[0..5]; data[6:] <- cd[6:voff]; data[voff:] <- cd[voff:idx]; data[idx:] <- cd[idx+ln:] *)
                            if (L - ln <? 6) || (L <? 6) then Panic (site fn_prld "RECOVER-BOUNDS")
                            else
                              match (if 6 <? voff then slice2 (d_bytes cd) (d_cap cd) 6 voff else Some []),
                                    (if voff <=? L - ln then slice2 (d_bytes cd) (d_cap cd) voff idx else None) with
                              | Some props, Some mid =>
                                  let n := L - ln in
                                  let base := le32 (Z.of_N n - 4) ++ [0; nthd (d_bytes cd) 5] ++ zeros (n - 6) in
                                  let ov (dst : list N) (pos : N) (src : list N) : list N :=
                                      firstn_n pos dst ++ firstn_n (len dst - pos) src
                                        ++ skipn_n (pos + len (firstn_n (len dst - pos) src)) dst in
                                  fin (Some (mk_mdata (ov (ov (ov base 6 props) voff mid) idx (skipn_n (idx + ln) (d_bytes cd)))
                                                      T_APPEND false))
                              | _, _ => Panic (site fn_prld "VAL-OFFSET")
                              end
                          else fin cur
                      | RVNil => Panic (site fn_prld "RECOVER-NIL-VALUE")
                      | _ => Panic (site fn_prld "RECOVER-ASSERT")                         (* recoverValue.(uint64) *)
                      end
                    else if t =? T_SHIFT then
                      match ld_recval l with
                      | RVBytes sd =>
                          let voff := val_value_offset fx cd in
                          let L := len (d_bytes cd) in
                          (* properties are NOT copied: data[6:voff] stays zero *)
                          if (L <? 6) || (L <? voff) then Panic (site fn_prld "VAL-OFFSET")
                          else fin (Some (mk_mdata (le32 (zlen sd + Z.of_N L - 4) ++ [0; nthd (d_bytes cd) 5]
                                                      ++ zeros (voff - 6) ++ sd ++ skipn_n voff (d_bytes cd))
                                                   T_SHIFT false))
                      | RVNil => Panic (site fn_prld "RECOVER-NIL-VALUE")
                      | _ => Panic (site fn_prld "RECOVER-ASSERT")                         (* recoverValue.([]byte) *)
                      end
                    else if (t =? T_EXECUTE) || (t =? T_PIPELINE) then
                      if val_equal sc (d_bytes rd) then fin cur else fin (restore rd)
                    else if t =? T_PUSH then
                      if val_is_array rd && negb (d_type sc =? T_UNSET) && val_is_array sc then
                        match ld_recval l with
                        | RVBytes rv =>
                            do values <- val_elems fx fn_prld sc;
                            match values with
                            | [] => fin cur
                            | _ :: _ =>
                                (* recoverIndex = index of the LAST element equal to rv, 0 when there is none *)
                                let idx := fold_left (fun (a : N * N) v => (if list_eqb v rv then snd a else fst a, N.succ (snd a)))
                                                     values (0, 0) in
                                let ri := fst idx in
                                do d2 <- rebuild_array fx fn_prld sc (firstn_n ri values ++ skipn_n (ri + 1) values);
                                fin (Some (mk_mdata d2 T_POP false))
                            end
                        | RVNil => Panic (site fn_prld "RECOVER-NIL-VALUE")
                      | _ => Panic (site fn_prld "RECOVER-ASSERT")                       (* recoverValue.([]byte) *)
                        end
                      else fin cur
                    else if t =? T_POP then
                      if val_is_array rd && negb (d_type sc =? T_UNSET) && val_is_array sc then
                        match ld_recval l with
                        | RVValues pv =>
                            do values <- val_elems fx fn_prld sc;
                            do d2 <- rebuild_array fx fn_prld sc (pv ++ values);
                            fin (Some (mk_mdata d2 T_PUSH false))
                        | RVNil =>
                            do values <- val_elems fx fn_prld sc;
                            do d2 <- rebuild_array fx fn_prld sc values;
                            fin (Some (mk_mdata d2 T_PUSH false))
                        | _ => Panic (site fn_prld "RECOVER-ASSERT")                       (* recoverValue.([][]byte) *)
                        end
                      else fin cur
                    else fin cur
                end
          end
      end
  end.

(* ------------------------------------------------------------------ ProcessAckLockData *)
Definition process_ack_lock_data (cur : option mdata) (ld : option lockdata)
  : outcome (option (list N) * option lockdata) :=
  match ld with
  | None => Ok (get_lock_data cur, None)
  | Some l => Ok (match ld_rec l with Some rd => val_get_data rd | None => None end, ack_clear l)
  end.

(* ------------------------------------------------------------------ AofLockData *)
Definition aof_lock_data (islock : bool) (cur : option mdata) (ld : option lockdata)
  : option (list N) * option mdata * option lockdata :=
  match ld with
  | Some {| ld_aof := Some a; ld_cur := lc; ld_rec := lr; ld_recval := rv |} =>
      (Some a, cur,
       match lc with
       | None => None                                                (* IsEmpty: aof, currentData, commandDatas nil *)
       | Some _ => Some {| ld_aof := None; ld_cur := lc; ld_rec := lr; ld_recval := rv |}
       end)
  | _ =>
      match cur with
      | Some m => if islock || negb (d_isaof m) then (Some (d_bytes m), Some (set_isaof m true), ld) else (None, cur, ld)
      | None => (None, cur, ld)
      end
  end.

(* ------------------------------------------------------------------ the interface, for the tree being checked *)
Definition process_lock_data := process_lock_data_fx current_fixes.
Definition process_recover_lock_data := process_recover_lock_data_fx current_fixes.
