(* C10, forwarding half: the REQUEST-ID MATCHING state machine that decides which result a text client is handed.

   Transcribed from server/transparency.go (TransparencyBinaryClientProtocol.Write 86-98, processTextProcotol 179-199,
   rollbackLatestCommand 201-236, TransparencyTextServerProtocol.commandHandlerLock/Unlock/KeyWriteValue 1197-1378,
   commandHandlerPush 1312-1340) and, for the connection that talks to the leader itself, from server/protocol.go
   (TextServerProtocol.ProcessLockResultCommand 2473-2509, ProcessLockResultCommandLocked 2511-2521, commandHandlerLock
   2667-2710, commandHandlerPush 2762-2782).

   What is modelled: lockRequestId (all-zero = "nobody waits"), latestRequestId / latestCommandType (0xff = nothing
   pending), the channel lockWaiter (capacity 4) and the handler goroutine that blocks in `<-lockWaiter`.
   What is not: bytes, the lock engine (the leader's answers are arbitrary payloads), TCP.                              *)
From Coq Require Import List NArith Bool Lia.
Import ListNotations.
Open Scope N_scope.

Inductive reply :=
| RLeader (rid payload : N)   (* a LockResultCommand; on the relay: read from the link to the leader *)
| RRollback (rid : N)         (* made up by rollbackLatestCommand: Result = RESULT_ERROR, RequestId = latestRequestId *)
| ROk                         (* "+OK" of commandHandlerPush *)
| RLinkErr.                   (* "-ERR Leader Server Error" / "-ERR Lock Error": CheckClient or Write failed *)

(* the reply is an answer to command w *)
Definition answers (w : N) (r : reply) : Prop :=
  match r with RLeader rid _ => rid = w | RRollback rid => rid = w | ROk => True | RLinkErr => True end.

Record st := mk {
  lockRid : N;                 (* TextServerProtocol.lockRequestId *)
  latestRid : N;               (* TransparencyBinaryClientProtocol.latestRequestId *)
  latestPending : bool;        (* latestCommandType <> 0xff *)
  chan : list reply;           (* contents of lockWaiter *)
  waiting : option N;          (* the handler goroutine sits in `<-lockWaiter` for this command *)
  handed : list (N * reply)    (* what the handlers wrote to the text client: (command, result) in order *)
}.

Definition init : st := mk 0 0 false [] None [].

Inductive outcome :=
| Ok (s : st)
| NotEnabled        (* the event cannot happen: the handler goroutine is still blocked in an earlier command *)
| SenderBlocked.    (* `lockWaiter <- result` with 4 results inside: the sending goroutine blocks *)

Definition CAP : nat := 4.

(* the blocked handler takes the head of the channel *)
Definition deliver (s : st) : st :=
  match waiting s, chan s with
  | Some w, r :: q => mk (lockRid s) (latestRid s) (latestPending s) q None (handed s ++ [(w, r)])
  | _, _ => s
  end.

(* ------------------------------------------------------------------ relay (text connection on a non-leader) *)

(* processTextProcotol for a LockResultCommand with RequestId rid *)
Definition recv (s : st) (rid : N) (r : reply) : outcome :=
  let pend := if latestRid s =? rid then false else latestPending s in
  if rid =? lockRid s then
    if Nat.leb CAP (length (chan s)) then SenderBlocked
    else Ok (deliver (mk 0 (latestRid s) pend (chan s ++ [r]) (waiting s) (handed s)))
  else Ok (mk (lockRid s) (latestRid s) pend (chan s) (waiting s) (handed s)).

Inductive event :=
| EFwdWait (rid : N)            (* LOCK / UNLOCK / SET ...: forwarded, the handler waits for the result *)
| EFwdPush (rid : N)            (* PUSH: forwarded, answered +OK at once *)
| EFwdFail (rid : N)            (* CheckClient / Write failed: error line, nothing forwarded *)
| EReply (rid payload : N)      (* the link reader decoded a LockResultCommand *)
| EDrop.                        (* the link reader got an error: rollbackLatestCommand *)

Definition step (s : st) (e : event) : outcome :=
  match e with
  | EFwdWait rid =>
      match waiting s with
      | Some _ => NotEnabled
      | None =>
          (* lockRequestId = rid; Write: latestRequestId = rid, latestCommandType = LOCK; then <-lockWaiter *)
          match chan s with
          | r :: q => Ok (mk rid rid true q None (handed s ++ [(rid, r)]))
          | [] => Ok (mk rid rid true [] (Some rid) (handed s))
          end
      end
  | EFwdPush rid =>
      match waiting s with
      | Some _ => NotEnabled
      | None => Ok (mk (lockRid s) rid true (chan s) None (handed s ++ [(rid, ROk)]))
      end
  | EFwdFail rid =>
      match waiting s with
      | Some _ => NotEnabled
      | None => Ok (mk (lockRid s) (latestRid s) (latestPending s) (chan s) None (handed s ++ [(rid, RLinkErr)]))
      end
  | EReply rid p => recv s rid (RLeader rid p)
  | EDrop =>
      if latestPending s then recv s (latestRid s) (RRollback (latestRid s))
      else Ok s
  end.

Fixpoint run (s : st) (evs : list event) : outcome :=
  match evs with
  | [] => Ok s
  | e :: tl => match step s e with Ok s' => run s' tl | o => o end
  end.

(* request ids come from GenRequestId and are never all-zero; the all-zero id is the "nobody waits" sentinel *)
Definition ev_nonzero (e : event) : Prop :=
  match e with
  | EFwdWait rid | EFwdPush rid | EFwdFail rid => rid <> 0
  | EReply rid _ => rid <> 0
  | EDrop => True
  end.

Definition fwd_rid (e : event) : list N :=
  match e with EFwdWait rid | EFwdPush rid | EFwdFail rid => [rid] | _ => [] end.

Definition fwd_rids (evs : list event) : list N := flat_map fwd_rid evs.

(* where a handed result may come from *)
Definition sourced (evs : list event) (wr : N * reply) : Prop :=
  let (w, r) := wr in
  match r with
  | RLeader rid p => rid = w /\ In (EReply rid p) evs /\ In (EFwdWait w) evs
  | RRollback rid => rid = w /\ In EDrop evs /\ In (EFwdWait w) evs
  | ROk => In (EFwdPush w) evs
  | RLinkErr => In (EFwdFail w) evs
  end.

Definition pending_list (s : st) : list N := match waiting s with Some w => [w] | None => [] end.

(* invariant, relative to the events seen so far *)
Record Inv (seen : list event) (s : st) : Prop := {
  inv_chan : chan s = [];
  inv_wait : match waiting s with
             | Some w => lockRid s = w /\ w <> 0 /\ latestRid s = w /\ latestPending s = true /\ In (EFwdWait w) seen
             | None => lockRid s = 0
             end;
  inv_latest : latestPending s = true -> latestRid s <> 0;
  inv_handed : Forall (sourced seen) (handed s);
  inv_order : map fst (handed s) ++ pending_list s = fwd_rids seen
}.

Lemma sourced_mono : forall seen e wr, sourced seen wr -> sourced (seen ++ [e]) wr.
Proof.
  intros seen e [w r] H. destruct r; simpl in *; intuition auto using in_or_app.
Qed.

Lemma Forall_sourced_mono : forall seen e l, Forall (sourced seen) l -> Forall (sourced (seen ++ [e])) l.
Proof. intros. eapply Forall_impl; [|eassumption]. intros; now apply sourced_mono. Qed.

Lemma fwd_rids_app : forall a b, fwd_rids (a ++ b) = fwd_rids a ++ fwd_rids b.
Proof. intros. unfold fwd_rids. now rewrite flat_map_app. Qed.

Lemma fwd_rids_snoc : forall a e, fwd_rids (a ++ [e]) = fwd_rids a ++ fwd_rid e.
Proof. intros. rewrite fwd_rids_app. unfold fwd_rids at 2. simpl. now rewrite app_nil_r. Qed.

Lemma in_last : forall (A : Type) (l : list A) x, In x (l ++ [x]).
Proof. intros. apply in_or_app. right. now left. Qed.

Lemma Inv_init : Inv [] init.
Proof. constructor; simpl; auto. discriminate. Qed.

(* recv under the invariant: either dropped, or handed to exactly the waiting command *)
Lemma recv_inv : forall seen s rid r e s',
  Inv seen s -> rid <> 0 -> fwd_rid e = [] ->
  answers rid r ->
  (forall w, waiting s = Some w -> rid = w -> sourced (seen ++ [e]) (w, r)) ->
  recv s rid r = Ok s' -> Inv (seen ++ [e]) s'.
Proof.
  intros seen s rid r e s' [Hc Hw Hl Hh Ho] Hnz Hfe Hans Hsrc Hr.
  unfold recv in Hr. rewrite Hc in Hr. simpl in Hr.
  destruct (rid =? lockRid s) eqn:Em.
  - apply N.eqb_eq in Em.
    destruct (waiting s) as [w|] eqn:Ew.
    + destruct Hw as (Hlw & Hwnz & Hlat & Hpen & Hin). subst w.
      inversion Hr; subst s'; clear Hr. unfold deliver; simpl.
      constructor; simpl; auto.
      * apply Forall_app. split; [now apply Forall_sourced_mono|].
        constructor; [|constructor]. apply Hsrc; auto.
      * unfold pending_list in Ho. rewrite Ew in Ho. rewrite fwd_rids_app. unfold fwd_rids at 2. simpl. rewrite Hfe.
        rewrite map_app. simpl. rewrite app_nil_r. simpl in Ho. now rewrite app_nil_r.
    + exfalso. rewrite Hw in Em. contradiction.
  - inversion Hr; subst s'; clear Hr.
    constructor; simpl; auto.
    + destruct (waiting s) as [w|] eqn:Ew; auto.
      destruct Hw as (Hlw & Hwnz & Hlat & Hpen & Hin).
      repeat split; auto.
      * destruct (latestRid s =? rid) eqn:El; auto. apply N.eqb_eq in El. apply N.eqb_neq in Em. congruence.
      * apply in_or_app. now left.
    + intros Hp. destruct (latestRid s =? rid); [discriminate|auto].
    + now apply Forall_sourced_mono.
    + rewrite fwd_rids_app. unfold fwd_rids at 2. simpl. rewrite Hfe. rewrite app_nil_r.
      unfold pending_list in *. simpl. exact Ho.
Qed.

Lemma recv_not_blocked : forall seen s rid r, Inv seen s -> recv s rid r <> SenderBlocked.
Proof.
  intros seen s rid r [Hc _ _ _ _]. unfold recv. rewrite Hc. simpl.
  destruct (rid =? lockRid s); discriminate.
Qed.

Lemma step_inv : forall seen s e s',
  Inv seen s -> ev_nonzero e -> step s e = Ok s' -> Inv (seen ++ [e]) s'.
Proof.
  intros seen s e s' HI Hnz Hs.
  destruct e as [rid|rid|rid|rid p|]; simpl in Hs, Hnz.
  - (* EFwdWait *)
    destruct HI as [Hc Hw Hl Hh Ho].
    destruct (waiting s) eqn:Ew; [discriminate|].
    rewrite Hc in Hs. inversion Hs; subst s'; clear Hs.
    constructor; simpl; auto.
    + repeat split; auto. apply in_last.
    + now apply Forall_sourced_mono.
    + rewrite fwd_rids_snoc. unfold pending_list in *. rewrite Ew in Ho. simpl in *. rewrite app_nil_r in Ho.
      now rewrite Ho.
  - (* EFwdPush *)
    destruct HI as [Hc Hw Hl Hh Ho].
    destruct (waiting s) eqn:Ew; [discriminate|].
    inversion Hs; subst s'; clear Hs.
    constructor; simpl; auto.
    + apply Forall_app. split; [now apply Forall_sourced_mono|].
      constructor; [|constructor]. simpl. apply in_last.
    + rewrite fwd_rids_snoc. unfold pending_list in *. rewrite Ew in Ho. simpl in *. rewrite app_nil_r in *.
      rewrite map_app. simpl. now rewrite Ho.
  - (* EFwdFail *)
    destruct HI as [Hc Hw Hl Hh Ho].
    destruct (waiting s) eqn:Ew; [discriminate|].
    inversion Hs; subst s'; clear Hs.
    constructor; simpl; auto.
    + apply Forall_app. split; [now apply Forall_sourced_mono|].
      constructor; [|constructor]. simpl. apply in_last.
    + rewrite fwd_rids_snoc. unfold pending_list in *. rewrite Ew in Ho. simpl in *. rewrite app_nil_r in *.
      rewrite map_app. simpl. now rewrite Ho.
  - (* EReply *)
    eapply recv_inv; eauto; simpl; auto.
    intros w Hw Heq. subst w. simpl. repeat split; auto.
    + apply in_last.
    + destruct HI as [_ Hw' _ _ _]. rewrite Hw in Hw'. destruct Hw' as (_ & _ & _ & _ & Hin). apply in_or_app. now left.
  - (* EDrop *)
    destruct (latestPending s) eqn:Ep.
    + eapply recv_inv; eauto; simpl; auto.
      * destruct HI as [_ _ Hl _ _]. auto.
      * intros w Hw Heq. simpl. repeat split; auto.
        -- apply in_last.
        -- destruct HI as [_ Hw' _ _ _]. rewrite Hw in Hw'. destruct Hw' as (_ & _ & _ & _ & Hin). apply in_or_app. now left.
    + inversion Hs; subst s'; clear Hs.
      destruct HI as [Hc Hw Hl Hh Ho].
      constructor; auto.
      * destruct (waiting s); auto. destruct Hw as (? & ? & ? & ? & ?). congruence.
      * now apply Forall_sourced_mono.
      * rewrite fwd_rids_snoc. simpl. now rewrite app_nil_r.
Qed.

Lemma run_inv : forall evs seen s s',
  Inv seen s -> Forall ev_nonzero evs -> run s evs = Ok s' -> Inv (seen ++ evs) s'.
Proof.
  induction evs as [|e tl IH]; intros seen s s' HI Hnz Hr; simpl in Hr.
  - inversion Hr; subst. now rewrite app_nil_r.
  - inversion Hnz; subst.
    destruct (step s e) as [s1| |] eqn:Es; try discriminate.
    replace (seen ++ e :: tl) with ((seen ++ [e]) ++ tl) by (rewrite <- app_assoc; reflexivity).
    eapply IH; eauto. eapply step_inv; eauto.
Qed.

(* MAIN: whatever the text client is handed for command w is an answer to w that really came from where it claims;
   every forwarded command is answered exactly once and in order (the last one may still be waiting). *)
Theorem relay_exact : forall evs s,
  Forall ev_nonzero evs -> run init evs = Ok s ->
  Forall (sourced evs) (handed s) /\
  Forall (fun wr => answers (fst wr) (snd wr)) (handed s) /\
  map fst (handed s) ++ pending_list s = fwd_rids evs.
Proof.
  intros evs s Hnz Hr.
  pose proof (run_inv evs [] init s Inv_init Hnz Hr) as [Hc Hw Hl Hh Ho]. simpl in *.
  repeat split; auto.
  eapply Forall_impl; [|exact Hh]. intros [w r] H. destruct r; simpl in *; intuition.
Qed.

(* the link reader never blocks on a full channel *)
Theorem relay_reader_never_blocks : forall evs, Forall ev_nonzero evs -> run init evs <> SenderBlocked.
Proof.
  intros evs. change init with init. generalize (@nil event), init, Inv_init.
  induction evs as [|e tl IH]; intros seen s HI Hnz; simpl; [discriminate|].
  inversion Hnz; subst.
  destruct (step s e) as [s1| |] eqn:Es.
  - eapply IH; eauto. eapply step_inv; eauto.
  - discriminate.
  - exfalso. destruct e; simpl in Es.
    + destruct (waiting s); [discriminate|]. destruct (chan s); discriminate.
    + destruct (waiting s); discriminate.
    + destruct (waiting s); discriminate.
    + eapply recv_not_blocked; eauto.
    + destruct (latestPending s); [eapply recv_not_blocked; eauto|discriminate].
Qed.

(* a dropped link never leaves the text client's handler waiting *)
Theorem relay_drop_releases : forall evs s,
  Forall ev_nonzero evs -> run init (evs ++ [EDrop]) = Ok s -> waiting s = None.
Proof.
  intros evs s Hnz Hr.
  assert (Hsplit : exists s0, run init evs = Ok s0 /\ step s0 EDrop = Ok s).
  { clear Hnz. revert Hr. generalize init. induction evs as [|e tl IH]; intros s0 Hr; simpl in *.
    - destruct (if latestPending s0 then _ else _) eqn:E; try discriminate. inversion Hr; subst. eauto.
    - destruct (step s0 e); try discriminate. now apply IH. }
  destruct Hsplit as (s0 & Hr0 & Hs).
  pose proof (run_inv evs [] init s0 Inv_init Hnz Hr0) as [Hc Hw Hl Hh Ho]. simpl in *.
  destruct (waiting s0) as [w|] eqn:Ew.
  - destruct Hw as (Hlw & Hwnz & Hlat & Hpen & Hin). rewrite Hpen in Hs.
    unfold recv in Hs. rewrite Hc, Hlat, Hlw, N.eqb_refl in Hs. simpl in Hs.
    inversion Hs; subst s. unfold deliver. simpl. rewrite Ew. reflexivity.
  - destruct (latestPending s0) eqn:Ep.
    + unfold recv in Hs. rewrite Hc, Hw in Hs. simpl in Hs.
      destruct (latestRid s0 =? 0) eqn:Ez.
      * apply N.eqb_eq in Ez. exfalso. now apply Hl.
      * inversion Hs; subst s. simpl. exact Ew.
    + inversion Hs; subst s. exact Ew.
Qed.

(* the hypothesis is needed: the all-zero id is the sentinel.  A fire-and-forget command with id 0, then a link
   drop, leaves a stale result in the channel and the next command is handed the wrong one. *)
Example relay_zero_id_boundary :
  exists s, run init [EFwdPush 0; EDrop; EFwdWait 5] = Ok s /\ In (5, RRollback 0) (handed s).
Proof. eexists. split; [vm_compute; reflexivity|]. simpl. auto. Qed.

(* ------------------------------------------------------------------ the text connection on the LEADER itself *)
(* The same TextServerProtocol serves a client connected to the leader; there the results are not read from a link
   but produced by LockDB.Lock/UnLock:  synchronously, in the handler's own goroutine, through
   ProcessLockResultCommand (which does NOT look at lockRequestId), or later from a timer / wake-up goroutine through
   ProcessLockResultCommandLocked (which does).  `guard` = ProcessLockResultCommand compares the RequestId with
   lockRequestId first (the repair proposed_fixes/c10proc_text_push_result.diff); the check derives it from the source. *)

Inductive devent :=
| DWait (rid : N) (now : option N)   (* LOCK/UNLOCK/SET...; now = Some p: the engine answers inside Lock() *)
| DPush (rid : N) (now : option N)   (* PUSH *)
| DLate (rid p : N).                 (* result from another goroutine *)

Record dst := dmk { dlockRid : N; dchan : list reply; dwaiting : option N; dhanded : list (N * reply) }.
Definition dinit : dst := dmk 0 [] None [].

Inductive doutcome := DOk (s : dst) | DNotEnabled | DBlocked.

(* ProcessLockResultCommand *)
Definition sync_result (guard : bool) (s : dst) (rid p : N) : doutcome :=
  if guard && negb (rid =? dlockRid s) then DOk s
  else if Nat.leb CAP (length (dchan s)) then DBlocked
  else DOk (dmk 0 (dchan s ++ [RLeader rid p]) (dwaiting s) (dhanded s)).

Definition dstep (guard : bool) (s : dst) (e : devent) : doutcome :=
  match e with
  | DWait rid now =>
      match dwaiting s with
      | Some _ => DNotEnabled
      | None =>
          let s1 := dmk rid (dchan s) None (dhanded s) in
          match (match now with Some p => sync_result guard s1 rid p | None => DOk s1 end) with
          | DOk s2 =>
              match dchan s2 with
              | r :: q => DOk (dmk (dlockRid s2) q None (dhanded s2 ++ [(rid, r)]))
              | [] => DOk (dmk (dlockRid s2) [] (Some rid) (dhanded s2))
              end
          | o => o
          end
      end
  | DPush rid now =>
      match dwaiting s with
      | Some _ => DNotEnabled
      | None =>
          match (match now with Some p => sync_result guard s rid p | None => DOk s end) with
          | DOk s2 => DOk (dmk (dlockRid s2) (dchan s2) None (dhanded s2 ++ [(rid, ROk)]))
          | o => o
          end
      end
  | DLate rid p =>
      if rid =? dlockRid s then
        if Nat.leb CAP (length (dchan s)) then DBlocked
        else
          let c := dchan s ++ [RLeader rid p] in
          match dwaiting s, c with
          | Some w, r :: q => DOk (dmk 0 q None (dhanded s ++ [(w, r)]))
          | _, _ => DOk (dmk 0 c (dwaiting s) (dhanded s))
          end
      else DOk s
  end.

Fixpoint drun (guard : bool) (s : dst) (evs : list devent) : doutcome :=
  match evs with
  | [] => DOk s
  | e :: tl => match dstep guard s e with DOk s' => drun guard s' tl | o => o end
  end.

Definition dev_nonzero (e : devent) : Prop :=
  match e with DWait rid _ | DPush rid _ | DLate rid _ => rid <> 0 end.

(* as written (guard = false): one PUSH shifts every later result of the connection by one ... *)
Theorem direct_push_shifts : exists evs s w rid p,
  Forall dev_nonzero evs /\ drun false dinit evs = DOk s /\ In (w, RLeader rid p) (dhanded s) /\ rid <> w.
Proof.
  exists [DPush 1 (Some 10); DWait 2 (Some 20)]. eexists. exists 2, 1, 10.
  split; [repeat constructor; discriminate|]. split; [vm_compute; reflexivity|]. split; [simpl; auto|discriminate].
Qed.

(* ... and the fifth one blocks the connection's goroutine for ever *)
Theorem direct_push_blocks :
  drun false dinit [DPush 1 (Some 10); DPush 2 (Some 20); DPush 3 (Some 30); DPush 4 (Some 40); DPush 5 (Some 50)] = DBlocked.
Proof. vm_compute. reflexivity. Qed.

(* with the guard the direct connection is exact as well *)
Record DInv (s : dst) : Prop := {
  dinv_chan : dchan s = [];
  dinv_wait : match dwaiting s with Some w => dlockRid s = w /\ w <> 0 | None => dlockRid s = 0 end;
  dinv_handed : Forall (fun wr => answers (fst wr) (snd wr)) (dhanded s)
}.

Lemma dstep_inv : forall s e s', DInv s -> dev_nonzero e -> dstep true s e = DOk s' -> DInv s'.
Proof.
  intros s e s' [Hc Hw Hh] Hnz Hs.
  destruct e as [rid now|rid now|rid p]; simpl in Hs, Hnz.
  - destruct (dwaiting s) eqn:Ew; [discriminate|].
    destruct now as [p|].
    + unfold sync_result in Hs. simpl in Hs. rewrite N.eqb_refl in Hs. simpl in Hs. rewrite Hc in Hs. simpl in Hs.
      inversion Hs; subst s'; clear Hs. constructor; simpl; auto.
      apply Forall_app. split; auto. constructor; [|constructor]. simpl. reflexivity.
    + rewrite Hc in Hs. inversion Hs; subst s'; clear Hs. constructor; simpl; auto.
  - destruct (dwaiting s) eqn:Ew; [discriminate|].
    destruct now as [p|].
    + unfold sync_result in Hs. rewrite Hw in Hs.
      destruct (rid =? 0) eqn:Ez; [apply N.eqb_eq in Ez; contradiction|]. simpl in Hs.
      inversion Hs; subst s'; clear Hs. constructor; simpl; auto.
      apply Forall_app. split; auto. constructor; [|constructor]. simpl. exact I.
    + inversion Hs; subst s'; clear Hs. constructor; simpl; auto.
      apply Forall_app. split; auto. constructor; [|constructor]. simpl. exact I.
  - destruct (rid =? dlockRid s) eqn:Em.
    + apply N.eqb_eq in Em. rewrite Hc in Hs. simpl in Hs.
      destruct (dwaiting s) as [w|] eqn:Ew.
      * destruct Hw as [Hlw Hwnz]. inversion Hs; subst s'; clear Hs. constructor; simpl; auto.
        apply Forall_app. split; auto. constructor; [|constructor]. simpl. congruence.
      * exfalso. rewrite Hw in Em. contradiction.
    + inversion Hs; subst s'. constructor; auto.
Qed.

Theorem direct_guarded_exact : forall evs s,
  Forall dev_nonzero evs -> drun true dinit evs = DOk s ->
  Forall (fun wr => answers (fst wr) (snd wr)) (dhanded s).
Proof.
  intros evs. assert (H0 : DInv dinit) by (constructor; simpl; auto). revert H0. generalize dinit.
  induction evs as [|e tl IH]; intros s0 HI s Hnz Hr; simpl in Hr.
  - inversion Hr; subst. now destruct HI.
  - inversion Hnz; subst. destruct (dstep true s0 e) as [s1| |] eqn:Es; try discriminate.
    apply (IH s1); auto. eapply dstep_inv; eauto.
Qed.

Theorem direct_guarded_never_blocks : forall evs, Forall dev_nonzero evs -> drun true dinit evs <> DBlocked.
Proof.
  intros evs. assert (H0 : DInv dinit) by (constructor; simpl; auto). revert H0. generalize dinit.
  induction evs as [|e tl IH]; intros s0 HI Hnz; simpl; [discriminate|].
  inversion Hnz; subst. destruct (dstep true s0 e) as [s1| |] eqn:Es.
  - apply (IH s1); auto. eapply dstep_inv; eauto.
  - discriminate.
  - exfalso. destruct HI as [Hc Hw Hh]. destruct e as [rid now|rid now|rid p]; simpl in Es.
    + destruct (dwaiting s0); [discriminate|]. destruct now as [p|].
      * unfold sync_result in Es. simpl in Es. rewrite N.eqb_refl in Es. simpl in Es. rewrite Hc in Es. simpl in Es. discriminate.
      * rewrite Hc in Es. discriminate.
    + destruct (dwaiting s0); [discriminate|]. destruct now as [p|]; [|discriminate].
      unfold sync_result in Es. rewrite Hc in Es. simpl in Es.
      destruct (negb (rid =? dlockRid s0)); simpl in Es; discriminate.
    + rewrite Hc in Es. simpl in Es. destruct (rid =? dlockRid s0); [|discriminate].
      destruct (dwaiting s0); discriminate.
Qed.

(* ------------------------------------------------------------------ binary connection: roll-back on a dropped link *)
(* TransparencyBinaryClientProtocol keeps ONE (latestRequestId, latestCommandType) for a pipelined binary client.
   inflight = forwarded commands whose result has not been relayed yet.  On a link error rollbackLatestCommand makes
   up a result for the latest command only and the link is replaced; nothing else is ever answered. *)
Record bst := bmk { binflight : list N; blatest : N; bpending : bool; banswered : list N }.
Definition binit : bst := bmk [] 0 false [].

Inductive bevent := BFwd (rid : N) | BReply (rid : N) | BDrop.

Fixpoint remove1 (x : N) (l : list N) : list N :=
  match l with [] => [] | y :: tl => if x =? y then tl else y :: remove1 x tl end.

Definition bstep (s : bst) (e : bevent) : bst :=
  match e with
  | BFwd rid => bmk (binflight s ++ [rid]) rid true (banswered s)
  | BReply rid => bmk (remove1 rid (binflight s)) (blatest s) (if blatest s =? rid then false else bpending s) (banswered s ++ [rid])
  | BDrop =>
      (* results still on the old link are gone with it *)
      if bpending s then bmk (remove1 (blatest s) (binflight s)) (blatest s) false (banswered s ++ [blatest s])
      else s
  end.

Definition brun (evs : list bevent) : bst := fold_left bstep evs binit.

(* "after a link drop every command that was in flight has been answered" fails as soon as two are in flight *)
Theorem binary_rollback_loses_replies : exists evs rid,
  In (BFwd rid) evs /\ In BDrop evs /\ ~ In rid (banswered (brun evs)) /\ In rid (binflight (brun evs)).
Proof.
  exists [BFwd 1; BFwd 2; BDrop], 1. vm_compute. repeat split; auto.
  intros [H|[]]. discriminate.
Qed.

(* with one command in flight at a time (the text case, and a binary client that never pipelines) nothing is lost *)
Theorem binary_rollback_single_ok : forall rid,
  binflight (brun [BFwd rid; BDrop]) = [] /\ banswered (brun [BFwd rid; BDrop]) = [rid].
Proof. intros. unfold brun. simpl. rewrite N.eqb_refl. auto. Qed.
