(* C15_text -- refinement: on the fragment KvSpec.frag_run every sequence of the Redis-style commands, started from the
   empty database on one connection, is answered by the model of the server (KvModel.kv_run) like the plain store
   (KvSpec.spec_run).  Per command: the converted request, the engine lemma (KvEngine), the value operation
   (KvData / Data.Refine), the result writer; the invariant KvInv.Inv is preserved. *)
From Coq Require Import List NArith ZArith Bool String Lia.
From Slock Require Import Base.Util Data.Data Data.DataProofs Data.Spec Data.Refine
     Engine.Types Engine.Queues Engine.Timers Engine.Engine Engine.Engine2 Engine.LocalBase
     Kv.KvModel Kv.KvSpec Kv.KvData Kv.KvBase Kv.KvEngine Kv.KvInv.
Import ListNotations.
Open Scope N_scope.

(* the repairs of the value layer that the proofs rely on are in the tree under test (Data/FixFlags.v is derived from
   the Go source by checks/C15_data.py on every run; this lemma stops compiling when one of them is missing) *)
Lemma current_fixes8 : fixes8 current_fixes.
Proof. repeat split; reflexivity. Qed.

Lemma wrap64_id z : in_int64 z = true -> wrap64 z = z.
Proof.
  unfold in_int64, wrap64, two63, two64. intros H. apply andb_true_iff in H. destruct H as [A B].
  apply Z.leb_le in A. apply Z.leb_le in B. rewrite Z.mod_small by lia. lia.
Qed.

Lemma parse_int_range d z : parse_int d = Some z -> in_int64 z = true.
Proof.
  unfold parse_int. destruct d as [|c r]; [discriminate|].
  assert (G : forall neg body, match body with
                | [] => None
                | _ :: _ => match digits body 0 with
                            | Some v => let v' := if neg : bool then (- v)%Z else v in
                                        if ((-9223372036854775808 <=? v') && (v' <=? 9223372036854775807))%Z then Some v' else None
                            | None => None end end = Some z -> in_int64 z = true).
  { intros neg body. destruct body; [discriminate|]. destruct (digits _ _); [|discriminate]. cbv zeta.
    match goal with |- (if ?b then _ else _) = _ -> _ => destruct b eqn:E end; [|discriminate].
    intros X. injection X as <-. exact E. }
  destruct (c =? 43) eqn:E1; [apply N.eqb_eq in E1; subst; apply (G false)|].
  destruct (c =? 45) eqn:E2; [apply N.eqb_eq in E2; subst; apply (G true)|].
  intros H. apply (G false (c :: r)).
  destruct c as [|p]; [exact H|]. do 6 (destruct p as [p|p|]; try exact H); try discriminate E1; try discriminate E2.
Qed.

(* ---------------------------------------------------------------------------------------------- rendering stored values *)
Lemma str_val_bits a s : str_val a s -> N.testbit (Spec.a_flag a) 4 = true /\ hdr_ok (Spec.a_flag a) (Spec.a_hdr a).
Proof. intros (F & H & _). rewrite F. split; [reflexivity|exact H]. Qed.
Lemma num_val_bits a z : num_val a z -> N.testbit (Spec.a_flag a) 4 = true /\ hdr_ok (Spec.a_flag a) (Spec.a_hdr a).
Proof. intros (F & H & _). rewrite F. split; [reflexivity|exact H]. Qed.

Lemma render_value_str a s f g e : str_val a s -> render_value (enc a) f g e = g s.
Proof.
  intros V. destruct (str_val_bits _ _ V) as [B H]. destruct V as (F & _ & P).
  unfold render_value. rewrite (res_flag_enc a), F.
  pose proof (res_len_gt6 a B H) as L.
  destruct (N.ltb_spec (len (enc a)) 6); [lia|]. cbn [N.testbit Pos.testbit N.pred Pos.pred_N].
  change (N.testbit 16 0) with false. change (N.testbit 16 1) with false. change (N.testbit 16 2) with false. cbv iota.
  destruct (N.leb_spec (len (enc a)) 6); [lia|]. rewrite (res_string_enc a B H), P. reflexivity.
Qed.

Lemma render_value_num a z f g e : num_val a z -> render_value (enc a) f g e = f z.
Proof.
  intros V. destruct (num_val_bits _ _ V) as [B H]. destruct V as (F & _ & P & W).
  unfold render_value. rewrite (res_flag_enc a), F.
  pose proof (res_len_gt6 a B H) as L.
  destruct (N.ltb_spec (len (enc a)) 6); [lia|]. change (N.testbit 17 0) with true. cbv iota.
  rewrite (res_incr_enc a B H), P, number_of_le64, W. reflexivity.
Qed.

Lemma render_get_held a v (res : N) : val_ok a v -> (res = 7 \/ res = 5) -> render WGet res (Some (enc a)) = get_reply (Some v).
Proof.
  intros V R. unfold render. replace (negb (res =? 7) && negb (res =? 5)) with false by (destruct R; subst; reflexivity).
  destruct v; cbn [val_ok get_reply] in *; [apply (render_value_str a s RInt RBulk RNil V)|apply (render_value_num a z RInt RBulk RNil V)].
Qed.

Lemma render_strlen_held a v : val_ok a v -> render WStrlen R_UNOWN_ERROR (Some (enc a)) = RInt (Z.of_N (blen (value_bytes v))).
Proof.
  intros V. unfold render, R_UNOWN_ERROR. cbn [N.eqb Pos.eqb negb].
  destruct v; cbn [val_ok value_bytes] in *.
  - apply (render_value_str a s _ (fun s => RInt (Z.of_N (blen s))) _ V).
  - apply (render_value_num a z (fun z => RInt (Z.of_N (blen (dec_Z z)))) _ _ V).
Qed.

Lemma enc_len_ge6 a : (len (enc a) <? 6) = false.
Proof. rewrite len_enc. apply N.ltb_ge. lia. Qed.

(* ---------------------------------------------------------------------------------------------- one write request *)
Section Refine.
Variable md5 : bytes -> bytes.
Notation kid := (key_id md5).

Lemma held_sees s nx k v h : key_held s nx k v h ->
  sees s k (kh_r h) (mkV (Some (held_mgr (kh_r h) (kh_d h))) (Some (kh_l h)) (Some (kh_q h))).
Proof. intros H. repeat split; apply H. Qed.

Lemma kv_write_new st sp nx key fl ex tmo genid o w :
  Inv (kv_db st) sp nx -> aget sp (kid key) = None -> kv_flags fl ex -> kv_op o -> wf_op o ->
  exists st', kv_write md5 st key (mkT true fl tmo 0 ex EF_KV genid (Some (frame_of_op o))) w = (st', render w R_SUCCED None, 0) /\
    forall v a, apply None o = Some a -> val_ok a v ->
                Inv (kv_db st') (aset sp (kid key) v) (if genid then kid key :: nx else nx).
Proof.
  intros I Hs Hfl Ho Hw.
  destruct (lock_new (kv_db st) (kv_req st) fl (if genid then two128 + kv_gen st else kid key) (kid key) tmo ex o
                     (i_free _ _ _ I _ Hs) (i_leader _ _ _ I) (i_now _ _ _ I) (i_chk _ _ _ I) Hfl Ho Hw current_fixes8)
    as (s' & evs & cur' & l' & E & Hp & Hr & Ha & Hwc & Hok & Hnx & M).
  unfold kv_write. unfold engine_cmd. cbn [t_lock t_flag t_genid t_tflag t_timeout t_eflag t_expried t_data step c_lock].
  fold (kvc (kv_req st) fl (if genid then two128 + kv_gen st else kid key) (kid key) tmo ex (Some (frame_of_op o))).
  rewrite E, Hp, Hr.
  eexists. split; [reflexivity|]. intros v a Hap Hv. cbn [kv_db].
  eapply (inv_new _ _ _ _ _ _ _ _ _ v I Hs M Hnx Hok).
  - destruct genid; [|reflexivity]. unfold mem. cbn [existsb]. rewrite N.eqb_refl. discriminate.
  - split; [exact Hwc|]. exists a. split; [congruence|exact Hv].
  - intros k' Hk. destruct genid; [apply mem_cons_other; exact Hk|reflexivity].
Qed.

Lemma kv_write_upd st sp nx key ex tmo o w v0 :
  Inv (kv_db st) sp nx -> aget sp (kid key) = Some v0 -> mem (kid key) nx = false ->
  (ex = 32767 \/ ex = 65535) -> kv_op o -> wf_op o ->
  exists a0 st', val_ok a0 v0 /\
    kv_write md5 st key (mkT true 34 tmo 0 ex EF_KV false (Some (frame_of_op o))) w = (st', render w R_LOCKED_ERROR (Some (enc a0)), 0) /\
    forall v a, apply (Some a0) o = Some a -> val_ok a v -> Inv (kv_db st') (aset sp (kid key) v) nx.
Proof.
  intros I Hs Hnx Hex Ho Hw.
  destruct (i_held _ _ _ I _ _ Hs) as [h Hh].
  pose proof (kh_v _ _ _ _ _ Hh) as (Hwd & a0 & Ha0 & Hv0).
  pose proof (kh_ok _ _ _ _ _ Hh) as Hok0. rewrite (kh_id _ _ _ _ _ Hh Hnx) in Hok0.
  destruct (lock_update (kv_db st) (kv_req st) (kid key) tmo ex o _ _ _ _ (held_sees _ _ _ _ _ Hh) Hok0 (i_leader _ _ _ I) Hwd Hex Ho Hw current_fixes8)
    as (s' & evs & cur' & l' & E & Hp & Hr & Ha & Hwc & Hok & M).
  destruct (data_of_abs _ _ Hwd Ha0) as [Hgd _].
  exists a0. unfold kv_write. unfold engine_cmd. cbn [t_lock t_flag t_genid t_tflag t_timeout t_eflag t_expried t_data step c_lock].
  fold (kvc (kv_req st) 34 (kid key) (kid key) tmo ex (Some (frame_of_op o))).
  rewrite E, Hp, Hr, Hgd.
  eexists. split; [exact Hv0|]. split; [reflexivity|]. intros v a Hap Hv. cbn [kv_db].
  eapply (inv_upd _ _ _ _ _ _ v _ _ _ I Hh Hnx M Hok).
  split; [exact Hwc|]. exists a. split; [rewrite Ha, Ha0; exact Hap|exact Hv].
Qed.

Lemma kv_del_free st sp nx key :
  Inv (kv_db st) sp nx -> aget sp (kid key) = None ->
  exists st', kv_write md5 st key (mkT false 1 0 0 0 0 false None) WDel = (st', RInt 0, 0) /\ Inv (kv_db st') sp nx.
Proof.
  intros I Hs.
  destruct (unlock_free (kv_db st) (kv_req st) (kid key) (i_free _ _ _ I _ Hs)) as (s' & evs & E & Hp & Hr & E1 & E2 & E3 & E4 & E5 & E6 & E7).
  unfold kv_write, engine_cmd. cbn [t_lock t_flag t_genid t_tflag t_timeout t_eflag t_expried t_data step c_lock].
  fold (delc (kv_req st) (kid key)). rewrite E, Hp, Hr.
  eexists. split; [reflexivity|]. cbn [kv_db]. eapply inv_same; eauto.
Qed.

Lemma kv_del_held st sp nx key v0 :
  Inv (kv_db st) sp nx -> aget sp (kid key) = Some v0 ->
  exists st', kv_write md5 st key (mkT false 1 0 0 0 0 false None) WDel = (st', RInt 1, 0) /\
              Inv (kv_db st') (adel sp (kid key)) (filter (fun x => negb (x =? kid key)) nx).
Proof.
  intros I Hs. destruct (i_held _ _ _ I _ _ Hs) as [h Hh].
  destruct (unlock_held (kv_db st) (kv_req st) (kid key) _ _ _ _ _ (held_sees _ _ _ _ _ Hh) (kh_ok _ _ _ _ _ Hh) (i_leader _ _ _ I))
    as (s' & evs & E & Hp & Hr & M).
  unfold kv_write, engine_cmd. cbn [t_lock t_flag t_genid t_tflag t_timeout t_eflag t_expried t_data step c_lock].
  fold (delc (kv_req st) (kid key)). rewrite E, Hp, Hr.
  eexists. split; [reflexivity|]. cbn [kv_db]. eapply inv_del; eauto.
Qed.

Lemma kv_read_free st sp nx key w :
  Inv (kv_db st) sp nx -> aget sp (kid key) = None ->
  kv_read md5 st key w = (mkKv (kv_db st) (kv_req st + 1) (kv_gen st), render w R_SUCCED None, 0).
Proof. intros I Hs. unfold kv_read. rewrite (i_free _ _ _ I _ Hs). reflexivity. Qed.

Lemma kv_read_held st sp nx key w v0 :
  Inv (kv_db st) sp nx -> aget sp (kid key) = Some v0 ->
  exists a0, val_ok a0 v0 /\
    kv_read md5 st key w = (mkKv (kv_db st) (kv_req st + 1) (kv_gen st), render w R_UNOWN_ERROR (Some (enc a0)), 0).
Proof.
  intros I Hs. destruct (i_held _ _ _ I _ _ Hs) as [h Hh].
  pose proof (kh_v _ _ _ _ _ Hh) as (Hwd & a0 & Ha0 & Hv0). destruct (data_of_abs _ _ Hwd Ha0) as [Hgd _].
  exists a0. split; [exact Hv0|]. unfold kv_read. rewrite (kh_m _ _ _ _ _ Hh). cbn [m_cur held_mgr].
  unfold data_of, getm. rewrite (kh_m _ _ _ _ _ Hh). cbn [m_data held_mgr]. rewrite Hgd. reflexivity.
Qed.

End Refine.

(* ---------------------------------------------------------------------------------------------- the converted requests *)
Lemma convert_set k v : convert (encode (KSet k v)) = CWrite (mkT true 34 0 0 32767 EF_KV false (Some (frame_of_op (OSet 16 (key_hdr k) v)))) WSet.
Proof. reflexivity. Qed.
Lemma convert_getset k v : convert (encode (KGetSet k v)) = CWrite (mkT true 34 0 0 32767 EF_KV false (Some (frame_of_op (OSet 16 (key_hdr k) v)))) WGet.
Proof. reflexivity. Qed.
Lemma convert_setnx k v : convert (encode (KSetNX k v)) = CWrite (mkT true 32 15 0 65535 EF_KV true (Some (frame_of_op (OSet 16 (key_hdr k) v)))) WSetNX.
Proof. reflexivity. Qed.
Lemma convert_append k v : convert (encode (KAppend k v)) = CWrite (mkT true 34 0 0 65535 EF_KV false (Some (frame_of_op (OAppend 16 (key_hdr k) v)))) (WAppend (blen v)).
Proof. reflexivity. Qed.
Definition incr_conv (k : bytes) (d : Z) : conv :=
  CWrite (mkT true 34 0 0 65535 EF_KV false (Some (frame_of_op (OIncr 17 (key_hdr k) d)))) (WIncr d).
Lemma convert_incr k : convert (encode (KIncr k)) = incr_conv k 1.
Proof. reflexivity. Qed.
Lemma convert_decr k : convert (encode (KDecr k)) = incr_conv k (-1).
Proof. reflexivity. Qed.
Lemma convert_incrby k d : convert (encode (KIncrBy k d)) =
  match parse_int d with None => CErr "Command Parse Increment Value Error" | Some z => incr_conv k z end.
Proof.
  change (convert (encode (KIncrBy k d))) with (conv_incr false [str "INCRBY"; k; d]).
  unfold conv_incr. destruct (parse_int d); reflexivity.
Qed.
Lemma convert_decrby k d : convert (encode (KDecrBy k d)) =
  match parse_int d with None => CErr "Command Parse Increment Value Error" | Some z => incr_conv k (wrap64 (- z)) end.
Proof.
  change (convert (encode (KDecrBy k d))) with (conv_incr true [str "DECRBY"; k; d]).
  unfold conv_incr. destruct (parse_int d); reflexivity.
Qed.
Lemma convert_del k : convert (encode (KDel k)) = CWrite (mkT false 1 0 0 0 0 false None) WDel.
Proof. reflexivity. Qed.
Lemma convert_get k : convert (encode (KGet k)) = CRead WGet. Proof. reflexivity. Qed.
Lemma convert_exists k : convert (encode (KExists k)) = CRead WExists. Proof. reflexivity. Qed.
Lemma convert_strlen k : convert (encode (KStrlen k)) = CRead WStrlen. Proof. reflexivity. Qed.

(* ---------------------------------------------------------------------------------------------- values after the operations *)
Lemma wf_set k v : key_ok k = true -> wf_op (OSet 16 (key_hdr k) v).
Proof. intros H. split; [reflexivity|apply key_hdr_ok; [reflexivity|exact H]]. Qed.
Lemma wf_append k v : key_ok k = true -> wf_op (OAppend 16 (key_hdr k) v).
Proof. intros H. split; [reflexivity|apply key_hdr_ok; [reflexivity|exact H]]. Qed.
Lemma wf_incr k d : key_ok k = true -> wf_op (OIncr 17 (key_hdr k) d).
Proof. intros H. split; [reflexivity|apply key_hdr_ok; [reflexivity|exact H]]. Qed.

Lemma set_val k v o : key_ok k = true -> forall a, apply o (OSet 16 (key_hdr k) v) = Some a -> val_ok a (VStr v).
Proof.
  intros H a E. cbn [apply] in E. injection E as <-. unfold val_ok, str_val. cbn [Spec.a_flag Spec.a_hdr Spec.a_payload].
  split; [reflexivity|]. split; [apply key_hdr_ok; [reflexivity|exact H]|reflexivity].
Qed.

Lemma append_val_new k v : key_ok k = true -> forall a, apply None (OAppend 16 (key_hdr k) v) = Some a -> val_ok a (VStr v).
Proof.
  intros H a E. cbn [apply] in E. injection E as <-. unfold val_ok, str_val. cbn [Spec.a_flag Spec.a_hdr Spec.a_payload].
  split; [reflexivity|]. split; [apply key_hdr_ok; [reflexivity|exact H]|reflexivity].
Qed.
Lemma append_val_upd k v a0 s0 : val_ok a0 (VStr s0) ->
  forall a, apply (Some a0) (OAppend 16 (key_hdr k) v) = Some a -> val_ok a (VStr (s0 ++ v)).
Proof.
  intros (F & Hh & P) a E. cbn [apply] in E. injection E as <-. unfold val_ok, str_val. cbn [Spec.a_flag Spec.a_hdr Spec.a_payload].
  rewrite P. auto.
Qed.
Lemma incr_val_new k d : key_ok k = true -> in_int64 d = true ->
  forall a, apply None (OIncr 17 (key_hdr k) d) = Some a -> val_ok a (VNum d).
Proof.
  intros H Hd a E. cbn [apply] in E. injection E as <-. unfold val_ok, num_val. cbn [Spec.a_flag Spec.a_hdr Spec.a_payload].
  rewrite (wrap64_id d Hd). split; [reflexivity|]. split; [apply key_hdr_ok; [reflexivity|exact H]|]. split; first [reflexivity | apply wrap64_id; exact Hd].
Qed.
Lemma incr_val_upd k d a0 z0 : key_ok k = true -> in_int64 d = true -> in_int64 (z0 + d) = true -> val_ok a0 (VNum z0) ->
  forall a, apply (Some a0) (OIncr 17 (key_hdr k) d) = Some a -> val_ok a (VNum (z0 + d)).
Proof.
  intros H Hd Hs (F & Hh & P & W) a E. cbn [apply] in E. injection E as <-. unfold val_ok, num_val. cbn [Spec.a_flag Spec.a_hdr Spec.a_payload].
  rewrite P, number_of_le64, W, (wrap64_id d Hd), (Z.add_comm d z0), (wrap64_id _ Hs).
  split; [reflexivity|]. split; [apply key_hdr_ok; [reflexivity|exact H]|]. split; first [reflexivity | apply wrap64_id; exact Hs].
Qed.

(* ---------------------------------------------------------------------------------------------- one command *)
Section Steps.
Variable md5 : bytes -> bytes.
Notation kid := (key_id md5).

Definition step_ok (c : kvcmd) : Prop :=
  forall st sp nx, Inv (kv_db st) sp nx -> frag_cmd md5 sp nx c = true ->
    rmatch (snd (kv_step md5 st (encode c))) (snd (spec_step md5 sp c)) /\
    Inv (kv_db (fst (kv_step md5 st (encode c)))) (fst (spec_step md5 sp c)) (nx_step md5 sp nx c).

Lemma kv_step_write st a c w : convert a = CWrite c w -> kv_step md5 st a = (let '(st', r, _) := kv_write md5 st (nth 1 a []) c w in (st', r)).
Proof. intros E. unfold kv_step, kv_step_t. rewrite E. reflexivity. Qed.
Lemma kv_step_read st a w : convert a = CRead w -> kv_step md5 st a = (let '(st', r, _) := kv_read md5 st (nth 1 a []) w in (st', r)).
Proof. intros E. unfold kv_step, kv_step_t. rewrite E. reflexivity. Qed.

Lemma step_set k v : step_ok (KSet k v).
Proof.
  intros st sp nx HI G. cbn [frag_cmd cmd_key] in G. apply andb_true_iff in G. destruct G as [Gk Gn]. apply negb_true_iff in Gn.
  rewrite (kv_step_write st _ _ _ (convert_set k v)). cbn [encode nth spec_step nx_step cmd_key fst snd].
  destruct (aget sp (kid k)) as [v0|] eqn:Es.
  - destruct (kv_write_upd md5 st sp nx k 32767 0 (OSet 16 (key_hdr k) v) WSet v0 HI Es Gn (or_introl eq_refl) I (wf_set k v Gk))
      as (a0 & st' & Hv0 & E & Hi). rewrite E. cbn [fst snd]. split; [reflexivity|].
    apply (Hi (VStr v) _ eq_refl). apply (set_val k v None Gk); reflexivity.
  - destruct (kv_write_new md5 st sp nx k 34 32767 0 false (OSet 16 (key_hdr k) v) WSet HI Es (conj (or_introl eq_refl) (or_introl eq_refl)) I (wf_set k v Gk))
      as (st' & E & Hi). rewrite E. cbn [fst snd]. split; [reflexivity|].
    apply (Hi (VStr v) _ eq_refl). apply (set_val k v None Gk); reflexivity.
Qed.

Lemma step_getset k v : step_ok (KGetSet k v).
Proof.
  intros st sp nx HI G. cbn [frag_cmd cmd_key] in G. apply andb_true_iff in G. destruct G as [Gk Gn]. apply negb_true_iff in Gn.
  rewrite (kv_step_write st _ _ _ (convert_getset k v)). cbn [encode nth spec_step nx_step cmd_key fst snd].
  destruct (aget sp (kid k)) as [v0|] eqn:Es.
  - destruct (kv_write_upd md5 st sp nx k 32767 0 (OSet 16 (key_hdr k) v) WGet v0 HI Es Gn (or_introl eq_refl) I (wf_set k v Gk))
      as (a0 & st' & Hv0 & E & Hi). rewrite E. cbn [fst snd]. split.
    + rewrite (render_get_held a0 v0 R_LOCKED_ERROR Hv0 (or_intror eq_refl)). destruct v0; reflexivity.
    + apply (Hi (VStr v) _ eq_refl). apply (set_val k v None Gk); reflexivity.
  - destruct (kv_write_new md5 st sp nx k 34 32767 0 false (OSet 16 (key_hdr k) v) WGet HI Es (conj (or_introl eq_refl) (or_introl eq_refl)) I (wf_set k v Gk))
      as (st' & E & Hi). rewrite E. cbn [fst snd]. split; [reflexivity|].
    apply (Hi (VStr v) _ eq_refl). apply (set_val k v None Gk); reflexivity.
Qed.

Lemma step_setnx k v : step_ok (KSetNX k v).
Proof.
  intros st sp nx HI G. cbn [frag_cmd cmd_key] in G. apply andb_true_iff in G. destruct G as [Gk Gn].
  rewrite (kv_step_write st _ _ _ (convert_setnx k v)). cbn [encode nth spec_step nx_step cmd_key fst snd].
  destruct (aget sp (kid k)) as [v0|] eqn:Es; [discriminate|].
  destruct (kv_write_new md5 st sp nx k 32 65535 15 true (OSet 16 (key_hdr k) v) WSetNX HI Es (conj (or_intror eq_refl) (or_intror eq_refl)) I (wf_set k v Gk))
    as (st' & E & Hi). rewrite E. cbn [fst snd]. split; [reflexivity|].
  apply (Hi (VStr v) _ eq_refl). apply (set_val k v None Gk); reflexivity.
Qed.

Lemma step_append k v : step_ok (KAppend k v).
Proof.
  intros st sp nx HI G. cbn [frag_cmd cmd_key] in G. apply andb_true_iff in G. destruct G as [G Gv].
  apply andb_true_iff in G. destruct G as [Gk Gn]. apply negb_true_iff in Gn.
  rewrite (kv_step_write st _ _ _ (convert_append k v)). cbn [encode nth spec_step nx_step cmd_key fst snd].
  destruct (aget sp (kid k)) as [v0|] eqn:Es.
  - destruct v0 as [s0|z0]; [|discriminate].
    destruct (kv_write_upd md5 st sp nx k 65535 0 (OAppend 16 (key_hdr k) v) (WAppend (blen v)) (VStr s0) HI Es Gn (or_intror eq_refl) I (wf_append k v Gk))
      as (a0 & st' & Hv0 & E & Hi). rewrite E. cbn [fst snd value_bytes]. split.
    + destruct (str_val_bits _ _ Hv0) as [B H]. pose proof Hv0 as (_ & _ & P).
      unfold render. cbn [R_LOCKED_ERROR N.eqb Pos.eqb negb andb]. rewrite enc_len_ge6, (res_offset_enc a0 B H), len_enc, P.
      unfold rmatch. f_equal. unfold blen. rewrite app_length, !len_eq. lia.
    + apply (Hi (VStr (s0 ++ v)) _ eq_refl). apply (append_val_upd k v a0 s0 Hv0); reflexivity.
  - destruct (kv_write_new md5 st sp nx k 34 65535 0 false (OAppend 16 (key_hdr k) v) (WAppend (blen v)) HI Es (conj (or_introl eq_refl) (or_intror eq_refl)) I (wf_append k v Gk))
      as (st' & E & Hi). rewrite E. cbn [fst snd]. split; [reflexivity|].
    apply (Hi (VStr v) _ eq_refl). apply (append_val_new k v Gk); reflexivity.
Qed.

(* INCR / DECR / INCRBY / DECRBY with an increment the converter accepted *)
Lemma incr_core st sp nx k d :
  Inv (kv_db st) sp nx -> key_ok k = true -> in_int64 d = true ->
  negb (mem (kid k) nx) && match aget sp (kid k) with
                           | None => in_int64 d
                           | Some (VNum old) => in_int64 (old + d)
                           | Some (VStr _) => false
                           end = true ->
  let r := (let '(st', r, _) := kv_write md5 st k (mkT true 34 0 0 65535 EF_KV false (Some (frame_of_op (OIncr 17 (key_hdr k) d)))) (WIncr d) in (st', r)) in
  rmatch (snd r) (snd (incr_by md5 sp k (Some d))) /\ Inv (kv_db (fst r)) (fst (incr_by md5 sp k (Some d))) nx.
Proof.
  intros HI Gk Hd G. apply andb_true_iff in G. destruct G as [Gn Gv]. apply negb_true_iff in Gn.
  unfold incr_by. destruct (aget sp (kid k)) as [v0|] eqn:Es.
  - destruct v0 as [s0|z0]; [discriminate|]. cbn [value_int]. rewrite Gv.
    destruct (kv_write_upd md5 st sp nx k 65535 0 (OIncr 17 (key_hdr k) d) (WIncr d) (VNum z0) HI Es Gn (or_intror eq_refl) I (wf_incr k d Gk))
      as (a0 & st' & Hv0 & E & Hi). rewrite E. cbn [fst snd]. split.
    + destruct (num_val_bits _ _ Hv0) as [B H]. pose proof Hv0 as (_ & _ & P & W).
      unfold render. cbn [R_LOCKED_ERROR N.eqb Pos.eqb negb andb]. rewrite enc_len_ge6, (res_incr_enc a0 B H), P, number_of_le64, W.
      rewrite (wrap64_id _ Gv). reflexivity.
    + apply (Hi (VNum (z0 + d)) _ eq_refl). apply (incr_val_upd k d a0 z0 Gk Hd Gv Hv0); reflexivity.
  - rewrite Z.add_0_l, Gv.
    destruct (kv_write_new md5 st sp nx k 34 65535 0 false (OIncr 17 (key_hdr k) d) (WIncr d) HI Es (conj (or_introl eq_refl) (or_intror eq_refl)) I (wf_incr k d Gk))
      as (st' & E & Hi). rewrite E. cbn [fst snd]. split; [reflexivity|].
    apply (Hi (VNum d) _ eq_refl). apply (incr_val_new k d Gk Hd); reflexivity.
Qed.

Lemma kv_step_incr st k d a : convert a = incr_conv k d -> nth 1 a [] = k ->
  kv_step md5 st a = (let '(st', r, _) := kv_write md5 st k (mkT true 34 0 0 65535 EF_KV false (Some (frame_of_op (OIncr 17 (key_hdr k) d)))) (WIncr d) in (st', r)).
Proof. intros E Hk. rewrite (kv_step_write st a _ _ E), Hk. reflexivity. Qed.

Lemma step_incr k : step_ok (KIncr k).
Proof.
  intros st sp nx HI G. cbn [frag_cmd cmd_key] in G. apply andb_true_iff in G. destruct G as [Gk G].
  rewrite (kv_step_incr st k 1 _ (convert_incr k) eq_refl). cbn [spec_step nx_step].
  apply incr_core; auto.
Qed.
Lemma step_decr k : step_ok (KDecr k).
Proof.
  intros st sp nx HI G. cbn [frag_cmd cmd_key] in G. apply andb_true_iff in G. destruct G as [Gk G].
  rewrite (kv_step_incr st k (-1) _ (convert_decr k) eq_refl). cbn [spec_step nx_step].
  apply incr_core; auto.
Qed.

Lemma kv_step_err st a msg : convert a = CErr msg -> kv_step md5 st a = (st, RError (str "ERR " ++ str msg)).
Proof. intros E. unfold kv_step, kv_step_t. rewrite E. reflexivity. Qed.

Lemma step_incrby k d : step_ok (KIncrBy k d).
Proof.
  intros st sp nx HI G. cbn [frag_cmd cmd_key] in G. apply andb_true_iff in G. destruct G as [Gk G].
  cbn [spec_step nx_step]. destruct (parse_int d) as [z|] eqn:Ep.
  - rewrite (kv_step_incr st k z (encode (KIncrBy k d))); [|rewrite convert_incrby, Ep; reflexivity|reflexivity].
    apply incr_core; auto. eapply parse_int_range; eauto.
  - rewrite (kv_step_err st (encode (KIncrBy k d)) "Command Parse Increment Value Error"); [|rewrite convert_incrby, Ep; reflexivity].
    cbn [fst snd incr_by]. split; [eexists; reflexivity|exact HI].
Qed.

Lemma step_decrby k d : step_ok (KDecrBy k d).
Proof.
  intros st sp nx HI G. cbn [frag_cmd cmd_key] in G. apply andb_true_iff in G. destruct G as [Gk G].
  cbn [spec_step nx_step]. destruct (parse_int d) as [z|] eqn:Ep.
  - unfold neg_int64 in *. destruct (in_int64 (- z)) eqn:En; [|discriminate].
    rewrite (kv_step_incr st k (wrap64 (- z)) (encode (KDecrBy k d))); [|rewrite convert_decrby, Ep; reflexivity|reflexivity].
    rewrite (wrap64_id _ En). apply incr_core; auto.
  - rewrite (kv_step_err st (encode (KDecrBy k d)) "Command Parse Increment Value Error"); [|rewrite convert_decrby, Ep; reflexivity].
    cbn [fst snd incr_by]. split; [eexists; reflexivity|exact HI].
Qed.

Lemma step_del k : step_ok (KDel k).
Proof.
  intros st sp nx HI _.
  rewrite (kv_step_write st _ _ _ (convert_del k)). cbn [encode nth spec_step nx_step cmd_key fst snd].
  destruct (aget sp (kid k)) as [v0|] eqn:Es.
  - destruct (kv_del_held md5 st sp nx k v0 HI Es) as (st' & E & Hi). rewrite E. cbn [fst snd]. split; [reflexivity|exact Hi].
  - destruct (kv_del_free md5 st sp nx k HI Es) as (st' & E & Hi). rewrite E. cbn [fst snd]. split; [reflexivity|].
    replace (filter (fun x : N => negb (x =? kid k)) nx) with (filter (fun x : N => negb (x =? kid k)) nx) by reflexivity.
    (* the key was not in the store: it is not owned by a SETNX either, but the ghost list may be filtered anyway *)
    constructor; try apply Hi.
    intros k' v' H'. destruct (i_held _ _ _ Hi _ _ H') as [h [Hm Hs Ho Hid Hvv He Hin]]. exists h.
    constructor; auto. intros Hmem. apply Hid.
    destruct (N.eq_dec k' (kid k)) as [->|Hk]; [congruence|]. rewrite <- (mem_filter_other (kid k) k' nx Hk). exact Hmem.
Qed.

Lemma step_get k : step_ok (KGet k).
Proof.
  intros st sp nx HI _. rewrite (kv_step_read st _ _ (convert_get k)). cbn [encode nth spec_step nx_step cmd_key fst snd].
  destruct (aget sp (kid k)) as [v0|] eqn:Es.
  - destruct (kv_read_held md5 st sp nx k WGet v0 HI Es) as (a0 & Hv0 & E). rewrite E. cbn [fst snd kv_db]. split; [|exact HI].
    rewrite (render_get_held a0 v0 R_UNOWN_ERROR Hv0 (or_introl eq_refl)). destruct v0; reflexivity.
  - rewrite (kv_read_free md5 st sp nx k WGet HI Es). cbn [fst snd kv_db]. split; [reflexivity|exact HI].
Qed.

Lemma step_exists k : step_ok (KExists k).
Proof.
  intros st sp nx HI _. rewrite (kv_step_read st _ _ (convert_exists k)). cbn [encode nth spec_step nx_step cmd_key fst snd].
  destruct (aget sp (kid k)) as [v0|] eqn:Es.
  - destruct (kv_read_held md5 st sp nx k WExists v0 HI Es) as (a0 & Hv0 & E). rewrite E. cbn [fst snd kv_db]. split; [reflexivity|exact HI].
  - rewrite (kv_read_free md5 st sp nx k WExists HI Es). cbn [fst snd kv_db]. split; [reflexivity|exact HI].
Qed.

Lemma step_strlen k : step_ok (KStrlen k).
Proof.
  intros st sp nx HI _. rewrite (kv_step_read st _ _ (convert_strlen k)). cbn [encode nth spec_step nx_step cmd_key fst snd].
  destruct (aget sp (kid k)) as [v0|] eqn:Es.
  - destruct (kv_read_held md5 st sp nx k WStrlen v0 HI Es) as (a0 & Hv0 & E). rewrite E. cbn [fst snd kv_db]. split; [|exact HI].
    rewrite (render_strlen_held a0 v0 Hv0). reflexivity.
  - rewrite (kv_read_free md5 st sp nx k WStrlen HI Es). cbn [fst snd kv_db]. split; [reflexivity|exact HI].
Qed.

Lemma step_all c : step_ok c.
Proof.
  destruct c; [apply step_set|apply step_get|apply step_del|apply step_setnx|apply step_getset|apply step_incr|apply step_decr
               |apply step_incrby|apply step_decrby|apply step_append|apply step_exists|apply step_strlen].
Qed.

(* ---------------------------------------------------------------------------------------------- sequences *)
Lemma run_refines : forall cmds st sp nx,
  Inv (kv_db st) sp nx -> frag_run md5 sp nx cmds = true ->
  Forall2 rmatch (kv_run md5 st (map encode cmds)) (spec_run md5 sp cmds).
Proof.
  induction cmds as [|c rest IH]; intros st sp nx HI G; cbn [map kv_run spec_run]; [constructor|].
  cbn [frag_run] in G. apply andb_true_iff in G. destruct G as [Gc Gr].
  destruct (step_all c st sp nx HI Gc) as [Hm Hi].
  destruct (kv_step md5 st (encode c)) as [st' r]. destruct (spec_step md5 sp c) as [sp' r']. cbn [fst snd] in *.
  constructor; [exact Hm|]. eapply IH; eauto.
Qed.

End Steps.

(* THE THEOREM (partial: the fragment KvSpec.frag_run; see KvSpec.v for what each clause of the fragment excludes and
   KvRefute.v for the witness that it has to): every sequence of the commands SET GET DEL SETNX GETSET INCR DECR INCRBY
   DECRBY APPEND EXISTS STRLEN inside the fragment, for every key / value / increment byte strings, every md5 function and
   every start time, on one connection from the empty database, is answered by the server model exactly like the plain
   key-value store. *)
Theorem kv_refines_store_partial : forall (md5 : bytes -> bytes) (t0 : Z) (cmds : list kvcmd),
  (t0 < MAXT - 5)%Z -> frag_run md5 [] [] cmds = true ->
  Forall2 rmatch (kv_run md5 (kv_init t0) (map encode cmds)) (spec_run md5 [] cmds).
Proof.
  intros md5 t0 cmds Ht G. eapply run_refines; [|exact G]. apply inv_init. exact Ht.
Qed.
