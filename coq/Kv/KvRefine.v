(* C15_text -- refinement: on the fragment KvSpec.frag_run every sequence of the Redis-style commands, started from the
   empty database on one connection, is answered by the model of the server (KvModel.kv_run) like the plain store
   (KvSpec.spec_run).  Per command: the converted request, the engine lemma (KvEngine), the value operation
   (KvData / Data.Refine), the result writer; the invariant KvInv.Inv is preserved. *)
From Coq Require Import List NArith ZArith Bool String Lia.
From Slock Require Import Base.Util Data.Data Data.DataProofs Data.Spec Data.Refine
     Engine.Types Engine.Queues Engine.Timers Engine.Engine Engine.Engine2 Engine.LocalBase
     Kv.KvModel Kv.KvSpec Kv.KvData Kv.KvBase Kv.KvEngine Kv.KvInv.
Import ListNotations.
Open Scope N_scope.

(* the repairs of the value layer that the proofs rely on are in the tree under test (Data/FixFlags.v is derived from
   the Go source by checks/C15_data.py on every run; this lemma stops compiling when one of them is missing) *)
Lemma current_fixes8 : fixes8 current_fixes.
Proof. repeat split; reflexivity. Qed.

Lemma wrap64_id z : in_int64 z = true -> wrap64 z = z.
Proof.
  unfold in_int64, wrap64, two63, two64. intros H. apply andb_true_iff in H. destruct H as [A B].
  apply Z.leb_le in A. apply Z.leb_le in B. rewrite Z.mod_small by lia. lia.
Qed.

Lemma parse_int_range d z : parse_int d = Some z -> in_int64 z = true.
Proof.
  unfold parse_int. destruct d as [|c r]; [discriminate|].
  assert (G : forall neg body, match body with
                | [] => None
                | _ :: _ => match digits body 0 with
                            | Some v => let v' := if neg : bool then (- v)%Z else v in
                                        if ((-9223372036854775808 <=? v') && (v' <=? 9223372036854775807))%Z then Some v' else None
                            | None => None end end = Some z -> in_int64 z = true).
  { intros neg body. destruct body; [discriminate|]. destruct (digits _ _); [|discriminate]. cbv zeta.
    match goal with |- (if ?b then _ else _) = _ -> _ => destruct b eqn:E end; [|discriminate].
    intros X. injection X as <-. exact E. }
  destruct (c =? 43) eqn:E1; [apply N.eqb_eq in E1; subst; apply (G false)|].
  destruct (c =? 45) eqn:E2; [apply N.eqb_eq in E2; subst; apply (G true)|].
  intros H. apply (G false (c :: r)).
  destruct c as [|p]; [exact H|]. do 6 (destruct p as [p|p|]; try exact H); try discriminate E1; try discriminate E2.
Qed.

(* ---------------------------------------------------------------------------------------------- rendering stored values *)
Lemma str_val_bits a s : str_val a s -> N.testbit (Spec.a_flag a) 4 = true /\ hdr_ok (Spec.a_flag a) (Spec.a_hdr a).
Proof. intros (F & H & _). rewrite F. split; [reflexivity|exact H]. Qed.
Lemma num_val_bits a z : num_val a z -> N.testbit (Spec.a_flag a) 4 = true /\ hdr_ok (Spec.a_flag a) (Spec.a_hdr a).
Proof. intros (F & H & _). rewrite F. split; [reflexivity|exact H]. Qed.

Lemma render_value_str a s f g e : str_val a s -> render_value (enc a) f g e = g s.
Proof.
  intros V. destruct (str_val_bits _ _ V) as [B H]. destruct V as (F & _ & P).
  unfold render_value. rewrite (res_flag_enc a), F.
  pose proof (res_len_gt6 a B H) as L.
  destruct (N.ltb_spec (len (enc a)) 6); [lia|]. cbn [N.testbit Pos.testbit N.pred Pos.pred_N].
  change (N.testbit 16 0) with false. change (N.testbit 16 1) with false. change (N.testbit 16 2) with false. cbv iota.
  destruct (N.leb_spec (len (enc a)) 6); [lia|]. rewrite (res_string_enc a B H), P. reflexivity.
Qed.

Lemma render_value_num a z f g e : num_val a z -> render_value (enc a) f g e = f z.
Proof.
  intros V. destruct (num_val_bits _ _ V) as [B H]. destruct V as (F & _ & P & W).
  unfold render_value. rewrite (res_flag_enc a), F.
  pose proof (res_len_gt6 a B H) as L.
  destruct (N.ltb_spec (len (enc a)) 6); [lia|]. change (N.testbit 17 0) with true. cbv iota.
  rewrite (res_incr_enc a B H), P, number_of_le64, W. reflexivity.
Qed.

Lemma render_get_held a v (res : N) : val_ok a v -> (res = 7 \/ res = 5) -> render WGet res (Some (enc a)) = get_reply (Some v).
Proof.
  intros V R. unfold render. replace (negb (res =? 7) && negb (res =? 5)) with false by (destruct R; subst; reflexivity).
  destruct v; cbn [val_ok get_reply] in *; [apply (render_value_str a s RInt RBulk RNil V)|apply (render_value_num a z RInt RBulk RNil V)].
Qed.

Lemma render_strlen_held a v : val_ok a v -> render WStrlen 7 (Some (enc a)) = RInt (Z.of_N (blen (value_bytes v))).
Proof.
  intros V. unfold render. cbn [N.eqb Pos.eqb negb].
  destruct v; cbn [val_ok value_bytes] in *.
  - apply (render_value_str a s _ (fun s => RInt (Z.of_N (blen s))) _ V).
  - apply (render_value_num a z (fun z => RInt (Z.of_N (blen (dec_Z z)))) _ _ V).
Qed.

Lemma enc_len_ge6 a : (len (enc a) <? 6) = false.
Proof. rewrite len_enc. apply N.ltb_ge. lia. Qed.

(* ---------------------------------------------------------------------------------------------- one write request *)
Section Refine.
Variable md5 : bytes -> bytes.
Notation kid := (key_id md5).

Lemma held_sees s nx k v h : key_held s nx k v h ->
  sees s k (kh_r h) (mkV (Some (held_mgr (kh_r h) (kh_d h))) (Some (kh_l h)) (Some (kh_q h))).
Proof. intros H. repeat split; apply H. Qed.

Lemma kv_write_new st sp nx key fl ex tmo genid o w :
  Inv (kv_db st) sp nx -> aget sp (kid key) = None -> kv_flags fl ex -> kv_op o -> wf_op o ->
  exists st', kv_write md5 st key (mkT true fl tmo 0 ex EF_KV genid (Some (frame_of_op o))) w = (st', render w R_SUCCED None, 0) /\
    forall v a, apply None o = Some a -> val_ok a v ->
                Inv (kv_db st') (aset sp (kid key) v) (if genid then kid key :: nx else nx).
Proof.
  intros I Hs Hfl Ho Hw.
  destruct (lock_new (kv_db st) (kv_req st) fl (if genid then two128 + kv_gen st else kid key) (kid key) tmo ex o
                     (i_free _ _ _ I _ Hs) (i_leader _ _ _ I) (i_now _ _ _ I) (i_chk _ _ _ I) Hfl Ho Hw current_fixes8)
    as (s' & evs & cur' & l' & E & Hp & Hr & Ha & Hwc & Hok & Hnx & M).
  unfold kv_write. unfold engine_cmd. cbn [t_lock t_flag t_genid t_tflag t_timeout t_eflag t_expried t_data step c_lock].
  fold (kvc (kv_req st) fl (if genid then two128 + kv_gen st else kid key) (kid key) tmo ex (Some (frame_of_op o))).
  rewrite E, Hp, Hr.
  eexists. split; [reflexivity|]. intros v a Hap Hv. cbn [kv_db].
  eapply (inv_new _ _ _ _ _ _ _ _ _ v I Hs M Hnx Hok).
  - destruct genid; [|reflexivity]. unfold mem. cbn. rewrite N.eqb_refl. discriminate.
  - split; [exact Hwc|]. exists a. split; [congruence|exact Hv].
  - intros k' Hk. destruct genid; [apply mem_cons_other; exact Hk|reflexivity].
Qed.

Lemma kv_write_upd st sp nx key ex tmo o w v0 :
  Inv (kv_db st) sp nx -> aget sp (kid key) = Some v0 -> mem (kid key) nx = false ->
  (ex = 32767 \/ ex = 65535) -> kv_op o -> wf_op o ->
  exists a0 st', val_ok a0 v0 /\
    kv_write md5 st key (mkT true 34 tmo 0 ex EF_KV false (Some (frame_of_op o))) w = (st', render w R_LOCKED_ERROR (Some (enc a0)), 0) /\
    forall v a, apply (Some a0) o = Some a -> val_ok a v -> Inv (kv_db st') (aset sp (kid key) v) nx.
Proof.
  intros I Hs Hnx Hex Ho Hw.
  destruct (i_held _ _ _ I _ _ Hs) as [h Hh].
  pose proof (kh_v _ _ _ _ _ Hh) as (Hwd & a0 & Ha0 & Hv0).
  pose proof (kh_ok _ _ _ _ _ Hh) as Hok0. rewrite (kh_id _ _ _ _ _ Hh Hnx) in Hok0.
  destruct (lock_update (kv_db st) (kv_req st) (kid key) tmo ex o _ _ _ _ (held_sees _ _ _ _ _ Hh) Hok0 (i_leader _ _ _ I) Hwd Hex Ho Hw current_fixes8)
    as (s' & evs & cur' & l' & E & Hp & Hr & Ha & Hwc & Hok & M).
  destruct (data_of_abs _ _ Hwd Ha0) as [Hgd _].
  exists a0. unfold kv_write. unfold engine_cmd. cbn [t_lock t_flag t_genid t_tflag t_timeout t_eflag t_expried t_data step c_lock].
  fold (kvc (kv_req st) 34 (kid key) (kid key) tmo ex (Some (frame_of_op o))).
  rewrite E, Hp, Hr, Hgd.
  eexists. split; [exact Hv0|]. split; [reflexivity|]. intros v a Hap Hv. cbn [kv_db].
  eapply (inv_upd _ _ _ _ _ _ v _ _ _ I Hh Hnx M Hok).
  split; [exact Hwc|]. exists a. split; [rewrite Ha, Ha0; exact Hap|exact Hv].
Qed.

Lemma kv_del_free st sp nx key :
  Inv (kv_db st) sp nx -> aget sp (kid key) = None ->
  exists st', kv_write md5 st key (mkT false 1 0 0 0 0 false None) WDel = (st', RInt 0, 0) /\ Inv (kv_db st') sp nx.
Proof.
  intros I Hs.
  destruct (unlock_free (kv_db st) (kv_req st) (kid key) (i_free _ _ _ I _ Hs)) as (s' & evs & E & Hp & Hr & E1 & E2 & E3 & E4 & E5 & E6 & E7).
  unfold kv_write, engine_cmd. cbn [t_lock t_flag t_genid t_tflag t_timeout t_eflag t_expried t_data step c_lock].
  fold (delc (kv_req st) (kid key)). rewrite E, Hp, Hr.
  eexists. split; [reflexivity|]. cbn [kv_db]. eapply inv_same; eauto.
Qed.

Lemma kv_del_held st sp nx key v0 :
  Inv (kv_db st) sp nx -> aget sp (kid key) = Some v0 ->
  exists st', kv_write md5 st key (mkT false 1 0 0 0 0 false None) WDel = (st', RInt 1, 0) /\
              Inv (kv_db st') (adel sp (kid key)) (filter (fun x => negb (x =? kid key)) nx).
Proof.
  intros I Hs. destruct (i_held _ _ _ I _ _ Hs) as [h Hh].
  destruct (unlock_held (kv_db st) (kv_req st) (kid key) _ _ _ _ _ (held_sees _ _ _ _ _ Hh) (kh_ok _ _ _ _ _ Hh) (i_leader _ _ _ I))
    as (s' & evs & E & Hp & Hr & M).
  unfold kv_write, engine_cmd. cbn [t_lock t_flag t_genid t_tflag t_timeout t_eflag t_expried t_data step c_lock].
  fold (delc (kv_req st) (kid key)). rewrite E, Hp, Hr.
  eexists. split; [reflexivity|]. cbn [kv_db]. eapply inv_del; eauto.
Qed.

Lemma kv_read_free st sp nx key w :
  Inv (kv_db st) sp nx -> aget sp (kid key) = None ->
  kv_read md5 st key w = (mkKv (kv_db st) (kv_req st + 1) (kv_gen st), render w R_SUCCED None, 0).
Proof. intros I Hs. unfold kv_read. rewrite (i_free _ _ _ I _ Hs). reflexivity. Qed.

Lemma kv_read_held st sp nx key w v0 :
  Inv (kv_db st) sp nx -> aget sp (kid key) = Some v0 ->
  exists a0, val_ok a0 v0 /\
    kv_read md5 st key w = (mkKv (kv_db st) (kv_req st + 1) (kv_gen st), render w R_UNOWN_ERROR (Some (enc a0)), 0).
Proof.
  intros I Hs. destruct (i_held _ _ _ I _ _ Hs) as [h Hh].
  pose proof (kh_v _ _ _ _ _ Hh) as (Hwd & a0 & Ha0 & Hv0). destruct (data_of_abs _ _ Hwd Ha0) as [Hgd _].
  exists a0. split; [exact Hv0|]. unfold kv_read. rewrite (kh_m _ _ _ _ _ Hh). cbn [m_cur held_mgr].
  unfold data_of, getm. rewrite (kh_m _ _ _ _ _ Hh). cbn [m_data held_mgr]. rewrite Hgd. reflexivity.
Qed.

End Refine.
