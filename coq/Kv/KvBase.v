(* C15_text -- toolkit for the engine-level lemmas: the part of a database state that a request on key k with lock
   record r can see (its key manager, its lock record, the entry of the long expiry table for "never"), the frame
   left untouched, and how the primitive updates of the engine model act on both. *)
From Coq Require Import List NArith ZArith Bool String Lia.
From Slock Require Import Base.Util Engine.Types Engine.Queues Engine.Timers Engine.Engine Engine.Engine2 Engine.LocalBase.
Import ListNotations.
Open Scope N_scope.

Definition KMAX : N := lkey MAXT.      (* key of the long expiry table for holds that never expire *)

Record lview := mkV { v_m : option mgr; v_l : option lockrec; v_q : option (list ref) }.

Definition sees (s : db) (k r : N) (v : lview) : Prop :=
  aget (mgrs s) k = v_m v /\ aget (store s) r = v_l v /\ aget (elong s) KMAX = v_q v.

(* everything a later request on another key can observe is unchanged *)
Record frame (s s' : db) (k r : N) : Prop := mkFrame {
  f_m : forall k', k' <> k -> aget (mgrs s') k' = aget (mgrs s) k';
  f_l : forall r', r' <> r -> aget (store s') r' = aget (store s) r';
  f_leader : leader s' = leader s;
  f_now : now s' = now s;
  f_checkE : checkE s' = checkE s;
  f_aoft : cfg_aoftime s' = cfg_aoftime s;
  f_next : next s <= next s'
}.

Lemma frame_refl s k r : frame s s k r.
Proof. constructor; intros; auto. lia. Qed.

Lemma frame_trans s1 s2 s3 k r : frame s1 s2 k r -> frame s2 s3 k r -> frame s1 s3 k r.
Proof.
  intros [a1 a2 a3 a4 a5 a6 a7] [b1 b2 b3 b4 b5 b6 b7]. constructor; intros.
  - rewrite b1, a1; auto.
  - rewrite b2, a2; auto.
  - congruence.
  - congruence.
  - congruence.
  - congruence.
  - lia.
Qed.

(* a step: what the request's own part becomes + the frame *)
Definition moves (s s' : db) (k r : N) (v' : lview) : Prop := sees s' k r v' /\ frame s s' k r.

Lemma moves_trans s1 s2 s3 k r v2 v3 : moves s1 s2 k r v2 -> moves s2 s3 k r v3 -> moves s1 s3 k r v3.
Proof. intros [_ F1] [S2 F2]. split; [exact S2|eapply frame_trans; eauto]. Qed.

Lemma neqb (a b : N) : a <> b -> (a =? b) = false.
Proof. intros H. apply N.eqb_neq. exact H. Qed.

(* ---------------------------------------------------------------------------------------------- reading *)
Lemma sees_getm s k r v m : sees s k r v -> v_m v = Some m -> getm s k = m.
Proof. intros (H & _) E. unfold getm. rewrite H, E. reflexivity. Qed.
Lemma sees_getm_none s k r v : sees s k r v -> v_m v = None -> getm s k = new_mgr.
Proof. intros (H & _) E. unfold getm. rewrite H, E. reflexivity. Qed.
Lemma sees_getl s k r v l : sees s k r v -> v_l v = Some l -> getl s r = l.
Proof. intros (_ & H & _) E. unfold getl. rewrite H, E. reflexivity. Qed.

(* ---------------------------------------------------------------------------------------------- primitive updates *)
Lemma mv_updm s k r v f :
  sees s k r v -> moves s (updm s k f) k r (mkV (option_map f (v_m v)) (v_l v) (v_q v)).
Proof.
  intros (Hm & Hl & Hq). split; [split; [|split]|constructor]; cbn [v_m v_l v_q].
  - rewrite aget_mgrs_updm, N.eqb_refl, Hm. reflexivity.
  - rewrite store_updm. exact Hl.
  - unfold updm. destruct (aget (mgrs s) k); exact Hq.
  - intros k' Hk. rewrite aget_mgrs_updm, neqb by congruence. reflexivity.
  - intros. rewrite store_updm. reflexivity.
  - apply leader_updm.
  - apply now_updm.
  - unfold updm. destruct (aget (mgrs s) k); reflexivity.
  - unfold updm. destruct (aget (mgrs s) k); reflexivity.
  - unfold updm. destruct (aget (mgrs s) k); cbn; lia.
Qed.

Lemma mv_updl s k r v f :
  sees s k r v -> moves s (updl s r f) k r (mkV (v_m v) (option_map f (v_l v)) (v_q v)).
Proof.
  intros (Hm & Hl & Hq). split; [split; [|split]|constructor]; cbn [v_m v_l v_q].
  - rewrite mgrs_updl. exact Hm.
  - rewrite aget_store_updl, N.eqb_refl, Hl. reflexivity.
  - unfold updl. destruct (aget (store s) r); exact Hq.
  - intros. rewrite mgrs_updl. reflexivity.
  - intros r' Hr. rewrite aget_store_updl, neqb by congruence. reflexivity.
  - apply leader_updl.
  - apply now_updl.
  - unfold updl. destruct (aget (store s) r); reflexivity.
  - unfold updl. destruct (aget (store s) r); reflexivity.
  - unfold updl. destruct (aget (store s) r); cbn; lia.
Qed.

Lemma mv_setm s k r v m :
  sees s k r v -> moves s (setm s k m) k r (mkV (Some m) (v_l v) (v_q v)).
Proof.
  intros (Hm & Hl & Hq). split; [split; [|split]|constructor]; cbn [v_m v_l v_q]; auto.
  - change (mgrs (setm s k m)) with (aset (mgrs s) k m). apply aget_aset_same.
  - intros k' Hk. change (mgrs (setm s k m)) with (aset (mgrs s) k m). apply aget_aset_other. congruence.
  - cbn. lia.
Qed.

Lemma mv_setl s k r v l :
  sees s k r v -> moves s (setl s r l) k r (mkV (v_m v) (Some l) (v_q v)).
Proof.
  intros (Hm & Hl & Hq). split; [split; [|split]|constructor]; cbn [v_m v_l v_q]; auto.
  - change (Types.store (setl s r l)) with (aset (Types.store s) r l). apply aget_aset_same.
  - intros r' Hr. change (Types.store (setl s r l)) with (aset (Types.store s) r l). apply aget_aset_other. congruence.
  - cbn. lia.
Qed.

Lemma mv_updc s k r v f : sees s k r v -> moves s (updc s f) k r v.
Proof. intros H. split; [exact H|constructor; intros; cbn; auto; lia]. Qed.
Lemma mv_bump s k r v f : sees s k r v -> moves s (bump f s) k r v.
Proof. apply mv_updc. Qed.

Lemma mv_set_elong s k r v e q' :
  sees s k r v -> aget e KMAX = q' -> moves s (s <| elong := e |>) k r (mkV (v_m v) (v_l v) q').
Proof.
  intros (Hm & Hl & Hq) He. split; [split; [|split]|constructor]; cbn [v_m v_l v_q]; auto. cbn. lia.
Qed.

(* the record leaves the store *)
Lemma mv_del_store s k r v :
  sees s k r v -> moves s (s <| Types.store := adel (Types.store s) r |>) k r (mkV (v_m v) None (v_q v)).
Proof.
  intros (Hm & Hl & Hq). split; [split; [|split]|constructor]; cbn [v_m v_l v_q]; auto.
  - cbn. apply aget_adel_same.
  - intros r' Hr. cbn. apply aget_adel_other. congruence.
  - cbn. lia.
Qed.

(* the key leaves the table *)
Lemma mv_del_mgr s k r v :
  sees s k r v -> moves s (s <| mgrs := adel (mgrs s) k |>) k r (mkV None (v_l v) (v_q v)).
Proof.
  intros (Hm & Hl & Hq). split; [split; [|split]|constructor]; cbn [v_m v_l v_q]; auto.
  - cbn. apply aget_adel_same.
  - intros k' Hk. cbn. apply aget_adel_other. congruence.
  - cbn. lia.
Qed.

(* a new record enters the store under the next reference *)
Lemma mv_alloc s k v l :
  aget (mgrs s) k = v_m v -> aget (elong s) KMAX = v_q v ->
  moves s (s <| Types.store := aset (Types.store s) (next s) l |> <| next := next s + 1 |>) k (next s) (mkV (v_m v) (Some l) (v_q v)).
Proof.
  intros Hm Hq. split; [split; [|split]|constructor]; cbn [v_m v_l v_q]; auto.
  - cbn [Types.store set]. apply aget_aset_same.
  - intros r' Hr. cbn [Types.store set]. apply aget_aset_other. congruence.
  - cbn. lia.
Qed.

(* chaining: [mv_step] turns a goal about the composed state into one about the last update *)
Lemma moves_step s1 s2 s3 k r v2 v3 :
  moves s1 s2 k r v2 -> (sees s2 k r v2 -> moves s2 s3 k r v3) -> moves s1 s3 k r v3.
Proof. intros M1 M2. eapply moves_trans; [exact M1|apply M2, M1]. Qed.

Lemma moves_refl s k r v : sees s k r v -> moves s s k r v.
Proof. intros H. split; [exact H|apply frame_refl]. Qed.
