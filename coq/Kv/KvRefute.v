(* C15_text -- the full-strength statement "every sequence of the Redis-style commands is answered like a plain
   key-value store" is REFUTED by the faithful model; one witness per finding of known_findings/C15_text.json.
   Every witness is replayed on the real server by checks/C15_text.py (corpus/C15_text/findings.txt). *)
From Coq Require Import List NArith ZArith Bool String.
From Slock Require Import Kv.KvFlags Base.Util Engine.Types Kv.KvModel Kv.KvSpec.
Import ListNotations.
Open Scope N_scope.

(* ---------------------------------------------------------------------------------------------- deciding rmatch *)
Fixpoint bytes_eqb (a b : bytes) : bool :=
  match a, b with
  | [], [] => true
  | x :: a', y :: b' => (x =? y) && bytes_eqb a' b'
  | _, _ => false
  end.
Lemma bytes_eqb_refl a : bytes_eqb a a = true.
Proof. induction a; simpl; auto. rewrite N.eqb_refl; auto. Qed.

Definition reply_eqb (a b : textreply) : bool :=
  match a, b with
  | RStatus x, RStatus y | RError x, RError y | RBulk x, RBulk y => bytes_eqb x y
  | RInt x, RInt y => (x =? y)%Z
  | RNil, RNil | RHang, RHang => true
  | RUnmodelled x, RUnmodelled y => String.eqb x y
  | _, _ => false
  end.
Lemma reply_eqb_refl a : reply_eqb a a = true.
Proof. destruct a; simpl; auto using bytes_eqb_refl, Z.eqb_refl, String.eqb_refl. Qed.

Definition rmatchb (server spec : textreply) : bool :=
  match spec with
  | RError _ => match server with RError _ => true | _ => false end
  | _ => reply_eqb server spec
  end.
Lemma rmatch_b server spec : rmatch server spec -> rmatchb server spec = true.
Proof.
  unfold rmatch, rmatchb. destruct spec; try (intros ->; apply reply_eqb_refl).
  intros [e ->]. reflexivity.
Qed.

Fixpoint all_match (a b : list textreply) : bool :=
  match a, b with
  | [], [] => true
  | x :: a', y :: b' => rmatchb x y && all_match a' b'
  | _, _ => false
  end.
Lemma all_match_sound a b : Forall2 rmatch a b -> all_match a b = true.
Proof. induction 1; simpl; auto. rewrite rmatch_b by assumption. assumption. Qed.

(* the full-strength property *)
Definition kv_like_store (md5 : bytes -> bytes) (t0 : Z) : Prop :=
  forall cmds, Forall2 rmatch (kv_run md5 (kv_init t0) (map encode cmds)) (spec_run md5 [] cmds).

Definition refutes (md5 : bytes -> bytes) (cmds : list kvcmd) : Prop :=
  all_match (kv_run md5 (kv_init 1000) (map encode cmds)) (spec_run md5 [] cmds) = false.

Lemma refutes_not_like md5 cmds : refutes md5 cmds -> ~ kv_like_store md5 1000.
Proof. intros R H. specialize (H cmds). apply all_match_sound in H. unfold refutes in R. congruence. Qed.

Definition K (s : string) : bytes := str s.

(* ---------------------------------------------------------------------------------------------- witnesses *)
(* kv-write-after-setnx:  SETNX a x ; SET a z ; GET a   ->  :1  $-1  $1 x *)
Lemma Kv_refuted_set_after_setnx_l : forall md5, exists cmds, refutes md5 cmds /\
  kv_run md5 (kv_init 1000) (map encode cmds) = [RInt 1; RNil; RBulk (K "x")].
Proof. intros. exists [KSetNX (K "a") (K "x"); KSet (K "a") (K "z"); KGet (K "a")]. split; vm_compute; reflexivity. Qed.

(* kv-incr-on-string:  SET a 5 ; INCR a ; GET a   ->  +OK  :54  :54 *)
Lemma Kv_refuted_incr_on_string_l : forall md5, exists cmds, refutes md5 cmds /\
  kv_run md5 (kv_init 1000) (map encode cmds) = [RStatus (K "OK"); RInt 54; RInt 54].
Proof. intros. exists [KSet (K "a") (K "5"); KIncr (K "a"); KGet (K "a")]. split; vm_compute; reflexivity. Qed.

(* ... and on a value that is not a number: a number instead of an error *)
Lemma Kv_refuted_incr_on_text_l : forall md5, exists cmds, refutes md5 cmds /\
  kv_run md5 (kv_init 1000) (map encode cmds) = [RStatus (K "OK"); RInt 6513250].
Proof. intros. exists [KSet (K "a") (K "abc"); KIncr (K "a")]. split; vm_compute; reflexivity. Qed.

(* kv-incr-overflow:  INCRBY k 9223372036854775807 ; INCR k   ->  :9223372036854775807  :-9223372036854775808 *)
Lemma Kv_refuted_incr_overflow_l : forall md5, exists cmds, refutes md5 cmds /\
  kv_run md5 (kv_init 1000) (map encode cmds) = [RInt 9223372036854775807; RInt (-9223372036854775808)].
Proof. intros. exists [KIncrBy (K "k") (K "9223372036854775807"); KIncr (K "k")]. split; vm_compute; reflexivity. Qed.

(* kv-append-on-counter:  INCR n ; APPEND n ab ; GET n   ->  :1  :10  :1 *)
Lemma Kv_refuted_append_on_counter_l : forall md5, exists cmds, refutes md5 cmds /\
  kv_run md5 (kv_init 1000) (map encode cmds) = [RInt 1; RInt 10; RInt 1].
Proof. intros. exists [KIncr (K "n"); KAppend (K "n") (K "ab"); KGet (K "n")]. split; vm_compute; reflexivity. Qed.

(* SETNX on an existing key: the answer is right, but the request waits 16 ticks of the server clock for it *)
Lemma Kv_setnx_existing_waits_l : forall md5,
  let '(st1, _) := kv_step md5 (kv_init 1000) [K "SET"; K "a"; K "1"] in
  let '(_, r, n) := kv_step_t md5 st1 [K "SETNX"; K "a"; K "2"] in
  r = RInt 0 /\ n = 16.
Proof. intros. vm_compute. split; reflexivity. Qed.

(* the commands outside [kvcmd] (no clock in the specification): the witness is the run itself *)
(* kv-expire-missing-key: EXPIRE answers 1 on a key that EXISTS reports missing, and the phantom hold makes DEL answer 1 *)
Lemma Kv_refuted_expire_missing_l : forall md5,
  kv_run md5 (kv_init 1000) [[K "EXPIRE"; K "b"; K "100"]; [K "EXISTS"; K "b"]; [K "GET"; K "b"]; [K "DEL"; K "b"]]
  = [RInt 1; RInt 0; RNil; RInt 1].
Proof. intros. vm_compute. reflexivity. Qed.

(* kv-persist-arity: the Redis form of PERSIST is refused (unless the tree carries proposed_fixes/kv_persist_arity.diff:
   the statement follows the source-derived switch Kv/KvFlags.v) *)
Lemma Kv_refuted_persist_arity_l : forall md5,
  kv_run md5 (kv_init 1000) [[K "SET"; K "a"; K "x"]; [K "EXPIRE"; K "a"; K "100"]; [K "PERSIST"; K "a"]]
  = [RStatus (K "OK"); RInt 1; if kv_persist_fix then RInt 1 else RError (K "ERR Command Parse Args Count Error")].
Proof. intros. vm_compute. reflexivity. Qed.

(* kv-del-leaves-value: SETEX k 3 ab ; DEL k ; GET k ; APPEND k cd ; GET k  ->  +OK :1 $-1 :4 $4 abcd *)
Lemma Kv_refuted_del_leaves_value_l : forall md5,
  kv_run md5 (kv_init 1000) [[K "SETEX"; K "k"; K "3"; K "ab"]; [K "DEL"; K "k"]; [K "GET"; K "k"];
                             [K "APPEND"; K "k"; K "cd"]; [K "GET"; K "k"]]
  = [RStatus (K "OK"); RInt 1; RNil; RInt 4; RBulk (K "abcd")].
Proof. intros. vm_compute. reflexivity. Qed.

(* kv-key-alias: 'a' and its 32-character hexadecimal id are one key *)
Lemma Kv_refuted_key_alias_l : forall md5,
  kv_run md5 (kv_init 1000) [[K "SET"; K "a"; K "1"]; [K "GET"; K "00000000000000000000000000000061"]]
  = [RStatus (K "OK"); RBulk (K "1")].
Proof. intros. vm_compute. reflexivity. Qed.
