(* C15_text -- the specification: a plain key-value store.

   Keys are identified by the 16-byte id the server derives from the key string ([key_id]; the aliasing of different
   strings with one id is finding kv-key-alias).  Values are byte strings or 64-bit counters: a counter is what
   INCR/DECR(BY) leave behind; GET renders it as a RESP integer (the only liberty taken with Redis: there the value
   would be the decimal string).  Everything else is the Redis semantics of the commands of property C15:
   INCR on a byte string parses it as a decimal number or answers an error, APPEND on a counter appends to its decimal
   rendering, arithmetic outside int64 answers an error, and so on.  No clock: EXPIRE / PERSIST / SETEX are left to the
   differential check (checks/C15_text.py) and to the refutation lemmas of KvRefute.v. *)
From Coq Require Import List NArith ZArith Bool String.
From Slock Require Import Base.Util Engine.Types Kv.KvModel.
Import ListNotations.
Open Scope N_scope.

Inductive kvcmd :=
| KSet (k v : bytes) | KGet (k : bytes) | KDel (k : bytes) | KSetNX (k v : bytes) | KGetSet (k v : bytes)
| KIncr (k : bytes) | KDecr (k : bytes) | KIncrBy (k d : bytes) | KDecrBy (k d : bytes)
| KAppend (k v : bytes) | KExists (k : bytes) | KStrlen (k : bytes).

(* the request a client sends *)
Definition encode (c : kvcmd) : textcmd :=
  match c with
  | KSet k v => [str "SET"; k; v]
  | KGet k => [str "GET"; k]
  | KDel k => [str "DEL"; k]
  | KSetNX k v => [str "SETNX"; k; v]
  | KGetSet k v => [str "GETSET"; k; v]
  | KIncr k => [str "INCR"; k]
  | KDecr k => [str "DECR"; k]
  | KIncrBy k d => [str "INCRBY"; k; d]
  | KDecrBy k d => [str "DECRBY"; k; d]
  | KAppend k v => [str "APPEND"; k; v]
  | KExists k => [str "EXISTS"; k]
  | KStrlen k => [str "STRLEN"; k]
  end.

Definition cmd_key (c : kvcmd) : bytes :=
  match c with
  | KSet k _ | KGet k | KDel k | KSetNX k _ | KGetSet k _ | KIncr k | KDecr k | KIncrBy k _ | KDecrBy k _
  | KAppend k _ | KExists k | KStrlen k => k
  end.

Inductive value := VStr (s : bytes) | VNum (z : Z).
Definition store := amap value.

Definition in_int64 (z : Z) : bool := ((-9223372036854775808 <=? z) && (z <=? 9223372036854775807))%Z.

(* the decimal number a byte string denotes for INCR (Redis string2ll: optional '-', digits, int64); the server never
   gets this far (finding kv-incr-on-string), so the exact grammar only matters for the refutation witnesses *)
Definition value_int (v : value) : option Z :=
  match v with
  | VNum z => Some z
  | VStr s => match s with 43 :: _ => None | _ => parse_int s end
  end.
Definition value_bytes (v : value) : bytes := match v with VStr s => s | VNum z => dec_Z z end.

Definition any_error : textreply := RError [].

Definition get_reply (o : option value) : textreply :=
  match o with None => RNil | Some (VStr s) => RBulk s | Some (VNum z) => RInt z end.

Section Spec.
Variable md5 : bytes -> bytes.
Notation kid := (key_id md5).

Definition incr_by (m : store) (k : bytes) (delta : option Z) : store * textreply :=
  match delta with
  | None => (m, any_error)                      (* the increment is not an int64 (or its negation is not) *)
  | Some d =>
      match (match aget m (kid k) with None => Some 0%Z | Some v => value_int v end) with
      | None => (m, any_error)                  (* value is not an integer *)
      | Some old => if in_int64 (old + d) then (aset m (kid k) (VNum (old + d)), RInt (old + d))
                    else (m, any_error)         (* increment or decrement would overflow *)
      end
  end.

Definition neg_int64 (z : Z) : option Z := if in_int64 (- z) then Some (- z)%Z else None.

Definition spec_step (m : store) (c : kvcmd) : store * textreply :=
  match c with
  | KSet k v => (aset m (kid k) (VStr v), RStatus (str "OK"))
  | KGet k => (m, get_reply (aget m (kid k)))
  | KDel k => match aget m (kid k) with Some _ => (adel m (kid k), RInt 1) | None => (m, RInt 0) end
  | KSetNX k v => match aget m (kid k) with Some _ => (m, RInt 0) | None => (aset m (kid k) (VStr v), RInt 1) end
  | KGetSet k v => (aset m (kid k) (VStr v), get_reply (aget m (kid k)))
  | KIncr k => incr_by m k (Some 1%Z)
  | KDecr k => incr_by m k (Some (-1)%Z)
  | KIncrBy k d => incr_by m k (parse_int d)
  | KDecrBy k d => incr_by m k (match parse_int d with Some z => neg_int64 z | None => None end)
  | KAppend k v =>
      let s := match aget m (kid k) with None => v | Some old => value_bytes old ++ v end in
      (aset m (kid k) (VStr s), RInt (Z.of_N (blen s)))
  | KExists k => (m, RInt (match aget m (kid k) with Some _ => 1 | None => 0 end))
  | KStrlen k => (m, RInt (match aget m (kid k) with Some v => Z.of_N (blen (value_bytes v)) | None => 0 end))
  end.

Fixpoint spec_run (m : store) (cmds : list kvcmd) : list textreply :=
  match cmds with
  | [] => []
  | c :: rest => let '(m', r) := spec_step m c in r :: spec_run m' rest
  end.

(* a server reply agrees with the specification: equal, except that the specification does not fix error texts *)
Definition rmatch (server spec : textreply) : Prop :=
  match spec with
  | RError _ => exists e, server = RError e
  | _ => server = spec
  end.

(* ---------------------------------------------------------------------------------------------- the fragment
   The discipline under which the server DOES behave like the store above (theorem Kv_refines_store_partial).
   Every clause is there because the unrestricted statement is refuted (KvRefute.v):
     - a key created by SETNX accepts only reads, DEL (and SETNX) afterwards        (kv-write-after-setnx)
     - INCR/DECR(BY) only on missing keys and counters, result within int64          (kv-incr-on-string, kv-incr-overflow)
     - APPEND only on missing keys and byte strings                                  (kv-append-on-counter)
     - SETNX only on missing keys: on an existing key the request WAITS for the connection timeout (15 s of server
       time pass); the answer :0 is right but the step is outside the clock-free theorem -- differential check only
     - key strings shorter than 65533 bytes (the 16-bit length of the KEY property of the value frame) *)
Definition key_ok (k : bytes) : bool := blen k + 3 <? 65536.

Definition mem (x : N) (l : list N) : bool := existsb (N.eqb x) l.

Definition frag_cmd (m : store) (nx : list N) (c : kvcmd) : bool :=
  let id := kid (cmd_key c) in
  let counter_ok (delta : option Z) :=
    match delta with
    | None => true                           (* refused by the argument conversion, whatever the key is *)
    | Some d => negb (mem id nx) &&
                match aget m id with
                | None => in_int64 d
                | Some (VNum old) => in_int64 (old + d)
                | Some (VStr _) => false
                end
    end in
  match c with
  | KSet k _ | KGetSet k _ => key_ok k && negb (mem id nx)
  | KSetNX k _ => key_ok k && match aget m id with None => true | Some _ => false end
  | KAppend k _ => key_ok k && negb (mem id nx) && match aget m id with Some (VNum _) => false | _ => true end
  | KIncr k => key_ok k && counter_ok (Some 1%Z)
  | KDecr k => key_ok k && counter_ok (Some (-1)%Z)
  | KIncrBy k d => key_ok k && counter_ok (parse_int d)
  | KDecrBy k d => key_ok k && match parse_int d with
                               | None => true
                               | Some z => match neg_int64 z with
                                           | None => false       (* DECRBY k -2^63: the server negates modulo 2^64 *)
                                           | Some d' => counter_ok (Some d')
                                           end
                               end
  | KGet _ | KDel _ | KExists _ | KStrlen _ => true
  end.

Definition nx_step (m : store) (nx : list N) (c : kvcmd) : list N :=
  let id := kid (cmd_key c) in
  match c with
  | KSetNX _ _ => match aget m id with None => id :: nx | Some _ => nx end
  | KDel _ => filter (fun x => negb (x =? id)) nx
  | _ => nx
  end.

Fixpoint frag_run (m : store) (nx : list N) (cmds : list kvcmd) : bool :=
  match cmds with
  | [] => true
  | c :: rest => frag_cmd m nx c && frag_run (fst (spec_step m c)) (nx_step m nx c) rest
  end.

End Spec.
