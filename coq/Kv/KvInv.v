(* C15_text -- the invariant relating the engine state of a text connection's database to the plain store, and its
   preservation by the three kinds of steps (a key gets its hold, a held key is updated, a key is released). *)
From Coq Require Import List NArith ZArith Bool String Lia.
From Slock Require Import Base.Util Data.Data Data.DataProofs Data.Spec Data.Refine
     Engine.Types Engine.Queues Engine.Timers Engine.Engine Engine.Engine2 Engine.LocalBase
     Kv.KvModel Kv.KvSpec Kv.KvData Kv.KvBase Kv.KvEngine.
Import ListNotations.
Open Scope N_scope.

(* the stored value frame of a key denotes the value of the store *)
Definition val_ok (a : absval) (v : value) : Prop :=
  match v with VStr s => str_val a s | VNum z => num_val a z end.
Definition vrel (d : option mdata) (v : value) : Prop :=
  wf_cur d /\ exists a, abs all_fixes d = Some a /\ val_ok a v.

Record hview := mkH { kh_r : N; kh_d : option mdata; kh_l : lockrec; kh_lid : N; kh_q : list ref }.

Record key_held (s : db) (nx : list N) (k : N) (v : value) (h : hview) : Prop := mkHeld {
  kh_m : aget (mgrs s) k = Some (held_mgr (kh_r h) (kh_d h));
  kh_s : aget (Types.store s) (kh_r h) = Some (kh_l h);
  kh_ok : hold_ok (kh_l h) k (kh_lid h);
  kh_id : mem k nx = false -> kh_lid h = k;
  kh_v : vrel (kh_d h) v;
  kh_e : aget (elong s) KMAX = Some (kh_q h);
  kh_in : In (kh_r h) (kh_q h)
}.

Record Inv (s : db) (sp : store) (nx : list N) : Prop := mkInv {
  i_leader : leader s = true;
  i_now : (now s < MAXT - 5)%Z;
  i_chk : (checkE s <= MAXT)%Z;
  i_free : forall k, aget sp k = None -> aget (mgrs s) k = None;
  i_held : forall k v, aget sp k = Some v -> exists h, key_held s nx k v h;
  i_next : forall r l, aget (Types.store s) r = Some l -> r < next s
}.

Lemma inv_init t0 : (t0 < MAXT - 5)%Z -> Inv (init_db t0 1) [] [].
Proof.
  intros H. constructor; cbn; auto; try discriminate.
  unfold MAXT in *. lia.
Qed.

Lemma mem_cons_other k k' nx : k' <> k -> mem k' (k :: nx) = mem k' nx.
Proof. intros H. unfold mem. cbn. rewrite (neqb k' k) by exact H. reflexivity. Qed.
Lemma mem_filter_other k k' nx : k' <> k -> mem k' (filter (fun x => negb (x =? k)) nx) = mem k' nx.
Proof.
  intros H. unfold mem. induction nx as [|x r IH]; cbn; auto.
  destruct (x =? k) eqn:E; cbn.
  - apply N.eqb_eq in E. subst x. rewrite (neqb k' k) by exact H. exact IH.
  - rewrite IH. reflexivity.
Qed.

Lemma remove_ref_in q r r' : In r' q -> r' <> r -> In r' (remove_ref q r).
Proof.
  intros Hi Hn. unfold remove_ref. apply filter_In. split; [exact Hi|].
  rewrite (neqb r' r) by exact Hn. reflexivity.
Qed.

(* a record of another key is another record *)
Lemma held_ref_neq s nx k k' v v' h h' : key_held s nx k v h -> key_held s nx k' v' h' -> k <> k' -> kh_r h <> kh_r h'.
Proof.
  intros H H' Hk E. pose proof (kh_s _ _ _ _ _ H) as A. pose proof (kh_s _ _ _ _ _ H') as B. rewrite E in A.
  rewrite A in B. injection B as B. pose proof (kh_ok _ _ _ _ _ H) as (X & _). pose proof (kh_ok _ _ _ _ _ H') as (Y & _).
  congruence.
Qed.

(* ---------------------------------------------------------------------------------------------- a free key gets its hold *)
Lemma inv_new s s' sp nx nx' k d' l' lid v :
  Inv s sp nx -> aget sp k = None ->
  moves s s' k (next s) (mkV (Some (held_mgr (next s) d')) (Some l')
                             (Some (match aget (elong s) KMAX with Some x => x | None => [] end ++ [next s]))) ->
  next s < next s' -> hold_ok l' k lid -> (mem k nx' = false -> lid = k) -> vrel d' v ->
  (forall k', k' <> k -> mem k' nx' = mem k' nx) ->
  Inv s' (aset sp k v) nx'.
Proof.
  intros I Hf [(Sm & Sl & Sq) F] Hnx Hok Hid Hv Hmem. cbn [v_m v_l v_q] in *.
  constructor.
  - rewrite (f_leader _ _ _ _ F). apply I.
  - rewrite (f_now _ _ _ _ F). apply I.
  - rewrite (f_checkE _ _ _ _ F). apply I.
  - intros k' H'. destruct (N.eq_dec k k') as [<-|Hk]; [rewrite aget_aset_same in H'; discriminate|].
    rewrite aget_aset_other in H' by exact Hk. rewrite (f_m _ _ _ _ F) by congruence. apply I. exact H'.
  - intros k' v' H'. destruct (N.eq_dec k k') as [<-|Hk].
    + rewrite aget_aset_same in H'. injection H' as <-.
      exists (mkH (next s) d' l' lid (match aget (elong s) KMAX with Some x => x | None => [] end ++ [next s])).
      constructor; cbn [kh_r kh_d kh_l kh_lid kh_q]; auto. apply in_or_app. right. left. reflexivity.
    + rewrite aget_aset_other in H' by exact Hk. destruct (i_held _ _ _ I _ _ H') as [[r d l li q] [Hm Hs Ho Hi Hvv He Hin]].
      cbn [kh_r kh_d kh_l kh_lid kh_q] in *.
      assert (Hr : r <> next s) by (pose proof (i_next _ _ _ I _ _ Hs); lia).
      exists (mkH r d l li (q ++ [next s])).
      constructor; cbn [kh_r kh_d kh_l kh_lid kh_q]; auto.
      * rewrite (f_m _ _ _ _ F) by congruence. exact Hm.
      * rewrite (f_l _ _ _ _ F) by exact Hr. exact Hs.
      * rewrite Hmem by congruence. exact Hi.
      * rewrite Sq, He. reflexivity.
      * apply in_or_app. left. exact Hin.
  - intros r l H'. destruct (N.eq_dec r (next s)) as [->|Hr]; [exact Hnx|].
    rewrite (f_l _ _ _ _ F) in H' by exact Hr. pose proof (i_next _ _ _ I _ _ H'). lia.
Qed.

(* ---------------------------------------------------------------------------------------------- a held key is updated *)
Lemma inv_upd s s' sp nx k v0 v d' l' h :
  Inv s sp nx -> key_held s nx k v0 h -> mem k nx = false ->
  moves s s' k (kh_r h) (mkV (Some (held_mgr (kh_r h) d')) (Some l') (Some (kh_q h))) ->
  hold_ok l' k k -> vrel d' v ->
  Inv s' (aset sp k v) nx.
Proof.
  intros I Hh Hnx [(Sm & Sl & Sq) F] Hok Hv. cbn [v_m v_l v_q] in *.
  constructor.
  - rewrite (f_leader _ _ _ _ F). apply I.
  - rewrite (f_now _ _ _ _ F). apply I.
  - rewrite (f_checkE _ _ _ _ F). apply I.
  - intros k' H'. destruct (N.eq_dec k k') as [<-|Hk]; [rewrite aget_aset_same in H'; discriminate|].
    rewrite aget_aset_other in H' by exact Hk. rewrite (f_m _ _ _ _ F) by congruence. apply I. exact H'.
  - intros k' v' H'. destruct (N.eq_dec k k') as [<-|Hk].
    + rewrite aget_aset_same in H'. injection H' as <-.
      exists (mkH (kh_r h) d' l' k (kh_q h)).
      constructor; cbn [kh_r kh_d kh_l kh_lid kh_q]; auto. apply Hh.
    + rewrite aget_aset_other in H' by exact Hk. destruct (i_held _ _ _ I _ _ H') as [h' Hh'].
      pose proof (held_ref_neq _ _ _ _ _ _ _ _ Hh Hh' Hk) as Hr.
      exists h'. destruct Hh' as [Hm Hs Ho Hi Hvv He Hin].
      refine (mkHeld s' nx k' v' h' _ _ Ho Hi Hvv _ Hin).
      * rewrite (f_m _ _ _ _ F) by congruence. exact Hm.
      * rewrite (f_l _ _ _ _ F) by congruence. exact Hs.
      * rewrite Sq. pose proof (kh_e _ _ _ _ _ Hh). congruence.
  - intros r l H'. destruct (N.eq_dec r (kh_r h)) as [->|Hr].
    + pose proof (i_next _ _ _ I _ _ (kh_s _ _ _ _ _ Hh)). pose proof (f_next _ _ _ _ F). lia.
    + rewrite (f_l _ _ _ _ F) in H' by exact Hr. pose proof (i_next _ _ _ I _ _ H'). pose proof (f_next _ _ _ _ F). lia.
Qed.

(* ---------------------------------------------------------------------------------------------- a key is released *)
Lemma inv_del s s' sp nx k v0 h :
  Inv s sp nx -> key_held s nx k v0 h ->
  moves s s' k (kh_r h) (mkV None None (match remove_ref (kh_q h) (kh_r h) with [] => None | x => Some x end)) ->
  Inv s' (adel sp k) (filter (fun x => negb (x =? k)) nx).
Proof.
  intros I Hh [(Sm & Sl & Sq) F]. cbn [v_m v_l v_q] in *.
  constructor.
  - rewrite (f_leader _ _ _ _ F). apply I.
  - rewrite (f_now _ _ _ _ F). apply I.
  - rewrite (f_checkE _ _ _ _ F). apply I.
  - intros k' H'. destruct (N.eq_dec k k') as [<-|Hk]; [exact Sm|].
    rewrite aget_adel_other in H' by exact Hk. rewrite (f_m _ _ _ _ F) by congruence. apply I. exact H'.
  - intros k' v' H'. destruct (N.eq_dec k k') as [<-|Hk]; [rewrite aget_adel_same in H'; discriminate|].
    rewrite aget_adel_other in H' by exact Hk. destruct (i_held _ _ _ I _ _ H') as [h' Hh'].
    pose proof (held_ref_neq _ _ _ _ _ _ _ _ Hh Hh' Hk) as Hr.
    assert (Hq : kh_q h' = kh_q h) by (pose proof (kh_e _ _ _ _ _ Hh); pose proof (kh_e _ _ _ _ _ Hh'); congruence).
    destruct h' as [r d l li q]. destruct Hh' as [Hm Hs Ho Hi Hvv He Hin]. cbn [kh_r kh_d kh_l kh_lid kh_q] in *. subst q.
    pose proof (remove_ref_in _ (kh_r h) r Hin (fun E => Hr (eq_sym E))) as Hin'.
    exists (mkH r d l li (remove_ref (kh_q h) (kh_r h))).
    constructor; cbn [kh_r kh_d kh_l kh_lid kh_q]; auto.
    + rewrite (f_m _ _ _ _ F) by congruence. exact Hm.
    + rewrite (f_l _ _ _ _ F) by congruence. exact Hs.
    + rewrite mem_filter_other by congruence. exact Hi.
    + rewrite Sq. destruct (remove_ref (kh_q h) (kh_r h)); [contradiction|reflexivity].
  - intros r l H'. destruct (N.eq_dec r (kh_r h)) as [->|Hr]; [rewrite Sl in H'; discriminate|].
    rewrite (f_l _ _ _ _ F) in H' by exact Hr. pose proof (i_next _ _ _ I _ _ H'). pose proof (f_next _ _ _ _ F). lia.
Qed.

(* a step that leaves the database alone *)
Lemma inv_same s s' sp nx :
  Inv s sp nx -> mgrs s' = mgrs s -> Types.store s' = Types.store s -> elong s' = elong s -> next s' = next s ->
  leader s' = leader s -> now s' = now s -> checkE s' = checkE s -> Inv s' sp nx.
Proof.
  intros I E1 E2 E3 E4 E5 E6 E7. constructor; rewrite ?E1, ?E2, ?E3, ?E4, ?E5, ?E6, ?E7; try apply I.
  intros k v H. destruct (i_held _ _ _ I _ _ H) as [h [Hm Hs Ho Hi Hvv He Hin]]. exists h.
  refine (mkHeld s' nx k v h _ _ Ho Hi Hvv _ Hin); congruence.
Qed.
