(* C15_text -- executable model of what the server does with ONE Redis-style text command on one text connection.

   Modelled Go code (all of it on the unchanged tree /repo):
     protocol/textcommand.go   ConvertArgId2LockId                          -> key_id      (md5 is a parameter of the model)
                               ConvertArgs2Flag                             -> args2flag
                               ConvertText{Del,Set,SetNX,SetEX,GetSet,Append,Incr,Decr,Expire,Get,Strlen,Exists,Type,Dump}Command
                                                                            -> convert     (command record + result writer)
                               WriteText*CommandResult and the two closures -> render
     protocol/command.go       NewLockCommandDataFrom{String,Bytes} with the KEY property   -> frame_prop
                               LockResultCommandData.{GetValueOffset,GetIncrValue,GetStringValue,GetValueSize} -> res_*
     server/protocol.go        TextServerProtocol.commandHandlerKeyWriteValueCommand  -> kv_write (Engine2.step + waiting for the reply)
                               TextServerProtocol.commandHandlerKeyReadValueCommand   -> kv_read  (direct look at the key manager)
   The lock engine itself (LockDB.Lock / UnLock / sweeps / wake-up passes) and the value-operation layer are the
   existing models Slock.Engine.Engine2.step and Slock.Data.Data; nothing of them is re-defined here.

   Time: manual clock. One [tick] = currentTime++ ; checkTimeTimeOut for every pending second ; checkTimeExpried for
   every pending second (what the two sweeper goroutines do once a second).  A write command whose request is queued as
   a waiter (its handler blocks on the reply channel) is served by ticking until the reply event appears; the number of
   ticks is an observable of the step.

   Generated ids: GenRequestId / GenLockId are modelled as counters; generated lock ids live above 2^128, i.e. they are
   different from every key-derived id and from each other (trusted: freshness of GenLockId). *)
From Coq Require Import List NArith ZArith Bool String Ascii.
From Slock Require Import Kv.KvFlags Base.Util Data.Spec Engine.Types Engine.Queues Engine.Timers Engine.Engine Engine.Engine2.
Import ListNotations.
Open Scope N_scope.

(* ------------------------------------------------------------------------------------------------ byte strings *)
Definition str (s : string) : bytes := map N_of_ascii (list_ascii_of_string s).
Definition upper1 (c : N) : N := if (97 <=? c) && (c <=? 122) then c - 32 else c.
Definition upper (s : bytes) : bytes := map upper1 s.             (* strings.ToUpper on ASCII input *)
Fixpoint beq (a b : bytes) : bool :=
  match a, b with
  | [], [] => true
  | x :: a', y :: b' => (x =? y) && beq a' b'
  | _, _ => false
  end.
Definition is_ (s : bytes) (k : string) : bool := beq s (str k).

Definition blen (b : bytes) : N := N.of_nat (List.length b).

(* decimal rendering (fmt.Sprintf("%d", ..)) *)
Fixpoint dec_digits (fuel : nat) (n : N) (acc : bytes) : bytes :=
  match fuel with
  | O => acc
  | S f => let acc' := (48 + n mod 10) :: acc in
           if n / 10 =? 0 then acc' else dec_digits f (n / 10) acc'
  end.
Definition dec_N (n : N) : bytes := dec_digits (S (N.to_nat (N.size n))) n [].
Definition dec_Z (z : Z) : bytes :=
  match z with
  | Zneg p => 45 :: dec_N (Npos p)
  | _ => dec_N (Z.to_N z)
  end.

(* strconv.ParseInt(s, 10, 64) *)
Fixpoint digits (s : bytes) (acc : Z) : option Z :=
  match s with
  | [] => Some acc
  | c :: r => if (48 <=? c) && (c <=? 57) then digits r (acc * 10 + Z.of_N (c - 48))%Z else None
  end.
Definition parse_int (s : bytes) : option Z :=
  let '(neg, body) := match s with
                      | 43 :: r => (false, r)
                      | 45 :: r => (true, r)
                      | _ => (false, s)
                      end in
  match body with
  | [] => None
  | _ => match digits body 0%Z with
         | None => None
         | Some v => let v' := if neg then (- v)%Z else v in
                     if ((-9223372036854775808 <=? v') && (v' <=? 9223372036854775807))%Z then Some v' else None
         end
  end.

Definition u16z (z : Z) : N := Z.to_N (z mod 65536).        (* uint16(int64) *)
Definition u16add (a b : N) : N := (a + b) mod 65536.

(* ------------------------------------------------------------------------------------------------ keys -> 16-byte ids *)
Definition hexval (c : N) : option N :=
  if (48 <=? c) && (c <=? 57) then Some (c - 48)
  else if (97 <=? c) && (c <=? 102) then Some (c - 87)
  else if (65 <=? c) && (c <=? 70) then Some (c - 55)
  else None.
Fixpoint hex_decode (s : bytes) : option bytes :=
  match s with
  | [] => Some []
  | a :: b :: r =>
      match hexval a, hexval b, hex_decode r with
      | Some x, Some y, Some t => Some (16 * x + y :: t)
      | _, _, _ => None
      end
  | _ => None
  end.
Fixpoint be_dec (l : bytes) (acc : N) : N :=
  match l with [] => acc | b :: r => be_dec r (acc * 256 + b) end.
Definition two128 : N := 340282366920938463463374607431768211456.

Section WithMd5.
Variable md5 : bytes -> bytes.          (* crypto/md5.Sum; the theorems hold for every function *)

(* ConvertArgId2LockId, the 16 bytes read as a big-endian number *)
Definition key_id (a : bytes) : N :=
  let n := blen a in
  (if n =? 16 then be_dec a 0
   else if 16 <? n then
     if n =? 32 then match hex_decode a with Some v => be_dec v 0 | None => be_dec (md5 a) 0 end
     else be_dec (md5 a) 0
   else be_dec a 0) mod two128.

(* ------------------------------------------------------------------------------------------------ value frames *)
Definition le16 (n : N) : bytes := [n mod 256; (n / 256) mod 256].
(* NewLockCommandDataFrom{String,Bytes}(payload, STAGE_CURRENT, typ, flag, [KEY property = key]) *)
(* the property header: total length of the properties, then (code = KEY, length, bytes) *)
Definition key_hdr (key : bytes) : bytes := le16 (blen key + 3) ++ [1] ++ le16 (blen key) ++ key.
Definition frame_prop (typ flag : N) (key payload : bytes) : bytes :=
  mk_frame (typ mod 64) (N.lor flag 16) (key_hdr key) payload.
Definition frame_set (key v : bytes) : bytes := frame_prop 0 0 key v.
Definition frame_append (key v : bytes) : bytes := frame_prop 3 0 key v.
Definition frame_incr (key : bytes) (d : Z) : bytes := frame_prop 2 1 key (le64 d).

(* ------------------------------------------------------------------------------------------------ converted commands *)
Inductive writer :=
| WDel | WSet | WSetNX | WGet | WAppend (arglen : N) | WIncr (d : Z) | WExpire | WStrlen | WExists | WType | WDump.

Record tcmd := mkT {
  t_lock : bool;            (* COMMAND_LOCK / COMMAND_UNLOCK *)
  t_flag : N; t_timeout : N; t_tflag : N; t_expried : N; t_eflag : N;
  t_genid : bool;           (* LockId = GenLockId() instead of the key id *)
  t_data : option bytes
}.
Definition set_flag c v := mkT (t_lock c) v (t_timeout c) (t_tflag c) (t_expried c) (t_eflag c) (t_genid c) (t_data c).
Definition set_timeout c v := mkT (t_lock c) (t_flag c) v (t_tflag c) (t_expried c) (t_eflag c) (t_genid c) (t_data c).
Definition set_tflag c v := mkT (t_lock c) (t_flag c) (t_timeout c) v (t_expried c) (t_eflag c) (t_genid c) (t_data c).
Definition set_expried c v := mkT (t_lock c) (t_flag c) (t_timeout c) (t_tflag c) v (t_eflag c) (t_genid c) (t_data c).
Definition set_eflag c v := mkT (t_lock c) (t_flag c) (t_timeout c) (t_tflag c) (t_expried c) v (t_genid c) (t_data c).
Definition set_genid c := mkT (t_lock c) (t_flag c) (t_timeout c) (t_tflag c) (t_expried c) (t_eflag c) true (t_data c).

Inductive conv :=
| CErr (msg : string)                    (* "-ERR " ++ msg *)
| CWrite (c : tcmd) (w : writer)         (* commandHandlerKeyWriteValueCommand *)
| CRead (w : writer)                     (* commandHandlerKeyReadValueCommand *)
| COther.                                (* a command name outside the Redis-style key commands: not modelled *)

Definition E_ARGS : string := "Command Parse Args Count Error".

(* seconds-style: > 65535 switches to minutes *)
Definition sec_time (v : Z) : N * bool :=
  if (65535 <? v)%Z then ((if (Z.rem v 60 =? 0)%Z then u16z (Z.quot v 60) else u16add (u16z (Z.quot v 60)) 1), true)
  else (u16z v, false).
(* PX of ConvertArgs2Flag: the minute test is v % 60000 *)
Definition msec_time_px (v : Z) : N * N :=
  if (65535000 <? v)%Z then ((if (Z.rem v 60000 =? 0)%Z then u16z (Z.quot v 60000) else u16add (u16z (Z.quot v 60000)) 1), 64)
  else if (v <=? 3000)%Z then (u16z v, 1024) else (u16z v, 0).
(* PTX, PSETEX, PEXPIRE: the minute test is (v/1000) % 60 *)
Definition msec_time (v : Z) : N * N :=
  if (65535000 <? v)%Z then ((if (Z.rem (Z.quot v 1000) 60 =? 0)%Z then u16z (Z.quot v 60000) else u16add (u16z (Z.quot v 60000)) 1), 64)
  else if (v <=? 3000)%Z then (u16z v, 1024) else (u16z v, 0).

(* ConvertArgs2Flag(lockCommand, args): `for i := 0; i < len(args); i++` -- keywords with a value skip it *)
Fixpoint args2flag (fuel : nat) (a : list bytes) (c : tcmd) : tcmd + string :=
  match fuel with
  | O => inl c
  | S f =>
    match a with
    | [] => inl c
    | w :: rest =>
      let w := upper w in
      if is_ w "EX" then
        match rest with
        | [] => inr E_ARGS
        | v :: rest' =>
          match parse_int v with
          | None => inr "Command Parse EX Value Error"%string
          | Some z => let '(e, minute) := sec_time z in
                      args2flag f rest' (if minute then set_eflag (set_expried c e) (N.lor (t_eflag c) 64) else set_expried c e)
          end
        end
      else if is_ w "PX" then
        match rest with
        | [] => inr E_ARGS
        | v :: rest' =>
          match parse_int v with
          | None => inr "Command Parse PX Value Error"%string
          | Some z => let '(e, fl) := msec_time_px z in
                      args2flag f rest' (set_eflag (set_expried c e) (N.lor (t_eflag c) fl))
          end
        end
      else if is_ w "TX" then
        match rest with
        | [] => inr E_ARGS
        | v :: rest' =>
          match parse_int v with
          | None => inr "Command Parse TX Value Error"%string
          | Some z => let '(e, minute) := sec_time z in
                      args2flag f rest' (if minute then set_tflag (set_timeout c e) (N.lor (t_tflag c) 64) else set_timeout c e)
          end
        end
      else if is_ w "PTX" then
        match rest with
        | [] => inr E_ARGS
        | v :: rest' =>
          match parse_int v with
          | None => inr "Command Parse TX Value Error"%string
          | Some z => let '(e, fl) := msec_time z in
                      args2flag f rest' (set_tflag (set_timeout c e) (N.lor (t_tflag c) fl))
          end
        end
      else if is_ w "NX" then args2flag f rest (set_genid (set_flag c 32))
      else if is_ w "XX" then args2flag f rest (set_tflag c (N.lor (t_tflag c) 512))
      else if is_ w "ACK" then args2flag f rest (set_tflag c (N.lor (t_tflag c) 4096))
      else if is_ w "NAOF" then args2flag f rest (set_eflag c (N.lor (t_eflag c) 512))
      else args2flag f rest c
    end
  end.
Definition conv_flags (a : list bytes) (c : tcmd) : tcmd + string := args2flag (S (List.length a)) a c.

(* the expiry epilogue shared by SET/GETSET (default 0x7fff) and SETNX/APPEND/INCR/DECR (default 0xffff) *)
Definition expiry_epilogue (dflt : N) (c : tcmd) : tcmd :=
  if (t_expried c =? 0) && (t_eflag c =? 0) then set_eflag (set_expried c dflt) (16384 + 256 + 8192)
  else if has (t_eflag c) 512 then set_eflag c (N.lor (t_eflag c) 8192)
  else set_eflag c (N.lor (t_eflag c) (256 + 8192)).
Definition expiry_epilogue_ex (c : tcmd) : tcmd :=
  if has (t_eflag c) 512 then set_eflag c (N.lor (t_eflag c) 8192) else set_eflag c (N.lor (t_eflag c) (256 + 8192)).

Definition conn_timeout : N := 15.     (* TextServerProtocol.timeout; the TIMEOUT command is outside the command set *)

Definition conv_set (a : list bytes) (w : writer) : conv :=
  match a with
  | _ :: k :: v :: opts =>
      let c := mkT true 34 0 0 0 0 false (Some (frame_set k v)) in
      match conv_flags opts c with
      | inr e => CErr e
      | inl c =>
          let c := if negb (has (t_flag c) 2) && (t_timeout c =? 0) && (t_tflag c =? 0) then set_timeout c conn_timeout else c in
          CWrite (expiry_epilogue 32767 c) w
      end
  | _ => CErr E_ARGS
  end.

Definition conv_incr (negate : bool) (a : list bytes) : conv :=
  match a with
  | _ :: k :: rest =>
      let go (d : Z) (opts : list bytes) :=
        let c := mkT true 34 0 0 0 0 false (Some (frame_incr k d)) in
        match conv_flags opts c with
        | inr e => CErr e
        | inl c => CWrite (expiry_epilogue 65535 c) (WIncr d)
        end in
      match rest with
      | [] => go (if negate then (-1)%Z else 1%Z) []
      | v :: rest' =>
          match parse_int v with
          | None => CErr "Command Parse Increment Value Error"
          | Some z => go (if negate then wrap64 (- z) else z) (tl rest')     (* index = 4: args[3] is skipped *)
          end
      end
  | _ => CErr E_ARGS
  end.

Definition convert (a : list bytes) : conv :=
  match a with
  | [] => COther
  | n0 :: _ =>
    let n := upper n0 in
    if is_ n "DEL" then
      match a with
      | _ :: _ :: _ => CWrite (mkT false 1 0 0 0 0 false None) WDel
      | _ => CErr E_ARGS
      end
    else if is_ n "SET" then conv_set a WSet
    else if is_ n "GETSET" then conv_set a WGet
    else if is_ n "SETNX" then
      match a with
      | _ :: k :: v :: opts =>
          let c := mkT true 32 conn_timeout 0 0 0 true (Some (frame_set k v)) in
          match conv_flags opts c with
          | inr e => CErr e
          | inl c => CWrite (expiry_epilogue 65535 c) WSetNX
          end
      | _ => CErr E_ARGS
      end
    else if is_ n "SETEX" || is_ n "PSETEX" then
      match a with
      | _ :: k :: s :: v :: opts =>
          match parse_int s with
          | None => CErr "Command Parse EX Value Error"
          | Some z =>
              let c := mkT true 34 0 0 0 0 false (Some (frame_set k v)) in
              let c := if is_ n "PSETEX" then let '(e, fl) := msec_time z in set_eflag (set_expried c e) fl
                       else let '(e, minute) := sec_time z in if minute then set_eflag (set_expried c e) 64 else set_expried c e in
              match conv_flags opts c with
              | inr e => CErr e
              | inl c => CWrite (expiry_epilogue_ex c) WSet
              end
          end
      | _ => CErr E_ARGS
      end
    else if is_ n "APPEND" then
      match a with
      | _ :: k :: v :: opts =>
          let c := mkT true 34 0 0 0 0 false (Some (frame_append k v)) in
          match conv_flags opts c with
          | inr e => CErr e
          | inl c => CWrite (expiry_epilogue 65535 c) (WAppend (blen v))
          end
      | _ => CErr E_ARGS
      end
    else if is_ n "INCR" || is_ n "INCRBY" then conv_incr false a
    else if is_ n "DECR" || is_ n "DECRBY" then conv_incr true a
    else if is_ n "EXPIRE" || is_ n "PEXPIRE" || is_ n "PERSIST" then
      let build (z : Z) :=
        let c := mkT true 2 0 0 0 0 false None in
        let c := if is_ n "EXPIRE" then
                   let '(e, minute) := sec_time z in if minute then set_eflag (set_expried c e) 64 else set_expried c e
                 else if is_ n "PEXPIRE" then let '(e, fl) := msec_time z in set_eflag (set_expried c e) fl
                 else set_eflag (set_expried c 32767) 16384 in
        CWrite (set_eflag c (N.lor (t_eflag c) (256 + 8192))) WExpire in
      match a with
      | _ :: k :: s :: _ =>
          match parse_int s with
          | None => CErr "Command Parse EX Value Error"
          | Some z => build z
          end
      | [_; _] => if kv_persist_fix && is_ n "PERSIST" then build 0%Z else CErr E_ARGS   (* source switch: Kv/KvFlags.v *)
      | _ => CErr E_ARGS
      end
    else if is_ n "GET" then match a with _ :: _ :: _ => CRead WGet | _ => CErr E_ARGS end
    else if is_ n "STRLEN" then match a with _ :: _ :: _ => CRead WStrlen | _ => CErr E_ARGS end
    else if is_ n "EXISTS" then match a with _ :: _ :: _ => CRead WExists | _ => CErr E_ARGS end
    else if is_ n "TYPE" then match a with _ :: _ :: _ => CRead WType | _ => CErr E_ARGS end
    else if is_ n "DUMP" then match a with _ :: _ :: _ => CRead WDump | _ => CErr E_ARGS end
    else COther
  end.

(* ------------------------------------------------------------------------------------------------ replies *)
Inductive textreply :=
| RStatus (s : bytes)         (* +s *)
| RError (s : bytes)          (* -s *)
| RInt (z : Z)                (* :z *)
| RBulk (b : bytes)           (* $len b *)
| RNil                        (* $-1 *)
| RHang                       (* no reply: the handler would block for ever *)
| RUnmodelled (why : string). (* outside the model (millisecond wheels, array / kv values, other commands, engine panic) *)

Definition crlf : bytes := [13; 10].
Definition reply_bytes (r : textreply) : bytes :=
  match r with
  | RStatus s => 43 :: s ++ crlf
  | RError s => 45 :: s ++ crlf
  | RInt z => 58 :: dec_Z z ++ crlf
  | RBulk b => 36 :: dec_N (blen b) ++ crlf ++ b ++ crlf
  | RNil => str "$-1" ++ crlf
  | RHang => []
  | RUnmodelled _ => []
  end.

(* LockResultCommandData accessors on the raw value frame *)
Definition res_flag (d : bytes) : N := nthd d 5.
Definition res_value_offset (d : bytes) : N :=
  if N.testbit (res_flag d) 4 then
    if len d <? 8 then len d
    else let off := nthd d 6 + 256 * nthd d 7 + 8 in if len d <? off then len d else off
  else if len d <? 6 then len d else 6.
Definition res_is_unset (d : bytes) : bool := nthd d 4 mod 64 =? 1.
Definition res_incr (d : bytes) : Z :=
  if res_is_unset d then 0%Z else wrap64 (Z.of_N (le_dec (firstn_n 8 (skipn_n (res_value_offset d) d)))).
Definition res_string (d : bytes) : bytes := if res_is_unset d then [] else skipn_n (res_value_offset d) d.

Definition err_code (result : N) : textreply := RError (str "ERR " ++ dec_N result).

Definition render_value (d : bytes) (num : Z -> textreply) (strv : bytes -> textreply) (empty : textreply) : textreply :=
  if len d <? 6 then RUnmodelled "short value frame"
  else if N.testbit (res_flag d) 0 then num (res_incr d)
  else if N.testbit (res_flag d) 1 then RUnmodelled "array value"
  else if N.testbit (res_flag d) 2 then RUnmodelled "kv value"
  else if len d <=? 6 then empty
  else strv (res_string d).

Definition render (w : writer) (result : N) (data : option bytes) : textreply :=
  let bad := negb (result =? 0) && negb (result =? 5) in
  match w with
  | WDel => if negb (result =? 0) then RInt 0 else RInt 1
  | WSet => if bad then (if result =? 8 then RNil else err_code result) else RStatus (str "OK")
  | WSetNX | WExpire => if bad then (if result =? 8 then RInt 0 else err_code result) else RInt 1
  | WGet =>
      match data with
      | None => RNil
      | Some d => if negb (result =? 7) && negb (result =? 5) then RNil
                  else render_value d RInt RBulk RNil
      end
  | WAppend n =>
      if bad then (if result =? 8 then RNil else err_code result)
      else match data with
           | None => RInt (Z.of_N n)
           | Some d => if len d <? 6 then RUnmodelled "short value frame"
                       else RInt (Z.of_N (len d) - Z.of_N (res_value_offset d) + Z.of_N n)
           end
  | WIncr dlt =>
      if bad then err_code result
      else match data with
           | None => RInt dlt
           | Some d => if len d <? 6 then RUnmodelled "short value frame" else RInt (wrap64 (res_incr d + dlt))
           end
  | WStrlen =>
      match data with
      | None => RInt 0
      | Some d => if negb (result =? 7) then RInt 0
                  else render_value d (fun z => RInt (Z.of_N (blen (dec_Z z)))) (fun s => RInt (Z.of_N (blen s))) (RInt 0)
      end
  | WExists =>
      match data with
      | None => RInt 0
      | Some _ => if negb (result =? 7) then RInt 0 else RInt 1
      end
  | WType =>
      match data with
      | None => RStatus (str "none")
      | Some _ => if negb (result =? 7) then RStatus (str "none") else RStatus (str "string")
      end
  | WDump =>
      match data with
      | None => RNil
      | Some d => if negb (result =? 7) then RNil else RBulk d
      end
  end.

(* ------------------------------------------------------------------------------------------------ connection state *)
Record kvstate := mkKv {
  kv_db : db;
  kv_req : N;      (* GenRequestId counter *)
  kv_gen : N       (* GenLockId counter *)
}.
Definition kv_init (t0 : Z) : kvstate := mkKv (init_db t0 1) 1 0.

Definition the_conn : N := 0.

Definition engine_cmd (st : kvstate) (key : bytes) (c : tcmd) : cmd :=
  let k := key_id key in
  mkCmd (t_lock c) (kv_req st) (t_flag c) (if t_genid c then two128 + kv_gen st else k) k
        (t_tflag c) (t_timeout c) (t_eflag c) (t_expried c) 0 0 (t_data c).

Fixpoint find_reply (req : N) (evs : list event) : option (N * option bytes) :=
  match evs with
  | [] => None
  | EReply conn rq result _ _ _ _ _ data :: rest =>
      if (conn =? the_conn) && (rq =? req) then Some (result, data) else find_reply req rest
  | _ :: rest => find_reply req rest
  end.
Fixpoint find_panic (evs : list event) : option string :=
  match evs with
  | [] => None
  | EPanic site :: _ => Some site
  | _ :: rest => find_panic rest
  end.

(* one second of the sweeper goroutines *)
Definition tick (s : db) : db * list event :=
  let '(s1, _) := step s (AAdvance 1) in
  let '(s2, e2) := step s1 ASweepT in
  let '(s3, e3) := step s2 ASweepE in
  (s3, e2 ++ e3).

Fixpoint ticks (n : nat) (s : db) : db :=
  match n with O => s | S n' => ticks n' (fst (tick s)) end.

Inductive waited := Got (result : N) (data : option bytes) | Hung | Crashed (site : string).

(* the handler blocks on its reply channel; the clock goes on *)
Fixpoint wait_reply (fuel : nat) (s : db) (req : N) (n : N) : db * waited * N :=
  match fuel with
  | O => (s, Hung, n)
  | S f =>
      if (0 <? n_wait (cnt s))%Z then
        let '(s', ev) := tick s in
        match find_panic ev with
        | Some site => (s', Crashed site, n + 1)
        | None =>
            match find_reply req ev with
            | Some (r, d) => (s', Got r d, n + 1)
            | None => wait_reply f s' req (n + 1)
            end
        end
      else (s, Hung, n)
  end.

Definition MAX_TICKS : nat := 200.

Definition kv_write (st : kvstate) (key : bytes) (c : tcmd) (w : writer) : kvstate * textreply * N :=
  let ec := engine_cmd st key c in
  let '(s1, ev) := step (kv_db st) (AReq the_conn ec) in
  let st1 (s : db) := mkKv s (kv_req st + 1) (if t_genid c then kv_gen st + 1 else kv_gen st) in
  match find_panic ev with
  | Some site => (st1 s1, RUnmodelled site, 0)
  | None =>
      match find_reply (kv_req st) ev with
      | Some (r, d) => (st1 s1, render w r d, 0)
      | None =>
          let '(s2, wr, n) := wait_reply MAX_TICKS s1 (kv_req st) 0 in
          (st1 s2, match wr with Got r d => render w r d | Hung => RHang | Crashed site => RUnmodelled site end, n)
      end
  end.

(* commandHandlerKeyReadValueCommand: GetLockManager, then currentLock / GetLockData under the manager's mutex *)
Definition kv_read (st : kvstate) (key : bytes) (w : writer) : kvstate * textreply * N :=
  let k := key_id key in
  let s := kv_db st in
  let '(result, data) :=
    match aget (mgrs s) k with
    | Some m => match m_cur m with Some _ => (R_UNOWN_ERROR, data_of s k) | None => (R_SUCCED, None) end
    | None => (R_SUCCED, None)
    end in
  (mkKv s (kv_req st + 1) (kv_gen st), render w result data, 0).

Definition textcmd := list bytes.       (* the argument vector of one RESP request, args[0] = command name *)

Definition kv_step_t (st : kvstate) (a : textcmd) : kvstate * textreply * N :=
  match convert a with
  | CErr msg => (st, RError (str "ERR " ++ str msg), 0)
  | COther => (st, RUnmodelled "command outside the Redis-style key commands", 0)
  | CWrite c w => kv_write st (nth 1 a []) c w
  | CRead w => kv_read st (nth 1 a []) w
  end.

Definition kv_step (st : kvstate) (a : textcmd) : kvstate * textreply :=
  let '(st', r, _) := kv_step_t st a in (st', r).

Fixpoint kv_run (st : kvstate) (cmds : list textcmd) : list textreply :=
  match cmds with
  | [] => []
  | a :: rest => let '(st', r) := kv_step st a in r :: kv_run st' rest
  end.

(* `adv n` of the case files *)
Definition kv_advance (st : kvstate) (n : nat) : kvstate := mkKv (ticks n (kv_db st)) (kv_req st) (kv_gen st).

(* ------------------------------------------------------------------------------------------------ observation of the state *)
Record keyobs := mkObs {
  o_key : N; o_locked : N; o_waited : bool;
  o_cur : option (bool * Z);              (* current holder: LockId = key?, expriedTime *)
  o_data : option (bytes * N)             (* currentData bytes, commandType *)
}.
Definition observe (st : kvstate) : Z * list keyobs :=
  let s := kv_db st in
  (now s,
   map (fun '(k, m) =>
          mkObs k (m_locked m) (m_waited m)
                (match m_cur m with
                 | Some r => let l := getl s r in Some (c_lockid (l_cmd l) =? k, l_eT l)
                 | None => None end)
                (match m_data m with Some d => Some (d_bytes d, d_type d) | None => None end))
       (mgrs s)).

End WithMd5.
