(* Long-wait tables of server/db.go (model: LongWait.v): a LongWaitLockQueue refines a plain sequence with deletions.
     abstraction  lw_abs l = abs (lw_locks l)  : the slots between the cursors, a hole (None) for every removed lock
     Push appends, Remove blanks exactly the lock's slot (located through lock.longWaitIndex), Pop returns / drops the
     first slot, Len() = number of slots INCLUDING holes, lockCount - freeCount = number of live locks, restructuring
     (also when its node-freeing loop runs and leaves nodeIndex stale, finding C20-F3) = drop the holes, keep the order;
     "Len() times Pop()" returns exactly the live locks in insertion order.
   Run theorem lw_run_refines / lw_new_run_refines: every operation list, every constructor parameter, under the
   callers' contract (wf_op) and the int32 no-overflow guards (lw_guard).
   LongWaitLockFreeQueue: LIFO stack with fixed capacity (fq_*_rep).
   NOT proved here (correspondence only): LockQueue.Reset inside FreeLongWaitLockQueue and therefore the recycled lives
   of a queue, the table (map) level.  Reset reads nodeIndex, which the restructure leaves stale: findings C20-F3/F4. *)
From Coq Require Import List ZArith NArith Bool Lia.
From Slock Require Import Queue.SegQueue Queue.ListLemmas Queue.SegQueueInv Queue.SegQueueOps Queue.SegQueueRefine
                          Queue.SegQueueFrame Queue.LongWait.
Import ListNotations.
Open Scope Z_scope.


(* ---------- longWaitIndex encoding ---------- *)
Definition P31 : Z := 2147483648.

Lemma lor_disjoint a b : 0 <= a -> 0 < b < P32 -> Z.lor (a * P32) b = a * P32 + b.
Proof.
  intros Ha Hb.
  assert (L : Z.land (a * P32) b = 0).
  { change P32 with (2 ^ 32) in *. rewrite <- Z.shiftl_mul_pow2 by lia.
    apply Z.bits_inj'. intros n Hn. rewrite Z.land_spec, Z.bits_0.
    destruct (Z.lt_ge_cases n 32).
    - rewrite Z.shiftl_spec_low by lia. reflexivity.
    - rewrite (Z.bits_above_log2 b n); [apply andb_false_r | lia |].
      assert (Z.log2 b < 32) by (apply Z.log2_lt_pow2; lia). lia. }
  rewrite (Z.add_nocarry_lxor _ _ L). symmetry. apply Z.lxor_lor. exact L.
Qed.

Lemma dec_enc node k : 0 <= node < P31 -> 0 <= k < P31 - 1 ->
  dec_node (enc node (k + 1)) = node /\ dec_idx1 (enc node (k + 1)) - 1 = k /\ 0 < enc node (k + 1).
Proof.
  intros Hn Hk. unfold enc, P31 in *.
  assert (E : Z.lor (((node mod P64) * P32) mod P64) ((k + 1) mod P64) = node * P32 + (k + 1)).
  { unfold P64, P32 in *. rewrite (Z.mod_small node) by lia. rewrite (Z.mod_small (node * _)) by lia.
    rewrite (Z.mod_small (k + 1)) by lia. apply (lor_disjoint node (k + 1)); unfold P32; lia. }
  rewrite E. unfold dec_node, dec_idx1, wrap32, P32.
  replace ((node * 4294967296 + (k + 1)) / 4294967296) with node by (apply Z.div_unique with (r := k + 1); lia).
  replace ((node * 4294967296 + (k + 1)) mod 4294967296) with (k + 1) by (apply Z.mod_unique with (q := node); lia).
  rewrite !Z.mod_small by lia. lia.
Qed.

(* ---------- the specification: a plain sequence with deletions ---------- *)
Definition is_someb (s : slot) : bool := match s with Some _ => true | None => false end.
Definition lw_live (l : list slot) : list slot := filter is_someb l.
Fixpoint ids (l : list slot) : list N :=
  match l with [] => [] | Some x :: r => x :: ids r | None :: r => ids r end.
Definition blank1 (x : N) (s : slot) : slot :=
  match s with Some y => if N.eqb y x then None else s | None => None end.
Definition blank (x : N) (l : list slot) : list slot := map (blank1 x) l.

Lemma ids_app a b : ids (a ++ b) = ids a ++ ids b.
Proof. induction a as [|[y|] a IH]; cbn; auto. rewrite IH. reflexivity. Qed.

Lemma ids_lw_live l : ids (lw_live l) = ids l.
Proof. unfold lw_live. induction l as [|[y|] l IH]; cbn; auto. rewrite IH. reflexivity. Qed.

Lemma lw_live_map_ids l : lw_live l = map Some (ids l).
Proof. unfold lw_live. induction l as [|[y|] l IH]; cbn; auto. rewrite IH. reflexivity. Qed.

Lemma ids_In l x : In x (ids l) <-> exists i, nth_error l i = Some (Some x).
Proof.
  induction l as [|[y|] l IH]; cbn.
  - split; [tauto|]. intros [[|i] H]; discriminate.
  - rewrite IH. split.
    + intros [->|[i H]]; [exists O; reflexivity | exists (S i); exact H].
    + intros [[|i] H]; cbn in H; [left; congruence | right; eauto].
  - rewrite IH. split.
    + intros [i H]. exists (S i). exact H.
    + intros [[|i] H]; cbn in H; [discriminate | eauto].
Qed.

Lemma ids_blank x l : ids (blank x l) = filter (fun y => negb (N.eqb y x)) (ids l).
Proof.
  unfold blank. induction l as [|[y|] l IH]; cbn; auto. destruct (N.eqb y x); cbn; rewrite IH; reflexivity.
Qed.

Lemma blank_notin x l : ~ In x (ids l) -> blank x l = l.
Proof.
  unfold blank. induction l as [|[y|] l IH]; cbn; intros H; auto.
  - destruct (N.eqb_spec y x); [exfalso; apply H; auto|]. rewrite IH; auto.
  - rewrite IH; auto.
Qed.

Lemma blank_upd x l i : NoDup (ids l) -> nth_error l i = Some (Some x) -> blank x l = upd l i None.
Proof.
  pose proof (blank_notin x) as BN. unfold blank in *.
  revert i. induction l as [|[y|] l IH]; intros i ND H; destruct i; cbn in *; try discriminate.
  - injection H as ->. rewrite N.eqb_refl. f_equal. apply BN. inversion ND; auto.
  - inversion ND; subst. destruct (N.eqb_spec y x).
    + subst. exfalso. apply H2. apply ids_In. eauto.
    + f_equal. apply IH; auto.
  - f_equal. apply IH; auto.
Qed.

Lemma filter_neq_length x (l : list N) : NoDup l -> In x l ->
  S (length (filter (fun y => negb (N.eqb y x)) l)) = length l.
Proof.
  induction l as [|y l IH]; cbn; intros ND H; [tauto|]. inversion ND; subst.
  destruct (N.eqb_spec y x).
  - subst. cbn. f_equal. clear IH ND H. induction l as [|z l IH]; cbn; auto.
    destruct (N.eqb_spec z x); cbn.
    + subst. exfalso. apply H2. left. reflexivity.
    + f_equal. apply IH. * intros C. apply H2. right. exact C. * inversion H3; auto.
  - cbn. f_equal. apply IH; auto. destruct H; [congruence|auto].
Qed.

Lemma NoDup_filter {A} (f : A -> bool) l : NoDup l -> NoDup (filter f l).
Proof.
  induction 1; cbn; [constructor|]. destruct (f x); auto. constructor; auto. rewrite filter_In. tauto.
Qed.

Lemma NoDup_app_snoc {A} (l : list A) x : NoDup l -> ~ In x l -> NoDup (l ++ [x]).
Proof.
  induction 1; cbn; intros NI; [constructor; [tauto|constructor]|].
  constructor; [|apply IHNoDup; tauto]. rewrite in_app_iff. cbn. intros [C|[C|[]]]; [tauto|subst; tauto].
Qed.

Lemma NoDup_nth_eq l i j x : NoDup (ids l) -> nth_error l i = Some (Some x) -> nth_error l j = Some (Some x) -> i = j.
Proof.
  revert i j. induction l as [|[y|] l IH]; intros i j ND Hi Hj; destruct i, j; cbn in *; try discriminate; auto.
  - injection Hi as ->. inversion ND; subst. exfalso. apply H1. apply ids_In. eauto.
  - injection Hj as ->. inversion ND; subst. exfalso. apply H1. apply ids_In. eauto.
  - f_equal. inversion ND; subst. eapply IH; eauto.
Qed.

(* ---------- invariant of a LongWaitLockQueue ---------- *)
Record LWInv (st : istore) (l : lwq) : Prop := mkLWInv {
  L_inv : Inv (lw_locks l);
  L_bqs : 1 <= baseQueueSize (lw_locks l);
  L_len : Z.of_nat (length (queues (lw_locks l))) < P31;
  L_nodup : NoDup (ids (abs (lw_locks l)));
  L_idx : forall i x, nth_error (abs (lw_locks l)) i = Some (Some x) ->
            exists node k, st x = enc node (k + 1) /\ coord (lw_locks l) node k (hp (lw_locks l) + Z.of_nat i);
  L_cnt : lw_count l - lw_free l = Z.of_nat (length (ids (abs (lw_locks l))))
}.

Definition lw_abs (l : lwq) : list slot := abs (lw_locks l).

Lemma coord_le_tail q node k p : Inv q -> coord q node k p -> p < tp q -> node <= tailNodeIndex q.
Proof.
  intros I (N0 & s & Hs & Hk & Hp) Lt.
  destruct (Inv_pos q I) as (P0 & P1 & P2 & PE & Hhs & Hts & Hh & Ht).
  pose proof (sizes_nonneg q (I_nodes q I)) as NN.
  destruct (Z.le_gt_cases node (tailNodeIndex q)); auto. exfalso.
  pose proof (off_mono (nodeQueueSizes q) (S (Z.to_nat (tailNodeIndex q))) (Z.to_nat node) NN ltac:(pose proof (I_hni q I); pose proof (I_ht q I); lia)).
  rewrite (off_S _ _ _ Hts) in H0. unfold tp in Lt. pose proof (I_tqi q I). lia.
Qed.

Lemma nth_error_firstn_lt {A} (l : list A) n i : (i < n)%nat -> nth_error (firstn n l) i = nth_error l i.
Proof. revert n i; induction l; intros n i H; destruct n, i; cbn; auto; try lia. apply IHl. lia. Qed.

Lemma coord_prefix q q' node k p :
  firstn (S (Z.to_nat node)) (nodeQueueSizes q') = firstn (S (Z.to_nat node)) (nodeQueueSizes q) ->
  coord q node k p -> coord q' node k p.
Proof.
  intros F (N0 & s & Hs & Hk & Hp). split; auto. exists s.
  assert (nth_error (nodeQueueSizes q') (Z.to_nat node) = nth_error (nodeQueueSizes q) (Z.to_nat node)).
  { rewrite <- (nth_error_firstn_lt (nodeQueueSizes q') (S (Z.to_nat node)) (Z.to_nat node)) by lia.
    rewrite <- (nth_error_firstn_lt (nodeQueueSizes q) (S (Z.to_nat node)) (Z.to_nat node)) by lia. rewrite F. reflexivity. }
  split; [congruence|]. split; auto.
  rewrite (off_firstn_agree _ _ _ F) by lia. exact Hp.
Qed.


Lemma iset_same st x v : iset st x v x = v.
Proof. unfold iset. rewrite N.eqb_refl. reflexivity. Qed.
Lemma iset_other st x v y : y <> x -> iset st x v y = st y.
Proof. unfold iset. intros. destruct (N.eqb_spec y x); congruence. Qed.

Lemma firstn_le_agree {A} (l l' : list A) n m : (m <= n)%nat -> firstn n l = firstn n l' -> firstn m l = firstn m l'.
Proof.
  intros H E. replace m with (Nat.min m n) by lia. rewrite <- !firstn_firstn. rewrite E. reflexivity.
Qed.

(* ---------- Push ---------- *)
Lemma lw_push_spec st l x :
  LWInv st l -> ~ In x (ids (lw_abs l)) -> Z.of_nat (length (queues (lw_locks l))) + 1 < P31 ->
  exists l' st', lw_push st l x = Ok (l', st') /\ LWInv st' l' /\ lw_abs l' = lw_abs l ++ [Some x] /\
    lw_count l' = lw_count l + 1 /\ lw_free l' = lw_free l /\ lw_time l' = lw_time l /\
    (forall y, y <> x -> st' y = st y) /\
    hp (lw_locks l') = hp (lw_locks l) /\ tp (lw_locks l') = tp (lw_locks l) + 1 /\
    baseQueueSize (lw_locks l') = baseQueueSize (lw_locks l) /\
    ((tailQueueIndex (lw_locks l) + 1 < tailQueueSize (lw_locks l) \/
      exists id, zget (queues (lw_locks l)) (tailNodeIndex (lw_locks l) + 1) = Some (Some id)) ->
       queues (lw_locks l') = queues (lw_locks l) /\ nodeQueueSizes (lw_locks l') = nodeQueueSizes (lw_locks l) /\
       flat (lw_locks l') = upd (flat (lw_locks l)) (Z.to_nat (tp (lw_locks l))) (Some x)).
Proof.
  intros [I B LN ND IDX CNT] NI G. unfold lw_abs in *. set (q := lw_locks l) in *.
  destruct (Push_strong q (Some x) I) as (q' & E & I' & A & HP & TP & BQ & TN & LQ & SZ & FR).
  unfold lw_push. fold q. rewrite E, bind_Ok. eexists _, _. split; [reflexivity|].
  cbn [lw_locks lw_count lw_free lw_time].
  destruct (Inv_pos q I) as (P0 & P1 & P2 & PE & Hhs & Hts & Hh & Ht).
  pose proof (abs_length q I) as AL.
  split; [|split; [exact A|split; [reflexivity|split; [reflexivity|split; [reflexivity|split; [intros; apply iset_other; auto|]]]]]].
  2:{ split; [exact HP|]. split; [exact TP|]. split; [exact BQ|exact FR]. }
  constructor; cbn [lw_locks lw_count lw_free lw_time set_locks]; auto.
  - lia.
  - lia.
  - rewrite A, ids_app. cbn. apply NoDup_app_snoc; auto.
  - intros i y Hi. rewrite A in Hi. rewrite HP.
    destruct (Nat.lt_ge_cases i (length (abs q))) as [Lt|Ge].
    + rewrite nth_error_app1 in Hi by auto.
      assert (y <> x). { intros ->. apply NI. apply ids_In. eauto. }
      destruct (IDX i y Hi) as (node & k & S1 & C1). exists node, k. rewrite iset_other by auto. split; auto.
      assert (node <= tailNodeIndex q) by (eapply coord_le_tail; eauto; lia).
      eapply coord_prefix; [|exact C1]. eapply firstn_le_agree; [|exact SZ]. destruct C1. lia.
    + rewrite nth_error_app2 in Hi by auto. destruct (i - length (abs q))%nat eqn:D; cbn in Hi; [|destruct n; discriminate].
      injection Hi as <-. assert (i = length (abs q)) by lia. subst i.
      exists (tailNodeIndex q), (tailQueueIndex q). rewrite iset_same. split; auto.
      eapply coord_prefix; [exact SZ|]. split; [pose proof (I_hni q I); pose proof (I_ht q I); lia|].
      exists (tailQueueSize q). split; auto. split; [apply (I_tqi q I)|]. unfold tp in AL. unfold tp, hp in *. lia.
  - rewrite A, ids_app, app_length. cbn. lia.
Qed.

(* ---------- Pop ---------- *)
Lemma lw_pop_spec st l :
  LWInv st l ->
  exists l' st', lw_pop st l = Ok (l', st', hd_slot (lw_abs l)) /\ LWInv st' l' /\ lw_abs l' = tl (lw_abs l) /\
    lw_count l' = lw_count l - (match hd_slot (lw_abs l) with Some _ => 1 | None => 0 end) /\
    lw_free l' = lw_free l /\ lw_time l' = lw_time l.
Proof.
  intros [I B LN ND IDX CNT]. unfold lw_abs in *. set (q := lw_locks l) in *.
  destruct (Pop_spec q I) as (q' & E & I' & A & R).
  destruct (Pop_frame _ _ _ E) as (F1 & F2 & F3 & F4 & F5).
  unfold lw_pop. fold q. rewrite E, bind_Ok.
  assert (CO : forall node k p, coord q node k p -> coord q' node k p).
  { intros node k p (N0 & s & Hs & Hk & Hp). split; auto. exists s. rewrite F2. auto. }
  assert (EM : is_empty q = true <-> abs q = []).
  { destruct (Inv_pos q I) as (P0 & P1 & P2 & PE & _). pose proof (abs_length q I) as L.
    destruct (is_empty q); split; intros; auto; try discriminate.
    - destruct (abs q); auto. cbn [length] in L. lia.
    - rewrite H in L. cbn in L. lia. }
  destruct (abs q) as [|h t] eqn:EA.
  - (* empty *)
    cbn [hd_slot tl] in *. eexists _, _. split; [reflexivity|]. cbn [lw_locks lw_count lw_free lw_time set_locks].
    split; [|split; [exact A|split; [lia|split; reflexivity]]].
    constructor; cbn [lw_locks lw_count lw_free lw_time set_locks]; auto.
    + rewrite F5. auto. + rewrite F1. auto. + rewrite A. constructor.
    + intros i y Hi. rewrite A in Hi. destruct i; discriminate.
    + rewrite A. cbn in *. lia.
  - assert (NE : is_empty q = false). { destruct (is_empty q); auto. destruct EM as [EM _]. specialize (EM eq_refl). discriminate. }
    rewrite NE in R. unfold room in R. cbn [hd_slot tl] in *.
    assert (IDX' : forall st', (forall y, In y (ids t) -> st' y = st y) ->
              forall i y, nth_error (abs q') i = Some (Some y) ->
              exists node k, st' y = enc node (k + 1) /\ coord q' node k (hp q' + Z.of_nat i)).
    { intros st' Hst i y Hi. rewrite A in Hi. destruct (IDX (S i) y Hi) as (node & k & S1 & C1).
      exists node, k. rewrite Hst by (apply ids_In; eauto). split; auto. apply CO.
      replace (hp q' + Z.of_nat i) with (hp q + Z.of_nat (S i)) by lia. exact C1. }
    destruct h as [x|]; eexists _, _; (split; [reflexivity|]); cbn [lw_locks lw_count lw_free lw_time set_locks].
    + cbn [ids] in ND, CNT. apply NoDup_cons_iff in ND. destruct ND as [NI ND].
      split; [|split; [exact A|split; [lia|split; reflexivity]]].
      constructor; cbn [lw_locks lw_count lw_free lw_time set_locks]; auto.
      * rewrite F5. auto. * rewrite F1. auto. * rewrite A. auto.
      * apply IDX'. intros y Hy. apply iset_other. intros ->. tauto.
      * rewrite A. cbn [length] in CNT. lia.
    + cbn [ids] in ND, CNT.
      split; [|split; [exact A|split; [lia|split; reflexivity]]].
      constructor; cbn [lw_locks lw_count lw_free lw_time set_locks]; auto.
      * rewrite F5. auto. * rewrite F1. auto. * rewrite A. auto.
      * rewrite A. lia.
Qed.

(* ---------- Remove ---------- *)
Lemma lw_remove_spec st l x :
  LWInv st l -> In x (ids (lw_abs l)) ->
  exists l' st', lw_remove st l x = Ok (l', st') /\ LWInv st' l' /\ lw_abs l' = blank x (lw_abs l) /\
    lw_count l' = lw_count l /\ lw_free l' = lw_free l + 1 /\ lw_time l' = lw_time l /\
    queues (lw_locks l') = queues (lw_locks l) /\ tailNodeIndex (lw_locks l') = tailNodeIndex (lw_locks l) /\
    baseQueueSize (lw_locks l') = baseQueueSize (lw_locks l).
Proof.
  intros [I B LN ND IDX CNT] IN. unfold lw_abs in *. set (q := lw_locks l) in *.
  destruct (proj1 (ids_In _ _) IN) as (i & Hi).
  destruct (IDX i x Hi) as (node & k & S1 & C1).
  pose proof (abs_length q I) as AL.
  assert (Li : (i < length (abs q))%nat) by (apply nth_error_Some; congruence).
  assert (W : hp q <= hp q + Z.of_nat i < tp q) by lia.
  assert (NB : 0 <= node < P31 /\ 0 <= k < P31 - 1).
  { destruct C1 as (N0 & s & Hs & Hk & Hp).
    assert ((Z.to_nat node < length (nodeQueueSizes q))%nat) by (apply nth_error_Some; congruence).
    rewrite (nodes_ok_length q (I_nodes q I)) in H.
    pose proof (I_szb q I) as SB. rewrite Forall_forall in SB. specialize (SB s (nth_error_In _ _ Hs)).
    unfold P31, POW30 in *. lia. }
  destruct (dec_enc node k (proj1 NB) (proj2 NB)) as (D1 & D2 & D3).
  destruct (Hole_spec q node k _ I C1 W) as (a & h' & G1 & G2 & G3 & G4).
  unfold lw_remove. fold q. rewrite S1, D1, D2, G1, bind_Ok, G2, bind_Ok.
  eexists _, _. split; [reflexivity|]. cbn [lw_locks lw_count lw_free lw_time].
  replace (Z.to_nat (hp q + Z.of_nat i - hp q)) with i in G4 by lia.
  rewrite <- (blank_upd x (abs q) i ND Hi) in G4.
  split; [|split; [exact G4|split; [reflexivity|split; [reflexivity|split; [reflexivity|split; [reflexivity|split; reflexivity]]]]]].
  constructor; cbn [lw_locks lw_count lw_free lw_time set_locks]; auto.
  - rewrite G4, ids_blank. apply NoDup_filter. exact ND.
  - intros j y Hj. rewrite G4 in Hj.
    assert (YX : y <> x).
    { intros ->. assert (In x (ids (blank x (abs q)))) by (apply ids_In; eauto).
      rewrite ids_blank, filter_In, N.eqb_refl in H. cbn in H. destruct H; discriminate. }
    assert (Hj' : nth_error (abs q) j = Some (Some y)).
    { unfold blank in Hj. rewrite nth_error_map in Hj. destruct (nth_error (abs q) j) as [[z|]|]; cbn in Hj; try discriminate.
      destruct (N.eqb z x); [discriminate|]. exact Hj. }
    destruct (IDX j y Hj') as (n2 & k2 & S2 & C2). exists n2, k2. rewrite iset_other by auto. split; auto.
  - rewrite G4, ids_blank. pose proof (filter_neq_length x (ids (abs q)) ND IN). lia.
Qed.

Lemma lw_len_spec st l : LWInv st l -> lw_len l = Ok (Z.of_nat (length (lw_abs l))).
Proof. intros [I _ _ _ _ _]. apply Len_spec. exact I. Qed.


(* ---------- list facts for the compaction scan ---------- *)
Lemma lw_live_app a b : lw_live (a ++ b) = lw_live a ++ lw_live b.
Proof. unfold lw_live. apply filter_app. Qed.

Lemma lw_live_length_le l : (length (lw_live l) <= length l)%nat.
Proof. unfold lw_live. induction l as [|[y|] l IH]; cbn; lia. Qed.

Lemma upd_mid {A} (a b : list A) x y n : n = length a -> upd (a ++ x :: b) n y = a ++ y :: b.
Proof. intros ->. rewrite upd_app_r by lia. rewrite Nat.sub_diag. reflexivity. Qed.

Lemma repeat_snoc {A} (x : A) n : repeat x n ++ [x] = x :: repeat x n.
Proof. induction n; cbn; auto. rewrite IHn. reflexivity. Qed.

Lemma repeat_shift {A} (x : A) n l : repeat x n ++ x :: l = x :: repeat x n ++ l.
Proof. induction n; cbn; auto. rewrite IHn. reflexivity. Qed.

Section Scan.
Variable F : list slot.

Definition Cn (s : nat) : list slot := lw_live (firstn s F).
Definition form (s : nat) : list slot := Cn s ++ repeat None (s - length (Cn s)) ++ skipn s F.

Lemma Cn_le s : (length (Cn s) <= s)%nat.
Proof. unfold Cn. pose proof (lw_live_length_le (firstn s F)). rewrite firstn_length in H. lia. Qed.

Lemma form_0 : form 0 = F.
Proof. reflexivity. Qed.

Lemma form_nth s : (s < length F)%nat -> nth_error (form s) s = nth_error F s.
Proof.
  intros H. unfold form. pose proof (Cn_le s).
  rewrite app_assoc. rewrite nth_error_app2 by (rewrite app_length, repeat_length; lia).
  rewrite app_length, repeat_length. replace (s - (length (Cn s) + (s - length (Cn s))))%nat with O by lia.
  rewrite nth_error_skipn. f_equal. lia.
Qed.

Lemma Cn_S_none s : nth_error F s = Some None -> Cn (S s) = Cn s.
Proof. intros H. unfold Cn. rewrite (firstn_S_snoc _ _ _ H), lw_live_app. cbn. apply app_nil_r. Qed.

Lemma Cn_S_some s y : nth_error F s = Some (Some y) -> Cn (S s) = Cn s ++ [Some y].
Proof. intros H. unfold Cn. rewrite (firstn_S_snoc _ _ _ H), lw_live_app. reflexivity. Qed.

Lemma form_S_none s : nth_error F s = Some None -> form (S s) = form s.
Proof.
  intros H. unfold form. rewrite (Cn_S_none s H). pose proof (Cn_le s). f_equal.
  replace (S s - length (Cn s))%nat with (S (s - length (Cn s))) by lia.
  rewrite (skipn_nth_cons _ _ _ H). cbn [repeat]. rewrite repeat_shift. reflexivity.
Qed.

Lemma form_S_some s y : nth_error F s = Some (Some y) ->
  form (S s) = upd (upd (form s) s None) (length (Cn s)) (Some y).
Proof.
  intros H. unfold form. rewrite (Cn_S_some s y H). pose proof (Cn_le s).
  rewrite (skipn_nth_cons _ _ _ H).
  set (C := Cn s). set (r := (s - length C)%nat).
  assert (E1 : upd (C ++ repeat None r ++ Some y :: skipn (S s) F) s None = C ++ repeat None r ++ None :: skipn (S s) F).
  { rewrite !app_assoc. apply upd_mid. rewrite app_length, repeat_length. unfold r. fold C in H0. lia. }
  rewrite E1. rewrite app_length. cbn [length].
  replace (S s - (length C + 1))%nat with r by (unfold r; lia).
  rewrite repeat_shift.
  rewrite upd_mid by reflexivity. rewrite <- app_assoc. reflexivity.
Qed.

Lemma form_firstn s : firstn (length (Cn s)) (form s) = Cn s.
Proof. unfold form. rewrite firstn_app, Nat.sub_diag. cbn. rewrite app_nil_r. apply firstn_all. Qed.

Lemma form_length s : (s <= length F)%nat -> length (form s) = length F.
Proof.
  intros H. unfold form. pose proof (Cn_le s). rewrite !app_length, repeat_length, skipn_length. lia.
Qed.
End Scan.

Lemma ids_allnone l : Forall (fun x : slot => x = None) l -> ids l = [].
Proof. induction 1; cbn; auto. subst. exact IHForall. Qed.

Lemma NoDup_snoc_notin {A} (l : list A) x : NoDup (l ++ [x]) -> ~ In x l.
Proof.
  induction l; cbn; intros H; [tauto|]. inversion H; subst. intros [->|C].
  - apply H2. rewrite in_app_iff. right. left. reflexivity.
  - apply IHl; auto.
Qed.

Lemma NoDup_app_l {A} (a b : list A) : NoDup (a ++ b) -> NoDup a.
Proof. induction a; cbn; intros H; [constructor|]. inversion H; subst. constructor; auto. rewrite in_app_iff in H2. tauto. Qed.

Lemma seg0 {A} (l : list A) b : seg l 0 b = firstn (Z.to_nat b) l.
Proof. unfold seg. rewrite Z.sub_0_r. reflexivity. Qed.

(* ---------- the freeing loop of restructuringLong*Queue: queues[t] = nil; nodeQueueSizes[t] = 0; t-- ---------- *)
Lemma free_step q t : Inv q -> tailNodeIndex q + 2 <= t < Z.of_nat (length (queues q)) ->
  exists q', restr_free false (q, t) = Ok (q', t - 1) /\ Inv q' /\ abs q' = abs q /\ hp q' = hp q /\ tp q' = tp q /\
    tailNodeIndex q' = tailNodeIndex q /\ baseQueueSize q' = baseQueueSize q /\ length (queues q') = length (queues q) /\
    firstn (Z.to_nat (tailNodeIndex q) + 2) (nodeQueueSizes q') = firstn (Z.to_nat (tailNodeIndex q) + 2) (nodeQueueSizes q).
Proof.
  intros I Ht. destruct (Inv_pos q I) as (P0 & P1 & P2 & PE & Hhs & Hts & Hh & Ht').
  pose proof (nodes_ok_length q (I_nodes q I)) as LEN.
  pose proof (sizes_nonneg q (I_nodes q I)) as NN.
  pose proof (I_hni q I) as H0. pose proof (I_ht q I) as H1.
  set (tn := Z.to_nat t).
  set (q' := set_nodeQueueSizes (set_queues q (upd (queues q) tn None)) (upd (nodeQueueSizes q) tn 0)).
  exists q'. split.
  { unfold restr_free.
    assert (SQ : setq q t None = Ok (set_queues q (upd (queues q) tn None))) by (unfold setq; rewrite zset_some by lia; reflexivity).
    rewrite SQ, bind_Ok.
    assert (SS : sets (set_queues q (upd (queues q) tn None)) t 0 = Ok q') by (unfold sets; sq_cbn; rewrite zset_some by lia; reflexivity).
    rewrite SS, bind_Ok. reflexivity. }
  assert (OFF : forall i, (i <= tn)%nat -> off (nodeQueueSizes q') i = off (nodeQueueSizes q) i).
  { intros. unfold q'. sq_cbn. apply off_upd_ge. auto. }
  assert (HP : hp q' = hp q).
  { unfold hp. change (headNodeIndex q') with (headNodeIndex q). change (headQueueIndex q') with (headQueueIndex q).
    rewrite OFF by (unfold tn; lia). reflexivity. }
  assert (TP : tp q' = tp q).
  { unfold tp. change (tailNodeIndex q') with (tailNodeIndex q). change (tailQueueIndex q') with (tailQueueIndex q).
    rewrite OFF by (unfold tn; lia). reflexivity. }
  assert (VW : firstn tn (view q') = firstn tn (view q)).
  { unfold view, q'. sq_cbn. unfold arr. sq_cbn. rewrite map_upd. apply firstn_upd_ge. lia. }
  assert (BND : tp q < Z.of_nat (offn (view q) tn)).
  { rewrite (view_offn q tn (I_nodes q I)).
    pose proof (off_mono (nodeQueueSizes q) (S (Z.to_nat (tailNodeIndex q))) tn NN ltac:(unfold tn; lia)) as OM.
    rewrite (off_S _ _ _ Hts) in OM. unfold tp. pose proof (I_tqi q I). lia. }
  assert (FA : forall n, (n <= Z.to_nat (tp q) + 1)%nat -> firstn n (flat q') = firstn n (flat q)).
  { intros n Hn. unfold flat. apply (firstn_concat_agree _ _ tn); [exact VW|].
    unfold offn. rewrite VW. fold (offn (view q) tn). lia. }
  split; [|split; [|repeat split; auto]].
  - dI I. constructor; unfold q'; sq_cbn; auto; try lia.
    + rewrite upd_length. auto.
    + unfold nodes_ok. sq_cbn. apply Forall2_upd; [exact I_nodes0|reflexivity].
    + unfold nodup. sq_cbn. intros i j id Hi Hj.
      rewrite nth_error_upd in Hi, Hj.
      destruct (Nat.eqb_spec i tn); [destruct (Nat.ltb tn (length (queues q))); discriminate|].
      destruct (Nat.eqb_spec j tn); [destruct (Nat.ltb tn (length (queues q))); discriminate|].
      eapply I_nodup0; eauto.
    + rewrite upd_length. lia.
    + rewrite zget_some by lia. rewrite nth_error_upd_other by (unfold tn; lia). rewrite <- zget_some by lia. auto.
    + rewrite zget_some by lia. rewrite nth_error_upd_other by (unfold tn; lia). rewrite <- zget_some by lia. auto.
    + rewrite zget_some by lia. rewrite nth_error_upd_other by (unfold tn; lia). rewrite <- zget_some by lia. auto.
    + rewrite zget_some by lia. rewrite nth_error_upd_other by (unfold tn; lia). rewrite <- zget_some by lia. auto.
    + intros i Hi. destruct (I_alloc0 i Hi) as [id Hid]. exists id.
      rewrite zget_some in * by lia. rewrite nth_error_upd_other by (unfold tn; lia). auto.
    + apply Forall_upd; auto. unfold POW30. lia.
    + fold q'. rewrite HP. rewrite FA by lia. exact I_clean0.
  - unfold abs. rewrite HP, TP. apply seg_agree; [|lia]. apply FA. lia.
  - unfold q'. sq_cbn. apply upd_length.
  - unfold q'. sq_cbn. apply firstn_upd_ge. unfold tn. lia.
Qed.

Lemma free_loop : forall m q t, Inv q -> t < Z.of_nat (length (queues q)) ->
  ((0 < m)%nat -> tailNodeIndex q + 2 <= t - Z.of_nat m + 1) ->
  exists q', iter m (restr_free false) (q, t) = Ok (q', t - Z.of_nat m) /\ Inv q' /\ abs q' = abs q /\ hp q' = hp q /\ tp q' = tp q /\
    tailNodeIndex q' = tailNodeIndex q /\ baseQueueSize q' = baseQueueSize q /\ length (queues q') = length (queues q) /\
    firstn (Z.to_nat (tailNodeIndex q) + 2) (nodeQueueSizes q') = firstn (Z.to_nat (tailNodeIndex q) + 2) (nodeQueueSizes q).
Proof.
  induction m as [|m IH]; intros q t I Ht Hm.
  - cbn [iter]. exists q. replace (t - Z.of_nat 0) with t by lia. split; [reflexivity|]. split; [exact I|]. repeat split; auto.
  - cbn [iter]. specialize (Hm ltac:(lia)).
    destruct (free_step q t I ltac:(lia)) as (q1 & E1 & I1 & A1 & H1 & T1 & N1 & B1 & L1 & S1).
    rewrite E1, bind_Ok.
    destruct (IH q1 (t - 1) I1 ltac:(lia) ltac:(intros; lia)) as (q2 & E2 & I2 & A2 & H2 & T2 & N2 & B2 & L2 & S2).
    exists q2. replace (t - Z.of_nat (S m)) with (t - 1 - Z.of_nat m) by lia.
    split; [exact E2|]. split; [exact I2|]. rewrite N1 in *. repeat split; auto; congruence.
Qed.

Lemma Inv_set_queueSize q v : Inv q -> 1 <= v < POW30 -> Inv (set_queueSize q v).
Proof. intros I Hv. dI I. constructor; sq_cbn; auto. Qed.

Lemma lw_live_allnone l : Forall (fun x : slot => x = None) l -> lw_live l = [].
Proof. unfold lw_live. induction 1; cbn; auto. subst. exact IHForall. Qed.

Lemma shl_queueSize bqs t T : 0 <= t <= T -> 1 <= bqs -> bqs * 2 ^ T < P31 ->
  let sz := wrap32 (bqs * shl1_32 t) in 1 <= (if sz >? QUEUE_MAX_MALLOC_SIZE then QUEUE_MAX_MALLOC_SIZE else sz) < POW30.
Proof.
  intros Ht Hb G. unfold P31 in G.
  assert (P1 : 0 < 2 ^ t) by (apply Z.pow_pos_nonneg; lia).
  assert (P2 : 2 ^ t <= 2 ^ T) by (apply Z.pow_le_mono_r; lia).
  assert (T31 : T < 31). { apply (Z.pow_lt_mono_r_iff 2); [lia|lia|]. change (2 ^ 31) with 2147483648. nia. }
  assert (S1 : shl1_32 t = 2 ^ t).
  { unfold shl1_32. rewrite Z.mod_small by lia. destruct (Z.ltb_spec t 32); [|lia]. unfold wrap32.
    rewrite Z.mod_small by nia. lia. }
  cbv zeta. rewrite S1. unfold wrap32. rewrite Z.mod_small by nia.
  unfold QUEUE_MAX_MALLOC_SIZE, POW30. destruct (Z.gtb_spec (bqs * 2 ^ t + 2147483648 - 2147483648) 67108863); nia.
Qed.

Section Restructure.
Variable q0 : sq.
Variable time0 : Z.
Hypothesis I0 : Inv q0.
Hypothesis LEN0 : Z.of_nat (length (queues q0)) + 1 < P31.
Hypothesis ND0 : NoDup (ids (abs q0)).

Let F0 := flat q0.
Let T := tailNodeIndex q0.
Let tp0 := tp q0.

Record RI (s : nat) (st : istore) (l : lwq) : Prop := mkRI {
  RI_lw : LWInv st l;
  RI_q : queues (lw_locks l) = queues q0;
  RI_sz : nodeQueueSizes (lw_locks l) = nodeQueueSizes q0;
  RI_bqs : baseQueueSize (lw_locks l) = baseQueueSize q0;
  RI_hp : hp (lw_locks l) = 0;
  RI_tp : tp (lw_locks l) = Z.of_nat (length (Cn F0 s));
  RI_flat : flat (lw_locks l) = form F0 s;
  RI_free : lw_free l = 0;
  RI_time : lw_time l = time0
}.

Lemma RI_abs s st l : RI s st l -> abs (lw_locks l) = Cn F0 s.
Proof.
  intros R. unfold abs. rewrite (RI_hp _ _ _ R), (RI_tp _ _ _ R), (RI_flat _ _ _ R), seg0, Nat2Z.id. apply form_firstn.
Qed.

Lemma ids_prefix_tp0 : ids (firstn (Z.to_nat tp0) F0) = ids (abs q0).
Proof.
  destruct (Inv_pos q0 I0) as (P0 & P1 & P2 & _). unfold abs, seg, F0, tp0.
  rewrite <- (firstn_skipn (Z.to_nat (hp q0)) (firstn (Z.to_nat (tp q0)) (flat q0))), ids_app.
  rewrite firstn_firstn. replace (Nat.min (Z.to_nat (hp q0)) (Z.to_nat (tp q0))) with (Z.to_nat (hp q0)) by lia.
  rewrite (ids_allnone _ (I_clean q0 I0)). cbn [app]. f_equal.
  rewrite skipn_firstn_comm. f_equal. lia.
Qed.

Lemma notin_prefix s y : Z.of_nat s < tp0 -> nth_error F0 s = Some (Some y) -> ~ In y (ids (Cn F0 s)).
Proof.
  intros Lt H. unfold Cn. rewrite ids_lw_live.
  assert (ND : NoDup (ids (firstn (S s) F0))).
  { rewrite <- ids_prefix_tp0 in ND0.
    rewrite <- (firstn_skipn (S s) (firstn (Z.to_nat tp0) F0)), ids_app in ND0. apply NoDup_app_l in ND0.
    rewrite firstn_firstn in ND0. replace (Nat.min (S s) (Z.to_nat tp0)) with (S s) in ND0 by lia. exact ND0. }
  rewrite (firstn_S_snoc _ _ _ H), ids_app in ND. cbn in ND. apply NoDup_snoc_notin in ND. exact ND.
Qed.

Lemma slot_step s st l j k : RI s st l -> Z.of_nat s < tp0 -> coord q0 j k (Z.of_nat s) ->
  exists st' l', lwr_slot j k (l, st) = Ok (l', st') /\ RI (S s) st' l'.
Proof.
  intros R Lt C0. pose proof (RI_abs _ _ _ R) as AB. destruct R as [LW Q SZ BQ HP TP FL FR TM]. set (q := lw_locks l) in *.
  pose proof (L_inv _ _ LW) as I. fold q in I.
  assert (JT : j <= T) by (eapply coord_le_tail; eauto).
  destruct C0 as (J0 & sj & Hsj & Hk & Hp).
  destruct (I_alloc q0 I0 j ltac:(unfold T in JT; lia)) as [id Hid].
  pose proof (zget_inv _ _ _ Hid) as (_ & Hid' & _).
  destruct (Inv_pos q0 I0) as (Q0 & Q1 & Q2 & _ & _ & Hts0 & _ & _).
  assert (SL : (s < length F0)%nat) by (unfold F0, tp0 in *; lia).
  assert (GQ : getq q j = Ok (Some id)). { unfold getq. rewrite Q, Hid. reflexivity. }
  rewrite <- Q in Hid'. rewrite <- SZ in Hsj, Hp.
  destruct (rd_node q _ _ _ k (I_nodes q I) Hid' Hsj Hk) as (x & RD & NX).
  rewrite Hp, Nat2Z.id, FL, form_nth in NX by exact SL.
  pose proof (Cn_le F0 s) as CL.
  destruct x as [y|].
  -     destruct (wr_node q _ _ _ k None (I_nodes q I) (I_nodup q I) Hid' Hsj Hk) as (h' & W & HL & NO & FLw).
    rewrite Hp, Nat2Z.id in FLw.
    set (q1 := set_heap q h').
    assert (I1 : Inv q1).
    { apply (Inv_write q h' (Z.of_nat s) None I); [lia | exact NO | intros; rewrite Nat2Z.id; apply FLw; auto]. }
    assert (F1 : flat q1 = upd (flat q) s None) by (apply FLw; reflexivity).
    assert (A1 : abs q1 = abs q).
    { unfold abs. change (hp q1) with (hp q). change (tp q1) with (tp q). rewrite F1. apply seg_upd_after; lia. }
    assert (LW1 : LWInv st (set_locks l q1)).
    { destruct LW as [_ B LN ND IDX CNT]. constructor; cbn [lw_locks lw_count lw_free lw_time set_locks]; auto.
      - rewrite A1. exact ND.
      - intros i z Hi. rewrite A1 in Hi. exact (IDX i z Hi).
      - rewrite A1. exact CNT. }
    assert (NI : ~ In y (ids (lw_abs (set_locks l q1)))).
    { unfold lw_abs. cbn [lw_locks set_locks]. rewrite A1, AB. apply notin_prefix; auto. }
    assert (G : Z.of_nat (length (queues (lw_locks (set_locks l q1)))) + 1 < P31).
    { cbn [lw_locks set_locks]. change (queues q1) with (queues q). rewrite Q. exact LEN0. }
    destruct (lw_push_spec st (set_locks l q1) y LW1 NI G) as (l2 & st2 & E2 & LW2 & A2 & C2 & FR2 & TM2 & _ & HP2 & TP2 & BQ2 & FRM).
    cbn [lw_locks set_locks] in E2, A2, C2, FR2, TM2, HP2, TP2, BQ2, FRM.
    exists st2, l2. split.
    { unfold lwr_slot. cbv beta iota. fold q. rewrite GQ, bind_Ok. cbv beta. rewrite RD, bind_Ok. cbv beta iota.
      rewrite bind_Ok. cbv beta. rewrite W, bind_Ok. cbv beta. exact E2. }
    destruct (Inv_pos q I) as (P0 & P1 & P2 & _ & _ & Hts & _ & _).
    pose proof (sizes_nonneg q (I_nodes q I)) as NN.
    assert (PRE : tailQueueIndex q1 + 1 < tailQueueSize q1 \/ exists id', zget (queues q1) (tailNodeIndex q1 + 1) = Some (Some id')).
    { change (tailQueueIndex q1) with (tailQueueIndex q). change (tailQueueSize q1) with (tailQueueSize q).
      change (tailNodeIndex q1) with (tailNodeIndex q). change (queues q1) with (queues q).
      destruct (Z.lt_ge_cases (tailQueueIndex q + 1) (tailQueueSize q)); [left; auto|right].
      assert (TN : tailNodeIndex q + 1 <= T).
      { destruct (Z.le_gt_cases (tailNodeIndex q + 1) T); auto. exfalso.
        pose proof (off_mono (nodeQueueSizes q) (S (Z.to_nat T)) (S (Z.to_nat (tailNodeIndex q))) NN
                     ltac:(pose proof (I_hni q0 I0); pose proof (I_ht q0 I0); unfold T in *; lia)) as OM.
        rewrite (off_S _ _ _ Hts) in OM. rewrite SZ in OM at 1. unfold T in OM. rewrite (off_S _ _ _ Hts0) in OM.
        pose proof (I_tqi q I). pose proof (I_tqi q0 I0). unfold tp in TP. unfold tp0, tp in Lt. rewrite SZ in *. lia. }
      destruct (I_alloc q0 I0 (tailNodeIndex q + 1) ltac:(pose proof (I_hni q I); pose proof (I_ht q I); unfold T in TN; lia)) as [id' Hid2].
      exists id'. rewrite Q. exact Hid2. }
    destruct (FRM PRE) as (Q2' & SZ2 & FL2).
    change (tp q1) with (tp q) in *. change (hp q1) with (hp q) in *. change (queues q1) with (queues q) in *.
    change (nodeQueueSizes q1) with (nodeQueueSizes q) in *. change (baseQueueSize q1) with (baseQueueSize q) in *.
    constructor; auto; try congruence.
    + rewrite TP2, TP, (Cn_S_some F0 s y NX), app_length. cbn [length]. lia.
    + rewrite FL2, F1, TP, Nat2Z.id, FL. symmetry. apply form_S_some. exact NX.
    + cbn in FR2. congruence.
    + cbn in TM2. congruence.
  - exists st, l. split.
    { unfold lwr_slot. cbv beta iota. fold q. rewrite GQ, bind_Ok. cbv beta. rewrite RD, bind_Ok. reflexivity. }
    constructor; auto.
    + rewrite (Cn_S_none F0 s NX). exact TP.
    + rewrite (form_S_none F0 s NX). exact FL.
Qed.

Lemma inner_steps (bound : sq -> res Z) j : forall n k s st l fuel b,
  RI s st l -> b = k + Z.of_nat n ->
  (forall q, nodeQueueSizes q = nodeQueueSizes q0 -> bound q = Ok b) ->
  (forall i, (i < n)%nat -> coord q0 j (k + Z.of_nat i) (Z.of_nat (s + i))) ->
  Z.of_nat (s + n) <= tp0 -> (n < fuel)%nat ->
  exists st' l', lwr_inner fuel bound j k (l, st) = Ok (l', st') /\ RI (s + n) st' l'.
Proof.
  induction n as [|n IH]; intros k s st l fuel b R Hb HB HC HT HF; (destruct fuel as [|fuel]; [lia|]).
  - cbn [lwr_inner fst]. rewrite (HB _ (RI_sz _ _ _ R)), bind_Ok. subst b.
    replace (k <? k + Z.of_nat 0) with false by (symmetry; apply Z.ltb_ge; lia).
    exists st, l. rewrite Nat.add_0_r. auto.
  - cbn [lwr_inner fst]. rewrite (HB _ (RI_sz _ _ _ R)), bind_Ok. subst b.
    replace (k <? k + Z.of_nat (S n)) with true by (symmetry; apply Z.ltb_lt; lia).
    destruct (slot_step s st l j k R ltac:(lia)) as (st1 & l1 & E1 & R1).
    { specialize (HC O ltac:(lia)). rewrite Z.add_0_r, Nat.add_0_r in HC. exact HC. }
    rewrite E1, bind_Ok.
    destruct (IH (k + 1) (S s) st1 l1 fuel (k + Z.of_nat (S n)) R1 ltac:(lia)) as (st2 & l2 & E2 & R2); auto.
    + intros i Hi. specialize (HC (S i) ltac:(lia)).
      replace (k + 1 + Z.of_nat i) with (k + Z.of_nat (S i)) by lia. replace (S s + i)%nat with (s + S i)%nat by lia. exact HC.
    + lia.
    + lia.
    + exists st2, l2. split; [exact E2|]. replace (s + S n)%nat with (S s + n)%nat by lia. exact R2.
Qed.

Definition posn (j : Z) : nat := Z.to_nat (off (nodeQueueSizes q0) (Z.to_nat j)).

Lemma posn_S j s : 0 <= j -> nth_error (nodeQueueSizes q0) (Z.to_nat j) = Some s -> 0 <= s -> posn (j + 1) = (posn j + Z.to_nat s)%nat.
Proof.
  intros J H S0. unfold posn. replace (Z.to_nat (j + 1)) with (S (Z.to_nat j)) by lia. rewrite (off_S _ _ _ H).
  pose proof (off_nonneg _ (Z.to_nat j) (sizes_nonneg q0 (I_nodes q0 I0))). lia.
Qed.

Lemma posn_le_tp0 j : 0 <= j <= T -> Z.of_nat (posn j) <= tp0.
Proof.
  intros H. unfold posn. pose proof (sizes_nonneg q0 (I_nodes q0 I0)) as NN.
  pose proof (off_nonneg _ (Z.to_nat j) NN). rewrite Z2Nat.id by lia.
  pose proof (off_mono _ (Z.to_nat j) (Z.to_nat T) NN ltac:(lia)). unfold tp0, tp. fold T. pose proof (I_tqi q0 I0). lia.
Qed.

Lemma node_step j st l : 0 <= j < T -> RI (posn j) st l ->
  exists st' l', lwr_node (l, st, j) = Ok (l', st', j + 1) /\ RI (posn (j + 1)) st' l'.
Proof.
  intros J R. destruct (Inv_node q0 j I0 ltac:(unfold T in J; lia)) as (id & sj & Q1 & S1 & S2).
  pose proof (zget_inv _ _ _ S1) as (_ & S1' & _).
  pose proof (sizes_nonneg q0 (I_nodes q0 I0)) as NN.
  pose proof (off_nonneg _ (Z.to_nat j) NN) as ON.
  unfold lwr_node. cbn [fst]. unfold gets at 1. rewrite (RI_sz _ _ _ R), S1. cbn [lift]. rewrite bind_Ok.
  destruct (inner_steps (fun q => gets q j) j (Z.to_nat sj) 0 (posn j) st l (Z.to_nat sj + 1) sj R ltac:(lia)) as (st' & l' & E & R').
  - intros q Hq. unfold gets. rewrite Hq, S1. reflexivity.
  - intros i Hi. split; [lia|]. exists sj. split; auto. split; [lia|]. unfold posn. lia.
  - rewrite <- (posn_S j sj) by (auto; lia). apply posn_le_tp0. lia.
  - lia.
  - exists st', l'. rewrite E, bind_Ok. split; [reflexivity|]. rewrite (posn_S j sj) by (auto; lia). exact R'.
Qed.

Lemma outer_steps : forall m j st l, 0 <= j -> j + Z.of_nat m <= T -> RI (posn j) st l ->
  exists st' l', iter m lwr_node (l, st, j) = Ok (l', st', j + Z.of_nat m) /\ RI (posn (j + Z.of_nat m)) st' l'.
Proof.
  induction m as [|m IH]; intros j st l J JT R.
  - cbn [iter]. exists st, l. rewrite Z.add_0_r. auto.
  - cbn [iter]. destruct (node_step j st l ltac:(lia) R) as (st1 & l1 & E1 & R1). rewrite E1, bind_Ok.
    destruct (IH (j + 1) st1 l1 ltac:(lia) ltac:(lia) R1) as (st2 & l2 & E2 & R2).
    exists st2, l2. replace (j + Z.of_nat (S m)) with (j + 1 + Z.of_nat m) by lia. auto.
Qed.

Lemma final_steps st l : RI (posn T) st l ->
  exists st' l', lwr_inner (Z.to_nat (tailQueueIndex q0) + 1) (fun _ => Ok (tailQueueIndex q0)) T 0 (l, st) = Ok (l', st') /\
                 RI (Z.to_nat tp0) st' l'.
Proof.
  intros R. destruct (Inv_pos q0 I0) as (P0 & P1 & P2 & _ & _ & Hts & _ & _).
  pose proof (sizes_nonneg q0 (I_nodes q0 I0)) as NN.
  pose proof (off_nonneg _ (Z.to_nat T) NN) as ON. pose proof (I_tqi q0 I0) as TQ. pose proof (I_hni q0 I0). pose proof (I_ht q0 I0).
  assert (E : (posn T + Z.to_nat (tailQueueIndex q0))%nat = Z.to_nat tp0). { unfold posn, tp0, tp. fold T. lia. }
  destruct (inner_steps (fun _ => Ok (tailQueueIndex q0)) T (Z.to_nat (tailQueueIndex q0)) 0 (posn T) st l
              (Z.to_nat (tailQueueIndex q0) + 1) (tailQueueIndex q0) R ltac:(lia)) as (st' & l' & E' & R').
  - reflexivity.
  - intros i Hi. split; [unfold T; lia|]. exists (tailQueueSize q0). split; [exact Hts|]. split; [lia|]. unfold posn. lia.
  - rewrite E. lia.
  - lia.
  - exists st', l'. rewrite <- E. auto.
Qed.

Hypothesis B0 : 1 <= baseQueueSize q0.
Hypothesis G0 : baseQueueSize q0 * 2 ^ T < P31.

Lemma reset_RI st : exists q1, reset_cursors q0 = Ok q1 /\ RI 0 st (mkLW q1 time0 0 0).
Proof.
  destruct (Inv_node q0 0 I0 ltac:(pose proof (I_hni q0 I0); pose proof (I_ht q0 I0); lia)) as (id & s0 & Q1 & S1 & S2).
  unfold reset_cursors. unfold getq, gets. sq_cbn. rewrite Q1, S1. cbn [lift]. rewrite !bind_Ok. sq_cbn.
  eexists. split; [reflexivity|].
  set (q1 := set_tailQueueSize _ _).
  assert (HP1 : hp q1 = 0) by reflexivity.
  assert (TP1 : tp q1 = 0) by reflexivity.
  assert (I1 : Inv q1).
  { pose proof I0 as I. dI I. constructor; unfold q1; sq_cbn; auto; try lia.
    - intros i Hi. assert (i = 0) by lia. subst i. exists id. exact Q1.
    - fold q1. rewrite HP1. constructor. }
  assert (A1 : abs q1 = []). { unfold abs. rewrite HP1, TP1. apply seg_empty. lia. }
  constructor; cbn [lw_locks lw_count lw_free lw_time]; auto.
  - constructor; cbn [lw_locks lw_count lw_free lw_time]; auto.
    + change (queues q1) with (queues q0). lia.
    + rewrite A1. constructor.
    + intros i x Hi. rewrite A1 in Hi. destruct i; discriminate.
Qed.

Lemma lw_live_prefix_tp0 : Cn F0 (Z.to_nat tp0) = lw_live (abs q0).
Proof.
  destruct (Inv_pos q0 I0) as (P0 & P1 & P2 & _). unfold Cn, abs, seg, F0, tp0.
  rewrite <- (firstn_skipn (Z.to_nat (hp q0)) (firstn (Z.to_nat (tp q0)) (flat q0))), lw_live_app.
  rewrite firstn_firstn. replace (Nat.min (Z.to_nat (hp q0)) (Z.to_nat (tp q0))) with (Z.to_nat (hp q0)) by lia.
  rewrite (lw_live_allnone _ (I_clean q0 I0)). cbn [app]. f_equal.
  rewrite skipn_firstn_comm. f_equal. lia.
Qed.

Lemma restructure_q0 st l : lw_locks l = q0 -> lw_time l = time0 ->
  exists l' st', lw_restructure st l = Ok (l', st') /\ LWInv st' l' /\ lw_abs l' = lw_live (abs q0) /\
                 lw_free l' = 0 /\ lw_time l' = time0.
Proof.
  intros EL ET. pose proof (I_hni q0 I0) as H0. pose proof (I_ht q0 I0) as H1. pose proof (I_tni q0 I0) as H2.
  destruct (reset_RI st) as (q1 & E1 & R1).
  destruct (outer_steps (Z.to_nat T) 0 st _ ltac:(lia) ltac:(lia) R1) as (st2 & l2 & E2 & R2).
  rewrite Z.add_0_l, Z2Nat.id in E2, R2 by (unfold T; lia).
  destruct (final_steps st2 l2 R2) as (st3 & l3 & E3 & R3).
  pose proof (RI_abs _ _ _ R3) as A3. rewrite lw_live_prefix_tp0 in A3.
  destruct R3 as [LW3 Q3 SZ3 BQ3 HP3 TP3 FL3 FR3 TM3]. set (q3 := lw_locks l3) in *.
  pose proof (L_inv _ _ LW3) as I3. fold q3 in I3.
  assert (TN3 : tailNodeIndex q3 <= T).
  { destruct (Z.le_gt_cases (tailNodeIndex q3) T); auto. exfalso.
    destruct (Inv_pos q3 I3) as (P0 & P1 & P2 & _ & _ & Hts & _ & _).
    destruct (Inv_pos q0 I0) as (R0 & R1' & R2' & _ & _ & Hts0 & _ & _).
    pose proof (sizes_nonneg q3 (I_nodes q3 I3)) as NN.
    pose proof (off_mono (nodeQueueSizes q3) (S (Z.to_nat T)) (Z.to_nat (tailNodeIndex q3)) NN ltac:(lia)) as OM.
    rewrite SZ3 in OM at 1. unfold T in OM at 1. rewrite (off_S _ _ _ Hts0) in OM.
    pose proof (Cn_le F0 (Z.to_nat tp0)). pose proof (I_tqi q3 I3). pose proof (I_tqi q0 I0).
    assert (TPE : tp0 = off (nodeQueueSizes q0) (Z.to_nat (tailNodeIndex q0)) + tailQueueIndex q0) by reflexivity.
    change (tp q0) with tp0 in R1', R2'. unfold tp in TP3. rewrite SZ3 in *. lia. }
  set (m := Z.to_nat (T - (tailNodeIndex q3 + 1))).
  destruct (free_loop m q3 T I3 ltac:(rewrite Q3; unfold T; lia) ltac:(unfold m; lia))
    as (q4 & E4 & I4 & A4 & HP4 & TP4 & TN4 & BQ4 & LN4 & SZ4).
  assert (T4 : 0 <= T - Z.of_nat m <= T) by (pose proof (I_hni q3 I3); pose proof (I_ht q3 I3); unfold m; lia).
  pose proof (shl_queueSize (baseQueueSize q4) (T - Z.of_nat m) T T4 ltac:(rewrite BQ4, BQ3; exact B0)
                ltac:(rewrite BQ4, BQ3; exact G0)) as QS. cbv zeta in QS.
  set (v := if wrap32 (baseQueueSize q4 * shl1_32 (T - Z.of_nat m)) >? QUEUE_MAX_MALLOC_SIZE
            then QUEUE_MAX_MALLOC_SIZE else wrap32 (baseQueueSize q4 * shl1_32 (T - Z.of_nat m))) in *.
  exists (set_locks l3 (set_queueSize q4 v)), st3. split.
  { unfold lw_restructure. rewrite EL, ET. fold T. rewrite E1, bind_Ok. cbv beta.
    rewrite E2, bind_Ok. cbv beta iota. rewrite E3, bind_Ok. cbv beta iota. fold q3. fold m.
    rewrite E4, bind_Ok. cbv beta iota. reflexivity. }
  assert (I5 : Inv (set_queueSize q4 v)) by (apply Inv_set_queueSize; auto).
  split; [|split; [|split]].
  - destruct LW3 as [_ B LN ND IDX CNT]. constructor; cbn [lw_locks lw_count lw_free lw_time set_locks]; auto.
    + change (baseQueueSize (set_queueSize q4 v)) with (baseQueueSize q4). rewrite BQ4. exact B.
    + change (queues (set_queueSize q4 v)) with (queues q4). rewrite LN4. exact LN.
    + change (abs (set_queueSize q4 v)) with (abs q4). rewrite A4. exact ND.
    + change (abs (set_queueSize q4 v)) with (abs q4). change (hp (set_queueSize q4 v)) with (hp q4).
      rewrite A4, HP4. intros i x Hi. destruct (IDX i x Hi) as (node & k & S1 & C1). exists node, k. split; auto.
      assert (node <= tailNodeIndex q3).
      { apply (coord_le_tail q3 node k (hp q3 + Z.of_nat i) I3 C1). pose proof (abs_length q3 I3).
        assert ((i < length (abs q3))%nat) by (apply nth_error_Some; congruence). lia. }
      eapply (coord_prefix q3); [|exact C1]. change (nodeQueueSizes (set_queueSize q4 v)) with (nodeQueueSizes q4).
      eapply firstn_le_agree; [|exact SZ4]. destruct C1. lia.
    + change (abs (set_queueSize q4 v)) with (abs q4). rewrite A4. exact CNT.
  - unfold lw_abs. cbn [lw_locks set_locks]. change (abs (set_queueSize q4 v)) with (abs q4). rewrite A4. exact A3.
  - cbn [lw_free set_locks]. exact FR3.
  - cbn [lw_time set_locks]. exact TM3.
Qed.

End Restructure.


(* the int32 no-overflow side conditions (the model keeps cursors unbounded, see LongWait.v):
   fewer than 2^31 - 1 nodes, and baseQueueSize << tailNodeIndex (computed by the restructure) fits in int32 *)
Definition lw_guard (l : lwq) : Prop :=
  Z.of_nat (length (queues (lw_locks l))) + 1 < P31 /\
  baseQueueSize (lw_locks l) * 2 ^ tailNodeIndex (lw_locks l) < P31.

Lemma lw_restructure_spec st l : LWInv st l -> lw_guard l ->
  exists l' st', lw_restructure st l = Ok (l', st') /\ LWInv st' l' /\ lw_abs l' = lw_live (lw_abs l) /\
    lw_free l' = 0 /\ lw_count l' = Z.of_nat (length (ids (lw_abs l))) /\ lw_time l' = lw_time l.
Proof.
  intros LW [G1 G2]. pose proof LW as [I B LN ND IDX CNT].
  destruct (restructure_q0 (lw_locks l) (lw_time l) I G1 ND B G2 st l eq_refl eq_refl) as (l' & st' & E & LW' & A & FR & TM).
  exists l', st'. split; [exact E|]. split; [exact LW'|]. split; [exact A|]. split; [exact FR|]. split; [|exact TM].
  pose proof (L_cnt _ _ LW') as C. unfold lw_abs in A. rewrite A, FR, ids_lw_live in C. unfold lw_abs. lia.
Qed.

(* ---------- constructor ---------- *)
Lemma lw_new_spec st base nodes size time :
  1 <= base -> 1 <= nodes -> nodes + 1 < P31 -> 1 <= size < POW30 ->
  exists l, lw_new base nodes size time = Ok l /\ LWInv st l /\ lw_abs l = [] /\ lw_count l = 0 /\ lw_free l = 0 /\
            lw_time l = time /\ baseQueueSize (lw_locks l) = size /\ Z.of_nat (length (queues (lw_locks l))) = nodes.
Proof.
  intros Hb Hn Hn2 Hs. destruct (new_spec base nodes size Hb Hn Hs) as (q & E & I & A & R).
  unfold lw_new. rewrite E, bind_Ok. eexists. split; [reflexivity|].
  assert (F : baseQueueSize q = size /\ Z.of_nat (length (queues q)) = nodes).
  { unfold new in E. destruct (nodes <? 1); [discriminate|]. destruct (size <? 0); [discriminate|].
    injection E as <-. cbn [baseQueueSize queues length]. rewrite repeat_length. split; [reflexivity|lia]. }
  destruct F as [F1 F2]. unfold lw_abs. cbn [lw_locks lw_count lw_free lw_time].
  split; [|repeat split; auto].
  constructor; cbn [lw_locks lw_count lw_free lw_time]; auto; try lia.
  - rewrite A. constructor.
  - intros i x Hi. rewrite A in Hi. destruct i; discriminate.
  - rewrite A. reflexivity.
Qed.

(* ---------- the consumer idiom: n times Pop(), keeping the non-nil results ---------- *)
Lemma consume_spec : forall n st l acc, LWInv st l -> (n <= length (lw_abs l))%nat ->
  exists l' st', consume n st l acc = Ok (l', st', acc ++ ids (firstn n (lw_abs l))) /\ LWInv st' l' /\
    lw_abs l' = skipn n (lw_abs l) /\ lw_count l' = lw_count l - Z.of_nat (length (ids (firstn n (lw_abs l)))) /\
    lw_free l' = lw_free l /\ lw_time l' = lw_time l.
Proof.
  induction n as [|n IH]; intros st l acc LW Hn.
  - cbn [consume firstn skipn ids length]. exists l, st. rewrite app_nil_r.
    split; [reflexivity|]. split; [exact LW|]. split; [reflexivity|]. split; [cbn; lia|]. split; reflexivity.
  - cbn [consume]. destruct (lw_pop_spec st l LW) as (l1 & st1 & E1 & LW1 & A1 & C1 & F1 & T1).
    rewrite E1, bind_Ok. cbv beta iota.
    destruct (lw_abs l) as [|h t] eqn:EA; [cbn in Hn; lia|]. cbn [hd_slot tl length] in *.
    destruct (IH st1 l1 (match h with Some x => acc ++ [x] | None => acc end) LW1 ltac:(rewrite A1; lia))
      as (l2 & st2 & E2 & LW2 & A2 & C2 & F2 & T2).
    exists l2, st2. rewrite E2, A1. cbn [firstn skipn]. rewrite A1 in A2, C2.
    split; [|split; [exact LW2|split; [exact A2|split; [|split; congruence]]]].
    + destruct h as [x|]; cbn [ids]; [rewrite <- app_assoc|]; reflexivity.
    + destruct h as [x|]; cbn [ids length] in *; lia.
Qed.

(* ---------- specification: a plain sequence with deletions (holes), its two counters, compaction ---------- *)
Definition sstate : Type := (list slot * Z * Z)%type.
Definition s_trigger (c f : Z) : bool := (f * 3 >=? c) && ((f >=? c) || (f >=? 256)).

Definition spec_step (s : sstate) (o : lop) : sstate * lobs :=
  let '(sl, c, f) := s in
  match o with
  | LPush x => ((sl ++ [Some x], c + 1, f), LUnit)
  | LRemove x => ((blank x sl, c, f + 1), LUnit)
  | LRemovePolicy x =>
    if s_trigger c (f + 1) then ((lw_live (blank x sl), Z.of_nat (length (ids (blank x sl))), 0), LRestr true)
    else ((blank x sl, c, f + 1), LRestr false)
  | LPop => ((tl sl, c - (match hd_slot sl with Some _ => 1 | None => 0 end), f), LVal (hd_slot sl))
  | LLen => (s, LLens (Z.of_nat (length sl)) c f)
  | LRestructure => ((lw_live sl, Z.of_nat (length (ids sl)), 0), LUnit)
  | LConsume => (([], c - Z.of_nat (length (ids sl)), f), LList (ids sl))
  end.

Fixpoint spec_run (s : sstate) (ops : list lop) : list lobs :=
  match ops with
  | [] => []
  | o :: r => let '(s', ob) := spec_step s o in ob :: spec_run s' r
  end.

(* callers' contract: a lock is pushed only while it is not queued, removed only while it is queued *)
Definition wf_op (sl : list slot) (o : lop) : Prop :=
  match o with
  | LPush x => ~ In x (ids sl)
  | LRemove x | LRemovePolicy x => In x (ids sl)
  | _ => True
  end.

Definition lw_rel (l : lwq) : sstate := (lw_abs l, lw_count l, lw_free l).

Theorem lw_step_refines st l o : LWInv st l -> wf_op (lw_abs l) o -> lw_guard l ->
  exists l' st', lw_step st l o = Ok (l', st', snd (spec_step (lw_rel l) o)) /\ LWInv st' l' /\
                 lw_rel l' = fst (spec_step (lw_rel l) o) /\ lw_time l' = lw_time l.
Proof.
  intros LW WF [G1 G2]. unfold lw_rel. destruct o as [x|x|x| | | |]; cbn [lw_step spec_step wf_op fst snd] in *.
  - destruct (lw_push_spec st l x LW WF G1) as (l' & st' & E & LW' & A & C & F & T & _).
    exists l', st'. rewrite E, bind_Ok. split; [reflexivity|]. split; [exact LW'|]. rewrite A, C, F. auto.
  - destruct (lw_remove_spec st l x LW WF) as (l' & st' & E & LW' & A & C & F & T & _).
    exists l', st'. rewrite E, bind_Ok. split; [reflexivity|]. split; [exact LW'|]. rewrite A, C, F. auto.
  - destruct (lw_remove_spec st l x LW WF) as (l1 & st1 & E & LW1 & A & C & F & T & Q1 & Q2 & Q3).
    rewrite E, bind_Ok. cbv beta iota.
    assert (TR : lw_trigger l1 = s_trigger (lw_count l) (lw_free l + 1)).
    { unfold lw_trigger, s_trigger, LONG_LOCKS_QUEUE_INIT_SIZE. rewrite C, F. reflexivity. }
    rewrite TR. destruct (s_trigger (lw_count l) (lw_free l + 1)); cbn [fst snd].
    + destruct (lw_restructure_spec st1 l1 LW1) as (l2 & st2 & E2 & LW2 & A2 & F2 & C2 & T2).
      { split; rewrite ?Q1, ?Q2, ?Q3; auto. }
      exists l2, st2. rewrite E2, bind_Ok. split; [reflexivity|]. split; [exact LW2|]. rewrite A2, C2, F2, A. split; [reflexivity|congruence].
    + exists l1, st1. split; [reflexivity|]. split; [exact LW1|]. rewrite A, C, F. auto.
  - destruct (lw_pop_spec st l LW) as (l' & st' & E & LW' & A & C & F & T).
    exists l', st'. rewrite E, bind_Ok. split; [reflexivity|]. split; [exact LW'|]. rewrite A, C, F. auto.
  - exists l, st. rewrite (lw_len_spec st l LW), bind_Ok. auto.
  - destruct (lw_restructure_spec st l LW (conj G1 G2)) as (l' & st' & E & LW' & A & F & C & T).
    exists l', st'. rewrite E, bind_Ok. split; [reflexivity|]. split; [exact LW'|]. rewrite A, C, F. auto.
  - rewrite (lw_len_spec st l LW), bind_Ok, Nat2Z.id.
    destruct (consume_spec (length (lw_abs l)) st l [] LW ltac:(lia)) as (l' & st' & E & LW' & A & C & F & T).
    rewrite firstn_all in E, C. rewrite skipn_all in A.
    exists l', st'. rewrite E, bind_Ok. split; [reflexivity|]. split; [exact LW'|]. rewrite A, C, F. auto.
Qed.

(* side conditions along a run: the callers' contract on the abstract content and the int32 guards on the concrete state *)
Fixpoint lw_okrun (st : istore) (l : lwq) (ops : list lop) : Prop :=
  match ops with
  | [] => True
  | o :: r => wf_op (lw_abs l) o /\ lw_guard l /\
              forall l' st' ob, lw_step st l o = Ok (l', st', ob) -> lw_okrun st' l' r
  end.

Theorem lw_run_refines : forall ops st l, LWInv st l -> lw_okrun st l ops ->
  lw_run st l ops = (spec_run (lw_rel l) ops, EDone).
Proof.
  induction ops as [|o r IH]; intros st l LW OK; [reflexivity|].
  cbn [lw_okrun] in OK. destruct OK as (WF & G & K).
  destruct (lw_step_refines st l o LW WF G) as (l' & st' & E & LW' & R & _).
  cbn [lw_run spec_run]. rewrite E. specialize (K _ _ _ E). rewrite (IH st' l' LW' K), R.
  destruct (spec_step (lw_rel l) o). reflexivity.
Qed.

(* what the callers rely on *)
Corollary lw_len_counts_slots st l : LWInv st l ->
  lw_len l = Ok (Z.of_nat (length (lw_abs l))) /\
  lw_count l - lw_free l = Z.of_nat (length (ids (lw_abs l))).
Proof. intros LW. split; [apply (lw_len_spec st); auto | apply (L_cnt _ _ LW)]. Qed.

Corollary lw_consume_complete st l : LWInv st l ->
  exists n l' st', lw_len l = Ok n /\ consume (Z.to_nat n) st l [] = Ok (l', st', ids (lw_abs l)) /\ lw_abs l' = [] /\ LWInv st' l'.
Proof.
  intros LW. exists (Z.of_nat (length (lw_abs l))).
  destruct (consume_spec (length (lw_abs l)) st l [] LW ltac:(lia)) as (l' & st' & E & LW' & A & _).
  rewrite firstn_all in E. rewrite skipn_all in A. exists l', st'. rewrite Nat2Z.id.
  split; [apply (lw_len_spec st); auto|]. auto.
Qed.


(* ---------- decidable form of the side conditions (for concrete runs) ---------- *)
Definition wf_opb (sl : list slot) (o : lop) : bool :=
  match o with
  | LPush x => negb (existsb (N.eqb x) (ids sl))
  | LRemove x | LRemovePolicy x => existsb (N.eqb x) (ids sl)
  | _ => true
  end.
Definition lw_guardb (l : lwq) : bool :=
  (Z.of_nat (length (queues (lw_locks l))) + 1 <? P31) &&
  (baseQueueSize (lw_locks l) * 2 ^ tailNodeIndex (lw_locks l) <? P31).

Fixpoint lw_okrunb (st : istore) (l : lwq) (ops : list lop) : bool :=
  match ops with
  | [] => true
  | o :: r => wf_opb (lw_abs l) o && lw_guardb l &&
              match lw_step st l o with Ok (l', st', _) => lw_okrunb st' l' r | _ => false end
  end.

Lemma existsb_In x l : existsb (N.eqb x) l = true <-> In x l.
Proof.
  rewrite existsb_exists. split.
  - intros (y & H & E). apply N.eqb_eq in E. subst. exact H.
  - intros H. exists x. split; auto. apply N.eqb_refl.
Qed.

Lemma lw_okrunb_sound : forall ops st l, lw_okrunb st l ops = true -> lw_okrun st l ops.
Proof.
  induction ops as [|o r IH]; intros st l H; cbn [lw_okrunb lw_okrun] in *; auto.
  apply andb_true_iff in H. destruct H as [H H3]. apply andb_true_iff in H. destruct H as [H1 H2].
  split; [|split].
  - destruct o; cbn [wf_opb wf_op] in *; auto.
    + intros C. apply existsb_In in C. rewrite C in H1. discriminate.
    + apply existsb_In. exact H1.
    + apply existsb_In. exact H1.
  - unfold lw_guardb in H2. apply andb_true_iff in H2. destruct H2 as [A B]. split; [apply Z.ltb_lt; exact A | apply Z.ltb_lt; exact B].
  - intros l' st' ob E. rewrite E in H3. apply IH. exact H3.
Qed.

Theorem lw_new_run_refines base nodes size ops :
  1 <= base -> 1 <= nodes -> nodes + 1 < P31 -> 1 <= size < POW30 ->
  (forall l, lw_new base nodes size 0 = Ok l -> lw_okrun (fun _ => 0) l ops) ->
  lw_run_new base nodes size ops = (spec_run ([], 0, 0) ops, EDone).
Proof.
  intros Hb Hn Hn2 Hs OK.
  destruct (lw_new_spec (fun _ => 0) base nodes size 0 Hb Hn Hn2 Hs) as (l & E & LW & A & C & F & _).
  unfold lw_run_new. rewrite E. rewrite (lw_run_refines ops _ l LW (OK l E)). unfold lw_rel. rewrite A, C, F. reflexivity.
Qed.

(* ---------- LongWaitLockFreeQueue: a LIFO stack of released queues with a fixed capacity ---------- *)
Definition fq_rep (f : lwfree) (s : list lwq) : Prop :=
  fq_index f = Z.of_nat (length s) - 1 /\ Z.of_nat (length (fq_slots f)) = fq_max f + 1 /\
  Z.of_nat (length s) <= fq_max f + 1 /\ firstn (length s) (fq_slots f) = map Some s.

Lemma fq_new_rep n : 0 <= n -> fq_rep (fq_new n) [].
Proof. intros H. unfold fq_rep, fq_new. cbn. rewrite repeat_length. repeat split; lia. Qed.

Lemma fq_len_rep f s : fq_rep f s -> fq_len f = Z.of_nat (length s).
Proof. intros (H & _). unfold fq_len. lia. Qed.

Lemma firstn_snoc_nth {A} (l : list A) n x : firstn (S n) l = firstn n l ++ [x] -> nth_error l n = Some x.
Proof.
  revert n. induction l as [|a l IH]; intros n H; destruct n; cbn in *; try discriminate.
  - injection H as ->. reflexivity.
  - injection H as H. apply IH. exact H.
Qed.

Lemma fq_get_empty f t : fq_rep f [] ->
  fq_get f t = (l <- lw_new 4 64 LONG_LOCKS_QUEUE_INIT_SIZE t ;; Ok (f, l)).
Proof. intros (H & _). unfold fq_get. cbn in H. destruct (Z.ltb_spec (fq_index f) 0); [reflexivity|lia]. Qed.

Lemma fq_top f s top : fq_rep f (s ++ [top]) ->
  0 <= fq_index f < Z.of_nat (length (fq_slots f)) /\ Z.to_nat (fq_index f) = length s /\
  nth_error (fq_slots f) (length s) = Some (Some top) /\
  fq_rep (mkFQ (upd (fq_slots f) (length s) None) (fq_index f - 1) (fq_max f)) s.
Proof.
  intros (H1 & H2 & H3 & H4). rewrite app_length in *. cbn [length] in *.
  replace (length s + 1)%nat with (S (length s)) in H4 by lia.
  assert (F : firstn (length s) (fq_slots f) = map Some s).
  { pose proof (f_equal (firstn (length s)) H4) as X. rewrite firstn_firstn in X.
    replace (Nat.min (length s) (S (length s))) with (length s) in X by lia. rewrite X, map_app.
    rewrite firstn_app. rewrite map_length, Nat.sub_diag. cbn. rewrite app_nil_r. apply firstn_all2. rewrite map_length. lia. }
  assert (N : nth_error (fq_slots f) (length s) = Some (Some top)).
  { apply firstn_snoc_nth. rewrite H4, F, map_app. reflexivity. }
  split; [lia|]. split; [lia|]. split; [exact N|].
  unfold fq_rep. cbn [fq_index fq_slots fq_max]. rewrite upd_length. repeat split; try lia.
  rewrite firstn_upd_ge by lia. exact F.
Qed.

Lemma fq_get_top f s top t : fq_rep f (s ++ [top]) ->
  exists f', fq_get f t = Ok (f', mkLW (lw_locks top) t 0 0) /\ fq_rep f' s.
Proof.
  intros R. destruct (fq_top f s top R) as (B & E & N & R').
  unfold fq_get. destruct (Z.ltb_spec (fq_index f) 0); [lia|].
  rewrite zget_some, zset_some by lia. rewrite E, N. cbn [lift]. rewrite !bind_Ok. eexists. split; [reflexivity|exact R'].
Qed.

Lemma fq_pop_rep f s : fq_rep f s ->
  match rev s with
  | [] => fq_pop f = Ok (f, false)
  | _ :: r => exists f', fq_pop f = Ok (f', true) /\ fq_rep f' (rev r)
  end.
Proof.
  intros R. destruct (rev s) as [|top r] eqn:E.
  - assert (s = []) by (rewrite <- (rev_involutive s), E; reflexivity). subst. destruct R as (H & _).
    unfold fq_pop. cbn in H. destruct (Z.ltb_spec (fq_index f) 0); [reflexivity|lia].
  - assert (S : s = rev r ++ [top]) by (rewrite <- (rev_involutive s), E; reflexivity). rewrite S in R.
    destruct (fq_top f (rev r) top R) as (B & E' & N & R').
    unfold fq_pop. destruct (Z.ltb_spec (fq_index f) 0); [lia|].
    rewrite zget_some, zset_some by lia. rewrite E', N. cbn [lift]. rewrite !bind_Ok. eexists. split; [reflexivity|exact R'].
Qed.

Lemma fq_free_rep f s l now q' : fq_rep f s -> Reset (lw_locks l) = Ok q' ->
  if Z.of_nat (length s) <=? fq_max f
  then exists f', fq_free f l now = Ok f' /\ fq_rep f' (s ++ [mkLW q' now (-1) (-1)])
  else fq_free f l now = Ok f.
Proof.
  intros (H1 & H2 & H3 & H4) RS. unfold fq_free.
  destruct (Z.leb_spec (Z.of_nat (length s)) (fq_max f)).
  - destruct (Z.ltb_spec (fq_index f) (fq_max f)); [|lia]. rewrite RS, bind_Ok.
    rewrite zset_some by lia. cbn [lift]. rewrite bind_Ok. eexists. split; [reflexivity|].
    unfold fq_rep. cbn [fq_index fq_slots fq_max]. rewrite upd_length, app_length. cbn [length].
    replace (Z.to_nat (fq_index f + 1)) with (length s) by lia. repeat split; try lia.
    replace (length s + 1)%nat with (S (length s)) by lia.
    rewrite (firstn_S_snoc _ _ (Some (mkLW q' now (-1) (-1)))) by (apply nth_error_upd_same; lia).
    rewrite firstn_upd_ge by lia. rewrite H4, map_app. reflexivity.
  - destruct (Z.ltb_spec (fq_index f) (fq_max f)); [lia|]. reflexivity.
Qed.

(* ---------- Len counts the holes: popping "live count" times instead would lose elements ---------- *)
Lemma lw_len_counts_holes_example :
  lw_run_new 4 64 256 [LPush 1%N; LPush 2%N; LPush 3%N; LRemove 1%N; LLen; LConsume] =
    ([LUnit; LUnit; LUnit; LUnit; LLens 3 3 1; LList [2%N; 3%N]], EDone).
Proof. vm_compute. reflexivity. Qed.

Example lw_okrun_nonvacuous :
  forall l, lw_new 1 1 1 0 = Ok l ->
  lw_okrun (fun _ => 0) l [LPush 1%N; LPush 2%N; LPush 3%N; LPush 4%N; LRemovePolicy 2%N; LLen; LRemove 3%N; LPop; LRestructure; LLen; LConsume].
Proof. intros l E. vm_compute in E. injection E as <-. apply lw_okrunb_sound. vm_compute. reflexivity. Qed.
