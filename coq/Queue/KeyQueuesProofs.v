(* Refinement theorems for LockManagerRingQueue and LockManagerPriorityRingQueue (model: KeyQueues.v).
   Abstraction = list of slots (option lock id) in pop order.  All statements are universally quantified
   and proved by induction / invariants; no axioms. *)
From Coq Require Import List ZArith NArith Bool Lia.
From Coq Require Import ZifyN ZifyBool ZifyNat.
From Slock Require Import Queue.SegQueue Queue.KeyQueues.
Import ListNotations.
Open Scope Z_scope.

(* ---------- list helpers ---------- *)
Lemma skipn_snoc {A} (l : list A) (x : A) (i : nat) :
  (i <= length l)%nat -> skipn i (l ++ [x]) = skipn i l ++ [x].
Proof.
  intros H. rewrite skipn_app. replace (i - length l)%nat with 0%nat by lia. reflexivity.
Qed.

Lemma nth_hd_skipn {A} (l : list A) (i : nat) (d : A) : nth i l d = hd d (skipn i l).
Proof.
  revert i; induction l as [|a l IH]; intros [|i]; cbn; auto.
Qed.

Lemma skipn_S_upd {A} (l : list A) (i : nat) (v : A) : skipn (S i) (upd l i v) = tl (skipn i l).
Proof.
  revert i; induction l as [|a l IH]; intros [|i]; auto.
  change (skipn (S (S i)) (upd (a :: l) (S i) v)) with (skipn (S i) (upd l i v)).
  rewrite IH. reflexivity.
Qed.

Lemma skipn_S_tl {A} (l : list A) (i : nat) : skipn (S i) l = tl (skipn i l).
Proof.
  revert i; induction l as [|a l IH]; intros [|i]; auto.
  change (skipn (S (S i)) (a :: l)) with (skipn (S i) l). rewrite IH. reflexivity.
Qed.

Lemma length_upd {A} (l : list A) (i : nat) (v : A) : length (upd l i v) = length l.
Proof.
  revert i; induction l as [|a l IH]; intros [|i]; cbn; auto.
Qed.

Lemma tl_nil_of_short {A} (l : list A) : (length l <= 1)%nat -> tl l = [].
Proof. destruct l as [|a [|b l]]; cbn; auto; lia. Qed.

Lemma filter_length_le' {A} (f : A -> bool) (l : list A) : (length (filter f l) <= length l)%nat.
Proof. induction l as [|a l IH]; cbn; auto. destruct (f a); cbn; lia. Qed.

Lemma filter_length_eq {A} (f : A -> bool) (l : list A) : length (filter f l) = length l -> filter f l = l.
Proof.
  induction l as [|a l IH]; cbn; auto.
  destruct (f a); cbn; intros H.
  - f_equal. apply IH. lia.
  - pose proof (filter_length_le' f l). lia.
Qed.

Lemma concat_flat_map {A B} (f : A -> list (list B)) (l : list A) :
  concat (flat_map f l) = flat_map (fun a => concat (f a)) l.
Proof.
  induction l as [|a l IH]; cbn; auto. rewrite concat_app, IH. reflexivity.
Qed.

(* ====================================================================================================== *)
(* LockManagerRingQueue                                                                                    *)
(* ====================================================================================================== *)
Definition ring_abs (r : ring) : list slot := skipn (r_index r) (s_data (r_q r)).
Definition ring_inv (r : ring) : Prop := (r_index r <= length (s_data (r_q r)))%nat.

Lemma ring_new_abs n : ring_abs (ring_new n) = [] /\ ring_inv (ring_new n).
Proof. split; [reflexivity | unfold ring_inv; cbn; lia]. Qed.

(* Push appends (both code paths: in-place shift and plain append / reallocation) *)
Theorem ring_push_abs r x :
  ring_inv r -> ring_abs (ring_push r x) = ring_abs r ++ [x] /\ ring_inv (ring_push r x).
Proof.
  unfold ring_inv, ring_abs, ring_push. intros H.
  destruct ((length (s_data (r_q r)) =? s_cap (r_q r))%nat && (Nat.div2 (length (s_data (r_q r))) <? r_index r)%nat);
    cbn [r_q r_index s_append s_data].
  - split; [reflexivity | rewrite app_length; cbn; lia].
  - split; [apply skipn_snoc; exact H | rewrite app_length; cbn; lia].
Qed.

(* Pop returns the oldest element (nil = None when empty) and removes it *)
Theorem ring_pop_abs r :
  ring_inv r ->
  snd (ring_pop r) = hd None (ring_abs r) /\
  ring_abs (fst (ring_pop r)) = tl (ring_abs r) /\
  ring_inv (fst (ring_pop r)).
Proof.
  unfold ring_inv, ring_abs, ring_pop. intros H.
  destruct (length (s_data (r_q r)) <=? r_index r)%nat eqn:E1.
  - apply Nat.leb_le in E1. cbn [fst snd]. rewrite skipn_all2 by lia. auto.
  - apply Nat.leb_gt in E1.
    destruct (length (s_data (r_q r)) <=? S (r_index r))%nat eqn:E2; cbn [fst snd r_q r_index s_data].
    + apply Nat.leb_le in E2. split; [apply nth_hd_skipn|]. split; [|cbn; lia].
      cbn. symmetry. apply tl_nil_of_short. rewrite skipn_length. lia.
    + apply Nat.leb_gt in E2. split; [apply nth_hd_skipn|]. split.
      * apply skipn_S_upd.
      * rewrite length_upd. lia.
Qed.

Theorem ring_head_abs r : ring_head r = hd None (ring_abs r).
Proof.
  unfold ring_head, ring_abs.
  destruct (length (s_data (r_q r)) <=? r_index r)%nat eqn:E1.
  - apply Nat.leb_le in E1. rewrite skipn_all2 by lia. reflexivity.
  - apply nth_hd_skipn.
Qed.

Theorem ring_len_abs r : ring_inv r -> ring_len r = Z.of_nat (length (ring_abs r)).
Proof. unfold ring_inv, ring_len, ring_abs. intros H. rewrite skipn_length. lia. Qed.

Theorem ring_iter_abs r : concat (ring_iter r) = ring_abs r.
Proof.
  unfold ring_iter, ring_abs.
  destruct (r_index r <? length (s_data (r_q r)))%nat eqn:E.
  - cbn. apply app_nil_r.
  - apply Nat.ltb_ge in E. rewrite skipn_all2 by lia. reflexivity.
Qed.

(* MaxPriority = priority of the head lock, 0 when empty; panics exactly when the head slot is nil *)
Theorem ring_maxprio_abs st r :
  ring_maxprio st r = match ring_abs r with
                      | [] => Ok 0%N
                      | Some i :: _ => Ok (prio_of st i)
                      | None :: _ => Panic
                      end.
Proof.
  unfold ring_maxprio, ring_abs.
  destruct (length (s_data (r_q r)) <=? r_index r)%nat eqn:E1.
  - apply Nat.leb_le in E1. rewrite skipn_all2 by lia. reflexivity.
  - apply Nat.leb_gt in E1. rewrite nth_hd_skipn.
    destruct (skipn (r_index r) (s_data (r_q r))) as [|[i|] t] eqn:E; cbn; auto.
    exfalso. assert (length (skipn (r_index r) (s_data (r_q r))) = 0%nat) by (rewrite E; reflexivity).
    rewrite skipn_length in H. lia.
Qed.

(* ====================================================================================================== *)
(* LockManagerPriorityRingQueue                                                                            *)
(* ====================================================================================================== *)
Section Prio.
Variable pf : N -> N.                 (* priority of a lock id *)

Definition sprio (s : slot) : N := match s with Some i => pf i | None => 0%N end.

(* SPEC: insertion into a list sorted by descending priority, after all elements of priority >= the new one *)
Fixpoint spec_insert (x : slot) (l : list slot) : list slot :=
  match l with
  | [] => [x]
  | y :: r => if (sprio y <? sprio x)%N then x :: y :: r else y :: spec_insert x r
  end.

Fixpoint sorted_desc (l : list slot) : Prop :=
  match l with
  | [] => True
  | y :: r => Forall (fun z => (sprio z <= sprio y)%N) r /\ sorted_desc r
  end.

Lemma spec_insert_app_ge x l1 l2 :
  Forall (fun y => (sprio x <= sprio y)%N) l1 -> spec_insert x (l1 ++ l2) = l1 ++ spec_insert x l2.
Proof.
  induction 1 as [|y l1 Hy _ IH]; cbn; auto.
  destruct (sprio y <? sprio x)%N eqn:E; [lia|]. rewrite IH. reflexivity.
Qed.

Lemma spec_insert_lt x l :
  Forall (fun y => (sprio y < sprio x)%N) l -> spec_insert x l = x :: l.
Proof.
  destruct 1 as [|y l Hy _]; cbn; auto.
  destruct (sprio y <? sprio x)%N eqn:E; [reflexivity|lia].
Qed.

Lemma spec_insert_In x l z : In z (spec_insert x l) <-> z = x \/ In z l.
Proof.
  induction l as [|y l IH]; cbn.
  - intuition.
  - destruct (sprio y <? sprio x)%N; cbn; [|rewrite IH]; intuition.
Qed.

(* the spec keeps the list sorted: Pop (= head) is always a lock of maximal priority, FIFO among equals *)
Lemma spec_insert_sorted x l : sorted_desc l -> sorted_desc (spec_insert x l).
Proof.
  induction l as [|y l IH]; cbn; auto.
  intros [Hy Hs]. destruct (sprio y <? sprio x)%N eqn:E; cbn.
  - split; [|auto]. constructor; [lia|]. eapply Forall_impl; [|exact Hy]. cbn; intros; lia.
  - split; [|auto]. apply Forall_forall. intros z Hz. apply spec_insert_In in Hz.
    destruct Hz as [->|Hz]; [lia|]. rewrite Forall_forall in Hy. auto.
Qed.

Definition pq_abs (q : prq) : list slot := flat_map (fun n => ring_abs (pn_ring n)) (pq_nodes q).

Definition node_ok (n : pnode) : Prop :=
  ring_inv (pn_ring n) /\ Forall (fun s => exists i, s = Some i /\ pf i = pn_prio n) (ring_abs (pn_ring n)).

Fixpoint nodes_sorted (l : list pnode) : Prop :=
  match l with
  | [] => True
  | n :: r => Forall (fun m => (pn_prio m < pn_prio n)%N) r /\ nodes_sorted r
  end.

Definition pq_inv (q : prq) : Prop := Forall node_ok (pq_nodes q) /\ nodes_sorted (pq_nodes q).

Lemma pq_new_abs n : pq_abs (prq_new n) = [] /\ pq_inv (prq_new n).
Proof. split; [reflexivity|]. split; cbn; auto. Qed.

Definition nodes_abs (l : list pnode) : list slot := flat_map (fun n => ring_abs (pn_ring n)) l.

Lemma node_ok_sprio n s : node_ok n -> In s (ring_abs (pn_ring n)) -> sprio s = pn_prio n.
Proof.
  intros [_ H] Hin. rewrite Forall_forall in H. destruct (H s Hin) as (i & -> & Hp). exact Hp.
Qed.

Lemma nodes_abs_lt l p :
  Forall node_ok l -> Forall (fun m => (pn_prio m < p)%N) l ->
  Forall (fun y => (sprio y < p)%N) (nodes_abs l).
Proof.
  intros Hok Hlt. apply Forall_forall. intros y Hy. unfold nodes_abs in Hy. apply in_flat_map in Hy.
  destruct Hy as (n & Hn & Hy). rewrite Forall_forall in Hok, Hlt.
  rewrite (node_ok_sprio n y (Hok n Hn) Hy). auto.
Qed.

Lemma node_ok_push n i :
  node_ok n -> pf i = pn_prio n -> node_ok (mkPNode (ring_push (pn_ring n) (Some i)) (pn_prio n)).
Proof.
  intros [Hinv Hall] Hp. destruct (ring_push_abs (pn_ring n) (Some i) Hinv) as [Ha Hi].
  split; cbn [pn_ring pn_prio]; auto. rewrite Ha. apply Forall_app. split; auto.
  constructor; auto. exists i; auto.
Qed.

(* path 1: a node of that priority exists *)
Lemma pq_push_existing_abs l i l' :
  Forall node_ok l -> nodes_sorted l ->
  pq_push_existing l (pf i) (Some i) = Some l' ->
  nodes_abs l' = spec_insert (Some i) (nodes_abs l) /\ Forall node_ok l' /\ map pn_prio l' = map pn_prio l.
Proof.
  revert l'. induction l as [|n r IH]; intros l' Hok Hs; cbn [pq_push_existing]; [discriminate|].
  inversion Hok as [|? ? Hn Hr]; subst. destruct Hs as [Hlt Hs].
  destruct (pn_prio n =? pf i)%N eqn:E.
  - intros [= <-]. apply N.eqb_eq in E. cbn [nodes_abs flat_map pn_ring pn_prio map].
    destruct (ring_push_abs (pn_ring n) (Some i) (proj1 Hn)) as [Ha _]. rewrite Ha.
    fold (nodes_abs r). rewrite <- app_assoc. split; [|split; auto].
    + rewrite spec_insert_app_ge.
      * f_equal. cbn [app]. symmetry. apply spec_insert_lt.
        apply nodes_abs_lt; auto. cbn [sprio]. rewrite <- E. exact Hlt.
      * apply Forall_forall. intros y Hy. rewrite (node_ok_sprio n y Hn Hy). cbn [sprio]. lia.
    + constructor; auto. apply node_ok_push; auto.
  - apply N.eqb_neq in E.
    destruct (pq_push_existing r (pf i) (Some i)) as [r'|] eqn:Er; [|discriminate].
    intros [= <-]. destruct (IH r' Hr Hs eq_refl) as (Ha & Hok' & Hm).
    cbn [nodes_abs flat_map map]. fold (nodes_abs r) (nodes_abs r'). rewrite Ha, Hm. split; [|split; auto].
    rewrite spec_insert_app_ge; auto.
    (* the matching node is further down, so this node has a strictly greater priority *)
    assert (Hin : In (pf i) (map pn_prio r)).
    { clear - Er. revert r' Er. induction r as [|m r IH]; cbn; [discriminate|]. intros r'.
      destruct (pn_prio m =? pf i)%N eqn:E; [apply N.eqb_eq in E; auto|].
      destruct (pq_push_existing r (pf i) (Some i)); [|discriminate]. intros _. right. eapply IH; eauto. }
    apply in_map_iff in Hin. destruct Hin as (m & Hm1 & Hm2). rewrite Forall_forall in Hlt.
    specialize (Hlt m Hm2).
    apply Forall_forall. intros y Hy. rewrite (node_ok_sprio n y Hn Hy). cbn [sprio]. lia.
Qed.

Lemma pq_push_existing_none l p x :
  pq_push_existing l p x = None -> Forall (fun m => pn_prio m <> p) l.
Proof.
  induction l as [|n r IH]; cbn; auto.
  destruct (pn_prio n =? p)%N eqn:E; [discriminate|]. apply N.eqb_neq in E.
  destruct (pq_push_existing r p x); [discriminate|]. intros _. constructor; auto.
Qed.

(* the three hand-written insertion paths (0, 1, >= 2 nodes) are one sorted insertion *)
Lemma pq_insert_is_many l node :
  Forall (fun m => pn_prio m <> pn_prio node) l -> pq_insert l node = pq_insert_many l node.
Proof.
  destruct l as [|n0 [|n1 l]]; cbn; auto.
  intros H. inversion H as [|? ? Hne _]; subst.
  destruct (pn_prio node <? pn_prio n0)%N eqn:E1, (pn_prio n0 <? pn_prio node)%N eqn:E2; auto; lia.
Qed.

(* paths 2-4: a new node is created and inserted *)
Lemma pq_insert_many_abs l node x :
  Forall node_ok l -> nodes_sorted l -> node_ok node -> ring_abs (pn_ring node) = [x] ->
  Forall (fun m => pn_prio m <> pn_prio node) l ->
  nodes_abs (pq_insert_many l node) = spec_insert x (nodes_abs l) /\
  Forall node_ok (pq_insert_many l node) /\ nodes_sorted (pq_insert_many l node) /\
  (forall p, Forall (fun m => (pn_prio m < p)%N) l -> (pn_prio node < p)%N ->
             Forall (fun m => (pn_prio m < p)%N) (pq_insert_many l node)).
Proof.
  intros Hok Hs Hnode Hx Hne.
  assert (Hpx : sprio x = pn_prio node).
  { apply node_ok_sprio; auto. rewrite Hx. left; reflexivity. }
  induction l as [|n r IH]; cbn [pq_insert_many].
  - cbn. rewrite Hx. repeat split; auto.
  - inversion Hok as [|? ? Hn Hr]; subst. destruct Hs as [Hlt Hs]. inversion Hne as [|? ? Hne1 Hne2]; subst.
    destruct (pn_prio n <? pn_prio node)%N eqn:E.
    + cbn [nodes_abs flat_map]. fold (nodes_abs r). rewrite Hx. cbn [app]. split; [|split; [|split]].
      * symmetry. apply (spec_insert_lt x (ring_abs (pn_ring n) ++ nodes_abs r)).
        rewrite Hpx. apply (nodes_abs_lt (n :: r)); auto.
        constructor; [lia|]. eapply Forall_impl; [|exact Hlt]. cbn; intros; lia.
      * constructor; auto.
      * cbn. split; [|split; auto]. constructor; [lia|]. eapply Forall_impl; [|exact Hlt]. cbn; intros; lia.
      * intros p Hp Hnp. constructor; auto.
    + destruct (IH Hr Hs Hne2) as (Ha & Hok' & Hs' & Hb).
      cbn [nodes_abs flat_map]. fold (nodes_abs r) (nodes_abs (pq_insert_many r node)). rewrite Ha.
      split; [|split; [|split]].
      * rewrite spec_insert_app_ge; auto.
        apply Forall_forall. intros y Hy. rewrite (node_ok_sprio n y Hn Hy), Hpx. lia.
      * constructor; auto.
      * cbn. split; auto. apply Hb; auto. lia.
      * intros p Hp Hnp. inversion Hp; subst. constructor; auto.
Qed.

(* THEOREM: Push refines stable priority insertion, on all four code paths; never panics on a non-nil lock *)
Theorem pq_push_abs st q i :
  (forall j, prio_of st j = pf j) -> pq_inv q ->
  exists q', pq_push st q (Some i) = Ok q' /\
             pq_abs q' = spec_insert (Some i) (pq_abs q) /\ pq_inv q' /\ pq_size q' = pq_size q.
Proof.
  intros Hpf [Hok Hs]. unfold pq_push. rewrite Hpf.
  destruct (pq_push_existing (pq_nodes q) (pf i) (Some i)) as [l|] eqn:E.
  - eexists; split; [reflexivity|]. destruct (pq_push_existing_abs _ _ _ Hok Hs E) as (Ha & Hok' & Hm).
    split; [exact Ha|]. split; [|reflexivity]. split; [exact Hok'|]. cbn [pq_nodes].
    (* sortedness only depends on the priorities *)
    clear - Hm Hs. revert l Hm. induction (pq_nodes q) as [|n r IH]; intros [|n' r']; cbn; try discriminate; auto.
    intros [= H1 H2]. destruct Hs as [Hlt Hs]. split; [|apply IH; auto].
    rewrite H1. clear - Hlt H2. revert r' H2. induction r as [|m r IH]; intros [|m' r']; cbn; try discriminate; auto.
    intros [= H1 H2]. inversion Hlt; subst. constructor; [rewrite H1; auto|apply IH; auto].
  - eexists; split; [reflexivity|]. apply pq_push_existing_none in E.
    set (node := mkPNode (ring_push (ring_new (pq_size q)) (Some i)) (pf i)).
    assert (Hx : ring_abs (pn_ring node) = [Some i]).
    { unfold node; cbn [pn_ring]. destruct (ring_new_abs (pq_size q)) as [Ha Hi].
      destruct (ring_push_abs _ (Some i) Hi) as [Hb _]. rewrite Hb, Ha. reflexivity. }
    assert (Hnode : node_ok node).
    { split; [|rewrite Hx; constructor; [exists i; auto|constructor]].
      unfold node; cbn [pn_ring]. apply ring_push_abs. apply ring_new_abs. }
    rewrite pq_insert_is_many by exact E.
    destruct (pq_insert_many_abs _ node (Some i) Hok Hs Hnode Hx E) as (Ha & Hok' & Hs' & _).
    split; [exact Ha|]. split; [split; auto|reflexivity].
Qed.

(* under the invariant every queued slot is a non-nil lock, so a ring returns nil iff it is empty *)
Lemma node_ok_hd_none n : node_ok n -> hd None (ring_abs (pn_ring n)) = None -> ring_abs (pn_ring n) = [].
Proof.
  intros [_ H]. destruct (ring_abs (pn_ring n)) as [|s t]; auto. inversion H as [|? ? (i & -> & _) _]; subst.
  discriminate.
Qed.

Lemma node_ok_tl n rg :
  node_ok n -> ring_inv rg -> ring_abs rg = tl (ring_abs (pn_ring n)) -> node_ok (mkPNode rg (pn_prio n)).
Proof.
  intros [_ H] Hi Ha. split; cbn [pn_ring pn_prio]; auto. rewrite Ha.
  destruct (ring_abs (pn_ring n)); cbn; auto. inversion H; auto.
Qed.

Lemma pq_pop_nodes_abs l :
  Forall node_ok l ->
  snd (pq_pop_nodes l) = hd None (nodes_abs l) /\
  nodes_abs (fst (pq_pop_nodes l)) = tl (nodes_abs l) /\
  Forall node_ok (fst (pq_pop_nodes l)) /\ map pn_prio (fst (pq_pop_nodes l)) = map pn_prio l.
Proof.
  induction 1 as [|n r Hn Hr IH]; cbn [pq_pop_nodes]; [cbn; auto|].
  destruct (ring_pop_abs (pn_ring n) (proj1 Hn)) as (Hv & Ha & Hi).
  destruct (ring_pop (pn_ring n)) as [rg v]. cbn [fst snd] in *.
  cbn [nodes_abs flat_map]. fold (nodes_abs r).
  destruct v as [j|].
  - cbn [fst snd nodes_abs flat_map pn_ring map pn_prio]. fold (nodes_abs r).
    destruct (ring_abs (pn_ring n)) as [|s t] eqn:E; [discriminate|]. cbn in Hv, Ha. subst s. rewrite Ha.
    cbn. repeat split; auto. constructor; auto. eapply node_ok_tl; eauto. rewrite E; auto.
  - symmetry in Hv. pose proof (node_ok_hd_none n Hn Hv) as E. rewrite E in *. cbn in Ha.
    destruct IH as (IH1 & IH2 & IH3 & IH4). destruct (pq_pop_nodes r) as [r' v'].
    cbn [fst snd nodes_abs flat_map pn_ring map pn_prio] in *. fold (nodes_abs r'). rewrite Ha. cbn [app].
    repeat split; auto; [|congruence]. constructor; auto. eapply node_ok_tl; eauto. rewrite E; auto.
Qed.

Lemma nodes_sorted_map l l' : map pn_prio l' = map pn_prio l -> nodes_sorted l -> nodes_sorted l'.
Proof.
  revert l'. induction l as [|n r IH]; intros [|n' r']; cbn; try discriminate; auto.
  intros [= H1 H2] [Hlt Hs]. split; [|apply IH; auto]. rewrite H1. clear - Hlt H2.
  revert r' H2. induction r as [|m r IH]; intros [|m' r']; cbn; try discriminate; auto.
  intros [= H1 H2]. inversion Hlt; subst. constructor; [rewrite H1; auto|apply IH; auto].
Qed.

(* THEOREM: Pop returns the first element of the priority order and removes exactly it *)
Theorem pq_pop_abs q :
  pq_inv q ->
  snd (pq_pop q) = hd None (pq_abs q) /\ pq_abs (fst (pq_pop q)) = tl (pq_abs q) /\ pq_inv (fst (pq_pop q)).
Proof.
  intros [Hok Hs]. unfold pq_pop, pq_abs. destruct (pq_pop_nodes_abs _ Hok) as (H1 & H2 & H3 & H4).
  destruct (pq_pop_nodes (pq_nodes q)) as [l v]. cbn [fst snd pq_nodes] in *.
  repeat split; auto. eapply nodes_sorted_map; eauto.
Qed.

Theorem pq_head_abs q : pq_inv q -> pq_head q = hd None (pq_abs q).
Proof.
  intros [Hok _]. unfold pq_head, pq_abs. induction Hok as [|n r Hn Hr IH]; cbn; auto.
  rewrite ring_head_abs. destruct (hd None (ring_abs (pn_ring n))) as [j|] eqn:E.
  - destruct (ring_abs (pn_ring n)); [discriminate|]. cbn in *. congruence.
  - rewrite (node_ok_hd_none n Hn E). cbn. exact IH.
Qed.

(* MaxPriority = priority of the element Pop would return (0 when empty) *)
Theorem pq_maxprio_abs q : pq_inv q -> pq_maxprio q = sprio (hd None (pq_abs q)).
Proof.
  intros [Hok _]. unfold pq_maxprio, pq_abs. induction Hok as [|n r Hn Hr IH]; cbn [pq_maxprio_nodes flat_map]; auto.
  rewrite ring_head_abs. destruct (hd None (ring_abs (pn_ring n))) as [j|] eqn:E.
  - destruct (ring_abs (pn_ring n)) as [|s t] eqn:E2; [discriminate|]. cbn in E. subst s. cbn [app hd].
    symmetry. apply node_ok_sprio; auto. rewrite E2. left; reflexivity.
  - rewrite (node_ok_hd_none n Hn E). cbn [app]. exact IH.
Qed.

Lemma fold_left_len_acc l acc :
  Forall node_ok l ->
  fold_left (fun a n => a + ring_len (pn_ring n)) l acc = acc + Z.of_nat (length (nodes_abs l)).
Proof.
  intros H. revert acc. induction H as [|n r Hn Hr IH]; intros acc; cbn [fold_left nodes_abs flat_map].
  - cbn. lia.
  - fold (nodes_abs r). rewrite IH, app_length, (ring_len_abs _ (proj1 Hn)). lia.
Qed.

Theorem pq_len_abs q : pq_inv q -> pq_len q = Z.of_nat (length (pq_abs q)).
Proof. intros [Hok _]. unfold pq_len. rewrite fold_left_len_acc by exact Hok. reflexivity. Qed.

Theorem pq_iter_abs q : concat (pq_iter q) = pq_abs q.
Proof.
  unfold pq_iter, pq_abs. rewrite concat_flat_map. induction (pq_nodes q) as [|n r IH]; cbn; auto.
  rewrite ring_iter_abs, IH. reflexivity.
Qed.

(* consequence: the queue content is always sorted by descending priority *)
Theorem pq_abs_sorted q : pq_inv q -> sorted_desc (pq_abs q).
Proof.
  intros [Hok Hs]. unfold pq_abs. induction Hok as [|n r Hn Hr IH]; cbn [flat_map]; auto.
  destruct Hs as [Hlt Hs]. specialize (IH Hs). pose proof (nodes_abs_lt r (pn_prio n) Hr Hlt) as Hr'.
  fold (nodes_abs r) in *. pose proof (node_ok_sprio n) as Hsp. specialize (Hsp) .
  induction (ring_abs (pn_ring n)) as [|s t IHt]; cbn [app]; auto.
  cbn [sorted_desc]. split.
  - apply Forall_app. split.
    + apply Forall_forall. intros z Hz. rewrite (Hsp z Hn), (Hsp s Hn); [lia|left; auto|right; auto].
    + eapply Forall_impl; [|exact Hr']. cbn. intros z Hz. rewrite (Hsp s Hn); [lia|left; auto].
  - apply IHt. intros z Hn' Hz. apply Hsp; auto. right; auto.
Qed.

End Prio.
