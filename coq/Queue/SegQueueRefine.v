(* The segmented queue refines a plain deque with bounded left room: constructor, and the run theorem by induction
   over arbitrary operation lists (for the methods whose refinement lemma is proved, see STATUS.md). *)
From Coq Require Import List ZArith Bool Lia.
From Slock Require Import Queue.SegQueue Queue.ListLemmas Queue.SegQueueInv Queue.SegQueueOps.
Import ListNotations.
Open Scope Z_scope.

(* ---------- constructor ---------- *)
Lemma nodes_ok_repeat h k : Forall2 (node_ok h) (repeat None k) (repeat 0 k).
Proof. induction k; simpl; constructor; auto. reflexivity. Qed.

Lemma nth_error_repeat_None {A} k i (x : A) : nth_error (repeat (@None A) k) i = Some (Some x) -> False.
Proof. intros H. apply nth_error_In in H. apply repeat_spec in H. discriminate. Qed.

Lemma new_spec base nodes size : 1 <= base -> 1 <= nodes -> 1 <= size < POW30 ->
  exists q, new base nodes size = Ok q /\ Inv q /\ abs q = [] /\ room q = 0.
Proof.
  intros Hb Hn Hs. unfold new.
  destruct (Z.ltb_spec nodes 1); [lia|]. destruct (Z.ltb_spec size 0); [lia|].
  eexists. split; [reflexivity|].
  assert (HP : forall q, headNodeIndex q = 0 -> headQueueIndex q = 0 -> hp q = 0).
  { intros q E1 E2. unfold hp. rewrite E1, E2. reflexivity. }
  split; [|split].
  - constructor; cbn [heap headQueueIndex headQueueSize headQueue tailQueueIndex tailQueueSize tailQueue headNodeIndex
                        tailNodeIndex queues nodeQueueSizes baseNodeSize nodeIndex nodeSize shrinkNodeSize baseQueueSize
                        queueSize rellacTailNodeIndex]; try lia; try reflexivity.
    + cbn [length]. rewrite repeat_length. lia.
    + unfold nodes_ok. cbn [heap queues nodeQueueSizes]. constructor; [|apply nodes_ok_repeat].
      unfold node_ok. cbn. rewrite repeat_length. lia.
    + unfold nodup. cbn [queues]. intros i j id Hi Hj.
      destruct i, j; auto; cbn in Hi, Hj; exfalso; eapply nth_error_repeat_None; eauto.
    + intros i Hi. exists O. assert (i = 0) by lia. subst. reflexivity.
    + constructor; [lia|]. clear. induction (Z.to_nat nodes - 1)%nat; simpl; constructor; auto. unfold POW30. lia.
    + rewrite HP by reflexivity. constructor.
  - unfold abs. apply seg_empty. rewrite HP by reflexivity. unfold tp. cbn. lia.
  - unfold room. apply HP; reflexivity.
Qed.

(* ---------- the specification: a plain deque over slots with a bounded left room ---------- *)
Definition dq : Type := (Z * list slot)%type.      (* (left room, contents) *)

Definition dq_step (s : dq) (o : op) : dq * obs :=
  let '(r, l) := s in
  match o with
  | OpPush v => ((r, l ++ [v]), OUnit)
  | OpPushLeft v => if 0 <? r then ((r - 1, v :: l), OUnit) else ((r, l), OFull)
  | OpPop => (match l with [] => (r, l) | _ :: l' => (r + 1, l') end, OVal (hd_slot l))
  | OpPopRight => ((r, removelast l), OVal (last_slot l))
  | OpHead => ((r, l), OVal (hd_slot l))
  | OpTail => ((r, l), OVal (last_slot l))
  | OpLen => ((r, l), OInt (Z.of_nat (length l)))
  | _ => ((r, l), OUnit)       (* not covered by this (partial) theorem *)
  end.

Fixpoint dq_run (s : dq) (ops : list op) : list obs * dq :=
  match ops with
  | [] => ([], s)
  | o :: r => let '(s', ob) := dq_step s o in let '(l, f) := dq_run s' r in (ob :: l, f)
  end.

Definition covered (o : op) : bool :=
  match o with
  | OpPush _ | OpPushLeft _ | OpPop | OpPopRight | OpHead | OpTail | OpLen => true
  | _ => false
  end.

Definition absq (q : sq) : dq := (room q, abs q).

Lemma is_empty_abs q : Inv q -> (is_empty q = true <-> abs q = []).
Proof.
  intros I. destruct (Inv_pos q I) as (P0 & P1 & P2 & PE & _). pose proof (abs_length q I) as L.
  destruct (is_empty q); split; intros; auto; try discriminate.
  - destruct (abs q); auto. cbn [length] in L. lia.
  - rewrite H in L. cbn in L. lia.
Qed.

Lemma step_refines q o : Inv q -> covered o = true ->
  exists q', step q o = Ok (q', snd (dq_step (absq q) o)) /\ Inv q' /\ absq q' = fst (dq_step (absq q) o).
Proof.
  intros I C. unfold absq. destruct o; try discriminate; cbn [step dq_step fst snd].
  - destruct (Push_spec q v I) as (q' & E & I' & A & R). exists q'. rewrite E. cbn. rewrite A, R. auto.
  - destruct (PushLeft_spec q v I) as (q' & b & E & I' & B). exists q'. rewrite E. cbn [bind].
    destruct b.
    + destruct B as (B1 & B2 & B3). destruct (Z.ltb_spec 0 (room q)); [|lia]. cbn. rewrite B2, B3. auto.
    + destruct B as (B1 & B2). subst q'. destruct (Z.ltb_spec 0 (room q)); [lia|]. cbn. auto.
  - destruct (Pop_spec q I) as (q' & E & I' & A & R). exists q'. rewrite E. cbn [bind]. split; auto. split; auto.
    rewrite A, R. pose proof (is_empty_abs q I) as IE.
    destruct (abs q) eqn:EA.
    + destruct (is_empty q); [|destruct IE as [_ IE]; specialize (IE eq_refl); discriminate]. cbn. f_equal. lia.
    + destruct (is_empty q); [destruct IE as [IE _]; specialize (IE eq_refl); discriminate|]. reflexivity.
  - destruct (PopRight_spec q I) as (q' & E & I' & A & R). exists q'. rewrite E. cbn. rewrite A, R. auto.
  - rewrite (Head_spec q I). cbn. eauto.
  - rewrite (Tail_spec q I). cbn. eauto.
  - rewrite (Len_spec q I). cbn. eauto.
Qed.

Theorem seg_run_refines_partial : forall ops q, Inv q -> forallb covered ops = true ->
  exists qf, run q ops = (fst (dq_run (absq q) ops), EDone, Some qf) /\ Inv qf /\ absq qf = snd (dq_run (absq q) ops).
Proof.
  induction ops as [|o r IH]; intros q I C.
  - exists q. cbn. auto.
  - cbn [forallb] in C. apply andb_true_iff in C. destruct C as [C1 C2].
    destruct (step_refines q o I C1) as (q' & E & I' & A).
    destruct (IH q' I' C2) as (qf & R & If & Af).
    exists qf. cbn [run dq_run]. rewrite E. rewrite R.
    destruct (dq_step (absq q) o) as [s' ob] eqn:DS. cbn [fst snd] in *. rewrite A in *.
    destruct (dq_run s' r) as [l f] eqn:DR. cbn [fst snd] in *. auto.
Qed.

(* all constructor parameters, all operation lists *)
Theorem seg_new_run_refines_partial : forall base nodes size ops,
  1 <= base -> 1 <= nodes -> 1 <= size < POW30 -> forallb covered ops = true ->
  exists qf, run_new base nodes size ops = (fst (dq_run (0, []) ops), EDone, Some qf) /\ Inv qf /\
             absq qf = snd (dq_run (0, []) ops).
Proof.
  intros base nodes size ops Hb Hn Hs C.
  destruct (new_spec base nodes size Hb Hn Hs) as (q & E & I & A & R).
  unfold run_new. rewrite E.
  destruct (seg_run_refines_partial ops q I C) as (qf & RR & If & Af).
  unfold absq in *. rewrite A, R in *. eauto.
Qed.

(* ---------- refutations (faithful model; each witness is replayed on the Go code by checks/C20.py, corpus/C20) ---------- *)
Definition pushes (a b : nat) : list op := map (fun i => OpPush (Some (N.of_nat i))) (seq a b).
Definition holes (a b : nat) : list op := map (fun i => OpHole (Z.of_nat i)) (seq a b).

(* Shrink(0) on [1;2;3] (constructor 1 1 2): Len drops from 3 to 1 and iteration loses 1 and 2 *)
Lemma shrink_refuted :
  exists ops, fst (fst (run_new 1 1 2 (ops ++ [OpLen; OpIter]))) =
                [OUnit; OUnit; OUnit; OInt 3; ONodes [[Some 1%N; Some 2%N]; [Some 3%N]]]
           /\ fst (fst (run_new 1 1 2 (ops ++ [OpShrink 0; OpLen; OpIter]))) =
                [OUnit; OUnit; OUnit; OInt 2; OInt 1; ONodes [[]; [Some 3%N]]].
Proof. exists (pushes 1 3). vm_compute. split; reflexivity. Qed.

(* Restructuring with an allocated node above the tail (after one PopRight): a later Push panics *)
Lemma restructuring_refuted :
  exists ops, snd (fst (run_new 1 1 1 ops)) = EPanic /\
              forallb (fun o => match o with OpPush _ | OpPopRight | OpHole _ | OpRestructuring => true | _ => false end) ops = true.
Proof. exists (pushes 1 15 ++ [OpPopRight] ++ holes 1 13 ++ [OpRestructuring] ++ pushes 20 8). vm_compute. split; reflexivity. Qed.

(* restructuringLong*Queue (db.go) followed by Reset, small parameters: a later Push panics *)
Lemma restructuringLong_refuted :
  exists ops, snd (fst (run_new 5 5 1 ops)) = EPanic /\
              forallb (fun o => match o with OpPush _ | OpPop | OpRestructuringLong | OpReset => true | _ => false end) ops = true.
Proof. exists (pushes 1 3 ++ [OpPop; OpPop; OpPop; OpRestructuringLong; OpReset] ++ pushes 10 4). vm_compute. split; reflexivity. Qed.
