(* Per-method refinement lemmas: each method of the segmented queue preserves Inv and acts on abs as the
   corresponding plain-deque operation. *)
From Coq Require Import List ZArith Bool Lia.
From Slock Require Import Queue.SegQueue Queue.ListLemmas Queue.SegQueueInv.
Import ListNotations.
Open Scope Z_scope.

Lemma bind_Ok {A B} (a : A) (f : A -> res B) : bind (Ok a) f = f a.
Proof. reflexivity. Qed.

(* projections of setters are reduced by cbn; `bind (Ok _) _` is reduced by REWRITING (a cbn step there makes the
   kernel compare two large monadic chains at Qed time, which is exponentially slow) *)
Ltac sq_cbn :=
  cbn [heap headQueueIndex headQueueSize headQueue tailQueueIndex tailQueueSize tailQueue headNodeIndex tailNodeIndex
       queues nodeQueueSizes baseNodeSize nodeIndex nodeSize shrinkNodeSize baseQueueSize queueSize rellacTailNodeIndex
       set_heap set_headQueueIndex set_headQueueSize set_headQueue set_tailQueueIndex set_tailQueueSize set_tailQueue
       set_headNodeIndex set_tailNodeIndex set_queues set_nodeQueueSizes set_nodeIndex set_nodeSize set_shrinkNodeSize
       set_queueSize set_rellacTailNodeIndex grow_queueSize lift fst snd] in *.
Ltac sq_simpl := sq_cbn; repeat (rewrite bind_Ok; sq_cbn).

Ltac dI I := destruct I as [I_ns0 I_nodes0 I_nodup0 I_hni0 I_ht0 I_tni0 I_hqi0 I_tqi0 I_order0 I_hq0 I_hqs0 I_tq0 I_tqs0
                            I_alloc0 I_base0 I_qs0 I_szb0 I_clean0].

Definition hd_slot (l : list slot) : slot := match l with [] => None | x :: _ => x end.
Definition last_slot (l : list slot) : slot := last l None.

Lemma getq_ok q i a : zget (queues q) i = Some a -> getq q i = Ok a.
Proof. unfold getq. intros ->. reflexivity. Qed.
Lemma gets_ok q i s : zget (nodeQueueSizes q) i = Some s -> gets q i = Ok s.
Proof. unfold gets. intros ->. reflexivity. Qed.

Lemma zget_nth {A} (l : list A) i x : 0 <= i -> nth_error l (Z.to_nat i) = Some x -> zget l i = Some x.
Proof. intros. rewrite zget_some; auto. Qed.

(* a node at index i <= tail is allocated, with its size entry *)
Lemma Inv_node q i : Inv q -> 0 <= i <= tailNodeIndex q ->
  exists id s, zget (queues q) i = Some (Some id) /\ zget (nodeQueueSizes q) i = Some s /\ 1 <= s.
Proof.
  intros I Hi. destruct (I_alloc q I i ltac:(lia)) as [id Hid].
  pose proof (zget_inv _ _ _ Hid) as (_ & Hn & _).
  destruct (Forall2_nth_error_l _ _ _ _ _ (I_nodes q I) Hn) as (s & Hs & OK).
  exists id, s. split; auto. split; [apply zget_nth; auto; lia|]. simpl in OK. lia.
Qed.

(* ---------------- Head ---------------- *)
Lemma Head_spec q : Inv q -> Head q = Ok (hd_slot (abs q)).
Proof.
  intros I. destruct (Inv_pos q I) as (P0 & P1 & P2 & PE & Hhs & Hts & Hh & Ht).
  unfold Head. destruct (is_empty q) eqn:E.
  - unfold abs. rewrite seg_empty by lia. reflexivity.
  - assert (hp q < tp q) by exact PE.
    destruct (rd_node q _ _ _ (headQueueIndex q) (I_nodes q I) Hh Hhs (I_hqi q I)) as (x & R & N).
    rewrite R. unfold abs. fold (hp q) in N. rewrite (seg_cons _ _ _ x) by (auto; lia). reflexivity.
Qed.

(* ---------------- Pop ---------------- *)
Lemma Pop_spec q : Inv q ->
  exists q', Pop q = Ok (q', hd_slot (abs q)) /\ Inv q' /\ abs q' = tl (abs q) /\
             room q' = room q + (if is_empty q then 0 else 1).
Proof.
  intros I. destruct (Inv_pos q I) as (P0 & P1 & P2 & PE & Hhs & Hts & Hh & Ht).
  unfold Pop. destruct (is_empty q) eqn:E.
  - exists q. unfold abs, room. rewrite seg_empty by lia. cbn. split; [reflexivity|]. split; [exact I|]. split; [reflexivity|lia].
  - assert (LT : hp q < tp q) by exact PE.
    destruct (rd_node q _ _ _ (headQueueIndex q) (I_nodes q I) Hh Hhs (I_hqi q I)) as (x & R & N).
    destruct (wr_node q _ _ _ (headQueueIndex q) None (I_nodes q I) (I_nodup q I) Hh Hhs (I_hqi q I)) as (h' & W & HL & NO & FL).
    fold (hp q) in N, FL.
    rewrite R, W. sq_simpl.
    assert (ABS : abs q = x :: seg (flat q) (hp q + 1) (tp q)). { unfold abs. apply seg_cons; auto; lia. }
    assert (CL : Forall (fun x => x = None) (firstn (Z.to_nat (hp q + 1)) (upd (flat q) (Z.to_nat (hp q)) None))).
    { replace (Z.to_nat (hp q + 1)) with (S (Z.to_nat (hp q))) by lia.
      eapply Forall_firstn_S; [apply nth_error_upd_same; lia | | reflexivity].
      rewrite firstn_upd_ge by lia. apply (I_clean q I). }
    dI I.
    destruct (Z.geb_spec (headQueueIndex q + 1) (headQueueSize q)) as [G|G].
    + (* head moves to the next node *)
      assert (HN : headNodeIndex q + 1 <= tailNodeIndex q).
      { destruct (Z.eq_dec (headNodeIndex q) (tailNodeIndex q)) as [X|X]; [|lia].
        exfalso. rewrite X in *. rewrite Hts in Hhs. injection Hhs as Hhs. unfold hp, tp in LT. rewrite X in LT. lia. }
      destruct (Inv_node q (headNodeIndex q + 1)) as (id & s & Q1 & S1 & S2); [constructor; auto | lia |].
      unfold getq, gets. sq_simpl. rewrite Q1. sq_simpl. rewrite S1. sq_simpl.
      eexists. split; [rewrite ABS; reflexivity|].
      assert (HP : off (nodeQueueSizes q) (Z.to_nat (headNodeIndex q + 1)) + 0 = hp q + 1).
      { unfold hp. replace (Z.to_nat (headNodeIndex q + 1)) with (S (Z.to_nat (headNodeIndex q))) by lia.
        rewrite (off_S _ _ _ Hhs). lia. }
      rewrite ABS. cbn [tl]. unfold room. set (H := hp q) in *. set (T := tp q) in *.
      split; [|split].
      * constructor; sq_simpl; auto; try lia.
        unfold hp. sq_simpl. rewrite HP. rewrite FL by reflexivity. exact CL.
      * unfold abs, hp, tp. sq_simpl. rewrite HP, FL by reflexivity. fold T.
        apply seg_upd_before; lia.
      * unfold hp. sq_simpl. rewrite HP. reflexivity.
    + eexists. split; [rewrite ABS; reflexivity|].
      assert (HP : off (nodeQueueSizes q) (Z.to_nat (headNodeIndex q)) + (headQueueIndex q + 1) = hp q + 1) by (unfold hp; lia).
      assert (OR : headNodeIndex q = tailNodeIndex q -> headQueueIndex q + 1 <= tailQueueIndex q).
      { intros X. unfold hp, tp in LT. rewrite X in LT. lia. }
      rewrite ABS. cbn [tl]. unfold room. set (H := hp q) in *. set (T := tp q) in *.
      split; [|split].
      * constructor; sq_simpl; auto; try lia.
        unfold hp. sq_simpl. rewrite HP, FL by reflexivity. exact CL.
      * unfold abs, hp, tp. sq_simpl. rewrite HP, FL by reflexivity. fold T.
        apply seg_upd_before; lia.
      * unfold hp. sq_simpl. rewrite HP. reflexivity.
Qed.

(* ---------------- mallocQueue ---------------- *)
Lemma nodes_ok_heap_ext h x Q S : Forall2 (node_ok h) Q S -> Forall2 (node_ok (h ++ [x])) Q S.
Proof.
  intros F. eapply Forall2_impl'; [|exact F]. intros a s. unfold node_ok. destruct a; auto.
  intros (A & B & C). rewrite app_length. split; [lia|]. rewrite app_nth1 by auto. auto.
Qed.

Lemma id_bound q i id : nodes_ok q -> nth_error (queues q) i = Some (Some id) -> (id < length (heap q))%nat.
Proof.
  intros N H. destruct (Forall2_nth_error_l _ _ _ _ _ N H) as (s & _ & OK). simpl in OK. tauto.
Qed.

Lemma Forall2_upd {A B} (R : A -> B -> Prop) l l' n a b :
  Forall2 R l l' -> R a b -> Forall2 R (upd l n a) (upd l' n b).
Proof. intros F. revert n. induction F; intros n HR; destruct n; simpl; constructor; auto. Qed.

Lemma Forall_upd {A} (P : A -> Prop) l n a : Forall P l -> P a -> Forall P (upd l n a).
Proof. intros F. revert n. induction F; intros n HR; destruct n; simpl; constructor; auto. Qed.

Lemma grow_bounds s : 1 <= s < POW30 -> 1 <= next_size s < POW30 /\ next_size s <= QUEUE_MAX_MALLOC_SIZE.
Proof.
  unfold next_size, POW30, QUEUE_MAX_MALLOC_SIZE, wrap32. intros H.
  replace ((s * 2 + 2147483648) mod 4294967296) with (s * 2 + 2147483648) by (rewrite Z.mod_small; lia).
  destruct (Z.gtb_spec (s * 2 + 2147483648 - 2147483648) 67108863); lia.
Qed.

Lemma off_firstn_agree sz sz' j : firstn j sz = firstn j sz' -> forall i, (i <= j)%nat -> off sz i = off sz' i.
Proof.
  intros H i Hi. unfold off. replace i with (Nat.min i j) by lia. rewrite <- !firstn_firstn. rewrite H. reflexivity.
Qed.

Lemma view_ext_heap_app (h : list (list slot)) x (Q : list aref) :
  (forall i id, nth_error Q i = Some (Some id) -> (id < length h)%nat) ->
  map (fun a : aref => match a with None => [] | Some id => nth id (h ++ [x]) [] end) Q =
  map (fun a : aref => match a with None => [] | Some id => nth id h [] end) Q.
Proof.
  intros B. apply nth_error_ext'. intros i. rewrite !nth_error_map.
  destruct (nth_error Q i) as [[id|]|] eqn:E; cbn; auto. rewrite app_nth1; eauto.
Qed.

Lemma make_eq q n : 0 <= n -> make q n = Ok (set_heap q (heap q ++ [repeat None (Z.to_nat n)]), Some (length (heap q))).
Proof. unfold make. intros. destruct (Z.ltb_spec n 0); [lia|]. reflexivity. Qed.

Lemma malloc_spec q : Inv q -> tailQueueIndex q + 1 = tailQueueSize q ->
  exists q', mallocQueue q = Ok q' /\ Inv q' /\
    firstn (Z.to_nat (tp q + 1)) (flat q') = firstn (Z.to_nat (tp q + 1)) (flat q) /\
    hp q' = hp q /\ tp q' = tp q + 1.
Proof.
  intros I TE. destruct (Inv_pos q I) as (P0 & P1 & P2 & PE & Hhs & Hts & Hh & Ht).
  pose proof (nodes_ok_length q (I_nodes q I)) as LEN.
  pose proof (sizes_nonneg q (I_nodes q I)) as NN.
  assert (TP1 : off (nodeQueueSizes q) (S (Z.to_nat (tailNodeIndex q))) = tp q + 1).
  { rewrite (off_S _ _ _ Hts). unfold tp. lia. }
  assert (TN : Z.to_nat (tailNodeIndex q + 1) = S (Z.to_nat (tailNodeIndex q))) by (destruct I; lia).
  pose proof (grow_bounds _ (I_qs q I)) as (GB & GM).
  unfold mallocQueue. sq_simpl.
  destruct (Z.geb_spec (tailNodeIndex q + 1) (nodeSize q)) as [G|G].
  - (* append a node *)
    rewrite make_eq by (sq_simpl; lia). sq_simpl.
    set (g := next_size (queueSize q)) in *.
    assert (TL : Z.to_nat (tailNodeIndex q + 1) = length (queues q)) by (destruct I; lia).
    unfold getq, gets. sq_simpl. rewrite !zget_some by (destruct I; lia). rewrite TL.
    rewrite nth_error_app2 by lia. rewrite Nat.sub_diag. cbn [nth_error lift bind].
    rewrite <- LEN. rewrite nth_error_app2 by lia. rewrite Nat.sub_diag. cbn [nth_error lift bind].
    eexists. split; [reflexivity|].
    assert (FA : forall q2, heap q2 = heap q ++ [repeat None (Z.to_nat g)] -> queues q2 = queues q ++ [Some (length (heap q))] ->
                 flat q2 = flat q ++ repeat None (Z.to_nat g)).
    { intros q2 E1 E2. unfold flat, view, arr. rewrite E1, E2. rewrite map_app, concat_app. cbn.
      rewrite app_nil_r. rewrite nth_middle. f_equal.
      rewrite view_ext_heap_app; auto. intros i id Hi. eapply id_bound; eauto. apply (I_nodes q I). }
    assert (OA : forall i, (i <= length (queues q))%nat -> off (nodeQueueSizes q ++ [g]) i = off (nodeQueueSizes q) i).
    { intros. apply off_app_l. lia. }
    split; [|split; [|split]].
    + dI I. constructor; sq_simpl; auto; try lia.
      * rewrite app_length. cbn. lia.
      * unfold nodes_ok. sq_simpl. apply Forall2_app.
        -- apply nodes_ok_heap_ext. exact I_nodes0.
        -- constructor; [|constructor]. unfold node_ok. rewrite app_length. cbn. split; [lia|].
           rewrite nth_middle. rewrite repeat_length. lia.
      * unfold nodup. sq_simpl. intros i j id Hi Hj.
        assert (KK : forall k, nth_error (queues q ++ [Some (length (heap q))]) k = Some (Some id) ->
                          (k < length (queues q) /\ nth_error (queues q) k = Some (Some id) /\ id < length (heap q))%nat
                          \/ (k = length (queues q) /\ id = length (heap q))).
        { intros k Hk. destruct (Nat.lt_ge_cases k (length (queues q))).
          - rewrite nth_error_app1 in Hk by auto. left. split; auto. split; auto. eapply (id_bound q); eauto.
          - right. rewrite nth_error_app2 in Hk by auto.
            destruct (k - length (queues q))%nat eqn:X; cbn in Hk; [|destruct n; discriminate].
            injection Hk as <-. split; lia. }
        destruct (KK i Hi) as [(A1 & A2 & A3)|(A1 & A2)]; destruct (KK j Hj) as [(B1 & B2 & B3)|(B1 & B2)]; try lia.
        eapply I_nodup0; eauto.
      * rewrite app_length. cbn. lia.
      * rewrite zget_some by lia. rewrite nth_error_app1 by lia. rewrite <- zget_some by lia. auto.
      * rewrite zget_some by lia. rewrite nth_error_app1 by lia. rewrite <- zget_some by lia. auto.
      * rewrite zget_some by lia. rewrite TL. rewrite nth_error_app2 by lia. rewrite Nat.sub_diag. reflexivity.
      * rewrite zget_some by lia. rewrite TL. rewrite <- LEN. rewrite nth_error_app2 by lia. rewrite Nat.sub_diag. reflexivity.
      * intros i Hi. destruct (Z.eq_dec i (tailNodeIndex q + 1)).
        -- subst i. exists (length (heap q)). rewrite zget_some by lia. rewrite TL.
           rewrite nth_error_app2 by lia. rewrite Nat.sub_diag. reflexivity.
        -- destruct (I_alloc0 i ltac:(lia)) as [id Hid]. exists id.
           pose proof (zget_inv _ _ _ Hid) as (_ & Hn & Hl).
           rewrite zget_some by lia. rewrite nth_error_app1 by lia. auto.
      * apply Forall_app. split; auto. constructor; [|constructor]. unfold QUEUE_MAX_MALLOC_SIZE, POW30 in *. lia.
      * unfold hp. sq_simpl. rewrite OA by lia. fold (hp q).
        erewrite FA by reflexivity. rewrite firstn_app.
        replace (Z.to_nat (hp q) - length (flat q))%nat with O by lia. cbn. rewrite app_nil_r. auto.
    + erewrite FA by reflexivity. rewrite firstn_app.
      replace (Z.to_nat (tp q + 1) - length (flat q))%nat with O by lia. cbn. rewrite app_nil_r. auto.
    + unfold hp. sq_simpl. apply f_equal2; auto. apply OA. destruct I; lia.
    + unfold tp. sq_simpl. rewrite TN. rewrite OA by (destruct I; lia). unfold tp in TP1. lia.
  - (* the next node index exists *)
    assert (TL : (S (Z.to_nat (tailNodeIndex q)) < length (queues q))%nat) by (destruct I; lia).
    destruct (nth_error (queues q) (S (Z.to_nat (tailNodeIndex q)))) as [a|] eqn:EA; [|apply nth_error_None in EA; lia].
    destruct (nth_error (nodeQueueSizes q) (S (Z.to_nat (tailNodeIndex q)))) as [s|] eqn:ES; [|apply nth_error_None in ES; lia].
    unfold getq at 1. sq_simpl. rewrite zget_some by (destruct I; lia). rewrite TN, EA. sq_simpl.
    destruct a as [id|].
    + (* already allocated: reuse *)
      unfold getq, gets. sq_simpl. rewrite !zget_some by (destruct I; lia). rewrite TN, EA, ES. sq_simpl.
      pose proof (Forall2_nth_error _ _ _ _ _ _ (I_nodes q I) EA ES) as OK. simpl in OK.
      eexists. split; [reflexivity|].
      split; [|split; [|split]]; auto.
      * dI I. constructor; sq_simpl; auto; try lia.
        -- rewrite zget_some by lia. rewrite TN. auto.
        -- rewrite zget_some by lia. rewrite TN. auto.
        -- intros i Hi. destruct (Z.eq_dec i (tailNodeIndex q + 1)).
           ++ subst i. exists id. rewrite zget_some by lia. rewrite TN. auto.
           ++ apply I_alloc0. lia.
      * unfold tp. sq_simpl. rewrite TN. unfold tp in TP1. lia.
    + (* nil: allocate *)
      rewrite make_eq by (sq_simpl; lia). sq_simpl.
      set (g := next_size (queueSize q)) in *.
      unfold setq, sets. sq_simpl. repeat (rewrite zset_some by (destruct I; lia); sq_simpl). rewrite TN.
      unfold getq, gets. sq_simpl. rewrite !zget_some by (destruct I; lia). rewrite TN.
      rewrite !nth_error_upd_same by lia. sq_simpl.
      eexists. split; [reflexivity|].
      set (n1 := S (Z.to_nat (tailNodeIndex q))) in *.
      assert (VA : forall q2, heap q2 = heap q ++ [repeat None (Z.to_nat g)] -> queues q2 = upd (queues q) n1 (Some (length (heap q))) ->
                   firstn n1 (view q2) = firstn n1 (view q)).
      { intros q2 E1 E2. unfold view, arr. rewrite E1, E2. rewrite map_upd. rewrite firstn_upd_ge by lia.
        f_equal. apply view_ext_heap_app. intros i id Hi. eapply id_bound; eauto. apply (I_nodes q I). }
      assert (OA : forall i, (i <= n1)%nat -> off (upd (nodeQueueSizes q) n1 g) i = off (nodeQueueSizes q) i).
      { intros. apply off_upd_ge. auto. }
      assert (ON : Z.of_nat (offn (view q) n1) = tp q + 1). { rewrite view_offn by apply (I_nodes q I). exact TP1. }
      split; [|split; [|split]].
      * dI I. constructor; sq_simpl; auto; try lia.
        -- rewrite upd_length. auto.
        -- unfold nodes_ok. sq_simpl. apply Forall2_upd.
           ++ apply nodes_ok_heap_ext. exact I_nodes0.
           ++ unfold node_ok. rewrite app_length. cbn. split; [lia|]. rewrite nth_middle, repeat_length. lia.
        -- unfold nodup. sq_simpl. intros i j id Hi Hj.
           assert (KK : forall k, nth_error (upd (queues q) n1 (Some (length (heap q)))) k = Some (Some id) ->
                     (k <> n1 /\ nth_error (queues q) k = Some (Some id) /\ id < length (heap q))%nat
                     \/ (k = n1 /\ id = length (heap q))).
           { intros k Hk. rewrite nth_error_upd in Hk. destruct (Nat.eqb_spec k n1).
             - right. destruct (Nat.ltb_spec n1 (length (queues q))); [|discriminate]. injection Hk as <-. auto.
             - left. split; auto. split; auto. eapply (id_bound q); eauto. }
           destruct (KK i Hi) as [(A1 & A2 & A3)|(A1 & A2)]; destruct (KK j Hj) as [(B1 & B2 & B3)|(B1 & B2)]; try lia.
           eapply I_nodup0; eauto.
        -- rewrite upd_length. lia.
        -- rewrite zget_some by lia. rewrite nth_error_upd_other by lia. rewrite <- zget_some by lia. auto.
        -- rewrite zget_some by lia. rewrite nth_error_upd_other by lia. rewrite <- zget_some by lia. auto.
        -- rewrite zget_some by lia. rewrite TN. apply nth_error_upd_same. lia.
        -- rewrite zget_some by lia. rewrite TN. apply nth_error_upd_same. lia.
        -- intros i Hi. destruct (Z.eq_dec i (tailNodeIndex q + 1)).
           ++ subst i. exists (length (heap q)). rewrite zget_some by lia. rewrite TN. apply nth_error_upd_same. lia.
           ++ destruct (I_alloc0 i ltac:(lia)) as [id Hid]. exists id.
              rewrite zget_some in * by lia. rewrite nth_error_upd_other by lia. auto.
        -- apply Forall_upd; auto. unfold QUEUE_MAX_MALLOC_SIZE, POW30 in *. lia.
        -- unfold hp. sq_simpl. rewrite OA by lia. fold (hp q). unfold flat.
           rewrite (firstn_concat_agree _ (view q) n1).
           ++ exact I_clean0.
           ++ apply VA; reflexivity.
           ++ unfold offn. erewrite VA by reflexivity. fold (offn (view q) n1). lia.
      * unfold flat. apply (firstn_concat_agree _ (view q) n1).
        -- apply VA; reflexivity.
        -- unfold offn. erewrite VA by reflexivity. fold (offn (view q) n1). lia.
      * unfold hp. sq_simpl. apply f_equal2; auto. apply OA. destruct I; lia.
      * unfold tp. sq_simpl. rewrite TN. rewrite OA by lia. unfold tp in TP1. fold n1 in TP1. lia.
Qed.

(* ---------------- Push ---------------- *)
Lemma malloc_ignores_tqi q x : mallocQueue (set_tailQueueIndex q x) = mallocQueue q.
Proof. reflexivity. Qed.

(* writing a slot at or after the head cursor keeps the invariant *)
Lemma Inv_write q h' p v :
  Inv q -> hp q <= p ->
  (forall q2, heap q2 = h' -> queues q2 = queues q -> nodeQueueSizes q2 = nodeQueueSizes q -> nodes_ok q2) ->
  (forall q2, heap q2 = h' -> queues q2 = queues q -> flat q2 = upd (flat q) (Z.to_nat p) v) ->
  Inv (set_heap q h').
Proof.
  intros I Hp NO FL. destruct (Inv_pos q I) as (P0 & _). dI I. constructor; sq_simpl; auto.
  change (hp (set_heap q h')) with (hp q). rewrite FL by reflexivity. rewrite firstn_upd_ge by lia. auto.
Qed.

Lemma seg_write_snoc (l : list slot) a b v :
  0 <= a <= b -> b < Z.of_nat (length l) -> seg (upd l (Z.to_nat b) v) a (b + 1) = seg l a b ++ [v].
Proof.
  intros. rewrite (seg_snoc _ a b v); [|lia|apply nth_error_upd_same; lia].
  rewrite seg_upd_after by lia. reflexivity.
Qed.

Lemma Push_spec q v : Inv q ->
  exists q', Push q v = Ok q' /\ Inv q' /\ abs q' = abs q ++ [v] /\ room q' = room q.
Proof.
  intros I. destruct (Inv_pos q I) as (P0 & P1 & P2 & PE & Hhs & Hts & Hh & Ht).
  destruct (wr_node q _ _ _ (tailQueueIndex q) v (I_nodes q I) (I_nodup q I) Ht Hts (I_tqi q I)) as (h' & W & HL & NO & FL).
  fold (tp q) in FL.
  pose proof (Inv_write q h' (tp q) v I P1 NO FL) as Ia.
  unfold Push. rewrite W. sq_simpl.
  assert (ABS : seg (upd (flat q) (Z.to_nat (tp q)) v) (hp q) (tp q + 1) = abs q ++ [v]).
  { unfold abs. apply seg_write_snoc; lia. }
  destruct (Z.geb_spec (tailQueueIndex q + 1) (tailQueueSize q)) as [G|G].
  - rewrite malloc_ignores_tqi.
    destruct (malloc_spec (set_heap q h')) as (q' & M & I' & FA & HP & TP); auto.
    { sq_simpl. pose proof (I_tqi q I). lia. }
    exists q'. split; auto. split; auto. split.
    + unfold abs. rewrite HP, TP. change (hp (set_heap q h')) with (hp q). change (tp (set_heap q h')) with (tp q) in *.
      rewrite (seg_agree _ (flat (set_heap q h'))) by (auto; lia).
      rewrite FL by reflexivity. exact ABS.
    + unfold room. rewrite HP. reflexivity.
  - eexists. split; [reflexivity|].
    assert (TPE : tp (set_tailQueueIndex (set_heap q h') (tailQueueIndex q + 1)) = tp q + 1) by (unfold tp; sq_simpl; lia).
    split; [|split].
    + dI Ia. sq_simpl. constructor; sq_simpl; auto; try lia.
    + unfold abs. rewrite TPE. change (hp (set_tailQueueIndex (set_heap q h') (tailQueueIndex q + 1))) with (hp q).
      rewrite (flat_ext _ (set_heap q h')) by reflexivity. rewrite FL by reflexivity. exact ABS.
    + reflexivity.
Qed.

(* ---------------- Len ---------------- *)
Lemma len_loop q n : forall i acc, 0 <= i -> i + Z.of_nat n <= Z.of_nat (length (nodeQueueSizes q)) ->
  iter n len_body (q, i, acc) =
  Ok (q, i + Z.of_nat n, acc + off (nodeQueueSizes q) (Z.to_nat (i + Z.of_nat n)) - off (nodeQueueSizes q) (Z.to_nat i)).
Proof.
  induction n; intros i acc Hi Hn.
  - cbn [iter]. rewrite Z.add_0_r. f_equal. f_equal. lia.
  - cbn [iter]. unfold len_body at 1. unfold gets. rewrite zget_some by lia.
    destruct (nth_error (nodeQueueSizes q) (Z.to_nat i)) as [s|] eqn:E; [|apply nth_error_None in E; lia].
    cbn [lift]. rewrite bind_Ok. rewrite bind_Ok. rewrite IHn by lia.
    f_equal. f_equal; [f_equal; lia|].
    replace (Z.to_nat (i + 1)) with (S (Z.to_nat i)) by lia. rewrite (off_S _ _ _ E).
    replace (i + 1 + Z.of_nat n) with (i + Z.of_nat (S n)) by lia. lia.
Qed.

Lemma Len_spec q : Inv q -> Len q = Ok (Z.of_nat (length (abs q))).
Proof.
  intros I. rewrite (abs_length q I).
  destruct (Inv_pos q I) as (P0 & P1 & P2 & PE & Hhs & Hts & Hh & Ht).
  pose proof (nodes_ok_length q (I_nodes q I)) as LEN.
  unfold Len. destruct (Z.leb_spec (tailNodeIndex q) (headNodeIndex q)) as [L|L].
  - assert (E : headNodeIndex q = tailNodeIndex q) by (destruct I; lia). unfold tp, hp. rewrite E. f_equal. lia.
  - unfold gets at 1. rewrite (I_hqs q I). cbn [lift]. rewrite bind_Ok.
    rewrite (len_loop q) by (destruct I; lia).
    rewrite bind_Ok. f_equal. unfold tp, hp.
    replace (headNodeIndex q + 1 + Z.of_nat (Z.to_nat (tailNodeIndex q - (headNodeIndex q + 1)))) with (tailNodeIndex q) by lia.
    replace (Z.to_nat (headNodeIndex q + 1)) with (S (Z.to_nat (headNodeIndex q))) by (destruct I; lia).
    rewrite (off_S _ _ _ Hhs). lia.
Qed.

(* ---------------- Tail ---------------- *)
Lemma seg_last (l : list slot) a b x :
  0 <= a < b -> nth_error l (Z.to_nat (b - 1)) = Some x -> last (seg l a b) None = x.
Proof.
  intros H N. replace b with (b - 1 + 1) by lia. rewrite (seg_snoc _ a (b - 1) x) by (auto; lia).
  apply last_last.
Qed.

Lemma Tail_spec q : Inv q -> Tail q = Ok (last_slot (abs q)).
Proof.
  intros I. destruct (Inv_pos q I) as (P0 & P1 & P2 & PE & Hhs & Hts & Hh & Ht).
  unfold Tail. destruct (is_empty q) eqn:E.
  - unfold abs. rewrite seg_empty by lia. reflexivity.
  - assert (LT : hp q < tp q) by exact PE. unfold last_slot, abs.
    destruct (Z.eqb_spec (tailQueueIndex q) 0) as [Z0|Z0].
    + assert (TN : headNodeIndex q < tailNodeIndex q).
      { destruct (Z.eq_dec (headNodeIndex q) (tailNodeIndex q)) as [X|X]; [|destruct I; lia].
        exfalso. unfold hp, tp in LT. rewrite X in LT. pose proof (I_hqi q I). lia. }
      destruct (Z.eqb_spec (tailNodeIndex q) 0); [destruct I; lia|].
      destruct (Inv_node q (tailNodeIndex q - 1) I ltac:(destruct I; lia)) as (id & s & Q1 & S1 & S2).
      rewrite (getq_ok _ _ _ Q1), bind_Ok, (gets_ok _ _ _ S1), bind_Ok.
      apply zget_inv in Q1, S1. destruct Q1 as (_ & Q1 & _), S1 as (_ & S1 & _).
      destruct (rd_node q _ _ _ (s - 1) (I_nodes q I) Q1 S1 ltac:(lia)) as (x & R & N).
      rewrite R. f_equal. symmetry. apply seg_last; [lia|].
      rewrite <- N. f_equal. f_equal. unfold tp. rewrite Z0.
      replace (Z.to_nat (tailNodeIndex q)) with (S (Z.to_nat (tailNodeIndex q - 1))) by (destruct I; lia).
      rewrite (off_S _ _ _ S1). lia.
    + destruct (rd_node q _ _ _ (tailQueueIndex q - 1) (I_nodes q I) Ht Hts ltac:(pose proof (I_tqi q I); lia)) as (x & R & N).
      rewrite R. f_equal. symmetry. apply seg_last; [lia|]. rewrite <- N. f_equal. unfold tp. lia.
Qed.

(* ---------------- PopRight ---------------- *)
(* second half of PopRight: read and nil the slot under the (already moved) tail cursor *)
Lemma clear_tail_slot q : Inv q ->
  exists x h', rd q (tailQueue q) (tailQueueIndex q) = Ok x /\ wr q (tailQueue q) (tailQueueIndex q) None = Ok (set_heap q h') /\
    nth_error (flat q) (Z.to_nat (tp q)) = Some x /\ Inv (set_heap q h') /\
    flat (set_heap q h') = upd (flat q) (Z.to_nat (tp q)) None.
Proof.
  intros I. destruct (Inv_pos q I) as (P0 & P1 & P2 & PE & Hhs & Hts & Hh & Ht).
  destruct (rd_node q _ _ _ (tailQueueIndex q) (I_nodes q I) Ht Hts (I_tqi q I)) as (x & R & N).
  destruct (wr_node q _ _ _ (tailQueueIndex q) None (I_nodes q I) (I_nodup q I) Ht Hts (I_tqi q I)) as (h' & W & HL & NO & FL).
  fold (tp q) in N, FL. exists x, h'. split; [exact R|]. split; [exact W|]. split; [exact N|].
  split; [eapply Inv_write; eauto | apply FL; reflexivity].
Qed.

Lemma PopRight_spec q : Inv q ->
  exists q', PopRight q = Ok (q', last_slot (abs q)) /\ Inv q' /\ abs q' = removelast (abs q) /\ room q' = room q.
Proof.
  intros I. destruct (Inv_pos q I) as (P0 & P1 & P2 & PE & Hhs & Hts & Hh & Ht).
  unfold PopRight. destruct (is_empty q) eqn:E.
  - exists q. unfold abs, room. rewrite seg_empty by lia. cbn. split; [reflexivity|]. split; [exact I|]. split; reflexivity.
  - assert (LT : hp q < tp q) by exact PE.
    assert (FIN : forall q1, Inv q1 -> flat q1 = flat q -> hp q1 = hp q -> tp q1 = tp q - 1 ->
              exists q', (v <- rd q1 (tailQueue q1) (tailQueueIndex q1);; q0 <- wr q1 (tailQueue q1) (tailQueueIndex q1) None;; Ok (q0, v))
                         = Ok (q', last_slot (abs q)) /\ Inv q' /\ abs q' = removelast (abs q) /\ room q' = room q).
    { intros q1 I1 F1 HP1 TP1. destruct (clear_tail_slot q1 I1) as (x & h' & R & W & N & I' & FL).
      rewrite R, bind_Ok, W, bind_Ok. rewrite TP1, F1 in *.
      assert (ABS : abs q = seg (flat q) (hp q) (tp q - 1) ++ [x]).
      { unfold abs. replace (tp q) with (tp q - 1 + 1) at 1 by lia. apply seg_snoc; auto. lia. }
      eexists. split; [unfold last_slot; rewrite ABS, last_last; reflexivity|].
      split; auto. split.
      - rewrite ABS, removelast_last. unfold abs. change (hp (set_heap q1 h')) with (hp q1). change (tp (set_heap q1 h')) with (tp q1).
        rewrite HP1, TP1, FL. apply seg_upd_after; lia.
      - unfold room. change (hp (set_heap q1 h')) with (hp q1). exact HP1. }
    sq_simpl. destruct (Z.ltb_spec (tailQueueIndex q - 1) 0) as [L|L].
    + assert (TN : headNodeIndex q < tailNodeIndex q).
      { destruct (Z.eq_dec (headNodeIndex q) (tailNodeIndex q)) as [X|X]; [|destruct I; lia].
        exfalso. unfold hp, tp in LT. rewrite X in LT. pose proof (I_hqi q I). lia. }
      destruct (Inv_node q (tailNodeIndex q - 1) I ltac:(destruct I; lia)) as (id & s & Q1 & S1 & S2).
      unfold gets at 1. sq_simpl. rewrite S1. sq_simpl. unfold getq at 1. sq_simpl. rewrite Q1. sq_simpl.
      unfold gets at 1. sq_simpl. rewrite S1. sq_simpl.
      pose proof (zget_inv _ _ _ S1) as (_ & S1' & _).
      assert (TPE : off (nodeQueueSizes q) (Z.to_nat (tailNodeIndex q - 1)) + (s - 1) = tp q - 1).
      { unfold tp. replace (Z.to_nat (tailNodeIndex q)) with (S (Z.to_nat (tailNodeIndex q - 1))) by (destruct I; lia).
        rewrite (off_S _ _ _ S1'). pose proof (I_tqi q I). lia. }
      apply FIN; try reflexivity.
      * dI I. constructor; sq_simpl; auto; try lia.
        -- intros X. unfold hp, tp in LT, TPE. rewrite X in LT. lia.
        -- intros i Hi. apply I_alloc0. lia.
      * unfold tp. sq_simpl. exact TPE.
    + apply FIN; try reflexivity.
      * dI I. constructor; sq_simpl; auto; try lia.
        intros X. unfold hp, tp in LT. rewrite X in LT. lia.
      * unfold tp. sq_simpl. lia.
Qed.

(* ---------------- PushLeft ---------------- *)
Lemma room_zero q : Inv q -> ((headNodeIndex q <=? 0) && (headQueueIndex q <=? 0) = true <-> room q = 0).
Proof.
  intros I. destruct (Inv_pos q I) as (P0 & P1 & P2 & PE & Hhs & Hts & Hh & Ht).
  pose proof (sizes_nonneg q (I_nodes q I)) as NN. unfold room, hp in *.
  destruct (Z.leb_spec (headNodeIndex q) 0); destruct (Z.leb_spec (headQueueIndex q) 0); cbn; split; intros; try discriminate; auto.
  - assert (headNodeIndex q = 0) by (destruct I; lia). rewrite H2. cbn. pose proof (I_hqi q I). lia.
  - exfalso. assert (headNodeIndex q = 0) by (destruct I; lia). rewrite H2 in *. cbn in H1. lia.
  - exfalso. destruct (Inv_node q 0 I ltac:(destruct I; lia)) as (id & s & Q1 & S1 & S2).
    apply zget_inv in S1. destruct S1 as (_ & S1 & _). change (Z.to_nat 0) with O in S1.
    pose proof (off_S _ _ _ S1). rewrite off_0 in H2.
    pose proof (off_mono (nodeQueueSizes q) 1 (Z.to_nat (headNodeIndex q)) NN ltac:(lia)). pose proof (I_hqi q I). lia.
  - exfalso. pose proof (off_nonneg _ (Z.to_nat (headNodeIndex q)) NN). lia.
Qed.

Lemma PushLeft_spec q v : Inv q ->
  exists q' b, PushLeft q v = Ok (q', b) /\ Inv q' /\
    (if b then 0 < room q /\ abs q' = v :: abs q /\ room q' = room q - 1 else room q = 0 /\ q' = q).
Proof.
  intros I. destruct (Inv_pos q I) as (P0 & P1 & P2 & PE & Hhs & Hts & Hh & Ht).
  pose proof (room_zero q I) as RZ.
  unfold PushLeft. destruct ((headNodeIndex q <=? 0) && (headQueueIndex q <=? 0)) eqn:E.
  - exists q, false. split; auto. split; auto. split; auto. apply RZ. auto.
  - assert (RP : 0 < room q). { unfold room in *. destruct (Z.eq_dec (hp q) 0) as [X|X]; [apply RZ in X; congruence|lia]. }
    unfold room in *.
    assert (FIN : forall q1, Inv q1 -> flat q1 = flat q -> hp q1 = hp q - 1 -> tp q1 = tp q ->
       exists q' b, (q0 <- wr q1 (headQueue q1) (headQueueIndex q1) v;; Ok (q0, true)) = Ok (q', b) /\ Inv q' /\
         (if b then 0 < hp q /\ abs q' = v :: abs q /\ hp q' = hp q - 1 else hp q = 0 /\ q' = q)).
    { intros q1 I1 F1 HP1 TP1.
      destruct (Inv_pos q1 I1) as (Q0 & Q1 & Q2 & QE & Hhs1 & Hts1 & Hh1 & Ht1).
      destruct (wr_node q1 _ _ _ (headQueueIndex q1) v (I_nodes q1 I1) (I_nodup q1 I1) Hh1 Hhs1 (I_hqi q1 I1)) as (h' & W & HL & NO & FL).
      fold (hp q1) in FL. rewrite W, bind_Ok. exists (set_heap q1 h'), true. split; auto.
      split; [apply (Inv_write q1 h' (hp q1) v I1 ltac:(lia) NO FL)|]. split; auto. split; [|exact HP1].
      unfold abs. change (hp (set_heap q1 h')) with (hp q1). change (tp (set_heap q1 h')) with (tp q1).
      rewrite FL by reflexivity. rewrite HP1, TP1, F1.
      rewrite (seg_cons _ (hp q - 1) (tp q) v) by (try apply nth_error_upd_same; lia).
      f_equal. replace (hp q - 1 + 1) with (hp q) by lia. apply seg_upd_before; lia. }
    sq_simpl. destruct (Z.ltb_spec (headQueueIndex q - 1) 0) as [L|L].
    + assert (HN : 0 < headNodeIndex q).
      { destruct (Z.eq_dec (headNodeIndex q) 0) as [X|X]; [|destruct I; lia]. exfalso.
        unfold hp in RP. rewrite X in RP. cbn in RP. pose proof (I_hqi q I). lia. }
      destruct (Inv_node q (headNodeIndex q - 1) I ltac:(destruct I; lia)) as (id & s & Q1 & S1 & S2).
      unfold gets at 1. sq_simpl. rewrite S1. sq_simpl. unfold getq at 1. sq_simpl. rewrite Q1. sq_simpl.
      unfold gets at 1. sq_simpl. rewrite S1. sq_simpl.
      pose proof (zget_inv _ _ _ S1) as (_ & S1' & _).
      assert (HPE : off (nodeQueueSizes q) (Z.to_nat (headNodeIndex q - 1)) + (s - 1) = hp q - 1).
      { unfold hp. replace (Z.to_nat (headNodeIndex q)) with (S (Z.to_nat (headNodeIndex q - 1))) by lia.
        rewrite (off_S _ _ _ S1'). pose proof (I_hqi q I). lia. }
      apply FIN; try reflexivity.
      * dI I. constructor; sq_simpl; auto; try lia.
        unfold hp. sq_simpl. rewrite HPE. eapply Forall_firstn_le; [|exact I_clean0]. lia.
      * unfold hp. sq_simpl. exact HPE.
    + apply FIN; try reflexivity.
      * dI I. constructor; sq_simpl; auto; try lia.
        unfold hp. sq_simpl. eapply Forall_firstn_le; [|exact I_clean0]. unfold hp. lia.
      * unfold hp. sq_simpl. lia.
Qed.
