(* Refinement theorems for LockManagerWaitQueue and LockManagerLockQueue (model: KeyQueues.v):
   tombstone compaction, fastQueue -> ring / priority ring / scale queue representation switches. *)
From Coq Require Import List ZArith NArith Bool Lia.
From Coq Require Import ZifyN ZifyBool ZifyNat.
From Slock Require Import Queue.SegQueue Queue.KeyQueues Queue.KeyQueuesProofs.
Import ListNotations.
Open Scope Z_scope.

(* ====================================================================================================== *)
(* compaction: what a Push may drop                                                                        *)
(* ====================================================================================================== *)
Definition dec_slot (st : store) (s : slot) : store := match s with Some i => dec_ref st i | None => st end.
(* kept by the compaction loop: non-nil and not tombstoned *)
Definition live (dead : lockrec -> bool) (st : store) (s : slot) : bool :=
  match s with Some i => negb (dead (st i)) | None => false end.
(* dropped with refCount--: non-nil and tombstoned  (nil slots are dropped silently) *)
Definition tomb (dead : lockrec -> bool) (st : store) (s : slot) : bool :=
  match s with Some i => dead (st i) | None => false end.

(* the tombstone predicate does not read refCount *)
Definition dead_stable (dead : lockrec -> bool) : Prop :=
  forall r n, dead (mkLock (l_prio r) (l_timeouted r) (l_ack r) (l_locked r) n) = dead r.

Lemma wait_dead_stable : dead_stable wait_dead.
Proof. intros r n. reflexivity. Qed.
Lemma lock_dead_stable : dead_stable lock_dead.
Proof. intros r n. reflexivity. Qed.

Lemma dead_dec dead st i j : dead_stable dead -> dead (dec_ref st i j) = dead (st j).
Proof.
  intros H. unfold dec_ref, st_set. destruct (N.eqb j i) eqn:E; auto.
  apply N.eqb_eq in E. subst. apply H.
Qed.

(* THEOREM (compaction): exactly the entries tombstoned at that moment are removed, the order of the others is
   preserved, and the store is the old one with one refCount-- per removed entry *)
Theorem compact_spec dead st l :
  dead_stable dead ->
  compact dead st l = (filter (live dead st) l, fold_left dec_slot (filter (tomb dead st) l) st).
Proof.
  intros Hd. revert st. induction l as [|[i|] r IH]; intros st; cbn [compact filter live tomb].
  - reflexivity.
  - destruct (dead (st i)) eqn:E; cbn [negb].
    + rewrite IH. cbn [fold_left dec_slot]. f_equal.
      * apply filter_ext. intros [j|]; cbn; auto. rewrite dead_dec; auto.
      * f_equal. apply filter_ext. intros [j|]; cbn; auto. rewrite dead_dec; auto.
    + rewrite IH. reflexivity.
  - apply IH.
Qed.

Fixpoint occ (i : N) (l : list slot) : nat :=
  match l with
  | [] => 0
  | Some j :: r => if N.eqb j i then S (occ i r) else occ i r
  | None :: r => occ i r
  end.

Definition dec8 (x : N) : N := ((x + 255) mod 256)%N.       (* uint8 x-- *)

Lemma iter_succ_r' {A} (n : nat) (f : A -> A) (x : A) : Nat.iter (S n) f x = Nat.iter n f (f x).
Proof. induction n as [|n IH]; [reflexivity|]. cbn in *. rewrite IH. reflexivity. Qed.

(* each dropped occurrence decrements that lock's refCount exactly once; nothing else changes *)
Theorem fold_dec_ref l st i :
  l_ref (fold_left dec_slot l st i) = Nat.iter (occ i l) dec8 (l_ref (st i)) /\
  l_prio (fold_left dec_slot l st i) = l_prio (st i) /\
  l_timeouted (fold_left dec_slot l st i) = l_timeouted (st i) /\
  l_ack (fold_left dec_slot l st i) = l_ack (st i) /\
  l_locked (fold_left dec_slot l st i) = l_locked (st i).
Proof.
  revert st. induction l as [|[j|] r IH]; intros st; cbn [fold_left occ dec_slot].
  - cbn. auto.
  - destruct (IH (dec_ref st j)) as (H1 & H2 & H3 & H4 & H5). rewrite H1, H2, H3, H4, H5.
    unfold dec_ref, st_set. rewrite (N.eqb_sym j i). destruct (N.eqb i j) eqn:E.
    + apply N.eqb_eq in E. subst j. cbn [l_ref l_prio l_timeouted l_ack l_locked].
      rewrite iter_succ_r'. auto.
    + auto.
  - apply IH.
Qed.

Corollary fold_dec_ref_nowrap l st i :
  (N.of_nat (occ i l) <= l_ref (st i) < 256)%N ->
  l_ref (fold_left dec_slot l st i) = (l_ref (st i) - N.of_nat (occ i l))%N.
Proof.
  destruct (fold_dec_ref l st i) as [-> _]. generalize (occ i l) (l_ref (st i)). clear.
  induction n as [|n IH]; intros x Hx.
  - cbn. lia.
  - rewrite iter_succ_r'. rewrite IH.
    + unfold dec8. assert ((x + 255) mod 256 = x - 1)%N; [|lia].
      replace (x + 255)%N with (x - 1 + 1 * 256)%N by lia. rewrite N.mod_add by lia. apply N.mod_small. lia.
    + unfold dec8. assert ((x + 255) mod 256 = x - 1)%N; [|lia].
      replace (x + 255)%N with (x - 1 + 1 * 256)%N by lia. rewrite N.mod_add by lia. apply N.mod_small. lia.
Qed.

(* ====================================================================================================== *)
(* the shared fastQueue                                                                                    *)
(* ====================================================================================================== *)
Definition fast_abs (f : option slice) (idx : Z) : list slot :=
  match f with
  | Some s => if 0 <=? idx then skipn (Z.to_nat idx) (s_data s) else []
  | None => []
  end.

Definition fast_inv (f : option slice) (idx : Z) : Prop :=
  match f with
  | Some s => 0 <= idx <= Z.of_nat (length (s_data s))
  | None => idx = 0
  end.

Lemma fast_push_spec dead initcap st f idx x :
  dead_stable dead -> fast_inv f idx ->
  match fast_push dead initcap st f idx x with
  | Ok (FDone f' idx' st') =>
    fast_inv (Some f') idx' /\
    ((fast_abs (Some f') idx' = fast_abs f idx ++ [x] /\ st' = st) \/
     (fast_abs (Some f') idx' = filter (live dead st) (fast_abs f idx) ++ [x] /\
      st' = fold_left dec_slot (filter (tomb dead st) (fast_abs f idx)) st))
  | Ok (FFull st') =>
    f <> None /\ filter (live dead st) (fast_abs f idx) = fast_abs f idx /\
    st' = fold_left dec_slot (filter (tomb dead st) (fast_abs f idx)) st
  | _ => False
  end.
Proof.
  intros Hd Hinv. unfold fast_push. destruct f as [s|]; cbn [fast_inv fast_abs] in *.
  - assert (E0 : (0 <=? idx) = true) by lia. rewrite E0.
    destruct (length (s_data s) <? s_cap s)%nat eqn:E1.
    { cbn [fast_inv fast_abs s_append s_data]. rewrite E0, app_length. cbn [length]. split; [lia|]. left.
      split; auto. apply skipn_snoc. lia. }
    destruct (Z.of_nat (length (s_data s)) <=? idx) eqn:E2.
    { cbn [fast_inv fast_abs s_append s_data app length]. split; [lia|]. left. split; auto.
      cbn. rewrite skipn_all2 by lia. reflexivity. }
    destruct (idx <? 0) eqn:E3; [lia|].
    rewrite compact_spec by exact Hd.
    set (a := skipn (Z.to_nat idx) (s_data s)).
    assert (Hla : (length a <= length (s_data s))%nat) by (unfold a; rewrite skipn_length; lia).
    pose proof (filter_length_le' (live dead st) a) as Hlf.
    destruct (length (filter (live dead st) a) <? length (s_data s))%nat eqn:E4.
    { cbn [fast_inv fast_abs s_append s_data]. rewrite app_length. cbn [length]. split; [lia|]. right.
      split; auto. }
    apply Nat.ltb_ge in E4.
    assert (Hfa : filter (live dead st) a = a) by (apply filter_length_eq; lia).
    destruct (s_cap s <=? 128)%nat.
    { cbn [fast_inv fast_abs s_append s_data]. rewrite E0, app_length. cbn [length]. split; [lia|]. right.
      split; auto. rewrite Hfa. apply skipn_snoc. lia. }
    split; [discriminate|]. split; auto.
  - subst idx. cbn [fast_inv fast_abs s_append s_data app length]. split; [lia|]. left. split; auto.
Qed.

Lemma hd_app_nonempty {A} (d : A) (l r : list A) : l <> [] -> hd d (l ++ r) = hd d l.
Proof. destruct l; [congruence|reflexivity]. Qed.
Lemma tl_app_nonempty {A} (l r : list A) : l <> [] -> tl (l ++ r) = tl l ++ r.
Proof. destruct l; [congruence|reflexivity]. Qed.
Lemma skipn_nonempty {A} (l : list A) (i : nat) : (i < length l)%nat -> skipn i l <> [].
Proof.
  intros H E. assert (length (skipn i l) = 0%nat) by (rewrite E; reflexivity). rewrite skipn_length in H0. lia.
Qed.

Definition is_some (s : slot) : Prop := exists i, s = Some i.

(* ====================================================================================================== *)
(* LockManagerWaitQueue                                                                                    *)
(* ====================================================================================================== *)
Section Wait.
Variable pf : N -> N.

Definition anyring_abs (r : anyring) : list slot :=
  match r with RNone => [] | RPlain r => ring_abs r | RPrio p => pq_abs p end.

(* pop order: inline fastQueue first, then the (priority) ring *)
Definition wq_abs (q : wq) : list slot := fast_abs (w_fast q) (w_findex q) ++ anyring_abs (w_ring q).

Definition plain_mode (q : wq) : Prop := forall p, w_ring q <> RPrio p.

Definition wq_inv (q : wq) : Prop :=
  match w_ring q with
  | RNone => fast_inv (w_fast q) (w_findex q)
  | RPlain r => fast_inv (w_fast q) (w_findex q) /\ ring_inv r
  | RPrio p => w_findex q = -1 /\ pq_inv pf p
  end.

Lemma fast_abs_neg f : fast_abs f (-1) = [].
Proof. destruct f; reflexivity. Qed.

Theorem wq_new_abs b : wq_abs (wq_new b) = [] /\ wq_inv (wq_new b).
Proof.
  destruct b; cbn; split; auto. split; auto. apply pq_new_abs.
Qed.

(* THEOREM: Push in plain (FIFO) mode appends; the only other effect is the documented compaction *)
Theorem wq_push_plain st q x :
  wq_inv q -> plain_mode q ->
  exists q' st', wq_push st q x = Ok (q', st') /\ wq_inv q' /\ plain_mode q' /\
    ((wq_abs q' = wq_abs q ++ [x] /\ st' = st) \/
     (wq_abs q' = filter (live wait_dead st) (wq_abs q) ++ [x] /\
      st' = fold_left dec_slot (filter (tomb wait_dead st) (wq_abs q)) st)).
Proof.
  unfold wq_inv, plain_mode, wq_push, wq_abs. intros Hinv Hpl.
  destruct (w_ring q) as [|r|p] eqn:Er; [| |exfalso; eapply Hpl; reflexivity].
  - pose proof (fast_push_spec wait_dead 8%nat st (w_fast q) (w_findex q) x wait_dead_stable Hinv) as H.
    destruct (fast_push wait_dead 8 st (w_fast q) (w_findex q) x) as [[f' idx' st'|st']| |]; try contradiction.
    + destruct H as (Hi & H). cbn [bind]. eexists _, _. split; [reflexivity|]. cbn [w_ring w_fast w_findex anyring_abs].
      split; [exact Hi|]. split; [discriminate|]. rewrite !app_nil_r. exact H.
    + destruct H as (Hf & Hfa & Hst). cbn [bind]. eexists _, _. split; [reflexivity|].
      cbn [w_ring w_fast w_findex anyring_abs]. destruct (ring_new_abs 64) as [Ha Hi].
      destruct (ring_push_abs _ x Hi) as [Hb Hi']. split; [split; auto|]. split; [discriminate|].
      right. rewrite Hb, Ha, !app_nil_r, Hfa. split; auto.
  - destruct Hinv as [Hf Hr]. destruct (ring_push_abs r x Hr) as [Hb Hi'].
    eexists _, _. split; [reflexivity|]. cbn [w_ring w_fast w_findex anyring_abs].
    split; [split; auto|]. split; [discriminate|]. left. rewrite Hb, app_assoc. split; auto.
Qed.

(* THEOREM: Push in priority mode is the stable priority insertion (no compaction there) *)
Theorem wq_push_prio st q p i :
  (forall j, prio_of st j = pf j) -> wq_inv q -> w_ring q = RPrio p ->
  exists q', wq_push st q (Some i) = Ok (q', st) /\ wq_inv q' /\ (exists p', w_ring q' = RPrio p') /\
             wq_abs q' = spec_insert pf (Some i) (wq_abs q).
Proof.
  unfold wq_inv, wq_push, wq_abs. intros Hpf Hinv Er. rewrite Er in *. destruct Hinv as [Hidx Hp].
  destruct (pq_push_abs pf st p i Hpf Hp) as (p' & Hpush & Ha & Hi & _). rewrite Hpush. cbn [bind].
  eexists. split; [reflexivity|]. cbn [w_ring w_fast w_findex anyring_abs]. split; [split; auto|].
  split; [eexists; reflexivity|]. rewrite Hidx, fast_abs_neg. cbn [app]. exact Ha.
Qed.

Lemma fast_active_some q s i :
  wq_fast_active q = Some (s, i) ->
  w_fast q = Some s /\ 0 <= w_findex q < Z.of_nat (length (s_data s)) /\ i = Z.to_nat (w_findex q) /\
  fast_abs (w_fast q) (w_findex q) = skipn i (s_data s).
Proof.
  unfold wq_fast_active. destruct (w_fast q) as [s'|]; [|discriminate].
  destruct ((w_findex q <? Z.of_nat (length (s_data s'))) && (0 <=? w_findex q)) eqn:E; [|discriminate].
  intros [= <- <-]. cbn [fast_abs]. assert (E0 : (0 <=? w_findex q) = true) by lia. rewrite E0.
  repeat split; auto; lia.
Qed.

Lemma fast_active_none q : wq_fast_active q = None -> fast_abs (w_fast q) (w_findex q) = [].
Proof.
  unfold wq_fast_active, fast_abs. destruct (w_fast q) as [s'|]; auto.
  destruct ((w_findex q <? Z.of_nat (length (s_data s'))) && (0 <=? w_findex q)) eqn:E; [discriminate|].
  intros _. destruct (0 <=? w_findex q) eqn:E0; auto. apply skipn_all2. lia.
Qed.

Definition anyring_inv (r : anyring) : Prop :=
  match r with RNone => True | RPlain r => ring_inv r | RPrio p => pq_inv pf p end.

Definition same_kind (r r' : anyring) : Prop :=
  match r, r' with RNone, RNone | RPlain _, RPlain _ | RPrio _, RPrio _ => True | _, _ => False end.

Lemma anyring_pop_abs r :
  anyring_inv r ->
  snd (anyring_pop r) = hd None (anyring_abs r) /\ anyring_abs (fst (anyring_pop r)) = tl (anyring_abs r) /\
  anyring_inv (fst (anyring_pop r)) /\
  same_kind r (fst (anyring_pop r)).
Proof.
  destruct r as [|r|p]; cbn [anyring_inv anyring_pop anyring_abs].
  - cbn. auto.
  - intros H. destruct (ring_pop_abs r H) as (H1 & H2 & H3). destruct (ring_pop r). cbn in *. auto.
  - intros H. destruct (pq_pop_abs pf p H) as (H1 & H2 & H3). destruct (pq_pop p). cbn in *. auto.
Qed.

Lemma wq_inv_anyring q : wq_inv q -> anyring_inv (w_ring q).
Proof. unfold wq_inv. destruct (w_ring q); cbn; tauto. Qed.

(* THEOREM: Pop returns the first element of the abstract queue (nil when empty) and removes exactly it,
   in every representation (fastQueue only / fastQueue + ring / priority ring) *)
Theorem wq_pop_abs q :
  wq_inv q ->
  snd (wq_pop q) = hd None (wq_abs q) /\ wq_abs (fst (wq_pop q)) = tl (wq_abs q) /\ wq_inv (fst (wq_pop q)) /\
  (plain_mode q -> plain_mode (fst (wq_pop q))).
Proof.
  intros Hinv. unfold wq_pop, wq_abs. destruct (wq_fast_active q) as [[s i]|] eqn:E.
  - destruct (fast_active_some q s i E) as (Hf & Hidx & Hi & Ha). rewrite Ha.
    assert (Hlt : (i < length (s_data s))%nat) by lia.
    pose proof (skipn_nonempty (s_data s) i Hlt) as Hne.
    cbn [fst snd w_fast w_findex w_ring fast_abs]. rewrite hd_app_nonempty, tl_app_nonempty by exact Hne.
    assert (E0 : (0 <=? w_findex q + 1) = true) by lia. rewrite E0.
    replace (Z.to_nat (w_findex q + 1)) with (S i) by lia. cbn [s_data].
    split; [apply nth_hd_skipn|]. split; [rewrite skipn_S_upd; reflexivity|]. split.
    + unfold wq_inv in *. cbn [w_fast w_findex w_ring fast_inv s_data]. rewrite length_upd.
      destruct (w_ring q); [lia|split; [lia|tauto]|lia].
    + unfold plain_mode. cbn [w_ring]. auto.
  - rewrite (fast_active_none q E). cbn [app].
    destruct (anyring_pop_abs (w_ring q) (wq_inv_anyring q Hinv)) as (H1 & H2 & H3 & H4).
    destruct (anyring_pop (w_ring q)) as [r' v]. cbn [fst snd w_fast w_findex w_ring] in *.
    rewrite (fast_active_none q E). cbn [app]. repeat split; auto.
    + unfold wq_inv in *. cbn [w_fast w_findex w_ring]. destruct (w_ring q), r'; cbn [anyring_inv same_kind] in *; try contradiction; tauto.
    + unfold plain_mode. cbn [w_ring]. intros Hp p ->. destruct (w_ring q) eqn:Er; try contradiction.
      eapply Hp; reflexivity.
Qed.

Lemma anyring_head_abs r : anyring_inv r -> anyring_head r = hd None (anyring_abs r).
Proof.
  destruct r; cbn; auto; intros H; [apply ring_head_abs|apply (pq_head_abs pf); auto].
Qed.

Theorem wq_head_abs q : wq_inv q -> wq_head q = hd None (wq_abs q).
Proof.
  intros Hinv. unfold wq_head, wq_abs. destruct (wq_fast_active q) as [[s i]|] eqn:E.
  - destruct (fast_active_some q s i E) as (Hf & Hidx & Hi & Ha). rewrite Ha.
    rewrite hd_app_nonempty by (apply skipn_nonempty; lia). apply nth_hd_skipn.
  - rewrite (fast_active_none q E). cbn [app]. apply anyring_head_abs. apply wq_inv_anyring; auto.
Qed.

Lemma anyring_len_abs r : anyring_inv r -> anyring_len r = Z.of_nat (length (anyring_abs r)).
Proof.
  destruct r; cbn; auto; intros H; [apply ring_len_abs; auto|apply (pq_len_abs pf); auto].
Qed.

Theorem wq_len_abs q : wq_inv q -> wq_len q = Z.of_nat (length (wq_abs q)).
Proof.
  intros Hinv. pose proof (anyring_len_abs _ (wq_inv_anyring q Hinv)) as Hl.
  unfold wq_len, wq_abs, wq_inv in *. rewrite app_length.
  destruct (w_ring q) as [|r|p]; destruct (w_fast q) as [s|]; cbn [fast_abs fast_inv anyring_abs anyring_len length] in *.
  - destruct (w_findex q <? 0) eqn:E; [lia|]. assert (E0 : (0 <=? w_findex q) = true) by lia. rewrite E0.
    rewrite skipn_length. lia.
  - lia.
  - destruct Hinv as [Hf _]. destruct (w_findex q <? 0) eqn:E; [lia|].
    assert (E0 : (0 <=? w_findex q) = true) by lia. rewrite E0, skipn_length. cbn [anyring_len] in Hl. lia.
  - cbn [anyring_len] in Hl. lia.
  - destruct Hinv as [Hf _]. rewrite Hf. cbn. cbn [anyring_len] in Hl. lia.
  - cbn [anyring_len] in Hl. lia.
Qed.

Lemma anyring_iter_abs r : concat (anyring_iter r) = anyring_abs r.
Proof. destruct r; cbn; auto; [apply ring_iter_abs|apply pq_iter_abs]. Qed.

Theorem wq_iter_abs q : concat (wq_iter q) = wq_abs q.
Proof.
  unfold wq_iter, wq_abs. rewrite concat_app, anyring_iter_abs. f_equal.
  destruct (wq_fast_active q) as [[s i]|] eqn:E.
  - destruct (fast_active_some q s i E) as (Hf & Hidx & Hi & Ha). rewrite Ha. cbn. apply app_nil_r.
  - rewrite (fast_active_none q E). reflexivity.
Qed.

Theorem wq_reset_abs q : wq_abs (wq_reset q) = [] /\ wq_inv (wq_reset q) /\ plain_mode (wq_reset q).
Proof.
  unfold wq_reset, wq_abs, wq_inv, plain_mode. cbn [w_fast w_findex w_ring anyring_abs].
  destruct (w_fast q) as [s|]; [|cbn; repeat split; auto; discriminate].
  destruct (8 <? s_cap s)%nat; [cbn; repeat split; auto; discriminate|].
  destruct (0 <? length (s_data s))%nat eqn:E; cbn; repeat split; auto; try lia; try discriminate.
  apply Nat.ltb_ge in E. destruct (s_data s); [reflexivity|cbn in E; lia].
Qed.

(* ---- RePushPriorityRingQueue: plain mode -> priority mode = stable sort of the arrival order ---- *)
Definition spec_sort_from (acc l : list slot) : list slot := fold_left (fun a x => spec_insert pf x a) l acc.
Definition spec_sort (l : list slot) : list slot := spec_sort_from [] l.

Lemma pq_push_all_abs st p l :
  (forall j, prio_of st j = pf j) -> pq_inv pf p -> Forall is_some l ->
  exists p', pq_push_all st p l = Ok p' /\ pq_abs p' = spec_sort_from (pq_abs p) l /\ pq_inv pf p'.
Proof.
  intros Hpf Hp Hl. revert p Hp. induction Hl as [|x l [i ->] Hl IH]; intros p Hp; cbn [pq_push_all].
  - exists p. split; [reflexivity|]. split; [reflexivity|exact Hp].
  - destruct (pq_push_abs pf st p i Hpf Hp) as (p1 & Hpush & Ha & Hi & _). rewrite Hpush. cbn [bind].
    destruct (IH p1 Hi) as (p' & H1 & H2 & H3). exists p'. split; [exact H1|]. split; [|exact H3].
    rewrite H2, Ha. reflexivity.
Qed.

Lemma drain_plain_abs fuel st r p :
  (forall j, prio_of st j = pf j) -> ring_inv r -> Forall is_some (ring_abs r) ->
  (length (ring_abs r) < fuel)%nat -> pq_inv pf p ->
  exists p', drain fuel st (RPlain r) p = Ok p' /\ pq_abs p' = spec_sort_from (pq_abs p) (ring_abs r) /\ pq_inv pf p'.
Proof.
  intros Hpf. revert r p. induction fuel as [|fuel IH]; intros r p Hr Hall Hlen Hp; [lia|].
  cbn [drain anyring_pop]. destruct (ring_pop_abs r Hr) as (H1 & H2 & H3).
  destruct (ring_pop r) as [r' v]. cbn [fst snd] in *.
  destruct (ring_abs r) as [|s t] eqn:Ea.
  - cbn in H1. subst v. exists p. split; [reflexivity|]. split; [reflexivity|exact Hp].
  - cbn in H1, H2. subst v. apply Forall_cons_iff in Hall. destruct Hall as [[i ->] Ht]. cbn [hd].
    destruct (pq_push_abs pf st p i Hpf Hp) as (p1 & Hpush & Ha & Hi & _). rewrite Hpush. cbn [bind].
    destruct (IH r' p1 H3) as (p' & Hd & Hab & Hinv'); auto.
    + rewrite H2. exact Ht.
    + rewrite H2. cbn in Hlen. lia.
    + exists p'. split; [exact Hd|]. split; [|exact Hinv']. rewrite Hab, H2, Ha. reflexivity.
Qed.

(* THEOREM: RePushPriorityRingQueue turns a plain-mode queue (fastQueue [+ ring]) into the priority representation
   whose content is the stable priority sort of the old FIFO content; afterwards fastIndex = -1 *)
Theorem wq_repush_abs st q :
  (forall j, prio_of st j = pf j) -> wq_inv q -> plain_mode q -> Forall is_some (wq_abs q) ->
  exists q', wq_repush st q = Ok q' /\ wq_abs q' = spec_sort (wq_abs q) /\ wq_inv q' /\
             w_findex q' = -1 /\ exists p, w_ring q' = RPrio p.
Proof.
  intros Hpf Hinv Hpl Hall. unfold wq_repush.
  assert (Hidx : 0 <= w_findex q /\ fast_inv (w_fast q) (w_findex q)).
  { unfold wq_inv, plain_mode in *. destruct (w_ring q) eqn:Er; [| |exfalso; eapply Hpl; reflexivity];
      destruct (w_fast q); cbn [fast_inv] in *; lia || tauto || (destruct Hinv; split; [lia|auto]). }
  destruct Hidx as [Hidx Hfi]. assert (E0 : (w_findex q <? 0) = false) by lia. rewrite E0.
  unfold wq_abs in Hall. apply Forall_app in Hall. destruct Hall as [Hfa Hra].
  (* fast part *)
  assert (H1 : exists p1 f1,
             match wq_fast_active q with
             | Some (s, i) => p <- pq_push_all st (prq_new 16) (skipn i (s_data s)) ;; Ok (p, Some (mkSlice [] (s_cap s)))
             | None => Ok (prq_new 16, w_fast q)
             end = Ok (p1, f1) /\
             pq_abs p1 = spec_sort (fast_abs (w_fast q) (w_findex q)) /\ pq_inv pf p1).
  { destruct (wq_fast_active q) as [[s i]|] eqn:E.
    - destruct (fast_active_some q s i E) as (Hf & Hi & Hii & Ha). rewrite Ha in *.
      destruct (pq_push_all_abs st (prq_new 16) _ Hpf (proj2 (pq_new_abs pf 16)) Hfa) as (p1 & Hp1 & Hab & Hi1).
      rewrite Hp1. cbn [bind]. eexists _, _. split; [reflexivity|]. split; auto.
    - rewrite (fast_active_none q E). eexists _, _. split; [reflexivity|]. split; [reflexivity|apply pq_new_abs]. }
  destruct H1 as (p1 & f1 & -> & Hab1 & Hi1). cbn [bind].
  unfold wq_abs, spec_sort, spec_sort_from. rewrite fold_left_app. fold (spec_sort_from [] (fast_abs (w_fast q) (w_findex q))).
  fold (spec_sort (fast_abs (w_fast q) (w_findex q))). rewrite <- Hab1.
  unfold wq_inv, plain_mode in *.
  destruct (w_ring q) as [|r|p] eqn:Er; [| |exfalso; eapply Hpl; reflexivity].
  - cbn [bind anyring_abs fold_left]. eexists. split; [reflexivity|]. cbn [w_fast w_findex w_ring anyring_abs].
    rewrite fast_abs_neg. cbn [app].
    split; [reflexivity|]. split; [split; [reflexivity|exact Hi1]|]. split; [reflexivity|eexists; reflexivity].
  - destruct Hinv as [_ Hr]. cbn [anyring_abs anyring_len] in *.
    destruct (drain_plain_abs (S (Z.to_nat (ring_len r))) st r p1 Hpf Hr Hra) as (p2 & Hd & Hab2 & Hi2); auto.
    { rewrite (ring_len_abs r Hr). lia. }
    rewrite Hd. cbn [bind]. eexists. split; [reflexivity|]. cbn [w_fast w_findex w_ring anyring_abs].
    rewrite fast_abs_neg. cbn [app].
    split; [exact Hab2|]. split; [split; [reflexivity|exact Hi2]|]. split; [reflexivity|eexists; reflexivity].
Qed.

(* length is preserved by the stable sort: no waiter is lost or duplicated by the representation switch *)
Lemma spec_insert_length x l : length (spec_insert pf x l) = S (length l).
Proof. induction l as [|y r IH]; cbn; auto. destruct (sprio pf y <? sprio pf x)%N; cbn; auto. Qed.

Lemma spec_sort_from_length acc l : length (spec_sort_from acc l) = (length acc + length l)%nat.
Proof.
  unfold spec_sort_from. revert acc. induction l as [|x l IH]; intros acc; cbn [fold_left length]; [lia|].
  rewrite IH, spec_insert_length. lia.
Qed.

Lemma spec_sort_length l : length (spec_sort l) = length l.
Proof. unfold spec_sort. rewrite spec_sort_from_length. reflexivity. Qed.

(* THEOREM (mixed representation): when the wait queue consists of a non-empty inline part fastQueue[fastIndex:]
   FOLLOWED BY a plain ring (the inline array overflowed at its maximal capacity), RePushPriorityRingQueue yields the
   stable priority sort of "inline part ++ ring part": both parts are carried over, the ring part after the inline part,
   and the length is the sum of the two lengths. *)
Theorem wq_repush_mixed st q s r :
  (forall j, prio_of st j = pf j) -> wq_inv q ->
  w_fast q = Some s -> w_ring q = RPlain r -> 0 <= w_findex q < Z.of_nat (length (s_data s)) ->
  Forall is_some (skipn (Z.to_nat (w_findex q)) (s_data s)) -> Forall is_some (ring_abs r) ->
  exists q' p, wq_repush st q = Ok q' /\ w_ring q' = RPrio p /\ w_findex q' = -1 /\ wq_inv q' /\
    wq_abs q' = spec_sort (skipn (Z.to_nat (w_findex q)) (s_data s) ++ ring_abs r) /\
    wq_len q' = Z.of_nat (length (skipn (Z.to_nat (w_findex q)) (s_data s))) + Z.of_nat (length (ring_abs r)).
Proof.
  intros Hpf Hinv Ef Er Hidx Hfa Hra.
  assert (Eabs : wq_abs q = skipn (Z.to_nat (w_findex q)) (s_data s) ++ ring_abs r).
  { unfold wq_abs, fast_abs. rewrite Ef, Er. destruct (Z.leb_spec 0 (w_findex q)); [reflexivity|lia]. }
  assert (Hpl : plain_mode q). { unfold plain_mode. intros p. rewrite Er. discriminate. }
  destruct (wq_repush_abs st q Hpf Hinv Hpl) as (q' & E & A & I' & F' & p & R').
  { rewrite Eabs. apply Forall_app. split; assumption. }
  exists q', p. split; [exact E|]. split; [exact R'|]. split; [exact F'|]. split; [exact I'|].
  rewrite Eabs in A. split; [exact A|].
  rewrite (wq_len_abs q' I'), A, spec_sort_length, app_length. lia.
Qed.

End Wait.

(* ====================================================================================================== *)
(* LockManagerLockQueue (fastQueue, then LockManagerScaleLockQueue = a LockQueue of queue.go + a map)      *)
(* ====================================================================================================== *)
Section LockQueue.
(* The embedded segmented queue (Slock.Queue.SegQueue) is used through {new, Push, Pop, Head, Len, Resize} only.
   Interface assumed of it (Section hypotheses, to be instantiated by the SegQueue refinement proof; no axiom):
   an abstraction to a list and an invariant such that it behaves as a FIFO. *)
Variable sq_abs : sq -> list slot.
Variable sq_ok : sq -> Prop.
Hypothesis sq_new_ok : exists q0, SegQueue.new 1 8 256 = Ok q0 /\ sq_ok q0 /\ sq_abs q0 = [].
Hypothesis sq_push_ok : forall q x, sq_ok q ->
  exists q', SegQueue.Push q x = Ok q' /\ sq_ok q' /\ sq_abs q' = sq_abs q ++ [x].
Hypothesis sq_pop_ok : forall q, sq_ok q ->
  exists q', SegQueue.Pop q = Ok (q', hd None (sq_abs q)) /\ sq_ok q' /\ sq_abs q' = tl (sq_abs q).
Hypothesis sq_head_ok : forall q, sq_ok q -> SegQueue.Head q = Ok (hd None (sq_abs q)).
Hypothesis sq_len_ok : forall q, sq_ok q -> SegQueue.Len q = Ok (Z.of_nat (length (sq_abs q))).
Hypothesis sq_resize_ok : forall q, sq_ok q ->
  exists q', SegQueue.Resize q = Ok q' /\ sq_ok q' /\ sq_abs q' = sq_abs q.

Definition scale_abs (s : option scaleq) : list slot :=
  match s with Some sc => sq_abs (sc_q sc) | None => [] end.

(* pop order: inline fastQueue first, then the scale queue *)
Definition lq_abs (q : lq) : list slot := fast_abs (lq_fast q) (lq_findex q) ++ scale_abs (lq_scale q).

Definition lq_inv (q : lq) : Prop :=
  fast_inv (lq_fast q) (lq_findex q) /\
  match lq_scale q with Some sc => sq_ok (sc_q sc) | None => True end.

Theorem lq_new_abs : lq_abs lq_new = [] /\ lq_inv lq_new.
Proof. cbn. repeat split; auto. Qed.

(* THEOREM: Push of a non-nil lock appends (fastQueue, growth, switch to the scale queue, scale queue);
   the only other effect is the documented compaction of entries with locked == 0 *)
Theorem lq_push_abs st q i :
  lq_inv q ->
  exists q' st', lq_push st q (Some i) = Ok (q', st') /\ lq_inv q' /\
    ((lq_abs q' = lq_abs q ++ [Some i] /\ st' = st) \/
     (lq_abs q' = filter (live lock_dead st) (lq_abs q) ++ [Some i] /\
      st' = fold_left dec_slot (filter (tomb lock_dead st) (lq_abs q)) st)).
Proof.
  unfold lq_inv, lq_push, lq_abs. intros [Hf Hs].
  destruct (lq_scale q) as [sc|] eqn:Es.
  - destruct (sq_push_ok (sc_q sc) (Some i) Hs) as (q1 & Hp & Hok & Ha).
    unfold scale_push. rewrite Hp. cbn [bind]. eexists _, _. split; [reflexivity|].
    cbn [lq_fast lq_findex lq_scale scale_abs sc_q]. split; [split; auto|]. left. rewrite Ha, app_assoc. auto.
  - pose proof (fast_push_spec lock_dead 6%nat st (lq_fast q) (lq_findex q) (Some i) lock_dead_stable Hf) as H.
    destruct (fast_push lock_dead 6 st (lq_fast q) (lq_findex q) (Some i)) as [[f' idx' st'|st']| |]; try contradiction.
    + destruct H as (Hi & H). cbn [bind]. eexists _, _. split; [reflexivity|].
      cbn [lq_fast lq_findex lq_scale scale_abs]. split; [split; auto|]. rewrite !app_nil_r. exact H.
    + destruct H as (Hne & Hfa & Hst). cbn [bind].
      destruct sq_new_ok as (q0 & Hnew & Hok0 & Ha0). rewrite Hnew. cbn [bind].
      destruct (sq_push_ok q0 (Some i) Hok0) as (q1 & Hp & Hok & Ha).
      unfold scale_push. cbn [sc_q sc_maps]. rewrite Hp. cbn [bind]. eexists _, _. split; [reflexivity|].
      cbn [lq_fast lq_findex lq_scale scale_abs sc_q]. split; [split; auto|]. right.
      rewrite Ha, Ha0, !app_nil_r, Hfa. cbn [app]. auto.
Qed.

Lemma zget_in_range (l : list slot) (i : Z) :
  0 <= i < Z.of_nat (length l) -> zget l i = Some (nth (Z.to_nat i) l None).
Proof.
  intros H. unfold zget. assert (E : (i <? 0) = false) by lia. rewrite E. apply nth_error_nth'. lia.
Qed.

Lemma zset_in_range (l : list slot) (i : Z) v :
  0 <= i < Z.of_nat (length l) -> zset l i v = Some (upd l (Z.to_nat i) v).
Proof.
  intros H. unfold zset. assert (E : ((0 <=? i) && (i <? Z.of_nat (length l))) = true) by lia. rewrite E. reflexivity.
Qed.

Lemma lq_fast_active_some q s :
  lq_inv q -> lq_fast_active q = Some s ->
  lq_fast q = Some s /\ 0 <= lq_findex q < Z.of_nat (length (s_data s)) /\
  fast_abs (lq_fast q) (lq_findex q) = skipn (Z.to_nat (lq_findex q)) (s_data s).
Proof.
  unfold lq_inv, lq_fast_active. intros [Hf _]. destruct (lq_fast q) as [s'|]; [|discriminate].
  destruct (lq_findex q <? Z.of_nat (length (s_data s'))) eqn:E; [|discriminate]. intros [= <-].
  cbn [fast_inv fast_abs] in *. assert (E0 : (0 <=? lq_findex q) = true) by lia. rewrite E0.
  repeat split; auto; lia.
Qed.

Lemma lq_fast_active_none q : lq_inv q -> lq_fast_active q = None -> fast_abs (lq_fast q) (lq_findex q) = [].
Proof.
  unfold lq_inv, lq_fast_active, fast_abs. intros [Hf _]. destruct (lq_fast q) as [s'|]; auto.
  destruct (lq_findex q <? Z.of_nat (length (s_data s'))) eqn:E; [discriminate|].
  intros _. destruct (0 <=? lq_findex q); auto. apply skipn_all2. lia.
Qed.

(* THEOREM: Pop never panics, returns the oldest entry (nil when empty) and removes exactly it *)
Theorem lq_pop_abs q :
  lq_inv q ->
  exists q', lq_pop q = Ok (q', hd None (lq_abs q)) /\ lq_abs q' = tl (lq_abs q) /\ lq_inv q'.
Proof.
  intros Hinv. unfold lq_pop, lq_abs. destruct (lq_fast_active q) as [s|] eqn:E.
  - destruct (lq_fast_active_some q s Hinv E) as (Hf & Hidx & Ha). rewrite Ha.
    rewrite (zget_in_range _ _ Hidx), (zset_in_range _ _ None Hidx). cbn [lift bind].
    assert (Hne : skipn (Z.to_nat (lq_findex q)) (s_data s) <> []) by (apply skipn_nonempty; lia).
    rewrite hd_app_nonempty, tl_app_nonempty by exact Hne. rewrite nth_hd_skipn.
    eexists. split; [reflexivity|]. cbn [lq_fast lq_findex lq_scale fast_abs s_data].
    assert (E0 : (0 <=? lq_findex q + 1) = true) by lia. rewrite E0.
    replace (Z.to_nat (lq_findex q + 1)) with (S (Z.to_nat (lq_findex q))) by lia.
    rewrite skipn_S_upd. split; [reflexivity|]. unfold lq_inv in *. cbn [lq_fast lq_findex lq_scale fast_inv s_data].
    rewrite length_upd. split; [lia|tauto].
  - pose proof (lq_fast_active_none q Hinv E) as Hnil. rewrite Hnil. cbn [app]. destruct Hinv as [Hf Hs].
    destruct (lq_scale q) as [sc|] eqn:Es; cbn [scale_abs].
    + destruct (sq_pop_ok (sc_q sc) Hs) as (q1 & Hp & Hok & Ha). rewrite Hp. cbn [bind].
      eexists. split; [reflexivity|]. cbn [lq_fast lq_findex lq_scale scale_abs sc_q].
      rewrite Hnil. cbn [app]. split; [exact Ha|]. split; auto.
    + exists q. split; [reflexivity|]. rewrite Es, Hnil. cbn [scale_abs app tl]. split; [reflexivity|].
      split; [auto|rewrite Es; auto].
Qed.

Theorem lq_head_abs q : lq_inv q -> lq_head q = Ok (hd None (lq_abs q)).
Proof.
  intros Hinv. unfold lq_head, lq_abs. destruct (lq_fast_active q) as [s|] eqn:E.
  - destruct (lq_fast_active_some q s Hinv E) as (Hf & Hidx & Ha). rewrite Ha.
    rewrite (zget_in_range _ _ Hidx). cbn [lift].
    rewrite hd_app_nonempty by (apply skipn_nonempty; lia). rewrite nth_hd_skipn. reflexivity.
  - rewrite (lq_fast_active_none q Hinv E). cbn [app]. destruct Hinv as [Hf Hs].
    destruct (lq_scale q) as [sc|]; cbn [scale_abs]; [apply sq_head_ok; auto|reflexivity].
Qed.

Theorem lq_len_abs q : lq_inv q -> lq_len q = Ok (Z.of_nat (length (lq_abs q))).
Proof.
  unfold lq_inv, lq_len, lq_abs. intros [Hf Hs]. rewrite app_length.
  destruct (lq_scale q) as [sc|]; cbn [scale_abs].
  - rewrite (sq_len_ok _ Hs). cbn [bind]. destruct (lq_fast q) as [s|]; cbn [fast_abs fast_inv] in *.
    + assert (E0 : (0 <=? lq_findex q) = true) by lia. rewrite E0, skipn_length. f_equal. lia.
    + cbn. reflexivity.
  - destruct (lq_fast q) as [s|]; cbn [fast_abs fast_inv] in *.
    + assert (E0 : (0 <=? lq_findex q) = true) by lia. rewrite E0, skipn_length. f_equal. cbn. lia.
    + reflexivity.
Qed.

(* Reset on a queue that satisfies the invariant *)
Theorem lq_reset_abs q : lq_inv q -> lq_abs (lq_reset q) = [] /\ lq_inv (lq_reset q).
Proof.
  unfold lq_reset, lq_abs, lq_inv. intros [Hf _].
  destruct (lq_fast q) as [s|] eqn:Ef; cbn [lq_fast lq_findex lq_scale scale_abs fast_inv] in *.
  - destruct (6 <? s_cap s)%nat; [cbn; repeat split; auto|].
    destruct (0 <? length (s_data s))%nat eqn:E; cbn; repeat split; auto; try lia.
    apply Nat.ltb_ge in E. destruct (s_data s); [reflexivity|cbn in E; lia].
  - rewrite Hf. cbn. repeat split; auto.
Qed.

(* Resize (only run when scaleQueue.headNodeIndex >= 8) does not change the content *)
Theorem lq_resize_abs q :
  lq_inv q -> exists q', lq_resize q = Ok q' /\ lq_abs q' = lq_abs q /\ lq_inv q'.
Proof.
  unfold lq_resize, lq_abs, lq_inv. intros [Hf Hs].
  destruct (lq_scale q) as [sc|] eqn:Es.
  - destruct (8 <=? headNodeIndex (sc_q sc)).
    + destruct (sq_resize_ok _ Hs) as (q1 & Hr & Hok & Ha). rewrite Hr. cbn [bind].
      eexists. split; [reflexivity|]. cbn [lq_fast lq_findex lq_scale scale_abs sc_q]. rewrite Ha. auto.
    + exists q. rewrite Es. auto.
  - exists q. rewrite Es. auto.
Qed.

(* RemoveLock only touches the map *)
Theorem lq_removelock_abs q id : lq_abs (lq_removelock q id) = lq_abs q /\ (lq_inv q -> lq_inv (lq_removelock q id)).
Proof.
  unfold lq_removelock, lq_abs, lq_inv. destruct (lq_scale q) as [sc|] eqn:Es; cbn [lq_fast lq_findex lq_scale scale_abs sc_q].
  - split; auto.
  - rewrite Es. split; auto.
Qed.

(* GetLock returns the requested lock or nil; a locked lock with that id in the fastQueue part is found *)
Lemma getlock_scan_sound st l id v : getlock_scan st l id = Ok v -> v = None \/ v = Some id.
Proof.
  induction l as [|[j|] r IH]; cbn [getlock_scan]; [intros [= <-]; auto| |discriminate].
  destruct ((0 <? l_locked (st j))%N && (j =? id)%N) eqn:E; auto.
  intros [= <-]. right. f_equal. lia.
Qed.

Theorem lq_getlock_sound st q id v : lq_getlock st q id = Ok v -> v = None \/ v = Some id.
Proof.
  unfold lq_getlock.
  destruct (match lq_fast q with
            | Some s => if lq_findex q <? Z.of_nat (length (s_data s))
                        then if lq_findex q <? 0 then Panic
                             else getlock_scan st (skipn (Z.to_nat (lq_findex q)) (s_data s)) id
                        else Ok None
            | None => Ok None
            end) as [w| |] eqn:E; cbn [bind]; try discriminate.
  assert (Hw : w = None \/ w = Some id).
  { destruct (lq_fast q) as [s|]; [|injection E as <-; auto].
    destruct (lq_findex q <? Z.of_nat (length (s_data s))); [|injection E as <-; auto].
    destruct (lq_findex q <? 0); [discriminate|]. eapply getlock_scan_sound; eauto. }
  destruct w as [j|].
  - intros [= <-]. exact Hw.
  - destruct (lq_scale q) as [sc|]; intros [= <-]; auto. destruct (maps_mem (sc_maps sc) id); auto.
Qed.

End LockQueue.

(* ====================================================================================================== *)
(* A property that does NOT hold: "GetLock only returns locks that are still queued".                      *)
(* In the scale-queue representation GetLock answers from the map, which Pop does not maintain (only       *)
(* RemoveLock does).  Witness: 224 pushes (fastQueue full at cap 223 -> lock 224 goes to the scale queue), *)
(* 224 pops, then Len = 0 but GetLock(224) = lock 224.  Replayed on the Go code, see STATUS-keyqueues.md.  *)
(* ====================================================================================================== *)
Definition stale_ops : list kop :=
  map (fun i => KPush (Some (N.of_nat i)) 0%N) (seq 1 224) ++ repeat KPop 224 ++ [KLen; KGetLock 224%N].

Lemma lq_getlock_only_queued_refuted :
  exists ops obs, run_key TLock ops = (obs, EDone) /\
                  skipn 448 obs = [KInt 0; KVal (Some 224%N)].
Proof. exists stale_ops. eexists. split; [vm_compute; reflexivity|]. vm_compute. reflexivity. Qed.
