(* List / index lemmas used by the queue proofs. *)
From Coq Require Import List ZArith Bool Lia.
From Slock Require Import Queue.SegQueue.
Import ListNotations.
Open Scope Z_scope.

Lemma upd_length {A} (l : list A) n v : length (upd l n v) = length l.
Proof. revert n; induction l; destruct n; simpl; auto. Qed.

Lemma nth_error_upd {A} (l : list A) n v i :
  nth_error (upd l n v) i = if Nat.eqb i n then (if Nat.ltb n (length l) then Some v else None) else nth_error l i.
Proof.
  revert n i; induction l; intros n i; simpl.
  - destruct n, i; simpl; auto. destruct (Nat.eqb i n); auto.
  - destruct n, i; simpl; auto. rewrite IHl. destruct (Nat.eqb i n); auto.
Qed.

Lemma nth_error_upd_same {A} (l : list A) n v : (n < length l)%nat -> nth_error (upd l n v) n = Some v.
Proof. intros. rewrite nth_error_upd, Nat.eqb_refl. destruct (Nat.ltb_spec n (length l)); auto; lia. Qed.

Lemma nth_error_upd_other {A} (l : list A) n v i : i <> n -> nth_error (upd l n v) i = nth_error l i.
Proof. intros. rewrite nth_error_upd. destruct (Nat.eqb_spec i n); auto; congruence. Qed.

Lemma nth_upd_same {A} (l : list A) n v d : (n < length l)%nat -> nth n (upd l n v) d = v.
Proof. intros. apply nth_error_nth. apply nth_error_upd_same; auto. Qed.

Lemma nth_upd_other {A} (l : list A) n v i d : i <> n -> nth i (upd l n v) d = nth i l d.
Proof.
  revert n i; induction l; intros n i H; destruct n, i; simpl; auto; try congruence.
Qed.

Lemma upd_ge {A} (l : list A) n v : (length l <= n)%nat -> upd l n v = l.
Proof. revert n; induction l; destruct n; simpl; intros; auto; try lia. f_equal. apply IHl. lia. Qed.

Lemma upd_app_l {A} (l r : list A) n v : (n < length l)%nat -> upd (l ++ r) n v = upd l n v ++ r.
Proof. revert n; induction l; destruct n; simpl; intros; auto; try lia. f_equal. apply IHl. lia. Qed.

Lemma upd_app_r {A} (l r : list A) n v : (length l <= n)%nat -> upd (l ++ r) n v = l ++ upd r (n - length l) v.
Proof.
  revert n; induction l; simpl; intros.
  - f_equal. lia.
  - destruct n; [lia|]. simpl. f_equal. apply IHl. lia.
Qed.

Lemma firstn_upd_ge {A} (l : list A) n v k : (k <= n)%nat -> firstn k (upd l n v) = firstn k l.
Proof.
  revert n k; induction l; destruct n, k; simpl; intros; auto; try lia. f_equal. apply IHl. lia.
Qed.

Lemma skipn_upd_lt {A} (l : list A) n v k : (n < k)%nat -> skipn k (upd l n v) = skipn k l.
Proof.
  revert n k; induction l; destruct n, k; simpl; intros; auto; try lia. apply IHl. lia.
Qed.

Lemma map_upd {A B} (f : A -> B) l n v : map f (upd l n v) = upd (map f l) n (f v).
Proof. revert n; induction l; destruct n; simpl; auto. f_equal. auto. Qed.

Lemma upd_nth_error_id {A} (l : list A) n v : nth_error l n = Some v -> upd l n v = l.
Proof. revert n; induction l; destruct n; simpl; intros; try congruence. f_equal; auto. Qed.

(* zget / zset *)
Lemma zget_some {A} (l : list A) i : 0 <= i -> zget l i = nth_error l (Z.to_nat i).
Proof. unfold zget. intros. destruct (Z.ltb_spec i 0); auto; lia. Qed.

Lemma zget_of_nat {A} (l : list A) n : zget l (Z.of_nat n) = nth_error l n.
Proof. rewrite zget_some by lia. rewrite Nat2Z.id. auto. Qed.

Lemma zset_some {A} (l : list A) i v :
  0 <= i < Z.of_nat (length l) -> zset l i v = Some (upd l (Z.to_nat i) v).
Proof.
  unfold zset. intros. destruct (Z.leb_spec 0 i); try lia. destruct (Z.ltb_spec i (Z.of_nat (length l))); try lia. auto.
Qed.

(* sums of sizes *)
Definition sumz (l : list Z) : Z := fold_right Z.add 0 l.
Definition off (sz : list Z) (j : nat) : Z := sumz (firstn j sz).

Lemma sumz_app a b : sumz (a ++ b) = sumz a + sumz b.
Proof. induction a; simpl; auto. rewrite IHa. lia. Qed.

Lemma off_0 sz : off sz 0 = 0. Proof. reflexivity. Qed.

Lemma off_S sz j s : nth_error sz j = Some s -> off sz (S j) = off sz j + s.
Proof.
  unfold off. revert j. induction sz; intros j H; destruct j; simpl in *; try congruence.
  - inversion H; subst. lia.
  - rewrite (IHsz j H). lia.
Qed.

Lemma off_nonneg sz j : Forall (fun s => 0 <= s) sz -> 0 <= off sz j.
Proof.
  unfold off. intros H. revert j. induction H; intros j; destruct j; simpl; try lia. specialize (IHForall j). lia.
Qed.

Lemma off_mono sz i j : Forall (fun s => 0 <= s) sz -> (i <= j)%nat -> off sz i <= off sz j.
Proof.
  unfold off. intros H. revert i j. induction H; intros i j Hij; destruct i, j; simpl; try lia.
  - pose proof (off_nonneg l j H0). unfold off in *. lia.
  - specialize (IHForall i j). lia.
Qed.

Lemma off_upd_ge sz n v j : (j <= n)%nat -> off (upd sz n v) j = off sz j.
Proof. unfold off. intros. rewrite firstn_upd_ge; auto. Qed.

Lemma off_app_l sz r j : (j <= length sz)%nat -> off (sz ++ r) j = off sz j.
Proof. unfold off. intros. rewrite firstn_app. replace (j - length sz)%nat with O by lia. simpl. rewrite app_nil_r. auto. Qed.

(* segments *)
Definition seg {A} (l : list A) (a b : Z) : list A := firstn (Z.to_nat (b - a)) (skipn (Z.to_nat a) l).

Lemma seg_empty {A} (l : list A) a b : b <= a -> seg l a b = [].
Proof. unfold seg. intros. replace (Z.to_nat (b - a)) with O by lia. reflexivity. Qed.

Lemma seg_length {A} (l : list A) a b : 0 <= a <= b -> b <= Z.of_nat (length l) -> length (seg l a b) = Z.to_nat (b - a).
Proof. unfold seg. intros. rewrite firstn_length, skipn_length. lia. Qed.

Lemma skipn_nth_cons {A} (l : list A) n x : nth_error l n = Some x -> skipn n l = x :: skipn (S n) l.
Proof. revert n; induction l; destruct n; simpl; intros; try congruence. apply IHl; auto. Qed.

Lemma seg_cons {A} (l : list A) a b x :
  0 <= a < b -> nth_error l (Z.to_nat a) = Some x -> seg l a b = x :: seg l (a + 1) b.
Proof.
  unfold seg. intros. rewrite (skipn_nth_cons _ _ _ H0).
  replace (Z.to_nat (b - a)) with (S (Z.to_nat (b - (a + 1)))) by lia.
  replace (Z.to_nat (a + 1)) with (S (Z.to_nat a)) by lia. reflexivity.
Qed.

Lemma firstn_S_snoc {A} (l : list A) n x : nth_error l n = Some x -> firstn (S n) l = firstn n l ++ [x].
Proof.
  revert n; induction l; intros n H; destruct n; cbn [nth_error] in H; try congruence.
  - inversion H; subst. reflexivity.
  - change (a :: firstn (S n) l = a :: (firstn n l ++ [x])). f_equal. auto.
Qed.

Lemma nth_error_skipn {A} (l : list A) n i : nth_error (skipn n l) i = nth_error l (n + i).
Proof. revert n; induction l; destruct n; simpl; auto. destruct i; auto. Qed.

Lemma seg_snoc {A} (l : list A) a b x :
  0 <= a <= b -> nth_error l (Z.to_nat b) = Some x -> seg l a (b + 1) = seg l a b ++ [x].
Proof.
  unfold seg. intros. replace (Z.to_nat (b + 1 - a)) with (S (Z.to_nat (b - a))) by lia.
  apply firstn_S_snoc. rewrite nth_error_skipn. rewrite <- H0. f_equal. lia.
Qed.

Lemma seg_upd_before {A} (l : list A) a b p v : 0 <= a -> (p < Z.to_nat a)%nat -> seg (upd l p v) a b = seg l a b.
Proof. unfold seg. intros. rewrite skipn_upd_lt; auto. Qed.

Lemma skipn_upd_ge {A} (l : list A) n v k : (k <= n)%nat -> skipn k (upd l n v) = upd (skipn k l) (n - k) v.
Proof.
  revert n k; induction l; intros n k H; destruct k; simpl; auto.
  - rewrite Nat.sub_0_r. reflexivity.
  - destruct n; [lia|]. simpl. apply IHl. lia.
Qed.

Lemma seg_upd_after {A} (l : list A) a b p v : 0 <= a -> (Z.to_nat b <= p)%nat -> seg (upd l p v) a b = seg l a b.
Proof.
  unfold seg. intros. destruct (Z.le_gt_cases b a).
  - replace (Z.to_nat (b - a)) with O by lia. reflexivity.
  - rewrite skipn_upd_ge by lia. apply firstn_upd_ge. lia.
Qed.

Lemma seg_firstn {A} (l : list A) a b : 0 <= a -> seg l a b = seg (firstn (Z.to_nat b) l) a b.
Proof.
  unfold seg. intros. destruct (Z.le_gt_cases b a).
  - replace (Z.to_nat (b - a)) with O by lia. reflexivity.
  - rewrite skipn_firstn_comm. rewrite firstn_firstn.
    replace (Z.to_nat b - Z.to_nat a)%nat with (Z.to_nat (b - a)) by lia. rewrite Nat.min_id. reflexivity.
Qed.

Lemma seg_agree {A} (l l' : list A) a b : firstn (Z.to_nat b) l = firstn (Z.to_nat b) l' -> 0 <= a -> seg l a b = seg l' a b.
Proof. intros. rewrite (seg_firstn l), (seg_firstn l') by auto. rewrite H. reflexivity. Qed.

(* concat / node addressing *)
Definition offn {A} (v : list (list A)) (j : nat) : nat := length (concat (firstn j v)).

Lemma offn_S {A} (v : list (list A)) j n : nth_error v j = Some n -> offn v (S j) = (offn v j + length n)%nat.
Proof.
  unfold offn. revert j. induction v; intros j H; destruct j; simpl in *; try congruence.
  - inversion H; subst. rewrite app_nil_r. lia.
  - rewrite !app_length. rewrite (IHv j H). lia.
Qed.

Lemma concat_nth {A} (v : list (list A)) j n k :
  nth_error v j = Some n -> (k < length n)%nat -> nth_error (concat v) (offn v j + k) = nth_error n k.
Proof.
  unfold offn. revert j. induction v; intros j H Hk; destruct j; simpl in *; try congruence.
  - inversion H; subst. rewrite nth_error_app1; auto.
  - rewrite app_length. rewrite nth_error_app2 by lia.
    replace (length a + length (concat (firstn j v)) + k - length a)%nat with (length (concat (firstn j v)) + k)%nat by lia.
    apply IHv; auto.
Qed.

Lemma concat_upd {A} (v : list (list A)) j n k x :
  nth_error v j = Some n -> (k < length n)%nat ->
  concat (upd v j (upd n k x)) = upd (concat v) (offn v j + k) x.
Proof.
  unfold offn. revert j. induction v; intros j H Hk; destruct j; simpl in *; try congruence.
  - inversion H; subst. rewrite upd_app_l; auto.
  - rewrite app_length. rewrite upd_app_r by lia. f_equal.
    replace (length a + length (concat (firstn j v)) + k - length a)%nat with (length (concat (firstn j v)) + k)%nat by lia.
    apply IHv; auto.
Qed.

Lemma concat_firstn_app {A} (v : list (list A)) j : concat v = concat (firstn j v) ++ concat (skipn j v).
Proof. rewrite <- concat_app, firstn_skipn. reflexivity. Qed.

Lemma firstn_offn_concat {A} (v : list (list A)) j : firstn (offn v j) (concat v) = concat (firstn j v).
Proof.
  unfold offn. rewrite (concat_firstn_app v j) at 1. rewrite firstn_app, Nat.sub_diag. simpl. rewrite app_nil_r.
  apply firstn_all.
Qed.

(* lists that agree on their first j nodes agree on the first (offn j) slots *)
Lemma firstn_concat_agree {A} (v v' : list (list A)) j n :
  firstn j v = firstn j v' -> (n <= offn v j)%nat -> firstn n (concat v) = firstn n (concat v').
Proof.
  intros H Hn.
  assert (E : firstn (offn v j) (concat v) = firstn (offn v j) (concat v')).
  { rewrite firstn_offn_concat. unfold offn. rewrite H. fold (offn v' j). rewrite firstn_offn_concat. reflexivity. }
  replace n with (Nat.min n (offn v j)) by lia. rewrite <- !firstn_firstn. rewrite E. reflexivity.
Qed.

Lemma firstn_app_agree {A} (l r r' : list A) n : (n <= length l)%nat -> firstn n (l ++ r) = firstn n (l ++ r').
Proof. intros. rewrite !firstn_app. replace (n - length l)%nat with O by lia. reflexivity. Qed.

Lemma Forall_firstn_le {A} (P : A -> Prop) (l : list A) n m : (n <= m)%nat -> Forall P (firstn m l) -> Forall P (firstn n l).
Proof.
  revert n m. induction l; intros n m H F; destruct n, m; simpl in *; auto; try lia.
  inversion F; subst. constructor; auto. apply (IHl n m); auto. lia.
Qed.

Lemma Forall_firstn_S {A} (P : A -> Prop) (l : list A) n x :
  nth_error l n = Some x -> Forall P (firstn n l) -> P x -> Forall P (firstn (S n) l).
Proof. intros. rewrite (firstn_S_snoc _ _ _ H). apply Forall_app. split; auto. Qed.

Lemma nth_error_ext' {A} (l l' : list A) : (forall i, nth_error l i = nth_error l' i) -> l = l'.
Proof.
  revert l'. induction l; intros l' H; destruct l'; auto.
  - specialize (H O). simpl in H. congruence.
  - specialize (H O). simpl in H. congruence.
  - f_equal. + specialize (H O). simpl in H. congruence. + apply IHl. intros i. apply (H (S i)).
Qed.
