(* Executable model of the segmented array deque of /repo/server/queue.go
   (LockQueue / LockCommandQueue / LockManagerQueue: textually identical modulo type names,
   re-checked on every run by checks/C20.py) -- field for field.

   Go slices are references: headQueue/tailQueue alias node arrays held in queues[i].  The model keeps an
   explicit heap of arrays (append-only list, array id = position); a slice value is `option nat`
   (None = nil slice).  All slices of the code are full arrays (make(n,n)), so a reference is enough.
   Every slice index / slice expression is checked: out of range = Panic (never a default value).
   int32: fields are Z; the two multiplications of the code are wrapped explicitly (wrap32);
   increments/additions are not wrapped (assumption: fewer than 2^31 slots, see STATUS.md). *)
From Coq Require Import List ZArith Bool Lia.
Import ListNotations.
Open Scope Z_scope.

Inductive res (A : Type) : Type :=
| Ok (a : A)
| Panic          (* Go runtime panic: index/slice out of range, nil slice index, make with negative len *)
| OutOfFuel.     (* artefact of totalisation; proved unreachable under the invariant *)
Arguments Ok {A} a. Arguments Panic {A}. Arguments OutOfFuel {A}.

Definition bind {A B} (m : res A) (f : A -> res B) : res B :=
  match m with Ok a => f a | Panic => Panic | OutOfFuel => OutOfFuel end.
Notation "x <- m ;; f" := (bind m (fun x => f)) (at level 61, m at next level, right associativity).
Notation "' p <- m ;; f" := (bind m (fun x => match x with p => f end))
  (at level 61, p pattern, m at next level, right associativity).

Definition lift {A} (o : option A) : res A := match o with Some a => Ok a | None => Panic end.

(* ---------- checked list access with Z indices ---------- *)
Definition zget {A} (l : list A) (i : Z) : option A :=
  if i <? 0 then None else nth_error l (Z.to_nat i).

Fixpoint upd {A} (l : list A) (n : nat) (v : A) : list A :=
  match l, n with
  | [], _ => []
  | _ :: r, O => v :: r
  | x :: r, S n => x :: upd r n v
  end.

Definition zset {A} (l : list A) (i : Z) (v : A) : option (list A) :=
  if (0 <=? i) && (i <? Z.of_nat (length l)) then Some (upd l (Z.to_nat i) v) else None.

(* l[a:b] for a slice whose cap = len *)
Definition zslice {A} (l : list A) (a b : Z) : option (list A) :=
  if (0 <=? a) && (a <=? b) && (b <=? Z.of_nat (length l))
  then Some (firstn (Z.to_nat (b - a)) (skipn (Z.to_nat a) l)) else None.

(* ---------- int32 ---------- *)
Definition wrap32 (z : Z) : Z := (z + 2147483648) mod 4294967296 - 2147483648.
Definition QUEUE_MAX_MALLOC_SIZE : Z := 67108863. (* 0x3ffffff, server/config.go:5 *)
(* int32(uint32(1) << uint32(t)) *)
Definition shl1_32 (t : Z) : Z :=
  let s := t mod 4294967296 in
  if s <? 32 then wrap32 (2 ^ s) else 0.

(* ---------- state ---------- *)
Notation slot := (option N) (only parsing).   (* a pointer element; None = nil *)
Definition aref := option nat.        (* slice value: Some id = array #id of the heap; None = nil slice *)

Record sq : Type := mkSQ {
  heap : list (list slot);
  headQueueIndex : Z;
  headQueueSize : Z;
  headQueue : aref;
  tailQueueIndex : Z;
  tailQueueSize : Z;
  tailQueue : aref;
  headNodeIndex : Z;
  tailNodeIndex : Z;
  queues : list aref;
  nodeQueueSizes : list Z;
  baseNodeSize : Z;
  nodeIndex : Z;
  nodeSize : Z;
  shrinkNodeSize : Z;
  baseQueueSize : Z;
  queueSize : Z;
  rellacTailNodeIndex : Z
}.

(* setters *)
Definition set_heap q v := mkSQ v (headQueueIndex q) (headQueueSize q) (headQueue q) (tailQueueIndex q) (tailQueueSize q) (tailQueue q) (headNodeIndex q) (tailNodeIndex q) (queues q) (nodeQueueSizes q) (baseNodeSize q) (nodeIndex q) (nodeSize q) (shrinkNodeSize q) (baseQueueSize q) (queueSize q) (rellacTailNodeIndex q).
Definition set_headQueueIndex q v := mkSQ (heap q) v (headQueueSize q) (headQueue q) (tailQueueIndex q) (tailQueueSize q) (tailQueue q) (headNodeIndex q) (tailNodeIndex q) (queues q) (nodeQueueSizes q) (baseNodeSize q) (nodeIndex q) (nodeSize q) (shrinkNodeSize q) (baseQueueSize q) (queueSize q) (rellacTailNodeIndex q).
Definition set_headQueueSize q v := mkSQ (heap q) (headQueueIndex q) v (headQueue q) (tailQueueIndex q) (tailQueueSize q) (tailQueue q) (headNodeIndex q) (tailNodeIndex q) (queues q) (nodeQueueSizes q) (baseNodeSize q) (nodeIndex q) (nodeSize q) (shrinkNodeSize q) (baseQueueSize q) (queueSize q) (rellacTailNodeIndex q).
Definition set_headQueue q v := mkSQ (heap q) (headQueueIndex q) (headQueueSize q) v (tailQueueIndex q) (tailQueueSize q) (tailQueue q) (headNodeIndex q) (tailNodeIndex q) (queues q) (nodeQueueSizes q) (baseNodeSize q) (nodeIndex q) (nodeSize q) (shrinkNodeSize q) (baseQueueSize q) (queueSize q) (rellacTailNodeIndex q).
Definition set_tailQueueIndex q v := mkSQ (heap q) (headQueueIndex q) (headQueueSize q) (headQueue q) v (tailQueueSize q) (tailQueue q) (headNodeIndex q) (tailNodeIndex q) (queues q) (nodeQueueSizes q) (baseNodeSize q) (nodeIndex q) (nodeSize q) (shrinkNodeSize q) (baseQueueSize q) (queueSize q) (rellacTailNodeIndex q).
Definition set_tailQueueSize q v := mkSQ (heap q) (headQueueIndex q) (headQueueSize q) (headQueue q) (tailQueueIndex q) v (tailQueue q) (headNodeIndex q) (tailNodeIndex q) (queues q) (nodeQueueSizes q) (baseNodeSize q) (nodeIndex q) (nodeSize q) (shrinkNodeSize q) (baseQueueSize q) (queueSize q) (rellacTailNodeIndex q).
Definition set_tailQueue q v := mkSQ (heap q) (headQueueIndex q) (headQueueSize q) (headQueue q) (tailQueueIndex q) (tailQueueSize q) v (headNodeIndex q) (tailNodeIndex q) (queues q) (nodeQueueSizes q) (baseNodeSize q) (nodeIndex q) (nodeSize q) (shrinkNodeSize q) (baseQueueSize q) (queueSize q) (rellacTailNodeIndex q).
Definition set_headNodeIndex q v := mkSQ (heap q) (headQueueIndex q) (headQueueSize q) (headQueue q) (tailQueueIndex q) (tailQueueSize q) (tailQueue q) v (tailNodeIndex q) (queues q) (nodeQueueSizes q) (baseNodeSize q) (nodeIndex q) (nodeSize q) (shrinkNodeSize q) (baseQueueSize q) (queueSize q) (rellacTailNodeIndex q).
Definition set_tailNodeIndex q v := mkSQ (heap q) (headQueueIndex q) (headQueueSize q) (headQueue q) (tailQueueIndex q) (tailQueueSize q) (tailQueue q) (headNodeIndex q) v (queues q) (nodeQueueSizes q) (baseNodeSize q) (nodeIndex q) (nodeSize q) (shrinkNodeSize q) (baseQueueSize q) (queueSize q) (rellacTailNodeIndex q).
Definition set_queues q v := mkSQ (heap q) (headQueueIndex q) (headQueueSize q) (headQueue q) (tailQueueIndex q) (tailQueueSize q) (tailQueue q) (headNodeIndex q) (tailNodeIndex q) v (nodeQueueSizes q) (baseNodeSize q) (nodeIndex q) (nodeSize q) (shrinkNodeSize q) (baseQueueSize q) (queueSize q) (rellacTailNodeIndex q).
Definition set_nodeQueueSizes q v := mkSQ (heap q) (headQueueIndex q) (headQueueSize q) (headQueue q) (tailQueueIndex q) (tailQueueSize q) (tailQueue q) (headNodeIndex q) (tailNodeIndex q) (queues q) v (baseNodeSize q) (nodeIndex q) (nodeSize q) (shrinkNodeSize q) (baseQueueSize q) (queueSize q) (rellacTailNodeIndex q).
Definition set_nodeIndex q v := mkSQ (heap q) (headQueueIndex q) (headQueueSize q) (headQueue q) (tailQueueIndex q) (tailQueueSize q) (tailQueue q) (headNodeIndex q) (tailNodeIndex q) (queues q) (nodeQueueSizes q) (baseNodeSize q) v (nodeSize q) (shrinkNodeSize q) (baseQueueSize q) (queueSize q) (rellacTailNodeIndex q).
Definition set_nodeSize q v := mkSQ (heap q) (headQueueIndex q) (headQueueSize q) (headQueue q) (tailQueueIndex q) (tailQueueSize q) (tailQueue q) (headNodeIndex q) (tailNodeIndex q) (queues q) (nodeQueueSizes q) (baseNodeSize q) (nodeIndex q) v (shrinkNodeSize q) (baseQueueSize q) (queueSize q) (rellacTailNodeIndex q).
Definition set_shrinkNodeSize q v := mkSQ (heap q) (headQueueIndex q) (headQueueSize q) (headQueue q) (tailQueueIndex q) (tailQueueSize q) (tailQueue q) (headNodeIndex q) (tailNodeIndex q) (queues q) (nodeQueueSizes q) (baseNodeSize q) (nodeIndex q) (nodeSize q) v (baseQueueSize q) (queueSize q) (rellacTailNodeIndex q).
Definition set_queueSize q v := mkSQ (heap q) (headQueueIndex q) (headQueueSize q) (headQueue q) (tailQueueIndex q) (tailQueueSize q) (tailQueue q) (headNodeIndex q) (tailNodeIndex q) (queues q) (nodeQueueSizes q) (baseNodeSize q) (nodeIndex q) (nodeSize q) (shrinkNodeSize q) (baseQueueSize q) v (rellacTailNodeIndex q).
Definition set_rellacTailNodeIndex q v := mkSQ (heap q) (headQueueIndex q) (headQueueSize q) (headQueue q) (tailQueueIndex q) (tailQueueSize q) (tailQueue q) (headNodeIndex q) (tailNodeIndex q) (queues q) (nodeQueueSizes q) (baseNodeSize q) (nodeIndex q) (nodeSize q) (shrinkNodeSize q) (baseQueueSize q) (queueSize q) v.

(* ---------- heap primitives ---------- *)
(* make([]*T, n, n): panics when n < 0 *)
Definition make (q : sq) (n : Z) : res (sq * aref) :=
  if n <? 0 then Panic
  else Ok (set_heap q (heap q ++ [repeat (@None N) (Z.to_nat n)]), Some (length (heap q))).

Definition arr (q : sq) (a : aref) : list slot :=
  match a with None => [] | Some id => nth id (heap q) [] end.

(* a[i] *)
Definition rd (q : sq) (a : aref) (i : Z) : res slot := lift (zget (arr q a) i).

(* a[i] = v *)
Definition wr (q : sq) (a : aref) (i : Z) (v : slot) : res sq :=
  match a with
  | None => Panic
  | Some id =>
    match zset (arr q a) i v with
    | None => Panic
    | Some arr' => Ok (set_heap q (upd (heap q) id arr'))
    end
  end.

Definition getq (q : sq) (i : Z) : res aref := lift (zget (queues q) i).       (* self.queues[i] *)
Definition gets (q : sq) (i : Z) : res Z := lift (zget (nodeQueueSizes q) i).  (* self.nodeQueueSizes[i] *)
Definition setq (q : sq) (i : Z) (a : aref) : res sq :=
  l <- lift (zset (queues q) i a) ;; Ok (set_queues q l).
Definition sets (q : sq) (i : Z) (v : Z) : res sq :=
  l <- lift (zset (nodeQueueSizes q) i v) ;; Ok (set_nodeQueueSizes q l).

(* ---------- constructor: NewLockQueue(baseNodeSize, nodeSize, queueSize) ---------- *)
Definition new (base nodes size : Z) : res sq :=
  if nodes <? 1 then Panic           (* make with negative len / queues[0] out of range *)
  else if size <? 0 then Panic
  else
    let n := Z.to_nat nodes in
    Ok (mkSQ [repeat None (Z.to_nat size)]
             0 size (Some O) 0 size (Some O) 0 0
             (Some O :: repeat None (n - 1)) (size :: repeat 0 (n - 1))
             base 0 nodes 0 size size 0).

(* self.queueSize = self.queueSize * 2; if self.queueSize > QUEUE_MAX_MALLOC_SIZE { self.queueSize = QUEUE_MAX_MALLOC_SIZE } *)
Definition next_size (s : Z) : Z :=
  let s' := wrap32 (s * 2) in if s' >? QUEUE_MAX_MALLOC_SIZE then QUEUE_MAX_MALLOC_SIZE else s'.
Definition grow_queueSize (q : sq) : sq := set_queueSize q (next_size (queueSize q)).

Definition mallocQueue (q : sq) : res sq :=
  let q := set_tailNodeIndex q (tailNodeIndex q + 1) in
  let q := set_tailQueueIndex q 0 in
  q <- (if tailNodeIndex q >=? nodeSize q then
          let q := grow_queueSize q in
          '(q, a) <- make q (queueSize q) ;;
          let q := set_queues q (queues q ++ [a]) in
          let q := set_nodeQueueSizes q (nodeQueueSizes q ++ [queueSize q]) in
          let q := set_nodeIndex q (nodeIndex q + 1) in
          Ok (set_nodeSize q (nodeSize q + 1))
        else
          a <- getq q (tailNodeIndex q) ;;
          match a with
          | None =>
            let q := grow_queueSize q in
            '(q, a) <- make q (queueSize q) ;;
            q <- setq q (tailNodeIndex q) a ;;
            q <- sets q (tailNodeIndex q) (queueSize q) ;;
            Ok (set_nodeIndex q (nodeIndex q + 1))
          | Some _ => Ok q
          end) ;;
  a <- getq q (tailNodeIndex q) ;;
  s <- gets q (tailNodeIndex q) ;;
  Ok (set_tailQueueSize (set_tailQueue q a) s).

(* generic counted loop: exactly n iterations unless the body fails *)
Fixpoint iter {S} (n : nat) (body : S -> res S) (s : S) : res S :=
  match n with
  | O => Ok s
  | S n => s <- body s ;; iter n body s
  end.

(* one iteration of the `for self.nodeIndex > / >= bound` loops of freeQueue, Reset, Rellac *)
Definition free_top (setQueueSize : bool) (q : sq) : res sq :=
  q <- setq q (nodeIndex q) None ;;
  q <- sets q (nodeIndex q) 0 ;;
  let q := set_nodeIndex q (nodeIndex q - 1) in
  if setQueueSize then s <- gets q (nodeIndex q) ;; Ok (set_queueSize q s) else Ok q.

Definition freeQueue (q : sq) : res sq :=
  if nodeSize q <=? baseNodeSize q then Ok q
  else
    let t := tailNodeIndex q in
    let t := if t <? baseNodeSize q - 1 then baseNodeSize q - 1 else t in
    iter (Z.to_nat (nodeIndex q - t)) (free_top true) q.

Definition Push (q : sq) (v : slot) : res sq :=
  q <- wr q (tailQueue q) (tailQueueIndex q) v ;;
  let q := set_tailQueueIndex q (tailQueueIndex q + 1) in
  if tailQueueIndex q >=? tailQueueSize q then mallocQueue q else Ok q.

(* returns true when the push happened, false for errors.New("full") *)
Definition PushLeft (q : sq) (v : slot) : res (sq * bool) :=
  if (headNodeIndex q <=? 0) && (headQueueIndex q <=? 0) then Ok (q, false)
  else
    let q := set_headQueueIndex q (headQueueIndex q - 1) in
    q <- (if headQueueIndex q <? 0 then
            let q := set_headNodeIndex q (headNodeIndex q - 1) in
            s <- gets q (headNodeIndex q) ;;
            let q := set_headQueueIndex q (s - 1) in
            a <- getq q (headNodeIndex q) ;;
            let q := set_headQueue q a in
            s <- gets q (headNodeIndex q) ;;
            Ok (set_headQueueSize q s)
          else Ok q) ;;
    q <- wr q (headQueue q) (headQueueIndex q) v ;;
    Ok (q, true).

Definition is_empty (q : sq) : bool :=
  (tailQueueIndex q <=? headQueueIndex q) && (tailNodeIndex q <=? headNodeIndex q).

Definition Pop (q : sq) : res (sq * slot) :=
  if is_empty q then Ok (q, None)
  else
    v <- rd q (headQueue q) (headQueueIndex q) ;;
    q <- wr q (headQueue q) (headQueueIndex q) None ;;
    let q := set_headQueueIndex q (headQueueIndex q + 1) in
    q <- (if headQueueIndex q >=? headQueueSize q then
            let q := set_headNodeIndex q (headNodeIndex q + 1) in
            let q := set_headQueueIndex q 0 in
            a <- getq q (headNodeIndex q) ;;
            let q := set_headQueue q a in
            s <- gets q (headNodeIndex q) ;;
            Ok (set_headQueueSize q s)
          else Ok q) ;;
    Ok (q, v).

Definition PopRight (q : sq) : res (sq * slot) :=
  if is_empty q then Ok (q, None)
  else
    let q := set_tailQueueIndex q (tailQueueIndex q - 1) in
    q <- (if tailQueueIndex q <? 0 then
            let q := set_tailNodeIndex q (tailNodeIndex q - 1) in
            s <- gets q (tailNodeIndex q) ;;
            let q := set_tailQueueIndex q (s - 1) in
            a <- getq q (tailNodeIndex q) ;;
            let q := set_tailQueue q a in
            s <- gets q (tailNodeIndex q) ;;
            Ok (set_tailQueueSize q s)
          else Ok q) ;;
    v <- rd q (tailQueue q) (tailQueueIndex q) ;;
    q <- wr q (tailQueue q) (tailQueueIndex q) None ;;
    Ok (q, v).

Definition Head (q : sq) : res slot :=
  if is_empty q then Ok None else rd q (headQueue q) (headQueueIndex q).

Definition Tail (q : sq) : res slot :=
  if is_empty q then Ok None
  else if tailQueueIndex q =? 0 then
    if tailNodeIndex q =? 0 then Ok None
    else
      a <- getq q (tailNodeIndex q - 1) ;;
      s <- gets q (tailNodeIndex q - 1) ;;
      rd q a (s - 1)
  else rd q (tailQueue q) (tailQueueIndex q - 1).

(* Shrink: `for size >= sizes[head] { if shrinkNodeSize >= nodeSize {break}; ...; if head == 0 {break}; head-- }`.
   state of the loop: (q, size, shrinkSize, running) *)
Definition shrink_body (st : sq * Z * Z * bool) : res (sq * Z * Z * bool) :=
  let '(q, size, shr, running) := st in
  if negb running then Ok st
  else
    s <- gets q (headNodeIndex q) ;;
    if size <? s then Ok (q, size, shr, false)
    else if shrinkNodeSize q >=? nodeSize q then Ok (q, size, shr, false)
    else
      let size := size - s in
      let shr := shr + s in
      q <- setq q (headNodeIndex q) None ;;
      q <- sets q (headNodeIndex q) 0 ;;
      let q := set_shrinkNodeSize q (shrinkNodeSize q + 1) in
      if headNodeIndex q =? 0 then Ok (q, size, shr, false)
      else Ok (set_headNodeIndex q (headNodeIndex q - 1), size, shr, true).

Definition Shrink (q : sq) (size : Z) : res (sq * Z) :=
  size <- (if size =? 0 then gets q (headNodeIndex q) else Ok size) ;;
  (* every continuing iteration decrements headNodeIndex and stops at 0; a negative head index panics *)
  st <- iter (Z.to_nat (headNodeIndex q) + 2) shrink_body (q, size, 0, true) ;;
  let '(q, _, shr, running) := st in
  if running then OutOfFuel else Ok (q, shr).

Definition reset_cursors (q : sq) : res sq :=
  let q := set_headNodeIndex q 0 in
  let q := set_headQueueIndex q 0 in
  a <- getq q 0 ;;
  let q := set_headQueue q a in
  a <- getq q 0 ;;
  let q := set_tailQueue q a in
  let q := set_tailNodeIndex q 0 in
  let q := set_tailQueueIndex q 0 in
  s <- gets q 0 ;;
  let q := set_headQueueSize q s in
  s <- gets q 0 ;;
  Ok (set_tailQueueSize q s).

Definition Reset (q : sq) : res sq :=
  q <- iter (Z.to_nat (nodeIndex q - baseNodeSize q + 1)) (free_top false) q ;;
  s <- gets q (nodeIndex q) ;;
  let q := set_queueSize q s in
  q <- reset_cursors q ;;
  Ok (set_rellacTailNodeIndex q 0).

Definition Rellac (q : sq) : res sq :=
  q <- (if rellacTailNodeIndex q >=? tailNodeIndex q then
          (* Go integer division truncates toward zero: Z.quot *)
          let b := rellacTailNodeIndex q + Z.quot (nodeIndex q - rellacTailNodeIndex q) 2 in
          let b := if b <? baseNodeSize q then baseNodeSize q else b in
          q <- iter (Z.to_nat (nodeIndex q - b + 1)) (free_top false) q ;;
          s <- gets q (nodeIndex q) ;;
          Ok (set_queueSize q s)
        else Ok q) ;;
  let q := set_rellacTailNodeIndex q (tailNodeIndex q) in
  reset_cursors q.

(* first loop of Resize: for i := base; i < head; i++ { queues[i] = nil; sizes[i] = 0 } *)
Definition resize_clear (st : sq * Z) : res (sq * Z) :=
  let '(q, i) := st in
  q <- setq q i None ;;
  q <- sets q i 0 ;;
  Ok (q, i + 1).

(* second loop: for i := head; i <= tail; i++ { move node i to i-moveIndex } *)
Definition resize_move (moveIndex : Z) (st : sq * Z) : res (sq * Z) :=
  let '(q, i) := st in
  a <- getq q i ;;
  q <- setq q (i - moveIndex) a ;;
  s <- gets q i ;;
  q <- sets q (i - moveIndex) s ;;
  q <- setq q i None ;;
  q <- sets q i 0 ;;
  Ok (set_nodeIndex q (nodeIndex q + 1), i + 1).

Definition Resize (q : sq) : res sq :=
  if headNodeIndex q <=? baseNodeSize q then Ok q
  else
    '(q, _) <- iter (Z.to_nat (headNodeIndex q - baseNodeSize q)) resize_clear (q, baseNodeSize q) ;;
    let q := set_nodeIndex q (baseNodeSize q - 1) in
    let moveIndex := headNodeIndex q - baseNodeSize q in
    '(q, _) <- iter (Z.to_nat (tailNodeIndex q - headNodeIndex q + 1)) (resize_move moveIndex) (q, headNodeIndex q) ;;
    let q := set_queueSize q (wrap32 (baseQueueSize q * shl1_32 (tailNodeIndex q))) in
    let q := set_headNodeIndex q (headNodeIndex q - moveIndex) in
    Ok (set_tailNodeIndex q (tailNodeIndex q - moveIndex)).

(* body of the compaction loops of Restructuring: lock := queues[j][k]; if lock != nil { queues[j][k] = nil; Push(lock) } *)
Definition restr_slot (q : sq) (j k : Z) : res sq :=
  a <- getq q j ;;
  v <- rd q a k ;;
  match v with
  | None => Ok q
  | Some _ =>
    a <- getq q j ;;
    q <- wr q a k None ;;
    Push q v
  end.

(* for k := 0; k < bound(q); k++ { restr_slot j k }   -- the bound is re-read on every iteration *)
Fixpoint restr_inner (fuel : nat) (bound : sq -> res Z) (j k : Z) (q : sq) : res sq :=
  match fuel with
  | O => OutOfFuel
  | S fuel =>
    b <- bound q ;;
    if k <? b then q <- restr_slot q j k ;; restr_inner fuel bound j (k + 1) q
    else Ok q
  end.

Definition restr_node (st : sq * Z) : res (sq * Z) :=
  let '(q, j) := st in
  s <- gets q j ;;
  q <- restr_inner (Z.to_nat s + 1) (fun q => gets q j) j 0 q ;;
  Ok (q, j + 1).

(* for tailNodeIndex > self.tailNodeIndex+1 { queues[t] = nil; sizes[t] = 0; [nodeIndex--]; t-- } *)
Definition restr_free (decNodeIndex : bool) (st : sq * Z) : res (sq * Z) :=
  let '(q, t) := st in
  q <- setq q t None ;;
  q <- sets q t 0 ;;
  let q := if decNodeIndex then set_nodeIndex q (nodeIndex q - 1) else q in
  Ok (q, t - 1).

Definition Restructuring (q : sq) : res sq :=
  let t := tailNodeIndex q in
  let ti := tailQueueIndex q in
  q <- reset_cursors q ;;
  '(q, _) <- iter (Z.to_nat t) restr_node (q, 0) ;;
  q <- restr_inner (Z.to_nat ti + 1) (fun _ => Ok ti) t 0 q ;;
  '(q, _) <- iter (Z.to_nat (t - (tailNodeIndex q + 1))) (restr_free true) (q, t) ;;
  s <- gets q (nodeIndex q) ;;
  let q := set_queueSize q s in
  Ok (set_rellacTailNodeIndex q 0).

(* db.go restructuringLongTimeOutQueue / restructuringLongExpriedQueue (identical bodies on longLocks.locks;
   the lockCount/freeCount/longWaitIndex bookkeeping of LongWaitLockQueue.Push is outside the queue):
   same compaction, but nodeIndex is NOT decremented and queueSize is recomputed as base * 2^t capped *)
Definition RestructuringLong (q : sq) : res sq :=
  let t := tailNodeIndex q in
  let ti := tailQueueIndex q in
  q <- reset_cursors q ;;
  '(q, _) <- iter (Z.to_nat t) restr_node (q, 0) ;;
  q <- restr_inner (Z.to_nat ti + 1) (fun _ => Ok ti) t 0 q ;;
  '(q, t') <- iter (Z.to_nat (t - (tailNodeIndex q + 1))) (restr_free false) (q, t) ;;
  let s := wrap32 (baseQueueSize q * shl1_32 t') in
  Ok (set_queueSize q (if s >? QUEUE_MAX_MALLOC_SIZE then QUEUE_MAX_MALLOC_SIZE else s)).

(* Len *)
Definition len_body (st : sq * Z * Z) : res (sq * Z * Z) :=
  let '(q, i, acc) := st in
  s <- gets q i ;; Ok (q, i + 1, acc + s).

Definition Len (q : sq) : res Z :=
  if tailNodeIndex q <=? headNodeIndex q then Ok (tailQueueIndex q - headQueueIndex q)
  else
    s <- gets q (headNodeIndex q) ;;
    '(_, _, acc) <- iter (Z.to_nat (tailNodeIndex q - (headNodeIndex q + 1))) len_body
                     (q, headNodeIndex q + 1, s - headQueueIndex q) ;;
    Ok (acc + tailQueueIndex q).

(* IterNodes: self.queues[head : tail+1]; only the number of nodes is used by callers of the three queue types
   (they index with IterNodeQueues).  cap(queues) is approximated by len(queues): differs only when
   tail+1 > len, which the invariant excludes. *)
Definition IterNodes (q : sq) : res Z :=
  l <- lift (zslice (queues q) (headNodeIndex q) (tailNodeIndex q + 1)) ;;
  Ok (Z.of_nat (length l)).

Definition IterNodeQueues (q : sq) (index : Z) : res (list slot) :=
  let n := headNodeIndex q + index in
  a <- getq q n ;;
  if n =? headNodeIndex q then
    if n =? tailNodeIndex q then lift (zslice (arr q a) (headQueueIndex q) (tailQueueIndex q))
    else s <- gets q n ;; lift (zslice (arr q a) (headQueueIndex q) s)
  else if n =? tailNodeIndex q then lift (zslice (arr q a) 0 (tailQueueIndex q))
  else s <- gets q n ;; lift (zslice (arr q a) 0 s).

(* the iteration idiom of db.go/protocol.go/admin.go:
   for i := range q.IterNodes() { nodeQueues := q.IterNodeQueues(int32(i)); ... } *)
Definition iter_body (st : sq * Z * list (list slot)) : res (sq * Z * list (list slot)) :=
  let '(q, i, acc) := st in
  l <- IterNodeQueues q i ;; Ok (q, i + 1, acc ++ [l]).

Definition IterAll (q : sq) : res (list (list slot)) :=
  n <- IterNodes q ;;
  '(_, _, acc) <- iter (Z.to_nat n) iter_body (q, 0, []) ;;
  Ok acc.

(* In-place removal as done by LongWaitLockQueue.Remove (db.go:52): queues[node][idx] = nil, where (node, idx)
   is the slot of the k-th live element counted from the head cursor (the Go code remembers it in
   lock.longWaitIndex at Push time; harness and model both locate it by walking nodeQueueSizes). *)
Fixpoint locate (fuel : nat) (q : sq) (node pos : Z) : option (Z * Z) :=
  match fuel with
  | O => None
  | S fuel =>
    match zget (nodeQueueSizes q) node with
    | None => None
    | Some s => if pos <? s then Some (node, pos) else locate fuel q (node + 1) (pos - s)
    end
  end.

(* returns false ("skip") when k is not a live position *)
Definition Hole (q : sq) (k : Z) : res (sq * bool) :=
  n <- Len q ;;
  if (k <? 0) || (n <=? k) then Ok (q, false)
  else
    match locate (S (length (nodeQueueSizes q))) q (headNodeIndex q) (headQueueIndex q + k) with
    | None => Ok (q, false)
    | Some (node, pos) =>
      a <- getq q node ;;
      q <- wr q a pos None ;;
      Ok (q, true)
    end.

(* ---------- operations and observations ---------- *)
Inductive op : Type :=
| OpPush (v : slot) | OpPushLeft (v : slot) | OpPop | OpPopRight | OpHead | OpTail | OpLen | OpIter
| OpResize | OpRellac | OpRestructuring | OpRestructuringLong | OpReset | OpShrink (n : Z) | OpFree
| OpHole (k : Z) | OpDump.

(* internal-state dump: the correspondence check compares every field with the Go struct *)
Definition alias_of (q : sq) (a : aref) : Z :=
  match a with
  | None => -2
  | Some id =>
    if (length (arr q a) =? 0)%nat then -3
    else
      (fix find (l : list aref) (j : Z) : Z :=
         match l with
         | [] => -1
         | Some id' :: r => if (id' =? id)%nat then j else find r (j + 1)
         | None :: r => find r (j + 1)
         end) (queues q) 0
  end.

Record dump : Type := mkDump {
  d_ints : list Z;       (* hqi hqs tqi tqs hni tni base nodeIndex nodeSize shrink baseQS queueSize rellac *)
  d_sizes : list Z;
  d_lens : list Z;       (* len(queues[i]), -1 for nil *)
  d_halias : Z;
  d_talias : Z
}.

Definition Dump (q : sq) : dump :=
  mkDump [headQueueIndex q; headQueueSize q; tailQueueIndex q; tailQueueSize q; headNodeIndex q; tailNodeIndex q;
          baseNodeSize q; nodeIndex q; nodeSize q; shrinkNodeSize q; baseQueueSize q; queueSize q; rellacTailNodeIndex q]
         (nodeQueueSizes q)
         (map (fun a => match a with None => -1 | Some _ => Z.of_nat (length (arr q a)) end) (queues q))
         (alias_of q (headQueue q)) (alias_of q (tailQueue q)).

Inductive obs : Type :=
| OUnit | OFull | OSkip | OVal (v : slot) | OInt (n : Z) | ONodes (l : list (list slot)) | ODump (d : dump).

Definition step (q : sq) (o : op) : res (sq * obs) :=
  match o with
  | OpPush v => q <- Push q v ;; Ok (q, OUnit)
  | OpPushLeft v => '(q, b) <- PushLeft q v ;; Ok (q, if b then OUnit else OFull)
  | OpPop => '(q, v) <- Pop q ;; Ok (q, OVal v)
  | OpPopRight => '(q, v) <- PopRight q ;; Ok (q, OVal v)
  | OpHead => v <- Head q ;; Ok (q, OVal v)
  | OpTail => v <- Tail q ;; Ok (q, OVal v)
  | OpLen => n <- Len q ;; Ok (q, OInt n)
  | OpIter => l <- IterAll q ;; Ok (q, ONodes l)
  | OpResize => q <- Resize q ;; Ok (q, OUnit)
  | OpRellac => q <- Rellac q ;; Ok (q, OUnit)
  | OpRestructuring => q <- Restructuring q ;; Ok (q, OUnit)
  | OpRestructuringLong => q <- RestructuringLong q ;; Ok (q, OUnit)
  | OpReset => q <- Reset q ;; Ok (q, OUnit)
  | OpShrink n => '(q, r) <- Shrink q n ;; Ok (q, OInt r)
  | OpFree => q <- freeQueue q ;; Ok (q, OUnit)
  | OpHole k => '(q, b) <- Hole q k ;; Ok (q, if b then OUnit else OSkip)
  | OpDump => Ok (q, ODump (Dump q))
  end.

(* observations so far, and how the run ended *)
Inductive ending : Type := EDone | EPanic | EFuel.

Fixpoint run (q : sq) (ops : list op) : list obs * ending * option sq :=
  match ops with
  | [] => ([], EDone, Some q)
  | o :: r =>
    match step q o with
    | Ok (q', ob) => let '(l, e, f) := run q' r in (ob :: l, e, f)
    | Panic => ([], EPanic, None)
    | OutOfFuel => ([], EFuel, None)
    end
  end.

Definition run_new (base nodes size : Z) (ops : list op) : list obs * ending * option sq :=
  match new base nodes size with
  | Ok q => run q ops
  | Panic => ([], EPanic, None)
  | OutOfFuel => ([], EFuel, None)
  end.
