(* Representation invariant and abstraction function of the segmented queue model; heap-level lemmas. *)
From Coq Require Import List ZArith Bool Lia.
From Slock Require Import Queue.SegQueue Queue.ListLemmas.
Import ListNotations.
Open Scope Z_scope.

Definition view (q : sq) : list (list slot) := map (arr q) (queues q).
Definition flat (q : sq) : list slot := concat (view q).
Definition hp (q : sq) : Z := off (nodeQueueSizes q) (Z.to_nat (headNodeIndex q)) + headQueueIndex q.
Definition tp (q : sq) : Z := off (nodeQueueSizes q) (Z.to_nat (tailNodeIndex q)) + tailQueueIndex q.

(* abstraction: the live slots between the cursors, and the left room (slots before the head cursor) *)
Definition abs (q : sq) : list slot := seg (flat q) (hp q) (tp q).
Definition room (q : sq) : Z := hp q.

Definition node_ok (h : list (list slot)) (a : aref) (s : Z) : Prop :=
  match a with
  | None => s = 0
  | Some id => (id < length h)%nat /\ Z.of_nat (length (nth id h [])) = s /\ 1 <= s
  end.

Definition nodes_ok (q : sq) : Prop := Forall2 (node_ok (heap q)) (queues q) (nodeQueueSizes q).

Definition nodup (q : sq) : Prop :=
  forall i j id, nth_error (queues q) i = Some (Some id) -> nth_error (queues q) j = Some (Some id) -> i = j.

Definition POW30 : Z := 1073741824.

(* The invariant does not mention nodeIndex: Push / PushLeft / Pop / PopRight / Head / Tail / Len never read it (they
   only increment it in mallocQueue), and db.go's restructuringLong*Queue leaves it pointing at a freed node
   (finding C20-F3).  Only Reset / Rellac / freeQueue / Restructuring / Resize index with it. *)
Record Inv (q : sq) : Prop := mkInv {
  I_ns : nodeSize q = Z.of_nat (length (queues q));
  I_nodes : nodes_ok q;
  I_nodup : nodup q;
  I_hni : 0 <= headNodeIndex q;
  I_ht : headNodeIndex q <= tailNodeIndex q;
  I_tni : tailNodeIndex q < Z.of_nat (length (queues q));
  I_hqi : 0 <= headQueueIndex q < headQueueSize q;
  I_tqi : 0 <= tailQueueIndex q < tailQueueSize q;
  I_order : headNodeIndex q = tailNodeIndex q -> headQueueIndex q <= tailQueueIndex q;
  I_hq : zget (queues q) (headNodeIndex q) = Some (headQueue q);
  I_hqs : zget (nodeQueueSizes q) (headNodeIndex q) = Some (headQueueSize q);
  I_tq : zget (queues q) (tailNodeIndex q) = Some (tailQueue q);
  I_tqs : zget (nodeQueueSizes q) (tailNodeIndex q) = Some (tailQueueSize q);
  I_alloc : forall i, 0 <= i <= tailNodeIndex q -> exists id, zget (queues q) i = Some (Some id);
  I_base : 1 <= baseNodeSize q;
  I_qs : 1 <= queueSize q < POW30;
  I_szb : Forall (fun s => s < POW30) (nodeQueueSizes q);
  I_clean : Forall (fun x => x = None) (firstn (Z.to_nat (hp q)) (flat q))
}.

(* ---------- consequences of nodes_ok ---------- *)
Lemma nodes_ok_length q : nodes_ok q -> length (nodeQueueSizes q) = length (queues q).
Proof. unfold nodes_ok. intros H. induction H; simpl; auto. Qed.

Lemma Forall2_nth_error {A B} (R : A -> B -> Prop) l l' i a b :
  Forall2 R l l' -> nth_error l i = Some a -> nth_error l' i = Some b -> R a b.
Proof.
  intros H. revert i. induction H; intros i Ha Hb; destruct i; simpl in *; try congruence.
  eauto.
Qed.

Lemma Forall2_nth_error_l {A B} (R : A -> B -> Prop) l l' i a :
  Forall2 R l l' -> nth_error l i = Some a -> exists b, nth_error l' i = Some b /\ R a b.
Proof.
  intros H. revert i. induction H; intros i Ha; destruct i; simpl in *; try congruence.
  - injection Ha as <-. eauto.
  - eauto.
Qed.

Lemma Forall2_nth_error_r {A B} (R : A -> B -> Prop) l l' i b :
  Forall2 R l l' -> nth_error l' i = Some b -> exists a, nth_error l i = Some a /\ R a b.
Proof.
  intros H. revert i. induction H; intros i Hb; destruct i; simpl in *; try congruence.
  - injection Hb as <-. eauto.
  - eauto.
Qed.

Lemma Forall2_impl' {A B} (R R' : A -> B -> Prop) l l' : (forall a b, R a b -> R' a b) -> Forall2 R l l' -> Forall2 R' l l'.
Proof. intros H F. induction F; constructor; auto. Qed.

Lemma node_ok_arr_length q a s : node_ok (heap q) a s -> Z.of_nat (length (arr q a)) = s.
Proof. unfold node_ok, arr. destruct a; simpl; intros; [tauto | lia]. Qed.

Lemma node_ok_nonneg h a s : node_ok h a s -> 0 <= s.
Proof. unfold node_ok. destruct a; intros; lia. Qed.

Lemma sizes_nonneg q : nodes_ok q -> Forall (fun s => 0 <= s) (nodeQueueSizes q).
Proof.
  unfold nodes_ok. intros H. induction H; constructor; auto. eapply node_ok_nonneg; eauto.
Qed.

Lemma view_lengths q : nodes_ok q -> Forall2 (fun n s => Z.of_nat (length n) = s) (view q) (nodeQueueSizes q).
Proof.
  unfold nodes_ok, view. intros H. induction H; simpl; constructor; auto. apply node_ok_arr_length; auto.
Qed.

Lemma offn_off (v : list (list slot)) sz j :
  Forall2 (fun n s => Z.of_nat (length n) = s) v sz -> Z.of_nat (offn v j) = off sz j.
Proof.
  unfold offn, off. intros H. revert j. induction H; intros j; destruct j; simpl; auto.
  rewrite app_length, Nat2Z.inj_add, IHForall2, H. reflexivity.
Qed.

Lemma view_offn q j : nodes_ok q -> Z.of_nat (offn (view q) j) = off (nodeQueueSizes q) j.
Proof. intros. apply offn_off. apply view_lengths; auto. Qed.

Lemma nth_error_view q j a : nth_error (queues q) j = Some a -> nth_error (view q) j = Some (arr q a).
Proof. unfold view. intros. rewrite nth_error_map, H. reflexivity. Qed.

(* ---------- reading and writing a slot of node j ---------- *)
Lemma rd_node q j a s k :
  nodes_ok q -> nth_error (queues q) j = Some a -> nth_error (nodeQueueSizes q) j = Some s -> 0 <= k < s ->
  exists x, rd q a k = Ok x /\ nth_error (flat q) (Z.to_nat (off (nodeQueueSizes q) j + k)) = Some x.
Proof.
  intros N Ha Hs Hk.
  pose proof (Forall2_nth_error _ _ _ _ _ _ N Ha Hs) as OK. apply node_ok_arr_length in OK.
  unfold rd. rewrite zget_some by lia.
  destruct (nth_error (arr q a) (Z.to_nat k)) as [x0|] eqn:E.
  - exists x0. split; auto. unfold flat. rewrite <- (view_offn q j N).
    replace (Z.to_nat (Z.of_nat (offn (view q) j) + k)) with (offn (view q) j + Z.to_nat k)%nat by lia.
    rewrite (concat_nth _ _ _ _ (nth_error_view _ _ _ Ha)); auto. lia.
  - apply nth_error_None in E. lia.
Qed.

Lemma flat_ext q1 q2 : heap q1 = heap q2 -> queues q1 = queues q2 -> flat q1 = flat q2.
Proof. unfold flat, view, arr. intros -> ->. reflexivity. Qed.
Lemma nodes_ok_ext q1 q2 : heap q1 = heap q2 -> queues q1 = queues q2 -> nodeQueueSizes q1 = nodeQueueSizes q2 -> nodes_ok q1 -> nodes_ok q2.
Proof. unfold nodes_ok. intros -> -> ->. auto. Qed.
Lemma nodup_ext q1 q2 : queues q1 = queues q2 -> nodup q1 -> nodup q2.
Proof. unfold nodup. intros ->. auto. Qed.

Lemma wr_node q j a s k v :
  nodes_ok q -> nodup q -> nth_error (queues q) j = Some a -> nth_error (nodeQueueSizes q) j = Some s -> 0 <= k < s ->
  exists h', wr q a k v = Ok (set_heap q h') /\ length h' = length (heap q) /\
    (forall q2, heap q2 = h' -> queues q2 = queues q -> nodeQueueSizes q2 = nodeQueueSizes q -> nodes_ok q2) /\
    (forall q2, heap q2 = h' -> queues q2 = queues q ->
                flat q2 = upd (flat q) (Z.to_nat (off (nodeQueueSizes q) j + k)) v).
Proof.
  intros N D Ha Hs Hk.
  pose proof (Forall2_nth_error _ _ _ _ _ _ N Ha Hs) as OK.
  destruct a as [id|]; [|simpl in OK; lia].
  pose proof (node_ok_arr_length _ _ _ OK) as L. simpl in OK. destruct OK as (Hid & Hlen & Hs1).
  unfold wr. rewrite zset_some by lia.
  eexists. split; [reflexivity|]. split; [apply upd_length|]. split.
  - (* nodes_ok *)
    intros q2 E1 E2 E3. apply (nodes_ok_ext (set_heap q (upd (heap q) id (upd (arr q (Some id)) (Z.to_nat k) v)))); auto.
    unfold nodes_ok in *. cbn. eapply Forall2_impl'; [|exact N].
    intros a' s' H. unfold node_ok in *. destruct a' as [id'|]; auto.
    rewrite upd_length. destruct H as (H1 & H2 & H3). split; auto. split; auto.
    destruct (Nat.eq_dec id' id).
    + subst. rewrite nth_upd_same by auto. rewrite upd_length. auto.
    + rewrite nth_upd_other by auto. auto.
  - intros q2 E1 E2. rewrite (flat_ext q2 (set_heap q (upd (heap q) id (upd (arr q (Some id)) (Z.to_nat k) v)))) by auto.
    unfold flat.
    assert (V : view (set_heap q (upd (heap q) id (upd (arr q (Some id)) (Z.to_nat k) v)))
                = upd (view q) j (upd (arr q (Some id)) (Z.to_nat k) v)).
    { unfold view. cbn [queues set_heap]. apply nth_error_ext'. intros i.
      rewrite nth_error_map. rewrite nth_error_upd, map_length.
      destruct (Nat.eqb_spec i j).
      - subst. rewrite Ha. destruct (Nat.ltb_spec j (length (queues q))).
        + cbn. unfold arr. cbn [heap set_heap]. rewrite nth_upd_same by auto. reflexivity.
        + apply nth_error_None in H. congruence.
      - rewrite nth_error_map. destruct (nth_error (queues q) i) as [a'|] eqn:E; auto. cbn. f_equal.
        unfold arr. destruct a' as [id'|]; auto. cbn [heap set_heap].
        destruct (Nat.eq_dec id' id); [subst; exfalso; apply n; eapply D; eauto|].
        rewrite nth_upd_other by auto. reflexivity. }
    rewrite V. rewrite <- (view_offn q j N).
    replace (Z.to_nat (Z.of_nat (offn (view q) j) + k)) with (offn (view q) j + Z.to_nat k)%nat by lia.
    apply concat_upd; [apply nth_error_view; auto | lia].
Qed.

(* ---------- positions ---------- *)
Lemma zget_inv {A} (l : list A) i x : zget l i = Some x -> 0 <= i /\ nth_error l (Z.to_nat i) = Some x /\ i < Z.of_nat (length l).
Proof.
  unfold zget. destruct (Z.ltb_spec i 0); [congruence|]. intros E. split; auto. split; auto.
  assert (nth_error l (Z.to_nat i) <> None) by congruence. apply nth_error_Some in H0. lia.
Qed.

Lemma flat_length q : nodes_ok q -> Z.of_nat (length (flat q)) = off (nodeQueueSizes q) (length (queues q)).
Proof.
  intros N. rewrite <- (view_offn q _ N). unfold offn, flat. f_equal. f_equal.
  rewrite firstn_all2; auto. unfold view. rewrite map_length. lia.
Qed.

Lemma off_le_flat q j : nodes_ok q -> off (nodeQueueSizes q) j <= Z.of_nat (length (flat q)).
Proof.
  intros N. rewrite flat_length by auto.
  destruct (Nat.le_gt_cases j (length (queues q))).
  - apply off_mono; auto. apply sizes_nonneg; auto.
  - pose proof (nodes_ok_length q N). unfold off. rewrite !firstn_all2; lia.
Qed.

Lemma node_end_le_flat q j s : nodes_ok q -> nth_error (nodeQueueSizes q) j = Some s ->
  off (nodeQueueSizes q) j + s <= Z.of_nat (length (flat q)).
Proof. intros N H. rewrite <- (off_S _ _ _ H). apply off_le_flat; auto. Qed.

Lemma Inv_pos q : Inv q ->
  0 <= hp q /\ hp q <= tp q /\ tp q < Z.of_nat (length (flat q)) /\
  (if is_empty q then hp q = tp q else hp q < tp q) /\
  nth_error (nodeQueueSizes q) (Z.to_nat (headNodeIndex q)) = Some (headQueueSize q) /\
  nth_error (nodeQueueSizes q) (Z.to_nat (tailNodeIndex q)) = Some (tailQueueSize q) /\
  nth_error (queues q) (Z.to_nat (headNodeIndex q)) = Some (headQueue q) /\
  nth_error (queues q) (Z.to_nat (tailNodeIndex q)) = Some (tailQueue q).
Proof.
  intros I. destruct I.
  apply zget_inv in I_hqs0, I_tqs0, I_hq0, I_tq0.
  destruct I_hqs0 as (_ & Hhs & _), I_tqs0 as (_ & Hts & _), I_hq0 as (_ & Hh & _), I_tq0 as (_ & Ht & _).
  pose proof (sizes_nonneg q I_nodes0) as NN.
  pose proof (off_nonneg _ (Z.to_nat (headNodeIndex q)) NN).
  pose proof (node_end_le_flat q _ _ I_nodes0 Hts).
  unfold hp, tp.
  assert (LE : off (nodeQueueSizes q) (Z.to_nat (headNodeIndex q)) + headQueueIndex q
               <= off (nodeQueueSizes q) (Z.to_nat (tailNodeIndex q)) + tailQueueIndex q /\
               (headNodeIndex q < tailNodeIndex q ->
                off (nodeQueueSizes q) (Z.to_nat (headNodeIndex q)) + headQueueIndex q
                < off (nodeQueueSizes q) (Z.to_nat (tailNodeIndex q)) + tailQueueIndex q)).
  { destruct (Z.eq_dec (headNodeIndex q) (tailNodeIndex q)) as [E|E].
    - rewrite E in *. specialize (I_order0 eq_refl). split; lia.
    - pose proof (off_S _ _ _ Hhs).
      pose proof (off_mono (nodeQueueSizes q) (S (Z.to_nat (headNodeIndex q))) (Z.to_nat (tailNodeIndex q)) NN ltac:(lia)).
      split; lia. }
  destruct LE as [LE LT].
  repeat split; auto; try lia.
  unfold is_empty.
  destruct (Z.leb_spec (tailQueueIndex q) (headQueueIndex q)); destruct (Z.leb_spec (tailNodeIndex q) (headNodeIndex q)); cbn.
  - assert (E : headNodeIndex q = tailNodeIndex q) by lia. rewrite E in *. specialize (I_order0 eq_refl). lia.
  - apply LT. lia.
  - assert (E : headNodeIndex q = tailNodeIndex q) by lia. rewrite E in *. lia.
  - apply LT. lia.
Qed.

Lemma abs_length q : Inv q -> Z.of_nat (length (abs q)) = tp q - hp q.
Proof.
  intros I. destruct (Inv_pos q I) as (H0 & H1 & H2 & _). unfold abs. rewrite seg_length; lia.
Qed.
