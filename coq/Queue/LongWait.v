(* Executable model of the long-wait tables of /repo/server/db.go:
     LongWaitLockQueue (db.go:19-60), LongWaitLockFreeQueue (db.go:62-104) and the LockDB code that drives them:
     AddTimeOut / AddExpried (long branch), RemoveLongTimeOut / RemoveLongExpried (Remove + restructure trigger),
     restructuringLongTimeOutQueue / restructuringLongExpriedQueue (textually identical modulo the table name,
     re-checked on every run by checks/C20.py), and the consumer idiom of checkTimeTimeOut / checkTimeExpried /
     flushTimeOut / flushExpried ("n := Len(); n times Pop(), skip nil; delete from the table; FreeLongWaitLockQueue").

   LongWaitLockQueue embeds a LockQueue of queue.go = Slock.Queue.SegQueue.sq (same heap model, same Panic outcomes).
   A *Lock is a lock id (N); its field longWaitIndex (uint64) lives in a separate store `istore` (locks are shared heap
   objects).  lockCount / freeCount are int32 in Go and unbounded Z here (increments assumed < 2^31, as for the queue
   cursors); glockIndex is not modelled (one shard).  The table is a Go map keyed by the time bucket; its iteration
   order is never observed (every operation is keyed). *)
From Coq Require Import List ZArith NArith Bool Lia.
From Slock Require Import Queue.SegQueue.
Import ListNotations.
Open Scope Z_scope.

(* ---------- lock.longWaitIndex ---------- *)
Definition istore := N -> Z.
Definition iset (st : istore) (x : N) (v : Z) : istore := fun y => if N.eqb y x then v else st y.

Definition P32 : Z := 4294967296.
Definition P64 : Z := 18446744073709551616.
(* uint64(node)<<32 | uint64(idx1)   for int32 node, idx1 (conversion int32 -> uint64 = mod 2^64) *)
Definition enc (node idx1 : Z) : Z := Z.lor (((node mod P64) * P32) mod P64) (idx1 mod P64).
Definition dec_node (i : Z) : Z := wrap32 (i / P32).       (* int32(i >> 32) *)
Definition dec_idx1 (i : Z) : Z := wrap32 (i mod P32).     (* int32(i & 0xffffffff) *)

(* ---------- LongWaitLockQueue ---------- *)
Record lwq : Type := mkLW { lw_locks : sq; lw_time : Z; lw_count : Z; lw_free : Z }.
Definition set_locks (l : lwq) (q : sq) : lwq := mkLW q (lw_time l) (lw_count l) (lw_free l).

Definition lw_new (base nodes size time : Z) : res lwq := q <- new base nodes size ;; Ok (mkLW q time 0 0).

(* Push: lock.longWaitIndex = tailNodeIndex<<32 | tailQueueIndex+1; locks.Push(lock) (never an error); lockCount++ *)
Definition lw_push (st : istore) (l : lwq) (x : N) : res (lwq * istore) :=
  let q := lw_locks l in
  let st := iset st x (enc (tailNodeIndex q) (tailQueueIndex q + 1)) in
  q <- Push q (Some x) ;;
  Ok (mkLW q (lw_time l) (lw_count l + 1) (lw_free l), st).

(* Pop: nil (hole or empty) changes no counter; the head cursor has moved all the same *)
Definition lw_pop (st : istore) (l : lwq) : res (lwq * istore * slot) :=
  '(q, v) <- Pop (lw_locks l) ;;
  match v with
  | None => Ok (set_locks l q, st, None)
  | Some x => Ok (mkLW q (lw_time l) (lw_count l - 1) (lw_free l), iset st x 0, Some x)
  end.

(* Remove: locks.queues[int32(idx>>32)][int32(idx&0xffffffff)-1] = nil; freeCount++; lock.longWaitIndex = 0 *)
Definition lw_remove (st : istore) (l : lwq) (x : N) : res (lwq * istore) :=
  let q := lw_locks l in
  let i := st x in
  a <- getq q (dec_node i) ;;
  q <- wr q a (dec_idx1 i - 1) None ;;
  Ok (mkLW q (lw_time l) (lw_count l) (lw_free l + 1), iset st x 0).

Definition lw_len (l : lwq) : res Z := Len (lw_locks l).

(* ---------- restructuringLongTimeOutQueue / restructuringLongExpriedQueue, without the final `if Len() == 0` ---------- *)
(* lock := queues[j][k]; if lock == nil { continue }; queues[j][k] = nil; longLocks.Push(lock) *)
Definition lwr_slot (j k : Z) (s : lwq * istore) : res (lwq * istore) :=
  let '(l, st) := s in
  a <- getq (lw_locks l) j ;;
  v <- rd (lw_locks l) a k ;;
  match v with
  | None => Ok s
  | Some x =>
    a <- getq (lw_locks l) j ;;
    q <- wr (lw_locks l) a k None ;;
    lw_push st (set_locks l q) x
  end.

(* for k := 0; k < bound; k++ { ... }   -- the bound is re-read on every iteration *)
Fixpoint lwr_inner (fuel : nat) (bound : sq -> res Z) (j k : Z) (s : lwq * istore) : res (lwq * istore) :=
  match fuel with
  | O => OutOfFuel
  | S fuel =>
    b <- bound (lw_locks (fst s)) ;;
    if k <? b then s <- lwr_slot j k s ;; lwr_inner fuel bound j (k + 1) s
    else Ok s
  end.

Definition lwr_node (st : lwq * istore * Z) : res (lwq * istore * Z) :=
  let '(s, j) := st in
  sz <- gets (lw_locks (fst s)) j ;;
  s <- lwr_inner (Z.to_nat sz + 1) (fun q => gets q j) j 0 s ;;
  Ok (s, j + 1).

Definition lw_restructure (st : istore) (l : lwq) : res (lwq * istore) :=
  let t := tailNodeIndex (lw_locks l) in
  let ti := tailQueueIndex (lw_locks l) in
  q <- reset_cursors (lw_locks l) ;;
  let l := mkLW q (lw_time l) 0 0 in
  '(s, _) <- iter (Z.to_nat t) lwr_node (l, st, 0) ;;
  s <- lwr_inner (Z.to_nat ti + 1) (fun _ => Ok ti) t 0 s ;;
  let '(l, st) := s in
  (* for tailNodeIndex > locks.tailNodeIndex+1 { queues[t] = nil; sizes[t] = 0; t-- }  -- nodeIndex is NOT decremented *)
  '(q, t') <- iter (Z.to_nat (t - (tailNodeIndex (lw_locks l) + 1))) (restr_free false) (lw_locks l, t) ;;
  let sz := wrap32 (baseQueueSize q * shl1_32 t') in
  Ok (set_locks l (set_queueSize q (if sz >? QUEUE_MAX_MALLOC_SIZE then QUEUE_MAX_MALLOC_SIZE else sz)), st).

(* the trigger of RemoveLongTimeOut / RemoveLongExpried (db.go:1670, 1854); LONG_LOCKS_QUEUE_INIT_SIZE = 256 *)
Definition LONG_LOCKS_QUEUE_INIT_SIZE : Z := 256.
Definition lw_trigger (l : lwq) : bool :=
  (lw_free l * 3 >=? lw_count l) && ((lw_free l >=? lw_count l) || (lw_free l >=? LONG_LOCKS_QUEUE_INIT_SIZE)).

(* ---------- LongWaitLockFreeQueue ---------- *)
Record lwfree : Type := mkFQ { fq_slots : list (option lwq); fq_index : Z; fq_max : Z }.

(* &LongWaitLockFreeQueue{make([]*LongWaitLockQueue, n), -1, n - 1}   (db.go:518, n = FREE_LONG_WAIT_QUEUE_INIT_SIZE) *)
Definition fq_new (n : Z) : lwfree := mkFQ (repeat None (Z.to_nat n)) (-1) (n - 1).

Definition fq_get (f : lwfree) (time : Z) : res (lwfree * lwq) :=
  if fq_index f <? 0 then l <- lw_new 4 64 LONG_LOCKS_QUEUE_INIT_SIZE time ;; Ok (f, l)
  else
    o <- lift (zget (fq_slots f) (fq_index f)) ;;
    sl <- lift (zset (fq_slots f) (fq_index f) None) ;;
    match o with
    | None => Panic                                     (* longLocks.lockTime on a nil pointer *)
    | Some l => Ok (mkFQ sl (fq_index f - 1) (fq_max f), mkLW (lw_locks l) time 0 0)
    end.

Definition fq_free (f : lwfree) (l : lwq) (now : Z) : res lwfree :=
  if fq_index f <? fq_max f then
    q <- Reset (lw_locks l) ;;
    sl <- lift (zset (fq_slots f) (fq_index f + 1) (Some (mkLW q now (-1) (-1)))) ;;
    Ok (mkFQ sl (fq_index f + 1) (fq_max f))
  else Ok f.

Definition fq_pop (f : lwfree) : res (lwfree * bool) :=
  if fq_index f <? 0 then Ok (f, false)
  else
    o <- lift (zget (fq_slots f) (fq_index f)) ;;
    sl <- lift (zset (fq_slots f) (fq_index f) None) ;;
    Ok (mkFQ sl (fq_index f - 1) (fq_max f), match o with Some _ => true | None => false end).

Definition fq_len (f : lwfree) : Z := fq_index f + 1.

(* ---------- the table (longTimeoutLocks[glockIndex] / longExpriedLocks[glockIndex]) ---------- *)
Definition tmap := list (Z * lwq).
Fixpoint tm_get (m : tmap) (t : Z) : option lwq :=
  match m with [] => None | (k, l) :: r => if k =? t then Some l else tm_get r t end.
Fixpoint tm_del (m : tmap) (t : Z) : tmap :=
  match m with [] => [] | (k, l) :: r => if k =? t then tm_del r t else (k, l) :: tm_del r t end.
Definition tm_set (m : tmap) (t : Z) (l : lwq) : tmap := (t, l) :: tm_del m t.
Fixpoint insert_sorted (k : Z) (l : list Z) : list Z :=
  match l with [] => [k] | a :: r => if k <=? a then k :: l else a :: insert_sorted k r end.
Definition tm_keys (m : tmap) : list Z := fold_right insert_sorted [] (map fst m).

Record lwtab : Type := mkTab { tb_map : tmap; tb_free : lwfree; tb_st : istore; tb_now : Z }.

(* restructuringLong*Queue as a LockDB method: the queue is a pointer held by the table under key t (= its lockTime) *)
Definition tb_restructure (tb : lwtab) (t : Z) (l : lwq) : res lwtab :=
  '(l, st) <- lw_restructure (tb_st tb) l ;;
  let m := tm_set (tb_map tb) t l in
  n <- lw_len l ;;
  if n =? 0 then
    f <- fq_free (tb_free tb) l (tb_now tb) ;;
    Ok (mkTab (tm_del m (lw_time l)) f st (tb_now tb))
  else Ok (mkTab m (tb_free tb) st (tb_now tb)).

Inductive gop : Type :=
| GInstall (t : Z)              (* harness only: NewLongWaitLockQueue(base, nodes, size, 0, t) under key t *)
| GAdd (t : Z) (x : N)          (* AddTimeOut / AddExpried, long branch *)
| GRemove (t : Z) (x : N)       (* RemoveLongTimeOut / RemoveLongExpried (callers test longWaitIndex > 0) *)
| GRawRemove (t : Z) (x : N)    (* LongWaitLockQueue.Remove alone *)
| GRestructure (t : Z)          (* restructuringLong*Queue alone *)
| GPop (t : Z) | GLen (t : Z) | GConsume (t : Z)
| GFreeLen | GFreePop | GIndex (x : N) | GKeys | GDump (t : Z).

Inductive gobs : Type :=
| GUnit | GUnitS | GSkip | GVal (v : slot) | GLens (n c f : Z) | GList (l : list N) | GInt (n : Z) | GBool (b : bool)
| GIdx (i : Z) | GKeyList (l : list Z) | GDumpObs (d : SegQueue.dump) (time count free : Z).

(* n times Pop(), keeping the non-nil results *)
Fixpoint consume (n : nat) (st : istore) (l : lwq) (acc : list N) : res (lwq * istore * list N) :=
  match n with
  | O => Ok (l, st, acc)
  | S n =>
    '(l, st, v) <- lw_pop st l ;;
    consume n st l (match v with Some x => acc ++ [x] | None => acc end)
  end.

Definition gstep (base nodes size : Z) (tb : lwtab) (o : gop) : res (lwtab * gobs) :=
  let m := tb_map tb in
  let st := tb_st tb in
  match o with
  | GInstall t =>
    match tm_get m t with
    | Some _ => Ok (tb, GSkip)
    | None => l <- lw_new base nodes size t ;; Ok (mkTab (tm_set m t l) (tb_free tb) st (tb_now tb), GUnit)
    end
  | GAdd t x =>
    '(f, l) <- match tm_get m t with
               | Some l => Ok (tb_free tb, l)
               | None => fq_get (tb_free tb) t
               end ;;
    '(l, st) <- lw_push st l x ;;
    Ok (mkTab (tm_set m t l) f st (tb_now tb), GUnit)
  | GRemove t x =>
    match tm_get m t with
    | Some l =>
      if 0 <? st x then
        '(l, st) <- lw_remove st l x ;;
        let tb := mkTab (tm_set m t l) (tb_free tb) st (tb_now tb) in
        if lw_trigger l then tb <- tb_restructure tb t l ;; Ok (tb, GUnitS) else Ok (tb, GUnit)
      else Ok (tb, GSkip)
    | None => Ok (tb, GSkip)
    end
  | GRawRemove t x =>
    match tm_get m t with
    | Some l =>
      if 0 <? st x then
        '(l, st) <- lw_remove st l x ;;
        Ok (mkTab (tm_set m t l) (tb_free tb) st (tb_now tb), GUnit)
      else Ok (tb, GSkip)
    | None => Ok (tb, GSkip)
    end
  | GRestructure t =>
    match tm_get m t with
    | Some l => tb <- tb_restructure tb t l ;; Ok (tb, GUnit)
    | None => Ok (tb, GSkip)
    end
  | GPop t =>
    match tm_get m t with
    | Some l => '(l, st, v) <- lw_pop st l ;; Ok (mkTab (tm_set m t l) (tb_free tb) st (tb_now tb), GVal v)
    | None => Ok (tb, GSkip)
    end
  | GLen t =>
    match tm_get m t with
    | Some l => n <- lw_len l ;; Ok (tb, GLens n (lw_count l) (lw_free l))
    | None => Ok (tb, GSkip)
    end
  | GConsume t =>
    match tm_get m t with
    | Some l =>
      n <- lw_len l ;;
      '(l, st, got) <- consume (Z.to_nat n) st l [] ;;
      f <- fq_free (tb_free tb) l (tb_now tb) ;;
      Ok (mkTab (tm_del m t) f st (tb_now tb), GList got)
    | None => Ok (tb, GSkip)
    end
  | GFreeLen => Ok (tb, GInt (fq_len (tb_free tb)))
  | GFreePop => '(f, b) <- fq_pop (tb_free tb) ;; Ok (mkTab m f st (tb_now tb), GBool b)
  | GIndex x => Ok (tb, GIdx (st x))
  | GKeys => Ok (tb, GKeyList (tm_keys m))
  | GDump t =>
    match tm_get m t with
    | Some l => Ok (tb, GDumpObs (Dump (lw_locks l)) (lw_time l) (lw_count l) (lw_free l))
    | None => Ok (tb, GSkip)
    end
  end.

Fixpoint grun (base nodes size : Z) (tb : lwtab) (ops : list gop) : list gobs * ending :=
  match ops with
  | [] => ([], EDone)
  | o :: r =>
    match gstep base nodes size tb o with
    | Ok (tb', ob) => let '(l, e) := grun base nodes size tb' r in (ob :: l, e)
    | Panic => ([], EPanic)
    | OutOfFuel => ([], EFuel)
    end
  end.

Definition run_long (base nodes size maxfree : Z) (ops : list gop) : list gobs * ending :=
  grun base nodes size (mkTab [] (fq_new maxfree) (fun _ => 0) 0) ops.

(* ---------- one LongWaitLockQueue under an arbitrary mix of its operations ---------- *)
Inductive lop : Type :=
| LPush (x : N)             (* LongWaitLockQueue.Push *)
| LRemove (x : N)           (* LongWaitLockQueue.Remove *)
| LRemovePolicy (x : N)     (* RemoveLongTimeOut / RemoveLongExpried: Remove, then restructure when the trigger holds *)
| LPop | LLen
| LRestructure              (* restructuringLong*Queue (without the final release of an empty queue) *)
| LConsume.                 (* n := Len(); n times Pop(), keeping the non-nil results *)

Inductive lobs : Type := LUnit | LRestr (b : bool) | LVal (v : slot) | LLens (n c f : Z) | LList (l : list N).

Definition lw_step (st : istore) (l : lwq) (o : lop) : res (lwq * istore * lobs) :=
  match o with
  | LPush x => '(l, st) <- lw_push st l x ;; Ok (l, st, LUnit)
  | LRemove x => '(l, st) <- lw_remove st l x ;; Ok (l, st, LUnit)
  | LRemovePolicy x =>
    '(l, st) <- lw_remove st l x ;;
    if lw_trigger l then '(l, st) <- lw_restructure st l ;; Ok (l, st, LRestr true) else Ok (l, st, LRestr false)
  | LPop => '(l, st, v) <- lw_pop st l ;; Ok (l, st, LVal v)
  | LLen => n <- lw_len l ;; Ok (l, st, LLens n (lw_count l) (lw_free l))
  | LRestructure => '(l, st) <- lw_restructure st l ;; Ok (l, st, LUnit)
  | LConsume => n <- lw_len l ;; '(l, st, got) <- consume (Z.to_nat n) st l [] ;; Ok (l, st, LList got)
  end.

Fixpoint lw_run (st : istore) (l : lwq) (ops : list lop) : list lobs * ending :=
  match ops with
  | [] => ([], EDone)
  | o :: r =>
    match lw_step st l o with
    | Ok (l', st', ob) => let '(obs, e) := lw_run st' l' r in (ob :: obs, e)
    | Panic => ([], EPanic)
    | OutOfFuel => ([], EFuel)
    end
  end.

Definition lw_run_new (base nodes size : Z) (ops : list lop) : list lobs * ending :=
  match lw_new base nodes size 0 with
  | Ok l => lw_run (fun _ => 0) l ops
  | Panic => ([], EPanic)
  | OutOfFuel => ([], EFuel)
  end.
